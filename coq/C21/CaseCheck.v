(* C21 — the per-case check evaluated by vm_compute on every generated case (props/C21/check.py).
   Definitions only.  The variant is the one found in the tree under test (GenHooks.gen_variant). *)
From Coq Require Import List Bool Arith String.
Import ListNotations.
From PV Require Import C21.Model C21.Safe C21.Corr C21.Rules C21.RulesCheck C21.GenHooks.
Local Open Scope string_scope.

Definition flat_obs (l : list obs_event) : list (string * argshape) := flat_map snd l.
Definition slot_eqb_nokind (a b : string * argshape) : bool :=
  String.eqb (fst a) (fst b) && ity_eqb (a_ty (snd a)) (a_ty (snd b)) &&
  Nat.eqb (a_rank (snd a)) (a_rank (snd b)) && intent_eqb (a_intent (snd a)) (a_intent (snd b)).
(* the documented list (role tag, type, rank, intent) against what a class was OBSERVED to produce *)
Definition doc_agrees_obs (c : metadata * list obs_event) : bool :=
  list_eqb slot_eqb_nokind (map (fun s => (role_tag (fst s), snd s)) (doc_list (fst c))) (flat_obs (snd c)).

(* flags computed by the harness: the metadata was parsed by the implementation; the Python mirror's
   verdicts for safe (strict / mixed precision) and rules_safe *)
Definition case_ok (c : metadata * option (list obs_event) * stub_obs * (bool * (bool * bool * bool))) : bool :=
  let '(m, oc, os, (parsed, (s1, s2, r))) := c in
  let v := gen_variant in
  check v (m, oc, os) &&
  implb parsed (md_valid m) &&
  Bool.eqb s1 (safe v true m) && Bool.eqb s2 (safe v false m) && Bool.eqb r (rules_safe v m) &&
  (* theorems re-evaluated on the case *)
  (negb (rules_safe v m) || doc_matches_call v m) &&
  (* the user guide against the observed implementation *)
  (negb (rules_safe v m) ||
   match oc with Some l => doc_agrees_obs (m, l) | None => true end) &&
  (negb (rules_safe v m && safe v false m) ||
   match os with StubEvents l => doc_agrees_obs (m, l) | _ => true end).

(* diagnosis of a failing case: which conjunct *)
Definition case_diag (c : metadata * option (list obs_event) * stub_obs * (bool * (bool * bool * bool)))
  : list bool :=
  let '(m, oc, os, (parsed, (s1, s2, r))) := c in
  let v := gen_variant in
  [check v (m, oc, StubUnknown); check v (m, None, os); implb parsed (md_valid m);
   Bool.eqb s1 (safe v true m); Bool.eqb s2 (safe v false m); Bool.eqb r (rules_safe v m);
   negb (rules_safe v m) || doc_matches_call v m;
   negb (rules_safe v m) || match oc with Some l => doc_agrees_obs (m, l) | None => true end;
   negb (rules_safe v m && safe v false m) || match os with StubEvents l => doc_agrees_obs (m, l) | _ => true end].
