(* C21 — proofs: per-hook agreement of KernCallArgList and KernStubArgList, lifted to the whole
   argument list for ALL metadata satisfying [safe]; refutation of the unrestricted statement. *)
From Coq Require Import List Bool Arith Lia.
Import ListNotations.
From PV Require Import C21.Model C21.Safe.

(* ------------------------------------------------------------------ small facts *)
Lemma kind_eqb_eq : forall a b, kind_eqb a b = true -> a = b.
Proof. intros a b H; destruct a, b; simpl in H; congruence. Qed.

Lemma forallb_flat_map : forall {A B} (p : B -> bool) (f : A -> list B) (l : list A),
  forallb p (flat_map f l) = forallb (fun x => forallb p (f x)) l.
Proof.
  intros A B p f l; induction l as [|x r IH]; simpl; [reflexivity|].
  rewrite forallb_app, IH; reflexivity.
Qed.

Lemma flat_map_ext_forallb : forall {A B} (p : A -> bool) (f g : A -> list B) (l : list A),
  (forall x, p x = true -> f x = g x) -> forallb p l = true -> flat_map f l = flat_map g l.
Proof.
  intros A B p f g l Hfg; induction l as [|x r IH]; simpl; intros H; [reflexivity|].
  apply andb_prop in H; destruct H as [Hx Hr].
  rewrite (Hfg x Hx), (IH Hr); reflexivity.
Qed.

Lemma flat_map_map_ext_forallb : forall {A B C} (p : A -> bool) (h : B -> C) (f g : A -> list B) (l : list A),
  (forall x, p x = true -> map h (f x) = map h (g x)) -> forallb p l = true ->
  map h (flat_map f l) = map h (flat_map g l).
Proof.
  intros A B C p h f g l Hfg; induction l as [|x r IH]; simpl; intros H; [reflexivity|].
  apply andb_prop in H; destruct H as [Hx Hr].
  rewrite !map_app, (Hfg x Hx), (IH Hr); reflexivity.
Qed.

(* ------------------------------------------------------------------ basis / diff-basis hook *)
Section BasisOrder.
  Variables (Q : shape -> slot) (E : fspace -> slot) (targets : list fspace).
  Lemma basis_order_gen : forall l seen, quad_then_eval seen l = true ->
    map Q (dedup shape_eqb seen (filter is_quad l)) ++
    (if existsb (shape_eqb Evaluator) l then map E targets else []) =
    flat_map (fun s => if is_quad s then [Q s] else map E targets) l.
  Proof.
    induction l as [|s r IH]; intros seen H; [reflexivity|].
    cbn [quad_then_eval] in H. cbn [filter flat_map existsb].
    destruct (is_quad s) eqn:Hq.
    - apply andb_prop in H; destruct H as [Hn Hr].
      apply negb_true_iff in Hn. cbn [dedup]. rewrite Hn. cbn [map app].
      assert (He : shape_eqb Evaluator s = false) by (destruct s; simpl in *; congruence).
      rewrite He. cbn [orb]. rewrite (IH _ Hr). reflexivity.
    - destruct r as [|s' r']; [|discriminate].
      assert (He : shape_eqb Evaluator s = true) by (destruct s; simpl in *; congruence).
      rewrite He. cbn. rewrite app_nil_r. reflexivity.
  Qed.
  Lemma basis_order : forall l, quad_then_eval [] l = true ->
    basis_quadrature_first Q E l targets = basis_in_shape_order Q E l targets.
  Proof. intros l H. unfold basis_quadrature_first, basis_in_shape_order, uniq_shape. apply basis_order_gen, H. Qed.
End BasisOrder.

Lemma dedup_quads : forall l seen, quad_then_eval seen l = true ->
  dedup shape_eqb seen (filter is_quad l) = filter is_quad l.
Proof.
  induction l as [|s r IH]; intros seen H; [reflexivity|].
  cbn [quad_then_eval] in H. cbn [filter]. destruct (is_quad s) eqn:Hq.
  - apply andb_prop in H; destruct H as [Hn Hr]. apply negb_true_iff in Hn.
    cbn [dedup]. rewrite Hn, (IH _ Hr). reflexivity.
  - destruct r; [reflexivity|discriminate].
Qed.

(* ------------------------------------------------------------------ per-hook agreement *)
Lemma event_agree_ : forall v e, ev_ok v true e = true -> call_args v e = stub_args v e.
Proof.
  intros v e H; destruct e; cbn [ev_ok kind_ok negb orb] in H; cbn [call_args stub_args];
    try reflexivity; try discriminate.
  - destruct o; simpl in *; congruence.
  - apply kind_eqb_eq in H; subst; reflexivity.
  - apply kind_eqb_eq in H; subst; reflexivity.
  - destruct (v_sizes_per_arg v); [reflexivity|]. cbn in H. apply negb_true_iff in H; subst; reflexivity.
  - destruct (v_sizes_per_arg v); [reflexivity|]. cbn in H. subst; reflexivity.
  - apply kind_eqb_eq in H; subst; reflexivity.
  - apply kind_eqb_eq in H; subst; reflexivity.
  - destruct o; simpl in *; congruence.
  - destruct o; simpl in *; congruence.
  - destruct (v_basis_in_shape_order v); [reflexivity|]. apply basis_order; exact H.
  - destruct (v_basis_in_shape_order v); [reflexivity|]. apply basis_order; exact H.
Qed.

Lemma vec_slots_erase : forall n i c a b,
  a_ty a = a_ty b -> a_rank a = a_rank b -> a_intent a = a_intent b ->
  map erase_kind (vec_slots i a c n) = map erase_kind (vec_slots i b c n).
Proof.
  induction n as [|n IH]; intros i c a b H1 H2 H3; [reflexivity|].
  cbn [vec_slots map]. rewrite (IH i (S c) a b H1 H2 H3).
  unfold erase_kind; cbn [fst snd]; rewrite H1, H2, H3; reflexivity.
Qed.

Lemma event_agree_modkind_ : forall v e, ev_ok v false e = true ->
  map erase_kind (call_args v e) = map erase_kind (stub_args v e).
Proof.
  intros v e H; destruct e; cbn [ev_ok kind_ok negb orb] in H; cbn [call_args stub_args];
    try reflexivity; try discriminate.
  - destruct o; simpl in *; congruence.
  - apply vec_slots_erase; reflexivity.
  - destruct (v_sizes_per_arg v); [reflexivity|]. cbn in H. apply negb_true_iff in H; subst; reflexivity.
  - destruct (v_sizes_per_arg v); [reflexivity|]. cbn in H. subst; reflexivity.
  - destruct o; simpl in *; congruence.
  - destruct o; simpl in *; congruence.
  - destruct (v_basis_in_shape_order v); [reflexivity|]. f_equal. apply basis_order; exact H.
  - destruct (v_basis_in_shape_order v); [reflexivity|]. f_equal. apply basis_order; exact H.
Qed.

(* ------------------------------------------------------------------ safe metadata => every event ok *)
Lemma args_events_ok : forall v strict arr l i,
  forallb (arg_default strict) l = true ->
  v_sizes_per_arg v || forallb (stencil_consistent arr) l = true ->
  forallb (ev_ok v strict) (args_events arr i l) = true.
Proof.
  intros v strict arr l; induction l as [|a r IH]; intros i Hd Hs; [reflexivity|].
  cbn [forallb] in Hd. apply andb_prop in Hd; destruct Hd as [Hda Hdr].
  assert (Hsr : v_sizes_per_arg v || forallb (stencil_consistent arr) r = true).
  { destruct (v_sizes_per_arg v); [reflexivity|]. cbn in *. apply andb_prop in Hs; tauto. }
  assert (Hsa : v_sizes_per_arg v || stencil_consistent arr a = true).
  { destruct (v_sizes_per_arg v); [reflexivity|]. cbn in *. apply andb_prop in Hs; tauto. }
  cbn [args_events]. rewrite forallb_app, (IH (S i) Hdr Hsr), andb_true_r.
  destruct a as [t k acc|t k acc f vec st ms|k acc t f|acc t f]; cbn [arg_events arg_default] in *.
  - cbn. rewrite Hda. reflexivity.
  - rewrite forallb_app.
    assert (H1 : forallb (ev_ok v strict)
                   (if Nat.ltb 1 vec then [EFieldVector i vec t k acc] else [EField i t k acc]) = true).
    { destruct (Nat.ltb 1 vec); cbn; rewrite Hda; reflexivity. }
    rewrite H1. cbn [andb].
    unfold stencil_consistent in Hsa; cbn [arg_stencil] in Hsa.
    destruct st as [s|]; [|reflexivity].
    destruct (v_sizes_per_arg v) eqn:Hv.
    + destruct s; cbn; rewrite ?Hv; reflexivity.
    + cbn in Hsa. apply eqb_prop in Hsa.
      destruct s; cbn in Hsa; subst arr; cbn; rewrite ?Hv; reflexivity.
  - cbn. rewrite Hda. reflexivity.
  - reflexivity.
Qed.

Lemma fs_events_ok : forall v strict m f, safe v strict m = true ->
  forallb (ev_ok v strict) (fs_events m f) = true.
Proof.
  intros v strict m f H. unfold safe in H.
  repeat (apply andb_prop in H; let H' := fresh "H" in destruct H as [H H']).
  rename H into Hcc.
  assert (Ho : m_opon m = CellColumn) by (destruct (m_opon m); simpl in Hcc; congruence).
  apply negb_true_iff in H3. unfold fs_events. rewrite H3, Ho.
  repeat rewrite forallb_app.
  repeat (apply andb_true_intro; split).
  - destruct (negb (cma_is m MatrixMatrix) && negb false); reflexivity.
  - destruct (field_on_space m f); reflexivity.
  - destruct (cma_on_space m f); [|reflexivity].
    destruct (cma_is m Assembly); [reflexivity|]. destruct (cma_is m Apply); reflexivity.
  - destruct (func_of (m_funcs m) f) as [[b d]|]; [|reflexivity].
    rewrite forallb_app. destruct b, d; cbn; rewrite ?H0; reflexivity.
  - destruct (m_name m); try reflexivity. destruct f; try reflexivity.
    destruct n as [|[|n]]; reflexivity.
Qed.

Lemma bcs_events_ok : forall v strict l, forallb (ev_ok v strict) (map EOperatorBcsKernel l) = true.
Proof. intros v strict l; induction l as [|x r IH]; [reflexivity|]. cbn. exact IH. Qed.

Lemma walk_ok : forall v strict m, safe v strict m = true -> forallb (ev_ok v strict) (walk m) = true.
Proof.
  intros v strict m H. pose proof (fs_events_ok v strict m) as Hfs. specialize (fun f => Hfs f H).
  unfold safe in H.
  repeat (apply andb_prop in H; let H' := fresh "H" in destruct H as [H H']).
  rename H into Hcc.
  assert (Ho : m_opon m = CellColumn) by (destruct (m_opon m); simpl in Hcc; congruence).
  apply negb_true_iff in H3.
  unfold walk. rewrite H3, Ho. repeat rewrite forallb_app.
  repeat (apply andb_true_intro; split).
  all: try reflexivity.
  all: try (apply args_events_ok; assumption).
  all: try (rewrite forallb_flat_map; apply forallb_forall; intros f _; apply Hfs).
  all: try (destruct (has_operator m); reflexivity).
  all: try (destruct (cma_is m Apply || cma_is m MatrixMatrix); reflexivity).
  all: try (destruct (has_cma m); reflexivity).
  all: try (destruct (m_name m); try reflexivity; apply bcs_events_ok).
  all: try (destruct (basis_required m); [|reflexivity]; destruct (qr_rules m); reflexivity).
Qed.

(* ------------------------------------------------------------------ the list-level theorems *)
Theorem call_matches_stub_ : forall v m, safe v true m = true -> call_list v m = stub_list v m.
Proof.
  intros v m H. unfold call_list, stub_list.
  apply (flat_map_ext_forallb (ev_ok v true)); [apply event_agree_ | apply walk_ok; exact H].
Qed.

Theorem call_matches_stub_modkind_ : forall v m, safe v false m = true ->
  map erase_kind (call_list v m) = map erase_kind (stub_list v m).
Proof.
  intros v m H. unfold call_list, stub_list.
  apply (flat_map_map_ext_forallb (ev_ok v false)); [apply event_agree_modkind_ | apply walk_ok; exact H].
Qed.

(* in the vocabulary of the property: same count, and position by position the same role, intrinsic
   type, kind, rank and intent *)
Theorem positions_agree_ : forall v m, safe v true m = true ->
  length (call_list v m) = length (stub_list v m) /\
  forall n, nth_error (call_list v m) n = nth_error (stub_list v m) n.
Proof. intros v m H. rewrite (call_matches_stub_ v m H). split; reflexivity. Qed.

Definition all_default (m : metadata) : bool := forallb (arg_default true) (m_args m).

(* With both repairs in place (props/C21/fix.patch) the property holds for every metadata for which a
   stub exists, whenever the algorithm layer uses the default precisions: no further side condition. *)
Theorem call_matches_stub_fixed_ : forall m,
  stub_supported m = true -> all_default m = true -> call_list v_fixed m = stub_list v_fixed m.
Proof.
  intros m Hs Hd. apply call_matches_stub_. unfold safe, v_fixed; cbn [v_sizes_per_arg v_basis_in_shape_order].
  unfold stub_supported in Hs. apply andb_prop in Hs; destruct Hs as [Hs _].
  apply andb_prop in Hs; destruct Hs as [Hcc Hig].
  assert (Hcc' : is_cell_column (m_opon m) = true) by (destruct (m_opon m); simpl in *; congruence).
  unfold all_default in Hd. rewrite Hcc', Hig, Hd. reflexivity.
Qed.

(* ------------------------------------------------------------------ refutation for the unchanged code *)
(* gh_shape = (/ gh_evaluator, gh_quadrature_face /) : testkern_qr_eval_mod with the two shapes swapped *)
Definition witness_shapes : metadata :=
  mkM [MField TReal KRdef AInc W1 1 None None; MField TReal KRdef ARead W2 1 None None;
       MField TReal KRdef ARead W2 1 None None; MField TReal KRdef ARead W3 1 None None]
      [(W1, [Basis]); (W2, [DiffBasis]); (W3, [Basis; DiffBasis])]
      [Evaluator; QFace] [] [] [] CellColumn KOther.

Definition rank_differs (v : variant) (m : metadata) : Prop :=
  length (call_list v m) = length (stub_list v m) /\
  exists n a b, nth_error (map snd (call_list v m)) n = Some a /\
                nth_error (map snd (stub_list v m)) n = Some b /\ a_rank a <> a_rank b.

Theorem refuted_shapes_ : exists m,
  md_valid m = true /\ stub_supported m = true /\ all_default m = true /\ rank_differs v_unchanged m.
Proof.
  exists witness_shapes. repeat split; try (vm_compute; reflexivity).
  exists 8, (real_in 4), (real_in 3). repeat split; try (vm_compute; reflexivity).
  vm_compute; discriminate.
Qed.

(* a y1d stencil followed by a cross2d stencil: the stub declares both stencil sizes as scalars *)
Definition witness_stencil : metadata :=
  mkM [MField TReal KRdef AReadWrite W3 1 None None;
       MField TReal KRdef ARead W2 1 (Some SY1d) None;
       MField TReal KRdef ARead W2broken 1 (Some SCross2d) None]
      [] [] [] [] [] CellColumn KOther.

Theorem refuted_stencil_ : exists m,
  md_valid m = true /\ stub_supported m = true /\ all_default m = true /\ rank_differs v_unchanged m.
Proof.
  exists witness_stencil. repeat split; try (vm_compute; reflexivity).
  exists 6, (int_in 1), (int_in 0). repeat split; try (vm_compute; reflexivity).
  vm_compute; discriminate.
Qed.

(* The gap of the unchanged code is exactly these two reasons. *)
Theorem gap_characterised_ : forall v m,
  stub_supported m = true -> all_default m = true ->
  v_basis_in_shape_order v || quad_then_eval [] (eval_shapes m) = true ->
  v_sizes_per_arg v || forallb (stencil_consistent (sizes_declared_as_arrays m)) (m_args m) = true ->
  safe v true m = true.
Proof.
  intros v m Hs Hd Hq Hst. unfold safe. unfold stub_supported in Hs.
  apply andb_prop in Hs; destruct Hs as [Hs _]. apply andb_prop in Hs; destruct Hs as [Hcc Hig].
  unfold all_default in Hd.
  assert (Hcc' : is_cell_column (m_opon m) = true) by (destruct (m_opon m); simpl in *; congruence).
  rewrite Hcc', Hig, Hd, Hst, Hq. reflexivity.
Qed.

(* ------------------------------------------------------------------ non-vacuity *)
(* operator + vector field + xyoz/edge quadrature & evaluator, cross stencil, reference element, mesh *)
Definition example_safe : metadata :=
  mkM [MOp KRdef AWrite W0 W1; MField TReal KRdef ARead W0 3 None None;
       MField TReal KRdef ARead W2 1 (Some SCross) None; MScalar TInt KIdef ARead;
       MField TReal KRdef AReadWrite W3 1 None None]
      [(W0, [Basis]); (W2, [DiffBasis; Basis])]
      [QXyoz; QEdge; Evaluator] [W0; W1] [OutV; NormF] [AdjacentFace] CellColumn KOther.

Lemma example_safe_ok_ :
  md_valid example_safe = true /\ safe v_unchanged true example_safe = true /\
  length (stub_list v_unchanged example_safe) = 47 /\
  call_list v_unchanged example_safe = stub_list v_unchanged example_safe.
Proof. repeat split; vm_compute; reflexivity. Qed.

Definition example_cma : metadata :=
  mkM [MOp KRdef ARead W2 W3; MCma AWrite W2 W3; MScalar TReal KRdef ARead]
      [] [] [] [] [] CellColumn KOther.
Lemma example_cma_ok_ :
  md_valid example_cma = true /\ safe v_unchanged true example_cma = true /\
  cma_operation example_cma = Some Assembly /\ length (call_list v_unchanged example_cma) = 18.
Proof. repeat split; vm_compute; reflexivity. Qed.

Definition example_mixed : metadata :=
  mkM [MField TReal KRsolver AInc W1 1 None None; MOp KRtran ARead W1 W2; MScalar TReal KRbl ARead]
      [] [] [] [] [] CellColumn KOther.
Lemma example_mixed_ok_ :
  md_valid example_mixed = true /\ safe v_unchanged false example_mixed = true /\
  safe v_unchanged true example_mixed = false /\
  map snd (call_list v_unchanged example_mixed) <> map snd (stub_list v_unchanged example_mixed).
Proof. repeat split; try (vm_compute; reflexivity). vm_compute; discriminate. Qed.

(* the two witnesses are fine once both repairs are in *)
Lemma witnesses_fixed_ :
  call_list v_fixed witness_shapes = stub_list v_fixed witness_shapes /\
  call_list v_fixed witness_stencil = stub_list v_fixed witness_stencil.
Proof. split; vm_compute; reflexivity. Qed.
