(* C08 — faithful model of psyclone/psyir/tools/dependency_tools.py (DependencyTools) on the MiniFortran
   subset: can_loop_be_parallelised, _is_scalar_parallelisable, _array_access_parallelisable,
   _is_loop_carried_dependency, _partition, _independent_0_var, _get_dependency_distance,
   _independent_multi_subscript, and of the access lists (VariablesAccessInfo) they consult.
   Definitions only (no proofs), so the correspondence still runs when a proof breaks.

   sympy: subscripts that are affine over the rationals (built from literals, variables, unary minus,
   + - , * and / by a constant) are decided here exactly as sympy's solveset / simplify decide them
   (over Q: this is where `i/2` goes wrong); all other subscripts are answered by the oracle functions
   [odist]/[oneq] (the recorded answers of the implementation's sympy calls). *)
From Coq Require Import List ZArith Bool PeanoNat.
Import ListNotations.
From PV Require Import Fort.Syntax.

Definition memn (x : name) (l : list name) : bool := existsb (Nat.eqb x) l.

Fixpoint dedup (l : list name) : list name :=
  match l with
  | [] => []
  | a :: r => if memn a r then dedup r else a :: dedup r
  end.

(* names of all references of an expression = keys of SymPyWriter.type_map / signatures of
   VariablesAccessInfo(expr) *)
Fixpoint enames (e : expr) : list name :=
  match e with
  | ELit _ => []
  | EVar x => [x]
  | EIdx a ix => a :: flat_map enames ix
  | EUn _ e1 => enames e1
  | EBin _ l r => enames l ++ enames r
  | EIntr _ args => flat_map enames args
  end.

(* ---------------------------------------------------------------------------------------------- *)
(* decidable equality of expressions (oracle table lookup) *)
Definition binop_n (o : binop) : nat :=
  match o with Add => 0 | Sub => 1 | Mul => 2 | Div => 3 | Pow => 4 | Eq => 5 | Ne => 6 | Lt => 7 | Le => 8
             | Gt => 9 | Ge => 10 | And => 11 | Or => 12 end.
Definition unop_n (o : unop) : nat := match o with Neg => 0 | Not => 1 end.
Definition intr_n (f : intr) : nat :=
  match f with IMin => 0 | IMax => 1 | IMod => 2 | IAbs => 3 | ISign => 4 | ILbound => 5 | IUbound => 6 | ISize => 7 end.

Fixpoint expr_eqb (a b : expr) : bool :=
  match a, b with
  | ELit x, ELit y => Z.eqb x y
  | EVar x, EVar y => Nat.eqb x y
  | EIdx x ix, EIdx y iy =>
      Nat.eqb x y &&
      (fix go (l1 l2 : list expr) : bool :=
         match l1, l2 with
         | [], [] => true
         | u :: l1', v :: l2' => expr_eqb u v && go l1' l2'
         | _, _ => false
         end) ix iy
  | EUn o x, EUn p y => Nat.eqb (unop_n o) (unop_n p) && expr_eqb x y
  | EBin o x1 x2, EBin p y1 y2 => Nat.eqb (binop_n o) (binop_n p) && expr_eqb x1 y1 && expr_eqb x2 y2
  | EIntr f xs, EIntr g ys =>
      Nat.eqb (intr_n f) (intr_n g) &&
      (fix go (l1 l2 : list expr) : bool :=
         match l1, l2 with
         | [], [] => true
         | u :: l1', v :: l2' => expr_eqb u v && go l1' l2'
         | _, _ => false
         end) xs ys
  | _, _ => false
  end.

(* ---------------------------------------------------------------------------------------------- *)
(* linear forms with a common positive denominator: (l_c + sum k_v * v) / l_den *)
Record lin := mkLin { l_den : positive; l_c : Z; l_vs : list (name * Z) }.

Definition scale (k : Z) (vs : list (name * Z)) : list (name * Z) := map (fun p => (fst p, (k * snd p)%Z)) vs.

Definition coef (vs : list (name * Z)) (v : name) : Z :=
  fold_right (fun p acc => if Nat.eqb (fst p) v then (snd p + acc)%Z else acc) 0%Z vs.

Definition lin_add (a b : lin) : lin :=
  mkLin (l_den a * l_den b)
        (l_c a * Zpos (l_den b) + l_c b * Zpos (l_den a))%Z
        (scale (Zpos (l_den b)) (l_vs a) ++ scale (Zpos (l_den a)) (l_vs b)).
Definition lin_neg (a : lin) : lin := mkLin (l_den a) (- l_c a)%Z (scale (-1)%Z (l_vs a)).
Definition lin_sub (a b : lin) : lin := lin_add a (lin_neg b).
Definition lin_isconst (a : lin) : bool := forallb (fun p => Z.eqb (coef (l_vs a) (fst p)) 0) (l_vs a).
(* (c/d) * a *)
Definition lin_mulc (c : Z) (d : positive) (a : lin) : lin := mkLin (l_den a * d) (c * l_c a)%Z (scale c (l_vs a)).
Definition lin_mul (a b : lin) : option lin :=
  if lin_isconst a then Some (lin_mulc (l_c a) (l_den a) b)
  else if lin_isconst b then Some (lin_mulc (l_c b) (l_den b) a)
  else None.
Definition lin_div (a b : lin) : option lin :=
  if lin_isconst b then
    match l_c b with
    | Z0 => None
    | Zpos p => Some (lin_mulc (Zpos (l_den b)) p a)
    | Zneg p => Some (lin_mulc (Zneg (l_den b)) p a)
    end
  else None.

Fixpoint lin_of (e : expr) : option lin :=
  match e with
  | ELit z => Some (mkLin 1 z [])
  | EVar x => Some (mkLin 1 0 [(x, 1%Z)])
  | EUn Neg e1 => option_map lin_neg (lin_of e1)
  | EBin Add l r => match lin_of l, lin_of r with Some a, Some b => Some (lin_add a b) | _, _ => None end
  | EBin Sub l r => match lin_of l, lin_of r with Some a, Some b => Some (lin_sub a b) | _, _ => None end
  | EBin Mul l r => match lin_of l, lin_of r with Some a, Some b => lin_mul a b | _, _ => None end
  | EBin Div l r => match lin_of l, lin_of r with Some a, Some b => lin_div a b | _, _ => None end
  | _ => None
  end.

(* a == b as rational forms *)
Definition lin_eq (a b : lin) : bool := let d := lin_sub a b in Z.eqb (l_c d) 0 && lin_isconst d.
(* sympy: solving a(x) = b(x + d) for d gives the single solution Integer 0 *)
Definition lin_dist0 (x : name) (a b : lin) : bool := negb (Z.eqb (coef (l_vs b) x) 0) && lin_eq a b.
(* sympy: simplify(a - b) is a non-zero Integer *)
Definition lin_neq (a b : lin) : bool :=
  let d := lin_sub a b in
  lin_isconst d && negb (Z.eqb (l_c d) 0) && Z.eqb (Z.rem (l_c d) (Zpos (l_den d))) 0.

(* ---------------------------------------------------------------------------------------------- *)
(* the fresh-name search of _get_dependency_distance:
     d_var_name = "d_"+var_name ; idx = 1
     while d_var_name in symbol_map: d_var_name = f"d{idx}_{var_name}"  [ ; idx += 1  when repaired ]
   candidate 0 is "d_<x>", candidate k >= 1 is "d<k>_<x>"; [taken k] = candidate k is in the symbol map;
   [incr] = the loop body increments idx (read from the source by props/C08/translate.py). *)
Fixpoint fresh (incr : bool) (taken : nat -> bool) (fuel cand idx : nat) : option nat :=
  match fuel with
  | O => None
  | S f => if taken cand then fresh incr taken f idx (if incr then S idx else idx) else Some cand
  end.

(* ---------------------------------------------------------------------------------------------- *)
(* access lists: model of VariablesAccessInfo (per-variable order of READ/WRITE accesses) *)
Record access := mkAcc { a_wr : bool; a_name : name; a_ix : list expr }.

Fixpoint eacc (e : expr) : list access :=
  match e with
  | ELit _ => []
  | EVar x => [mkAcc false x []]
  | EIdx a ix => flat_map eacc ix ++ [mkAcc false a ix]
  | EUn _ e1 => eacc e1
  | EBin _ l r => eacc l ++ eacc r
  | EIntr _ args => flat_map eacc args
  end.

Fixpoint sacc (s : stmt) : list access :=
  match s with
  | SAssign x ix e => eacc e ++ flat_map eacc ix ++ [mkAcc true x ix]
  | SIf c th el => eacc c ++ flat_map sacc th ++ flat_map sacc el
  | SDo j lo hi st b => mkAcc true j [] :: mkAcc false j [] :: eacc lo ++ eacc hi ++ eacc st ++ flat_map sacc b
  | SPrint es => flat_map eacc es
  | SRegion _ b => flat_map sacc b
  | SDir _ b => flat_map sacc b
  | _ => []
  end.

(* loop.walk(Loop): pre-order *)
Fixpoint sdovars (s : stmt) : list name :=
  match s with
  | SDo j _ _ _ b => j :: flat_map sdovars b
  | SIf _ th el => flat_map sdovars th ++ flat_map sdovars el
  | SRegion _ b => flat_map sdovars b
  | SDir _ b => flat_map sdovars b
  | _ => []
  end.

Fixpoint insert_sorted (n : name) (l : list name) : list name :=
  match l with
  | [] => [n]
  | m :: r => if Nat.ltb n m then n :: l else if Nat.eqb n m then l else m :: insert_sorted n r
  end.
Definition sort_names (l : list name) : list name := fold_right insert_sorted [] l.

Inductive verdict := Par | NotPar (code : nat) (v : name) | Diverges.

Definition part := (list name * list nat)%type.

Section Model.
  Variable odist : name -> expr -> expr -> bool.   (* sympy: the distance of (w, o) in x is the Integer 0 *)
  Variable oneq : expr -> expr -> bool.            (* sympy: simplify(w - o) is a non-zero Integer *)
  Variable incr : bool.                            (* the source increments idx in the fresh-name loop *)
  Variable dtab : list (nat * name).               (* (k, n): the program's name n is the k-th candidate "d<k>_<x>" *)

  Definition taken (syms : list name) (k : nat) : bool :=
    existsb (fun p => Nat.eqb (fst p) k && memn (snd p) syms) dtab.
  Definition fresh_fuel : nat := S (S (length dtab)).

  (* _get_dependency_distance(x, w, o) == 0 ; None = the call does not return *)
  Definition dist0 (x : name) (w o : expr) : option bool :=
    let syms := enames w ++ enames o in
    if negb (memn x syms) then Some false
    else match fresh incr (taken syms) fresh_fuel 0 1 with
         | None => None
         | Some _ =>
             Some (match lin_of w, lin_of o with
                   | Some a, Some b => lin_dist0 x a b
                   | _, _ => memn x (enames w) && memn x (enames o) && odist x w o
                   end)
         end.

  (* _independent_0_var / SymbolicMaths.never_equal *)
  Definition neq (w o : expr) : bool :=
    match lin_of w, lin_of o with
    | Some a, Some b => lin_neq a b
    | _, _ => oneq w o
    end.

  (* ComponentIndices.get_subscripts_of: the loop variables a subscript mentions *)
  Definition lvset (lvs : list name) (e : expr) : list name := filter (fun v => memn v (enames e)) (dedup lvs).

  Fixpoint init_parts (lvs : list name) (k : nat) (w o : list expr) : list part :=
    match w, o with
    | we :: w', oe :: o' => (dedup (lvset lvs we ++ lvset lvs oe), [k]) :: init_parts lvs (S k) w' o'
    | _, _ => []
    end.

  (* merge into p0 every later partition that uses v (keeping the order of the others) *)
  Fixpoint absorb (v : name) (p0 : part) (rest : list part) : part * list part :=
    match rest with
    | [] => (p0, [])
    | p :: r =>
        if memn v (fst p) then absorb v (dedup (fst p0 ++ fst p), snd p0 ++ snd p) r
        else let (p0', r') := absorb v p0 r in (p0', p :: r')
    end.
  Fixpoint merge_var (v : name) (ps : list part) : list part :=
    match ps with
    | [] => []
    | p :: r => if memn v (fst p) then let (p', r') := absorb v p r in p' :: r' else p :: merge_var v r
    end.
  Definition partition (lvs : list name) (w o : list expr) : list part :=
    fold_left (fun ps v => merge_var v ps) lvs (init_parts lvs 0 w o).

  Definition sub (k : nat) (ix : list expr) : expr := nth k ix (ELit 0).

  (* _independent_multi_subscript *)
  Fixpoint multi (x : name) (w o : list expr) (subs : list nat) : option bool :=
    match subs with
    | [] => Some false
    | k :: r => match dist0 x (sub k w) (sub k o) with
                | None => None
                | Some true => Some true
                | Some false => multi x w o r
                end
    end.

  (* the partition loop of _is_loop_carried_dependency (True = the two accesses are independent) *)
  Fixpoint scan (x : name) (w o : list expr) (ps : list part) : option bool :=
    match ps with
    | [] => Some false
    | (vars, subs) :: r =>
        match subs with
        | [k] =>
            match vars with
            | [] => if neq (sub k w) (sub k o) then Some true else scan x w o r
            | [_] => match dist0 x (sub k w) (sub k o) with
                     | None => None
                     | Some true => Some true
                     | Some false => scan x w o r
                     end
            | _ => Some false
            end
        | _ => match multi x w o subs with
               | None => None
               | Some true => Some true
               | Some false => scan x w o r
               end
        end
    end.

  Definition indep_pair (lvs : list name) (w o : list expr) : option bool :=
    scan (hd 0 lvs) w o (partition lvs w o).

  (* _array_access_parallelisable: every write access against every access (itself included) *)
  Fixpoint others (lvs : list name) (v : name) (iw : nat) (w : list expr) (all : list access) (io : nat) : verdict :=
    match all with
    | [] => Par
    | o :: r => match indep_pair lvs w (a_ix o) with
                | None => Diverges
                | Some true => others lvs v iw w r (S io)
                | Some false => NotPar (if Nat.eqb iw io then 201 else 202) v
                end
    end.
  Fixpoint writes_loop (lvs : list name) (v : name) (all rest : list access) (iw : nat) : verdict :=
    match rest with
    | [] => Par
    | w :: r => if a_wr w
                then match others lvs v iw (a_ix w) all 0 with
                     | Par => writes_loop lvs v all r (S iw)
                     | bad => bad
                     end
                else writes_loop lvs v all r (S iw)
    end.
  Definition read_only (accs : list access) : bool := forallb (fun a => negb (a_wr a)) accs.
  Definition array_par (lvs : list name) (v : name) (accs : list access) : verdict :=
    if read_only accs then Par else writes_loop lvs v accs accs 0.

  (* _is_scalar_parallelisable *)
  Definition scalar_par (v : name) (accs : list access) : verdict :=
    if read_only accs then Par
    else match accs with
         | [] => Par
         | [_] => NotPar 101 v
         | a :: _ => if a_wr a then Par else NotPar 102 v
         end.

  Definition is_array (accs : list access) : bool :=
    existsb (fun a => match a_ix a with [] => false | _ => true end) accs.

  Definition var_par (lvs : list name) (accs : list access) (v : name) : verdict :=
    let av := filter (fun a => Nat.eqb (a_name a) v) accs in
    if is_array av then array_par lvs v av else scalar_par v av.

  Fixpoint vars_loop (lvs : list name) (accs : list access) (ns : list name) : verdict :=
    match ns with
    | [] => Par
    | v :: r => if memn v lvs then vars_loop lvs accs r
                else match var_par lvs accs v with
                     | Par => vars_loop lvs accs r
                     | bad => bad
                     end
    end.

  (* can_loop_be_parallelised(loop) for loop = SDo x lo hi st body (test_all_variables=False) *)
  Definition can_par (x : name) (lo hi st : expr) (body : list stmt) : verdict :=
    let accs := sacc (SDo x lo hi st body) in
    let lvs := x :: flat_map sdovars body in
    vars_loop lvs accs (sort_names (map a_name accs)).
End Model.

(* ---------------------------------------------------------------------------------------------- *)
(* correspondence cases *)
Definition odist_tab (tab : list (name * expr * expr * bool)) (x : name) (w o : expr) : bool :=
  existsb (fun r => match r with (x', w', o', b) => Nat.eqb x x' && expr_eqb w w' && expr_eqb o o' && b end) tab.
Definition oneq_tab (tab : list (expr * expr * bool)) (w o : expr) : bool :=
  existsb (fun r => match r with (w', o', b) => expr_eqb w w' && expr_eqb o o' && b end) tab.

Definition verdict_eqb (a b : verdict) : bool :=
  match a, b with
  | Par, Par => true
  | Diverges, Diverges => true
  | NotPar c v, NotPar c' v' => Nat.eqb c c' && Nat.eqb v v'
  | _, _ => false
  end.

Record ccase := mkCase {
  c_x : name; c_lo : expr; c_hi : expr; c_st : expr; c_body : list stmt;
  c_dtab : list (nat * name);
  c_dist : list (name * expr * expr * bool);     (* recorded answers of _get_dependency_distance(..) == 0 *)
  c_neq : list (expr * expr * bool);             (* recorded answers of _independent_0_var *)
  c_obs : verdict }.

Definition bool_eqb (a b : bool) : bool := if a then b else negb b.

(* verdict agrees, and every recorded answer agrees with what the model computes for that call *)
Definition agrees (incr : bool) (c : ccase) : bool :=
  let od := odist_tab (c_dist c) in
  let on := oneq_tab (c_neq c) in
  verdict_eqb (can_par od on incr (c_dtab c) (c_x c) (c_lo c) (c_hi c) (c_st c) (c_body c)) (c_obs c)
  && forallb (fun r => match r with (x, w, o, b) =>
                match dist0 od incr (c_dtab c) x w o with Some b' => bool_eqb b b' | None => false end end) (c_dist c)
  && forallb (fun r => match r with (w, o, b) => bool_eqb b (neq on w o) end) (c_neq c).
