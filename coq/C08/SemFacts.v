(* C08 — the few general facts about Fort.Sem this development needs (kept local so that the property does
   not depend on the shared Fort/Facts.v while that file is still changing; same statements as there). *)
From Coq Require Import List ZArith Bool Lia.
Import ListNotations.
From PV Require Import Fort.Syntax Fort.Sem.
Open Scope Z_scope.

Lemma loc_eqb_refl l : loc_eqb l l = true.
Proof. apply loc_eqb_eq; reflexivity. Qed.

Lemma loc_eqb_neq a b : loc_eqb a b = false <-> a <> b.
Proof.
  split.
  - intros E H. apply loc_eqb_eq in H. congruence.
  - intros H. destruct (loc_eqb a b) eqn:E; [|reflexivity]. apply loc_eqb_eq in E. contradiction.
Qed.

Lemma existsb_loc_eqb l W : existsb (loc_eqb l) W = true <-> In l W.
Proof.
  rewrite existsb_exists. split.
  - intros [y [Hy E]]. apply loc_eqb_eq in E. subst; assumption.
  - intros H. exists l. split; [assumption | apply loc_eqb_refl].
Qed.

Lemma val_upd_other s l v l' : l' <> l -> val (upd s l v) l' = val s l'.
Proof. intro H. unfold upd; cbn [val]. apply loc_eqb_neq in H. rewrite H. reflexivity. Qed.

Lemma val_upd_same s l v : val (upd s l v) l = v.
Proof. unfold upd; cbn [val]. rewrite loc_eqb_refl. reflexivity. Qed.

(* traces *)
Lemma reads_app t1 t2 : reads (t1 ++ t2) = reads t1 ++ reads t2.
Proof. induction t1 as [|e t1 IH]; [reflexivity|]. destruct e; cbn [reads app]; rewrite ?IH; reflexivity. Qed.
Lemma writes_app t1 t2 : writes (t1 ++ t2) = writes t1 ++ writes t2.
Proof. induction t1 as [|e t1 IH]; [reflexivity|]. destruct e; cbn [writes app]; rewrite ?IH; reflexivity. Qed.
Lemma reads_rds ls : reads (rds ls) = ls.
Proof. unfold rds. induction ls as [|a ls IH]; [reflexivity|]. cbn [map reads]. rewrite IH. reflexivity. Qed.
Lemma writes_rds ls : writes (rds ls) = [].
Proof. unfold rds. induction ls as [|a ls IH]; [reflexivity|]. cbn [map writes]. exact IH. Qed.

Lemma in_reads l tr : In l (reads tr) <-> In (Rd l) tr.
Proof.
  induction tr as [|e tr IH]; [reflexivity|]. destruct e; cbn [reads In]; rewrite ?IH; split; intro H;
    try (right; exact H); try (destruct H as [H|H]; [discriminate H | exact H]).
  - destruct H as [H|H]; [left; f_equal; exact H | right; exact H].
  - destruct H as [H|H]; [left; inversion H; reflexivity | right; exact H].
Qed.
Lemma in_writes l tr : In l (writes tr) <-> In (Wr l) tr.
Proof.
  induction tr as [|e tr IH]; [reflexivity|]. destruct e; cbn [writes In]; rewrite ?IH; split; intro H;
    try (right; exact H); try (destruct H as [H|H]; [discriminate H | exact H]).
  - destruct H as [H|H]; [left; f_equal; exact H | right; exact H].
  - destruct H as [H|H]; [left; inversion H; reflexivity | right; exact H].
Qed.

(* upward-exposed reads *)
Lemma in_exposed_from l W tr : In l (exposed_from W tr) <-> ~ In l W /\ In l (exposed tr).
Proof.
  unfold exposed. revert W. induction tr as [|e tr IH]; intros W.
  - cbn [exposed_from In]. tauto.
  - destruct e as [l0|l0|vs|r|r]; cbn [exposed_from existsb].
    + destruct (existsb (loc_eqb l0) W) eqn:E.
      * apply existsb_loc_eqb in E. rewrite IH. cbn [In]. split; [tauto|].
        intros [H1 [H2|H2]]; [subst; contradiction | tauto].
      * assert (N : ~ In l0 W) by (rewrite <- existsb_loc_eqb; congruence).
        cbn [In]. rewrite IH. split.
        -- intros [H|[H1 H2]]; [subst; tauto | tauto].
        -- tauto.
    + rewrite IH. rewrite (IH [l0]). cbn [In]. tauto.
    + apply IH.
    + apply IH.
    + apply IH.
Qed.

Lemma in_exposed_from_app l W t1 t2 :
  In l (exposed_from W (t1 ++ t2)) <->
  In l (exposed_from W t1) \/ (~ In l W /\ ~ In l (writes t1) /\ In l (exposed t2)).
Proof.
  revert W. induction t1 as [|e t1 IH]; intros W.
  - cbn [app exposed_from writes In]. rewrite in_exposed_from. tauto.
  - destruct e as [l0|l0|vs|r|r]; cbn [app exposed_from writes].
    + destruct (existsb (loc_eqb l0) W) eqn:E.
      * apply IH.
      * cbn [In]. rewrite IH. tauto.
    + rewrite IH. cbn [In]. split.
      * intros [H|[H1 [H2 H3]]]; [tauto|]. right. repeat split; auto. intros [H|H]; auto.
      * intros [H|[H1 [H2 H3]]]; [tauto|]. right. repeat split; auto. intros [H|H]; auto.
    + apply IH.
    + apply IH.
    + apply IH.
Qed.

Lemma in_exposed_app l t1 t2 :
  In l (exposed (t1 ++ t2)) <-> In l (exposed t1) \/ (~ In l (writes t1) /\ In l (exposed t2)).
Proof. unfold exposed at 1 2. rewrite in_exposed_from_app. cbn [In]. tauto. Qed.

Lemma exposed_rds ls : exposed (rds ls) = ls.
Proof.
  unfold exposed. induction ls as [|a ls IH]; [reflexivity|].
  cbn [rds map exposed_from existsb]. f_equal. exact IH.
Qed.

Lemma in_exposed_cons_wr l l0 tr : In l (exposed (Wr l0 :: tr)) <-> l <> l0 /\ In l (exposed tr).
Proof.
  unfold exposed at 1. cbn [exposed_from]. rewrite in_exposed_from. cbn [In].
  split; intros [H1 H2]; (split; [|exact H2]).
  - intro H. apply H1. left. symmetry; exact H.
  - intros [H|[]]. apply H1. symmetry; exact H.
Qed.

(* one-step unfolding of exec *)
Definition then_run (o : outcome) (K : store -> outcome) : outcome :=
  match o with
  | Ok s1 tr1 CNormal => prepend tr1 (K s1)
  | other => other
  end.

Definition exec_stmt (run : list stmt -> store -> outcome) (st : stmt) (s : store) : outcome :=
  match st with
  | SAssign x ix e =>
      match opt_all (map (eval s) ix), eval s e with
      | Some vs, Some v =>
          Ok (upd s (x, vs) v) (rds (ereads s e ++ flat_map (ereads s) ix) ++ [Wr (x, vs)]) CNormal
      | _, _ => Fault
      end
  | SIf c th el =>
      match eval s c with
      | Some v => prepend (rds (ereads s c)) (run (if v =? 0 then el else th) s)
      | None => Fault
      end
  | SDo x lo hi st body =>
      match eval s lo, eval s hi, eval s st with
      | Some l, Some h, Some t =>
          if t =? 0 then Fault
          else prepend (rds (ereads s lo ++ ereads s hi ++ ereads s st))
                       (do_loop (run body) x l t (trip_count l h t) 0 s)
      | _, _, _ => Fault
      end
  | SExit => Ok s [] CExit
  | SCycle => Ok s [] CCycle
  | SReturn => Ok s [] CReturn
  | SPrint es =>
      match opt_all (map (eval s) es) with
      | Some vs => Ok s (rds (flat_map (ereads s) es) ++ [Out vs]) CNormal
      | None => Fault
      end
  | SRegion r body =>
      match run body s with
      | Ok s1 tr c => Ok s1 (Enter r :: tr ++ (match c with CNormal => [Leave r] | _ => [] end)) c
      | other => other
      end
  | SDir _ body => run body s
  end.

Lemma exec_cons f st rest s :
  exec (S f) (st :: rest) s = then_run (exec_stmt (exec f) st s) (exec f rest).
Proof.
  unfold then_run. destruct st; try reflexivity.
Qed.

Lemma exec_nil f s : exec (S f) [] s = Ok s [] CNormal.
Proof. reflexivity. Qed.

Lemma prepend_ok_inv t o s tr c :
  prepend t o = Ok s tr c -> exists tr0, o = Ok s tr0 c /\ tr = t ++ tr0.
Proof.
  destruct o as [s0 tr0 c0| |]; cbn [prepend]; intro H; try discriminate.
  inversion H; subst. eauto.
Qed.

Lemma then_run_ok_inv o K s' tr c :
  then_run o K = Ok s' tr c ->
  (exists s1 tr1 tr2, o = Ok s1 tr1 CNormal /\ K s1 = Ok s' tr2 c /\ tr = tr1 ++ tr2)
  \/ (c <> CNormal /\ o = Ok s' tr c).
Proof.
  destruct o as [s1 tr1 c1| |]; try discriminate.
  destruct c1; unfold then_run; intro H.
  - apply prepend_ok_inv in H as [tr0 [H1 H2]]. left. eauto 6.
  - inversion H; subst. right. split; [discriminate|reflexivity].
  - inversion H; subst. right. split; [discriminate|reflexivity].
  - inversion H; subst. right. split; [discriminate|reflexivity].
Qed.

Lemma opt_all_nth {A} (l : list (option A)) vs :
  opt_all l = Some vs -> forall k x, nth_error l k = Some x -> exists v, x = Some v /\ nth_error vs k = Some v.
Proof.
  revert vs. induction l as [|a l IH]; intros vs H k x Hk.
  - destruct k; discriminate.
  - cbn [opt_all] in H. destruct a as [a|]; [|discriminate].
    destruct (opt_all l) as [xs|] eqn:E; [|discriminate]. inversion H; subst.
    destruct k as [|k]; cbn [nth_error] in *.
    + inversion Hk; subst. eauto.
    + eapply IH; [reflexivity | exact Hk].
Qed.
