(* C08 — the full property is FALSE of the faithful model: concrete loops the model (like the implementation)
   reports parallelisable, with an input on which two distinct iterations touch the same location.
   Every witness is replayed against the real implementation by props/C08/check.py (TARGETED). *)
From Coq Require Import List ZArith Bool PeanoNat.
Import ListNotations.
From PV Require Import Fort.Syntax Fort.Sem C08.Model C08.Spec.
Close Scope Z_scope.   (* names are nat; Z literals are annotated *)

Definition refutes (odist : name -> expr -> expr -> bool) (oneq : expr -> expr -> bool) (incr : bool)
           (x : name) (lo hi st : expr) (body : list stmt) : Prop :=
  can_par odist oneq incr [] x lo hi st body = Par /\
  exists f s its, iterations_of f x lo hi st body s its /\ conflict body (map snd its).

Ltac iterations := unfold iterations_of; do 4 eexists;
  split; [reflexivity | split; [reflexivity | split; [reflexivity | split; [discriminate | vm_compute; reflexivity]]]].

(* (b) do i = 2, 3 ; a(i/2) = b(i)          a=0 b=1 i=2 : iterations i=2 and i=3 both write a(1) *)
Definition div_body : list stmt := [SAssign 0 [EBin Div (EVar 2) (ELit 2)] (EIdx 1 [EVar 2])].
Lemma par_refuted_div_ odist oneq incr : refutes odist oneq incr 2 (ELit 2) (ELit 3) (ELit 1) div_body.
Proof.
  split; [vm_compute; reflexivity|].
  exists 5, (store_of [] []). eexists. split; [iterations|].
  exists 0, 1. do 2 eexists. exists (0, [1%Z]).
  split; [discriminate|]. split; [reflexivity|]. split; [reflexivity|].
  split; [vm_compute; tauto|]. split; [right; vm_compute; tauto|].
  intros [H _]. discriminate H.
Qed.

(* (c) do i = 1, 2 ; if (b(i) > 0) then ; t = b(i) ; end if ; c(i) = t        b=0 c=1 i=2 t=3, b(2)=1:
       iteration i=2 writes t, iteration i=1 only reads it *)
Definition cond_body : list stmt :=
  [SIf (EBin Gt (EIdx 0 [EVar 2]) (ELit 0)) [SAssign 3 [] (EIdx 0 [EVar 2])] []; SAssign 1 [EVar 2] (EVar 3)].
Lemma par_refuted_cond_scalar_ odist oneq incr : refutes odist oneq incr 2 (ELit 1) (ELit 2) (ELit 1) cond_body.
Proof.
  split; [vm_compute; reflexivity|].
  exists 5, (store_of [((0, [2%Z]), 1%Z)] []). eexists. split; [iterations|].
  exists 1, 0. do 2 eexists. exists (3, []).
  split; [discriminate|]. split; [reflexivity|]. split; [reflexivity|].
  split; [vm_compute; tauto|]. split; [left; vm_compute; tauto|].
  intros [_ [H|H]]; [exact H|].
  cbn [map snd] in H.
  match type of H with forall t, In t (?t0 :: _) -> _ => destruct (H t0 (or_introl eq_refl)) as [Hw _] end.
  vm_compute in Hw. repeat (destruct Hw as [Hw|Hw]; [discriminate Hw|]). exact Hw.
Qed.

(* do i = 1, 2 ; a(n*i) = 1      a=0 i=1 n=2, n = 0: both iterations write a(0).  n*i is not affine: the model
   asks the oracle, and sympy answers "distance 0" (solving n*i = n*(i+d) generically, n <> 0). *)
Definition sym_body : list stmt := [SAssign 0 [EBin Mul (EVar 2) (EVar 1)] (ELit 1)].
Lemma par_refuted_symcoef_ odist oneq incr :
  odist 1 (EBin Mul (EVar 2) (EVar 1)) (EBin Mul (EVar 2) (EVar 1)) = true ->
  refutes odist oneq incr 1 (ELit 1) (ELit 2) (ELit 1) sym_body.
Proof.
  intro O. split.
  - unfold can_par. cbn. unfold var_par. cbn. unfold array_par. cbn. unfold indep_pair. cbn.
    unfold dist0. cbn. rewrite O. reflexivity.
  - exists 5, (store_of [] []). eexists. split; [iterations|].
    exists 0, 1. do 2 eexists. exists (0, [0%Z]).
    split; [discriminate|]. split; [reflexivity|]. split; [reflexivity|].
    split; [vm_compute; tauto|]. split; [right; vm_compute; tauto|].
    intros [H _]. discriminate H.
Qed.

(* do i = 1, 2 ; k = b(i) ; a(i+k) = 1      a=0 b=1 i=2 k=3, b(1)=1 b(2)=0: both iterations write a(2) *)
Definition wsc_body : list stmt := [SAssign 3 [] (EIdx 1 [EVar 2]); SAssign 0 [EBin Add (EVar 2) (EVar 3)] (ELit 1)].
Lemma par_refuted_written_scalar_ odist oneq incr : refutes odist oneq incr 2 (ELit 1) (ELit 2) (ELit 1) wsc_body.
Proof.
  split; [vm_compute; reflexivity|].
  exists 5, (store_of [((1, [1%Z]), 1%Z)] []). eexists. split; [iterations|].
  exists 0, 1. do 2 eexists. exists (0, [2%Z]).
  split; [discriminate|]. split; [reflexivity|]. split; [reflexivity|].
  split; [vm_compute; tauto|]. split; [right; vm_compute; tauto|].
  intros [H _]. discriminate H.
Qed.

(* do i = 1, 2 ; do j = 1, 2 ; d(i+j, j) = d(i+j, j+1)      d=0 i=1 j=2:
   iteration i=1 writes d(3,2) (j=2), iteration i=2 reads d(3,2) (j=1) *)
Definition multi_body : list stmt :=
  [SDo 2 (ELit 1) (ELit 2) (ELit 1)
     [SAssign 0 [EBin Add (EVar 1) (EVar 2); EVar 2]
              (EIdx 0 [EBin Add (EVar 1) (EVar 2); EBin Add (EVar 2) (ELit 1)])]].
Lemma par_refuted_multi_subscript_ odist oneq incr : refutes odist oneq incr 1 (ELit 1) (ELit 2) (ELit 1) multi_body.
Proof.
  split; [vm_compute; reflexivity|].
  exists 6, (store_of [] []). eexists. split; [iterations|].
  exists 0, 1. do 2 eexists. exists (0, [3%Z; 2%Z]).
  split; [discriminate|]. split; [reflexivity|]. split; [reflexivity|].
  split; [vm_compute; tauto|]. split; [left; vm_compute; tauto|].
  intros [H _]. discriminate H.
Qed.
