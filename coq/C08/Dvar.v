(* C08 — the fresh-name loop of _get_dependency_distance: it diverges without `idx += 1` when the first two
   candidates are taken, and always terminates with it (pigeonhole); lifted to the whole analysis. *)
From Coq Require Import List ZArith Bool PeanoNat Lia.
Import ListNotations.
From PV Require Import Fort.Syntax C08.Model C08.GenSrc.

(* --- without the increment *)
Lemma fresh_stuck taken : taken 1%nat = true -> forall fuel, fresh false taken fuel 1 1 = None.
Proof. intros H fuel. induction fuel as [|f IH]; [reflexivity|]. cbn [fresh]. rewrite H. exact IH. Qed.

Lemma fresh_noincr_diverges taken :
  taken 0%nat = true -> taken 1%nat = true -> forall fuel, fresh false taken fuel 0 1 = None.
Proof.
  intros H0 H1 [|f]; [reflexivity|]. cbn [fresh]. rewrite H0. apply fresh_stuck, H1.
Qed.

(* --- with the increment: candidates c, c+1, c+2, ... are tried in turn *)
Lemma fresh_incr_none taken : forall fuel c,
  fresh true taken fuel c (S c) = None -> forall k, (c <= k < c + fuel)%nat -> taken k = true.
Proof.
  induction fuel as [|f IH]; intros c H k Hk; [lia|].
  cbn [fresh] in H. destruct (taken c) eqn:E; [|discriminate].
  destruct (Nat.eq_dec k c) as [->|N]; [exact E|]. apply (IH (S c) H). lia.
Qed.

Lemma fresh_incr_some taken : forall fuel c r,
  fresh true taken fuel c (S c) = Some r -> taken r = false.
Proof.
  induction fuel as [|f IH]; intros c r H; [discriminate|].
  cbn [fresh] in H. destruct (taken c) eqn:E; [apply (IH (S c) r H)|]. inversion H; subst. exact E.
Qed.

Lemma seq_incl_length (n : nat) (l : list nat) : incl (seq 0 n) l -> (n <= length l)%nat.
Proof.
  intro H. rewrite <- (seq_length n 0). apply NoDup_incl_length; [apply seq_NoDup | exact H].
Qed.

(* pigeonhole: with at most [length syms] taken candidates, [S (length syms)] steps find a free one *)
Theorem fresh_incr_terminates taken (syms : list nat) :
  (forall k, taken k = true -> In k syms) ->
  forall fuel, (length syms < fuel)%nat ->
  exists r, fresh true taken fuel 0 1 = Some r /\ taken r = false.
Proof.
  intros H fuel Hf. destruct (fresh true taken fuel 0 1) as [r|] eqn:E.
  - exists r. split; [reflexivity | eapply fresh_incr_some; exact E].
  - exfalso. assert (I : incl (seq 0 fuel) syms).
    { intros k Hk. apply in_seq in Hk. apply H. eapply fresh_incr_none; [exact E | lia]. }
    apply seq_incl_length in I. lia.
Qed.

(* --- lifted to the model *)
Lemma taken_in_dtab dtab syms k : taken dtab syms k = true -> In k (map fst dtab).
Proof.
  unfold taken. intro H. apply existsb_exists in H as [p [Hp Hq]]. apply andb_true_iff in Hq as [Hq _].
  apply Nat.eqb_eq in Hq. subst. apply in_map, Hp.
Qed.

Lemma dist0_incr_answers odist dtab x w o : dist0 odist true dtab x w o <> None.
Proof.
  unfold dist0. destruct (negb _); [discriminate|].
  destruct (fresh_incr_terminates (taken dtab (enames w ++ enames o)) (map fst dtab)) with (fuel := fresh_fuel dtab)
    as [r [E _]].
  - intros k. apply taken_in_dtab.
  - unfold fresh_fuel. rewrite map_length. lia.
  - rewrite E. discriminate.
Qed.

Section Incr.
  Variable odist : name -> expr -> expr -> bool.
  Variable oneq : expr -> expr -> bool.
  Variable dtab : list (nat * name).
  Notation d0 := (dist0 odist true dtab).

  Lemma multi_answers x w o subs : multi odist true dtab x w o subs <> None.
  Proof.
    induction subs as [|k r IH]; cbn [multi]; [discriminate|].
    destruct (d0 x (sub k w) (sub k o)) as [[|]|] eqn:E; [discriminate | exact IH |].
    exfalso. eapply dist0_incr_answers; exact E.
  Qed.

  Lemma scan_answers x w o ps : scan odist oneq true dtab x w o ps <> None.
  Proof.
    induction ps as [|[vars subs] r IH]; cbn [scan]; [discriminate|].
    destruct subs as [|k [|k2 r2]].
    - destruct (multi _ _ _ _ _ _ []) as [[|]|] eqn:E; [discriminate | exact IH |].
      exfalso. eapply multi_answers; exact E.
    - destruct vars as [|v1 [|v2 vr]].
      + destruct (neq _ _ _); [discriminate | exact IH].
      + destruct (d0 x (sub k w) (sub k o)) as [[|]|] eqn:E; [discriminate | exact IH |].
        exfalso. eapply dist0_incr_answers; exact E.
      + discriminate.
    - destruct (multi _ _ _ _ _ _ (k :: k2 :: r2)) as [[|]|] eqn:E; [discriminate | exact IH |].
      exfalso. eapply multi_answers; exact E.
  Qed.

  Lemma others_answers lvs v iw w all io : others odist oneq true dtab lvs v iw w all io <> Diverges.
  Proof.
    revert io. induction all as [|o r IH]; intro io; cbn [others]; [discriminate|].
    destruct (indep_pair _ _ _ _ _ _ _) as [[|]|] eqn:E; [apply IH | discriminate |].
    exfalso. unfold indep_pair in E. eapply scan_answers; exact E.
  Qed.

  Lemma writes_loop_answers lvs v all rest iw : writes_loop odist oneq true dtab lvs v all rest iw <> Diverges.
  Proof.
    revert iw. induction rest as [|w r IH]; intro iw; cbn [writes_loop]; [discriminate|].
    destruct (a_wr w); [|apply IH].
    destruct (others _ _ _ _ _ _ _ _ _ _) eqn:E; [apply IH | discriminate |].
    exfalso. eapply others_answers; exact E.
  Qed.

  Lemma vars_loop_answers lvs accs ns : vars_loop odist oneq true dtab lvs accs ns <> Diverges.
  Proof.
    induction ns as [|v r IH]; cbn [vars_loop]; [discriminate|].
    destruct (memn v lvs); [exact IH|].
    destruct (var_par _ _ _ _ _ _ _) eqn:E; [exact IH | discriminate |].
    exfalso. unfold var_par in E.
    destruct (is_array _).
    - unfold array_par in E. destruct (read_only _); [discriminate|]. eapply writes_loop_answers; exact E.
    - unfold scalar_par in E. destruct (read_only _); [discriminate|].
      destruct (filter _ accs) as [|a [|b l]]; try discriminate; destruct (a_wr a); discriminate.
  Qed.

  Theorem can_par_incr_answers x lo hi st body : can_par odist oneq true dtab x lo hi st body <> Diverges.
  Proof. unfold can_par. apply vars_loop_answers. Qed.
End Incr.

(* --- the witness without the increment: do i = 1, 4 ; a(i + d_i + d1_i) = b(i)
       names (alphabetical): a=0 b=1 d1_i=2 d_i=3 i=4 *)
Definition dv_body : list stmt :=
  [SAssign 0 [EBin Add (EBin Add (EVar 4) (EVar 3)) (EVar 2)] (EIdx 1 [EVar 4])].
Definition dv_dtab : list (nat * name) := [(0, 3); (1, 2)]%nat.

Lemma can_par_noincr_diverges odist oneq :
  can_par odist oneq false dv_dtab 4 (ELit 1) (ELit 4) (ELit 1) dv_body = Diverges.
Proof. vm_compute. reflexivity. Qed.

(* and the same loop is answered once idx is incremented *)
Lemma can_par_incr_witness odist oneq :
  can_par odist oneq true dv_dtab 4 (ELit 1) (ELit 4) (ELit 1) dv_body = Par.
Proof. vm_compute. reflexivity. Qed.

(* the statement checked against the source: [src_idx_incremented] is regenerated from the tree under test *)
Definition analysis_answers_statement (incr : bool) : Prop :=
  if incr
  then forall odist oneq dtab x lo hi st body, can_par odist oneq incr dtab x lo hi st body <> Diverges
  else exists dtab x lo hi st body, forall odist oneq, can_par odist oneq incr dtab x lo hi st body = Diverges.

Lemma analysis_answers_src : analysis_answers_statement src_idx_incremented.
Proof.
  unfold analysis_answers_statement, src_idx_incremented.
  first [ exact (fun odist oneq dtab x lo hi st body => can_par_incr_answers odist oneq dtab x lo hi st body)
        | exact (ex_intro _ dv_dtab (ex_intro _ 4%nat (ex_intro _ (ELit 1) (ex_intro _ (ELit 4) (ex_intro _ (ELit 1)
                 (ex_intro _ dv_body can_par_noincr_diverges)))))) ].
Qed.
