(* C08 — the sufficient condition [safe] under which C08_par_sound_partial is proved (definitions only;
   evaluated by the check on every accepted loop to split accepted loops into "safe" and "gap"). *)
From Coq Require Import List ZArith Bool PeanoNat.
Import ListNotations.
From PV Require Import Fort.Syntax C08.Model.

(* subscripts whose translation to sympy is exact for the parallel loop variable x: no integer division, MOD,
   power, logical/relational operators, no intrinsics; a product is either by a literal constant, or of two
   x-free factors, or of two factors in x alone (sympy solves equations with a symbolic coefficient of x
   generically: C08_par_refuted_symcoef) *)
Definition only_x (x : name) (e : expr) : bool := forallb (Nat.eqb x) (enames e).
Definition x_free (x : name) (e : expr) : bool := negb (memn x (enames e)).
Definition no_names (e : expr) : bool := match enames e with [] => true | _ => false end.

Fixpoint tr_exact (x : name) (e : expr) : bool :=
  match e with
  | ELit _ => true
  | EVar _ => true
  | EIdx _ ix => forallb (tr_exact x) ix
  | EUn Neg e1 => tr_exact x e1
  | EUn Not _ => false
  | EBin Add l r => tr_exact x l && tr_exact x r
  | EBin Sub l r => tr_exact x l && tr_exact x r
  | EBin Mul l r => tr_exact x l && tr_exact x r &&
                    (no_names l || no_names r || (x_free x l && x_free x r) || (only_x x l && only_x x r))
  | EBin _ _ _ => false
  | EIntr _ _ => false
  end.

(* bodies made of assignments, IF blocks and DO loops only *)
Fixpoint simple (s : stmt) : bool :=
  match s with
  | SAssign _ _ _ => true
  | SIf _ th el => forallb simple th && forallb simple el
  | SDo _ _ _ _ b => forallb simple b
  | _ => false
  end.

(* names the body may write: assignment targets and DO variables *)
Fixpoint swn (s : stmt) : list name :=
  match s with
  | SAssign x _ _ => [x]
  | SIf _ th el => flat_map swn th ++ flat_map swn el
  | SDo j _ _ _ b => j :: flat_map swn b
  | _ => []
  end.

(* assignment targets *)
Fixpoint sasg (s : stmt) : list name :=
  match s with
  | SAssign x _ _ => [x]
  | SIf _ th el => flat_map sasg th ++ flat_map sasg el
  | SDo _ _ _ _ b => flat_map sasg b
  | _ => []
  end.

(* scalar assignment targets *)
Fixpoint sscal (s : stmt) : list name :=
  match s with
  | SAssign x [] _ => [x]
  | SAssign _ _ _ => []
  | SIf _ th el => flat_map sscal th ++ flat_map sscal el
  | SDo _ _ _ _ b => flat_map sscal b
  | _ => []
  end.

(* a subscript the analysis may rely on: translation-exact; if it mentions the parallel loop variable x, or no
   loop variable at all, then every other name in it is invariant (not written by the body) *)
Definition sub_ok (x : name) (lvs W : list name) (e : expr) : bool :=
  tr_exact x e &&
  (if memn x (enames e) then forallb (fun v => Nat.eqb v x || negb (memn v W)) (enames e)
   else if existsb (fun v => memn v lvs) (enames e) then true
   else forallb (fun v => negb (memn v W)) (enames e)).

(* scalar v is read (as a scalar) by expression e *)
Definition ereads_v (v : name) (e : expr) : bool :=
  existsb (fun a => Nat.eqb (a_name a) v && match a_ix a with [] => true | _ => false end) (eacc e).

(* definite assignment of scalar v: [da_s v s d] = None if v may be read before it is written,
   Some d' otherwise, d' = v is certainly written after s (d = it certainly was before) *)
Fixpoint da_s (v : name) (s : stmt) (d : bool) : option bool :=
  match s with
  | SAssign x ix e =>
      if negb d && (ereads_v v e || existsb (ereads_v v) ix) then None
      else Some (d || (Nat.eqb x v && match ix with [] => true | _ => false end))
  | SIf c th el =>
      if negb d && ereads_v v c then None
      else
        let go := fix go (l : list stmt) (d : bool) : option bool :=
                    match l with
                    | [] => Some d
                    | s1 :: r => match da_s v s1 d with Some d' => go r d' | None => None end
                    end in
        match go th d, go el d with
        | Some a, Some b => Some (a && b)
        | _, _ => None
        end
  | SDo j lo hi st b =>
      if negb d && (ereads_v v lo || ereads_v v hi || ereads_v v st) then None
      else
        let go := fix go (l : list stmt) (d : bool) : option bool :=
                    match l with
                    | [] => Some d
                    | s1 :: r => match da_s v s1 d with Some d' => go r d' | None => None end
                    end in
        let d1 := d || Nat.eqb j v in
        match go b d1 with
        | Some _ => Some d1
        | None => None
        end
  | _ => None
  end.

Definition da_l (v : name) : list stmt -> bool -> option bool :=
  fix go (l : list stmt) (d : bool) : option bool :=
    match l with
    | [] => Some d
    | s1 :: r => match da_s v s1 d with Some d' => go r d' | None => None end
    end.

Definition scalar_uncond (body : list stmt) (v : name) : bool :=
  match da_l v body false with Some true => true | _ => false end.

Definition safe (x : name) (body : list stmt) : bool :=
  let W := flat_map swn body in
  let lvs := x :: flat_map sdovars body in
  forallb simple body
  && negb (memn x W)
  && forallb (fun v => negb (memn v lvs)) (flat_map sasg body)
  && forallb (fun a => negb (memn (a_name a) W) || forallb (sub_ok x lvs W) (a_ix a)) (flat_map sacc body)
  && forallb (fun v => memn v (flat_map sdovars body) || scalar_uncond body v) (flat_map sscal body).

Definition case_safe (c : ccase) : bool := safe (c_x c) (c_body c).
