(* C08 — linear forms: on translation-exact subscripts (no division) the form computed by Model.lin_of has
   denominator 1 and evaluates like the expression; semantic content of lin_dist0 / lin_neq. *)
From Coq Require Import List ZArith Bool Lia PeanoNat.
Import ListNotations.
From PV Require Import Fort.Syntax Fort.Sem C08.Model C08.Safe.
Open Scope Z_scope.

Definition vsum (s : store) (vs : list (name * Z)) : Z :=
  fold_right (fun p acc => snd p * val s (fst p, []) + acc) 0 vs.
Definition lin_val (s : store) (a : lin) : Z := l_c a + vsum s (l_vs a).

Lemma coef_cons p vs v : coef (p :: vs) v = if Nat.eqb (fst p) v then snd p + coef vs v else coef vs v.
Proof. reflexivity. Qed.
Lemma vsum_cons s p vs : vsum s (p :: vs) = snd p * val s (fst p, []) + vsum s vs.
Proof. reflexivity. Qed.
Lemma scale_cons k p vs : scale k (p :: vs) = (fst p, k * snd p) :: scale k vs.
Proof. reflexivity. Qed.

Lemma coef_app a b v : coef (a ++ b) v = coef a v + coef b v.
Proof.
  induction a as [|p a IH]; [reflexivity|]. rewrite <- app_comm_cons, !coef_cons, IH.
  destruct (Nat.eqb (fst p) v); lia.
Qed.

Lemma coef_scale k vs v : coef (scale k vs) v = k * coef vs v.
Proof.
  induction vs as [|p vs IH]; [cbn; lia|]. rewrite scale_cons, !coef_cons, IH. cbn [fst snd].
  destruct (Nat.eqb (fst p) v); lia.
Qed.

Lemma vsum_app s a b : vsum s (a ++ b) = vsum s a + vsum s b.
Proof. induction a as [|p a IH]; [reflexivity|]. rewrite <- app_comm_cons, !vsum_cons, IH. lia. Qed.

Lemma vsum_scale s k vs : vsum s (scale k vs) = k * vsum s vs.
Proof.
  induction vs as [|p vs IH]; [cbn; lia|]. rewrite scale_cons, !vsum_cons, IH. cbn [fst snd]. lia.
Qed.

Definition drop (v : name) (vs : list (name * Z)) := filter (fun p : name * Z => negb (Nat.eqb (fst p) v)) vs.

Lemma drop_cons v p vs : drop v (p :: vs) = if Nat.eqb (fst p) v then drop v vs else p :: drop v vs.
Proof. unfold drop. cbn [filter]. cbv beta. destruct (Nat.eqb (fst p) v); reflexivity. Qed.

Lemma vsum_split s v vs : vsum s vs = coef vs v * val s (v, []) + vsum s (drop v vs).
Proof.
  induction vs as [|p vs IH]; [cbn; lia|]. rewrite vsum_cons, coef_cons, drop_cons, IH.
  destruct (Nat.eqb (fst p) v) eqn:E.
  - apply Nat.eqb_eq in E. rewrite E. lia.
  - rewrite vsum_cons. lia.
Qed.

Lemma coef_drop_same v vs : coef (drop v vs) v = 0.
Proof.
  induction vs as [|p vs IH]; [reflexivity|]. rewrite drop_cons.
  destruct (Nat.eqb (fst p) v) eqn:E; [exact IH|]. rewrite coef_cons, E. exact IH.
Qed.

Lemma coef_drop_other v u vs : u <> v -> coef (drop v vs) u = coef vs u.
Proof.
  intro N. induction vs as [|p vs IH]; [reflexivity|]. rewrite drop_cons, coef_cons.
  destruct (Nat.eqb (fst p) v) eqn:E.
  - apply Nat.eqb_eq in E. destruct (Nat.eqb (fst p) u) eqn:E2; [apply Nat.eqb_eq in E2; congruence | exact IH].
  - rewrite coef_cons, IH. reflexivity.
Qed.

Lemma drop_length v vs : (length (drop v vs) <= length vs)%nat.
Proof. unfold drop. induction vs as [|p vs IH]; cbn [filter length]; [lia|]. destruct (negb _); cbn [length]; lia. Qed.

Lemma drop_head_length v k vs : (length (drop v ((v, k) :: vs)) <= length vs)%nat.
Proof. rewrite drop_cons. cbn [fst]. rewrite Nat.eqb_refl. apply drop_length. Qed.

Lemma in_drop p v vs : In p (drop v vs) -> In p vs /\ fst p <> v.
Proof. unfold drop. rewrite filter_In. intros [H1 H2]. split; [exact H1|]. apply negb_true_iff, Nat.eqb_neq in H2. exact H2. Qed.

(* the value of a form only depends on its coefficients *)
Lemma vsum_ext_coef s : forall n vs1 vs2, (length vs1 + length vs2 <= n)%nat ->
  (forall v, coef vs1 v = coef vs2 v) -> vsum s vs1 = vsum s vs2.
Proof.
  induction n as [|n IH]; intros vs1 vs2 Hn H.
  - destruct vs1, vs2; cbn [length] in Hn; try lia; reflexivity.
  - assert (G : forall v, (length (drop v vs1) + length (drop v vs2) <= n)%nat -> vsum s vs1 = vsum s vs2).
    { intros v Hl. rewrite (vsum_split s v vs1), (vsum_split s v vs2), (H v). f_equal.
      apply IH; [exact Hl|]. intro u. destruct (Nat.eq_dec u v) as [->|N].
      - rewrite !coef_drop_same. reflexivity.
      - rewrite !coef_drop_other by exact N. apply H. }
    destruct vs1 as [|[v k] r1].
    + destruct vs2 as [|[v k] r2]; [reflexivity|]. apply (G v).
      pose proof (drop_head_length v k r2). pose proof (drop_length v (@nil (name * Z))). cbn [length] in *. lia.
    + apply (G v). pose proof (drop_head_length v k r1). pose proof (drop_length v vs2). cbn [length] in *. lia.
Qed.

Lemma vsum_agree s1 s2 vs :
  (forall p, In p vs -> val s1 (fst p, []) = val s2 (fst p, [])) -> vsum s1 vs = vsum s2 vs.
Proof.
  induction vs as [|p vs IH]; intro H; [reflexivity|]. rewrite !vsum_cons.
  rewrite IH by (intros q Hq; apply H; right; exact Hq). rewrite (H p) by (left; reflexivity). reflexivity.
Qed.

Lemma coef_nonzero_in vs v : coef vs v <> 0 -> exists p, In p vs /\ fst p = v.
Proof.
  induction vs as [|p vs IH]; [cbn; congruence|]. rewrite coef_cons.
  destruct (Nat.eqb (fst p) v) eqn:E.
  - intros _. apply Nat.eqb_eq in E. exists p. split; [left; reflexivity | exact E].
  - intro H. destruct (IH H) as [q [H1 H2]]. exists q. split; [right; exact H1 | exact H2].
Qed.

Lemma isconst_coefs a : lin_isconst a = true -> forall v, coef (l_vs a) v = 0.
Proof.
  unfold lin_isconst. rewrite forallb_forall. intros H v.
  destruct (Z.eq_dec (coef (l_vs a) v) 0) as [E|N]; [exact E|].
  destruct (coef_nonzero_in _ _ N) as [p [Hp <-]]. apply Z.eqb_eq, H, Hp.
Qed.

Lemma isconst_vsum s a : lin_isconst a = true -> vsum s (l_vs a) = 0.
Proof.
  intro H. change 0 with (vsum s []). apply (vsum_ext_coef s (length (l_vs a) + 0)); [cbn [length]; lia|].
  intro v. rewrite (isconst_coefs a H v). reflexivity.
Qed.

(* names of the entries of a form *)
Lemma in_scale p k vs : In p (scale k vs) -> exists q, In q vs /\ fst p = fst q.
Proof. unfold scale. rewrite in_map_iff. intros [q [<- Hq]]. exists q. split; [exact Hq | reflexivity]. Qed.

Definition entries_in (a : lin) (ns : list name) : Prop := forall p, In p (l_vs a) -> In (fst p) ns.

Lemma entries_scale k vs ns : (forall p, In p vs -> In (fst p) ns) -> forall p, In p (scale k vs) -> In (fst p) ns.
Proof. intros H p Hp. apply in_scale in Hp as [q [Hq ->]]. apply H, Hq. Qed.

Lemma lin_names : forall e a, lin_of e = Some a -> entries_in a (enames e).
Proof.
  induction e as [z|y|arr ix|o e1 IH|o l IHl r IHr|f args]; intros a H; cbn [lin_of] in H; try discriminate.
  - inversion H; subst. intros p [].
  - inversion H; subst. intros p [<-|[]]. left; reflexivity.
  - destruct o; [|discriminate]. destruct (lin_of e1) as [a1|]; [|discriminate]. inversion H; subst.
    intros p Hp. cbn [lin_neg l_vs] in Hp. cbn [enames]. eapply entries_scale; [apply (IH a1 eq_refl) | exact Hp].
  - cbn [enames].
    destruct o; try discriminate; destruct (lin_of l) as [a1|] eqn:E1; try discriminate;
      destruct (lin_of r) as [a2|] eqn:E2; try discriminate.
    + inversion H; subst. intros p Hp. cbn [lin_add l_vs] in Hp.
      apply in_app_or in Hp as [Hp|Hp]; apply in_or_app.
      * left. eapply entries_scale; [apply (IHl a1 eq_refl) | exact Hp].
      * right. eapply entries_scale; [apply (IHr a2 eq_refl) | exact Hp].
    + inversion H; subst. intros p Hp. cbn [lin_sub lin_add lin_neg l_vs l_den] in Hp.
      apply in_app_or in Hp as [Hp|Hp]; apply in_or_app.
      * left. eapply entries_scale; [apply (IHl a1 eq_refl) | exact Hp].
      * right. eapply entries_scale; [|exact Hp]. eapply entries_scale. apply (IHr a2 eq_refl).
    + unfold lin_mul in H. destruct (lin_isconst a1); [|destruct (lin_isconst a2); [|discriminate]]; inversion H; subst;
        intros p Hp; cbn [lin_mulc l_vs] in Hp; apply in_or_app.
      * right. eapply entries_scale; [apply (IHr a2 eq_refl) | exact Hp].
      * left. eapply entries_scale; [apply (IHl a1 eq_refl) | exact Hp].
    + unfold lin_div in H. destruct (lin_isconst a2); [|discriminate]. destruct (l_c a2); try discriminate; inversion H; subst;
        intros q Hq; cbn [lin_mulc l_vs] in Hq; apply in_or_app; left; (eapply entries_scale; [apply (IHl a1 eq_refl) | exact Hq]).
Qed.

(* evaluation of translation-exact affine subscripts *)
Lemma lin_of_eval x s : forall e a, tr_exact x e = true -> lin_of e = Some a ->
  l_den a = 1%positive /\ eval s e = Some (lin_val s a).
Proof.
  induction e as [z|y|arr ix|o e1 IH|o l IHl r IHr|f args]; intros a T H; cbn [lin_of] in H; try discriminate.
  - inversion H; subst. split; [reflexivity|]. unfold lin_val, vsum. cbn [eval l_c l_vs fold_right]. f_equal. lia.
  - inversion H; subst. split; [reflexivity|]. unfold lin_val, vsum. cbn [eval l_c l_vs fold_right fst snd]. f_equal. lia.
  - destruct o; [|discriminate]. cbn [tr_exact] in T. destruct (lin_of e1) as [a1|]; [|discriminate]. inversion H; subst.
    destruct (IH a1 T eq_refl) as [D E]. split; [exact D|]. cbn [eval]. rewrite E. cbn [option_map eval_un].
    f_equal. unfold lin_val. cbn [lin_neg l_c l_vs]. rewrite vsum_scale. lia.
  - destruct o; try discriminate; cbn [tr_exact] in T;
      destruct (lin_of l) as [a1|] eqn:E1; try discriminate; destruct (lin_of r) as [a2|] eqn:E2; try discriminate.
    + apply andb_true_iff in T as [T1 T2]. destruct (IHl a1 T1 eq_refl) as [D1 V1]. destruct (IHr a2 T2 eq_refl) as [D2 V2].
      inversion H; subst. cbn [lin_add l_den]. rewrite D1, D2. split; [reflexivity|].
      cbn [eval]. rewrite V1, V2. cbn [eval_bin]. f_equal. unfold lin_val. cbn [lin_add l_c l_vs l_den].
      rewrite D1, D2, vsum_app, !vsum_scale. lia.
    + apply andb_true_iff in T as [T1 T2]. destruct (IHl a1 T1 eq_refl) as [D1 V1]. destruct (IHr a2 T2 eq_refl) as [D2 V2].
      inversion H; subst. cbn [lin_sub lin_add lin_neg l_den]. rewrite D1, D2. split; [reflexivity|].
      cbn [eval]. rewrite V1, V2. cbn [eval_bin]. f_equal. unfold lin_val. cbn [lin_sub lin_add lin_neg l_c l_vs l_den].
      rewrite D1, D2, vsum_app, !vsum_scale. lia.
    + apply andb_true_iff in T as [T _]. apply andb_true_iff in T as [T1 T2].
      destruct (IHl a1 T1 eq_refl) as [D1 V1]. destruct (IHr a2 T2 eq_refl) as [D2 V2].
      cbn [eval]. rewrite V1, V2. cbn [eval_bin]. unfold lin_mul in H.
      destruct (lin_isconst a1) eqn:C1; [|destruct (lin_isconst a2) eqn:C2; [|discriminate]]; inversion H; subst;
        cbn [lin_mulc l_den]; rewrite D1, D2; (split; [reflexivity|]); f_equal; unfold lin_val; cbn [lin_mulc l_c l_vs]; rewrite vsum_scale.
      * rewrite (isconst_vsum s a1 C1). lia.
      * rewrite (isconst_vsum s a2 C2). lia.
Qed.

(* coefficients of a difference *)
Lemma coef_lin_sub a b v :
  coef (l_vs (lin_sub a b)) v = Zpos (l_den b) * coef (l_vs a) v + Zpos (l_den a) * (-1 * coef (l_vs b) v).
Proof. cbn [lin_sub lin_add lin_neg l_vs l_den]. rewrite coef_app, !coef_scale. reflexivity. Qed.

Lemma sub_const_coefs a b : l_den a = 1%positive -> l_den b = 1%positive -> lin_isconst (lin_sub a b) = true ->
  forall v, coef (l_vs a) v = coef (l_vs b) v.
Proof.
  intros D1 D2 C v. pose proof (isconst_coefs _ C v) as H. rewrite coef_lin_sub, D1, D2 in H. lia.
Qed.

Lemma lin_sub_c a b : l_den a = 1%positive -> l_den b = 1%positive -> l_c (lin_sub a b) = l_c a - l_c b.
Proof. intros D1 D2. cbn [lin_sub lin_add lin_neg l_c l_den]. rewrite D1, D2. lia. Qed.

Section Decisions.
  Variables (x : name) (w o : expr) (a b : lin).
  Hypothesis Tw : tr_exact x w = true.
  Hypothesis To : tr_exact x o = true.
  Hypothesis Lw : lin_of w = Some a.
  Hypothesis Lo : lin_of o = Some b.

  Lemma lin_dist0_names : lin_dist0 x a b = true -> In x (enames w) /\ In x (enames o).
  Proof.
    unfold lin_dist0, lin_eq. intro H. apply andb_true_iff in H as [N H]. apply andb_true_iff in H as [_ C].
    apply negb_true_iff, Z.eqb_neq in N.
    destruct (lin_of_eval x (mkStore (fun _ => 0) (fun _ => [])) w a Tw Lw) as [D1 _].
    destruct (lin_of_eval x (mkStore (fun _ => 0) (fun _ => [])) o b To Lo) as [D2 _].
    pose proof (sub_const_coefs a b D1 D2 C x) as E.
    split.
    - rewrite <- E in N. destruct (coef_nonzero_in _ _ N) as [p [Hp <-]]. apply (lin_names w a Lw p Hp).
    - destruct (coef_nonzero_in _ _ N) as [p [Hp <-]]. apply (lin_names o b Lo p Hp).
  Qed.

  (* equal affine subscripts with a non-zero coefficient of x: same index only for the same x *)
  Lemma lin_dist0_sem s1 s2 v :
    lin_dist0 x a b = true ->
    (forall n, n <> x -> In n (enames w ++ enames o) -> val s1 (n, []) = val s2 (n, [])) ->
    eval s1 w = Some v -> eval s2 o = Some v -> val s1 (x, []) = val s2 (x, []).
  Proof.
    unfold lin_dist0, lin_eq. intros H A E1 E2. apply andb_true_iff in H as [N H]. apply andb_true_iff in H as [C0 C].
    apply negb_true_iff, Z.eqb_neq in N. apply Z.eqb_eq in C0.
    destruct (lin_of_eval x s1 w a Tw Lw) as [D1 V1]. destruct (lin_of_eval x s2 o b To Lo) as [D2 V2].
    rewrite V1 in E1. rewrite V2 in E2. inversion E1 as [F1]. inversion E2 as [F2]. clear E1 E2.
    pose proof (sub_const_coefs a b D1 D2 C) as K. rewrite (lin_sub_c a b D1 D2) in C0.
    unfold lin_val in F1, F2.
    assert (S2 : vsum s2 (l_vs b) = vsum s2 (l_vs a)).
    { apply (vsum_ext_coef s2 (length (l_vs b) + length (l_vs a))); [lia|]. intro u. symmetry. apply K. }
    rewrite S2 in F2. rewrite (vsum_split s1 x (l_vs a)) in F1. rewrite (vsum_split s2 x (l_vs a)) in F2.
    assert (R : vsum s1 (drop x (l_vs a)) = vsum s2 (drop x (l_vs a))).
    { apply vsum_agree. intros p Hp. apply in_drop in Hp as [Hp Np]. apply A; [exact Np|].
      apply in_or_app; left. apply (lin_names w a Lw p Hp). }
    rewrite (K x) in F1, F2. nia.
  Qed.

  (* affine subscripts differing by a non-zero constant never give the same index *)
  Lemma lin_neq_sem s1 s2 v1 v2 :
    lin_neq a b = true ->
    (forall n, In n (enames w ++ enames o) -> val s1 (n, []) = val s2 (n, [])) ->
    eval s1 w = Some v1 -> eval s2 o = Some v2 -> v1 <> v2.
  Proof.
    unfold lin_neq. intros H A E1 E2. apply andb_true_iff in H as [H _]. apply andb_true_iff in H as [C N].
    apply negb_true_iff, Z.eqb_neq in N.
    destruct (lin_of_eval x s1 w a Tw Lw) as [D1 V1]. destruct (lin_of_eval x s2 o b To Lo) as [D2 V2].
    rewrite V1 in E1. rewrite V2 in E2. inversion E1 as [F1]. inversion E2 as [F2]. clear E1 E2.
    pose proof (sub_const_coefs a b D1 D2 C) as K. rewrite (lin_sub_c a b D1 D2) in N.
    unfold lin_val.
    assert (S2 : vsum s2 (l_vs b) = vsum s2 (l_vs a)).
    { apply (vsum_ext_coef s2 (length (l_vs b) + length (l_vs a))); [lia|]. intro u. symmetry. apply K. }
    assert (R : vsum s1 (l_vs a) = vsum s2 (l_vs a)).
    { apply vsum_agree. intros p Hp. apply A. apply in_or_app; left. apply (lin_names w a Lw p Hp). }
    lia.
  Qed.
End Decisions.
