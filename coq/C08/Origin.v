(* C08 — frame and origin of trace events: executing a body of assignments / IF / DO only changes
   locations whose name the body writes syntactically, always ends normally, and every Rd/Wr event
   stems from a syntactic access (Model.sacc) whose subscripts, evaluated in a store that agrees with
   the initial one outside the written names, give the event's location. *)
From Coq Require Import List ZArith Bool Lia PeanoNat.
Import ListNotations.
From PV Require Import Fort.Syntax Fort.Sem C08.Model C08.Safe C08.SemFacts.
Open Scope Z_scope.

Definition rel (W : list name) (s s' : store) : Prop := forall l, ~ In (fst l) W -> val s' l = val s l.

Lemma rel_refl W s : rel W s s.
Proof. intros l _. reflexivity. Qed.
Lemma rel_trans W s1 s2 s3 : rel W s1 s2 -> rel W s2 s3 -> rel W s1 s3.
Proof. intros H1 H2 l N. rewrite (H2 l N). apply H1, N. Qed.
Lemma rel_upd W s l v : In (fst l) W -> rel W s (upd s l v).
Proof. intros H l' N. apply val_upd_other. intro E. subst. contradiction. Qed.
Lemma rel_weaken W W' s s' : incl W W' -> rel W s s' -> rel W' s s'.
Proof. intros I H l N. apply H. intro X. apply N, I, X. Qed.

Definition acc_at (W : list name) (s : store) (accs : list access) (wr : bool) (L : loc) : Prop :=
  exists ix s2, In (mkAcc wr (fst L) ix) accs /\ rel W s s2 /\ opt_all (map (eval s2) ix) = Some (snd L).

Definition origin (W : list name) (s : store) (accs : list access) (ev : event) : Prop :=
  match ev with
  | Rd L => acc_at W s accs false L
  | Wr L => acc_at W s accs true L
  | _ => True
  end.

Lemma acc_at_mono W s s1 accs accs' wr L :
  rel W s s1 -> incl accs accs' -> acc_at W s1 accs wr L -> acc_at W s accs' wr L.
Proof.
  intros R I [ix [s2 [H1 [H2 H3]]]]. exists ix, s2. split; [apply I, H1|]. split; [eapply rel_trans; eassumption | exact H3].
Qed.

Lemma origin_mono W s s1 accs accs' ev :
  rel W s s1 -> incl accs accs' -> origin W s1 accs ev -> origin W s accs' ev.
Proof. intros R I. destruct ev; cbn [origin]; try tauto; apply acc_at_mono; assumption. Qed.

Lemma Forall_origin_mono W s s1 accs accs' tr :
  rel W s s1 -> incl accs accs' -> Forall (origin W s1 accs) tr -> Forall (origin W s accs') tr.
Proof. intros R I H. eapply Forall_impl; [|exact H]. intros ev. apply origin_mono; assumption. Qed.

(* reads of expressions *)
Lemma ereads_origin s : forall e L, In L (ereads s e) ->
  exists ix, In (mkAcc false (fst L) ix) (eacc e) /\ opt_all (map (eval s) ix) = Some (snd L).
Proof.
  induction e as [z|y|a ix IH|o e1 IH|o l r IHl IHr|f args IH] using expr_ind'; intros L HL; cbn [ereads eacc] in *.
  - destruct HL.
  - destruct HL as [<-|[]]. exists []. split; [left; reflexivity | reflexivity].
  - apply in_app_or in HL as [HL|HL].
    + apply in_flat_map in HL as [e' [He' HL]]. rewrite Forall_forall in IH.
      destruct (IH e' He' L HL) as [ix' [Hin Hev]]. exists ix'. split; [|exact Hev].
      apply in_or_app; left. apply in_flat_map. exists e'. split; assumption.
    + destruct (opt_all (map (eval s) ix)) as [vs|] eqn:E; [|destruct HL]. destruct HL as [<-|[]].
      exists ix. split; [apply in_or_app; right; left; reflexivity | exact E].
  - apply IH, HL.
  - apply in_app_or in HL as [HL|HL].
    + destruct (IHl L HL) as [ix [H1 H2]]. exists ix. split; [apply in_or_app; left; exact H1 | exact H2].
    + destruct (IHr L HL) as [ix [H1 H2]]. exists ix. split; [apply in_or_app; right; exact H1 | exact H2].
  - assert (G : forall args', incl args' args -> In L (flat_map (ereads s) args') ->
                exists ix, In (mkAcc false (fst L) ix) (flat_map eacc args) /\ opt_all (map (eval s) ix) = Some (snd L)).
    { intros args' I HL'. apply in_flat_map in HL' as [e' [He' HL']]. rewrite Forall_forall in IH.
      destruct (IH e' (I e' He') L HL') as [ix' [Hin Hev]]. exists ix'. split; [|exact Hev].
      apply in_flat_map. exists e'. split; [apply I, He' | exact Hin]. }
    destruct (is_inquiry f).
    + destruct args as [|a0 r]; [destruct HL|]. apply (G r); [intros y Hy; right; exact Hy | exact HL].
    + apply (G args); [apply incl_refl | exact HL].
Qed.

Lemma rds_origin W s accs ls :
  (forall L, In L ls -> exists ix, In (mkAcc false (fst L) ix) accs /\ opt_all (map (eval s) ix) = Some (snd L)) ->
  Forall (origin W s accs) (rds ls).
Proof.
  intro H. unfold rds. apply Forall_forall. intros ev Hev. apply in_map_iff in Hev as [L [<- HL]].
  destruct (H L HL) as [ix [H1 H2]]. exists ix, s. split; [exact H1|]. split; [apply rel_refl | exact H2].
Qed.

Lemma ereads_origin_in s (es : list expr) L :
  In L (flat_map (ereads s) es) ->
  exists ix, In (mkAcc false (fst L) ix) (flat_map eacc es) /\ opt_all (map (eval s) ix) = Some (snd L).
Proof.
  intro HL. apply in_flat_map in HL as [e [He HL]]. destruct (ereads_origin s e L HL) as [ix [H1 H2]].
  exists ix. split; [apply in_flat_map; exists e; split; assumption | exact H2].
Qed.

(* what an execution may do *)
Definition good (W : list name) (A : list access) (s : store) (o : outcome) : Prop :=
  forall s' tr c, o = Ok s' tr c -> rel W s s' /\ Forall (origin W s A) tr /\ c = CNormal.

Lemma do_loop_origin W A (run : store -> outcome) j l t :
  In j W -> In (mkAcc true j []) A -> (forall s, good W A s (run s)) ->
  forall n k s, good W A s (do_loop run j l t n k s).
Proof.
  intros Hj HA Hrun. induction n as [|n IH]; intros k s s' tr c H; cbn [do_loop] in H.
  - inversion H; subst. split; [apply rel_upd; exact Hj|]. split; [|reflexivity].
    constructor; [|constructor]. exists [], s. split; [exact HA|]. split; [apply rel_refl | reflexivity].
  - set (s1 := upd s (j, []) (l + k * t)) in *.
    destruct (run s1) as [s2 tr2 c2| |] eqn:E; try discriminate.
    destruct (Hrun s1 s2 tr2 c2 E) as [R12 [O2 ->]].
    apply prepend_ok_inv in H as [tr0 [H ->]].
    destruct (IH (k + 1) s2 s' tr0 c H) as [R2 [O0 ->]].
    assert (R01 : rel W s s1) by (apply rel_upd; exact Hj).
    split; [eapply rel_trans; [exact R01 | eapply rel_trans; eassumption]|]. split; [|reflexivity].
    cbn [app]. constructor.
    + exists [], s. split; [exact HA|]. split; [apply rel_refl | reflexivity].
    + apply Forall_app. split.
      * eapply Forall_origin_mono; [exact R01 | apply incl_refl | exact O2].
      * eapply Forall_origin_mono; [eapply rel_trans; eassumption | apply incl_refl | exact O0].
Qed.

Lemma forallb_simple_app a b : forallb simple (a ++ b) = true -> forallb simple a = true /\ forallb simple b = true.
Proof. rewrite forallb_app. apply andb_true_iff. Qed.

Lemma stmt_origin W f st s :
  (forall ss s, forallb simple ss = true -> incl (flat_map swn ss) W -> good W (flat_map sacc ss) s (exec f ss s)) ->
  simple st = true -> incl (swn st) W -> good W (sacc st) s (exec_stmt (exec f) st s).
Proof.
  intros IH Hs Hw s' tr c H.
  destruct st as [x ix e|cnd th el|j lo hi stp b| | | |es|r b|d b]; cbn [simple] in Hs; try discriminate; cbn [exec_stmt] in H.
  - (* assignment *)
    destruct (opt_all (map (eval s) ix)) as [vs|] eqn:E1; [|discriminate].
    destruct (eval s e) as [v|] eqn:E2; [|discriminate]. inversion H; subst.
    assert (Hx : In x W) by (apply Hw; left; reflexivity).
    split; [apply rel_upd; exact Hx|]. split; [|reflexivity]. cbn [sacc].
    apply Forall_app. split.
    + apply rds_origin. intros L HL. apply in_app_or in HL as [HL|HL].
      * destruct (ereads_origin s e L HL) as [ix' [H1 H2]]. exists ix'. split; [apply in_or_app; left; exact H1 | exact H2].
      * destruct (ereads_origin_in s ix L HL) as [ix' [H1 H2]]. exists ix'.
        split; [apply in_or_app; right; apply in_or_app; left; exact H1 | exact H2].
    + constructor; [|constructor]. exists ix, s. cbn [fst snd].
      split; [apply in_or_app; right; apply in_or_app; right; left; reflexivity|]. split; [apply rel_refl | exact E1].
  - (* if *)
    apply andb_true_iff in Hs as [Hth Hel]. cbn [swn] in Hw.
    destruct (eval s cnd) as [v|] eqn:E; [|discriminate].
    apply prepend_ok_inv in H as [tr0 [H ->]]. cbn [sacc].
    assert (G : forall blk, forallb simple blk = true -> incl (flat_map swn blk) W -> incl (flat_map sacc blk) (flat_map sacc th ++ flat_map sacc el) ->
                exec f blk s = Ok s' tr0 c -> rel W s s' /\ Forall (origin W s (eacc cnd ++ flat_map sacc th ++ flat_map sacc el)) (rds (ereads s cnd) ++ tr0) /\ c = CNormal).
    { intros blk B1 B2 B3 HB. destruct (IH blk s B1 B2 s' tr0 c HB) as [R [O ->]]. split; [exact R|]. split; [|reflexivity].
      apply Forall_app. split.
      - apply rds_origin. intros L HL. destruct (ereads_origin s cnd L HL) as [ix' [H1 H2]]. exists ix'.
        split; [apply in_or_app; left; exact H1 | exact H2].
      - eapply Forall_origin_mono; [apply rel_refl | | exact O]. intros a Ha. apply in_or_app; right. apply B3, Ha. }
    destruct (v =? 0).
    + apply (G el); [exact Hel | intros y Hy; apply Hw, in_or_app; right; exact Hy | intros y Hy; apply in_or_app; right; exact Hy | exact H].
    + apply (G th); [exact Hth | intros y Hy; apply Hw, in_or_app; left; exact Hy | intros y Hy; apply in_or_app; left; exact Hy | exact H].
  - (* do *)
    cbn [swn] in Hw.
    destruct (eval s lo) as [l|] eqn:E1; [|discriminate].
    destruct (eval s hi) as [h|] eqn:E2; [|discriminate].
    destruct (eval s stp) as [t|] eqn:E3; [|discriminate].
    destruct (t =? 0); [discriminate|].
    apply prepend_ok_inv in H as [tr0 [H ->]]. cbn [sacc].
    set (A := mkAcc true j [] :: mkAcc false j [] :: eacc lo ++ eacc hi ++ eacc stp ++ flat_map sacc b).
    assert (Hrun : forall s0, good W A s0 (exec f b s0)).
    { intros s0 s1 tr1 c1 H1. destruct (IH b s0 Hs (fun y Hy => Hw y (or_intror Hy)) s1 tr1 c1 H1) as [R [O ->]].
      split; [exact R|]. split; [|reflexivity]. eapply Forall_origin_mono; [apply rel_refl | | exact O].
      intros a Ha. right. right. apply in_or_app; right. apply in_or_app; right. apply in_or_app; right. exact Ha. }
    destruct (do_loop_origin W A (exec f b) j l t (Hw j (or_introl eq_refl)) (or_introl eq_refl) Hrun _ _ _ _ _ _ H) as [R [O ->]].
    split; [exact R|]. split; [|reflexivity]. apply Forall_app. split; [|exact O].
    apply rds_origin. intros L HL. apply in_app_or in HL as [HL|HL]; [|apply in_app_or in HL as [HL|HL]];
      destruct (ereads_origin s _ L HL) as [ix' [H1 H2]]; exists ix'; (split; [|exact H2]); right; right.
    + apply in_or_app; left; exact H1.
    + apply in_or_app; right; apply in_or_app; left; exact H1.
    + apply in_or_app; right; apply in_or_app; right; apply in_or_app; left; exact H1.
Qed.

Theorem exec_origin W : forall f ss s,
  forallb simple ss = true -> incl (flat_map swn ss) W -> good W (flat_map sacc ss) s (exec f ss s).
Proof.
  induction f as [|f IH]; intros ss s Hs Hw s' tr c H; [discriminate|].
  destruct ss as [|st rest].
  - inversion H; subst. split; [apply rel_refl|]. split; [constructor | reflexivity].
  - rewrite exec_cons in H. cbn [forallb] in Hs. apply andb_true_iff in Hs as [Hst Hrest].
    cbn [flat_map] in Hw |- *.
    assert (Hw1 : incl (swn st) W) by (intros y Hy; apply Hw, in_or_app; left; exact Hy).
    assert (Hw2 : incl (flat_map swn rest) W) by (intros y Hy; apply Hw, in_or_app; right; exact Hy).
    pose proof (stmt_origin W f st s IH Hst Hw1) as G.
    apply then_run_ok_inv in H as [[s1 [tr1 [tr2 [H1 [H2 ->]]]]]|[N H1]].
    + destruct (G s1 tr1 CNormal H1) as [R1 [O1 _]].
      destruct (IH rest s1 Hrest Hw2 s' tr2 c H2) as [R2 [O2 ->]].
      split; [eapply rel_trans; eassumption|]. split; [|reflexivity]. apply Forall_app. split.
      * eapply Forall_origin_mono; [apply rel_refl | | exact O1]. intros a Ha. apply in_or_app; left; exact Ha.
      * eapply Forall_origin_mono; [exact R1 | | exact O2]. intros a Ha. apply in_or_app; right; exact Ha.
    + destruct (G s' tr c H1) as [_ [_ E]]. contradiction.
Qed.
