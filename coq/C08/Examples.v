(* C08 — corollary without oracle premises (all-affine loops) and non-vacuity examples. *)
From Coq Require Import List ZArith Bool.
Import ListNotations.
From PV Require Import Fort.Syntax Fort.Sem C08.Model C08.Safe C08.Spec C08.Sound.
Close Scope Z_scope.

Definition no_odist : name -> expr -> expr -> bool := fun _ _ _ => false.
Definition no_oneq : expr -> expr -> bool := fun _ _ => false.

(* when the analysis never relies on a sympy answer for a non-affine subscript, no premise is left *)
Theorem par_sound_affine incr dtab x lo hi st body :
  safe x body = true ->
  can_par no_odist no_oneq incr dtab x lo hi st body = Par ->
  forall f s its, iterations_of f x lo hi st body s its -> ~ conflict body (map snd its).
Proof.
  apply (par_sound no_odist no_oneq incr dtab); unfold no_odist, no_oneq; intros; discriminate.
Qed.

(* non-vacuity 1:   do i = 1, n ; t = b(i) ; a(i) = t + a(i) ; do j = 1, 3 ; d(j, i) = d(j, i) + c(i + 1) ; end do
   names: a=0 b=1 c=2 d=3 i=4 j=5 n=6 t=7 *)
Definition ex_body : list stmt :=
  [SAssign 7 [] (EIdx 1 [EVar 4]);
   SAssign 0 [EVar 4] (EBin Add (EVar 7) (EIdx 0 [EVar 4]));
   SDo 5 (ELit 1) (ELit 3) (ELit 1)
     [SAssign 3 [EVar 5; EVar 4] (EBin Add (EIdx 3 [EVar 5; EVar 4]) (EIdx 2 [EBin Add (EVar 4) (ELit 1)]))]].

Example par_sound_nonvacuous incr :
  safe 4 ex_body = true /\ can_par no_odist no_oneq incr [] 4 (ELit 1) (EVar 6) (ELit 1) ex_body = Par /\
  exists f s its, iterations_of f 4 (ELit 1) (EVar 6) (ELit 1) ex_body s its /\ length its = 3.
Proof.
  split; [vm_compute; reflexivity|]. split; [vm_compute; reflexivity|].
  exists 8, (store_of [((6, []), 3%Z)] []). eexists. split.
  - unfold iterations_of. do 4 eexists.
    split; [reflexivity | split; [reflexivity | split; [reflexivity | split; [discriminate | vm_compute; reflexivity]]]].
  - reflexivity.
Qed.

(* non-vacuity 2 (oracle-decided subscripts):   do i = 1, 3 ; d(idx(3), i) = d(idx(3) + 1, i + 1)
   names: d=0 i=1 idx=2.  The first subscripts are not affine (index array): sympy is asked and answers
   "never equal"; idx is not written in the loop, so the loop is in the safe fragment. *)
Definition ex2_body : list stmt :=
  [SAssign 0 [EIdx 2 [ELit 3]; EVar 1]
           (EIdx 0 [EBin Add (EIdx 2 [ELit 3]) (ELit 1); EBin Add (EVar 1) (ELit 1)])].

Example par_sound_oracle_nonvacuous odist oneq incr :
  oneq (EIdx 2 [ELit 3]) (EBin Add (EIdx 2 [ELit 3]) (ELit 1)) = true ->
  safe 1 ex2_body = true /\ can_par odist oneq incr [] 1 (ELit 1) (ELit 3) (ELit 1) ex2_body = Par.
Proof.
  intro O. split; [vm_compute; reflexivity|].
  unfold can_par. cbn. unfold var_par. cbn. unfold array_par. cbn. unfold indep_pair. cbn.
  unfold dist0. cbn. unfold neq. cbn. rewrite ?O.
  repeat match goal with |- context [if ?c then _ else _] => destruct c end; reflexivity.
Qed.
