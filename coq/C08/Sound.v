(* C08 — par_sound_partial: on the safe fragment, a loop the model reports parallelisable has no Bernstein
   conflict between two distinct iterations of its execution in Fort.Sem (except exempt scalars). *)
From Coq Require Import List ZArith Bool Lia PeanoNat.
Import ListNotations.
From PV Require Import Fort.Syntax Fort.Sem C08.Model C08.Safe C08.Spec C08.SemFacts C08.Origin C08.LinFacts
     C08.Decide C08.Scalars.
Open Scope Z_scope.

(* ---------------------------------------------------------------------------------------------- *)
(* the iterations of a loop *)
Lemma iters_props f body x l t W s0 :
  forallb simple body = true -> incl (flat_map swn body) W -> ~ In x W ->
  forall n k s its fin,
    iters (exec f body) x l t n k s = Some (its, fin) -> rel (x :: W) s0 s ->
    forall idx sk trk, nth_error its idx = Some (sk, trk) ->
      val sk (x, []) = l + (k + Z.of_nat idx) * t /\ rel (x :: W) s0 sk /\
      exists s2, exec f body sk = Ok s2 trk CNormal.
Proof.
  intros Hs Hw Hx. induction n as [|n IH]; intros k s its fin H R idx sk trk Hn; cbn [iters] in H.
  - inversion H; subst. destruct idx; discriminate.
  - set (s1 := upd s (x, []) (l + k * t)) in *.
    destruct (exec f body s1) as [s2 tr c| |] eqn:E; try discriminate. destruct c; try discriminate.
    destruct (iters (exec f body) x l t n (k + 1) s2) as [[its' fin']|] eqn:E2; [|discriminate].
    inversion H; subst. clear H.
    assert (R1 : rel (x :: W) s0 s1).
    { eapply rel_trans; [exact R|]. apply rel_upd. left; reflexivity. }
    destruct idx as [|i]; cbn [nth_error] in Hn.
    + inversion Hn; subst. split; [|split; [exact R1 | exists s2; exact E]].
      unfold s1. rewrite val_upd_same. cbn [Z.of_nat]. lia.
    + destruct (exec_origin W f body s1 Hs Hw s2 tr CNormal E) as [R2 _].
      assert (R02 : rel (x :: W) s0 s2).
      { eapply rel_trans; [exact R1|]. eapply rel_weaken; [|exact R2]. intros y Hy. right; exact Hy. }
      destruct (IH (k + 1) s2 _ _ E2 R02 i sk trk Hn) as [A B]. split; [|exact B].
      rewrite A. rewrite Nat2Z.inj_succ. lia.
Qed.

(* tie to Sem.do_loop: the trace of the whole loop is made of the per-iteration traces *)
Lemma do_loop_iters (run : store -> outcome) x l t :
  (forall s s' tr c, run s = Ok s' tr c -> c = CNormal) ->
  forall n k s s' tr c, do_loop run x l t n k s = Ok s' tr c ->
    exists its fin, iters run x l t n k s = Some (its, fin) /\
                    tr = concat (map (fun t0 => Wr (x, []) :: t0) (map snd its)) ++ [Wr (x, [])] /\ c = CNormal.
Proof.
  intros Hrun. induction n as [|n IH]; intros k s s' tr c H; cbn [do_loop] in H; cbn [iters].
  - inversion H; subst. exists [], s. repeat split.
  - destruct (run (upd s (x, []) (l + k * t))) as [s2 tr2 c2| |] eqn:E; try discriminate.
    rewrite (Hrun _ _ _ _ E) in *. apply prepend_ok_inv in H as [tr0 [H ->]].
    destruct (IH _ _ _ _ _ H) as [its [fin [E2 [-> ->]]]]. rewrite E2.
    exists ((upd s (x, []) (l + k * t), tr2) :: its), fin. split; [reflexivity|]. split; [|reflexivity].
    cbn [map snd concat app]. rewrite <- app_assoc. reflexivity.
Qed.

Theorem loop_iterations_exist f x lo hi st body s s' tr c :
  forallb simple body = true ->
  exec (S f) [SDo x lo hi st body] s = Ok s' tr c ->
  exists its, iterations_of f x lo hi st body s its /\
              tr = loop_trace x (ereads s lo ++ ereads s hi ++ ereads s st) (map snd its).
Proof.
  intros Hs H. rewrite exec_cons in H. cbn [exec_stmt] in H.
  destruct (eval s lo) as [l|] eqn:E1; [|discriminate]. destruct (eval s hi) as [h|] eqn:E2; [|discriminate].
  destruct (eval s st) as [t|] eqn:E3; [|discriminate]. destruct (t =? 0) eqn:T0; [discriminate|].
  apply then_run_ok_inv in H as [[s1 [tr1 [tr2 [H1 [H2 ->]]]]]|[N H1]].
  - apply prepend_ok_inv in H1 as [tr0 [H1 ->]].
    destruct (do_loop_iters (exec f body) x l t) with (n := trip_count l h t) (k := 0) (s := s) (s' := s1) (tr := tr0) (c := CNormal)
      as [its [fin [I [-> _]]]]; [|exact H1|].
    + intros s0 s0' tr' c' H0. apply (exec_origin (flat_map swn body) f body s0 Hs (incl_refl _) s0' tr' c' H0).
    + exists its. split.
      * exists l, h, t, fin. repeat split; try assumption. apply Z.eqb_neq, T0.
      * destruct f as [|f']; [discriminate|]. cbn [exec] in H2. inversion H2; subst.
        unfold loop_trace. rewrite app_nil_r. reflexivity.
  - apply prepend_ok_inv in H1 as [tr0 [H1 ->]].
    destruct (do_loop_iters (exec f body) x l t) with (n := trip_count l h t) (k := 0) (s := s) (s' := s') (tr := tr0) (c := c)
      as [its [fin [_ [_ ->]]]]; [|exact H1|contradiction].
    intros s0 s0' tr' c' H0. apply (exec_origin (flat_map swn body) f body s0 Hs (incl_refl _) s0' tr' c' H0).
Qed.

(* ---------------------------------------------------------------------------------------------- *)
(* syntactic facts about access lists *)
Lemma eacc_reads : forall e a, In a (eacc e) -> a_wr a = false.
Proof.
  induction e as [z|y|arr ix IH|o e1 IH|o l r IHl IHr|f args IH] using expr_ind'; intros a Ha; cbn [eacc] in Ha.
  - destruct Ha.
  - destruct Ha as [<-|[]]. reflexivity.
  - apply in_app_or in Ha as [Ha|[<-|[]]]; [|reflexivity]. apply in_flat_map in Ha as [e [He Ha]].
    rewrite Forall_forall in IH. apply (IH e He a Ha).
  - apply IH, Ha.
  - apply in_app_or in Ha as [Ha|Ha]; [apply IHl, Ha | apply IHr, Ha].
  - apply in_flat_map in Ha as [e [He Ha]]. rewrite Forall_forall in IH. apply (IH e He a Ha).
Qed.

Lemma eacc_list_reads es a : In a (flat_map eacc es) -> a_wr a = false.
Proof. intro H. apply in_flat_map in H as [e [_ H]]. eapply eacc_reads, H. Qed.

Definition wcase (st : stmt) (v : name) (ix : list expr) : Prop :=
  (In v (sasg st) /\ (ix = [] -> In v (sscal st))) \/ (ix = [] /\ In v (sdovars st)).

Lemma flat_In {A B} (f : A -> list B) l x y : In x l -> In y (f x) -> In y (flat_map f l).
Proof. intros H1 H2. apply in_flat_map. exists x. split; assumption. Qed.

Lemma wacc_cases : forall st, simple st = true -> forall v ix, In (mkAcc true v ix) (sacc st) -> wcase st v ix.
Proof.
  induction st as [x ix0 e|c th el IHt IHe|j lo hi stp b IHb| | | |es|r b IHb|d b IHb] using stmt_ind';
    intros Hs v ix Ha; cbn [simple] in Hs; try discriminate; cbn [sacc] in Ha.
  - apply in_app_or in Ha as [Ha|Ha]; [apply eacc_reads in Ha; discriminate|].
    apply in_app_or in Ha as [Ha|[Ha|[]]]; [apply eacc_list_reads in Ha; discriminate|].
    inversion Ha; subst. left. split; [left; reflexivity|]. intros ->. left; reflexivity.
  - apply andb_true_iff in Hs as [H1 H2]. rewrite forallb_forall in H1, H2. rewrite Forall_forall in IHt, IHe.
    apply in_app_or in Ha as [Ha|Ha]; [apply eacc_reads in Ha; discriminate|].
    unfold wcase. cbn [sasg sscal sdovars].
    apply in_app_or in Ha as [Ha|Ha]; apply in_flat_map in Ha as [s1 [Hs1 Ha]].
    + destruct (IHt s1 Hs1 (H1 s1 Hs1) v ix Ha) as [[A B]|[A B]].
      * left. split; [apply in_or_app; left; eapply flat_In; eassumption|]. intro E. apply in_or_app; left. eapply flat_In; [exact Hs1 | apply B, E].
      * right. split; [exact A|]. apply in_or_app; left. eapply flat_In; eassumption.
    + destruct (IHe s1 Hs1 (H2 s1 Hs1) v ix Ha) as [[A B]|[A B]].
      * left. split; [apply in_or_app; right; eapply flat_In; eassumption|]. intro E. apply in_or_app; right. eapply flat_In; [exact Hs1 | apply B, E].
      * right. split; [exact A|]. apply in_or_app; right. eapply flat_In; eassumption.
  - rewrite forallb_forall in Hs. rewrite Forall_forall in IHb. unfold wcase. cbn [sasg sscal sdovars].
    destruct Ha as [Ha|[Ha|Ha]]; [inversion Ha; subst; right; split; [reflexivity | left; reflexivity] | discriminate Ha |].
    apply in_app_or in Ha as [Ha|Ha]; [apply eacc_reads in Ha; discriminate|].
    apply in_app_or in Ha as [Ha|Ha]; [apply eacc_reads in Ha; discriminate|].
    apply in_app_or in Ha as [Ha|Ha]; [apply eacc_reads in Ha; discriminate|].
    apply in_flat_map in Ha as [s1 [Hs1 Ha]].
    destruct (IHb s1 Hs1 (Hs s1 Hs1) v ix Ha) as [[A B]|[A B]].
    + left. split; [eapply flat_In; eassumption|]. intro E. eapply flat_In; [exact Hs1 | apply B, E].
    + right. split; [exact A|]. right. eapply flat_In; eassumption.
Qed.

Lemma wacc_cases_list body v ix :
  forallb simple body = true -> In (mkAcc true v ix) (flat_map sacc body) ->
  (In v (flat_map sasg body) /\ (ix = [] -> In v (flat_map sscal body))) \/ (ix = [] /\ In v (flat_map sdovars body)).
Proof.
  intros Hs Ha. rewrite forallb_forall in Hs. apply in_flat_map in Ha as [st [Hst Ha]].
  destruct (wacc_cases st (Hs st Hst) v ix Ha) as [[A B]|[A B]].
  - left. split; [eapply flat_In; eassumption|]. intro E. eapply flat_In; [exact Hst | apply B, E].
  - right. split; [exact A | eapply flat_In; eassumption].
Qed.

Lemma sasg_swn : forall st v, In v (sasg st) -> In v (swn st).
Proof.
  induction st as [x ix0 e|c th el IHt IHe|j lo hi stp b IHb| | | |es|r b IHb|d b IHb] using stmt_ind';
    intros v H; cbn [sasg swn] in *; try exact H; try (destruct H; fail).
  - rewrite Forall_forall in IHt, IHe. apply in_app_or in H as [H|H]; apply in_flat_map in H as [s1 [H1 H]]; apply in_or_app;
      [left; eapply flat_In; [exact H1 | apply IHt; assumption] | right; eapply flat_In; [exact H1 | apply IHe; assumption]].
  - rewrite Forall_forall in IHb. apply in_flat_map in H as [s1 [H1 H]]. right. eapply flat_In; [exact H1 | apply IHb; assumption].
Qed.

Lemma sasg_swn_list body v : In v (flat_map sasg body) -> In v (flat_map swn body).
Proof. intro H. apply in_flat_map in H as [st [H1 H]]. eapply flat_In; [exact H1 | apply sasg_swn, H]. Qed.

(* ---------------------------------------------------------------------------------------------- *)
(* inversion of the model's loops *)
Lemma insert_sorted_In v n l : In v (insert_sorted n l) <-> v = n \/ In v l.
Proof.
  induction l as [|m r IH]; cbn [insert_sorted In]; [intuition|].
  destruct (Nat.ltb n m); [cbn [In]; intuition|]. destruct (Nat.eqb n m) eqn:E.
  - apply Nat.eqb_eq in E. subst. cbn [In]. intuition.
  - cbn [In]. rewrite IH. intuition.
Qed.

Lemma sort_names_In v l : In v (sort_names l) <-> In v l.
Proof.
  induction l as [|a l IH]; [reflexivity|]. unfold sort_names in *. cbn [fold_right]. rewrite insert_sorted_In, IH.
  cbn [In]. intuition.
Qed.

Section Sound.
  Variable odist : name -> expr -> expr -> bool.
  Variable oneq : expr -> expr -> bool.
  Variable incr : bool.
  Variable dtab : list (nat * name).

  Hypothesis sympy_solveset_exact : forall x w o,
    odist x w o = true -> tr_exact x w = true -> tr_exact x o = true ->
    forall s1 s2 v,
      (forall n ix, n <> x -> In n (enames w ++ enames o) -> val s1 (n, ix) = val s2 (n, ix)) ->
      eval s1 w = Some v -> eval s2 o = Some v -> val s1 (x, []) = val s2 (x, []).
  Hypothesis sympy_simplify_exact : forall x w o,
    oneq w o = true -> tr_exact x w = true -> tr_exact x o = true ->
    forall s1 s2 v1 v2,
      (forall n ix, In n (enames w ++ enames o) -> val s1 (n, ix) = val s2 (n, ix)) ->
      eval s1 w = Some v1 -> eval s2 o = Some v2 -> v1 <> v2.

  Notation indep_pair := (indep_pair odist oneq incr dtab).
  Notation others := (others odist oneq incr dtab).
  Notation writes_loop := (writes_loop odist oneq incr dtab).
  Notation var_par := (var_par odist oneq incr dtab).
  Notation vars_loop := (vars_loop odist oneq incr dtab).

  Lemma others_par_inv lvs v iw w : forall all io,
    others lvs v iw w all io = Par -> forall o, In o all -> indep_pair lvs w (a_ix o) = Some true.
  Proof.
    induction all as [|o r IH]; intros io H o' Ho; [destruct Ho|]. cbn [Model.others] in H.
    destruct (indep_pair lvs w (a_ix o)) as [[|]|] eqn:E; try discriminate.
    destruct Ho as [<-|Ho]; [exact E | eapply IH; eassumption].
  Qed.

  Lemma writes_loop_par_inv lvs v all : forall rest iw,
    writes_loop lvs v all rest iw = Par ->
    forall w, In w rest -> a_wr w = true -> forall o, In o all -> indep_pair lvs (a_ix w) (a_ix o) = Some true.
  Proof.
    induction rest as [|w0 r IH]; intros iw H w Hw Wr o Ho; [destruct Hw|]. cbn [Model.writes_loop] in H.
    destruct Hw as [<-|Hw].
    - rewrite Wr in H. destruct (others lvs v iw (a_ix w0) all 0) eqn:E; try discriminate.
      eapply others_par_inv; eassumption.
    - destruct (a_wr w0).
      + destruct (others lvs v iw (a_ix w0) all 0) eqn:E; try discriminate. eapply IH; eassumption.
      + eapply IH; eassumption.
  Qed.

  Lemma vars_loop_par_inv lvs accs : forall ns,
    vars_loop lvs accs ns = Par -> forall v, In v ns -> ~ In v lvs -> var_par lvs accs v = Par.
  Proof.
    induction ns as [|n r IH]; intros H v Hv Nv; [destruct Hv|]. cbn [Model.vars_loop] in H.
    destruct (memn n lvs) eqn:M.
    - destruct Hv as [<-|Hv]; [apply memn_In in M; contradiction | apply IH; assumption].
    - destruct (var_par lvs accs n) eqn:E; try discriminate.
      destruct Hv as [<-|Hv]; [exact E | apply IH; assumption].
  Qed.

  (* ---------------------------------------------------------------------------------------------- *)
  Theorem par_sound x lo hi st body :
    safe x body = true ->
    can_par odist oneq incr dtab x lo hi st body = Par ->
    forall f s its, iterations_of f x lo hi st body s its -> ~ conflict body (map snd its).
  Proof.
    intros Hsafe Hpar f s its [l [h [t [fin [El [Eh [Et [Tn It]]]]]]]] [p [q [tp [tq [L [Npq [Np [Nq [HW [HT NE]]]]]]]]]].
    unfold safe in Hsafe. set (W := flat_map swn body) in *. set (lvs := x :: flat_map sdovars body) in *.
    apply andb_true_iff in Hsafe as [Hsafe Hsc]. apply andb_true_iff in Hsafe as [Hsafe Hsub].
    apply andb_true_iff in Hsafe as [Hsafe Hasg]. apply andb_true_iff in Hsafe as [Hs Hx].
    apply negb_true_iff, memn_false in Hx.
    rewrite forallb_forall in Hsc, Hsub, Hasg.
    (* the two iterations *)
    rewrite nth_error_map in Np, Nq.
    destruct (nth_error its p) as [[sp tp']|] eqn:Ip; [|discriminate]. cbn [option_map snd] in Np. inversion Np; subst tp'. clear Np.
    destruct (nth_error its q) as [[sq tq']|] eqn:Iq; [|discriminate]. cbn [option_map snd] in Nq. inversion Nq; subst tq'. clear Nq.
    pose proof (iters_props f body x l t W s Hs (incl_refl _) Hx _ _ _ _ _ It (rel_refl _ _)) as IP.
    destruct (IP p sp tp Ip) as [Xp [Rp [sp2 Ep]]]. destruct (IP q sq tq Iq) as [Xq [Rq [sq2 Eq]]].
    destruct (exec_origin W f body sp Hs (incl_refl _) sp2 tp CNormal Ep) as [_ [Op _]].
    destruct (exec_origin W f body sq Hs (incl_refl _) sq2 tq CNormal Eq) as [_ [Oq _]].
    rewrite Forall_forall in Op, Oq.
    (* the write in iteration p *)
    apply in_writes in HW. pose proof (Op _ HW) as [ixw [s1 [Aw [R1 Vw]]]]. cbn [origin] in *.
    (* the other access in iteration q *)
    assert (HO : exists b ixo s2, In (mkAcc b (fst L) ixo) (flat_map sacc body) /\ rel W sq s2 /\
                                 opt_all (map (eval s2) ixo) = Some (snd L)).
    { destruct HT as [HT|HT].
      - apply in_reads in HT. destruct (Oq _ HT) as [ixo [s2 H2]]. exists false, ixo, s2. exact H2.
      - apply in_writes in HT. destruct (Oq _ HT) as [ixo [s2 H2]]. exists true, ixo, s2. exact H2. }
    destruct HO as [b [ixo [s2 [Ao [R2 Vo]]]]].
    set (v := fst L) in *.
    (* every iteration trace is the trace of an execution of the body *)
    assert (Runs : forall t0, In t0 (map snd its) -> exists sk sk2, exec f body sk = Ok sk2 t0 CNormal).
    { intros t0 Ht0. apply in_map_iff in Ht0 as [[sk t1] [E Hin]]. cbn [snd] in E. subst t1.
      apply In_nth_error in Hin as [idx Hidx]. destruct (IP idx sk t0 Hidx) as [_ [_ [sk2 Ek]]]. exists sk, sk2. exact Ek. }
    destruct (wacc_cases_list body v ixw Hs Aw) as [[Hasgv Hscal]|[Eix Hdo]].
    2:{ (* a DO variable of the body: exempt *)
        apply NE. subst ixw. cbn [map opt_all] in Vw. inversion Vw as [Vw']. split; [symmetry; exact Vw'|]. left. exact Hdo. }
    assert (Hlv : ~ In v lvs).
    { specialize (Hasg v Hasgv). apply negb_true_iff, memn_false in Hasg. exact Hasg. }
    destruct ixw as [|e0 ixw'].
    - (* scalar: written before read in every iteration *)
      apply NE. cbn [map opt_all] in Vw. inversion Vw as [Vw']. split; [symmetry; exact Vw'|].
      specialize (Hsc v (Hscal eq_refl)). apply orb_true_iff in Hsc as [Hsc|Hsc]; [left; apply memn_In, Hsc|].
      right. intros t0 Ht0. destruct (Runs t0 Ht0) as [sk [sk2 Ek]].
      replace L with (v, @nil Z) by (destruct L as [L1 L2]; cbn [fst snd] in *; subst v; rewrite Vw'; reflexivity).
      eapply scalar_uncond_sound; eassumption.
    - (* array element: the model's pair test *)
      set (ixw := e0 :: ixw') in *.
      set (accs := sacc (SDo x lo hi st body)).
      assert (Sub : incl (flat_map sacc body) accs).
      { intros a Ha. unfold accs. cbn [sacc]. right. right. apply in_or_app; right. apply in_or_app; right. apply in_or_app; right. exact Ha. }
      unfold can_par in Hpar. fold accs in Hpar. fold lvs in Hpar.
      assert (Hv : In v (sort_names (map a_name accs))).
      { apply sort_names_In. apply in_map_iff. exists (mkAcc true v ixw). split; [reflexivity | apply Sub, Aw]. }
      pose proof (vars_loop_par_inv lvs accs _ Hpar v Hv Hlv) as VP. unfold Model.var_par in VP.
      set (av := filter (fun a => Nat.eqb (a_name a) v) accs) in *.
      assert (Aw' : In (mkAcc true v ixw) av) by (apply filter_In; split; [apply Sub, Aw | cbn [a_name]; apply Nat.eqb_refl]).
      assert (Ao' : In (mkAcc b v ixo) av) by (apply filter_In; split; [apply Sub, Ao | cbn [a_name]; apply Nat.eqb_refl]).
      assert (IA : is_array av = true).
      { unfold is_array. apply existsb_exists. exists (mkAcc true v ixw). split; [exact Aw' | reflexivity]. }
      rewrite IA in VP. unfold array_par in VP.
      assert (RO : read_only av = false).
      { apply not_true_is_false. intro RO. unfold read_only in RO. rewrite forallb_forall in RO. specialize (RO _ Aw'). discriminate RO. }
      rewrite RO in VP.
      pose proof (writes_loop_par_inv lvs v av av 0%nat VP _ Aw' eq_refl _ Ao') as IP2. cbn [a_ix] in IP2.
      assert (HvW : In v W) by (apply sasg_swn_list, Hasgv).
      assert (Fw : Forall (fun e => sub_ok x lvs W e = true) ixw).
      { specialize (Hsub _ Aw). cbn [a_name a_ix] in Hsub. apply orb_true_iff in Hsub as [Hsub|Hsub].
        - apply negb_true_iff, memn_false in Hsub. contradiction.
        - apply Forall_forall. rewrite forallb_forall in Hsub. exact Hsub. }
      assert (Fo : Forall (fun e => sub_ok x lvs W e = true) ixo).
      { specialize (Hsub _ Ao). cbn [a_name a_ix] in Hsub. apply orb_true_iff in Hsub as [Hsub|Hsub].
        - apply negb_true_iff, memn_false in Hsub. contradiction.
        - apply Forall_forall. rewrite forallb_forall in Hsub. exact Hsub. }
      assert (R1' : rel (x :: W) s s1).
      { eapply rel_trans; [exact Rp|]. eapply rel_weaken; [|exact R1]. intros y Hy; right; exact Hy. }
      assert (R2' : rel (x :: W) s s2).
      { eapply rel_trans; [exact Rq|]. eapply rel_weaken; [|exact R2]. intros y Hy; right; exact Hy. }
      pose proof (indep_sound odist oneq incr dtab sympy_solveset_exact sympy_simplify_exact lvs x W s ixw ixo
                    eq_refl (or_introl eq_refl) IP2 Fw Fo s1 s2 (snd L) R1' R2' Vw Vo) as EQ.
      assert (A1 : val s1 (x, []) = val sp (x, [])) by (apply R1; exact Hx).
      assert (A2 : val s2 (x, []) = val sq (x, [])) by (apply R2; exact Hx).
      assert (EQ2 : l + (0 + Z.of_nat p) * t = l + (0 + Z.of_nat q) * t)
        by exact (eq_trans (eq_sym Xp) (eq_trans (eq_sym A1) (eq_trans EQ (eq_trans A2 Xq)))).
      apply Npq. apply Nat2Z.inj. nia.
  Qed.
End Sound.
