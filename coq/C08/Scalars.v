(* C08 — soundness of the definite-assignment analysis Safe.da_l: if it answers Some true for scalar v from
   "not yet written", every normal execution of the statements writes v and never reads it before. *)
From Coq Require Import List ZArith Bool Lia PeanoNat.
Import ListNotations.
From PV Require Import Fort.Syntax Fort.Sem C08.Model C08.Safe C08.SemFacts C08.Origin.
Open Scope Z_scope.

Lemma da_l_cons v st rest d :
  da_l v (st :: rest) d = match da_s v st d with Some d1 => da_l v rest d1 | None => None end.
Proof. reflexivity. Qed.

Lemma da_s_if v c th el d :
  da_s v (SIf c th el) d =
  if negb d && ereads_v v c then None
  else match da_l v th d, da_l v el d with Some a, Some b => Some (a && b) | _, _ => None end.
Proof. reflexivity. Qed.

Lemma da_s_do v j lo hi st b d :
  da_s v (SDo j lo hi st b) d =
  if negb d && (ereads_v v lo || ereads_v v hi || ereads_v v st) then None
  else match da_l v b (d || Nat.eqb j v) with Some _ => Some (d || Nat.eqb j v) | None => None end.
Proof. reflexivity. Qed.

Lemma opt_all_nil_inv {A} (l : list (option A)) : opt_all l = Some [] -> l = [].
Proof.
  destruct l as [|a l]; [reflexivity|]. cbn [opt_all]. destruct a; [|discriminate]. destruct (opt_all l); discriminate.
Qed.

Lemma ereads_v_false v s e : ereads_v v e = false -> ~ In (v, []) (ereads s e).
Proof.
  intros H HL. destruct (ereads_origin s e (v, []) HL) as [ix [H1 H2]]. cbn [fst snd] in *.
  apply opt_all_nil_inv in H2. apply map_eq_nil in H2. subst ix.
  assert (ereads_v v e = true); [|congruence]. unfold ereads_v. apply existsb_exists.
  exists (mkAcc false v []). split; [exact H1|]. cbn [a_name a_ix]. rewrite Nat.eqb_refl. reflexivity.
Qed.

Lemma ereads_v_false_list v s es : existsb (ereads_v v) es = false -> ~ In (v, []) (flat_map (ereads s) es).
Proof.
  intros H HL. apply in_flat_map in HL as [e [He HL]].
  assert (ereads_v v e = false).
  { destruct (ereads_v v e) eqn:E; [|reflexivity]. exfalso.
    assert (existsb (ereads_v v) es = true) by (apply existsb_exists; exists e; split; assumption). congruence. }
  eapply ereads_v_false; eassumption.
Qed.

(* P d tr d': starting with "v certainly written = d", the trace tr does not expose v (when d = false) and
   leaves it certainly written when d' = true *)
Definition P (v : name) (d : bool) (tr : list event) (d' : bool) : Prop :=
  (d = false -> ~ In (v, []) (exposed tr)) /\ (d' = true -> d = true \/ In (v, []) (writes tr)).

Lemma P_app v d t1 d1 t2 d2 : P v d t1 d1 -> P v d1 t2 d2 -> P v d (t1 ++ t2) d2.
Proof.
  intros [A1 B1] [A2 B2]. split.
  - intros Hd HE. apply in_exposed_app in HE as [HE|[HW HE]]; [apply (A1 Hd HE)|].
    destruct d1.
    + destruct (B1 eq_refl) as [X|X]; [congruence | contradiction].
    + apply (A2 eq_refl HE).
  - intro H2. rewrite writes_app. destruct (B2 H2) as [X|X].
    + destruct (B1 X) as [Y|Y]; [left; exact Y | right; apply in_or_app; left; exact Y].
    + right. apply in_or_app; right; exact X.
Qed.

Lemma P_rds v d ls : ~ In (v, []) ls -> P v d (rds ls) d.
Proof.
  intro N. split.
  - intros _. rewrite exposed_rds. exact N.
  - intro H. left. exact H.
Qed.

Lemma P_rds_guard v d ls : (d = false -> ~ In (v, []) ls) -> P v d (rds ls) d.
Proof.
  intro N. split.
  - intros Hd. rewrite exposed_rds. apply N, Hd.
  - intro H. left. exact H.
Qed.

(* the loop trace never exposes v when the body traces do not (d1 = d || j = v) *)
Lemma do_loop_da v (run : store -> outcome) j l t d1 :
  (forall s s' tr c, run s = Ok s' tr c -> c = CNormal /\ (d1 = false -> ~ In (v, []) (exposed tr))) ->
  forall n k s s' tr c, do_loop run j l t n k s = Ok s' tr c ->
    c = CNormal /\ (exists tr0, tr = Wr (j, []) :: tr0) /\ (d1 = false -> ~ In (v, []) (exposed tr)).
Proof.
  intros Hrun. induction n as [|n IH]; intros k s s' tr c H; cbn [do_loop] in H.
  - inversion H; subst. split; [reflexivity|]. split; [exists []; reflexivity|].
    intros _ HE. unfold exposed in HE. cbn [exposed_from] in HE. exact HE.
  - destruct (run (upd s (j, []) (l + k * t))) as [s2 tr2 c2| |] eqn:E; try discriminate.
    destruct (Hrun _ _ _ _ E) as [-> Q2]. apply prepend_ok_inv in H as [tr0 [H ->]].
    destruct (IH _ _ _ _ _ H) as [-> [_ Q0]]. split; [reflexivity|]. split; [exists (tr2 ++ tr0); reflexivity|].
    intros Hd HE. cbn [app] in HE. apply in_exposed_cons_wr in HE as [_ HE].
    apply in_exposed_app in HE as [HE|[_ HE]]; [apply (Q2 Hd HE) | apply (Q0 Hd HE)].
Qed.

Theorem da_exec v : forall f ss s s' tr c d d',
  exec f ss s = Ok s' tr c -> da_l v ss d = Some d' -> c = CNormal /\ P v d tr d'.
Proof.
  induction f as [|f IH]; intros ss s s' tr c d d' H D; [discriminate|].
  destruct ss as [|st rest].
  - inversion H; subst. cbn [da_l] in D. inversion D; subst. split; [reflexivity|]. split.
    + intros _ HE. exact HE.
    + intro X. left; exact X.
  - rewrite exec_cons in H. rewrite da_l_cons in D. destruct (da_s v st d) as [d1|] eqn:D1; [|discriminate].
    assert (G : forall s1 tr1 c1, exec_stmt (exec f) st s = Ok s1 tr1 c1 -> c1 = CNormal /\ P v d tr1 d1).
    { intros s1 tr1 c1 H1.
      destruct st as [x ix e|cnd th el|j lo hi stp b| | | |es|r b|dd b]; try discriminate D1; cbn [exec_stmt] in H1.
      - (* assignment *)
        cbn [da_s] in D1.
        destruct (opt_all (map (eval s) ix)) as [vs|] eqn:E1; [|discriminate].
        destruct (eval s e) as [z|] eqn:E2; [|discriminate]. inversion H1; subst. split; [reflexivity|].
        destruct (negb d && (ereads_v v e || existsb (ereads_v v) ix)) eqn:G1; [discriminate|]. inversion D1; subst. clear D1.
        split.
        + intros Hd HE. subst d. cbn [negb andb] in G1. apply orb_false_iff in G1 as [G1 G2].
          apply in_exposed_app in HE as [HE|[_ HE]].
          * rewrite exposed_rds in HE. apply in_app_or in HE as [HE|HE];
              [apply (ereads_v_false v s e G1 HE) | apply (ereads_v_false_list v s ix G2 HE)].
          * unfold exposed in HE. cbn [exposed_from] in HE. exact HE.
        + intro X. apply orb_true_iff in X as [X|X]; [left; exact X|]. right.
          apply andb_true_iff in X as [X1 X2]. apply Nat.eqb_eq in X1. subst x.
          destruct ix; [|discriminate]. cbn [map opt_all] in E1. inversion E1; subst.
          rewrite writes_app. apply in_or_app; right. left; reflexivity.
      - (* if *)
        rewrite da_s_if in D1. destruct (negb d && ereads_v v cnd) eqn:G1; [discriminate|].
        destruct (da_l v th d) as [a|] eqn:Da; [|discriminate]. destruct (da_l v el d) as [b|] eqn:Db; [|discriminate].
        inversion D1; subst. clear D1.
        destruct (eval s cnd) as [z|] eqn:E; [|discriminate]. apply prepend_ok_inv in H1 as [tr0 [H1 ->]].
        assert (R : P v d (rds (ereads s cnd)) d).
        { apply P_rds_guard. intros ->. cbn [negb andb] in G1. apply ereads_v_false. exact G1. }
        destruct (z =? 0).
        + destruct (IH _ _ _ _ _ _ _ H1 Db) as [-> Pb]. split; [reflexivity|].
          pose proof (P_app v d _ d _ b R Pb) as [A B]. split; [exact A|]. intro X. apply andb_true_iff in X as [_ X]. apply B, X.
        + destruct (IH _ _ _ _ _ _ _ H1 Da) as [-> Pa]. split; [reflexivity|].
          pose proof (P_app v d _ d _ a R Pa) as [A B]. split; [exact A|]. intro X. apply andb_true_iff in X as [X _]. apply B, X.
      - (* do *)
        rewrite da_s_do in D1. destruct (negb d && (ereads_v v lo || ereads_v v hi || ereads_v v stp)) eqn:G1; [discriminate|].
        destruct (da_l v b (d || Nat.eqb j v)) as [db|] eqn:Db; [|discriminate]. inversion D1; subst. clear D1.
        destruct (eval s lo) as [l|] eqn:E1; [|discriminate]. destruct (eval s hi) as [h|] eqn:E2; [|discriminate].
        destruct (eval s stp) as [t|] eqn:E3; [|discriminate]. destruct (t =? 0); [discriminate|].
        apply prepend_ok_inv in H1 as [tr0 [H1 ->]].
        assert (Hrun : forall s0 s0' tr' c', exec f b s0 = Ok s0' tr' c' ->
                  c' = CNormal /\ ((d || Nat.eqb j v) = false -> ~ In (v, []) (exposed tr'))).
        { intros s0 s0' tr' c' H0. destruct (IH _ _ _ _ _ _ _ H0 Db) as [-> [A _]]. split; [reflexivity | exact A]. }
        destruct (do_loop_da v (exec f b) j l t (d || Nat.eqb j v) Hrun _ _ _ _ _ _ H1) as [-> [[tr1' ->] Q]].
        split; [reflexivity|].
        assert (R : P v d (rds (ereads s lo ++ ereads s hi ++ ereads s stp)) d).
        { apply P_rds_guard. intros ->. cbn [negb andb] in G1. apply orb_false_iff in G1 as [G1 G3].
          apply orb_false_iff in G1 as [G1 G2]. intro HL. apply in_app_or in HL as [HL|HL]; [|apply in_app_or in HL as [HL|HL]].
          - apply (ereads_v_false v s lo G1 HL).
          - apply (ereads_v_false v s hi G2 HL).
          - apply (ereads_v_false v s stp G3 HL). }
        apply (P_app v d _ d); [exact R|]. split.
        + intros Hd HE. subst d. cbn [orb] in *. destruct (Nat.eqb j v) eqn:J.
          * apply Nat.eqb_eq in J. subst j. apply in_exposed_cons_wr in HE as [N _]. apply N; reflexivity.
          * apply (Q eq_refl HE).
        + intro X. apply orb_true_iff in X as [X|X]; [left; exact X|]. right. apply Nat.eqb_eq in X. subst j.
          cbn [writes]. left; reflexivity. }
    apply then_run_ok_inv in H as [[s1 [tr1 [tr2 [H1 [H2 ->]]]]]|[N H1]].
    + destruct (G _ _ _ H1) as [_ P1]. destruct (IH _ _ _ _ _ _ _ H2 D) as [-> P2].
      split; [reflexivity|]. eapply P_app; eassumption.
    + destruct (G _ _ _ H1) as [E _]. contradiction.
Qed.

(* the form used by the main theorem *)
Corollary scalar_uncond_sound body v f s s' tr c :
  scalar_uncond body v = true -> exec f body s = Ok s' tr c ->
  In (v, []) (writes tr) /\ ~ In (v, []) (exposed tr).
Proof.
  unfold scalar_uncond. intros H E. destruct (da_l v body false) as [[|]|] eqn:D; try discriminate.
  destruct (da_exec v _ _ _ _ _ _ _ _ E D) as [_ [A B]]. split.
  - destruct (B eq_refl) as [X|X]; [discriminate | exact X].
  - apply A. reflexivity.
Qed.
