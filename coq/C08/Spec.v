(* C08 — vocabulary of the property theorems: the iterations of a DO loop in Fort.Sem, their traces, and
   the Bernstein conflict between two distinct iterations.  Definitions only. *)
From Coq Require Import List ZArith Bool.
Import ListNotations.
From PV Require Import Fort.Syntax Fort.Sem C08.Model.
Open Scope Z_scope.

(* the iterations of Sem.do_loop when every body execution ends normally: for each iteration the store
   in which the body starts (DO variable already set) and the trace of the body; and the store after the
   last iteration (before the final definition of the DO variable) *)
Fixpoint iters (run : store -> outcome) (x : name) (l t : Z) (n : nat) (k : Z) (s : store)
  : option (list (store * list event) * store) :=
  match n with
  | O => Some ([], s)
  | S n' =>
      let s1 := upd s (x, []) (l + k * t) in
      match run s1 with
      | Ok s2 tr CNormal =>
          match iters run x l t n' (k + 1) s2 with
          | Some (its, fin) => Some ((s1, tr) :: its, fin)
          | None => None
          end
      | _ => None
      end
  end.

(* [its] are the iterations of `do x = lo, hi, st ; body` started in store s (body run with fuel f) *)
Definition iterations_of (f : nat) (x : name) (lo hi st : expr) (body : list stmt) (s : store)
           (its : list (store * list event)) : Prop :=
  exists l h t fin,
    eval s lo = Some l /\ eval s hi = Some h /\ eval s st = Some t /\ t <> 0 /\
    iters (exec f body) x l t (trip_count l h t) 0 s = Some (its, fin).

(* the trace Sem.exec gives to the whole loop, in terms of the per-iteration traces *)
Definition loop_trace (x : name) (hdr : list loc) (trs : list (list event)) : list event :=
  rds hdr ++ concat (map (fun t => Wr (x, []) :: t) trs) ++ [Wr (x, [])].

(* the exception of the property: scalars that every iteration unconditionally writes before reading;
   DO variables of loops nested in the body are private by rule (the analysis ignores them by design) *)
Definition exempt (body : list stmt) (trs : list (list event)) (L : loc) : Prop :=
  snd L = [] /\
  (In (fst L) (flat_map sdovars body) \/ forall t, In t trs -> In L (writes t) /\ ~ In L (exposed t)).

(* two distinct iterations touch the same location, at least one of them writing it *)
Definition conflict (body : list stmt) (trs : list (list event)) : Prop :=
  exists p q tp tq L,
    p <> q /\ nth_error trs p = Some tp /\ nth_error trs q = Some tq /\
    In L (writes tp) /\ (In L (reads tq) \/ In L (writes tq)) /\ ~ exempt body trs L.
