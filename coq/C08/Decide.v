(* C08 — what an "independent" answer of _is_loop_carried_dependency means semantically on the safe
   fragment: if the model's pair test answers true for subscript lists w (a write) and o (any access), then
   the two lists can evaluate to the same index vector only in stores that give the parallel loop variable x
   the same value.  Non-affine subscripts are answered by the oracle; its exactness is a Section hypothesis. *)
From Coq Require Import List ZArith Bool Lia PeanoNat.
Import ListNotations.
From PV Require Import Fort.Syntax Fort.Sem C08.Model C08.Safe C08.SemFacts C08.Origin C08.LinFacts.
Open Scope Z_scope.

Lemma memn_In x l : memn x l = true <-> In x l.
Proof.
  unfold memn. rewrite existsb_exists. split.
  - intros [y [Hy E]]. apply Nat.eqb_eq in E. subst. exact Hy.
  - intro H. exists x. split; [exact H | apply Nat.eqb_refl].
Qed.

Lemma memn_false x l : memn x l = false <-> ~ In x l.
Proof. rewrite <- memn_In. destruct (memn x l); split; congruence. Qed.

Lemma dedup_In v l : In v (dedup l) <-> In v l.
Proof.
  induction l as [|a l IH]; [reflexivity|]. cbn [dedup]. destruct (memn a l) eqn:E.
  - rewrite IH. cbn [In]. split; [auto|]. intros [<-|H]; [apply memn_In, E | exact H].
  - cbn [In]. rewrite IH. reflexivity.
Qed.

Section Decide.
  Variable odist : name -> expr -> expr -> bool.
  Variable oneq : expr -> expr -> bool.
  Variable incr : bool.
  Variable dtab : list (nat * name).

  (* the oracle answers are exact on translation-exact subscripts (premises of the closed theorems) *)
  Hypothesis sympy_solveset_exact : forall x w o,
    odist x w o = true -> tr_exact x w = true -> tr_exact x o = true ->
    forall s1 s2 v,
      (forall n ix, n <> x -> In n (enames w ++ enames o) -> val s1 (n, ix) = val s2 (n, ix)) ->
      eval s1 w = Some v -> eval s2 o = Some v -> val s1 (x, []) = val s2 (x, []).
  Hypothesis sympy_simplify_exact : forall x w o,
    oneq w o = true -> tr_exact x w = true -> tr_exact x o = true ->
    forall s1 s2 v1 v2,
      (forall n ix, In n (enames w ++ enames o) -> val s1 (n, ix) = val s2 (n, ix)) ->
      eval s1 w = Some v1 -> eval s2 o = Some v2 -> v1 <> v2.

  Notation dist0 := (dist0 odist incr dtab).
  Notation neq := (neq oneq).
  Notation multi := (multi odist incr dtab).
  Notation scan := (scan odist oneq incr dtab).
  Notation indep_pair := (indep_pair odist oneq incr dtab).

  Lemma dist0_sem x w o :
    dist0 x w o = Some true -> tr_exact x w = true -> tr_exact x o = true ->
    (In x (enames w) /\ In x (enames o)) /\
    forall s1 s2 v,
      (forall n ix, n <> x -> In n (enames w ++ enames o) -> val s1 (n, ix) = val s2 (n, ix)) ->
      eval s1 w = Some v -> eval s2 o = Some v -> val s1 (x, []) = val s2 (x, []).
  Proof.
    unfold Model.dist0. intros H Tw To. destruct (negb _); [discriminate|].
    destruct (fresh _ _ _ _ _) as [fr|]; [|discriminate]. inversion H as [H1]. clear H.
    destruct (lin_of w) as [a|] eqn:Lw; [destruct (lin_of o) as [b|] eqn:Lo|].
    - split; [eapply lin_dist0_names; eassumption|]. intros s1 s2 v A E1 E2.
      eapply (lin_dist0_sem x w o a b); try eassumption. intros n Nn Hn. apply A; assumption.
    - apply andb_true_iff in H1 as [H1 O]. apply andb_true_iff in H1 as [M1 M2]. apply memn_In in M1, M2.
      split; [split; assumption|]. intros s1 s2 v A E1 E2. eapply sympy_solveset_exact; eassumption.
    - apply andb_true_iff in H1 as [H1 O]. apply andb_true_iff in H1 as [M1 M2]. apply memn_In in M1, M2.
      split; [split; assumption|]. intros s1 s2 v A E1 E2. eapply sympy_solveset_exact; eassumption.
  Qed.

  Lemma neq_sem x w o :
    neq w o = true -> tr_exact x w = true -> tr_exact x o = true ->
    forall s1 s2 v1 v2,
      (forall n ix, In n (enames w ++ enames o) -> val s1 (n, ix) = val s2 (n, ix)) ->
      eval s1 w = Some v1 -> eval s2 o = Some v2 -> v1 <> v2.
  Proof.
    unfold Model.neq. intros H Tw To s1 s2 v1 v2 A E1 E2.
    destruct (lin_of w) as [a|] eqn:Lw; [destruct (lin_of o) as [b|] eqn:Lo|].
    - eapply (lin_neq_sem x w o a b); try eassumption. intros n Hn. apply A, Hn.
    - eapply sympy_simplify_exact; eassumption.
    - eapply sympy_simplify_exact; eassumption.
  Qed.

  (* ---- the partition: every group knows the loop variables of its subscripts *)
  Definition part_ok (lvs : list name) (w o : list expr) (p : part) : Prop :=
    forall k, In k (snd p) ->
      (k < length w)%nat /\ (k < length o)%nat /\
      forall v, In v lvs -> In v (enames (sub k w)) \/ In v (enames (sub k o)) -> In v (fst p).

  Lemma lvset_In lvs e v : In v (lvset lvs e) <-> In v lvs /\ In v (enames e).
  Proof. unfold lvset. rewrite filter_In, dedup_In, memn_In. reflexivity. Qed.

  Lemma sub_middle (pw : list expr) e r : sub (length pw) (pw ++ e :: r) = e.
  Proof. unfold sub. apply nth_middle. Qed.

  Lemma init_parts_ok lvs : forall w' o' pw po,
    length pw = length po ->
    Forall (part_ok lvs (pw ++ w') (po ++ o')) (init_parts lvs (length pw) w' o').
  Proof.
    induction w' as [|we w' IH]; intros o' pw po L; cbn [init_parts]; [constructor|].
    destruct o' as [|oe o']; [constructor|]. constructor.
    - intros k [<-|[]]. cbn [fst]. rewrite !app_length. cbn [length]. split; [lia|]. split; [lia|].
      intros v Hv Hn. apply dedup_In, in_or_app. rewrite sub_middle in Hn. rewrite L, sub_middle in Hn.
      destruct Hn as [Hn|Hn]; [left | right]; apply lvset_In; split; assumption.
    - specialize (IH o' (pw ++ [we]) (po ++ [oe])). rewrite !app_length in IH. cbn [length] in IH.
      rewrite <- !app_assoc in IH. cbn [app] in IH. replace (length pw + 1)%nat with (S (length pw)) in IH by lia.
      apply IH. lia.
  Qed.

  Lemma part_ok_union lvs w o p q :
    part_ok lvs w o p -> part_ok lvs w o q -> part_ok lvs w o (dedup (fst p ++ fst q), snd p ++ snd q).
  Proof.
    intros Hp Hq k Hk. cbn [fst snd] in *. apply in_app_or in Hk as [Hk|Hk].
    - destruct (Hp k Hk) as [A [B C]]. split; [exact A|]. split; [exact B|]. intros v Hv Hn.
      apply dedup_In, in_or_app. left. apply C; assumption.
    - destruct (Hq k Hk) as [A [B C]]. split; [exact A|]. split; [exact B|]. intros v Hv Hn.
      apply dedup_In, in_or_app. right. apply C; assumption.
  Qed.

  Lemma absorb_ok lvs w o v : forall rest p0,
    part_ok lvs w o p0 -> Forall (part_ok lvs w o) rest ->
    part_ok lvs w o (fst (absorb v p0 rest)) /\ Forall (part_ok lvs w o) (snd (absorb v p0 rest)).
  Proof.
    induction rest as [|p r IH]; intros p0 H0 Hr; cbn [absorb].
    - split; [exact H0 | constructor].
    - inversion Hr as [|? ? Hp Hr']; subst. destruct (memn v (fst p)).
      + apply IH; [apply part_ok_union; assumption | exact Hr'].
      + destruct (IH p0 H0 Hr') as [A B]. destruct (absorb v p0 r) as [p0' r']. cbn [fst snd] in *.
        split; [exact A | constructor; assumption].
  Qed.

  Lemma merge_var_ok lvs w o v : forall ps, Forall (part_ok lvs w o) ps -> Forall (part_ok lvs w o) (merge_var v ps).
  Proof.
    induction ps as [|p r IH]; intro H; cbn [merge_var]; [constructor|].
    inversion H as [|? ? Hp Hr]; subst. destruct (memn v (fst p)).
    - destruct (absorb_ok lvs w o v r p Hp Hr) as [A B]. destruct (absorb v p r) as [p' r']. constructor; assumption.
    - constructor; [exact Hp | apply IH, Hr].
  Qed.

  Lemma partition_ok lvs w o : Forall (part_ok lvs w o) (partition lvs w o).
  Proof.
    unfold partition.
    assert (G : forall vs ps, Forall (part_ok lvs w o) ps ->
                              Forall (part_ok lvs w o) (fold_left (fun ps v => merge_var v ps) vs ps)).
    { induction vs as [|v vs IH]; intros ps H; cbn [fold_left]; [exact H|]. apply IH, merge_var_ok, H. }
    apply G. apply (init_parts_ok lvs w o [] []). reflexivity.
  Qed.

  (* ---- inversion of the scan loop *)
  Lemma multi_true_inv x w o subs :
    multi x w o subs = Some true -> exists k, In k subs /\ dist0 x (sub k w) (sub k o) = Some true.
  Proof.
    induction subs as [|k r IH]; cbn [Model.multi]; [discriminate|].
    destruct (dist0 x (sub k w) (sub k o)) as [[|]|] eqn:E; try discriminate.
    - intros _. exists k. split; [left; reflexivity | exact E].
    - intro H. destruct (IH H) as [k' [H1 H2]]. exists k'. split; [right; exact H1 | exact H2].
  Qed.

  Lemma scan_true_inv x w o ps :
    scan x w o ps = Some true ->
    exists vars subs, In (vars, subs) ps /\
      ((exists k, subs = [k] /\ vars = [] /\ neq (sub k w) (sub k o) = true) \/
       (exists k, In k subs /\ dist0 x (sub k w) (sub k o) = Some true)).
  Proof.
    induction ps as [|[vars subs] r IH]; cbn [Model.scan]; [discriminate|]. intro H.
    assert (Next : scan x w o r = Some true -> exists vars0 subs0, In (vars0, subs0) ((vars, subs) :: r) /\
      ((exists k, subs0 = [k] /\ vars0 = [] /\ neq (sub k w) (sub k o) = true) \/
       (exists k, In k subs0 /\ dist0 x (sub k w) (sub k o) = Some true))).
    { intro H'. destruct (IH H') as [v0 [s0 [A B]]]. exists v0, s0. split; [right; exact A | exact B]. }
    assert (Multi : forall subs', subs' = subs ->
               match multi x w o subs' with Some true => Some true | Some false => scan x w o r | None => None end = Some true ->
               exists vars0 subs0, In (vars0, subs0) ((vars, subs) :: r) /\
      ((exists k, subs0 = [k] /\ vars0 = [] /\ neq (sub k w) (sub k o) = true) \/
       (exists k, In k subs0 /\ dist0 x (sub k w) (sub k o) = Some true))).
    { intros subs' -> H'. destruct (multi x w o subs) as [[|]|] eqn:E; try discriminate.
      - destruct (multi_true_inv _ _ _ _ E) as [k [K1 K2]]. exists vars, subs. split; [left; reflexivity|]. right. exists k. split; assumption.
      - apply Next, H'. }
    destruct subs as [|k [|k2 r2]].
    - apply (Multi [] eq_refl H).
    - destruct vars as [|v1 [|v2 vr]].
      + destruct (neq (sub k w) (sub k o)) eqn:E.
        * exists [], [k]. split; [left; reflexivity|]. left. exists k. repeat split. exact E.
        * apply Next, H.
      + destruct (dist0 x (sub k w) (sub k o)) as [[|]|] eqn:E; try discriminate.
        * exists [v1], [k]. split; [left; reflexivity|]. right. exists k. split; [left; reflexivity | exact E].
        * apply Next, H.
      + discriminate.
    - apply (Multi (k :: k2 :: r2) eq_refl H).
  Qed.

  (* ---- subscripts of the safe fragment *)
  Lemma sub_ok_sub x lvs W ix k : Forall (fun e => sub_ok x lvs W e = true) ix -> sub_ok x lvs W (sub k ix) = true.
  Proof.
    intro H. unfold sub. destruct (nth_in_or_default k ix (ELit 0)) as [I | ->].
    - rewrite Forall_forall in H. apply H, I.
    - reflexivity.
  Qed.

  Lemma sub_nth (ix : list expr) k : (k < length ix)%nat -> nth_error ix k = Some (sub k ix).
  Proof. intro H. unfold sub. apply nth_error_nth'. exact H. Qed.

  Lemma eval_sub s ix vs k : opt_all (map (eval s) ix) = Some vs -> (k < length ix)%nat ->
    exists v, eval s (sub k ix) = Some v /\ nth_error vs k = Some v.
  Proof.
    intros H Hk. destruct (opt_all_nth _ _ H k (eval s (sub k ix))) as [v [E N]].
    - rewrite nth_error_map, (sub_nth ix k Hk). reflexivity.
    - exists v. split; assumption.
  Qed.

  (* stores related to s0 outside x :: W agree on every name that is neither x nor written *)
  Lemma rel_agree x W s0 s1 s2 n ix :
    rel (x :: W) s0 s1 -> rel (x :: W) s0 s2 -> n <> x -> ~ In n W -> val s1 (n, ix) = val s2 (n, ix).
  Proof.
    intros R1 R2 N NW. rewrite (R1 (n, ix)), (R2 (n, ix)); [reflexivity| |]; cbn [fst]; intros [E|E]; auto.
  Qed.

  Theorem indep_sound lvs x W s0 w o :
    hd 0%nat lvs = x -> In x lvs ->
    indep_pair lvs w o = Some true ->
    Forall (fun e => sub_ok x lvs W e = true) w -> Forall (fun e => sub_ok x lvs W e = true) o ->
    forall s1 s2 vs, rel (x :: W) s0 s1 -> rel (x :: W) s0 s2 ->
      opt_all (map (eval s1) w) = Some vs -> opt_all (map (eval s2) o) = Some vs ->
      val s1 (x, []) = val s2 (x, []).
  Proof.
    intros Hhd Hx H Fw Fo s1 s2 vs R1 R2 E1 E2. unfold Model.indep_pair in H. rewrite Hhd in H.
    destruct (scan_true_inv _ _ _ _ H) as [vars [subs [Hin D]]].
    pose proof (partition_ok lvs w o) as PO. rewrite Forall_forall in PO. specialize (PO _ Hin).
    pose proof (fun k => sub_ok_sub x lvs W w k Fw) as Sw. pose proof (fun k => sub_ok_sub x lvs W o k Fo) as So.
    destruct D as [[k [-> [-> N]]]|[k [Hk D]]].
    - (* a subscript without loop variables whose two sides are never equal *)
      exfalso. destruct (PO k (or_introl eq_refl)) as [Lw [Lo C]]. cbn [fst] in C.
      destruct (eval_sub s1 w vs k E1 Lw) as [v1 [V1 N1]]. destruct (eval_sub s2 o vs k E2 Lo) as [v2 [V2 N2]].
      assert (v1 = v2) by congruence. subst v2.
      specialize (Sw k). specialize (So k). unfold sub_ok in Sw, So.
      apply andb_true_iff in Sw as [Tw Sw]. apply andb_true_iff in So as [To So].
      assert (NoLv : forall e, (e = sub k w \/ e = sub k o) -> forall v, In v lvs -> ~ In v (enames e)).
      { intros e He v Hv Hn. apply (C v Hv). destruct He as [E|E]; subst e; [left | right]; exact Hn. }
      assert (Inv : forall e, (e = sub k w \/ e = sub k o) ->
                 (if memn x (enames e) then forallb (fun v => Nat.eqb v x || negb (memn v W)) (enames e)
                  else if existsb (fun v => memn v lvs) (enames e) then true
                       else forallb (fun v => negb (memn v W)) (enames e)) = true ->
                 forall n, In n (enames e) -> n <> x /\ ~ In n W).
      { intros e He S n Hn.
        assert (M : memn x (enames e) = false) by (apply memn_false; apply (NoLv e He x Hx)). rewrite M in S.
        assert (X : existsb (fun v => memn v lvs) (enames e) = false).
        { apply not_true_is_false. intro X. apply existsb_exists in X as [v [V1' V2']]. apply memn_In in V2'. apply (NoLv e He v V2' V1'). }
        rewrite X in S. rewrite forallb_forall in S. specialize (S n Hn). apply negb_true_iff, memn_false in S.
        split; [|exact S]. intros ->. apply (NoLv e He x Hx Hn). }
      apply (neq_sem x (sub k w) (sub k o) N Tw To s1 s2 v1 v1); [|exact V1|exact V2|reflexivity].
      intros n ix Hn. apply in_app_or in Hn as [Hn|Hn].
      + destruct (Inv (sub k w) (or_introl eq_refl) Sw n Hn) as [A B]. eapply rel_agree; eassumption.
      + destruct (Inv (sub k o) (or_intror eq_refl) So n Hn) as [A B]. eapply rel_agree; eassumption.
    - (* a subscript in x with dependence distance 0 *)
      destruct (PO k Hk) as [Lw [Lo _]].
      destruct (eval_sub s1 w vs k E1 Lw) as [v1 [V1 N1]]. destruct (eval_sub s2 o vs k E2 Lo) as [v2 [V2 N2]].
      assert (v1 = v2) by congruence. subst v2.
      specialize (Sw k). specialize (So k). unfold sub_ok in Sw, So.
      apply andb_true_iff in Sw as [Tw Sw]. apply andb_true_iff in So as [To So].
      destruct (dist0_sem x (sub k w) (sub k o) D Tw To) as [[Xw Xo] Sem].
      apply memn_In in Xw, Xo. rewrite Xw in Sw. rewrite Xo in So. rewrite forallb_forall in Sw, So.
      apply (Sem s1 s2 v1); [|exact V1|exact V2].
      intros n ix Nn Hn. apply in_app_or in Hn as [Hn|Hn].
      + specialize (Sw n Hn). apply orb_true_iff in Sw as [Sw|Sw]; [apply Nat.eqb_eq in Sw; contradiction|].
        apply negb_true_iff, memn_false in Sw. eapply rel_agree; eassumption.
      + specialize (So n Hn). apply orb_true_iff in So as [So|So]; [apply Nat.eqb_eq in So; contradiction|].
        apply negb_true_iff, memn_false in So. eapply rel_agree; eassumption.
  Qed.
End Decide.
