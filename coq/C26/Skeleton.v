(* C26 — effect skeletons of Transformation.apply: syntax, abstract semantics, order analysis.
   Definitions only (no proofs in this file).  The per-transformation skeletons are GENERATED
   into C26/Gen.v by props/C26/translate.py from the tree under test. *)
From Coq Require Import List String Bool Arith.
Import ListNotations.

(* An effect skeleton abstracts a Python function body to what matters for property C26:
   where a TransformationError can be raised, where the PSyIR / symbol tables are mutated, and
   the control structure in between. *)
Inductive sk : Type :=
| Pure                          (* no relevant effect *)
| Raise (l : string)            (* raise TransformationError (label = site) *)
| Mut (l : string)              (* call of a mutating primitive (label = site:primitive) *)
| Abort                         (* raise of any other exception *)
| Ret | Brk | Cont              (* return / break / continue *)
| Seq (l : list sk)
| Alt (a b : sk)                (* if/else, short-circuit operators: either branch *)
| Loop (b : sk)                 (* for/while/comprehension/recursion: 0..n iterations *)
| TryTE (b h : sk)              (* try b except <catches TransformationError>: h *)
| TryOther (b h : sk)           (* try b except <other exceptions only>: h *)
| Finally (b f : sk)            (* try b finally f *)
| Fn (name : string) (b : sk).  (* function boundary (a followed call): Ret stops here *)

(* ---------------------------------------------------------------- abstract semantics *)
Inductive res : Type := ROk | RErr (* TransformationError propagates *) | ROth (* other exception *)
                      | RRet | RBrk | RCont.

(* The state is the log of executed mutations (newest first): "the tree and the symbol tables
   are unchanged" is "the log is the one we started with". *)
Definition state := list string.
(* All non-determinism (which branch, how many iterations, whether an unmodelled exception
   fires inside a try body) is resolved by a stream of numbers. *)
Definition choices := list nat.
Definition pop (c : choices) : nat * choices :=
  match c with [] => (0, []) | n :: r => (n, r) end.

Definition outcome : Type := res * state * choices.

Fixpoint run (s : sk) (st : state) (ch : choices) {struct s} : outcome :=
  match s with
  | Pure => (ROk, st, ch)
  | Raise _ => (RErr, st, ch)
  | Mut l => (ROk, l :: st, ch)
  | Abort => (ROth, st, ch)
  | Ret => (RRet, st, ch)
  | Brk => (RBrk, st, ch)
  | Cont => (RCont, st, ch)
  | Seq l =>
      (fix go (l : list sk) (st : state) (ch : choices) {struct l} : outcome :=
         match l with
         | [] => (ROk, st, ch)
         | x :: r => match run x st ch with
                     | (ROk, st', ch') => go r st' ch'
                     | other => other
                     end
         end) l st ch
  | Alt a b => let (n, ch') := pop ch in
               match n with 0 => run a st ch' | _ => run b st ch' end
  | Loop b =>
      let (n, ch0) := pop ch in
      (fix it (n : nat) (st : state) (ch : choices) {struct n} : outcome :=
         match n with
         | 0 => (ROk, st, ch)
         | S n' => match run b st ch with
                   | (ROk, st', ch') => it n' st' ch'
                   | (RCont, st', ch') => it n' st' ch'
                   | (RBrk, st', ch') => (ROk, st', ch')
                   | other => other
                   end
         end) n st ch0
  | TryTE b h =>
      match run b st ch with
      | (RErr, st', ch') => run h st' ch'
      | other => other
      end
  | TryOther b h =>
      (* a TransformationError passes through; an explicit other exception is handled; and
         since ANY call in the body may raise an unmodelled exception, the handler may also run
         after the body (the order analysis below is insensitive to where in the body). *)
      match run b st ch with
      | (RErr, st', ch') => (RErr, st', ch')
      | (ROth, st', ch') => run h st' ch'
      | (r, st', ch') => let (n, ch'') := pop ch' in
                         match n with 0 => (r, st', ch'') | _ => run h st' ch'' end
      end
  | Finally b f =>
      match run b st ch with
      | (r, st', ch') => match run f st' ch' with
                         | (ROk, st'', ch'') => (r, st'', ch'')
                         | other => other
                         end
      end
  | Fn _ b =>
      match run b st ch with
      | (RRet, st', ch') => (ROk, st', ch')
      | other => other
      end
  end.

(* ---------------------------------------------------------------- order analysis *)
(* labels of the raise sites whose TransformationError can leave the skeleton *)
Fixpoint raises (s : sk) : list string :=
  match s with
  | Raise l => [l]
  | Pure | Mut _ | Abort | Ret | Brk | Cont => []
  | Seq l => (fix go (l : list sk) : list string :=
                match l with [] => [] | x :: r => raises x ++ go r end) l
  | Alt a b => raises a ++ raises b
  | Loop b => raises b
  | TryTE b h => raises h
  | TryOther b h => raises b ++ raises h
  | Finally b f => raises b ++ raises f
  | Fn _ b => raises b
  end.

(* labels of the mutation sites *)
Fixpoint muts (s : sk) : list string :=
  match s with
  | Mut l => [l]
  | Pure | Raise _ | Abort | Ret | Brk | Cont => []
  | Seq l => (fix go (l : list sk) : list string :=
                match l with [] => [] | x :: r => muts x ++ go r end) l
  | Alt a b => muts a ++ muts b
  | Loop b => muts b
  | TryTE b h => muts b ++ muts h
  | TryOther b h => muts b ++ muts h
  | Finally b f => muts b ++ muts f
  | Fn _ b => muts b
  end.

Definition cross (ms rs : list string) : list (string * string) :=
  flat_map (fun m => map (fun r => (m, r)) rs) ms.

(* (mutation site, raise site) pairs such that the mutation may execute BEFORE the raise whose
   TransformationError then leaves the skeleton *)
Fixpoint unsafe_pairs (s : sk) : list (string * string) :=
  match s with
  | Pure | Raise _ | Mut _ | Abort | Ret | Brk | Cont => []
  | Seq l => (fix go (l : list sk) : list (string * string) :=
                match l with
                | [] => []
                | x :: r => unsafe_pairs x ++ go r
                            ++ cross (muts x)
                                 ((fix rs (l : list sk) : list string :=
                                     match l with [] => [] | y :: q => raises y ++ rs q end) r)
                end) l
  | Alt a b => unsafe_pairs a ++ unsafe_pairs b
  | Loop b => unsafe_pairs b ++ cross (muts b) (raises b)
  | TryTE b h => unsafe_pairs h ++ cross (muts b) (raises h)
  | TryOther b h => unsafe_pairs b ++ unsafe_pairs h ++ cross (muts b) (raises h)
  | Finally b f => unsafe_pairs b ++ unsafe_pairs f ++ cross (muts b) (raises f)
                   ++ cross (muts f) (raises b)
  | Fn _ b => unsafe_pairs b
  end.

(* safe = every raise that can leave the skeleton precedes every mutation, on every path *)
Definition safe (s : sk) : bool :=
  match unsafe_pairs s with [] => true | _ => false end.

(* set-like comparison of pair lists (the generated facts state the pairs the translator
   computed on the Python side) *)
Definition pair_eqb (p q : string * string) : bool :=
  String.eqb (fst p) (fst q) && String.eqb (snd p) (snd q).
Definition pairs_incl (a b : list (string * string)) : bool :=
  forallb (fun p => existsb (pair_eqb p) b) a.
Definition pairs_same (a b : list (string * string)) : bool :=
  pairs_incl a b && pairs_incl b a.

Definition state_of (o : outcome) : state := snd (fst o).
Definition res_of (o : outcome) : res := fst (fst o).
