(* C26 — proofs about effect skeletons: a safe skeleton that ends in a TransformationError has
   not executed any mutation (for ALL skeletons, states and choice streams). *)
From Coq Require Import List String Bool Arith Lia.
Import ListNotations.
From PV Require Import C26.Skeleton.

(* ------------------------------------------------------------ induction principle (nested list) *)
Section SkInd.
  Variable P : sk -> Prop.
  Hypothesis HPure : P Pure.
  Hypothesis HRaise : forall l, P (Raise l).
  Hypothesis HMut : forall l, P (Mut l).
  Hypothesis HAbort : P Abort.
  Hypothesis HRet : P Ret.
  Hypothesis HBrk : P Brk.
  Hypothesis HCont : P Cont.
  Hypothesis HSeq : forall l, Forall P l -> P (Seq l).
  Hypothesis HAlt : forall a b, P a -> P b -> P (Alt a b).
  Hypothesis HLoop : forall b, P b -> P (Loop b).
  Hypothesis HTryTE : forall b h, P b -> P h -> P (TryTE b h).
  Hypothesis HTryOther : forall b h, P b -> P h -> P (TryOther b h).
  Hypothesis HFinally : forall b f, P b -> P f -> P (Finally b f).
  Hypothesis HFn : forall n b, P b -> P (Fn n b).

  Fixpoint sk_ind' (s : sk) : P s :=
    match s with
    | Pure => HPure
    | Raise l => HRaise l
    | Mut l => HMut l
    | Abort => HAbort
    | Ret => HRet
    | Brk => HBrk
    | Cont => HCont
    | Seq l => HSeq l ((fix f (l : list sk) : Forall P l :=
                          match l with
                          | [] => Forall_nil P
                          | x :: r => Forall_cons x (sk_ind' x) (f r)
                          end) l)
    | Alt a b => HAlt a b (sk_ind' a) (sk_ind' b)
    | Loop b => HLoop b (sk_ind' b)
    | TryTE b h => HTryTE b h (sk_ind' b) (sk_ind' h)
    | TryOther b h => HTryOther b h (sk_ind' b) (sk_ind' h)
    | Finally b f => HFinally b f (sk_ind' b) (sk_ind' f)
    | Fn n b => HFn n b (sk_ind' b)
    end.
End SkInd.

(* ------------------------------------------------------------ named versions of the inner fixes *)
Fixpoint run_seq (l : list sk) (st : state) (ch : choices) : outcome :=
  match l with
  | [] => (ROk, st, ch)
  | x :: r => match run x st ch with
              | (ROk, st', ch') => run_seq r st' ch'
              | other => other
              end
  end.

Fixpoint run_loop (b : sk) (n : nat) (st : state) (ch : choices) : outcome :=
  match n with
  | 0 => (ROk, st, ch)
  | S n' => match run b st ch with
            | (ROk, st', ch') => run_loop b n' st' ch'
            | (RCont, st', ch') => run_loop b n' st' ch'
            | (RBrk, st', ch') => (ROk, st', ch')
            | other => other
            end
  end.

Definition raises_l (l : list sk) : list string := flat_map raises l.
Definition muts_l (l : list sk) : list string := flat_map muts l.
Fixpoint pairs_l (l : list sk) : list (string * string) :=
  match l with
  | [] => []
  | x :: r => unsafe_pairs x ++ pairs_l r ++ cross (muts x) (raises_l r)
  end.

Lemma run_Seq : forall l st ch, run (Seq l) st ch = run_seq l st ch.
Proof.
  induction l as [|x r IH]; intros st ch; [reflexivity|].
  cbn [run run_seq]. destruct (run x st ch) as [[rx stx] chx].
  destruct rx; try reflexivity; apply IH.
Qed.

Lemma run_Loop : forall b st ch,
  run (Loop b) st ch = run_loop b (fst (pop ch)) st (snd (pop ch)).
Proof.
  intros b st ch. cbn [run]. destruct (pop ch) as [n ch0]. cbn [fst snd].
  revert st ch0. induction n as [|n IH]; intros st ch0; [reflexivity|].
  cbn [run_loop]. destruct (run b st ch0) as [[rb stb] chb].
  destruct rb; try reflexivity; apply IH.
Qed.

Lemma raises_Seq : forall l, raises (Seq l) = raises_l l.
Proof. induction l as [|x r IH]; [reflexivity|]. cbn [raises] in *. unfold raises_l in *. cbn [flat_map]. now rewrite <- IH. Qed.

Lemma muts_Seq : forall l, muts (Seq l) = muts_l l.
Proof. induction l as [|x r IH]; [reflexivity|]. cbn [muts] in *. unfold muts_l in *. cbn [flat_map]. now rewrite <- IH. Qed.

Lemma pairs_Seq : forall l, unsafe_pairs (Seq l) = pairs_l l.
Proof.
  induction l as [|x r IH]; [reflexivity|].
  cbn [unsafe_pairs pairs_l] in *. rewrite <- IH.
  assert (E : (fix rs (l : list sk) : list string :=
                 match l with [] => [] | y :: q => raises y ++ rs q end) r = raises_l r).
  { clear. induction r as [|y q IHq]; [reflexivity|]. unfold raises_l in *. cbn [flat_map]. now rewrite IHq. }
  now rewrite E.
Qed.

(* ------------------------------------------------------------ small facts *)
Lemma app_nil_both : forall (A : Type) (a b : list A), a ++ b = [] -> a = [] /\ b = [].
Proof. intros A a b H. destruct a; [split; [reflexivity|exact H]|discriminate]. Qed.

Lemma cross_nil : forall ms rs, cross ms rs = [] -> ms = [] \/ rs = [].
Proof.
  intros ms rs H. destruct ms as [|m ms']; [now left|]. right.
  unfold cross in H. cbn [flat_map] in H. apply app_nil_both in H. destruct H as [H _].
  destruct rs; [reflexivity|discriminate].
Qed.

Lemma cross_nil_l : forall rs, cross [] rs = [].
Proof. reflexivity. Qed.

Lemma cross_nil_r : forall ms, cross ms [] = [].
Proof. induction ms as [|m r IH]; [reflexivity|]. unfold cross in *. cbn [flat_map map]. exact IH. Qed.

(* ------------------------------------------------------------ (A) no raise site => no TE *)
Lemma no_raise_ : forall s, raises s = [] -> forall st ch, res_of (run s st ch) <> RErr.
Proof.
  induction s as [ | l | l | | | | | l IHl | a b IHa IHb | b IHb | b h IHb IHh | b h IHb IHh
                 | b f IHb IHf | n b IHb ] using sk_ind'; intros HR st ch.
  - cbn. discriminate.
  - cbn in HR. discriminate.
  - cbn. discriminate.
  - cbn. discriminate.
  - cbn. discriminate.
  - cbn. discriminate.
  - cbn. discriminate.
  - rewrite run_Seq. rewrite raises_Seq in HR. revert st ch.
    induction IHl as [|x r Hx Hr IHr]; intros st ch; [cbn; discriminate|].
    unfold raises_l in HR. cbn [flat_map] in HR. apply app_nil_both in HR. destruct HR as [HRx HRr].
    cbn [run_seq]. specialize (Hx HRx st ch).
    destruct (run x st ch) as [[rx stx] chx] eqn:E. unfold res_of in Hx. cbn [fst] in Hx.
    destruct rx; try (unfold res_of; cbn [fst]; first [discriminate | exact Hx]).
    apply IHr. exact HRr.
  - cbn [raises] in HR. apply app_nil_both in HR. destruct HR as [HRa HRb].
    cbn [run]. destruct (pop ch) as [n ch']. destruct n; [apply IHa | apply IHb]; assumption.
  - cbn [raises] in HR. rewrite run_Loop.
    generalize (snd (pop ch)) as ch0. generalize (fst (pop ch)) as n. intros n. revert st.
    induction n as [|n IHn]; intros st ch0; [cbn; discriminate|].
    cbn [run_loop]. specialize (IHb HR st ch0).
    destruct (run b st ch0) as [[rb stb] chb]. unfold res_of in IHb. cbn [fst] in IHb.
    destruct rb; try (unfold res_of; cbn [fst]; first [discriminate | exact IHb]); apply IHn.
  - cbn [raises] in HR. cbn [run].
    destruct (run b st ch) as [[rb stb] chb].
    destruct rb; try (unfold res_of; cbn [fst]; discriminate). apply IHh. exact HR.
  - cbn [raises] in HR. apply app_nil_both in HR. destruct HR as [HRb HRh]. cbn [run].
    specialize (IHb HRb st ch).
    destruct (run b st ch) as [[rb stb] chb]. unfold res_of in IHb. cbn [fst] in IHb.
    destruct rb; try (exfalso; apply IHb; reflexivity);
      try (apply IHh; exact HRh);
      (destruct (pop chb) as [n ch'']; destruct n; [unfold res_of; cbn [fst]; discriminate | apply IHh; exact HRh]).
  - cbn [raises] in HR. apply app_nil_both in HR. destruct HR as [HRb HRf]. cbn [run].
    specialize (IHb HRb st ch).
    destruct (run b st ch) as [[rb stb] chb]. unfold res_of in IHb. cbn [fst] in IHb.
    specialize (IHf HRf stb chb).
    destruct (run f stb chb) as [[rf stf] chf]. unfold res_of in IHf. cbn [fst] in IHf.
    destruct rf; unfold res_of; cbn [fst]; first [exact IHb | exact IHf | discriminate].
  - cbn [raises] in HR. cbn [run]. specialize (IHb HR st ch).
    destruct (run b st ch) as [[rb stb] chb]. unfold res_of in IHb. cbn [fst] in IHb.
    destruct rb; unfold res_of; cbn [fst]; first [exact IHb | discriminate].
Qed.

(* ------------------------------------------------------------ (B) no mutation site => state kept *)
Lemma no_mut_ : forall s, muts s = [] -> forall st ch, state_of (run s st ch) = st.
Proof.
  induction s as [ | l | l | | | | | l IHl | a b IHa IHb | b IHb | b h IHb IHh | b h IHb IHh
                 | b f IHb IHf | n b IHb ] using sk_ind'; intros HM st ch; try reflexivity.
  - cbn in HM. discriminate.
  - rewrite run_Seq. rewrite muts_Seq in HM. revert st ch.
    induction IHl as [|x r Hx Hr IHr]; intros st ch; [reflexivity|].
    unfold muts_l in HM. cbn [flat_map] in HM. apply app_nil_both in HM. destruct HM as [HMx HMr].
    cbn [run_seq]. specialize (Hx HMx st ch).
    destruct (run x st ch) as [[rx stx] chx]. unfold state_of in Hx. cbn [fst snd] in Hx. subst stx.
    destruct rx; try reflexivity. apply IHr. exact HMr.
  - cbn [muts] in HM. apply app_nil_both in HM. destruct HM as [HMa HMb].
    cbn [run]. destruct (pop ch) as [n ch']. destruct n; [apply IHa | apply IHb]; assumption.
  - cbn [muts] in HM. rewrite run_Loop.
    generalize (snd (pop ch)) as ch0. generalize (fst (pop ch)) as n. intros n. revert st.
    induction n as [|n IHn]; intros st ch0; [reflexivity|].
    cbn [run_loop]. specialize (IHb HM st ch0).
    destruct (run b st ch0) as [[rb stb] chb]. unfold state_of in IHb. cbn [fst snd] in IHb. subst stb.
    destruct rb; try reflexivity; apply IHn.
  - cbn [muts] in HM. apply app_nil_both in HM. destruct HM as [HMb HMh]. cbn [run].
    specialize (IHb HMb st ch).
    destruct (run b st ch) as [[rb stb] chb]. unfold state_of in IHb. cbn [fst snd] in IHb. subst stb.
    destruct rb; try reflexivity. apply IHh. exact HMh.
  - cbn [muts] in HM. apply app_nil_both in HM. destruct HM as [HMb HMh]. cbn [run].
    specialize (IHb HMb st ch).
    destruct (run b st ch) as [[rb stb] chb]. unfold state_of in IHb. cbn [fst snd] in IHb. subst stb.
    destruct rb; try reflexivity; try (apply IHh; exact HMh);
      (destruct (pop chb) as [n ch'']; destruct n; [reflexivity | apply IHh; exact HMh]).
  - cbn [muts] in HM. apply app_nil_both in HM. destruct HM as [HMb HMf]. cbn [run].
    specialize (IHb HMb st ch).
    destruct (run b st ch) as [[rb stb] chb]. unfold state_of in IHb. cbn [fst snd] in IHb. subst stb.
    specialize (IHf HMf st chb).
    destruct (run f st chb) as [[rf stf] chf]. unfold state_of in IHf. cbn [fst snd] in IHf. subst stf.
    destruct rf; reflexivity.
  - cbn [muts] in HM. cbn [run]. specialize (IHb HM st ch).
    destruct (run b st ch) as [[rb stb] chb]. unfold state_of in IHb. cbn [fst snd] in IHb. subst stb.
    destruct rb; reflexivity.
Qed.

(* ------------------------------------------------------------ the log only grows *)
Lemma extends_ : forall s st ch, exists l, state_of (run s st ch) = l ++ st.
Proof.
  induction s as [ | l | l | | | | | l IHl | a b IHa IHb | b IHb | b h IHb IHh | b h IHb IHh
                 | b f IHb IHf | n b IHb ] using sk_ind'; intros st ch;
    try (exists []; reflexivity).
  - exists [l]. reflexivity.
  - rewrite run_Seq. revert st ch.
    induction IHl as [|x r Hx Hr IHr]; intros st ch; [exists []; reflexivity|].
    cbn [run_seq]. destruct (Hx st ch) as [l1 E1].
    destruct (run x st ch) as [[rx stx] chx]. unfold state_of in E1. cbn [fst snd] in E1. subst stx.
    destruct rx; try (exists l1; reflexivity).
    destruct (IHr (l1 ++ st) chx) as [l2 E2]. exists (l2 ++ l1). rewrite E2. now rewrite app_assoc.
  - cbn [run]. destruct (pop ch) as [n ch']. destruct n; [apply IHa | apply IHb].
  - rewrite run_Loop.
    generalize (snd (pop ch)) as ch0. generalize (fst (pop ch)) as n. intros n. revert st.
    induction n as [|n IHn]; intros st ch0; [exists []; reflexivity|].
    cbn [run_loop]. destruct (IHb st ch0) as [l1 E1].
    destruct (run b st ch0) as [[rb stb] chb]. unfold state_of in E1. cbn [fst snd] in E1. subst stb.
    destruct rb; try (exists l1; reflexivity);
      (destruct (IHn (l1 ++ st) chb) as [l2 E2]; exists (l2 ++ l1); rewrite E2; now rewrite app_assoc).
  - cbn [run]. destruct (IHb st ch) as [l1 E1].
    destruct (run b st ch) as [[rb stb] chb]. unfold state_of in E1. cbn [fst snd] in E1. subst stb.
    destruct rb; try (exists l1; reflexivity).
    destruct (IHh (l1 ++ st) chb) as [l2 E2]. exists (l2 ++ l1). rewrite E2. now rewrite app_assoc.
  - cbn [run]. destruct (IHb st ch) as [l1 E1].
    destruct (run b st ch) as [[rb stb] chb]. unfold state_of in E1. cbn [fst snd] in E1. subst stb.
    assert (Hh : forall c, exists l, state_of (run h (l1 ++ st) c) = l ++ st).
    { intros c. destruct (IHh (l1 ++ st) c) as [l2 E2]. exists (l2 ++ l1). rewrite E2. now rewrite app_assoc. }
    destruct rb; try (exists l1; reflexivity); try apply Hh;
      (destruct (pop chb) as [n ch'']; destruct n; [exists l1; reflexivity | apply Hh]).
  - cbn [run]. destruct (IHb st ch) as [l1 E1].
    destruct (run b st ch) as [[rb stb] chb]. unfold state_of in E1. cbn [fst snd] in E1. subst stb.
    destruct (IHf (l1 ++ st) chb) as [l2 E2].
    destruct (run f (l1 ++ st) chb) as [[rf stf] chf]. unfold state_of in E2. cbn [fst snd] in E2. subst stf.
    exists (l2 ++ l1). destruct rf; unfold state_of; cbn [fst snd]; now rewrite app_assoc.
  - cbn [run]. destruct (IHb st ch) as [l1 E1].
    destruct (run b st ch) as [[rb stb] chb]. unfold state_of in E1. cbn [fst snd] in E1. subst stb.
    exists l1. destruct rb; reflexivity.
Qed.

(* ------------------------------------------------------------ (C) soundness of the order analysis *)
Lemma sound_pairs_ : forall s, unsafe_pairs s = [] ->
  forall st ch, res_of (run s st ch) = RErr -> state_of (run s st ch) = st.
Proof.
  induction s as [ | l | l | | | | | l IHl | a b IHa IHb | b IHb | b h IHb IHh | b h IHb IHh
                 | b f IHb IHf | n b IHb ] using sk_ind'; intros HP st ch HE; try reflexivity.
  - cbn in HE. discriminate.
  - (* Seq *)
    rewrite run_Seq in *. rewrite pairs_Seq in HP. revert st ch HE.
    induction IHl as [|x r Hx Hr IHr]; intros st ch HE; [reflexivity|].
    cbn [pairs_l] in HP. apply app_nil_both in HP. destruct HP as [HPx HP].
    apply app_nil_both in HP. destruct HP as [HPr HC].
    cbn [run_seq] in *. specialize (Hx HPx st ch).
    destruct (run x st ch) as [[rx stx] chx] eqn:Ex.
    destruct rx; try (unfold res_of in HE; cbn [fst] in HE; discriminate).
    + (* x finished normally, the error comes from the rest *)
      apply cross_nil in HC. destruct HC as [HM | HR].
      * pose proof (no_mut_ x HM st ch) as Hst. rewrite Ex in Hst. unfold state_of in Hst.
        cbn [fst snd] in Hst. subst stx. apply IHr; assumption.
      * exfalso. assert (HR' : raises (Seq r) = []) by (rewrite raises_Seq; exact HR).
        pose proof (no_raise_ (Seq r) HR' stx chx) as Hno. rewrite run_Seq in Hno. exact (Hno HE).
    + (* x itself raised *)
      apply Hx. reflexivity.
  - (* Alt *)
    cbn [unsafe_pairs] in HP. apply app_nil_both in HP. destruct HP as [HPa HPb].
    cbn [run] in *. destruct (pop ch) as [n ch']. destruct n; [apply IHa | apply IHb]; assumption.
  - (* Loop *)
    cbn [unsafe_pairs] in HP. apply app_nil_both in HP. destruct HP as [HPb HC].
    rewrite run_Loop in *. revert HE.
    generalize (snd (pop ch)) as ch0. generalize (fst (pop ch)) as n. intros n. revert st.
    induction n as [|n IHn]; intros st ch0 HE; [reflexivity|].
    cbn [run_loop] in *. specialize (IHb HPb st ch0).
    destruct (run b st ch0) as [[rb stb] chb] eqn:Eb.
    apply cross_nil in HC.
    destruct rb; try (unfold res_of in HE; cbn [fst] in HE; discriminate);
      try (apply IHb; reflexivity).
    + destruct HC as [HM | HR].
      * pose proof (no_mut_ b HM st ch0) as Hst. rewrite Eb in Hst. unfold state_of in Hst.
        cbn [fst snd] in Hst. subst stb. apply IHn. exact HE.
      * exfalso. clear IHn IHb Eb. revert stb chb HE.
        induction n as [|n IHn2]; intros stb chb HE; [cbn in HE; discriminate|].
        cbn [run_loop] in HE. pose proof (no_raise_ b HR stb chb) as Hno.
        destruct (run b stb chb) as [[r2 st2] ch2]. unfold res_of in Hno. cbn [fst] in Hno.
        destruct r2; try (unfold res_of in HE; cbn [fst] in HE; discriminate);
          try (apply Hno; reflexivity); eapply IHn2; exact HE.
    + destruct HC as [HM | HR].
      * pose proof (no_mut_ b HM st ch0) as Hst. rewrite Eb in Hst. unfold state_of in Hst.
        cbn [fst snd] in Hst. subst stb. apply IHn. exact HE.
      * exfalso. clear IHn IHb Eb. revert stb chb HE.
        induction n as [|n IHn2]; intros stb chb HE; [cbn in HE; discriminate|].
        cbn [run_loop] in HE. pose proof (no_raise_ b HR stb chb) as Hno.
        destruct (run b stb chb) as [[r2 st2] ch2]. unfold res_of in Hno. cbn [fst] in Hno.
        destruct r2; try (unfold res_of in HE; cbn [fst] in HE; discriminate);
          try (apply Hno; reflexivity); eapply IHn2; exact HE.
  - (* TryTE *)
    cbn [unsafe_pairs] in HP. apply app_nil_both in HP. destruct HP as [HPh HC].
    cbn [run] in *.
    destruct (run b st ch) as [[rb stb] chb] eqn:Eb.
    destruct rb; try (unfold res_of in HE; cbn [fst] in HE; discriminate).
    apply cross_nil in HC. destruct HC as [HM | HR].
    + pose proof (no_mut_ b HM st ch) as Hst. rewrite Eb in Hst. unfold state_of in Hst.
      cbn [fst snd] in Hst. subst stb. apply IHh; assumption.
    + exfalso. exact (no_raise_ h HR stb chb HE).
  - (* TryOther *)
    cbn [unsafe_pairs] in HP. apply app_nil_both in HP. destruct HP as [HPb HP].
    apply app_nil_both in HP. destruct HP as [HPh HC].
    cbn [run] in *. specialize (IHb HPb st ch).
    destruct (run b st ch) as [[rb stb] chb] eqn:Eb.
    apply cross_nil in HC.
    assert (Hh : forall c, res_of (run h stb c) = RErr -> state_of (run h stb c) = st).
    { intros c HEc. destruct HC as [HM | HR].
      - pose proof (no_mut_ b HM st ch) as Hst. rewrite Eb in Hst. unfold state_of in Hst.
        cbn [fst snd] in Hst. subst stb. apply IHh; assumption.
      - exfalso. exact (no_raise_ h HR stb c HEc). }
    destruct rb; try (apply IHb; reflexivity); try (apply Hh; exact HE);
      (destruct (pop chb) as [n ch'']; destruct n;
       [unfold res_of in HE; cbn [fst] in HE; discriminate | apply Hh; exact HE]).
  - (* Finally *)
    cbn [unsafe_pairs] in HP. apply app_nil_both in HP. destruct HP as [HPb HP].
    apply app_nil_both in HP. destruct HP as [HPf HP].
    apply app_nil_both in HP. destruct HP as [HC1 HC2].
    cbn [run] in *. specialize (IHb HPb st ch).
    destruct (run b st ch) as [[rb stb] chb] eqn:Eb.
    specialize (IHf HPf stb chb).
    destruct (run f stb chb) as [[rf stf] chf] eqn:Ef.
    apply cross_nil in HC1. apply cross_nil in HC2.
    destruct rf; try (unfold res_of in HE; cbn [fst] in HE; discriminate).
    + (* f completed; the error is b's *)
      unfold res_of in HE. cbn [fst] in HE. subst rb.
      assert (stb = st) by (apply IHb; reflexivity). subst stb.
      destruct HC2 as [HMf | HRb].
      * pose proof (no_mut_ f HMf st chb) as Hst. rewrite Ef in Hst. exact Hst.
      * exfalso. pose proof (no_raise_ b HRb st ch) as Hno. rewrite Eb in Hno. apply Hno. reflexivity.
    + (* f raised *)
      assert (stf = stb) by (apply IHf; reflexivity). subst stf.
      destruct HC1 as [HMb | HRf].
      * pose proof (no_mut_ b HMb st ch) as Hst. rewrite Eb in Hst. exact Hst.
      * exfalso. pose proof (no_raise_ f HRf stb chb) as Hno. rewrite Ef in Hno. apply Hno. reflexivity.
  - (* Fn *)
    cbn [unsafe_pairs] in HP. cbn [run] in *. specialize (IHb HP st ch).
    destruct (run b st ch) as [[rb stb] chb].
    destruct rb; try (unfold res_of in HE; cbn [fst] in HE; discriminate).
    apply IHb. reflexivity.
Qed.

Lemma safe_pairs : forall s, safe s = true <-> unsafe_pairs s = [].
Proof.
  intros s. unfold safe. destruct (unsafe_pairs s); split; intros H; try reflexivity; discriminate.
Qed.

(* The meta-theorem, in the form used by Properties/C26.v *)
Theorem safe_skeleton_sound_ : forall s, safe s = true ->
  forall st ch st' ch', run s st ch = (RErr, st', ch') -> st' = st.
Proof.
  intros s HS st ch st' ch' HR. apply safe_pairs in HS.
  pose proof (sound_pairs_ s HS st ch) as H. rewrite HR in H. apply H. reflexivity.
Qed.

(* "unchanged" really means that no mutation was executed: the log only ever grows *)
Theorem run_log_extends_ : forall s st ch, exists l, state_of (run s st ch) = l ++ st.
Proof. exact extends_. Qed.

Corollary unchanged_iff_no_mutation_ : forall s st ch l,
  state_of (run s st ch) = l ++ st -> (state_of (run s st ch) = st <-> l = []).
Proof.
  intros s st ch l E. rewrite E. split; intros H.
  - assert (L : List.length (l ++ st) = List.length st) by now rewrite H.
    rewrite List.app_length in L. destruct l; [reflexivity | cbn in L; lia].
  - now subst l.
Qed.

(* lifting a generated table of skeletons: every entry whose name is in a list of names that was
   checked safe by computation is covered by the meta-theorem *)
Definition lookup_sk (tbl : list (string * sk)) (n : string) : option sk :=
  match find (fun p => String.eqb (fst p) n) tbl with Some p => Some (snd p) | None => None end.

Definition all_safe (tbl : list (string * sk)) (names : list string) : bool :=
  forallb (fun n => match lookup_sk tbl n with Some s => safe s | None => false end) names.

Theorem table_sound_ : forall tbl names, all_safe tbl names = true ->
  forall n, In n names -> exists s, lookup_sk tbl n = Some s /\
    forall st ch st' ch', run s st ch = (RErr, st', ch') -> st' = st.
Proof.
  intros tbl names H n Hin. unfold all_safe in H. rewrite forallb_forall in H.
  specialize (H n Hin). destruct (lookup_sk tbl n) as [s|]; [|discriminate].
  exists s. split; [reflexivity|]. apply safe_skeleton_sound_. exact H.
Qed.

(* ------------------------------------------------------------ the full statement is false *)
(* "every skeleton ends a TransformationError with the state unchanged" is refuted by the
   shape found today in ArrayAssignment2LoopsTrans.validate with options={"verbose": True}:
   a comment is attached to the node (a mutation) and then the error is raised. *)
Definition aa2l_verbose_shape : sk :=
  Fn "ArrayAssignment2LoopsTrans.apply"
    (Seq [Fn "ArrayAssignment2LoopsTrans.validate"
            (Seq [Alt (Raise "not an assignment") Pure;
                  Alt (Seq [Alt (Mut "append_preceding_comment") Pure; Raise "unsupported rhs"]) Pure]);
          Mut "replace_with"]).

Theorem unsafe_shape_refutes_ :
  exists s st ch st' ch', run s st ch = (RErr, st', ch') /\ st' <> st.
Proof.
  exists aa2l_verbose_shape, [], [1; 0; 0], ["append_preceding_comment"%string], [].
  split; [vm_compute; reflexivity | discriminate].
Qed.

Example aa2l_shape_unsafe : safe aa2l_verbose_shape = false.
Proof. vm_compute. reflexivity. Qed.

(* ------------------------------------------------------------ non-vacuity *)
(* the usual shape "self.validate(node); mutate": safe, has a raising path and a mutating path *)
Definition validate_then_mutate : sk :=
  Fn "T.apply"
    (Seq [Fn "T.validate" (Seq [Alt (Raise "bad node") Pure;
                                Loop (Alt (Raise "bad child") Pure);
                                TryOther (Pure) (Raise "lookup failed")]);
          Alt (Seq [Mut "detach"; Ret]) Pure;
          Loop (Seq [Mut "addchild"; Alt Cont Pure; Mut "replace_with"]);
          Mut "new_symbol"]).

Example nonvacuous_safe :
  safe validate_then_mutate = true /\
  (exists ch st' ch', run validate_then_mutate [] ch = (RErr, st', ch')) /\
  (exists ch st' ch', run validate_then_mutate [] ch = (ROk, st', ch') /\ st' <> []).
Proof.
  split; [vm_compute; reflexivity|]. split.
  - exists [1; 2; 1; 0], [], []. vm_compute. reflexivity.
  - exists [1; 0; 0; 1; 1; 1], ["new_symbol"; "replace_with"; "addchild"]%string, [].
    split; [vm_compute; reflexivity | discriminate].
Qed.
