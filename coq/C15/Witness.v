(* C15 — soundness of the boolean hypothesis checkers, refutation witnesses, non-vacuity. *)
From Coq Require Import List NArith Bool Lia.
Import ListNotations.
From PV Require Import C15.Model C15.Basics C15.CopyProofs C15.Indep.
Open Scope N_scope.

(* ------------------------------------------- booleans reflect the Props *)
Lemma nodupb_sound : forall l, nodupb l = true -> NoDup l.
Proof.
  induction l as [|x r IH]; simpl; intro H; [constructor|].
  apply andb_true_iff in H as [H1 H2]. constructor; [|apply IH; exact H2].
  apply memN_false. destruct (memN x r); [discriminate | reflexivity].
Qed.

Lemma tab_wf_b_sound : forall h t, tab_wf_b h t = true -> tab_wf h t.
Proof.
  intros h t H. unfold tab_wf_b in H. apply andb_true_iff in H as [H1 H2]. split.
  - apply nodupb_sound. exact H1.
  - apply Forall_forall. intros e He. rewrite forallb_forall in H2. apply N.eqb_eq. apply H2. exact He.
Qed.

Lemma imports_local_b_sound : forall h t, imports_local_b h t = true -> imports_local h t.
Proof.
  intros h t H. unfold imports_local_b in H. rewrite forallb_forall in H. split.
  - intros s c Hs Ei. specialize (H s Hs). apply andb_true_iff in H as [H _]. rewrite Ei in H.
    apply memN_true. exact H.
  - intros s m Hs Hm. specialize (H s Hs). apply andb_true_iff in H as [_ H]. rewrite forallb_forall in H.
    apply memN_true. apply H. exact Hm.
Qed.

Lemma wf_b_sound : forall W off soff ooff n, wf_b W off soff ooff n = true -> wf W off soff ooff n.
Proof.
  intros W off soff ooff n H. unfold wf_b in H.
  repeat (apply andb_true_iff in H; destruct H as [H ?]).
  rewrite forallb_forall in *.
  split; [|split; [|split; [|split; [|split]]]].
  - apply Forall_forall. intros t Ht. apply tab_wf_b_sound. apply H. exact Ht.
  - apply Forall_forall. intros t Ht. apply imports_local_b_sound. auto.
  - apply nodupb_sound. assumption.
  - apply Forall_forall. intros i Hi. apply N.ltb_lt. auto.
  - apply Forall_forall. intros i Hi. apply N.ltb_lt. auto.
  - apply Forall_forall. intros i Hi. apply N.ltb_lt. auto.
Qed.

Lemma implb_memN : forall s A B, implb (memN s A) (memN s B) = true -> In s A -> In s B.
Proof.
  intros s A B H Hin. apply memN_true in Hin. rewrite Hin in H. simpl in H. apply memN_true. exact H.
Qed.

Lemma wsc_b_sound : forall n, wsc_b n = true -> wsc n.
Proof.
  intro n. induction n as [i tag sl tab ch IH] using node_ind'. intro H. cbn [wsc_b] in H.
  apply andb_true_iff in H as [H H3]. apply andb_true_iff in H as [H1 H2].
  rewrite forallb_forall in H2, H3. constructor.
  - intros s E Hin. subst sl. apply (implb_memN s _ _ H1 Hin).
  - intros c Hc s Hs Hin. specialize (H2 c Hc). rewrite forallb_forall in H2. specialize (H2 s Hs).
    apply memN_true in Hin. rewrite Hin in H2. simpl in H2. apply orb_true_iff in H2 as [H2|H2];
      [left | right]; apply memN_true; exact H2.
  - rewrite Forall_forall in *. intros c Hc. apply IH; [exact Hc | apply H3; exact Hc].
Qed.

(* -------------------------------------------------- a family of witnesses *)
(* subroutine s();  integer :: m;  real :: b   ! + what the parameters add
   name codes (16 * base + case variant): m is stored as `M` (177, key 176), b = 208, s = 160;
   symbols 1 (m), 3 (b), 4 (routine symbol s) *)
Definition ref_m : node := Node 50 1 (Rebound 1) None [].
Definition wit_world (bounds : list node) (osy : list N) (init : option node) : world :=
  mkworld
    [ (1, {| sname := 177; styped := true; sdt := 31; sinit := None; sintf := ILocal 41; smem := [] |});
      (3, {| sname := 208; styped := true; sdt := 32; sinit := init; sintf := ILocal 42; smem := [] |});
      (4, {| sname := 160; styped := true; sdt := 33; sinit := None; sintf := ILocal 43; smem := [] |}) ]
    [ (31, {| obounds := []; osyms := []; opay := 1 |});
      (32, {| obounds := bounds; osyms := osy; opay := 2 |});
      (33, {| obounds := []; osyms := []; opay := 3 |});
      (41, {| obounds := []; osyms := []; opay := 5 |});
      (42, {| obounds := []; osyms := []; opay := 5 |});
      (43, {| obounds := []; osyms := []; opay := 5 |}) ].
(* body:  b = <rhs> *)
Definition wit_tree (rhs : node) : node :=
  Node 1 100 NoSlot (Some [(160, 4); (176, 1); (208, 3)])
    [ Node 2 101 NoSlot None [ Node 3 1 (Rebound 3) None []; rhs ] ].
Definition lit : node := Node 4 2 NoSlot None [].
Definition lit_kind_m : node := Node 4 2 (Plain 1) None [].

(* `table.rename_symbol(m, "mm")` on the original *)
Definition rename_m : list edit := [ERename 1 1586].   (* new name `mM`: key 1584 *)

Definition refutes (W : world) (n : node) (es : list edit) : Prop :=
  let off := 1000 in let soff := 1000 in let ooff := 1000 in
  let W' := copy_world W off soff ooff n in
  let c := copy (hs W) off soff n in
  let st0 := {| sw := W'; sa := n; sb := c |} in
  wf W off soff ooff n /\ wsc n /\ valid_seq es st0
  /\ write (sw (run es st0)) (sb (run es st0)) <> write W' c.

Ltac refute :=
  unfold refutes; cbv zeta; split; [apply wf_b_sound; vm_compute; reflexivity|];
  split; [apply wsc_b_sound; vm_compute; reflexivity|];
  split; [simpl; split; [|exact I]; vm_compute; tauto|];
  vm_compute; discriminate.

(* `real, dimension(m) :: b` — the bound expression of b's ArrayType is shared with the copy *)
Lemma refuted_shape_symbol_ : refutes (wit_world [ref_m] [] None) (wit_tree lit) rename_m.
Proof. refute. Qed.
(* `real(kind=m) :: b` — precision symbol of the declared type *)
Lemma refuted_kind_symbol_ : refutes (wit_world [] [1] None) (wit_tree lit) rename_m.
Proof. refute. Qed.
(* `real :: b = m` — initial value: copied but not re-bound *)
Lemma refuted_initial_value_ : refutes (wit_world [] [] (Some ref_m)) (wit_tree lit) rename_m.
Proof. refute. Qed.
(* `b = 1.0_m` — precision symbol of a Literal node *)
Lemma refuted_literal_precision_ : refutes (wit_world [] [] None) (wit_tree lit_kind_m) rename_m.
Proof. refute. Qed.

(* in-place mutation of an object that copy shares: even when no datatype mentions a symbol.
   ESetObj on b's datatype object (StructureType.add, re-targeting a bound Reference, ...) or on
   b's interface object (`interface.access = READ`).  Such an edit is NOT `valid`. *)
Definition refutes_inplace (W : world) (n : node) (s : N) (pick : sym -> N) (a : aobj) : Prop :=
  let off := 1000 in let soff := 1000 in let ooff := 1000 in
  let W' := copy_world W off soff ooff n in
  let c := copy (hs W) off soff n in
  let st0 := {| sw := W'; sa := n; sb := c |} in
  let e := ESetObj (pick (hs W' s)) a in
  wf W off soff ooff n /\ wsc n /\ no_symbol_in_datatypes W n
  /\ In s (owned n)                                   (* the object belongs to a symbol of the edited tree *)
  /\ write (sw (run [e] st0)) (sb (run [e] st0)) <> write W' c.

Lemma refuted_shared_datatype_object_ :
  refutes_inplace (wit_world [] [] None) (wit_tree lit) 3 sdt {| obounds := []; osyms := []; opay := 77 |}.
Proof.
  unfold refutes_inplace; cbv zeta. split; [apply wf_b_sound; vm_compute; reflexivity|].
  split; [apply wsc_b_sound; vm_compute; reflexivity|].
  split; [apply safe_b_spec; vm_compute; reflexivity|].
  split; [vm_compute; tauto|]. vm_compute; discriminate.
Qed.

Lemma refuted_shared_interface_object_ :
  refutes_inplace (wit_world [] [] None) (wit_tree lit) 3
                  (fun y => match sintf y with ILocal o => o | IImport _ => 0 end)
                  {| obounds := []; osyms := []; opay := 78 |}.
Proof.
  unfold refutes_inplace; cbv zeta. split; [apply wf_b_sound; vm_compute; reflexivity|].
  split; [apply wsc_b_sound; vm_compute; reflexivity|].
  split; [apply safe_b_spec; vm_compute; reflexivity|].
  split; [vm_compute; tauto|]. vm_compute; discriminate.
Qed.

(* ------------------------------------------------------------ non-vacuity *)
(* module-like container with an import, an untyped symbol, mixed-case stored names (name <> key), a
   generic interface declared BEFORE its member routine in the table (the order left by rename_symbol), a
   nested routine scope declaring a name that differs from an outer one only in case, a loop (Rebound slot on a non-Reference node) with its own inner scope, references from the
   inner scopes to outer symbols, and a reference to a symbol declared outside the subtree (9). *)
Definition nv_world : world :=
  mkworld
    [ (1, {| sname := 176; styped := false; sdt := 30; sinit := None; sintf := ILocal 40; smem := [] |});   (* container symbol *)
      (2, {| sname := 193; styped := false; sdt := 30; sinit := None; sintf := IImport 1; smem := [] |});   (* imported *)
      (3, {| sname := 209; styped := true; sdt := 31; sinit := Some (Node 60 2 NoSlot None []); sintf := ILocal 41; smem := [] |});
      (4, {| sname := 227; styped := true; sdt := 32; sinit := None; sintf := ILocal 42; smem := [] |});    (* inner i *)
      (5, {| sname := 210; styped := true; sdt := 31; sinit := None; sintf := ILocal 43; smem := [] |});    (* inner: differs from 209 only in case *)
      (6, {| sname := 256; styped := true; sdt := 32; sinit := None; sintf := ILocal 44; smem := [] |});    (* loop-body local *)
      (7, {| sname := 272; styped := true; sdt := 32; sinit := None; sintf := ILocal 46; smem := [3] |});   (* generic interface, member 3 *)
      (9, {| sname := 305; styped := true; sdt := 33; sinit := None; sintf := ILocal 45; smem := [] |}) ]   (* outside *)
    [ (30, dobj); (31, {| obounds := [Node 61 2 NoSlot None []; Node 62 1 (Rebound 9) None []]; osyms := [9]; opay := 2 |});
      (32, {| obounds := []; osyms := []; opay := 1 |}); (33, {| obounds := []; osyms := []; opay := 1 |});
      (40, dobj); (41, dobj); (42, dobj); (43, dobj); (44, dobj); (45, dobj); (46, dobj) ].
Definition nv_tree : node :=
  Node 1 100 NoSlot (Some [(176, 1); (192, 2); (272, 7); (208, 3)])
    [ Node 2 101 NoSlot (Some [(224, 4); (208, 5)])
        [ Node 3 102 NoSlot None [ Node 4 1 (Rebound 5) None []; Node 5 1 (Rebound 2) None [] ];
          Node 6 103 (Rebound 4) None
            [ Node 7 2 (Plain 9) None [];
              Node 8 104 NoSlot (Some [(256, 6)])
                [ Node 9 102 NoSlot None [ Node 10 1 (Rebound 6) None [ Node 11 1 (Rebound 4) None [] ];
                                           Node 12 1 (Rebound 9) None [] ] ] ] ];
      Node 13 102 NoSlot None [ Node 14 1 (Rebound 3) None []; Node 15 2 NoSlot None [] ] ].

Lemma nv_hyps : wf nv_world 1000 1000 1000 nv_tree /\ wsc nv_tree /\ no_symbol_in_datatypes nv_world nv_tree.
Proof.
  split; [apply wf_b_sound; vm_compute; reflexivity|].
  split; [apply wsc_b_sound; vm_compute; reflexivity|].
  apply safe_b_spec. vm_compute. reflexivity.
Qed.

(* a valid edit sequence on the original exercising every kind of edit *)
Definition nv_edits : list edit :=
  [ ERename 3 1233;
    ENewSym 8 500 {| sname := 1249; styped := true; sdt := 32; sinit := None; sintf := ILocal 42; smem := [] |};
    ESetObj 600 {| obounds := [Node 700 1 (Rebound 3) None []]; osyms := [5]; opay := 9 |};
    ESetSym 5 {| sname := 0; styped := true; sdt := 600; sinit := Some (Node 701 1 (Rebound 4) None []); sintf := ILocal 43; smem := [] |};
    EReplace 13 (Node 13 102 NoSlot None [ Node 800 1 (Rebound 500) None [] ]);
    EReplace 7 (Node 7 2 NoSlot None []) ].

Lemma nv_valid :
  let W' := copy_world nv_world 1000 1000 1000 nv_tree in
  let c := copy (hs nv_world) 1000 1000 nv_tree in
  let st0 := {| sw := W'; sa := nv_tree; sb := c |} in
  valid_seq nv_edits st0
  /\ write (sw (run nv_edits st0)) (sa (run nv_edits st0)) <> write W' nv_tree   (* the edits do change A *)
  /\ refs c = [1005; 1002; 1004; 1006; 1004; 9; 1003]                           (* who got re-bound *)
  /\ smem (hs W' 1007) = [1003].        (* interface member re-bound although declared after the interface *)
Proof.
  cbv zeta. split; [|split; [|split]].
  - simpl valid_seq. repeat split; try (vm_compute; tauto); try (vm_compute; intuition discriminate).
    all: try (intros ? H; vm_compute in H; vm_compute; intuition (subst; discriminate)).
  - vm_compute. discriminate.
  - vm_compute. reflexivity.
  - vm_compute. reflexivity.
Qed.
