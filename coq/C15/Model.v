(* C15 — model of PSyIR subtree copying.

   Anchors (src/psyclone/psyir):
     nodes/node.py          Node.copy (copy.copy + _refine_copy: fresh children list, child.copy())
     nodes/scoping_node.py  ScopingNode._refine_copy (symbol_table.deep_copy(), then
                            `for node in self.walk((Reference, Loop))` re-binding `node.symbol` /
                            `node.variable` by `self.symbol_table.lookup(<old symbol>.name)` (lookup normalises the name) when the old
                            symbol is `in other.symbol_table.symbols`)
     symbols/symbol_table.py SymbolTable.deep_copy (symbol.copy() for every symbol, ImportInterface
                            re-created with the container looked up by name in the new table)
     symbols/symbol.py      Symbol.copy          (interface.copy(): a NEW interface object)
     symbols/typed_symbol.py, datasymbol.py, data_type_symbol.py, routinesymbol.py
                            *.copy               (SAME datatype object, SAME interface object,
                                                  DataSymbol: initial_value.copy(), not re-bound)

   Python objects are modelled by identities (N):
     * node ids          — a tree value carries the id of every node object;
     * symbol ids        — `hs : N -> sym` is the heap of Symbol objects;
     * object ids        — `ho : N -> aobj` is the heap of datatype objects and interface objects
                           (anything a Symbol points to and `copy` may share).
   "A new object" is modelled by an id shifted by an offset that the caller chooses above every id in
   use (`off` for nodes, `soff` for symbols, `ooff` for interface objects).  No proofs in this file. *)
From Coq Require Import List NArith Bool.
Import ListNotations.
Open Scope N_scope.

(* ------------------------------------------------------------------ data *)
(* the one attribute of a node that holds a Symbol outside the children list *)
Inductive slot :=
| NoSlot
| Rebound (s : N)      (* Reference.symbol, Loop._variable : visited by ScopingNode._refine_copy *)
| Plain (s : N).       (* Literal.datatype.precision : shallow-copied, never visited *)

Definition table := list (N * N).          (* ordered dict: NORMALISED name (key) -> symbol id *)

Inductive node := Node (id tag : N) (sl : slot) (tab : option table) (ch : list node).

Inductive intf :=
| ILocal (o : N)        (* Automatic/Argument/Static/... interface object *)
| IImport (c : N).      (* ImportInterface(container symbol c) *)

Record sym := { sname : N; styped : bool; sdt : N; sinit : option node; sintf : intf; smem : list N }.
(* smem = the member RoutineSymbols of a GenericInterfaceSymbol (`routines`), [] for other symbols *)
(* styped = the class overrides copy() and passes `self.datatype` / `self.interface` on
   (TypedSymbol, DataSymbol, DataTypeSymbol, RoutineSymbol); false = Symbol / ContainerSymbol,
   whose copy() calls interface.copy(). *)

Record aobj := { obounds : list node; osyms : list N; opay : N }.
(* datatype object: expression trees of the array bounds, symbols mentioned directly (precision
   symbol, DataTypeSymbol), and everything else as an opaque payload.  Interface objects are aobj
   with a payload only. *)

Record world := { hs : N -> sym; ho : N -> aobj }.

(* --------------------------------------------------------------- helpers *)
(* SymbolTable._normalize: table keys are lower-cased names; a Symbol stores its name as written.
   A name code is  16 * <id of the lower-cased string> + <case variant> ; variant 0 is the
   lower-case spelling itself. *)
Definition norm (n : N) : N := N.shiftl (N.shiftr n 4) 4.

Definition memN (x : N) (l : list N) : bool := existsb (N.eqb x) l.
Definition syms (t : table) : list N := map snd t.
Definition keys (t : table) : list N := map fst t.
Definition lookup (k : N) (t : table) : option N :=
  match find (fun e => fst e =? k) t with Some e => Some (snd e) | None => None end.
Definition tab_syms (tab : option table) : list N := match tab with Some t => syms t | None => [] end.

Definition slot_syms (sl : slot) : list N :=
  match sl with NoSlot => [] | Rebound s => [s] | Plain s => [s] end.

Fixpoint ids (n : node) : list N :=
  match n with Node i _ _ _ ch => i :: flat_map ids ch end.

(* symbols owned (declared) by the scopes of a subtree, each with the table that holds it *)
Fixpoint owned_tabs (n : node) : list (N * table) :=
  match n with
  | Node _ _ _ tab ch =>
      (match tab with Some t => map (fun e => (snd e, t)) t | None => [] end)
      ++ flat_map owned_tabs ch
  end.
Definition owned (n : node) : list N := map fst (owned_tabs n).

Fixpoint tables (n : node) : list table :=
  match n with
  | Node _ _ _ tab ch => (match tab with Some t => [t] | None => [] end) ++ flat_map tables ch
  end.

(* pre-order list of the symbols held in re-bindable slots / in plain slots *)
Fixpoint refs (n : node) : list N :=
  match n with
  | Node _ _ sl _ ch => (match sl with Rebound s => [s] | _ => [] end) ++ flat_map refs ch
  end.
Fixpoint plains (n : node) : list N :=
  match n with
  | Node _ _ sl _ ch => (match sl with Plain s => [s] | _ => [] end) ++ flat_map plains ch
  end.

(* ------------------------------------------------------------------ copy *)
(* Node.copy of an expression held by a symbol (DataSymbol.copy: initial_value.copy()):
   new node objects, nothing re-bound. *)
Fixpoint shift_ids (off : N) (e : node) : node :=
  match e with Node i tag sl tab ch => Node (i + off) tag sl tab (map (shift_ids off) ch) end.

(* SymbolTable.deep_copy: `new_st.add(symbol.copy())` — key = name of the copied symbol *)
Definition deep_copy_table (h : N -> sym) (soff : N) (t : table) : table :=
  map (fun e => (norm (sname (h (snd e))), snd e + soff)) t.

(* <Symbol subclass>.copy() followed by the ImportInterface fix of deep_copy.
   `t'` is the new table.  A failed lookup is a KeyError in Python (see copy_raises); the model
   then leaves the container unchanged. *)
Definition copied_sym (h : N -> sym) (off ooff : N) (t' : table) (y : sym) : sym :=
  {| sname := sname y;
     styped := styped y;
     sdt := sdt y;                                        (* same datatype object *)
     sinit := option_map (shift_ids off) (sinit y);       (* copied, not re-bound *)
     sintf := match sintf y with
              | ILocal o => if styped y then ILocal o else ILocal (o + ooff)
              | IImport c => match lookup (norm (sname (h c))) t' with
                             | Some c' => IImport c'
                             | None => IImport c
                             end
              end;
     (* deep_copy, last pass: `new_st.lookup(routine.symbol.name)` for every member, AFTER all symbols
        have been added to the new table *)
     smem := map (fun m => match lookup (norm (sname (h m))) t' with Some m' => m' | None => m end)
                 (smem y) |}.

(* the re-binding loop of ScopingNode._refine_copy, for one scope (old table t, new table t');
   `h` gives `node.symbol.name` of the OLD symbol. *)
Definition rebind_slot (h : N -> sym) (t t' : table) (sl : slot) : slot :=
  match sl with
  | Rebound s =>
      if memN s (syms t)
      then match lookup (norm (sname (h s))) t' with Some s' => Rebound s' | None => Rebound s end
      else sl
  | _ => sl
  end.
Fixpoint rebind (h : N -> sym) (t t' : table) (n : node) : node :=
  match n with
  | Node i tag sl tab ch => Node i tag (rebind_slot h t t' sl) tab (map (rebind h t t') ch)
  end.

(* Node.copy / ScopingNode._refine_copy *)
Fixpoint copy (h : N -> sym) (off soff : N) (n : node) : node :=
  match n with
  | Node i tag sl tab ch =>
      let ch' := map (copy h off soff) ch in
      match tab with
      | None => Node (i + off) tag sl None ch'
      | Some t =>
          let t' := deep_copy_table h soff t in
          rebind h t t' (Node (i + off) tag sl (Some t') ch')
      end
  end.

(* the heaps after the copy *)
Definition copy_hs (h : N -> sym) (off soff ooff : N) (n : node) : N -> sym :=
  fun x =>
    match find (fun p => fst p + soff =? x) (owned_tabs n) with
    | Some (s, t) => copied_sym h off ooff (deep_copy_table h soff t) (h s)
    | None => h x
    end.
Definition copy_ho (g : N -> aobj) (ooff : N) : N -> aobj :=
  fun x => if ooff <=? x then g (x - ooff) else g x.
Definition copy_world (W : world) (off soff ooff : N) (n : node) : world :=
  {| hs := copy_hs (hs W) off soff ooff n; ho := copy_ho (ho W) ooff |}.

(* deep_copy raises KeyError when an imported symbol's container is not in the same table *)
Definition copy_raises (h : N -> sym) (n : node) : bool :=
  existsb (fun p => match sintf (h (fst p)) with
                    | IImport c => match lookup (norm (sname (h c))) (deep_copy_table h 0 (snd p)) with
                                   | Some _ => false | None => true end
                    | ILocal _ => false
                    end
                    || existsb (fun m => match lookup (norm (sname (h m))) (deep_copy_table h 0 (snd p)) with
                                         | Some _ => false | None => true end) (smem (h (fst p))))
          (owned_tabs n).

(* --------------------------------------------------------- written form *)
(* id-free token stream: node ids and symbol ids never appear, symbols appear by NAME *)
Definition wslot (h : N -> sym) (sl : slot) : list N :=
  match sl with NoSlot => [0] | Rebound s => [1; sname (h s)] | Plain s => [2; sname (h s)] end.

Fixpoint wexpr (h : N -> sym) (e : node) : list N :=
  match e with
  | Node _ tag sl _ ch => [10; tag] ++ wslot h sl ++ flat_map (wexpr h) ch ++ [11]
  end.

Definition wobj (W : world) (o : N) : list N :=
  let a := ho W o in
  [12] ++ flat_map (wexpr (hs W)) (obounds a) ++ [13]
       ++ map (fun s => sname (hs W s)) (osyms a) ++ [14; opay a].

Definition wintf (W : world) (i : intf) : list N :=
  match i with ILocal o => 15 :: wobj W o | IImport c => [16; sname (hs W c)] end.

Definition winit (W : world) (e : option node) : list N :=
  match e with None => [21] | Some e => 22 :: wexpr (hs W) e end.

Definition wmem (W : world) (l : list N) : list N := 23 :: map (fun m => sname (hs W m)) l.

Definition wdecl (W : world) (e : N * N) : list N :=
  let y := hs W (snd e) in
  [20; fst e; sname y; if styped y then 1 else 0]
    ++ wobj W (sdt y) ++ winit W (sinit y) ++ wintf W (sintf y) ++ wmem W (smem y).

Definition wtab (W : world) (tab : option table) : list N :=
  match tab with None => [30] | Some t => 31 :: flat_map (wdecl W) t ++ [32] end.

Fixpoint write (W : world) (n : node) : list N :=
  match n with
  | Node _ tag sl tab ch =>
      [10; tag] ++ wslot (hs W) sl ++ wtab W tab ++ flat_map (write W) ch ++ [11]
  end.

(* ------------------------------------ what `write` reads (its support) *)
Fixpoint expr_syms (e : node) : list N :=
  match e with Node _ _ sl _ ch => slot_syms sl ++ flat_map expr_syms ch end.
Definition obj_syms (W : world) (o : N) : list N :=
  flat_map expr_syms (obounds (ho W o)) ++ osyms (ho W o).
Definition intf_syms (W : world) (i : intf) : list N :=
  match i with ILocal o => obj_syms W o | IImport c => [c] end.
Definition intf_objs (i : intf) : list N := match i with ILocal o => [o] | IImport _ => [] end.
Definition init_syms (e : option node) : list N :=
  match e with Some e => expr_syms e | None => [] end.

(* symbols mentioned by the attributes of symbol s that copy does NOT re-bind *)
Definition attr_syms (W : world) (s : N) : list N :=
  let y := hs W s in
  obj_syms W (sdt y) ++ init_syms (sinit y)
  ++ match sintf y with ILocal o => obj_syms W o | IImport _ => [] end.

Definition sym_sup (W : world) (s : N) : list N :=
  let y := hs W s in
  s :: obj_syms W (sdt y) ++ init_syms (sinit y) ++ intf_syms W (sintf y) ++ smem y.
Definition sym_objs (W : world) (s : N) : list N :=
  let y := hs W s in sdt y :: intf_objs (sintf y).

Fixpoint ssup (W : world) (n : node) : list N :=
  match n with
  | Node _ _ sl tab ch =>
      slot_syms sl ++ flat_map (sym_sup W) (tab_syms tab) ++ flat_map (ssup W) ch
  end.
Fixpoint osup (W : world) (n : node) : list N :=
  match n with
  | Node _ _ _ tab ch => flat_map (sym_objs W) (tab_syms tab) ++ flat_map (osup W) ch
  end.

(* ----------------------------------------------------------------- edits *)
(* A world with two trees.  Mutation of a Python object = the same change at every occurrence of
   its identity, in BOTH trees (a node id / symbol id / object id names one object). *)
Record state := { sw : world; sa : node; sb : node }.

Definition upd {A} (f : N -> A) (k : N) (v : A) : N -> A := fun x => if x =? k then v else f x.

Definition set_name (y : sym) (nm : N) : sym :=
  {| sname := nm; styped := styped y; sdt := sdt y; sinit := sinit y; sintf := sintf y; smem := smem y |}.

(* SymbolTable.rename_symbol (remove + add): in every table that holds s the entry of s is deleted
   and re-inserted AT THE END under the new key *)
Definition rename_tab (s nm : N) (t : table) : table :=
  if memN s (syms t) then filter (fun e => negb (snd e =? s)) t ++ [(norm nm, s)] else t.
Fixpoint rename_tree (s nm : N) (n : node) : node :=
  match n with
  | Node i tag sl tab ch =>
      Node i tag sl (option_map (rename_tab s nm) tab) (map (rename_tree s nm) ch)
  end.

(* new_symbol / add on the table of the scoping node with id k *)
Fixpoint add_sym_tree (k key s : N) (n : node) : node :=
  match n with
  | Node i tag sl tab ch =>
      Node i tag sl
           (if i =? k then match tab with Some t => Some (t ++ [(key, s)]) | None => None end else tab)
           (map (add_sym_tree k key s) ch)
  end.

(* replace every node object with identity k by the tree m (covers: replace a child, detach a child,
   insert a child, change a literal, re-target a reference — m is the edited node) *)
Fixpoint replace_node (k : N) (m : node) (n : node) : node :=
  match n with
  | Node i tag sl tab ch =>
      if i =? k then m else Node i tag sl tab (map (replace_node k m) ch)
  end.

Inductive edit :=
| ERename (s nm : N)                 (* table.rename_symbol(s, nm) *)
| ENewSym (k s : N) (y : sym)        (* scope k: new symbol object s with attributes y *)
| ESetSym (s : N) (y : sym)          (* s.datatype = <object>, s.initial_value = e, s.interface = <object> *)
| ESetObj (o : N) (a : aobj)         (* define object o (fresh object, or IN-PLACE mutation) *)
| EReplace (k : N) (m : node).       (* structural / attribute edit of node k *)

Definition apply_edit (e : edit) (st : state) : state :=
  let W := sw st in
  match e with
  | ERename s nm =>
      {| sw := {| hs := upd (hs W) s (set_name (hs W s) nm); ho := ho W |};
         sa := rename_tree s nm (sa st); sb := rename_tree s nm (sb st) |}
  | ENewSym k s y =>
      {| sw := {| hs := upd (hs W) s y; ho := ho W |};
         sa := add_sym_tree k (norm (sname y)) s (sa st); sb := add_sym_tree k (norm (sname y)) s (sb st) |}
  | ESetSym s y =>
      {| sw := {| hs := upd (hs W) s (set_name y (sname (hs W s))); ho := ho W |};
         sa := sa st; sb := sb st |}
  | ESetObj o a =>
      {| sw := {| hs := hs W; ho := upd (ho W) o a |}; sa := sa st; sb := sb st |}
  | EReplace k m =>
      {| sw := W; sa := replace_node k m (sa st); sb := replace_node k m (sb st) |}
  end.

Fixpoint run (es : list edit) (st : state) : state :=
  match es with [] => st | e :: r => run r (apply_edit e st) end.

Definition swap (st : state) : state := {| sw := sw st; sa := sb st; sb := sa st |}.

(* ---------------------------------------------- executable checks (harness) *)
Definition slot_eqb (a b : slot) : bool :=
  match a, b with
  | NoSlot, NoSlot => true
  | Rebound x, Rebound y => x =? y
  | Plain x, Plain y => x =? y
  | _, _ => false
  end.
Definition pair_eqb (a b : N * N) : bool := (fst a =? fst b) && (snd a =? snd b).
Fixpoint list_eqb {A} (eqb : A -> A -> bool) (a b : list A) : bool :=
  match a, b with
  | [], [] => true
  | x :: a', y :: b' => eqb x y && list_eqb eqb a' b'
  | _, _ => false
  end.
Definition opt_eqb {A} (eqb : A -> A -> bool) (a b : option A) : bool :=
  match a, b with None, None => true | Some x, Some y => eqb x y | _, _ => false end.

Fixpoint node_eqb (a b : node) : bool :=
  match a, b with
  | Node i t s tb ch, Node i' t' s' tb' ch' =>
      (i =? i') && (t =? t') && slot_eqb s s' && opt_eqb (list_eqb pair_eqb) tb tb'
      && (fix go (l l' : list node) : bool :=
            match l, l' with
            | [], [] => true
            | x :: r, y :: r' => node_eqb x y && go r r'
            | _, _ => false
            end) ch ch'
  end.
Definition intf_eqb (a b : intf) : bool :=
  match a, b with
  | ILocal x, ILocal y => x =? y
  | IImport x, IImport y => x =? y
  | _, _ => false
  end.
Definition sym_eqb (a b : sym) : bool :=
  (sname a =? sname b) && Bool.eqb (styped a) (styped b) && (sdt a =? sdt b)
  && opt_eqb node_eqb (sinit a) (sinit b) && intf_eqb (sintf a) (sintf b)
  && list_eqb N.eqb (smem a) (smem b).
Definition aobj_eqb (a b : aobj) : bool :=
  list_eqb node_eqb (obounds a) (obounds b) && list_eqb N.eqb (osyms a) (osyms b)
  && (opay a =? opay b).

Definition dsym : sym := {| sname := 0; styped := false; sdt := 0; sinit := None; sintf := ILocal 0; smem := [] |}.
Definition dobj : aobj := {| obounds := []; osyms := []; opay := 0 |}.
Definition heap_of {A} (d : A) (l : list (N * A)) : N -> A :=
  fun x => match find (fun p => fst p =? x) l with Some p => snd p | None => d end.
Definition mkworld (ls : list (N * sym)) (lo : list (N * aobj)) : world :=
  {| hs := heap_of dsym ls; ho := heap_of dobj lo |}.

(* the sufficient condition of the independence theorem, as a boolean:
   no symbol of the copied scopes is mentioned by a literal's precision, by the datatype /
   interface objects or by the initial value of a symbol of the copied scopes *)
Definition safe_b (W : world) (n : node) : bool :=
  forallb (fun s => negb (memN s (owned n))) (plains n ++ flat_map (attr_syms W) (owned n)).

(* boolean forms of the hypotheses of the theorems (soundness: C15/Witness.v) *)
Fixpoint nodupb (l : list N) : bool :=
  match l with [] => true | x :: r => negb (memN x r) && nodupb r end.
Definition tab_wf_b (h : N -> sym) (t : table) : bool :=
  nodupb (keys t) && forallb (fun e => fst e =? norm (sname (h (snd e)))) t.
Definition imports_local_b (h : N -> sym) (t : table) : bool :=
  forallb (fun s => match sintf (h s) with IImport c => memN c (syms t) | ILocal _ => true end
                    && forallb (fun m => memN m (syms t)) (smem (h s))) (syms t).
Definition wf_b (W : world) (off soff ooff : N) (n : node) : bool :=
  forallb (tab_wf_b (hs W)) (tables n) && forallb (imports_local_b (hs W)) (tables n)
  && nodupb (owned n)
  && forallb (fun i => i <? off) (ids n) && forallb (fun s => s <? soff) (ssup W n)
  && forallb (fun o => o <? ooff) (osup W n).
Fixpoint wsc_b (n : node) : bool :=
  match n with
  | Node i tag sl tab ch =>
      let O := owned (Node i tag sl tab ch) in
      (match sl with Rebound s => implb (memN s O) (memN s (tab_syms tab)) | _ => true end)
      && forallb (fun c => forallb (fun s => implb (memN s O) (memN s (owned c) || memN s (tab_syms tab)))
                                   (refs c)) ch
      && forallb wsc_b ch
  end.

(* one correspondence case: the world and subtree as serialised from the implementation, the ids the
   harness gave to the new objects, and what the implementation's copy looked like *)
Record case := {
  c_syms : list (N * sym); c_objs : list (N * aobj); c_root : node;
  c_off : N; c_soff : N; c_ooff : N;
  c_copy : node;                         (* observed copy *)
  c_csyms : list (N * sym);              (* observed symbols of the copy's tables *)
  c_cobjs : list (N * aobj);             (* observed new interface objects *)
  c_safe : bool;                         (* harness-side evaluation of the safe condition *)
  c_hyps : bool;                         (* harness expects the theorems' hypotheses (wf, wsc) to hold *)
  c_text_equal : bool                    (* implementation: writer text of copy = text of original *)
}.

(* exact agreement of the implementation's copy with the model's *)
Definition agrees (c : case) : bool :=
  let W := mkworld (c_syms c) (c_objs c) in
  let n := c_root c in
  let W' := copy_world W (c_off c) (c_soff c) (c_ooff c) n in
  node_eqb (copy (hs W) (c_off c) (c_soff c) n) (c_copy c)
  && forallb (fun p => sym_eqb (hs W' (fst p)) (snd p)) (c_csyms c)
  && forallb (fun p => aobj_eqb (ho W' (fst p)) (snd p)) (c_cobjs c)
  && Bool.eqb (safe_b W n) (c_safe c)
  && Bool.eqb (wf_b W (c_off c) (c_soff c) (c_ooff c) n && wsc_b n) (c_hyps c)
  && negb (copy_raises (hs W) n).

(* one-directional correspondence: the implementation may be STRICTER than the model — where the
   model keeps a symbol of the copied scopes (un-re-bound mention) the implementation may use the
   copy's own symbol; where the model shares an object the implementation may hold a new object
   (named o + ooff by the harness) with corresponding content.  Never the other way round. *)
Section Refines.
  Variables (O : list N) (soff ooff : N) (W' : world) (cobjs : list (N * aobj)).
  Definition sym_ok (m o : N) : bool := (m =? o) || (memN m O && (o =? m + soff)).
  Definition slot_ok (m o : slot) : bool :=
    match m, o with
    | NoSlot, NoSlot => true
    | Rebound a, Rebound b => sym_ok a b
    | Plain a, Plain b => sym_ok a b
    | _, _ => false
    end.
  Fixpoint node_ok (m o : node) : bool :=
    match m, o with
    | Node i t s tb ch, Node i' t' s' tb' ch' =>
        (i =? i') && (t =? t') && slot_ok s s' && opt_eqb (list_eqb pair_eqb) tb tb'
        && (fix go (l l' : list node) : bool :=
              match l, l' with
              | [], [] => true
              | x :: r, y :: r' => node_ok x y && go r r'
              | _, _ => false
              end) ch ch'
    end.
  (* expression held by a new object: node identities are not compared *)
  Fixpoint expr_ok (m o : node) : bool :=
    match m, o with
    | Node _ t s _ ch, Node _ t' s' _ ch' =>
        (t =? t') && slot_ok s s'
        && (fix go (l l' : list node) : bool :=
              match l, l' with
              | [], [] => true
              | x :: r, y :: r' => expr_ok x y && go r r'
              | _, _ => false
              end) ch ch'
    end.
  Definition aobj_ok (m o : aobj) : bool :=
    list_eqb expr_ok (obounds m) (obounds o) && list_eqb sym_ok (osyms m) (osyms o)
    && (opay m =? opay o).
  Definition content_ok (m o : N) : bool :=
    match find (fun p => fst p =? o) cobjs with
    | Some p => aobj_ok (ho W' m) (snd p)
    | None => false
    end.
  Definition obj_ok (m o : N) : bool :=
    if m =? o then (if ooff <=? o then content_ok m o else true)
    else (o =? m + ooff) && content_ok m o.
  Definition intf_ok (m o : intf) : bool :=
    match m, o with
    | ILocal a, ILocal b => obj_ok a b
    | IImport a, IImport b => sym_ok a b
    | _, _ => false
    end.
  Definition symrec_ok (m o : sym) : bool :=
    (sname m =? sname o) && Bool.eqb (styped m) (styped o) && obj_ok (sdt m) (sdt o)
    && opt_eqb node_ok (sinit m) (sinit o) && intf_ok (sintf m) (sintf o)
    && list_eqb sym_ok (smem m) (smem o).
End Refines.

Definition refines (c : case) : bool :=
  let W := mkworld (c_syms c) (c_objs c) in
  let n := c_root c in
  let W' := copy_world W (c_off c) (c_soff c) (c_ooff c) n in
  let O := owned n in
  node_ok O (c_soff c) (copy (hs W) (c_off c) (c_soff c) n) (c_copy c)
  && forallb (fun p => symrec_ok O (c_soff c) (c_ooff c) W' (c_cobjs c) (hs W' (fst p)) (snd p)) (c_csyms c)
  && Bool.eqb (safe_b W n) (c_safe c)
  && Bool.eqb (wf_b W (c_off c) (c_soff c) (c_ooff c) n && wsc_b n) (c_hyps c)
  && negb (copy_raises (hs W) n).
