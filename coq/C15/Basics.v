(* C15 — basic lemmas: induction on nodes, lists, lookup, heaps after the copy. *)
From Coq Require Import List NArith Bool Lia.
Import ListNotations.
From PV Require Import C15.Model.
Open Scope N_scope.

(* ------------------------------------------------------ induction on node *)
Section NodeInd.
  Variable P : node -> Prop.
  Hypothesis H : forall i tag sl tab ch, Forall P ch -> P (Node i tag sl tab ch).
  Fixpoint node_ind' (n : node) : P n :=
    match n with
    | Node i tag sl tab ch =>
        H i tag sl tab ch
          ((fix go (l : list node) : Forall P l :=
              match l with
              | [] => Forall_nil _
              | x :: r => Forall_cons _ (node_ind' x) (go r)
              end) ch)
    end.
End NodeInd.

(* ------------------------------------------------------------ list lemmas *)
Lemma memN_true : forall x l, memN x l = true <-> In x l.
Proof.
  intros x l. unfold memN. rewrite existsb_exists. split.
  - intros [y [Hy E]]. apply N.eqb_eq in E. subst. exact Hy.
  - intros Hx. exists x. split; [exact Hx | apply N.eqb_refl].
Qed.
Lemma memN_false : forall x l, memN x l = false <-> ~ In x l.
Proof.
  intros x l. rewrite <- memN_true. destruct (memN x l); split; intro Hx; congruence.
Qed.

Lemma flat_map_map_Forall {A B C} (f : B -> list C) (f' : A -> list C) (g : A -> B) (l : list A) :
  Forall (fun x => f (g x) = f' x) l -> flat_map f (map g l) = flat_map f' l.
Proof.
  induction 1 as [|x r Hx _ IH]; simpl; [reflexivity|]. rewrite Hx, IH. reflexivity.
Qed.
Lemma flat_map_Forall_ext {A C} (f f' : A -> list C) (l : list A) :
  Forall (fun x => f x = f' x) l -> flat_map f l = flat_map f' l.
Proof.
  induction 1 as [|x r Hx _ IH]; simpl; [reflexivity|]. rewrite Hx, IH. reflexivity.
Qed.
Lemma map_Forall_ext {A C} (f f' : A -> C) (l : list A) :
  Forall (fun x => f x = f' x) l -> map f l = map f' l.
Proof.
  induction 1 as [|x r Hx _ IH]; simpl; [reflexivity|]. rewrite Hx, IH. reflexivity.
Qed.
Lemma Forall_flat_map_in {A B} (P : B -> Prop) (f : A -> list B) (l : list A) :
  Forall P (flat_map f l) <-> (forall x, In x l -> Forall P (f x)).
Proof.
  induction l as [|a r IH]; simpl.
  - split; intros; [contradiction | constructor].
  - rewrite Forall_app, IH. split.
    + intros [Ha Hr] x [E|Hx]; [subst; exact Ha | apply Hr; exact Hx].
    + intros Hall. split; [apply Hall; left; reflexivity | intros x Hx; apply Hall; right; exact Hx].
Qed.
Lemma Forall_impl_in {A} (P Q : A -> Prop) (l : list A) :
  (forall x, In x l -> P x -> Q x) -> Forall P l -> Forall Q l.
Proof.
  intros Himp Hl. rewrite Forall_forall in *. intros x Hx. apply Himp; [exact Hx | apply Hl; exact Hx].
Qed.
Lemma Forall_and_in {A} (P : A -> Prop) (l : list A) :
  (forall x, In x l -> P x) -> Forall P l.
Proof. intro Hall. apply Forall_forall. exact Hall. Qed.

Lemma find_none_all {A} (f : A -> bool) (l : list A) :
  (forall x, In x l -> f x = false) -> find f l = None.
Proof.
  induction l as [|a r IH]; simpl; intro Hall; [reflexivity|].
  rewrite (Hall a (or_introl eq_refl)). apply IH. intros x Hx. apply Hall. right. exact Hx.
Qed.

(* -------------------------------------------- structure of owned/ids/... *)
Lemma owned_node : forall i tag sl tab ch,
  owned (Node i tag sl tab ch) = tab_syms tab ++ flat_map owned ch.
Proof.
  intros. unfold owned. simpl. rewrite map_app. f_equal.
  - destruct tab as [t|]; simpl; [|reflexivity]. unfold syms. rewrite map_map. reflexivity.
  - induction ch as [|c r IH]; simpl; [reflexivity|]. rewrite map_app, IH. reflexivity.
Qed.

Lemma owned_tabs_in : forall n t s, In t (tables n) -> In s (syms t) -> In (s, t) (owned_tabs n).
Proof.
  intro n. induction n as [i tag sl tab ch IH] using node_ind'. intros t s Ht Hs. simpl in *.
  apply in_app_or in Ht as [Ht|Ht]; apply in_or_app.
  - left. destruct tab as [t0|]; simpl in Ht; [|contradiction]. destruct Ht as [E|[]]. subst t0.
    unfold syms in Hs. apply in_map_iff in Hs as [e [E He]]. apply in_map_iff. exists e. subst s. auto.
  - right. apply in_flat_map in Ht as [c [Hc Ht]]. apply in_flat_map. exists c. split; [exact Hc|].
    rewrite Forall_forall in IH. apply IH; assumption.
Qed.

Lemma owned_tabs_inv : forall n s t, In (s, t) (owned_tabs n) -> In t (tables n) /\ In s (syms t).
Proof.
  intro n. induction n as [i tag sl tab ch IH] using node_ind'. intros s t Hst. simpl in *.
  apply in_app_or in Hst as [Hst|Hst].
  - destruct tab as [t0|]; simpl in Hst; [|contradiction].
    apply in_map_iff in Hst as [e [E He]]. inversion E; subst. split.
    + apply in_or_app. left. left. reflexivity.
    + unfold syms. apply in_map. exact He.
  - apply in_flat_map in Hst as [c [Hc Hst]]. rewrite Forall_forall in IH.
    destruct (IH c Hc s t Hst) as [H1 H2]. split; [|exact H2].
    apply in_or_app. right. apply in_flat_map. exists c. auto.
Qed.

Lemma tables_child : forall i tag sl tab ch c t,
  In c ch -> In t (tables c) -> In t (tables (Node i tag sl tab ch)).
Proof.
  intros. simpl. apply in_or_app. right. apply in_flat_map. exists c. auto.
Qed.
Lemma owned_child : forall i tag sl tab ch c s,
  In c ch -> In s (owned c) -> In s (owned (Node i tag sl tab ch)).
Proof.
  intros. rewrite owned_node. apply in_or_app. right. apply in_flat_map. exists c. auto.
Qed.

(* ----------------------------------------------------------------- lookup *)
Definition tab_wf (h : N -> sym) (t : table) : Prop :=
  NoDup (keys t) /\ Forall (fun e => fst e = norm (sname (h (snd e)))) t.
(* an imported symbol's container symbol is declared in the same table (what the frontend builds) *)
Definition imports_local (h : N -> sym) (t : table) : Prop :=
  (forall s c, In s (syms t) -> sintf (h s) = IImport c -> In c (syms t))
  (* and the member routines of a generic interface are declared in the same table *)
  /\ (forall s m, In s (syms t) -> In m (smem (h s)) -> In m (syms t)).

Lemma lookup_deep_copy : forall h soff t s,
  tab_wf h t -> In s (syms t) ->
  lookup (norm (sname (h s))) (deep_copy_table h soff t) = Some (s + soff).
Proof.
  intros h soff t. induction t as [|[k s0] r IH]; intros s [Hnd Hk] Hs; simpl in *; [contradiction|].
  unfold lookup. simpl.
  inversion Hnd as [|? ? Hnotin Hnd']; subst. inversion Hk as [|? ? Hk0 Hk']; subst. simpl in Hk0.
  destruct (norm (sname (h s0)) =? norm (sname (h s))) eqn:E.
  - destruct Hs as [Hs|Hs]; [subst; reflexivity|]. exfalso. apply N.eqb_eq in E.
    apply Hnotin. unfold syms in Hs. apply in_map_iff in Hs as [e [E1 He]].
    unfold keys. apply in_map_iff. exists e. split; [|exact He].
    rewrite Forall_forall in Hk'. rewrite (Hk' e He), E1, Hk0. symmetry. exact E.
  - destruct Hs as [Hs|Hs]; [subst; rewrite N.eqb_refl in E; discriminate|].
    specialize (IH s (conj Hnd' Hk') Hs). unfold lookup in IH. exact IH.
Qed.

Lemma syms_deep_copy : forall h soff t, syms (deep_copy_table h soff t) = map (fun s => s + soff) (syms t).
Proof. intros. unfold syms, deep_copy_table. rewrite !map_map. reflexivity. Qed.

(* ------------------------------------------------- the heaps after a copy *)
Lemma copy_hs_old : forall h off soff ooff n x, x < soff -> copy_hs h off soff ooff n x = h x.
Proof.
  intros. unfold copy_hs. rewrite find_none_all; [reflexivity|].
  intros p _. apply N.eqb_neq. lia.
Qed.

Lemma find_unique_fst : forall (l : list (N * table)) soff s t,
  NoDup (map fst l) -> In (s, t) l -> find (fun p => fst p + soff =? s + soff) l = Some (s, t).
Proof.
  induction l as [|[s0 t0] r IH]; intros soff s t Hnd Hin; simpl in *; [contradiction|].
  inversion Hnd as [|? ? Hnotin Hnd']; subst.
  destruct (s0 + soff =? s + soff) eqn:E.
  - apply N.eqb_eq in E. assert (s0 = s) by lia. subst s0.
    destruct Hin as [Hin|Hin]; [congruence|]. exfalso. apply Hnotin.
    apply in_map_iff. exists (s, t). auto.
  - destruct Hin as [Hin|Hin]; [inversion Hin; subst; rewrite N.eqb_refl in E; discriminate|].
    apply IH; assumption.
Qed.

Lemma copy_hs_new : forall h off soff ooff n t s,
  NoDup (owned n) -> In t (tables n) -> In s (syms t) ->
  copy_hs h off soff ooff n (s + soff) = copied_sym h off ooff (deep_copy_table h soff t) (h s).
Proof.
  intros. unfold copy_hs. rewrite (find_unique_fst (owned_tabs n) soff s t); [reflexivity|exact H|].
  apply owned_tabs_in; assumption.
Qed.

Lemma copy_ho_old : forall g ooff o, o < ooff -> copy_ho g ooff o = g o.
Proof.
  intros. unfold copy_ho. destruct (ooff <=? o) eqn:E; [apply N.leb_le in E; lia | reflexivity].
Qed.
Lemma copy_ho_new : forall g ooff o, copy_ho g ooff (o + ooff) = g o.
Proof.
  intros. unfold copy_ho. destruct (ooff <=? o + ooff) eqn:E.
  - f_equal. lia.
  - apply N.leb_gt in E. lia.
Qed.
