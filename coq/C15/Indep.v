(* C15 — independence of original and copy under edits. *)
From Coq Require Import List NArith Bool Lia.
Import ListNotations.
From PV Require Import C15.Model C15.Basics C15.CopyProofs.
Open Scope N_scope.

(* ---------------------------------- `write` only reads its support *)
Definition agree (W W' : world) (n : node) : Prop :=
  (forall s, In s (ssup W n) -> hs W' s = hs W s) /\ (forall o, In o (osup W n) -> ho W' o = ho W o).

Lemma sym_ext : forall W W' s,
  (forall x, In x (sym_sup W s) -> hs W' x = hs W x) ->
  (forall o, In o (sym_objs W s) -> ho W' o = ho W o) ->
  sym_sup W' s = sym_sup W s /\ sym_objs W' s = sym_objs W s /\
  forall k, wdecl W' (k, s) = wdecl W (k, s).
Proof.
  intros W W' s Hs Ho.
  assert (Ey : hs W' s = hs W s) by (apply Hs; unfold sym_sup; left; reflexivity).
  assert (Hd : ho W' (sdt (hs W s)) = ho W (sdt (hs W s))) by (apply Ho; unfold sym_objs; left; reflexivity).
  assert (Hn : forall x, In x (sym_sup W s) -> sname (hs W' x) = sname (hs W x))
    by (intros x Hx; rewrite Hs; auto).
  assert (Hi : intf_syms W' (sintf (hs W s)) = intf_syms W (sintf (hs W s))
               /\ wintf W' (sintf (hs W s)) = wintf W (sintf (hs W s))).
  { destruct (sintf (hs W s)) as [o|c] eqn:Ei.
    - assert (Hoo : ho W' o = ho W o).
      { apply Ho. unfold sym_objs. rewrite Ei. simpl. right. left. reflexivity. }
      split; simpl.
      + apply obj_syms_ext. exact Hoo.
      + f_equal. apply wobj_ext; [exact Hoo|]. intros x Hx. apply Hn. unfold sym_sup. right.
        apply in_or_app. right. apply in_or_app. right. apply in_or_app. left. rewrite Ei. simpl. exact Hx.
    - split; simpl; [reflexivity|]. rewrite Hn; [reflexivity|]. unfold sym_sup. right.
      apply in_or_app. right. apply in_or_app. right. apply in_or_app. left. rewrite Ei. simpl. left. reflexivity. }
  destruct Hi as [Hi1 Hi2].
  split; [|split].
  - unfold sym_sup. rewrite Ey. rewrite (obj_syms_ext W W' _ _ Hd). rewrite Hi1. reflexivity.
  - unfold sym_objs. rewrite Ey. reflexivity.
  - intro k. unfold wdecl. cbn [fst snd]. rewrite Ey.
    rewrite (wobj_ext W W' (sdt (hs W s)) (sdt (hs W s)) Hd).
    2:{ intros x Hx. apply Hn. unfold sym_sup. right. apply in_or_app. left. exact Hx. }
    rewrite Hi2.
    assert (Einit : winit W' (sinit (hs W s)) = winit W (sinit (hs W s))).
    { destruct (sinit (hs W s)) as [e|] eqn:Ee; simpl; [|reflexivity]. f_equal. apply wexpr_names.
      intros x Hx. apply Hn. unfold sym_sup. right. apply in_or_app. right. apply in_or_app. left.
      rewrite Ee. simpl. exact Hx. }
    rewrite Einit.
    assert (Emem : wmem W' (smem (hs W s)) = wmem W (smem (hs W s))).
    { unfold wmem. f_equal. apply map_Forall_ext. apply Forall_forall. intros m Hm. apply Hn.
      unfold sym_sup. right. apply in_or_app. right. apply in_or_app. right. apply in_or_app. right. exact Hm. }
    rewrite Emem. reflexivity.
Qed.

Lemma ext : forall W W' n, agree W W' n ->
  write W' n = write W n /\ ssup W' n = ssup W n /\ osup W' n = osup W n.
Proof.
  intros W W' n. induction n as [i tag sl tab ch IH] using node_ind'. intros [Hs Ho].
  assert (Hch : forall c, In c ch -> write W' c = write W c /\ ssup W' c = ssup W c /\ osup W' c = osup W c).
  { intros c Hc. rewrite Forall_forall in IH. apply IH; [exact Hc|]. split.
    - intros s Hin. apply Hs. simpl. apply in_or_app. right. apply in_or_app. right.
      apply in_flat_map. exists c. auto.
    - intros o Hin. apply Ho. simpl. apply in_or_app. right. apply in_flat_map. exists c. auto. }
  assert (Htab : forall s, In s (tab_syms tab) ->
            sym_sup W' s = sym_sup W s /\ sym_objs W' s = sym_objs W s /\
            forall k, wdecl W' (k, s) = wdecl W (k, s)).
  { intros s Hin. apply sym_ext.
    - intros x Hx. apply Hs. simpl. apply in_or_app. right. apply in_or_app. left.
      apply in_flat_map. exists s. auto.
    - intros o Hx. apply Ho. simpl. apply in_or_app. left. apply in_flat_map. exists s. auto. }
  assert (E1 : flat_map (write W') ch = flat_map (write W) ch).
  { apply flat_map_Forall_ext. apply Forall_forall. intros c Hc. apply (Hch c Hc). }
  assert (E2 : flat_map (ssup W') ch = flat_map (ssup W) ch).
  { apply flat_map_Forall_ext. apply Forall_forall. intros c Hc. apply (Hch c Hc). }
  assert (E3 : flat_map (osup W') ch = flat_map (osup W) ch).
  { apply flat_map_Forall_ext. apply Forall_forall. intros c Hc. apply (Hch c Hc). }
  assert (E4 : flat_map (sym_sup W') (tab_syms tab) = flat_map (sym_sup W) (tab_syms tab)).
  { apply flat_map_Forall_ext. apply Forall_forall. intros s Hin. apply (Htab s Hin). }
  assert (E5 : flat_map (sym_objs W') (tab_syms tab) = flat_map (sym_objs W) (tab_syms tab)).
  { apply flat_map_Forall_ext. apply Forall_forall. intros s Hin. apply (Htab s Hin). }
  assert (E6 : wtab W' tab = wtab W tab).
  { destruct tab as [t|]; simpl; [|reflexivity]. f_equal. f_equal.
    apply flat_map_Forall_ext. apply Forall_forall. intros [k s] Hin. apply Htab.
    simpl. unfold syms. apply in_map_iff. exists (k, s). auto. }
  assert (E7 : wslot (hs W') sl = wslot (hs W) sl).
  { apply wslot_names. intros s Hin. rewrite Hs; [reflexivity|]. simpl. apply in_or_app. left. exact Hin. }
  simpl. rewrite E1, E2, E3, E4, E5, E6, E7. auto.
Qed.

(* ------------------------------------------- the three parts of ssup *)
Lemma ssup_split : forall W n x,
  In x (ssup W n) <-> In x (refs n) \/ In x (plains n) \/ In x (flat_map (sym_sup W) (owned n)).
Proof.
  intros W n. induction n as [i tag sl tab ch IH] using node_ind'. intro x.
  rewrite owned_node. simpl. rewrite flat_map_app. rewrite !in_app_iff.
  assert (Hch : In x (flat_map (ssup W) ch) <->
                In x (flat_map refs ch) \/ In x (flat_map plains ch)
                \/ In x (flat_map (sym_sup W) (flat_map owned ch))).
  { rewrite !in_flat_map. rewrite Forall_forall in IH. split.
    - intros [c [Hc Hx]]. apply (IH c Hc) in Hx as [Hx|[Hx|Hx]].
      + left. exists c. auto.
      + right. left. exists c. auto.
      + right. right. apply in_flat_map in Hx as [s [Hs Hx]]. exists s. split; [|exact Hx].
        apply in_flat_map. exists c. auto.
    - intros [[c [Hc Hx]]|[[c [Hc Hx]]|[s [Hs Hx]]]].
      + exists c. split; [exact Hc|]. apply (IH c Hc). left. exact Hx.
      + exists c. split; [exact Hc|]. apply (IH c Hc). right. left. exact Hx.
      + apply in_flat_map in Hs as [c [Hc Hs]]. exists c. split; [exact Hc|]. apply (IH c Hc).
        right. right. apply in_flat_map. exists s. auto. }
  rewrite Hch. destruct sl as [|s|s]; simpl; tauto.
Qed.

(* --------------------------------------------------- edits: tree lemmas *)
Lemma rename_tree_ids : forall s nm n, ids (rename_tree s nm n) = ids n.
Proof.
  intros s nm n. induction n as [i tag sl tab ch IH] using node_ind'. simpl. f_equal.
  apply flat_map_map_Forall. exact IH.
Qed.
Lemma rename_tab_syms : forall s nm t x, In x (syms (rename_tab s nm t)) -> In x (syms t).
Proof.
  intros s nm t x Hx. unfold rename_tab in Hx. destruct (memN s (syms t)) eqn:E; [|exact Hx].
  unfold syms in Hx. rewrite map_app in Hx. apply in_app_or in Hx as [Hx|Hx].
  - apply in_map_iff in Hx as [e [E1 He]]. apply filter_In in He as [He _].
    unfold syms. apply in_map_iff. exists e. auto.
  - simpl in Hx. destruct Hx as [Hx|[]]. subst x. apply memN_true. exact E.
Qed.
Lemma rename_tree_owned : forall s nm n x, In x (owned (rename_tree s nm n)) -> In x (owned n).
Proof.
  intros s nm n. induction n as [i tag sl tab ch IH] using node_ind'. intros x Hx. cbn [rename_tree] in Hx.
  rewrite owned_node in *. apply in_app_or in Hx as [Hx|Hx]; apply in_or_app.
  - left. destruct tab as [t|]; simpl in *; [eapply rename_tab_syms; exact Hx | contradiction].
  - right. apply in_flat_map in Hx as [c' [Hc' Hx]]. apply in_map_iff in Hc' as [c [E Hc]]. subst c'.
    rewrite Forall_forall in IH. apply in_flat_map. exists c. split; [exact Hc | apply IH; assumption].
Qed.
Lemma rename_tab_id : forall s nm t, ~ In s (syms t) -> rename_tab s nm t = t.
Proof.
  intros s nm t Hn. unfold rename_tab. rewrite (proj2 (memN_false s (syms t)) Hn). reflexivity.
Qed.
Lemma rename_tree_id : forall s nm n, ~ In s (owned n) -> rename_tree s nm n = n.
Proof.
  intros s nm n. induction n as [i tag sl tab ch IH] using node_ind'. intro Hn.
  rewrite owned_node in Hn. simpl. f_equal.
  - destruct tab as [t|]; simpl; [|reflexivity]. f_equal. apply rename_tab_id.
    intro Hin. apply Hn. apply in_or_app. left. exact Hin.
  - rewrite <- (map_id ch) at 2. apply map_Forall_ext. rewrite Forall_forall in *. intros c Hc.
    apply IH; [exact Hc|]. intro Hin. apply Hn. apply in_or_app. right. apply in_flat_map. exists c. auto.
Qed.

Lemma add_sym_ids : forall k key s n, ids (add_sym_tree k key s n) = ids n.
Proof.
  intros k key s n. induction n as [i tag sl tab ch IH] using node_ind'. simpl. f_equal.
  apply flat_map_map_Forall. exact IH.
Qed.
Lemma add_sym_id : forall k key s n, ~ In k (ids n) -> add_sym_tree k key s n = n.
Proof.
  intros k key s n. induction n as [i tag sl tab ch IH] using node_ind'. intro Hn. simpl in *.
  destruct (i =? k) eqn:E; [apply N.eqb_eq in E; exfalso; apply Hn; left; exact E|].
  f_equal. rewrite <- (map_id ch) at 2. apply map_Forall_ext. rewrite Forall_forall in *. intros c Hc.
  apply IH; [exact Hc|]. intro Hin. apply Hn. right. apply in_flat_map. exists c. auto.
Qed.
Lemma add_sym_owned : forall k key s n x,
  In x (owned (add_sym_tree k key s n)) -> In x (owned n) \/ x = s.
Proof.
  intros k key s n. induction n as [i tag sl tab ch IH] using node_ind'. intros x Hx.
  cbn [add_sym_tree] in Hx. rewrite owned_node in *. apply in_app_or in Hx as [Hx|Hx].
  - destruct (i =? k); [|left; apply in_or_app; left; exact Hx].
    destruct tab as [t|]; simpl in *; [|contradiction]. unfold syms in Hx. rewrite map_app in Hx.
    apply in_app_or in Hx as [Hx|Hx]; [left; apply in_or_app; left; exact Hx|].
    simpl in Hx. destruct Hx as [Hx|[]]. right. symmetry. exact Hx.
  - apply in_flat_map in Hx as [c' [Hc' Hx]]. apply in_map_iff in Hc' as [c [E Hc]]. subst c'.
    rewrite Forall_forall in IH. destruct (IH c Hc x Hx) as [H1|H1]; [|right; exact H1].
    left. apply in_or_app. right. apply in_flat_map. exists c. auto.
Qed.

Lemma replace_id : forall k m n, ~ In k (ids n) -> replace_node k m n = n.
Proof.
  intros k m n. induction n as [i tag sl tab ch IH] using node_ind'. intro Hn. simpl in *.
  destruct (i =? k) eqn:E; [apply N.eqb_eq in E; exfalso; apply Hn; left; exact E|].
  f_equal. rewrite <- (map_id ch) at 2. apply map_Forall_ext. rewrite Forall_forall in *. intros c Hc.
  apply IH; [exact Hc|]. intro Hin. apply Hn. right. apply in_flat_map. exists c. auto.
Qed.
Lemma replace_ids : forall k m n x, In x (ids (replace_node k m n)) -> In x (ids n) \/ In x (ids m).
Proof.
  intros k m n. induction n as [i tag sl tab ch IH] using node_ind'. intros x Hx. cbn [replace_node] in Hx.
  destruct (i =? k); [right; exact Hx|]. simpl in *. destruct Hx as [Hx|Hx]; [left; left; exact Hx|].
  apply in_flat_map in Hx as [c' [Hc' Hx]]. apply in_map_iff in Hc' as [c [E Hc]]. subst c'.
  rewrite Forall_forall in IH. destruct (IH c Hc x Hx) as [H1|H1]; [|right; exact H1].
  left. right. apply in_flat_map. exists c. auto.
Qed.
Lemma replace_owned : forall k m n x, In x (owned (replace_node k m n)) -> In x (owned n) \/ In x (owned m).
Proof.
  intros k m n. induction n as [i tag sl tab ch IH] using node_ind'. intros x Hx. cbn [replace_node] in Hx.
  destruct (i =? k); [right; exact Hx|]. rewrite owned_node in *. apply in_app_or in Hx as [Hx|Hx].
  - left. apply in_or_app. left. exact Hx.
  - apply in_flat_map in Hx as [c' [Hc' Hx]]. apply in_map_iff in Hc' as [c [E Hc]]. subst c'.
    rewrite Forall_forall in IH. destruct (IH c Hc x Hx) as [H1|H1]; [|right; exact H1].
    left. apply in_or_app. right. apply in_flat_map. exists c. auto.
Qed.

(* ----------------------------------------------------- edits: the step *)
(* side A = `sa`, the tree being edited; side B = `sb`, the tree that must not notice *)
Definition inv (st : state) : Prop :=
  (forall i, In i (ids (sa st)) -> ~ In i (ids (sb st)))
  /\ (forall s, In s (owned (sa st)) -> ~ In s (ssup (sw st) (sb st))).

(* an edit "on side A": it addresses node objects of A, symbols declared by A's scopes, and
   objects the other tree cannot reach (new objects in particular) *)
Definition valid (e : edit) (st : state) : Prop :=
  match e with
  | ERename s nm => In s (owned (sa st))
  | ENewSym k s y => In k (ids (sa st)) /\ ~ In s (ssup (sw st) (sb st))
  | ESetSym s y => In s (owned (sa st))
  | ESetObj o a => ~ In o (osup (sw st) (sb st))
  | EReplace k m => In k (ids (sa st))
                    /\ (forall i, In i (ids m) -> ~ In i (ids (sb st)))
                    /\ (forall s, In s (owned m) -> ~ In s (ssup (sw st) (sb st)))
  end.

Fixpoint valid_seq (es : list edit) (st : state) : Prop :=
  match es with [] => True | e :: r => valid e st /\ valid_seq r (apply_edit e st) end.

Lemma upd_other {A} (f : N -> A) k v x : x <> k -> upd f k v x = f x.
Proof. intro Hx. unfold upd. destruct (x =? k) eqn:E; [apply N.eqb_eq in E; contradiction | reflexivity]. Qed.

Lemma step : forall e st, inv st -> valid e st ->
  inv (apply_edit e st)
  /\ write (sw (apply_edit e st)) (sb (apply_edit e st)) = write (sw st) (sb st).
Proof.
  intros e [W A B] [Hids Hown] Hv. simpl in Hids, Hown.
  destruct e as [s nm|k s y|s y|o a|k m]; simpl in Hv; unfold apply_edit; cbn [sw sa sb].
  - (* rename *)
    assert (HsB : ~ In s (ssup W B)) by (apply Hown; exact Hv).
    assert (HB : rename_tree s nm B = B).
    { apply rename_tree_id. intro Hin. apply HsB. apply owned_in_ssup. exact Hin. }
    rewrite HB.
    set (W1 := {| hs := upd (hs W) s (set_name (hs W s) nm); ho := ho W |}).
    assert (Hag : agree W W1 B).
    { split; [|reflexivity]. intros x Hx. simpl. apply upd_other. intro E. subst x. contradiction. }
    destruct (ext W W1 B Hag) as [Ew [Es _]].
    split; [|exact Ew]. split; cbn [sw sa sb].
    + intros i Hi. rewrite rename_tree_ids in Hi. apply Hids. exact Hi.
    + intros x Hx. apply rename_tree_owned in Hx. rewrite Es. apply Hown. exact Hx.
  - (* new symbol *)
    destruct Hv as [Hk HsB].
    assert (HB : add_sym_tree k (norm (sname y)) s B = B) by (apply add_sym_id; apply Hids; exact Hk).
    rewrite HB.
    set (W1 := {| hs := upd (hs W) s y; ho := ho W |}).
    assert (Hag : agree W W1 B).
    { split; [|reflexivity]. intros x Hx. simpl. apply upd_other. intro E. subst x. contradiction. }
    destruct (ext W W1 B Hag) as [Ew [Es _]].
    split; [|exact Ew]. split; cbn [sw sa sb].
    + intros i Hi. rewrite add_sym_ids in Hi. apply Hids. exact Hi.
    + intros x Hx. rewrite Es. apply add_sym_owned in Hx as [Hx|Hx]; [apply Hown; exact Hx | subst x; exact HsB].
  - (* set attributes of a symbol *)
    assert (HsB : ~ In s (ssup W B)) by (apply Hown; exact Hv).
    set (W1 := {| hs := upd (hs W) s (set_name y (sname (hs W s))); ho := ho W |}).
    assert (Hag : agree W W1 B).
    { split; [|reflexivity]. intros x Hx. simpl. apply upd_other. intro E. subst x. contradiction. }
    destruct (ext W W1 B Hag) as [Ew [Es _]].
    split; [|exact Ew]. split; cbn [sw sa sb]; [exact Hids|].
    intros x Hx. rewrite Es. apply Hown. exact Hx.
  - (* define an object *)
    set (W1 := {| hs := hs W; ho := upd (ho W) o a |}).
    assert (Hag : agree W W1 B).
    { split; [reflexivity|]. intros x Hx. simpl. apply upd_other. intro E. subst x. contradiction. }
    destruct (ext W W1 B Hag) as [Ew [Es _]].
    split; [|exact Ew]. split; cbn [sw sa sb]; [exact Hids|].
    intros x Hx. rewrite Es. apply Hown. exact Hx.
  - (* replace a node *)
    destruct Hv as [Hk [Hmi Hms]].
    assert (HB : replace_node k m B = B) by (apply replace_id; apply Hids; exact Hk).
    rewrite HB. split; [|reflexivity]. split; cbn [sw sa sb].
    + intros i Hi. apply replace_ids in Hi as [Hi|Hi]; [apply Hids; exact Hi | apply Hmi; exact Hi].
    + intros x Hx. apply replace_owned in Hx as [Hx|Hx]; [apply Hown; exact Hx | apply Hms; exact Hx].
Qed.

Theorem edits_invisible : forall es st, inv st -> valid_seq es st ->
  write (sw (run es st)) (sb (run es st)) = write (sw st) (sb st).
Proof.
  induction es as [|e r IH]; intros st Hinv Hv; simpl; [reflexivity|].
  destruct Hv as [Hv Hr]. destruct (step e st Hinv Hv) as [Hinv' Hw].
  rewrite (IH _ Hinv' Hr). exact Hw.
Qed.

(* ------------------------------- the invariant holds right after a copy *)
(* sufficient condition: nothing that `copy` leaves un-re-bound mentions a symbol of the copied
   scopes — literal precisions, datatype objects (bounds, kind, type symbol), interface objects and
   initial values *)
Definition no_symbol_in_datatypes (W : world) (n : node) : Prop :=
  forall s, In s (plains n ++ flat_map (attr_syms W) (owned n)) -> ~ In s (owned n).

Lemma safe_b_spec : forall W n, safe_b W n = true <-> no_symbol_in_datatypes W n.
Proof.
  intros W n. unfold safe_b, no_symbol_in_datatypes. rewrite forallb_forall. split.
  - intros H s Hs. apply memN_false. specialize (H s Hs). destruct (memN s (owned n)); [discriminate|reflexivity].
  - intros H s Hs. rewrite (proj2 (memN_false s (owned n)) (H s Hs)). reflexivity.
Qed.

Section AfterCopy.
  Variables (W : world) (off soff ooff : N) (n : node).
  Hypothesis Hwf : wf W off soff ooff n.
  Let W' := copy_world W off soff ooff n.
  Let c := copy (hs W) off soff n.

  Lemma agree_orig : agree W W' n.
  Proof.
    destruct Hwf as [_ [_ [_ [_ [Hss Hso]]]]]. rewrite Forall_forall in Hss, Hso. split.
    - intros s Hs. unfold W'. simpl. apply copy_hs_old. apply Hss. exact Hs.
    - intros o Ho. unfold W'. simpl. apply copy_ho_old. apply Hso. exact Ho.
  Qed.

  (* copying does not change the written form of the original *)
  Lemma orig_unchanged : write W' n = write W n.
  Proof. apply (ext W W' n agree_orig). Qed.

  Lemma owned_lt : forall s, In s (owned n) -> s < soff.
  Proof.
    intros s Hs. destruct Hwf as [_ [_ [_ [_ [Hss _]]]]]. rewrite Forall_forall in Hss.
    apply Hss. apply owned_in_ssup. exact Hs.
  Qed.

  (* what the copy's text reads: new symbols, or old symbols that are not declared in the copied
     scopes unless a datatype / initial value / literal precision mentions them *)
  Lemma ssup_copy : wsc n -> forall x, In x (ssup W' c) ->
    soff <= x \/ (In x (refs n) /\ ~ In x (owned n)) \/ In x (plains n)
    \/ In x (flat_map (attr_syms W) (owned n)).
  Proof.
    intros Hwsc x Hx. apply ssup_split in Hx as [Hx|[Hx|Hx]].
    - (* re-bindable slots *)
      pose proof (copy_refs_local_ W off soff ooff n Hwf Hwsc) as HF. cbv zeta in HF.
      fold c in HF. fold W' in HF.
      assert (G : forall l l', Forall2 (fun s s' : N =>
                    (In s (owned n) -> s' = s + soff /\ In s' (owned c) /\ ~ In s' (owned n)
                                       /\ sname (hs W' s') = sname (hs W s))
                    /\ (~ In s (owned n) -> s' = s)) l l' ->
                  (forall s, In s l -> In s (refs n)) -> In x l' ->
                  soff <= x \/ (In x (refs n) /\ ~ In x (owned n))).
      { clear Hx HF. induction 1 as [|s s' r r' [H1 H2] _ IH]; intros Hsub Hin; [contradiction|].
        destruct Hin as [E|Hin].
        - subst s'. destruct (memN s (owned n)) eqn:Em.
          + apply memN_true in Em. destruct (H1 Em) as [E _]. left. lia.
          + apply memN_false in Em. rewrite (H2 Em). right. split; [apply Hsub; left; reflexivity | exact Em].
        - apply IH; [intros y Hy; apply Hsub; right; exact Hy | exact Hin]. }
      destruct (G _ _ HF (fun s H => H) Hx) as [G1|G1]; [left; exact G1 | right; left; exact G1].
    - right. right. left. unfold c in Hx. rewrite plains_copy in Hx. exact Hx.
    - (* declarations of the copy *)
      apply in_flat_map in Hx as [s' [Hs' Hx]]. unfold c in Hs'. rewrite owned_copy in Hs'.
      apply in_map_iff in Hs' as [s [E Hs]]. subst s'.
      destruct Hwf as [Htw [Himp [Hnd [_ [Hss Hso]]]]].
      assert (Hs0 := Hs). unfold owned in Hs0. apply in_map_iff in Hs0 as [[s0 t] [E Hin]].
      simpl in E. subst s0. destruct (owned_tabs_inv n s t Hin) as [Ht Hst].
      assert (Hnew : hs W' (s + soff) = copied_sym (hs W) off ooff (deep_copy_table (hs W) soff t) (hs W s)).
      { unfold W'. simpl. apply copy_hs_new; assumption. }
      assert (Hsup : Forall (fun y => y < soff) (sym_sup W s)).
      { apply Forall_forall. intros y Hy. rewrite Forall_forall in Hss. apply Hss.
        apply ssup_split. right. right. apply in_flat_map. exists s. auto. }
      assert (Hobj : Forall (fun o => o < ooff) (sym_objs W s)).
      { apply Forall_forall. intros o Ho. rewrite Forall_forall in Hso. apply Hso.
        clear -Ho Hs. revert Hs. induction n as [i tag sl tab ch IH] using node_ind'. intro Hs.
        rewrite owned_node in Hs. simpl. apply in_or_app. apply in_app_or in Hs as [Hs|Hs].
        - left. apply in_flat_map. exists s. auto.
        - right. apply in_flat_map in Hs as [c0 [Hc0 Hs]]. apply in_flat_map. exists c0. split; [exact Hc0|].
          rewrite Forall_forall in IH. apply IH; assumption. }
      unfold sym_sup in Hx. rewrite Hnew in Hx. unfold copied_sym in Hx. cbn [sname styped sdt sinit sintf] in Hx.
      unfold sym_sup in Hsup. apply Forall_cons_iff in Hsup as [_ Hsup]. rewrite !Forall_app in Hsup.
      destruct Hsup as [Hdt [Hinit [Hintf Hmem]]]. unfold sym_objs in Hobj. apply Forall_cons_iff in Hobj as [Hdo Hio].
      destruct Hx as [Hx|Hx]; [left; lia|].
      assert (Hattr : forall y, In y (attr_syms W s) -> In y (flat_map (attr_syms W) (owned n)))
        by (intros y Hy; apply in_flat_map; exists s; auto).
      apply in_app_or in Hx as [Hx|Hx].
      + (* datatype object: the same object *)
        right. right. right. apply Hattr. unfold attr_syms. apply in_or_app. left.
        rewrite (obj_syms_ext W W' (sdt (hs W s)) (sdt (hs W s))) in Hx; [exact Hx|].
        unfold W'. simpl. apply copy_ho_old. exact Hdo.
      + apply in_app_or in Hx as [Hx|Hx].
        * (* initial value: copied, not re-bound *)
          right. right. right. apply Hattr. unfold attr_syms. apply in_or_app. right. apply in_or_app. left.
          destruct (sinit (hs W s)) as [e|]; simpl in *; [|contradiction].
          rewrite expr_syms_shift in Hx. exact Hx.
        * apply in_app_or in Hx as [Hx|Hx].
          2:{ (* members of a generic interface: re-bound to the copy's own routine symbols *)
              apply in_map_iff in Hx as [m [Em Hm]]. rewrite Forall_forall in Htw, Himp.
              assert (Hc : In m (syms t)) by (apply (proj2 (Himp t Ht) s m Hst Hm)).
              rewrite (lookup_deep_copy (hs W) soff t m (Htw t Ht) Hc) in Em. left. lia. }
          (* interface *)
          destruct (sintf (hs W s)) as [o|cc] eqn:Ei.
          -- right. right. right. apply Hattr. unfold attr_syms. apply in_or_app. right. apply in_or_app. right.
             rewrite Ei. simpl in Hio. apply Forall_cons_iff in Hio as [Hoo _].
             destruct (styped (hs W s)); simpl in Hx.
             ++ rewrite (obj_syms_ext W W' o o) in Hx; [exact Hx|]. unfold W'. simpl. apply copy_ho_old. exact Hoo.
             ++ rewrite (obj_syms_ext W W' o (o + ooff)) in Hx; [exact Hx|]. unfold W'. simpl. apply copy_ho_new.
          -- (* import: the container was re-bound to the copy's own container symbol *)
             rewrite Forall_forall in Htw, Himp.
             assert (Hc : In cc (syms t)) by (apply (proj1 (Himp t Ht) s cc Hst Ei)).
             rewrite (lookup_deep_copy (hs W) soff t cc (Htw t Ht) Hc) in Hx. simpl in Hx.
             destruct Hx as [Hx|[]]. left. lia.
  Qed.

  Lemma inv_edit_original : wsc n -> no_symbol_in_datatypes W n ->
    inv {| sw := W'; sa := n; sb := c |}.
  Proof.
    intros Hwsc Hsafe. split; simpl.
    - intros i Hi. apply copy_disjoint_nodes_; [|exact Hi]. destruct Hwf as [_ [_ [_ [Hid _]]]]. exact Hid.
    - intros s Hs Hin. apply (ssup_copy Hwsc) in Hin as [H|[H|[H|H]]].
      + pose proof (owned_lt s Hs). lia.
      + destruct H as [_ H]. contradiction.
      + apply (Hsafe s); [apply in_or_app; left; exact H | exact Hs].
      + apply (Hsafe s); [apply in_or_app; right; exact H | exact Hs].
  Qed.

  Lemma inv_edit_copy : inv {| sw := W'; sa := c; sb := n |}.
  Proof.
    split; simpl.
    - intros i Hi Hn. apply (copy_disjoint_nodes_ (hs W) off soff n) with (i := i); [|exact Hn|exact Hi].
      destruct Hwf as [_ [_ [_ [Hid _]]]]. exact Hid.
    - intros s Hs Hin. unfold c in Hs. rewrite owned_copy in Hs. apply in_map_iff in Hs as [s0 [E _]].
      destruct (ext W W' n agree_orig) as [_ [Es _]]. rewrite Es in Hin.
      destruct Hwf as [_ [_ [_ [_ [Hss _]]]]]. rewrite Forall_forall in Hss. specialize (Hss s Hin). lia.
  Qed.
End AfterCopy.

(* FULL statement (false of the model, see the _refuted theorems of Witness.v):
     forall edits on one side, the written form of the other side is unchanged.
   PROVED: under `no_symbol_in_datatypes`, and for edits that do not mutate in place an object
   (datatype / interface) reachable from the other tree (`valid` for ESetObj). *)
Theorem copy_independent_partial_ : forall W off soff ooff n,
  wf W off soff ooff n -> wsc n -> no_symbol_in_datatypes W n ->
  let W' := copy_world W off soff ooff n in
  let c := copy (hs W) off soff n in
  (* the copy operation itself leaves the original's text alone *)
  write W' n = write W n
  (* edits of the original are invisible in the copy *)
  /\ (forall es, let st0 := {| sw := W'; sa := n; sb := c |} in
        valid_seq es st0 -> write (sw (run es st0)) (sb (run es st0)) = write W' c)
  (* edits of the copy are invisible in the original *)
  /\ (forall es, let st0 := {| sw := W'; sa := c; sb := n |} in
        valid_seq es st0 -> write (sw (run es st0)) (sb (run es st0)) = write W' n).
Proof.
  intros W off soff ooff n Hwf Hwsc Hsafe W' c. split; [|split].
  - apply orig_unchanged. exact Hwf.
  - intros es st0 Hv. apply (edits_invisible es st0); [|exact Hv].
    apply inv_edit_original; assumption.
  - intros es st0 Hv. apply (edits_invisible es st0); [|exact Hv].
    apply inv_edit_copy. exact Hwf.
Qed.

(* editing the copy never disturbs the original, whatever the datatypes mention *)
Theorem copy_edits_invisible_in_original_ : forall W off soff ooff n,
  wf W off soff ooff n ->
  let W' := copy_world W off soff ooff n in
  let c := copy (hs W) off soff n in
  forall es, let st0 := {| sw := W'; sa := c; sb := n |} in
    valid_seq es st0 -> write (sw (run es st0)) (sb (run es st0)) = write W n.
Proof.
  intros W off soff ooff n Hwf W' c es st0 Hv.
  rewrite (edits_invisible es st0); [|apply inv_edit_copy; exact Hwf|exact Hv].
  simpl. apply orig_unchanged. exact Hwf.
Qed.
