(* C15 — the copy is equal (same written form), shares no node, and re-binds references. *)
From Coq Require Import List NArith Bool Lia.
Import ListNotations.
From PV Require Import C15.Model C15.Basics.
Open Scope N_scope.

(* ------------------------------------------------------- well-formedness *)
(* ids in use lie below the offsets chosen for the new objects *)
Definition bounded (W : world) (off soff ooff : N) (n : node) : Prop :=
  Forall (fun i => i < off) (ids n) /\ Forall (fun s => s < soff) (ssup W n)
  /\ Forall (fun o => o < ooff) (osup W n).

Definition wf (W : world) (off soff ooff : N) (n : node) : Prop :=
  Forall (tab_wf (hs W)) (tables n) /\ Forall (imports_local (hs W)) (tables n)
  /\ NoDup (owned n) /\ bounded W off soff ooff n.

(* well-scoped: a reference to a symbol declared in the subtree lies inside the declaring scope *)
Inductive wsc : node -> Prop :=
| wsc_node : forall i tag sl tab ch,
    (forall s, sl = Rebound s -> In s (owned (Node i tag sl tab ch)) -> In s (tab_syms tab)) ->
    (forall c, In c ch -> forall s, In s (refs c) -> In s (owned (Node i tag sl tab ch)) ->
               In s (owned c) \/ In s (tab_syms tab)) ->
    Forall wsc ch ->
    wsc (Node i tag sl tab ch).

(* ------------------------------------------------ written form: pieces *)
Lemma wslot_names : forall h h' sl,
  (forall s, In s (slot_syms sl) -> sname (h' s) = sname (h s)) -> wslot h' sl = wslot h sl.
Proof.
  intros h h' [|s|s] Hs; simpl in *; [reflexivity| |]; rewrite Hs; auto.
Qed.

Lemma wexpr_names : forall h h' e,
  (forall s, In s (expr_syms e) -> sname (h' s) = sname (h s)) -> wexpr h' e = wexpr h e.
Proof.
  intros h h' e. induction e as [i tag sl tab ch IH] using node_ind'. intro Hs. simpl in *.
  rewrite (wslot_names h h' sl).
  2:{ intros s Hin. apply Hs. apply in_or_app. left. exact Hin. }
  f_equal. f_equal. f_equal. f_equal. apply flat_map_Forall_ext.
  rewrite Forall_forall in *. intros c Hc. apply IH; [exact Hc|].
  intros s Hin. apply Hs. apply in_or_app. right. apply in_flat_map. exists c. auto.
Qed.

Lemma wexpr_shift : forall h off e, wexpr h (shift_ids off e) = wexpr h e.
Proof.
  intros h off e. induction e as [i tag sl tab ch IH] using node_ind'. simpl.
  f_equal. f_equal. f_equal. f_equal. apply flat_map_map_Forall. exact IH.
Qed.

Lemma expr_syms_shift : forall off e, expr_syms (shift_ids off e) = expr_syms e.
Proof.
  intros off e. induction e as [i tag sl tab ch IH] using node_ind'. simpl.
  f_equal. apply flat_map_map_Forall. exact IH.
Qed.

Lemma wobj_ext : forall W W' o o',
  ho W' o' = ho W o ->
  (forall s, In s (obj_syms W o) -> sname (hs W' s) = sname (hs W s)) ->
  wobj W' o' = wobj W o.
Proof.
  intros W W' o o' Ho Hs. unfold wobj. rewrite Ho.
  assert (E1 : flat_map (wexpr (hs W')) (obounds (ho W o)) = flat_map (wexpr (hs W)) (obounds (ho W o))).
  { apply flat_map_Forall_ext. apply Forall_forall. intros e He. apply wexpr_names.
    intros s Hin. apply Hs. unfold obj_syms. apply in_or_app. left. apply in_flat_map. exists e. auto. }
  assert (E2 : map (fun s => sname (hs W' s)) (osyms (ho W o)) = map (fun s => sname (hs W s)) (osyms (ho W o))).
  { apply map_Forall_ext. apply Forall_forall. intros s Hin. apply Hs.
    unfold obj_syms. apply in_or_app. right. exact Hin. }
  rewrite E1, E2. reflexivity.
Qed.

Lemma obj_syms_ext : forall W W' o o', ho W' o' = ho W o -> obj_syms W' o' = obj_syms W o.
Proof. intros. unfold obj_syms. rewrite H. reflexivity. Qed.

(* ---------------------------------------------- re-binding keeps the text *)
Lemma write_rebind : forall W' h t t' m,
  (forall s s', In s (syms t) -> lookup (norm (sname (h s))) t' = Some s' ->
                sname (hs W' s') = sname (hs W' s)) ->
  write W' (rebind h t t' m) = write W' m.
Proof.
  intros W' h t t' m Hn. induction m as [i tag sl tab ch IH] using node_ind'. simpl.
  assert (Hsl : wslot (hs W') (rebind_slot h t t' sl) = wslot (hs W') sl).
  { destruct sl as [|s|s]; simpl; try reflexivity.
    destruct (memN s (syms t)) eqn:E; [|reflexivity].
    destruct (lookup (norm (sname (h s))) t') as [s'|] eqn:L; [|reflexivity].
    simpl. rewrite (Hn s s'); [reflexivity| apply memN_true; exact E | exact L]. }
  rewrite Hsl. f_equal. f_equal. f_equal. f_equal. f_equal. apply flat_map_map_Forall. exact IH.
Qed.

(* ------------------------------------------------------------ copy_equal *)
Section CopyEqual.
  Variables (W W' : world) (off soff ooff : N).
  Hypothesis HA : forall x, x < soff -> hs W' x = hs W x.
  Hypothesis HB : forall o, o < ooff -> ho W' o = ho W o.
  Hypothesis HB' : forall o, ho W' (o + ooff) = ho W o.

  Lemma wobj_old : forall o, o < ooff -> Forall (fun s => s < soff) (obj_syms W o) ->
    wobj W' o = wobj W o.
  Proof.
    intros o Ho Hs. apply wobj_ext; [apply HB; exact Ho|].
    intros s Hin. rewrite Forall_forall in Hs. rewrite HA; [reflexivity | apply Hs; exact Hin].
  Qed.
  Lemma wobj_new : forall o, Forall (fun s => s < soff) (obj_syms W o) -> wobj W' (o + ooff) = wobj W o.
  Proof.
    intros o Hs. apply wobj_ext; [apply HB'|].
    intros s Hin. rewrite Forall_forall in Hs. rewrite HA; [reflexivity | apply Hs; exact Hin].
  Qed.

  (* one declaration of a copied table *)
  Lemma wdecl_copy : forall t k s,
    tab_wf (hs W) t -> imports_local (hs W) t -> In (k, s) t ->
    (forall x, In x (syms t) ->
       hs W' (x + soff) = copied_sym (hs W) off ooff (deep_copy_table (hs W) soff t) (hs W x)) ->
    Forall (fun x => x < soff) (sym_sup W s) -> Forall (fun o => o < ooff) (sym_objs W s) ->
    wdecl W' (norm (sname (hs W s)), s + soff) = wdecl W (k, s).
  Proof.
    intros t k s Hwf Himp Hin Hnew Hss Hso.
    assert (Hs : In s (syms t)) by (unfold syms; apply in_map_iff; exists (k, s); auto).
    assert (Hk : k = norm (sname (hs W s))).
    { destruct Hwf as [_ Hk]. rewrite Forall_forall in Hk. apply (Hk (k, s) Hin). }
    unfold sym_sup in Hss. unfold sym_objs in Hso.
    apply Forall_cons_iff in Hss as [_ Hss]. rewrite !Forall_app in Hss. destruct Hss as [Hdt [Hinit [Hintf Hmem]]].
    apply Forall_cons_iff in Hso as [Hdo Hio].
    unfold wdecl. cbn [fst snd]. rewrite (Hnew s Hs).
    unfold copied_sym. cbn [sname styped sdt sinit sintf smem]. rewrite <- Hk.
    rewrite (wobj_old _ Hdo Hdt).
    assert (Ei : winit W' (option_map (shift_ids off) (sinit (hs W s))) = winit W (sinit (hs W s))).
    { destruct (sinit (hs W s)) as [e|]; simpl; [|reflexivity]. f_equal.
      rewrite wexpr_shift. apply wexpr_names. intros x Hx. simpl in Hinit.
      rewrite Forall_forall in Hinit. rewrite HA; [reflexivity | apply Hinit; exact Hx]. }
    rewrite Ei.
    assert (Ef : wintf W' match sintf (hs W s) with
                          | ILocal o => if styped (hs W s) then ILocal o else ILocal (o + ooff)
                          | IImport c =>
                              match lookup (norm (sname (hs W c))) (deep_copy_table (hs W) soff t) with
                              | Some c' => IImport c'
                              | None => IImport c
                              end
                          end = wintf W (sintf (hs W s))).
    { destruct (sintf (hs W s)) as [o|c] eqn:Eintf.
      - simpl in Hintf, Hio. apply Forall_cons_iff in Hio as [Hoo _].
        destruct (styped (hs W s)); simpl; f_equal; [apply wobj_old | apply wobj_new]; assumption.
      - assert (Hc : In c (syms t)) by (apply (proj1 Himp s c Hs Eintf)).
        rewrite (lookup_deep_copy (hs W) soff t c Hwf Hc). simpl.
        rewrite (Hnew c Hc). reflexivity. }
    rewrite Ef.
    assert (Em : wmem W' (map (fun m => match lookup (norm (sname (hs W m))) (deep_copy_table (hs W) soff t) with
                                        | Some m' => m' | None => m end) (smem (hs W s)))
                 = wmem W (smem (hs W s))).
    { unfold wmem. f_equal. rewrite map_map. apply map_Forall_ext. apply Forall_forall. intros m Hm.
      assert (Hc : In m (syms t)) by (apply (proj2 Himp s m Hs Hm)).
      rewrite (lookup_deep_copy (hs W) soff t m Hwf Hc). rewrite (Hnew m Hc). reflexivity. }
    rewrite Em. reflexivity.
  Qed.

  Lemma wtab_copy : forall t,
    tab_wf (hs W) t -> imports_local (hs W) t ->
    (forall x, In x (syms t) ->
       hs W' (x + soff) = copied_sym (hs W) off ooff (deep_copy_table (hs W) soff t) (hs W x)) ->
    Forall (fun x => x < soff) (flat_map (sym_sup W) (syms t)) ->
    Forall (fun o => o < ooff) (flat_map (sym_objs W) (syms t)) ->
    flat_map (wdecl W') (deep_copy_table (hs W) soff t) = flat_map (wdecl W) t.
  Proof.
    intros t Hwf Himp Hnew Hss Hso. unfold deep_copy_table. apply flat_map_map_Forall.
    apply Forall_forall. intros [k s] Hin. simpl fst. simpl snd.
    assert (Hs : In s (syms t)) by (unfold syms; apply in_map_iff; exists (k, s); auto).
    apply (wdecl_copy t k s Hwf Himp Hin Hnew).
    - rewrite Forall_flat_map_in in Hss. apply Hss. exact Hs.
    - rewrite Forall_flat_map_in in Hso. apply Hso. exact Hs.
  Qed.

  (* names seen through W' after re-binding one scope *)
  Lemma rebind_names : forall t,
    tab_wf (hs W) t ->
    (forall x, In x (syms t) ->
       hs W' (x + soff) = copied_sym (hs W) off ooff (deep_copy_table (hs W) soff t) (hs W x)) ->
    Forall (fun x => x < soff) (syms t) ->
    forall s s', In s (syms t) -> lookup (norm (sname (hs W s))) (deep_copy_table (hs W) soff t) = Some s' ->
                 sname (hs W' s') = sname (hs W' s).
  Proof.
    intros t Hwf Hnew Hlt s s' Hs L. rewrite (lookup_deep_copy (hs W) soff t s Hwf Hs) in L.
    inversion L; subst s'. rewrite (Hnew s Hs). simpl. rewrite Forall_forall in Hlt.
    rewrite HA; [reflexivity | apply Hlt; exact Hs].
  Qed.

  Lemma syms_lt : forall t, Forall (fun x => x < soff) (flat_map (sym_sup W) (syms t)) ->
    Forall (fun x => x < soff) (syms t).
  Proof.
    intros t H. rewrite Forall_flat_map_in in H. apply Forall_forall. intros x Hx.
    specialize (H x Hx). unfold sym_sup in H. inversion H; assumption.
  Qed.

  Lemma copy_write_gen : forall n,
    (forall t x, In t (tables n) -> In x (syms t) ->
       hs W' (x + soff) = copied_sym (hs W) off ooff (deep_copy_table (hs W) soff t) (hs W x)) ->
    Forall (tab_wf (hs W)) (tables n) -> Forall (imports_local (hs W)) (tables n) ->
    Forall (fun s => s < soff) (ssup W n) -> Forall (fun o => o < ooff) (osup W n) ->
    write W' (copy (hs W) off soff n) = write W n.
  Proof.
    intro n. induction n as [i tag sl tab ch IH] using node_ind'.
    intros HC Hwf Himp Hss Hso.
    assert (Hch : flat_map (write W') (map (copy (hs W) off soff) ch) = flat_map (write W) ch).
    { apply flat_map_map_Forall. rewrite Forall_forall in *. intros c Hc. apply IH; [exact Hc| | | | | ].
      - intros t x Ht Hx. apply HC; [eapply tables_child; eauto | exact Hx].
      - apply Forall_forall. intros t Ht. apply Hwf. eapply tables_child; eauto.
      - apply Forall_forall. intros t Ht. apply Himp. eapply tables_child; eauto.
      - apply Forall_forall. intros x Hx. apply Hss. simpl. apply in_or_app. right. apply in_or_app. right.
        apply in_flat_map. exists c. auto.
      - apply Forall_forall. intros x Hx. apply Hso. simpl. apply in_or_app. right.
        apply in_flat_map. exists c. auto. }
    assert (Hsl : wslot (hs W') sl = wslot (hs W) sl).
    { apply wslot_names. intros s Hs. rewrite HA; [reflexivity|]. rewrite Forall_forall in Hss.
      apply Hss. simpl. apply in_or_app. left. exact Hs. }
    destruct tab as [t|].
    - (* scoping node *)
      cbn [copy]. rewrite write_rebind.
      + cbn [write wtab]. rewrite Hsl, Hch. f_equal. f_equal. f_equal. f_equal. f_equal.
        simpl in Hss, Hso. rewrite !Forall_app in Hss. rewrite Forall_app in Hso.
        apply wtab_copy.
        * rewrite Forall_forall in Hwf. apply Hwf. simpl. left. reflexivity.
        * rewrite Forall_forall in Himp. apply Himp. simpl. left. reflexivity.
        * intros x Hx. apply HC; [simpl; left; reflexivity | exact Hx].
        * apply Hss.
        * apply Hso.
      + simpl in Hss. rewrite !Forall_app in Hss. apply rebind_names.
        * rewrite Forall_forall in Hwf. apply Hwf. simpl. left. reflexivity.
        * intros x Hx. apply HC; [simpl; left; reflexivity | exact Hx].
        * apply syms_lt. apply Hss.
    - cbn [copy write wtab]. rewrite Hsl, Hch. reflexivity.
  Qed.
End CopyEqual.

(* the world built by the model's copy satisfies the three heap conditions *)
Theorem copy_equal_ : forall W off soff ooff n,
  wf W off soff ooff n ->
  write (copy_world W off soff ooff n) (copy (hs W) off soff n) = write W n.
Proof.
  intros W off soff ooff n [Hwf [Himp [Hnd [_ [Hss Hso]]]]].
  apply (copy_write_gen W (copy_world W off soff ooff n) off soff ooff); try assumption.
  - intros x Hx. simpl. apply copy_hs_old. exact Hx.
  - intros o Ho. simpl. apply copy_ho_old. exact Ho.
  - intros o. simpl. apply copy_ho_new.
  - intros t x Ht Hx. simpl. apply copy_hs_new; assumption.
Qed.

(* --------------------------------------------------- copy_disjoint_nodes *)
Lemma ids_rebind : forall h t t' m, ids (rebind h t t' m) = ids m.
Proof.
  intros h t t' m. induction m as [i tag sl tab ch IH] using node_ind'. simpl. f_equal.
  apply flat_map_map_Forall. exact IH.
Qed.

Lemma ids_copy : forall h off soff n, ids (copy h off soff n) = map (fun i => i + off) (ids n).
Proof.
  intros h off soff n. induction n as [i tag sl tab ch IH] using node_ind'.
  assert (Hch : flat_map ids (map (copy h off soff) ch) = map (fun i => i + off) (flat_map ids ch)).
  { clear -IH. induction IH as [|c r Hc _ IHr]; simpl; [reflexivity|]. rewrite map_app, Hc, IHr. reflexivity. }
  destruct tab as [t|]; cbn [copy].
  - rewrite ids_rebind. simpl. f_equal. exact Hch.
  - simpl. f_equal. exact Hch.
Qed.

Theorem copy_disjoint_nodes_ : forall h off soff n,
  Forall (fun i => i < off) (ids n) ->
  forall i, In i (ids n) -> ~ In i (ids (copy h off soff n)).
Proof.
  intros h off soff n Hlt i Hi Hc. rewrite ids_copy in Hc. apply in_map_iff in Hc as [j [E Hj]].
  rewrite Forall_forall in Hlt. specialize (Hlt i Hi). lia.
Qed.

(* also the nodes of copied initial values are new objects *)
Lemma ids_shift : forall off e, ids (shift_ids off e) = map (fun i => i + off) (ids e).
Proof.
  intros off e. induction e as [i tag sl tab ch IH] using node_ind'. simpl. f_equal.
  clear -IH. induction IH as [|c r Hc _ IHr]; simpl; [reflexivity|]. rewrite map_app, Hc, IHr. reflexivity.
Qed.

(* ------------------------------------------------------- copy_refs_local *)
Definition rebind_sym (h : N -> sym) (t t' : table) (s : N) : N :=
  if memN s (syms t) then match lookup (norm (sname (h s))) t' with Some s' => s' | None => s end else s.

Lemma refs_rebind : forall h t t' m, refs (rebind h t t' m) = map (rebind_sym h t t') (refs m).
Proof.
  intros h t t' m. induction m as [i tag sl tab ch IH] using node_ind'. simpl. rewrite map_app. f_equal.
  - destruct sl as [|s|s]; simpl; try reflexivity. unfold rebind_sym.
    destruct (memN s (syms t)); [|reflexivity]. destruct (lookup (norm (sname (h s))) t'); reflexivity.
  - clear -IH. induction IH as [|c r Hc _ IHr]; simpl; [reflexivity|]. rewrite map_app, Hc, IHr. reflexivity.
Qed.

Lemma plains_rebind : forall h t t' m, plains (rebind h t t' m) = plains m.
Proof.
  intros h t t' m. induction m as [i tag sl tab ch IH] using node_ind'. simpl. f_equal.
  - destruct sl as [|s|s]; simpl; try reflexivity.
    destruct (memN s (syms t)); [|reflexivity]. destruct (lookup (norm (sname (h s))) t'); reflexivity.
  - apply flat_map_map_Forall. exact IH.
Qed.

Lemma plains_copy : forall h off soff n, plains (copy h off soff n) = plains n.
Proof.
  intros h off soff n. induction n as [i tag sl tab ch IH] using node_ind'.
  assert (Hch : flat_map plains (map (copy h off soff) ch) = flat_map plains ch)
    by (apply flat_map_map_Forall; exact IH).
  destruct tab as [t|]; cbn [copy].
  - rewrite plains_rebind. simpl. rewrite Hch. reflexivity.
  - simpl. rewrite Hch. reflexivity.
Qed.

Lemma owned_tabs_rebind : forall h t t' m, owned_tabs (rebind h t t' m) = owned_tabs m.
Proof.
  intros h t t' m. induction m as [i tag sl tab ch IH] using node_ind'. simpl. f_equal.
  apply flat_map_map_Forall. exact IH.
Qed.
Lemma owned_rebind : forall h t t' m, owned (rebind h t t' m) = owned m.
Proof. intros. unfold owned. rewrite owned_tabs_rebind. reflexivity. Qed.

Lemma owned_copy : forall h off soff n, owned (copy h off soff n) = map (fun s => s + soff) (owned n).
Proof.
  intros h off soff n. induction n as [i tag sl tab ch IH] using node_ind'.
  assert (Hch : flat_map owned (map (copy h off soff) ch) = map (fun s => s + soff) (flat_map owned ch)).
  { clear -IH. induction IH as [|c r Hc _ IHr]; simpl; [reflexivity|]. rewrite map_app, Hc, IHr. reflexivity. }
  destruct tab as [t|]; cbn [copy].
  - rewrite owned_rebind. rewrite !owned_node. rewrite map_app, Hch. f_equal.
    simpl. apply syms_deep_copy.
  - rewrite !owned_node. simpl. exact Hch.
Qed.

Lemma flat_map_map_comp {A B C} (f : B -> list C) (g : A -> B) (l : list A) :
  flat_map f (map g l) = flat_map (fun x => f (g x)) l.
Proof. induction l as [|a r IH]; simpl; [reflexivity|]. rewrite IH. reflexivity. Qed.

Definition relocated (soff : N) (O : list N) (s s' : N) : Prop :=
  s' = if memN s O then s + soff else s.

Lemma Forall2_flat_map_gen {A B C} (R : B -> C -> Prop) (f : A -> list B) (g : A -> list C) (l : list A) :
  (forall x, In x l -> Forall2 R (f x) (g x)) -> Forall2 R (flat_map f l) (flat_map g l).
Proof.
  induction l as [|a r IH]; simpl; intro Hall; [constructor|].
  apply Forall2_app; [apply Hall; left; reflexivity | apply IH; intros x Hx; apply Hall; right; exact Hx].
Qed.

Lemma Forall2_weaken_in {A B} (R R' : A -> B -> Prop) (l : list A) (l' : list B) :
  (forall x y, In x l -> R x y -> R' x y) -> Forall2 R l l' -> Forall2 R' l l'.
Proof.
  intros Himp H. induction H as [|x y r r' Hxy _ IH]; constructor.
  - apply Himp; [left; reflexivity | exact Hxy].
  - apply IH. intros a b Ha. apply Himp. right. exact Ha.
Qed.

Lemma Forall2_map_r {A B C} (R : A -> C -> Prop) (f : B -> C) (l : list A) (l' : list B) :
  Forall2 (fun x y => R x (f y)) l l' -> Forall2 R l (map f l').
Proof. induction 1; simpl; constructor; assumption. Qed.

Theorem copy_refs_local_gen : forall h off soff n,
  wsc n -> Forall (tab_wf h) (tables n) -> Forall (fun s => s < soff) (owned n) ->
  Forall2 (relocated soff (owned n)) (refs n) (refs (copy h off soff n)).
Proof.
  intros h off soff n. induction n as [i tag sl tab ch IH] using node_ind'.
  intros Hwsc Hwf Hlt. inversion Hwsc as [? ? ? ? ? Hown Hchs Hsub]; subst.
  (* children, relative to the owned set of the child *)
  assert (Hch : forall c, In c ch ->
            Forall2 (relocated soff (owned c)) (refs c) (refs (copy h off soff c))).
  { intros c Hc. rewrite Forall_forall in IH, Hsub, Hwf, Hlt. apply IH; [exact Hc | apply Hsub; exact Hc | |].
    - apply Forall_forall. intros t Ht. apply Hwf. eapply tables_child; eauto.
    - apply Forall_forall. intros s Hs. apply Hlt. eapply owned_child; eauto. }
  destruct tab as [t|].
  - (* scoping node: children are re-bound against t *)
    cbn [copy]. rewrite refs_rebind. apply Forall2_map_r. cbn [refs].
    set (n := Node i tag sl (Some t) ch) in *. apply Forall2_app.
    + destruct sl as [|s|s]; try constructor; [|constructor]. unfold relocated, rebind_sym.
      destruct (memN s (owned n)) eqn:E.
      * apply memN_true in E. specialize (Hown s eq_refl E). simpl in Hown.
        rewrite (proj2 (memN_true s (syms t)) Hown).
        rewrite Forall_forall in Hwf.
        rewrite (lookup_deep_copy h soff t s); [reflexivity | apply Hwf; simpl; left; reflexivity | exact Hown].
      * destruct (memN s (syms t)) eqn:E2; [|reflexivity]. exfalso. apply memN_true in E2.
        apply memN_false in E. apply E. unfold n. rewrite owned_node. apply in_or_app. left. exact E2.
    + rewrite flat_map_map_comp.
      apply Forall2_flat_map_gen. intros c Hc.
      eapply Forall2_weaken_in; [|apply Hch; exact Hc].
      intros s s' Hs Hrel. unfold relocated in *. unfold rebind_sym. subst s'.
      destruct (memN s (owned c)) eqn:Ec.
      * (* owned by the child: already s + soff, which is not a symbol of t *)
        apply memN_true in Ec.
        rewrite (proj2 (memN_true s (owned n))) by (eapply owned_child; eauto).
        destruct (memN (s + soff) (syms t)) eqn:E2; [|reflexivity]. exfalso.
        apply memN_true in E2. rewrite Forall_forall in Hlt.
        assert (s + soff < soff); [|lia]. apply Hlt. unfold n. rewrite owned_node.
        apply in_or_app. left. exact E2.
      * destruct (memN s (syms t)) eqn:E2.
        -- apply memN_true in E2. rewrite Forall_forall in Hwf.
           rewrite (lookup_deep_copy h soff t s); [| apply Hwf; simpl; left; reflexivity | exact E2].
           rewrite (proj2 (memN_true s (owned n))); [reflexivity|].
           unfold n. rewrite owned_node. apply in_or_app. left. exact E2.
        -- destruct (memN s (owned n)) eqn:E3; [|reflexivity]. exfalso. apply memN_true in E3.
           destruct (Hchs c Hc s Hs E3) as [H1|H1].
           ++ apply memN_false in Ec. contradiction.
           ++ apply memN_false in E2. contradiction.
  - cbn [copy refs]. set (n := Node i tag sl None ch) in *. apply Forall2_app.
    + destruct sl as [|s|s]; try constructor; [|constructor]. unfold relocated.
      destruct (memN s (owned n)) eqn:E; [|reflexivity]. exfalso. apply memN_true in E.
      apply (Hown s eq_refl E).
    + rewrite flat_map_map_comp.
      apply Forall2_flat_map_gen. intros c Hc.
      eapply Forall2_weaken_in; [|apply Hch; exact Hc].
      intros s s' Hs Hrel. unfold relocated in *. subst s'.
      destruct (memN s (owned c)) eqn:Ec.
      * apply memN_true in Ec. rewrite (proj2 (memN_true s (owned n))); [reflexivity|].
        eapply owned_child; eauto.
      * destruct (memN s (owned n)) eqn:E3; [|reflexivity]. exfalso. apply memN_true in E3.
        destruct (Hchs c Hc s Hs E3) as [H1|H1]; [|contradiction].
        apply memN_false in Ec. contradiction.
Qed.

Lemma owned_in_ssup : forall W n s, In s (owned n) -> In s (ssup W n).
Proof.
  intros W n. induction n as [i tag sl tab ch IH] using node_ind'. intros s Hs.
  rewrite owned_node in Hs. simpl. apply in_or_app. right. apply in_or_app.
  apply in_app_or in Hs as [Hs|Hs].
  - left. apply in_flat_map. exists s. split; [exact Hs|]. unfold sym_sup. left. reflexivity.
  - right. apply in_flat_map in Hs as [c [Hc Hs]]. apply in_flat_map. exists c. split; [exact Hc|].
    rewrite Forall_forall in IH. apply IH; assumption.
Qed.

(* every re-bindable reference of the copy: a symbol declared in the copied scopes is replaced by the
   copy's own symbol of the same name; any other symbol is kept *)
Theorem copy_refs_local_ : forall W off soff ooff n,
  wf W off soff ooff n -> wsc n ->
  let W' := copy_world W off soff ooff n in
  let c := copy (hs W) off soff n in
  Forall2 (fun s s' => (In s (owned n) -> s' = s + soff /\ In s' (owned c) /\ ~ In s' (owned n)
                                          /\ sname (hs W' s') = sname (hs W s))
                       /\ (~ In s (owned n) -> s' = s))
          (refs n) (refs c).
Proof.
  intros W off soff ooff n Hwf Hwsc W' c. destruct Hwf as [Htw [Himp [Hnd [Hid [Hss Hso]]]]].
  assert (Hlt : Forall (fun s => s < soff) (owned n)).
  { apply Forall_forall. intros s Hs. rewrite Forall_forall in Hss. apply Hss. apply owned_in_ssup. exact Hs. }
  eapply Forall2_weaken_in; [|apply (copy_refs_local_gen (hs W) off soff n Hwsc Htw Hlt)].
  intros s s' Hs Hrel. unfold relocated in Hrel. split.
  - intro Hown. rewrite (proj2 (memN_true s (owned n)) Hown) in Hrel. subst s'. repeat split.
    + unfold c. rewrite owned_copy. apply in_map_iff. exists s. split; [reflexivity | exact Hown].
    + intro Hbad. rewrite Forall_forall in Hlt. specialize (Hlt _ Hbad). lia.
    + unfold owned in Hown. apply in_map_iff in Hown as [[s0 t] [E Hin]]. simpl in E. subst s0.
      destruct (owned_tabs_inv n s t Hin) as [Ht Hst]. unfold W'. simpl.
      rewrite (copy_hs_new (hs W) off soff ooff n t s Hnd Ht Hst). reflexivity.
  - intro Hnown. rewrite (proj2 (memN_false s (owned n)) Hnown) in Hrel. exact Hrel.
Qed.
