(* C16 -- the theorems about the SymbolTable model (statements re-exported by Properties/C16.v). *)
From Coq Require Import List Arith Bool String Ascii NArith Lia Permutation.
Import ListNotations.
From PV Require Import C16.GenTables C16.Model C16.Names C16.Inv C16.MergeProofs C16.RenameProofs C16.StateInv.
Open Scope string_scope.
Open Scope list_scope.

(* ===================================================================== 1. unique names *)
Definition reachable (st : state) : Prop := exists n ops, st = run (init_state n) ops.

Lemma reachable_WF : forall st, reachable st -> WF st.
Proof. intros st [n [ops E]]. subst. apply run_WF. apply init_WF. Qed.

(* in every reachable state, in every table (attached or detached): the keys are exactly the
   normalised names, no two symbols have names that differ at most in case, and no symbol object
   is listed twice *)
Theorem unique_names_inv_ : forall st T,
    reachable st -> In T (all_tables st) ->
    NoDup (keys T) /\ NoDup (sids T) /\
    (forall k s, In (k, s) (t_syms T) -> k = normalize (s_name (hget (st_heap st) s))) /\
    (forall k1 s1 k2 s2, In (k1, s1) (t_syms T) -> In (k2, s2) (t_syms T) ->
                         normalize (s_name (hget (st_heap st) s1)) = normalize (s_name (hget (st_heap st) s2)) ->
                         s1 = s2).
Proof.
  intros st T Hr HT. destruct (reachable_WF _ Hr) as [H _]. destruct (H T HT) as [Htok _].
  split; [apply Htok|]. split; [apply Htok|]. split.
  - intros k s Hin. apply (proj2 (proj2 Htok) _ _ Hin).
  - intros. eapply TOK_names_unique; eauto.
Qed.

(* tags: unique inside a table and never stale (the tagged symbol is in the same table) *)
Theorem tags_inv_ : forall st T,
    reachable st -> In T (all_tables st) ->
    NoDup (map fst (t_tags T)) /\ forall tg s, In (tg, s) (t_tags T) -> In s (sids T).
Proof. intros st T Hr HT. destruct (reachable_WF _ Hr) as [H _]. destruct (H T HT) as [_ Htag]. exact Htag. Qed.

(* no symbol object is in two tables *)
Theorem ownership_inv_ : forall st, reachable st -> NoDup (flat_map sids (all_tables st)).
Proof. intros st Hr. apply (reachable_WF _ Hr). Qed.

(* ================================================================ 2. lookup is innermost *)
(* lookup (which builds the merged dictionary of get_symbols) answers from the first table,
   going outwards from the table itself, that has the normalised name *)
Theorem lookup_innermost_ : forall T anc name s,
    lookup T anc name = Some s <->
    exists pre T' post, T :: anc = pre ++ T' :: post /\
                        (forall P, In P pre -> ~ In (normalize name) (keys P)) /\
                        find_key (normalize name) (t_syms T') = Some s.
Proof.
  intros T anc name s. unfold lookup. rewrite get_symbols_find, first_in_chain_spec. split.
  - intros [pre [l [post [E [Hpre Hf]]]]].
    assert (Hm : exists pre' T' post', T :: anc = pre' ++ T' :: post' /\ map t_syms pre' = pre /\ t_syms T' = l).
    { clear - E. revert pre E. generalize (T :: anc). induction l0 as [|a l0 IH]; intros pre E; simpl in E.
      - destruct pre; discriminate.
      - destruct pre as [|p pre]; simpl in E; inversion E; subst.
        + exists [], a, l0. auto.
        + destruct (IH pre H1) as [pre' [T' [post' [E1 [E2 E3]]]]].
          exists (a :: pre'), T', post'. simpl. split; [congruence | split; [congruence | exact E3]]. }
    destruct Hm as [pre' [T' [post' [E1 [E2 E3]]]]]. exists pre', T', post'. split; [exact E1|]. split.
    + intros P HP. apply Hpre. subst pre. apply in_map. exact HP.
    + subst l. exact Hf.
  - intros [pre [T' [post [E [Hpre Hf]]]]]. exists (map t_syms pre), (t_syms T'), (map t_syms post).
    split; [rewrite E, map_app; reflexivity|]. split; [|exact Hf].
    intros l Hl. apply in_map_iff in Hl as [P [EP HP]]. subst l. apply Hpre. exact HP.
Qed.

Theorem lookup_none_ : forall T anc name,
    lookup T anc name = None <-> forall P, In P (T :: anc) -> ~ In (normalize name) (keys P).
Proof.
  intros T anc name. unfold lookup. rewrite get_symbols_find, first_in_chain_none. split.
  - intros H P HP. apply H. apply in_map. exact HP.
  - intros H l Hl. apply in_map_iff in Hl as [P [EP HP]]. subst l. apply H. exact HP.
Qed.

Theorem lookup_tag_innermost_ : forall T anc tag s,
    lookup_tag T anc tag = Some s <->
    exists pre T' post, T :: anc = pre ++ T' :: post /\
                        (forall P, In P pre -> ~ In tag (map fst (t_tags P))) /\
                        find_key tag (t_tags T') = Some s.
Proof.
  intros T anc tag s. unfold lookup_tag. rewrite get_tags_find, first_in_chain_spec. split.
  - intros [pre [l [post [E [Hpre Hf]]]]].
    assert (Hm : exists pre' T' post', T :: anc = pre' ++ T' :: post' /\ map t_tags pre' = pre /\ t_tags T' = l).
    { clear - E. revert pre E. generalize (T :: anc). induction l0 as [|a l0 IH]; intros pre E; simpl in E.
      - destruct pre; discriminate.
      - destruct pre as [|p pre]; simpl in E; inversion E; subst.
        + exists [], a, l0. auto.
        + destruct (IH pre H1) as [pre' [T' [post' [E1 [E2 E3]]]]].
          exists (a :: pre'), T', post'. simpl. split; [congruence | split; [congruence | exact E3]]. }
    destruct Hm as [pre' [T' [post' [E1 [E2 E3]]]]]. exists pre', T', post'. split; [exact E1|]. split.
    + intros P HP. apply Hpre. subst pre. apply in_map. exact HP.
    + subst l. exact Hf.
  - intros [pre [T' [post [E [Hpre Hf]]]]]. exists (map t_tags pre), (t_tags T'), (map t_tags post).
    split; [rewrite E, map_app; reflexivity|]. split; [|exact Hf].
    intros l Hl. apply in_map_iff in Hl as [P [EP HP]]. subst l. apply Hpre. exact HP.
Qed.

(* the table addressed by a reference and its enclosing tables are tables of the state *)
Lemma chain_in_all : forall st t T P,
    get_table st t = Some T -> In P (T :: ancestors st t) -> In P (all_tables st).
Proof.
  intros st t T P Ht [Hin|Hin].
  - subst P. destruct (get_table_perm _ _ _ Ht) as [rest [Pm _]].
    eapply Permutation_in; [apply Permutation_sym; exact Pm | left; reflexivity].
  - destruct t as [i|j]; [unfold ancestors in Hin | simpl in Hin; destruct Hin].
    unfold all_tables. apply in_or_app. left.
    assert (Hc : forall l, In P (chain_of l) -> In P (slot_tables l)).
    { induction l as [|[a|] l IH]; simpl; intros H; tauto. }
    apply Hc in Hin.
    assert (Hs : forall n (l : list (option table)), In P (slot_tables (skipn n l)) -> In P (slot_tables l)).
    { induction n as [|n IH]; intros l H; [exact H|]. destruct l as [|a l]; [exact H|].
      simpl in H. apply IH in H. unfold slot_tables. simpl. apply in_or_app. right. exact H. }
    apply (Hs (S i)). exact Hin.
Qed.

(* in a reachable state the symbol found by lookup is one whose name equals the requested name up
   to case, and it sits in that innermost table *)
Theorem lookup_sound_ : forall st t T name s,
    reachable st -> get_table st t = Some T -> lookup T (ancestors st t) name = Some s ->
    normalize (s_name (hget (st_heap st) s)) = normalize name.
Proof.
  intros st t T name s Hr Ht Hl. apply lookup_innermost_ in Hl as [pre [T' [post [E [_ Hf]]]]].
  assert (HT' : In T' (all_tables st)).
  { eapply chain_in_all; [exact Ht|]. rewrite E. apply in_or_app; right; left; reflexivity. }
  destruct (reachable_WF _ Hr) as [H _]. destruct (H T' HT') as [[_ [_ Hn]] _].
  apply find_key_In in Hf. destruct (Hn _ _ Hf) as [Ek _]. symmetry. exact Ek.
Qed.

(* ================================================================= 3. fresh names are fresh *)
(* next_available_name always terminates with a name (the fuel |names|+1 is never exhausted),
   the name is root or root_N, every smaller candidate is taken, and its normalised form is
   neither a key of the table, nor (unless shadowing) of an enclosing table, nor of other_table *)
Theorem fresh_name_fresh_ : forall T anc root shadowing other,
    exists nm, next_available_name T anc root shadowing other = Some nm /\
               ~ In (normalize nm) (keys T) /\
               (shadowing = false -> forall A, In A anc -> ~ In (normalize nm) (keys A)) /\
               (forall Ot, other = Some Ot -> ~ In (normalize nm) (keys Ot)) /\
               exists k, nm = cand (if String.eqb root "" then default_root else root) (N.of_nat k) /\
                         forall k', k' < k ->
                                    In (normalize (cand (if String.eqb root "" then default_root else root) (N.of_nat k')))
                                       (existing_names T anc shadowing other).
Proof.
  intros T anc root shadowing other. unfold next_available_name.
  set (ex := existing_names T anc shadowing other).
  set (root' := if String.eqb root "" then default_root else root).
  destruct (fresh_loop_total root' ex 0%N) as [c Hc]. exists c. split; [exact Hc|].
  apply fresh_loop_some in Hc as [k [Ec [Hfree Hmin]]].
  assert (Hself : forall x, In x (keys T) -> In x ex).
  { intros x Hx. unfold ex, existing_names. apply in_or_app. left. destruct shadowing; [exact Hx|].
    apply get_symbols_keys. exists T. split; [left; reflexivity | exact Hx]. }
  split; [intro Hc; apply Hfree; apply Hself; exact Hc|]. split; [|split].
  - intros Es A HA Hc. subst shadowing. apply Hfree. unfold ex, existing_names. apply in_or_app. left.
    apply get_symbols_keys. exists A. split; [right; exact HA | exact Hc].
  - intros Ot Eo Hc. apply Hfree. unfold ex, existing_names. apply in_or_app. right. rewrite Eo. exact Hc.
  - exists k. split; [rewrite Ec; f_equal; lia|].
    intros k' Hk'. replace (N.of_nat k') with (0 + N.of_nat k')%N by lia. apply Hmin. exact Hk'.
Qed.

(* in a reachable state: no symbol of the table, of its enclosing tables (unless shadowing) or of
   the other table has a name equal to the generated one up to case *)
Theorem fresh_name_no_clash_ : forall st t T root shadowing other nm,
    reachable st -> get_table st t = Some T ->
    (forall Ot, other = Some Ot -> exists ot, get_table st ot = Some Ot) ->
    next_available_name T (ancestors st t) root shadowing other = Some nm ->
    forall P k s,
      (P = T \/ (shadowing = false /\ In P (ancestors st t)) \/ other = Some P) ->
      In (k, s) (t_syms P) ->
      normalize (s_name (hget (st_heap st) s)) <> normalize nm.
Proof.
  intros st t T root shadowing other nm Hr Ht Hother Hn P k s HP Hin.
  destruct (fresh_name_fresh_ T (ancestors st t) root shadowing other) as [nm' [E [Hself [Hanc [Hoth _]]]]].
  rewrite Hn in E. inversion E; subst nm'. clear E.
  assert (HPall : In P (all_tables st)).
  { destruct HP as [HP|[[_ HP]|HP]].
    - subst P. eapply chain_in_all; [exact Ht | left; reflexivity].
    - eapply chain_in_all; [exact Ht | right; exact HP].
    - destruct (Hother P HP) as [ot Hot]. eapply chain_in_all; [exact Hot | left; reflexivity]. }
  destruct (reachable_WF _ Hr) as [H _]. destruct (H P HPall) as [[_ [_ Hnames]] _].
  destruct (Hnames _ _ Hin) as [Ek _].
  assert (Hk : In k (keys P)) by (apply in_keys; eauto).
  intro Hc. rewrite <- Ek in Hc. subst k. rewrite Hc in Hk.
  destruct HP as [HP|[[Hs HP]|HP]].
  - subst P. apply Hself. exact Hk.
  - apply (Hanc Hs P HP). exact Hk.
  - apply (Hoth P HP). exact Hk.
Qed.

(* ============================================================ 4. merge adds every symbol once *)
(* a merge that completes: nothing of the receiving table is lost, no symbol object is listed
   twice, nothing comes from elsewhere, and every symbol of the other table that is not skipped,
   not a ContainerSymbol, not imported and not unresolved is in the receiving table afterwards *)
Theorem merge_adds_once_partial_ : forall h T anc Ot skip m,
    TOK h T -> TOK h Ot -> (forall s, In s (sids T) -> ~ In s (sids Ot)) ->
    merge h T anc Ot skip = (m, MDone, None) ->
    NoDup (sids (m_self m)) /\ NoDup (keys (m_self m)) /\
    (forall s, In s (sids T) -> In s (sids (m_self m))) /\
    (forall s, In s (sids (m_self m)) -> In s (sids T) \/ In s (sids Ot)) /\
    (forall s, In s (sids Ot) -> ~ In s skip -> is_container (hget h s) = false ->
               is_import (hget h s) = false -> is_unres (hget h s) = false ->
               In s (sids (m_self m)) /\ count_occ Nat.eq_dec (sids (m_self m)) s = 1).
Proof.
  intros h T anc Ot skip m HT HO Hd H.
  destruct (merge_spec _ _ _ _ _ _ _ _ HT HO Hd H) as [h1 [_ [HM [_ Hall]]]].
  destruct HM as [Htok _ Hsub Hsup _ _ _ _ _].
  split; [apply Htok|]. split; [apply Htok|]. split; [exact Hsup|]. split; [exact Hsub|].
  intros s Hs Hk Hc Hi Hu. pose proof (Hall s Hs Hk Hc Hi Hu) as Hin. split; [exact Hin|].
  apply NoDup_count_occ'; [apply Htok | exact Hin].
Qed.

(* the table stays consistent over the heap the merge leaves behind, whatever the outcome *)
Theorem merge_keeps_table_ok_ : forall h T anc Ot skip m ph oe,
    TOK h T -> TOK h Ot -> (forall s, In s (sids T) -> ~ In s (sids Ot)) ->
    merge h T anc Ot skip = (m, ph, oe) -> TOK (m_heap m) (m_self m).
Proof.
  intros h T anc Ot skip m ph oe HT HO Hd H.
  destruct (merge_spec _ _ _ _ _ _ _ _ HT HO Hd H) as [h1 [[[Hlen Hnm] _] Hpost]].
  destruct ph.
  - destruct Hpost as [E _]. subst m. simpl. eapply TOK_frame; [exact HT | lia | intros s _; apply Hnm].
  - apply Hpost.
  - apply Hpost.
Qed.

(* a merge never renames a symbol that is in neither of its two tables *)
Theorem merge_renames_local_ : forall h T anc Ot skip m ph oe,
    TOK h T -> TOK h Ot -> (forall s, In s (sids T) -> ~ In s (sids Ot)) ->
    merge h T anc Ot skip = (m, ph, oe) ->
    forall s, ~ In s (sids T) -> ~ In s (sids Ot) -> s_name (hget (m_heap m) s) = s_name (hget h s).
Proof.
  intros h T anc Ot skip m ph oe HT HO Hd H s H1 H2.
  destruct (merge_spec _ _ _ _ _ _ _ _ HT HO Hd H) as [h1 [[[Hlen Hnm] _] Hpost]].
  destruct ph.
  - destruct Hpost as [E _]. subst m. simpl. apply Hnm.
  - destruct Hpost as [HM _]. rewrite (mi_frame _ _ _ _ HM s H1 H2). apply Hnm.
  - destruct Hpost as [HM _]. rewrite (mi_frame _ _ _ _ HM s H1 H2). apply Hnm.
Qed.

(* ============================================================ 5. rejected => unchanged *)
Lemma mk_sym_name : forall name sp, s_name (mk_sym name sp) = name.
Proof. intros name sp. unfold mk_sym. destruct (sp_kind sp); reflexivity. Qed.

Lemma new_symbol_rejected : forall st t T root tag sh sp allow st' e,
    new_symbol st t T root tag sh sp allow = (st', RErr e) -> st' = st.
Proof.
  intros st t T root tag sh sp allow st' e H. unfold new_symbol in H.
  destruct (next_available_name _ _ _ _ _); [|inversion H; reflexivity].
  destruct (negb allow && negb _); [inversion H; reflexivity|].
  match type of H with
  | (match ?X with _ => _ end) = _ => destruct X
  end; inversion H; reflexivity.
Qed.

Definition is_merge (o : op) : bool := match o with OMerge _ _ _ => true | _ => false end.

(* every operation other than merge: an exception leaves the whole state as it was *)
Theorem rejected_unchanged_nonmerge_ : forall st o st' e,
    is_merge o = false -> step st o = (st', RErr e) -> st' = st.
Proof.
  intros st o st' e Hm H. destruct o; simpl in Hm; try discriminate Hm; simpl in H.
  - destruct (get_table st t); [|inversion H; reflexivity].
    destruct (negb (spec_ok _ _)); [inversion H; reflexivity|].
    match type of H with (match ?X with _ => _ end) = _ => destruct X end; inversion H; reflexivity.
  - destruct (get_table st t); [|inversion H; reflexivity].
    destruct (negb (spec_ok _ _)); [inversion H; reflexivity|].
    eapply new_symbol_rejected; eauto.
  - destruct (get_table st t); [|inversion H; reflexivity].
    destruct (negb (spec_ok _ _)); [inversion H; reflexivity|].
    destruct (lookup _ _ _).
    + destruct (kind_isinstance _ _); inversion H; reflexivity.
    + eapply new_symbol_rejected; eauto.
  - destruct (get_table st t); [|inversion H; reflexivity].
    destruct (negb (spec_ok _ _)); [inversion H; reflexivity|].
    destruct (lookup_tag _ _ _).
    + destruct (kind_isinstance _ _); inversion H; reflexivity.
    + eapply new_symbol_rejected; eauto.
  - destruct (get_table st t); [|inversion H; reflexivity].
    destruct other as [ot|].
    + destruct (get_table st ot); [|inversion H; reflexivity].
      destruct (next_available_name _ _ _ _ _); inversion H; reflexivity.
    + destruct (next_available_name _ _ _ _ _); inversion H; reflexivity.
  - destruct (get_table st t); [|inversion H; reflexivity]. destruct (lookup _ _ _); inversion H; reflexivity.
  - destruct (get_table st t); [|inversion H; reflexivity]. destruct (lookup_tag _ _ _); inversion H; reflexivity.
  - destruct (get_table st t); [|inversion H; reflexivity].
    destruct (rename_symbol _ _ _ _) as [[h' T']|e']; inversion H; reflexivity.
  - destruct (get_table st t); [|inversion H; reflexivity].
    destruct (tbl_remove _ _ _); inversion H; reflexivity.
  - (* swap: after remove(old) the add(new) cannot fail *)
    destruct (get_table st t) as [T|]; [|inversion H; reflexivity].
    destruct (negb (spec_ok _ _)); [inversion H; reflexivity|].
    destruct (negb (String.eqb _ _)) eqn:En; [inversion H; reflexivity|].
    destruct (tbl_remove (st_heap st) T old) as [T1|e1] eqn:Er; [|inversion H; reflexivity].
    exfalso.
    apply negb_false_iff in En. apply String.eqb_eq in En.
    apply tbl_remove_spec in Er as [_ [Hs _]].
    unfold tbl_add in H. rewrite hget_app_new, mk_sym_name in H. rewrite Hs, <- En in H.
    assert (Hk : has_key (normalize (s_name (hget (st_heap st) old)))
                         (del_key (normalize (s_name (hget (st_heap st) old))) (t_syms T)) = false).
    { apply has_key_false. intro Hc. apply del_key_keys in Hc as [_ Hc]. apply Hc. reflexivity. }
    rewrite Hk in H. simpl in H. discriminate H.
  - destruct (get_table st t); [|inversion H; reflexivity].
    destruct (validate_arg_list _ _); inversion H; reflexivity.
  - discriminate H.
  - destruct (nth_error (st_slots st) i) as [[T|]|]; inversion H; reflexivity.
  - destruct (nth_error (st_det st) j) as [T|]; [|inversion H; reflexivity].
    destruct (nth_error (st_slots st) i) as [[T0|]|]; inversion H; reflexivity.
Qed.

(* merge rejected by check_for_clashes: the tables are untouched and the heap differs at most in
   symbol classes; if no unresolved symbol of the receiving table is named like an intrinsic, the
   heap is untouched too *)
Definition no_intrinsic_unresolved (h : heap) (T : table) : Prop :=
  forall s, In s (sids T) -> is_unres (hget h s) = true -> is_intrinsic_name (s_name (hget h s)) = false.

Lemma check_one_safe : forall h self other skip sw ow os h' oe,
    no_intrinsic_unresolved h self ->
    check_one h self other skip sw ow os = (h', oe) -> h' = h.
Proof.
  intros h self other skip sw ow os h' oe Hs H. unfold check_one in H.
  destruct (find_key _ (t_syms self)) as [ts|] eqn:Ef; [|inversion H; reflexivity].
  assert (Hts : In ts (sids self)) by (apply find_key_In in Ef; apply in_sids; eauto).
  destruct (mem_sid os skip); [inversion H; reflexivity|].
  destruct (is_container (hget h ts) && is_container (hget h os)); [inversion H; reflexivity|].
  destruct (is_intrinsic_sym (hget h ts) && is_intrinsic_sym (hget h os)); [inversion H; reflexivity|].
  destruct (is_import (hget h os) && is_import (hget h ts)).
  { destruct (import_eq _ _ _); inversion H; reflexivity. }
  destruct (is_unres (hget h os) && is_unres (hget h ts)) eqn:Eu.
  { apply andb_true_iff in Eu as [_ Eu]. rewrite (Hs ts Hts Eu) in H. rewrite andb_false_r in H.
    destruct (inter_nonempty sw ow && subset_str sw ow && subset_str ow sw); inversion H; reflexivity. }
  destruct (rename_check h self ts "") as [[]|]; try (inversion H; reflexivity).
  destruct (rename_check h other os ""); inversion H; reflexivity.
Qed.

Lemma check_loop_safe : forall l h self other skip sw ow h' oe,
    no_intrinsic_unresolved h self ->
    check_loop h self other skip sw ow l = (h', oe) -> h' = h.
Proof.
  induction l as [|os l IH]; intros h self other skip sw ow h' oe Hs H; simpl in H.
  - inversion H; reflexivity.
  - destruct (check_one h self other skip sw ow os) as [h1 [e|]] eqn:E.
    + inversion H; subst. eapply check_one_safe; eauto.
    + pose proof (check_one_safe _ _ _ _ _ _ _ _ _ Hs E). subst h1. eapply IH; eauto.
Qed.

Theorem merge_rejected_unchanged_partial_ : forall h T anc Ot skip m oe,
    merge h T anc Ot skip = (m, MRejected, oe) ->
    m_self m = T /\ m_other m = Ot /\
    (no_intrinsic_unresolved h T -> m_heap m = h).
Proof.
  intros h T anc Ot skip m oe H. unfold merge in H.
  destruct (check_for_clashes h T anc Ot skip) as [h1 [e|]] eqn:Ec.
  - inversion H; subst; simpl. split; [reflexivity|]. split; [reflexivity|].
    intros Hs. unfold check_for_clashes in Ec. eapply check_loop_safe; eauto.
  - destruct (add_containers _ _) as [m1 [e1|]]; [inversion H|].
    destruct (add_symbols _ _ _) as [m2 [e2|]]; inversion H.
Qed.

(* the same at the level of [step] *)
Theorem merge_step_rejected_unchanged_partial_ : forall st t j skip T Ot m oe st' r,
    get_table st t = Some T -> nth_error (st_det st) j = Some Ot ->
    merge (st_heap st) T (ancestors st t) Ot skip = (m, MRejected, oe) ->
    no_intrinsic_unresolved (st_heap st) T ->
    step st (OMerge t j skip) = (st', r) -> st' = st.
Proof.
  intros st t j skip T Ot m oe st' r HT HO Hm Hs H. simpl in H. rewrite HT, HO in H.
  destruct (match t with TDet j' => Nat.eqb j' j | _ => false end); [inversion H; reflexivity|].
  rewrite Hm in H. inversion H; subst.
  destruct (merge_rejected_unchanged_partial_ _ _ _ _ _ _ _ Hm) as [_ [_ Hh]].
  rewrite (Hh Hs). destruct st; reflexivity.
Qed.
