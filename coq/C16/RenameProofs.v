(* C16 -- merge renames only on clashes, positive part: if no key of the receiving table is a key
   of the other table, no symbol is renamed by merge (whatever its outcome). *)
From Coq Require Import List Arith Bool String Ascii NArith Lia Permutation.
Import ListNotations.
From PV Require Import C16.GenTables C16.Model C16.Names C16.Inv C16.MergeProofs.
Open Scope string_scope.
Open Scope list_scope.

Section NoClash.
  Variable h1 : heap.
  Variables T0 O0 : table.
  Variable anc : list table.
  Hypothesis HO : TOK h1 O0.
  Hypothesis O0_lt : forall s, In s (sids O0) -> s < List.length h1.
  (* an imported symbol is not a ContainerSymbol *)
  Hypothesis Himp : forall s, In s (sids O0) -> is_import (hget h1 s) = true -> is_container (hget h1 s) = false.

  Definition key1 (s : sid) : string := normalize (s_name (hget h1 s)).

  Definition same_nm (m : mst) : Prop := forall s, s_name (hget (m_heap m) s) = s_name (hget h1 s).

  (* no symbol of [l] that satisfies [p] has its key in the receiving table *)
  Definition NR (p : sid -> bool) (m : mst) (l : list sid) : Prop :=
    same_nm m /\ forall s, In s l -> p s = true -> ~ In (key1 s) (keys (m_self m)).

  Lemma key1_inj : forall a b, In a (sids O0) -> In b (sids O0) -> key1 a = key1 b -> a = b.
  Proof.
    intros a b Ha Hb E. apply in_sids in Ha as [ka Ha]. apply in_sids in Hb as [kb Hb].
    eapply TOK_names_unique; eauto.
  Qed.

  Lemma tbl_add_fresh : forall m s l p,
      NR p m (s :: l) -> p s = true -> NoDup (s :: l) -> (forall x, In x (s :: l) -> In x (sids O0)) ->
      exists T', tbl_add (m_heap m) (m_self m) anc s "" = inl T' /\
                 NR p (mkM (m_heap m) T' (m_other m)) l.
  Proof.
    intros m s l p [Hnm Hk] Hp Hnd Hl.
    assert (Hkey : normalize (s_name (hget (m_heap m) s)) = key1 s) by (unfold key1; rewrite Hnm; reflexivity).
    unfold tbl_add. rewrite Hkey.
    assert (Hf : has_key (key1 s) (t_syms (m_self m)) = false).
    { apply has_key_false. apply Hk; [left; reflexivity | exact Hp]. }
    rewrite Hf. simpl. eexists. split; [reflexivity|].
    split; [exact Hnm|]. simpl. intros x Hx Hpx Hc. unfold keys in Hc. simpl in Hc. rewrite map_app in Hc.
    apply in_app_or in Hc as [Hc|[Hc|[]]].
    - apply (Hk x (or_intror Hx) Hpx). exact Hc.
    - simpl in Hc. inversion Hnd as [|? ? Hn _]; subst. apply Hn.
      assert (s = x) by (apply key1_inj; [apply Hl; left; reflexivity | apply Hl; right; exact Hx | exact Hc]).
      subst. exact Hx.
  Qed.

  Lemma madd_self_fresh : forall m s l p,
      NR p m (s :: l) -> p s = true -> NoDup (s :: l) -> (forall x, In x (s :: l) -> In x (sids O0)) ->
      exists m', madd_self m anc s = (m', None) /\ NR p m' l /\ m_heap m' = m_heap m /\ m_other m' = m_other m.
  Proof.
    intros m s l p HN Hp Hnd Hl. destruct (tbl_add_fresh _ _ _ _ HN Hp Hnd Hl) as [T' [Ea HN']].
    unfold madd_self. rewrite Ea. eexists. split; [reflexivity|]. split; [exact HN'|]. split; reflexivity.
  Qed.

  Lemma fix_imports_fresh : forall li m csym l p m' oe,
      NR p m l -> (forall s, In s li -> In s l /\ p s = true) ->
      fix_imports m anc csym li = (m', oe) ->
      NR p m' l.
  Proof.
    induction li as [|isym li IH]; intros m csym l p m' oe HN Hli H; simpl in H.
    - inversion H; subst. exact HN.
    - destruct HN as [Hnm Hk]. destruct (Hli isym (or_introl eq_refl)) as [Hil Hip].
      assert (Hf : find_key (normalize (s_name (hget (m_heap m) isym))) (t_syms (m_self m)) = None).
      { apply find_key_None. rewrite Hnm. apply (Hk isym Hil Hip). }
      rewrite Hf in H.
      destruct (lookup (m_self m) anc (s_name (hget (m_heap m) csym))) as [c'|];
        [|inversion H; subst; split; assumption].
      eapply IH; [| intros s Hs; apply Hli; right; exact Hs | exact H].
      split; [|simpl; exact Hk].
      unfold same_nm. simpl. intros s. rewrite (hset_field _ s_name) by reflexivity. apply Hnm.
  Qed.

  Definition is_cont1 (s : sid) : bool := is_container (hget h1 s).
  Definition all_true (s : sid) : bool := true.
  Definition not_cont1 (s : sid) : bool := negb (is_container (hget h1 s)).

  (* container pass: [lc] are the containers still to do, [ln] every non-container symbol *)
  Lemma container_one_fresh : forall m csym lc ln m' oe,
      MI h1 T0 O0 m -> m_other m = O0 ->
      NR all_true m (csym :: lc ++ ln) -> NoDup (csym :: lc ++ ln) ->
      (forall x, In x (csym :: lc ++ ln) -> In x (sids O0)) ->
      (forall x, In x (sids O0) -> is_container (hget h1 x) = false -> In x ln) ->
      container_one m anc csym = (m', oe) ->
      NR all_true m' (lc ++ ln).
  Proof.
    intros m csym lc ln m' oe HM HOt HN Hnd Hl Hln H. unfold container_one in H.
    assert (Hf : find_key (normalize (s_name (hget (m_heap m) csym))) (t_syms (m_self m)) = None).
    { apply find_key_None. rewrite (proj1 HN). apply (proj2 HN csym (or_introl eq_refl) eq_refl). }
    rewrite Hf in H.
    destruct (madd_self_fresh _ _ _ _ HN eq_refl Hnd Hl) as [m1 [Ea [HN1 [Hh1 Ho1]]]].
    rewrite Ea in H.
    destruct (lookup (m_other m1) [] (s_name (hget (m_heap m1) csym))) as [c0|];
      [|inversion H; subst; exact HN1].
    destruct (negb (Nat.eqb c0 csym)); [inversion H; subst; exact HN1|].
    eapply fix_imports_fresh; [exact HN1 | | exact H].
    intros s Hs. split; [|reflexivity]. apply in_or_app. right.
    unfold imported_from in Hs. apply filter_In in Hs as [Hs1 Hs2].
    rewrite Ho1, HOt in Hs1.
    assert (Hi : is_import (hget h1 s) = true).
    { assert (Hi1 : is_import (hget (m_heap m1) s) = true)
        by (unfold is_import; destruct (s_iface (hget (m_heap m1) s)); congruence).
      rewrite Hh1 in Hi1. destruct (mi_ifc _ _ _ _ HM s) as [E _]. rewrite <- E. exact Hi1. }
    apply Hln; [exact Hs1 | apply Himp; assumption].
  Qed.

  Lemma container_loop_fresh : forall lc m ln m' oe,
      MI h1 T0 O0 m -> m_other m = O0 -> pend h1 O0 m lc ->
      NR all_true m (lc ++ ln) -> NoDup (lc ++ ln) ->
      (forall x, In x (lc ++ ln) -> In x (sids O0)) ->
      (forall x, In x lc -> is_container (hget h1 x) = true) ->
      (forall x, In x (sids O0) -> is_container (hget h1 x) = false -> In x ln) ->
      container_loop m anc lc = (m', oe) ->
      NR all_true m' ln.
  Proof.
    induction lc as [|c lc IH]; intros m ln m' oe HM HOt Hp HN Hnd Hl Hc Hln H; simpl in H.
    - inversion H; subst. exact HN.
    - simpl in *.
      assert (Hnd' : NoDup (c :: lc)).
      { apply NoDup_cons_iff in Hnd as [Hn Hd]. constructor.
        - intro Hx. apply Hn. apply in_or_app. left. exact Hx.
        - clear - Hd. induction lc as [|a lc IH]; simpl in *; [constructor|].
          inversion Hd; subst. constructor; [intro Hx; apply H1; apply in_or_app; left; exact Hx | apply IH; assumption]. }
      destruct (container_one m anc c) as [m1 [e1|]] eqn:E1.
      + inversion H. subst m' oe.
        pose proof (container_one_fresh _ _ _ _ _ _ HM HOt HN Hnd Hl Hln E1) as HN1.
        split; [apply HN1|]. intros s Hs _. apply (proj2 HN1 s); [apply in_or_app; right; exact Hs | reflexivity].
      + pose proof (container_one_fresh _ _ _ _ _ _ HM HOt HN Hnd Hl Hln E1) as HN1.
        destruct (container_one_MI h1 T0 O0 anc O0_lt _ _ _ _ _ HM HOt Hp Hnd' (Hl c (or_introl eq_refl))
                                   (Hc c (or_introl eq_refl)) E1) as [HM1 [Ho1 [_ Hp1]]].
        eapply (IH m1 ln m' oe HM1 Ho1 (Hp1 eq_refl) HN1); eauto.
        * apply NoDup_cons_iff in Hnd. apply Hnd.
  Qed.

  Lemma add_one_fresh : forall m skip os l m' oe,
      MI h1 T0 O0 m -> NR not_cont1 m (os :: l) -> NoDup (os :: l) ->
      (forall x, In x (os :: l) -> In x (sids O0)) ->
      add_one m anc skip os = (m', oe) -> NR not_cont1 m' l /\ oe = None.
  Proof.
    intros m skip os l m' oe HM HN Hnd Hl H. unfold add_one in H.
    assert (Htail : NR not_cont1 m l).
    { split; [apply HN|]. intros s Hs. apply (proj2 HN s). right; exact Hs. }
    destruct (mem_sid os skip); simpl in H; [inversion H; subst; split; [exact Htail | reflexivity]|].
    destruct (is_container (hget (m_heap m) os)) eqn:Ec; [inversion H; subst; split; [exact Htail | reflexivity]|].
    assert (Hp : not_cont1 os = true).
    { unfold not_cont1. rewrite <- (is_container_stable h1 T0 O0 m os HM). rewrite Ec. reflexivity. }
    destruct (tbl_add_fresh _ _ _ _ HN Hp Hnd Hl) as [T' [Ea HN']].
    rewrite Ea in H. inversion H; subst. split; [exact HN' | reflexivity].
  Qed.

  Lemma add_loop_fresh : forall l m skip m' oe,
      MI h1 T0 O0 m -> pend_add h1 m l -> NR not_cont1 m l -> NoDup l ->
      (forall x, In x l -> In x (sids O0)) ->
      add_loop m anc skip l = (m', oe) -> same_nm m' /\ oe = None.
  Proof.
    induction l as [|os l IH]; intros m skip m' oe HM Hp HN Hnd Hl H; simpl in H.
    - inversion H; subst. split; [apply HN | reflexivity].
    - destruct (add_one m anc skip os) as [m1 [e1|]] eqn:E1.
      + destruct (add_one_fresh _ _ _ _ _ _ HM HN Hnd Hl E1) as [_ Hc]. discriminate.
      + destruct (add_one_fresh _ _ _ _ _ _ HM HN Hnd Hl E1) as [HN1 _].
        destruct (add_one_MI h1 T0 O0 anc O0_lt _ _ _ _ _ _ HM Hp Hnd (Hl os (or_introl eq_refl)) E1)
          as [HM1 [_ [Hp1 _]]].
        inversion Hnd; subst.
        eapply (IH m1 skip m' oe HM1 (Hp1 eq_refl) HN1); eauto.
        intros x Hx. apply Hl. right. exact Hx.
  Qed.
End NoClash.

(* no common key => merge renames nothing, whatever its outcome *)
Theorem merge_no_clash_no_rename_ : forall h T anc Ot skip m ph oe,
    TOK h T -> TOK h Ot -> (forall s, In s (sids T) -> ~ In s (sids Ot)) ->
    (forall s, In s (sids Ot) -> is_import (hget h s) = true -> is_container (hget h s) = false) ->
    (forall k, In k (keys T) -> ~ In k (keys Ot)) ->
    merge h T anc Ot skip = (m, ph, oe) ->
    forall s, s_name (hget (m_heap m) s) = s_name (hget h s).
Proof.
  intros h T anc Ot skip m ph oe HT HOt Hdisj Himp Hnc H. unfold merge in H.
  destruct (check_for_clashes h T anc Ot skip) as [h1 [e|]] eqn:Ec.
  { inversion H; subst; simpl. apply (check_for_clashes_names _ _ _ _ _ _ _ Ec). }
  pose proof (check_for_clashes_checked _ _ _ _ _ _ _ Ec) as [[Hlen Hnm] [Hif Hco]].
  assert (HT1 : TOK h1 T) by (eapply TOK_frame; [exact HT | lia | intros s _; apply Hnm]).
  assert (HO1 : TOK h1 Ot) by (eapply TOK_frame; [exact HOt | lia | intros s _; apply Hnm]).
  assert (Hlt : forall s, In s (sids Ot) -> s < List.length h1).
  { intros s Hs. apply in_sids in Hs as [k Hk]. destruct HO1 as [_ [_ Hn]]. apply (Hn _ _ Hk). }
  assert (Himp1 : forall s, In s (sids Ot) -> is_import (hget h1 s) = true -> is_container (hget h1 s) = false).
  { intros s Hs Hi. rewrite Hco. apply Himp; [exact Hs|]. unfold is_import in *. rewrite <- Hif. exact Hi. }
  set (lc := filter (fun s => is_container (hget h1 s)) (sids Ot)).
  set (ln := filter (fun s => negb (is_container (hget h1 s))) (sids Ot)).
  pose proof (MI_init h1 T Ot HT1) as HM0.
  assert (Hkeys : forall s, In s (sids Ot) -> ~ In (key1 h1 s) (keys T)).
  { intros s Hs Hc. apply (Hnc _ Hc). apply in_sids in Hs as [k Hk].
    destruct HO1 as [_ [_ Hn]]. destruct (Hn _ _ Hk) as [Ek _]. unfold key1. rewrite <- Ek.
    apply in_keys. eauto. }
  assert (HN0 : NR h1 all_true (mkM h1 T Ot) (lc ++ ln)).
  { split; [intros s; reflexivity|]. simpl. intros s Hs _. apply Hkeys.
    apply in_app_or in Hs as [Hs|Hs]; apply filter_In in Hs; apply Hs. }
  assert (Hnd : NoDup (lc ++ ln)).
  { assert (Hnds := proj1 (proj2 HO1)). clear - Hnds. unfold lc, ln.
    induction (sids Ot) as [|a l IH]; simpl; [constructor|].
    inversion Hnds; subst. destruct (is_container (hget h1 a)); simpl.
    - constructor; [|apply IH; assumption]. intro Hc. apply H1.
      apply in_app_or in Hc as [Hc|Hc]; apply filter_In in Hc; apply Hc.
    - apply NoDup_Add with (a := a) (l := filter (fun s => is_container (hget h1 s)) l ++ filter (fun s => negb (is_container (hget h1 s))) l).
      + apply Add_app.
      + split; [apply IH; assumption|]. intro Hc. apply H1.
        apply in_app_or in Hc as [Hc|Hc]; apply filter_In in Hc; apply Hc. }
  assert (Hl : forall x, In x (lc ++ ln) -> In x (sids Ot)).
  { intros x Hx. apply in_app_or in Hx as [Hx|Hx]; apply filter_In in Hx; apply Hx. }
  assert (Hc : forall x, In x lc -> is_container (hget h1 x) = true).
  { intros x Hx. apply filter_In in Hx. apply Hx. }
  assert (Hln : forall x, In x (sids Ot) -> is_container (hget h1 x) = false -> In x ln).
  { intros x Hx Hk. apply filter_In. split; [exact Hx | rewrite Hk; reflexivity]. }
  assert (Hpend0 : pend h1 Ot (mkM h1 T Ot) lc).
  { split; simpl.
    - intros s Hs Hcc. apply filter_In in Hs as [Hs _]. apply (Hdisj _ Hcc Hs).
    - intros s Hs _ Hcc. apply (Hdisj _ Hcc Hs). }
  unfold add_containers in H. simpl in H. fold lc in H.
  destruct (container_loop (mkM h1 T Ot) anc lc) as [m1 [e1|]] eqn:E1.
  - inversion H; subst.
    pose proof (container_loop_fresh h1 T Ot anc HO1 Hlt Himp1 lc _ ln _ _ HM0 eq_refl Hpend0 HN0 Hnd Hl Hc Hln E1) as HN1.
    intros s. rewrite (proj1 HN1 s). apply Hnm.
  - pose proof (container_loop_fresh h1 T Ot anc HO1 Hlt Himp1 lc _ ln _ _ HM0 eq_refl Hpend0 HN0 Hnd Hl Hc Hln E1) as HN1.
    destruct (container_loop_MI h1 T Ot anc Hlt _ _ _ _ HM0 eq_refl Hpend0
                (NoDup_filter _ (proj1 (proj2 HO1)))
                (fun s Hs => let (a, b) := proj1 (filter_In _ _ _) Hs in conj a b) E1)
      as [HM1 [Ho1 [_ Hp1]]].
    unfold add_symbols in H. rewrite Ho1 in H. clear Ho1.
    assert (Hpa : pend_add h1 m1 (sids Ot)).
    { intros s Hs Hk. apply (proj2 (Hp1 eq_refl)); assumption. }
    assert (HNa : NR h1 (not_cont1 h1) m1 (sids Ot)).
    { split; [apply HN1|]. intros s Hs Hp. apply (proj2 HN1 s); [|reflexivity].
      apply Hln; [exact Hs|]. unfold not_cont1 in Hp. apply negb_true_iff in Hp. exact Hp. }
    destruct (add_loop m1 anc skip (sids Ot)) as [m2 [e2|]] eqn:E2.
    + destruct (add_loop_fresh h1 T Ot anc HO1 Hlt _ _ _ _ _ HM1 Hpa HNa (proj1 (proj2 HO1)) (fun x Hx => Hx) E2) as [_ Hcc].
      discriminate.
    + destruct (add_loop_fresh h1 T Ot anc HO1 Hlt _ _ _ _ _ HM1 Hpa HNa (proj1 (proj2 HO1)) (fun x Hx => Hx) E2) as [Hs2 _].
      inversion H; subst. intros s. rewrite (Hs2 s). apply Hnm.
Qed.
