(* C16 -- model of psyclone.psyir.symbols.SymbolTable (src/psyclone/psyir/symbols/symbol_table.py)
   and of the scope chain of ScopingNode (src/psyclone/psyir/nodes/scoping_node.py).

   No proofs in this file.  Everything is a total computable function.

   * names           : Coq [string]; [normalize] = ASCII lower-casing (SymbolTable._normalize);
   * symbol objects  : a heap [list sym] indexed by identity [sid] (Python object identity);
                       a symbol has a name, a class (kind), the ContainerSymbol wildcard flag
                       and an interface (only as far as merge/check_for_clashes/rename/remove
                       look at it);
   * a table         : [_symbols] (insertion-ordered association list key -> sid),
                       [_tags] (tag -> sid), [_argument_list];
   * the scope chain : a list of ScopingNode slots, innermost first, each with an attached table
                       or none ([parent_symbol_table] stops at the first enclosing ScopingNode,
                       and returns its table -- None if that node has no table attached);
                       plus a list of detached tables.
   [step] executes one public operation and returns the new state and the result
   (value or exception kind).  The model is faithful to the code as it is, including the places
   where a raised exception leaves side effects behind (merge). *)
From Coq Require Import List Arith Bool String Ascii NArith DecimalString.
Import ListNotations.
From PV Require Import C16.GenTables.
Open Scope string_scope.

(* ------------------------------------------------------------------ names *)
Definition lower_ascii (c : ascii) : ascii :=
  let n := N_of_ascii c in
  if (N.leb 65 n && N.leb n 90)%bool then ascii_of_N (n + 32) else c.

Fixpoint normalize (s : string) : string :=
  match s with
  | EmptyString => EmptyString
  | String c r => String (lower_ascii c) (normalize r)
  end.

(* str(idx) *)
Definition dec (n : N) : string := NilEmpty.string_of_uint (N.to_uint n).

(* the candidates of next_available_name: root, root_1, root_2, ... *)
Definition cand (root : string) (i : N) : string :=
  match i with
  | N0 => root
  | _ => root ++ "_" ++ dec i
  end.

Fixpoint mem_str (x : string) (l : list string) : bool :=
  match l with
  | [] => false
  | y :: r => if String.eqb x y then true else mem_str x r
  end.

(* ---------------------------------------------------------------- symbols *)
Definition sid := nat.

(* Symbol, DataSymbol, ContainerSymbol, RoutineSymbol, IntrinsicSymbol,
   GenericInterfaceSymbol (a RoutineSymbol; with the symbol objects of its member routines) *)
Inductive kind := KGeneric | KData | KContainer | KRoutine | KIntrinsic | KGenIface (routines : list sid).

(* AutomaticInterface, ArgumentInterface, ImportInterface(container symbol, orig_name or ""),
   UnresolvedInterface, CommonBlockInterface, anything else (Static/DefaultModule/Unknown/
   FortranModuleInterface) *)
Inductive iface := IAuto | IArg | IImport (c : sid) (orig : string) | IUnres | ICommon | IOther.

Record sym := mkSym { s_name : string; s_kind : kind; s_wild : bool; s_iface : iface }.

Definition dummy_sym : sym := mkSym "" KGeneric false IAuto.

Definition heap := list sym.
Definition hget (h : heap) (s : sid) : sym := nth s h dummy_sym.
Fixpoint hset (h : heap) (s : sid) (v : sym) : heap :=
  match h, s with
  | [], _ => []
  | _ :: r, O => v :: r
  | x :: r, S s' => x :: hset r s' v
  end.

Definition set_name (y : sym) (n : string) : sym := mkSym n (s_kind y) (s_wild y) (s_iface y).
Definition set_kind (y : sym) (k : kind) : sym := mkSym (s_name y) k (s_wild y) (s_iface y).
Definition set_wild (y : sym) (w : bool) : sym := mkSym (s_name y) (s_kind y) w (s_iface y).
Definition set_iface (y : sym) (i : iface) : sym := mkSym (s_name y) (s_kind y) (s_wild y) i.

Definition kind_eqb (a b : kind) : bool :=
  match a, b with
  | KGeneric, KGeneric | KData, KData | KContainer, KContainer
  | KRoutine, KRoutine | KIntrinsic, KIntrinsic => true
  | KGenIface _, KGenIface _ => true
  | _, _ => false
  end.

Definition is_container (y : sym) : bool := kind_eqb (s_kind y) KContainer.
Definition is_intrinsic_sym (y : sym) : bool := kind_eqb (s_kind y) KIntrinsic.
Definition is_import (y : sym) : bool := match s_iface y with IImport _ _ => true | _ => false end.
Definition is_unres (y : sym) : bool := match s_iface y with IUnres => true | _ => false end.
Definition is_arg (y : sym) : bool := match s_iface y with IArg => true | _ => false end.
Definition is_common (y : sym) : bool := match s_iface y with ICommon => true | _ => false end.

(* isinstance(symbol of class a, class b) *)
Definition kind_isinstance (a b : kind) : bool :=
  match b with
  | KGeneric => true
  | KData => kind_eqb a KData
  | KContainer => kind_eqb a KContainer
  | KRoutine => kind_eqb a KRoutine || kind_eqb a KIntrinsic || kind_eqb a (KGenIface [])
  | KIntrinsic => kind_eqb a KIntrinsic
  | KGenIface _ => kind_eqb a (KGenIface [])
  end.

(* IntrinsicCall.Intrinsic[name.upper()] exists *)
Definition is_intrinsic_name (n : string) : bool := mem_str (normalize n) intrinsic_names.

(* ----------------------------------------------------------------- tables *)
Record table := mkTable { t_syms : list (string * sid);
                          t_tags : list (string * sid);
                          t_args : list sid }.

Definition empty_table : table := mkTable [] [] [].
Definition keys (T : table) : list string := map fst (t_syms T).
Definition sids (T : table) : list sid := map snd (t_syms T).

Fixpoint find_key (k : string) (l : list (string * sid)) : option sid :=
  match l with
  | [] => None
  | (k', s) :: r => if String.eqb k k' then Some s else find_key k r
  end.

Definition has_key (k : string) (l : list (string * sid)) : bool :=
  match find_key k l with Some _ => true | None => false end.

Definition del_key (k : string) (l : list (string * sid)) : list (string * sid) :=
  filter (fun e => negb (String.eqb k (fst e))) l.

Fixpoint mem_sid (s : sid) (l : list sid) : bool :=
  match l with
  | [] => false
  | x :: r => if Nat.eqb s x then true else mem_sid s r
  end.

(* get_symbols()/get_tags(): "for k, v in current.items(): if k not in all: all[k] = v", from
   the table itself outwards *)
Fixpoint add_missing (acc l : list (string * sid)) : list (string * sid) :=
  match l with
  | [] => acc
  | (k, s) :: r => if has_key k acc then add_missing acc r else add_missing (acc ++ [(k, s)]) r
  end.

Definition get_symbols (T : table) (anc : list table) : list (string * sid) :=
  fold_left (fun acc T' => add_missing acc (t_syms T')) (T :: anc) [].

Definition get_tags (T : table) (anc : list table) : list (string * sid) :=
  fold_left (fun acc T' => add_missing acc (t_tags T')) (T :: anc) [].

(* lookup(name) / lookup_with_tag(tag); None = KeyError *)
Definition lookup (T : table) (anc : list table) (name : string) : option sid :=
  find_key (normalize name) (get_symbols T anc).
Definition lookup_tag (T : table) (anc : list table) (tag : string) : option sid :=
  find_key tag (get_tags T anc).

(* ------------------------------------------------------ exceptions, results *)
Inductive err := EKey | EValue | EType | ESymbol | EInternal | ENotImpl
               | EFuel      (* model only: the name-search fuel ran out (proved impossible) *)
               | ENoTable.  (* model only: the operation addressed a table that does not exist *)

Inductive result := RUnit | RSym (s : sid) | RName (n : string) | RErr (e : err).

(* ---------------------------------------------------- next_available_name *)
Fixpoint fresh_loop (fuel : nat) (root : string) (existing : list string) (i : N) : option string :=
  match fuel with
  | O => None
  | S f => let c := cand root i in
           if mem_str (normalize c) existing then fresh_loop f root existing (N.succ i)
           else Some c
  end.

(* existing_names: keys of self (and of the ancestors unless shadowing) united with the keys of
   other_table.  fuel = |existing| + 1 (Proofs.v: never exhausted). *)
Definition existing_names (T : table) (anc : list table) (shadowing : bool)
           (other : option table) : list string :=
  (if shadowing then keys T else map fst (get_symbols T anc))
    ++ match other with Some Ot => keys Ot | None => [] end.

Definition next_available_name (T : table) (anc : list table) (root : string) (shadowing : bool)
           (other : option table) : option string :=
  let ex := existing_names T anc shadowing other in
  let root' := if String.eqb root "" then default_root else root in
  fresh_loop (S (List.length ex)) root' ex 0%N.

(* -------------------------------------------------------------------- add *)
(* add(new_symbol, tag): the symbol object [s] already exists on the heap *)
Definition tbl_add (h : heap) (T : table) (anc : list table) (s : sid) (tag : string)
  : table + err :=
  let key := normalize (s_name (hget h s)) in
  if has_key key (t_syms T) then inr EKey
  else if String.eqb tag "" then
         inl (mkTable (t_syms T ++ [(key, s)]) (t_tags T) (t_args T))
       else if has_key tag (get_tags T anc) then inr EKey
            else inl (mkTable (t_syms T ++ [(key, s)]) (t_tags T ++ [(tag, s)]) (t_args T)).

(* ---------------------------------------------------------- rename_symbol *)
(* the validation part (all of it when dry_run=True); None = passes *)
Definition rename_check (h : heap) (T : table) (s : sid) (name : string) : option err :=
  if negb (mem_sid s (sids T)) then Some EValue
  else let y := hget h s in
       if is_container y then Some ESymbol
       else if is_import y then Some ESymbol
       else if is_unres y then Some ESymbol
       else if is_arg y then Some ESymbol
       else if is_common y then Some ESymbol
       else if has_key (normalize name) (t_syms T) then Some EKey
       else None.

(* del self._symbols[old_name]; symbol._name = name; self.add(symbol)
   (the key test inside that add() cannot fail after rename_check; it is not repeated) *)
Definition rename_do (h : heap) (T : table) (s : sid) (name : string) : (heap * table) + err :=
  let old := normalize (s_name (hget h s)) in
  if has_key old (t_syms T) then
    inl (hset h s (set_name (hget h s) name),
         mkTable (del_key old (t_syms T) ++ [(normalize name, s)]) (t_tags T) (t_args T))
  else inr EKey.

Definition rename_symbol (h : heap) (T : table) (s : sid) (name : string) : (heap * table) + err :=
  match rename_check h T s name with
  | Some e => inr e
  | None => rename_do h T s name
  end.

(* ----------------------------------------------------------------- remove *)
Definition imported_from (h : heap) (T : table) (c : sid) : list sid :=
  filter (fun x => match s_iface (hget h x) with IImport c' _ => Nat.eqb c' c | _ => false end)
         (sids T).

(* _validate_remove_routinesymbol, the part about GenericInterfaceSymbols of the same table (the
   walk over Calls of the attached tree is not modelled: the harness trees contain no Call) *)
Definition is_routine (y : sym) : bool :=
  match s_kind y with KRoutine | KIntrinsic | KGenIface _ => true | _ => false end.
Definition in_interface (h : heap) (T : table) (s : sid) : bool :=
  existsb (fun x => match s_kind (hget h x) with KGenIface l => mem_sid s l | _ => false end) (sids T).

Definition tbl_remove (h : heap) (T : table) (s : sid) : table + err :=
  let y := hget h s in
  match s_kind y with
  | KData => inr ENotImpl
  | _ =>
    let k := normalize (s_name y) in
    match find_key k (t_syms T) with
    | None => inr EKey
    | Some s' =>
      if negb (Nat.eqb s' s) then inr EInternal
      else if is_container y && negb (match imported_from h T s with [] => true | _ => false end)
           then inr EValue
           else if is_routine y && in_interface h T s then inr EValue
           else inl (mkTable (del_key k (t_syms T))
                             (filter (fun e => negb (Nat.eqb (snd e) s)) (t_tags T))
                             (t_args T))
    end
  end.

(* ---------------------------------------------------- specify_argument_list *)
Fixpoint validate_arg_list (h : heap) (l : list sid) : option err :=
  match l with
  | [] => None
  | s :: r => let y := hget h s in
              if negb (kind_eqb (s_kind y) KData) then Some EType
              else if negb (is_arg y) then Some EValue
              else validate_arg_list h r
  end.

(* ------------------------------------------------------------------ merge *)
(* local state of a merge: the heap, the receiving table and the other table; the ancestors of
   the receiving table are read-only *)
Record mst := mkM { m_heap : heap; m_self : table; m_other : table }.

(* wildcard_imports(): names (not normalised) of the wildcard ContainerSymbols of a table and of
   its ancestors *)
Definition wildcards (h : heap) (Ts : list table) : list string :=
  flat_map (fun T => map (fun s => s_name (hget h s))
                         (filter (fun s => is_container (hget h s) && s_wild (hget h s)) (sids T))) Ts.

Definition subset_str (a b : list string) : bool := forallb (fun x => mem_str x b) a.
Definition inter_nonempty (a b : list string) : bool := existsb (fun x => mem_str x b) a.

(* ImportInterface.__eq__ *)
Definition import_eq (h : heap) (a b : iface) : bool :=
  match a, b with
  | IImport c1 o1, IImport c2 o2 =>
      String.eqb (normalize (s_name (hget h c1))) (normalize (s_name (hget h c2)))
      && String.eqb (normalize o1) (normalize o2)
  | _, _ => false
  end.

(* specialise(IntrinsicSymbol): TypeError unless the class is Symbol or RoutineSymbol *)
Definition specialise_intrinsic (h : heap) (s : sid) : heap + err :=
  match s_kind (hget h s) with
  | KGeneric | KRoutine => inl (hset h s (set_kind (hget h s) KIntrinsic))
  | _ => inr EType
  end.

(* one iteration of the loop of check_for_clashes; returns the heap (symbols may have been
   specialised) and the exception raised, if any *)
Definition check_one (h : heap) (self other : table) (skip : list sid)
           (self_w other_w : list string) (os : sid) : heap * option err :=
  let oy := hget h os in
  match find_key (normalize (s_name oy)) (t_syms self) with
  | None => (h, None)                                    (* other_sym.name not in self *)
  | Some ts =>
    if mem_sid os skip then (h, None)
    else
      let ty := hget h ts in
      if is_container ty && is_container oy then (h, None)
      else if is_intrinsic_sym ty && is_intrinsic_sym oy then (h, None)
      else if is_import oy && is_import ty then
             (if import_eq h (s_iface ty) (s_iface oy) then (h, None) else (h, Some ESymbol))
      else if is_unres oy && is_unres ty then
             (if inter_nonempty self_w other_w && subset_str self_w other_w && subset_str other_w self_w
              then (h, None)
              else if (match self_w, other_w with [], [] => true | _, _ => false end)
                      && is_intrinsic_name (s_name ty) then
                     (* "Take this opportunity to specialise the symbol(s)." *)
                     match (if is_intrinsic_sym ty then inl h else specialise_intrinsic h ts) with
                     | inr e => (h, Some e)
                     | inl h1 =>
                       match (if is_intrinsic_sym (hget h1 os) then inl h1
                              else specialise_intrinsic h1 os) with
                       | inr e => (h1, Some e)
                       | inl h2 => (h2, None)
                       end
                     end
                   else (h, Some ESymbol))
      else
        (* self.rename_symbol(this_sym, "", dry_run=True), else the same on other_table *)
        match rename_check h self ts "" with
        | None => (h, None)
        | Some ESymbol =>
            match rename_check h other os "" with
            | None => (h, None)
            | Some e => (h, Some e)       (* SymbolError, or another exception escaping *)
            end
        | Some e => (h, Some e)
        end
  end.

Fixpoint check_loop (h : heap) (self other : table) (skip : list sid) (sw ow : list string)
         (l : list sid) : heap * option err :=
  match l with
  | [] => (h, None)
  | os :: r => match check_one h self other skip sw ow os with
               | (h', Some e) => (h', Some e)
               | (h', None) => check_loop h' self other skip sw ow r
               end
  end.

Definition check_for_clashes (h : heap) (self : table) (anc : list table) (other : table)
           (skip : list sid) : heap * option err :=
  check_loop h self other skip (wildcards h (self :: anc)) (wildcards h [other]) (sids other).

(* self.rename_symbol(sym, self.next_available_name(root, other_table=other_table)) *)
Definition rename_fresh (m : mst) (anc : list table) (s : sid) (root : string) : mst * option err :=
  match next_available_name (m_self m) anc root false (Some (m_other m)) with
  | None => (m, Some EFuel)
  | Some nm => match rename_symbol (m_heap m) (m_self m) s nm with
               | inr e => (m, Some e)
               | inl (h', T') => (mkM h' T' (m_other m), None)
               end
  end.

Definition madd_self (m : mst) (anc : list table) (s : sid) : mst * option err :=
  match tbl_add (m_heap m) (m_self m) anc s "" with
  | inr e => (m, Some e)
  | inl T' => (mkM (m_heap m) T' (m_other m), None)
  end.

(* inner loop of _add_container_symbols_from_table over the symbols imported from csym *)
Fixpoint fix_imports (m : mst) (anc : list table) (csym : sid) (l : list sid) : mst * option err :=
  match l with
  | [] => (m, None)
  | isym :: r =>
    let iy := hget (m_heap m) isym in
    let step1 :=
      match find_key (normalize (s_name iy)) (t_syms (m_self m)) with
      | None => (m, None)
      | Some osym =>
          if is_import (hget (m_heap m) osym) then (m, None)
          else rename_fresh m anc osym (s_name (hget (m_heap m) osym))
      end in
    match step1 with
    | (m1, Some e) => (m1, Some e)
    | (m1, None) =>
      (* isym.interface = ImportInterface(self.lookup(csym.name), orig_name=...) *)
      match lookup (m_self m1) anc (s_name (hget (m_heap m1) csym)) with
      | None => (m1, Some EKey)
      | Some c' =>
        let iy1 := hget (m_heap m1) isym in
        let orig := match s_iface iy1 with IImport _ o => o | _ => "" end in
        fix_imports (mkM (hset (m_heap m1) isym (set_iface iy1 (IImport c' orig)))
                         (m_self m1) (m_other m1)) anc csym r
      end
    end
  end.

Definition container_one (m : mst) (anc : list table) (csym : sid) : mst * option err :=
  let cy := hget (m_heap m) csym in
  let step1 :=
    match find_key (normalize (s_name cy)) (t_syms (m_self m)) with
    | Some scs =>
        if negb (is_container (hget (m_heap m) scs)) then
          match rename_fresh m anc scs (s_name cy) with
          | (m1, Some e) => (m1, Some e)
          | (m1, None) => madd_self m1 anc csym
          end
        else if s_wild cy
             then (mkM (hset (m_heap m) scs (set_wild (hget (m_heap m) scs) true))
                       (m_self m) (m_other m), None)
             else (m, None)
    | None => madd_self m anc csym
    end in
  match step1 with
  | (m1, Some e) => (m1, Some e)
  | (m1, None) =>
    (* other_table.symbols_imported_from(csym): KeyError unless other_table.lookup(csym.name)
       is csym (the other table is detached: no ancestors) *)
    match lookup (m_other m1) [] (s_name (hget (m_heap m1) csym)) with
    | None => (m1, Some EKey)
    | Some c0 =>
      if negb (Nat.eqb c0 csym) then (m1, Some EKey)
      else fix_imports m1 anc csym (imported_from (m_heap m1) (m_other m1) csym)
    end
  end.

Fixpoint container_loop (m : mst) (anc : list table) (l : list sid) : mst * option err :=
  match l with
  | [] => (m, None)
  | c :: r => match container_one m anc c with
              | (m1, Some e) => (m1, Some e)
              | (m1, None) => container_loop m1 anc r
              end
  end.

Definition add_containers (m : mst) (anc : list table) : mst * option err :=
  container_loop m anc (filter (fun s => is_container (hget (m_heap m) s)) (sids (m_other m))).

(* _handle_symbol_clash, the part after "if old_sym.is_import: ..." *)
Definition handle_clash_rename (m : mst) (anc : list table) (os : sid) : mst * option err :=
  let oy := hget (m_heap m) os in
  match lookup (m_self m) anc (s_name oy) with
  | None => (m, Some EKey)
  | Some ss =>
    if is_unres oy && is_unres (hget (m_heap m) ss) then (m, None)
    else
      match next_available_name (m_self m) anc (s_name oy) false (Some (m_other m)) with
      | None => (m, Some EFuel)
      | Some nm =>
        match rename_symbol (m_heap m) (m_other m) os nm with
        | inl (h', Ot') => madd_self (mkM h' (m_self m) Ot') anc os
        | inr ESymbol =>
            match rename_symbol (m_heap m) (m_self m) ss nm with
            | inr e => (m, Some e)
            | inl (h', T') => madd_self (mkM h' T' (m_other m)) anc os
            end
        | inr e => (m, Some e)
        end
      end
  end.

(* _handle_symbol_clash *)
Definition handle_clash (m : mst) (anc : list table) (os : sid) : mst * option err :=
  match s_iface (hget (m_heap m) os) with
  | IImport c _ =>
      match lookup (m_self m) anc (s_name (hget (m_heap m) c)) with
      | None => (m, Some EKey)
      | Some sc => if Nat.eqb sc c then (m, None) else (m, Some EInternal)
      end
  | _ => handle_clash_rename m anc os
  end.

Definition add_one (m : mst) (anc : list table) (skip : list sid) (os : sid) : mst * option err :=
  if mem_sid os skip || is_container (hget (m_heap m) os) then (m, None)
  else match tbl_add (m_heap m) (m_self m) anc os "" with
       | inl T' => (mkM (m_heap m) T' (m_other m), None)
       | inr EKey => handle_clash m anc os
       | inr e => (m, Some e)
       end.

Fixpoint add_loop (m : mst) (anc : list table) (skip : list sid) (l : list sid) : mst * option err :=
  match l with
  | [] => (m, None)
  | s :: r => match add_one m anc skip s with
              | (m1, Some e) => (m1, Some e)
              | (m1, None) => add_loop m1 anc skip r
              end
  end.

Definition add_symbols (m : mst) (anc : list table) (skip : list sid) : mst * option err :=
  add_loop m anc skip (sids (m_other m)).

(* how far a merge got *)
Inductive mphase := MRejected   (* check_for_clashes raised: no table was touched *)
                  | MPartial    (* an exception escaped after check_for_clashes *)
                  | MDone.

Definition merge (h : heap) (self : table) (anc : list table) (other : table) (skip : list sid)
  : mst * mphase * option err :=
  match check_for_clashes h self anc other skip with
  | (h1, Some e) => (mkM h1 self other, MRejected, Some e)
  | (h1, None) =>
    match add_containers (mkM h1 self other) anc with
    | (m1, Some e) => (m1, MPartial, Some e)
    | (m1, None) =>
      match add_symbols m1 anc skip with
      | (m2, Some e) => (m2, MPartial, Some e)
      | (m2, None) => (m2, MDone, None)
      end
    end
  end.

(* ------------------------------------------------------------ whole state *)
Record state := mkState { st_heap : heap;
                          st_slots : list (option table);   (* innermost first *)
                          st_det : list table }.

Inductive tref := TSlot (i : nat) | TDet (j : nat).

Fixpoint chain_of (l : list (option table)) : list table :=
  match l with
  | Some T :: r => T :: chain_of r
  | _ => []
  end.

Definition get_table (st : state) (t : tref) : option table :=
  match t with
  | TSlot i => match nth_error (st_slots st) i with Some (Some T) => Some T | _ => None end
  | TDet j => nth_error (st_det st) j
  end.

Definition ancestors (st : state) (t : tref) : list table :=
  match t with
  | TSlot i => chain_of (skipn (S i) (st_slots st))
  | TDet _ => []
  end.

Fixpoint list_set {A} (l : list A) (n : nat) (v : A) : list A :=
  match l, n with
  | [], _ => []
  | _ :: r, O => v :: r
  | x :: r, S n' => x :: list_set r n' v
  end.

Fixpoint list_del {A} (l : list A) (n : nat) : list A :=
  match l, n with
  | [], _ => []
  | _ :: r, O => r
  | x :: r, S n' => x :: list_del r n'
  end.

Definition set_table (st : state) (t : tref) (T : table) : state :=
  match t with
  | TSlot i => mkState (st_heap st) (list_set (st_slots st) i (Some T)) (st_det st)
  | TDet j => mkState (st_heap st) (st_slots st) (list_set (st_det st) j T)
  end.

Definition with_heap (st : state) (h : heap) : state := mkState h (st_slots st) (st_det st).

(* a new symbol object: name, class, wildcard flag (ContainerSymbol only), interface *)
Record symspec := mkSpec { sp_kind : kind; sp_wild : bool; sp_iface : iface }.

(* constructing the Python object: ImportInterface(container_symbol) raises TypeError unless it is
   given a ContainerSymbol; a ContainerSymbol always has a FortranModuleInterface *)
Definition spec_ok (h : heap) (sp : symspec) : bool :=
  match sp_iface sp with
  | IImport c _ => Nat.ltb c (List.length h) && is_container (hget h c)
  | _ => true
  end
  && match sp_kind sp with
     | KGenIface l => negb (match l with [] => true | _ => false end)
                      && forallb (fun r => Nat.ltb r (List.length h) && is_routine (hget h r)) l
     | _ => true
     end.

Definition mk_sym (name : string) (sp : symspec) : sym :=
  match sp_kind sp with
  | KContainer => mkSym name KContainer (sp_wild sp) IOther
  | k => mkSym name k false (sp_iface sp)
  end.

Inductive op :=
| OAdd (t : tref) (name : string) (sp : symspec) (tag : string)
| ONewSymbol (t : tref) (root tag : string) (shadowing : bool) (sp : symspec) (allow_renaming : bool)
| OFindOrCreate (t : tref) (name : string) (sp : symspec)
| OFindOrCreateTag (t : tref) (tag root : string) (shadowing : bool) (sp : symspec) (allow_renaming : bool)
| ONextName (t : tref) (root : string) (shadowing : bool) (other : option tref)
| OLookup (t : tref) (name : string)
| OLookupTag (t : tref) (tag : string)
| ORename (t : tref) (s : sid) (name : string)
| ORemove (t : tref) (s : sid)
| OSwap (t : tref) (old : sid) (name : string) (sp : symspec)
| OSpecifyArgs (t : tref) (l : list sid)
| OMerge (t : tref) (other : nat) (skip : list sid)
| ONewTable
| ODetach (i : nat)
| OAttach (j i : nat).

(* new_symbol(root, tag, shadowing, symbol_type, allow_renaming, **spec) *)
Definition new_symbol (st : state) (t : tref) (T : table) (root tag : string) (shadowing : bool)
           (sp : symspec) (allow : bool) : state * result :=
  let anc := ancestors st t in
  match next_available_name T anc root shadowing None with
  | None => (st, RErr EFuel)
  | Some nm =>
    if negb allow && negb (String.eqb nm root) then (st, RErr ESymbol)
    else
      let sp' := match sp_iface sp with
                 | IImport c _ => if String.eqb nm root then sp
                                  else mkSpec (sp_kind sp) (sp_wild sp) (IImport c root)
                 | _ => sp
                 end in
      let s := List.length (st_heap st) in
      let h' := (st_heap st ++ [mk_sym nm sp'])%list in
      match tbl_add h' T anc s tag with
      | inr e => (st, RErr e)
      | inl T' => (set_table (with_heap st h') t T', RSym s)
      end
  end.

Definition step (st : state) (o : op) : state * result :=
  match o with
  | OAdd t name sp tag =>
      match get_table st t with
      | None => (st, RErr ENoTable)
      | Some T =>
        if negb (spec_ok (st_heap st) sp) then (st, RErr EType)
        else
          let s := List.length (st_heap st) in
          let h' := (st_heap st ++ [mk_sym name sp])%list in
          match tbl_add h' T (ancestors st t) s tag with
          | inr e => (st, RErr e)
          | inl T' => (set_table (with_heap st h') t T', RSym s)
          end
      end
  | ONewSymbol t root tag shadowing sp allow =>
      match get_table st t with
      | None => (st, RErr ENoTable)
      | Some T => if negb (spec_ok (st_heap st) sp) then (st, RErr EType)
                  else new_symbol st t T root tag shadowing sp allow
      end
  | OFindOrCreate t name sp =>
      match get_table st t with
      | None => (st, RErr ENoTable)
      | Some T =>
        if negb (spec_ok (st_heap st) sp) then (st, RErr EType)
        else match lookup T (ancestors st t) name with
             | Some s => if kind_isinstance (s_kind (hget (st_heap st) s)) (sp_kind sp)
                         then (st, RSym s) else (st, RErr ESymbol)
             | None => new_symbol st t T name "" false sp true
             end
      end
  | OFindOrCreateTag t tag root shadowing sp allow =>
      match get_table st t with
      | None => (st, RErr ENoTable)
      | Some T =>
        if negb (spec_ok (st_heap st) sp) then (st, RErr EType)
        else match lookup_tag T (ancestors st t) tag with
             | Some s => if kind_isinstance (s_kind (hget (st_heap st) s)) (sp_kind sp)
                         then (st, RSym s) else (st, RErr ESymbol)
             | None => new_symbol st t T (if String.eqb root "" then tag else root) tag
                                  shadowing sp allow
             end
      end
  | ONextName t root shadowing other =>
      match get_table st t with
      | None => (st, RErr ENoTable)
      | Some T =>
        match other with
        | None => match next_available_name T (ancestors st t) root shadowing None with
                  | Some n => (st, RName n) | None => (st, RErr EFuel) end
        | Some ot =>
          match get_table st ot with
          | None => (st, RErr ENoTable)
          | Some Ot => match next_available_name T (ancestors st t) root shadowing (Some Ot) with
                      | Some n => (st, RName n) | None => (st, RErr EFuel) end
          end
        end
      end
  | OLookup t name =>
      match get_table st t with
      | None => (st, RErr ENoTable)
      | Some T => match lookup T (ancestors st t) name with
                  | Some s => (st, RSym s) | None => (st, RErr EKey) end
      end
  | OLookupTag t tag =>
      match get_table st t with
      | None => (st, RErr ENoTable)
      | Some T => match lookup_tag T (ancestors st t) tag with
                  | Some s => (st, RSym s) | None => (st, RErr EKey) end
      end
  | ORename t s name =>
      match get_table st t with
      | None => (st, RErr ENoTable)
      | Some T => match rename_symbol (st_heap st) T s name with
                  | inr e => (st, RErr e)
                  | inl (h', T') => (set_table (with_heap st h') t T', RUnit)
                  end
      end
  | ORemove t s =>
      match get_table st t with
      | None => (st, RErr ENoTable)
      | Some T => match tbl_remove (st_heap st) T s with
                  | inr e => (st, RErr e)
                  | inl T' => (set_table st t T', RUnit)
                  end
      end
  | OSwap t old name sp =>
      match get_table st t with
      | None => (st, RErr ENoTable)
      | Some T =>
        if negb (spec_ok (st_heap st) sp) then (st, RErr EType)
        else if negb (String.eqb (normalize (s_name (hget (st_heap st) old))) (normalize name))
        then (st, RErr ESymbol)
        else match tbl_remove (st_heap st) T old with
             | inr e => (st, RErr e)
             | inl T1 =>
               let s := List.length (st_heap st) in
               let h' := (st_heap st ++ [mk_sym name sp])%list in
               match tbl_add h' T1 (ancestors st t) s "" with
               | inr e => (set_table st t T1, RErr e)     (* unreachable: the key was just removed *)
               | inl T2 => (set_table (with_heap st h') t T2, RSym s)
               end
             end
      end
  | OSpecifyArgs t l =>
      match get_table st t with
      | None => (st, RErr ENoTable)
      | Some T => match validate_arg_list (st_heap st) l with
                  | Some e => (st, RErr e)
                  | None => (set_table st t (mkTable (t_syms T) (t_tags T) l), RUnit)
                  end
      end
  | OMerge t j skip =>
      match get_table st t, nth_error (st_det st) j with
      | Some T, Some Ot =>
        if (match t with TDet j' => Nat.eqb j' j | _ => false end) then (st, RErr ENoTable)
        else
          match merge (st_heap st) T (ancestors st t) Ot skip with
          | (m, MRejected, oe) =>
              (* no table touched; symbols may have been specialised *)
              (with_heap st (m_heap m), match oe with Some e => RErr e | None => RUnit end)
          | (m, _, oe) =>
              (* the other table is consumed: it now shares symbol objects with the receiver *)
              let st1 := set_table (with_heap st (m_heap m)) t (m_self m) in
              (mkState (st_heap st1) (st_slots st1) (list_del (st_det st1) j),
               match oe with Some e => RErr e | None => RUnit end)
          end
      | _, _ => (st, RErr ENoTable)
      end
  | ONewTable => (mkState (st_heap st) (st_slots st) (st_det st ++ [empty_table]), RUnit)
  | ODetach i =>
      match nth_error (st_slots st) i with
      | Some (Some T) => (mkState (st_heap st) (list_set (st_slots st) i None) (st_det st ++ [T]), RUnit)
      | _ => (st, RErr ENoTable)
      end
  | OAttach j i =>
      match nth_error (st_det st) j, nth_error (st_slots st) i with
      | Some T, Some None => (mkState (st_heap st) (list_set (st_slots st) i (Some T))
                                      (list_del (st_det st) j), RUnit)
      | Some _, Some (Some _) => (st, RErr EValue)   (* scope already has a table *)
      | _, _ => (st, RErr ENoTable)
      end
  end.

Fixpoint run (st : state) (l : list op) : state :=
  match l with
  | [] => st
  | o :: r => run (fst (step st o)) r
  end.

(* n nested scopes, each with an empty table, no detached table *)
Definition init_state (n : nat) : state := mkState [] (repeat (Some empty_table) n) [].
