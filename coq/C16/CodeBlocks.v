(* C16 -- extension of the model with CodeBlocks (symbol_table.py, rename_symbol lines 1735-1752).

   Each scope carries the list of normalised names mentioned in CodeBlocks of its tree
   ([cb]; a detached table has none: rename_symbol only walks `self.node` when there is one; the
   tree of an outer scope contains the trees of the scopes nested in it).  rename_symbol refuses
   (SymbolError) a symbol whose normalised name is in that list -- AFTER all the other checks
   (ValueError, the five SymbolErrors on the class/interface, KeyError on the new name) and BEFORE
   the `if dry_run: return`: a dry run performs exactly the same checks and changes nothing.
   check_for_clashes / merge use the dry run to decide whether a clash can be resolved by renaming;
   [check_one_cb] ... [merge_cb] below are Model.check_one ... Model.merge with every rename going
   through the CodeBlock-aware functions (the other table of a merge is detached: cb = []).
   The Model.v functions are the special case cb = [] (theorem [cb_nil_*]). *)
From Coq Require Import List Arith Bool String Ascii NArith Lia Permutation.
Import ListNotations.
From PV Require Import C16.GenTables C16.Model C16.Names C16.Inv C16.MergeProofs C16.StateInv C16.Proofs.
Open Scope string_scope.
Open Scope list_scope.

(* ------------------------------------------------------------------ rename_symbol *)
(* all the checks of rename_symbol, in the order of the source *)
Definition rename_check_cb (cb : list string) (h : heap) (T : table) (s : sid) (name : string) : option err :=
  match rename_check h T s name with
  | Some e => Some e
  | None => if mem_str (normalize (s_name (hget h s))) cb then Some ESymbol else None
  end.

Definition rename_symbol_cb (cb : list string) (h : heap) (T : table) (s : sid) (name : string)
           (dry_run : bool) : (heap * table) + err :=
  match rename_check_cb cb h T s name with
  | Some e => inr e
  | None => if dry_run then inl (h, T) else rename_do h T s name
  end.

(* names in CodeBlocks in scope of a table: its own scope's tree includes the nested scopes
   (slots are innermost first) *)
Definition cb_of (cbs : list (list string)) (t : tref) : list string :=
  match t with
  | TSlot i => List.concat (firstn (S i) cbs)
  | TDet _ => []
  end.

(* the operation on the whole state *)
Definition rename_step_cb (cbs : list (list string)) (st : state) (t : tref) (s : sid) (name : string)
           (dry_run : bool) : state * result :=
  match get_table st t with
  | None => (st, RErr ENoTable)
  | Some T => match rename_symbol_cb (cb_of cbs t) (st_heap st) T s name dry_run with
              | inr e => (st, RErr e)
              | inl (h', T') => (set_table (with_heap st h') t T', RUnit)
              end
  end.

(* ------------------------------------------------------------------ merge *)
(* one iteration of the loop of check_for_clashes; returns the heap (symbols may have been
   specialised) and the exception raised, if any *)
Definition check_one_cb (cb : list string) (h : heap) (self other : table) (skip : list sid)
           (self_w other_w : list string) (os : sid) : heap * option err :=
  let oy := hget h os in
  match find_key (normalize (s_name oy)) (t_syms self) with
  | None => (h, None)                                    (* other_sym.name not in self *)
  | Some ts =>
    if mem_sid os skip then (h, None)
    else
      let ty := hget h ts in
      if is_container ty && is_container oy then (h, None)
      else if is_intrinsic_sym ty && is_intrinsic_sym oy then (h, None)
      else if is_import oy && is_import ty then
             (if import_eq h (s_iface ty) (s_iface oy) then (h, None) else (h, Some ESymbol))
      else if is_unres oy && is_unres ty then
             (if inter_nonempty self_w other_w && subset_str self_w other_w && subset_str other_w self_w
              then (h, None)
              else if (match self_w, other_w with [], [] => true | _, _ => false end)
                      && is_intrinsic_name (s_name ty) then
                     (* "Take this opportunity to specialise the symbol(s)." *)
                     match (if is_intrinsic_sym ty then inl h else specialise_intrinsic h ts) with
                     | inr e => (h, Some e)
                     | inl h1 =>
                       match (if is_intrinsic_sym (hget h1 os) then inl h1
                              else specialise_intrinsic h1 os) with
                       | inr e => (h1, Some e)
                       | inl h2 => (h2, None)
                       end
                     end
                   else (h, Some ESymbol))
      else
        (* self.rename_symbol(this_sym, "", dry_run=True), else the same on other_table *)
        match rename_check_cb cb h self ts "" with
        | None => (h, None)
        | Some ESymbol =>
            match rename_check_cb [] h other os "" with
            | None => (h, None)
            | Some e => (h, Some e)       (* SymbolError, or another exception escaping *)
            end
        | Some e => (h, Some e)
        end
  end.

Fixpoint check_loop_cb (cb : list string) (h : heap) (self other : table) (skip : list sid) (sw ow : list string)
         (l : list sid) : heap * option err :=
  match l with
  | [] => (h, None)
  | os :: r => match check_one_cb cb h self other skip sw ow os with
               | (h', Some e) => (h', Some e)
               | (h', None) => check_loop_cb cb h' self other skip sw ow r
               end
  end.

Definition check_for_clashes_cb (cb : list string) (h : heap) (self : table) (anc : list table) (other : table)
           (skip : list sid) : heap * option err :=
  check_loop_cb cb h self other skip (wildcards h (self :: anc)) (wildcards h [other]) (sids other).

(* self.rename_symbol(sym, self.next_available_name(root, other_table=other_table)) *)
Definition rename_fresh_cb (cb : list string) (m : mst) (anc : list table) (s : sid) (root : string) : mst * option err :=
  match next_available_name (m_self m) anc root false (Some (m_other m)) with
  | None => (m, Some EFuel)
  | Some nm => match rename_symbol_cb cb (m_heap m) (m_self m) s nm false with
               | inr e => (m, Some e)
               | inl (h', T') => (mkM h' T' (m_other m), None)
               end
  end.


(* inner loop of _add_container_symbols_from_table over the symbols imported from csym *)
Fixpoint fix_imports_cb (cb : list string) (m : mst) (anc : list table) (csym : sid) (l : list sid) : mst * option err :=
  match l with
  | [] => (m, None)
  | isym :: r =>
    let iy := hget (m_heap m) isym in
    let step1 :=
      match find_key (normalize (s_name iy)) (t_syms (m_self m)) with
      | None => (m, None)
      | Some osym =>
          if is_import (hget (m_heap m) osym) then (m, None)
          else rename_fresh_cb cb m anc osym (s_name (hget (m_heap m) osym))
      end in
    match step1 with
    | (m1, Some e) => (m1, Some e)
    | (m1, None) =>
      (* isym.interface = ImportInterface(self.lookup(csym.name), orig_name=...) *)
      match lookup (m_self m1) anc (s_name (hget (m_heap m1) csym)) with
      | None => (m1, Some EKey)
      | Some c' =>
        let iy1 := hget (m_heap m1) isym in
        let orig := match s_iface iy1 with IImport _ o => o | _ => "" end in
        fix_imports_cb cb (mkM (hset (m_heap m1) isym (set_iface iy1 (IImport c' orig)))
                         (m_self m1) (m_other m1)) anc csym r
      end
    end
  end.

Definition container_one_cb (cb : list string) (m : mst) (anc : list table) (csym : sid) : mst * option err :=
  let cy := hget (m_heap m) csym in
  let step1 :=
    match find_key (normalize (s_name cy)) (t_syms (m_self m)) with
    | Some scs =>
        if negb (is_container (hget (m_heap m) scs)) then
          match rename_fresh_cb cb m anc scs (s_name cy) with
          | (m1, Some e) => (m1, Some e)
          | (m1, None) => madd_self m1 anc csym
          end
        else if s_wild cy
             then (mkM (hset (m_heap m) scs (set_wild (hget (m_heap m) scs) true))
                       (m_self m) (m_other m), None)
             else (m, None)
    | None => madd_self m anc csym
    end in
  match step1 with
  | (m1, Some e) => (m1, Some e)
  | (m1, None) =>
    (* other_table.symbols_imported_from(csym): KeyError unless other_table.lookup(csym.name)
       is csym (the other table is detached: no ancestors) *)
    match lookup (m_other m1) [] (s_name (hget (m_heap m1) csym)) with
    | None => (m1, Some EKey)
    | Some c0 =>
      if negb (Nat.eqb c0 csym) then (m1, Some EKey)
      else fix_imports_cb cb m1 anc csym (imported_from (m_heap m1) (m_other m1) csym)
    end
  end.

Fixpoint container_loop_cb (cb : list string) (m : mst) (anc : list table) (l : list sid) : mst * option err :=
  match l with
  | [] => (m, None)
  | c :: r => match container_one_cb cb m anc c with
              | (m1, Some e) => (m1, Some e)
              | (m1, None) => container_loop_cb cb m1 anc r
              end
  end.

Definition add_containers_cb (cb : list string) (m : mst) (anc : list table) : mst * option err :=
  container_loop_cb cb m anc (filter (fun s => is_container (hget (m_heap m) s)) (sids (m_other m))).

(* _handle_symbol_clash, the part after "if old_sym.is_import: ..." *)
Definition handle_clash_rename_cb (cb : list string) (m : mst) (anc : list table) (os : sid) : mst * option err :=
  let oy := hget (m_heap m) os in
  match lookup (m_self m) anc (s_name oy) with
  | None => (m, Some EKey)
  | Some ss =>
    if is_unres oy && is_unres (hget (m_heap m) ss) then (m, None)
    else
      match next_available_name (m_self m) anc (s_name oy) false (Some (m_other m)) with
      | None => (m, Some EFuel)
      | Some nm =>
        match rename_symbol_cb [] (m_heap m) (m_other m) os nm false with
        | inl (h', Ot') => madd_self (mkM h' (m_self m) Ot') anc os
        | inr ESymbol =>
            match rename_symbol_cb cb (m_heap m) (m_self m) ss nm false with
            | inr e => (m, Some e)
            | inl (h', T') => madd_self (mkM h' T' (m_other m)) anc os
            end
        | inr e => (m, Some e)
        end
      end
  end.

(* _handle_symbol_clash *)
Definition handle_clash_cb (cb : list string) (m : mst) (anc : list table) (os : sid) : mst * option err :=
  match s_iface (hget (m_heap m) os) with
  | IImport c _ =>
      match lookup (m_self m) anc (s_name (hget (m_heap m) c)) with
      | None => (m, Some EKey)
      | Some sc => if Nat.eqb sc c then (m, None) else (m, Some EInternal)
      end
  | _ => handle_clash_rename_cb cb m anc os
  end.

Definition add_one_cb (cb : list string) (m : mst) (anc : list table) (skip : list sid) (os : sid) : mst * option err :=
  if mem_sid os skip || is_container (hget (m_heap m) os) then (m, None)
  else match tbl_add (m_heap m) (m_self m) anc os "" with
       | inl T' => (mkM (m_heap m) T' (m_other m), None)
       | inr EKey => handle_clash_cb cb m anc os
       | inr e => (m, Some e)
       end.

Fixpoint add_loop_cb (cb : list string) (m : mst) (anc : list table) (skip : list sid) (l : list sid) : mst * option err :=
  match l with
  | [] => (m, None)
  | s :: r => match add_one_cb cb m anc skip s with
              | (m1, Some e) => (m1, Some e)
              | (m1, None) => add_loop_cb cb m1 anc skip r
              end
  end.

Definition add_symbols_cb (cb : list string) (m : mst) (anc : list table) (skip : list sid) : mst * option err :=
  add_loop_cb cb m anc skip (sids (m_other m)).


Definition merge_cb (cb : list string) (h : heap) (self : table) (anc : list table) (other : table) (skip : list sid)
  : mst * mphase * option err :=
  match check_for_clashes_cb cb h self anc other skip with
  | (h1, Some e) => (mkM h1 self other, MRejected, Some e)
  | (h1, None) =>
    match add_containers_cb cb (mkM h1 self other) anc with
    | (m1, Some e) => (m1, MPartial, Some e)
    | (m1, None) =>
      match add_symbols_cb cb m1 anc skip with
      | (m2, Some e) => (m2, MPartial, Some e)
      | (m2, None) => (m2, MDone, None)
      end
    end
  end.


(* ============================================================================ theorems *)

(* without CodeBlocks this is the model of Model.v *)
Lemma cb_nil_rename_check : forall h T s name, rename_check_cb [] h T s name = rename_check h T s name.
Proof. intros. unfold rename_check_cb. destruct (rename_check h T s name); reflexivity. Qed.

Lemma cb_nil_rename_symbol : forall h T s name,
    rename_symbol_cb [] h T s name false = rename_symbol h T s name.
Proof. intros. unfold rename_symbol_cb, rename_symbol. rewrite cb_nil_rename_check. reflexivity. Qed.

(* 1. a refused rename -- in particular one refused because of a CodeBlock access -- leaves the whole
   state unchanged *)
Theorem rename_rejected_unchanged_cb : forall cbs st t s name dry st' e,
    rename_step_cb cbs st t s name dry = (st', RErr e) -> st' = st.
Proof.
  intros cbs st t s name dry st' e H. unfold rename_step_cb in H.
  destruct (get_table st t) as [T|]; [|inversion H; reflexivity].
  destruct (rename_symbol_cb _ _ _ _ _ _) as [[h' T']|e']; [discriminate H | inversion H; reflexivity].
Qed.

Theorem rename_codeblock_refused : forall cbs st t T s name dry,
    get_table st t = Some T -> rename_check (st_heap st) T s name = None ->
    In (normalize (s_name (hget (st_heap st) s))) (cb_of cbs t) ->
    rename_step_cb cbs st t s name dry = (st, RErr ESymbol).
Proof.
  intros cbs st t T s name dry HT Hc Hin. unfold rename_step_cb, rename_symbol_cb, rename_check_cb.
  rewrite HT, Hc. apply mem_str_In in Hin. rewrite Hin. reflexivity.
Qed.

(* 2. dry_run is pure, and succeeds / fails exactly like the real rename *)
Theorem dry_run_pure_ : forall cb h T s name r,
    rename_symbol_cb cb h T s name true = inl r -> r = (h, T).
Proof.
  intros cb h T s name r H. unfold rename_symbol_cb in H.
  destruct (rename_check_cb cb h T s name); inversion H; reflexivity.
Qed.

Theorem dry_run_agrees_ : forall cb h T s name,
    TOK h T ->
    (forall e, rename_symbol_cb cb h T s name true = inr e <-> rename_symbol_cb cb h T s name false = inr e) /\
    ((exists r, rename_symbol_cb cb h T s name true = inl r) <->
     (exists r, rename_symbol_cb cb h T s name false = inl r)).
Proof.
  intros cb h T s name HT. unfold rename_symbol_cb.
  destruct (rename_check_cb cb h T s name) as [e0|] eqn:Ec.
  - split; [intros e; tauto|]. split; intros [r H]; discriminate.
  - assert (Hdo : exists r, rename_do h T s name = inl r).
    { unfold rename_check_cb in Ec. destruct (rename_check h T s name) eqn:Er; [discriminate|].
      apply rename_check_ok in Er as [Hin _]. unfold rename_do.
      assert (Hk : has_key (normalize (s_name (hget h s))) (t_syms T) = true).
      { unfold has_key. rewrite (TOK_find _ _ _ HT Hin). reflexivity. }
      rewrite Hk. eexists. reflexivity. }
    destruct Hdo as [r Hr]. rewrite Hr. split.
    + intros e; split; intro H; discriminate.
    + split; intros _; eexists; reflexivity.
Qed.

(* dry run at the level of the whole state: never changes it *)
Theorem dry_run_state_unchanged_ : forall cbs st t s name st' r,
    rename_step_cb cbs st t s name true = (st', r) -> st_slots st' = st_slots st /\ st_det st' = st_det st /\ st_heap st' = st_heap st.
Proof.
  intros cbs st t s name st' r H. unfold rename_step_cb in H.
  destruct (get_table st t) as [T|] eqn:HT; [|inversion H; auto].
  destruct (rename_symbol_cb (cb_of cbs t) (st_heap st) T s name true) as [[h' T']|e] eqn:E; [|inversion H; auto].
  apply dry_run_pure_ in E. inversion E; subst h' T'. inversion H; subst.
  destruct t as [i|j]; simpl in *.
  - destruct (nth_error (st_slots st) i) as [[T0|]|] eqn:En; try discriminate. inversion HT; subst T0.
    split; [|auto]. clear - En. revert i En. generalize (st_slots st).
    induction l as [|a l IH]; intros [|i] En; simpl in *; try discriminate; [inversion En; reflexivity | rewrite IH; auto].
  - split; [reflexivity|]. split; [|reflexivity]. clear - HT. revert j HT. generalize (st_det st).
    induction l as [|a l IH]; intros [|j] HT; simpl in *; try discriminate; [inversion HT; reflexivity | rewrite IH; auto].
Qed.

(* 3. a clash between two local symbols that can both not be renamed is rejected up front *)
Lemma check_one_cb_safe : forall cb h self other skip sw ow os h' oe,
    no_intrinsic_unresolved h self ->
    check_one_cb cb h self other skip sw ow os = (h', oe) -> h' = h.
Proof.
  intros cb h self other skip sw ow os h' oe Hs H. unfold check_one_cb in H.
  destruct (find_key _ (t_syms self)) as [ts|] eqn:Ef; [|inversion H; reflexivity].
  assert (Hts : In ts (sids self)) by (apply find_key_In in Ef; apply in_sids; eauto).
  destruct (mem_sid os skip); [inversion H; reflexivity|].
  destruct (is_container (hget h ts) && is_container (hget h os)); [inversion H; reflexivity|].
  destruct (is_intrinsic_sym (hget h ts) && is_intrinsic_sym (hget h os)); [inversion H; reflexivity|].
  destruct (is_import (hget h os) && is_import (hget h ts)).
  { destruct (import_eq _ _ _); inversion H; reflexivity. }
  destruct (is_unres (hget h os) && is_unres (hget h ts)) eqn:Eu.
  { apply andb_true_iff in Eu as [_ Eu]. rewrite (Hs ts Hts Eu) in H. rewrite andb_false_r in H.
    destruct (inter_nonempty sw ow && subset_str sw ow && subset_str ow sw); inversion H; reflexivity. }
  destruct (rename_check_cb cb h self ts "") as [[]|]; try (inversion H; reflexivity).
  destruct (rename_check_cb [] h other os ""); inversion H; reflexivity.
Qed.

(* the receiving table's symbol of the clash is an ordinary local one (none of the special cases
   of check_for_clashes applies) *)
Definition plain_local (h : heap) (ts : sid) : Prop :=
  is_container (hget h ts) = false /\ is_intrinsic_sym (hget h ts) = false /\
  is_import (hget h ts) = false /\ is_unres (hget h ts) = false.

Lemma check_one_cb_unrenameable : forall cb h self other skip sw ow os ts e2,
    find_key (normalize (s_name (hget h os))) (t_syms self) = Some ts ->
    ~ In os skip -> plain_local h ts ->
    rename_check_cb cb h self ts "" = Some ESymbol ->
    rename_check_cb [] h other os "" = Some e2 ->
    check_one_cb cb h self other skip sw ow os = (h, Some e2).
Proof.
  intros cb h self other skip sw ow os ts e2 Hf Hsk [Hc [Hi [Him Hu]]] H1 H2. unfold check_one_cb.
  rewrite Hf. apply mem_sid_false in Hsk. rewrite Hsk, Hc, Hi, Him, Hu. simpl.
  rewrite !andb_false_r. rewrite H1, H2. reflexivity.
Qed.

Lemma check_loop_cb_rejects : forall cb self other skip sw ow os ts e2 l h,
    no_intrinsic_unresolved h self ->
    find_key (normalize (s_name (hget h os))) (t_syms self) = Some ts ->
    ~ In os skip -> plain_local h ts ->
    rename_check_cb cb h self ts "" = Some ESymbol ->
    rename_check_cb [] h other os "" = Some e2 ->
    In os l ->
    exists e, check_loop_cb cb h self other skip sw ow l = (h, Some e).
Proof.
  intros cb self other skip sw ow os ts e2. induction l as [|x l IH]; intros h Hs Hf Hsk Hp H1 H2 Hin; [destruct Hin|].
  simpl. destruct (check_one_cb cb h self other skip sw ow x) as [h1 [e|]] eqn:E.
  - pose proof (check_one_cb_safe _ _ _ _ _ _ _ _ _ _ Hs E). subst h1. eauto.
  - pose proof (check_one_cb_safe _ _ _ _ _ _ _ _ _ _ Hs E). subst h1.
    destruct (Nat.eq_dec x os) as [Ex|Ex].
    + subst x. rewrite (check_one_cb_unrenameable _ _ _ _ _ _ _ _ _ _ Hf Hsk Hp H1 H2) in E. discriminate.
    + apply IH; auto. destruct Hin as [Hin|Hin]; [congruence | exact Hin].
Qed.

Theorem merge_unrenameable_clash_rejected_upfront_partial_ : forall cb h self anc other skip os ts e2,
    no_intrinsic_unresolved h self ->
    In os (sids other) -> ~ In os skip ->
    find_key (normalize (s_name (hget h os))) (t_syms self) = Some ts ->
    plain_local h ts ->
    rename_check_cb cb h self ts "" = Some ESymbol ->       (* e.g. accessed in a CodeBlock, or an argument *)
    rename_check_cb [] h other os "" = Some e2 ->            (* the other one cannot be renamed either *)
    exists e, check_for_clashes_cb cb h self anc other skip = (h, Some e) /\
              merge_cb cb h self anc other skip = (mkM h self other, MRejected, Some e).
Proof.
  intros cb h self anc other skip os ts e2 Hs Hin Hsk Hf Hp H1 H2.
  destruct (check_loop_cb_rejects cb self other skip (wildcards h (self :: anc)) (wildcards h [other])
                                  os ts e2 (sids other) h Hs Hf Hsk Hp H1 H2 Hin) as [e He].
  exists e. unfold merge_cb, check_for_clashes_cb. rewrite He. split; reflexivity.
Qed.

(* ============================================================================ examples *)
Definition cb_ops : list op :=
  [OAdd (TSlot 0) "x" (mkSpec KData false IAuto) ""; OAdd (TSlot 0) "y" (mkSpec KData false IAuto) "";
   ONewTable; OAdd (TDet 0) "first" (mkSpec KData false IAuto) ""; OAdd (TDet 0) "X" (mkSpec KData false IArg) ""].
Definition cb_st : state := run (init_state 2) cb_ops.
(* the inner scope (slot 0) has `WRITE(*,*) x`; the outer scope (slot 1) sees it too *)
Definition cb_cbs : list (list string) := [["x"]; []].

Example rename_codeblock_nonvacuous :
  rename_step_cb cb_cbs cb_st (TSlot 0) 0 "z" false = (cb_st, RErr ESymbol) /\
  rename_step_cb cb_cbs cb_st (TSlot 0) 0 "z" true = (cb_st, RErr ESymbol) /\
  rename_step_cb cb_cbs cb_st (TSlot 0) 0 "Y" false = (cb_st, RErr EKey) /\     (* KeyError comes first *)
  snd (rename_step_cb cb_cbs cb_st (TSlot 0) 1 "z" false) = RUnit /\            (* y is not in a CodeBlock *)
  rename_step_cb cb_cbs cb_st (TSlot 0) 1 "z" true = (cb_st, RUnit) /\          (* dry run: same verdict, no change *)
  snd (rename_step_cb [[]; []] cb_st (TSlot 0) 0 "z" false) = RUnit.            (* without the CodeBlock x can be renamed *)
Proof. vm_compute. repeat split. Qed.

Example merge_unrenameable_nonvacuous :
  exists T Ot,
    get_table cb_st (TSlot 0) = Some T /\ nth_error (st_det cb_st) 0 = Some Ot /\
    no_intrinsic_unresolved (st_heap cb_st) T /\ In 3 (sids Ot) /\
    find_key (normalize (s_name (hget (st_heap cb_st) 3))) (t_syms T) = Some 0 /\
    plain_local (st_heap cb_st) 0 /\
    rename_check_cb ["x"] (st_heap cb_st) T 0 "" = Some ESymbol /\
    rename_check_cb [] (st_heap cb_st) Ot 3 "" = Some ESymbol /\
    merge_cb ["x"] (st_heap cb_st) T [] Ot [] = (mkM (st_heap cb_st) T Ot, MRejected, Some ESymbol) /\
    (* without the CodeBlock the clash is resolved by renaming the local x *)
    (exists m, merge_cb [] (st_heap cb_st) T [] Ot [] = (m, MDone, None) /\
               map (fun s => s_name (hget (m_heap m) s)) (sids (m_self m)) = ["y"; "first"; "X_1"; "X"]).
Proof.
  eexists. eexists. split; [vm_compute; reflexivity|]. split; [vm_compute; reflexivity|].
  split. { intros s Hs Hu. vm_compute in Hs. destruct Hs as [<-|[<-|[]]]; vm_compute in Hu; discriminate. }
  split; [vm_compute; auto|]. split; [vm_compute; reflexivity|].
  split; [vm_compute; auto|]. split; [vm_compute; reflexivity|]. split; [vm_compute; reflexivity|].
  split; [vm_compute; reflexivity|]. eexists. split; vm_compute; reflexivity.
Qed.

(* dry_run: pure, and the same verdict as the real rename *)
Theorem dry_run_pure_full_ : forall cb h T s name,
    TOK h T ->
    (forall r, rename_symbol_cb cb h T s name true = inl r -> r = (h, T)) /\
    (forall e, rename_symbol_cb cb h T s name true = inr e <-> rename_symbol_cb cb h T s name false = inr e) /\
    ((exists r, rename_symbol_cb cb h T s name true = inl r) <->
     (exists r, rename_symbol_cb cb h T s name false = inl r)).
Proof.
  intros cb h T s name HT. split; [intros r; apply dry_run_pure_|]. apply dry_run_agrees_. exact HT.
Qed.
