(* C16 -- merge: the invariant kept by every micro-step of _add_container_symbols_from_table and
   _add_symbols_from_table (whether or not the step raises), and what a completed merge achieves. *)
From Coq Require Import List Arith Bool String Ascii NArith Lia Permutation.
Import ListNotations.
From PV Require Import C16.GenTables C16.Model C16.Names C16.Inv.
Open Scope string_scope.
Open Scope list_scope.

(* ------------------------------------------------------------ heap writes *)
Definition same_names (h h' : heap) : Prop :=
  List.length h' = List.length h /\ forall s, s_name (hget h' s) = s_name (hget h s).

Definition same_kinds (h h' : heap) : Prop := forall s, s_kind (hget h' s) = s_kind (hget h s).

(* import-ness and unresolved-ness of every symbol are the same in both heaps *)
Definition same_ifc (h h' : heap) : Prop :=
  forall s, is_import (hget h' s) = is_import (hget h s) /\ is_unres (hget h' s) = is_unres (hget h s).

Lemma same_ifc_refl : forall h, same_ifc h h. Proof. intros h s; split; reflexivity. Qed.
Lemma same_ifc_trans : forall a b c, same_ifc a b -> same_ifc b c -> same_ifc a c.
Proof. intros a b c H1 H2 s. destruct (H1 s), (H2 s). split; congruence. Qed.

Lemma hget_hset_cases : forall h s v s',
    hget (hset h s v) s' = if Nat.eqb s s' then (if Nat.ltb s (List.length h) then v else hget h s') else hget h s'.
Proof.
  intros h s v s'. destruct (Nat.eqb_spec s s') as [E|E].
  - subst s'. destruct (Nat.ltb_spec s (List.length h)) as [L|L].
    + apply hget_hset_same; exact L.
    + unfold hget. revert s L. induction h as [|x h IH]; intros [|s] L; simpl in *; try reflexivity; try lia.
      apply IH. lia.
  - apply hget_hset_other; exact E.
Qed.

Lemma hset_field : forall (A : Type) (f : sym -> A) h s v,
    f v = f (hget h s) -> forall s', f (hget (hset h s v) s') = f (hget h s').
Proof.
  intros A f h s v Hv s'. rewrite hget_hset_cases.
  destruct (Nat.eqb_spec s s') as [E|E]; [|reflexivity].
  destruct (Nat.ltb s (List.length h)); [subst; exact Hv | reflexivity].
Qed.

(* ---------------------------------------------------------- check phase *)
Lemma specialise_names : forall h s h', specialise_intrinsic h s = inl h' -> same_names h h'.
Proof.
  intros h s h' H. unfold specialise_intrinsic in H.
  destruct (s_kind (hget h s)); inversion H; subst; (split; [apply hset_length | apply hset_field; reflexivity]).
Qed.

Lemma same_names_refl : forall h, same_names h h.
Proof. intros h; split; reflexivity. Qed.

Lemma same_names_trans : forall a b c, same_names a b -> same_names b c -> same_names a c.
Proof. intros a b c [L1 N1] [L2 N2]. split; [congruence | intros s; rewrite N2, N1; reflexivity]. Qed.

Lemma spec_opt_names : forall (b : bool) h s h1,
    (if b then inl h else specialise_intrinsic h s) = inl h1 -> same_names h h1.
Proof.
  intros [|] h s h1 H; [inversion H; subst; apply same_names_refl | eapply specialise_names; eauto].
Qed.

Lemma check_one_names : forall h self other skip sw ow os h' oe,
    check_one h self other skip sw ow os = (h', oe) -> same_names h h'.
Proof.
  intros h self other skip sw ow os h' oe H. unfold check_one in H.
  repeat match type of H with
         | (match ?x with _ => _ end) = _ => destruct x eqn:?
         | (if ?x then _ else _) = _ => destruct x eqn:?
         end;
    inversion H; subst; clear H;
    repeat match goal with
           | E : (if _ then inl _ else specialise_intrinsic _ _) = inl _ |- _ => apply spec_opt_names in E
           end;
    eauto using same_names_refl, same_names_trans.
Qed.

Lemma check_loop_names : forall l h self other skip sw ow h' oe,
    check_loop h self other skip sw ow l = (h', oe) -> same_names h h'.
Proof.
  induction l as [|os l IH]; intros h self other skip sw ow h' oe H; simpl in H.
  - inversion H; subst. apply same_names_refl.
  - destruct (check_one h self other skip sw ow os) as [h1 [e|]] eqn:E.
    + inversion H; subst. eapply check_one_names; eauto.
    + eapply same_names_trans; [eapply check_one_names; eauto | eapply IH; eauto].
Qed.

Lemma specialise_iface : forall h s h', specialise_intrinsic h s = inl h' -> forall x, s_iface (hget h' x) = s_iface (hget h x).
Proof.
  intros h s h' H. unfold specialise_intrinsic in H.
  destruct (s_kind (hget h s)); inversion H; subst; apply hset_field; reflexivity.
Qed.

Lemma spec_opt_iface : forall (b : bool) h s h1,
    (if b then inl h else specialise_intrinsic h s) = inl h1 -> forall x, s_iface (hget h1 x) = s_iface (hget h x).
Proof.
  intros [|] h s h1 H x; [inversion H; subst; reflexivity | eapply specialise_iface; eauto].
Qed.

Lemma check_one_iface : forall h self other skip sw ow os h' oe,
    check_one h self other skip sw ow os = (h', oe) -> forall x, s_iface (hget h' x) = s_iface (hget h x).
Proof.
  intros h self other skip sw ow os h' oe H x. unfold check_one in H.
  repeat match type of H with
         | (match ?x with _ => _ end) = _ => destruct x eqn:?
         | (if ?x then _ else _) = _ => destruct x eqn:?
         end;
    inversion H; subst; clear H;
    repeat match goal with
           | E : (if _ then inl _ else specialise_intrinsic _ _) = inl _ |- _ => apply spec_opt_iface with (x := x) in E
           end;
    congruence.
Qed.

Lemma check_loop_iface : forall l h self other skip sw ow h' oe,
    check_loop h self other skip sw ow l = (h', oe) -> forall x, s_iface (hget h' x) = s_iface (hget h x).
Proof.
  induction l as [|os l IH]; intros h self other skip sw ow h' oe H x; simpl in H.
  - inversion H; subst. reflexivity.
  - destruct (check_one h self other skip sw ow os) as [h1 [e|]] eqn:E.
    + inversion H; subst. eapply check_one_iface; eauto.
    + rewrite (IH _ _ _ _ _ _ _ _ H x). eapply check_one_iface; eauto.
Qed.

Lemma check_for_clashes_iface : forall h self anc other skip h' oe,
    check_for_clashes h self anc other skip = (h', oe) -> forall x, s_iface (hget h' x) = s_iface (hget h x).
Proof. intros. unfold check_for_clashes in H. eapply check_loop_iface; eauto. Qed.

Lemma check_for_clashes_names : forall h self anc other skip h' oe,
    check_for_clashes h self anc other skip = (h', oe) -> same_names h h'.
Proof. intros. unfold check_for_clashes in H. eapply check_loop_names; eauto. Qed.

(* --------------------------------------------------- the merge invariant *)
Section MergeInv.
  Variable h0 : heap.
  Variables T0 O0 : table.
  Variable anc : list table.

  Record MI (m : mst) : Prop := mkMI {
    mi_tok : TOK (m_heap m) (m_self m);
    mi_len : List.length (m_heap m) = List.length h0;
    mi_sub : forall s, In s (sids (m_self m)) -> In s (sids T0) \/ In s (sids O0);
    mi_sup : forall s, In s (sids T0) -> In s (sids (m_self m));
    mi_tags : t_tags (m_self m) = t_tags T0;
    mi_args : t_args (m_self m) = t_args T0;
    mi_frame : forall s, ~ In s (sids T0) -> ~ In s (sids O0) -> hget (m_heap m) s = hget h0 s;
    mi_kind : same_kinds h0 (m_heap m);
    mi_ifc : same_ifc h0 (m_heap m)
  }.

  (* the set of symbols of the receiving table only grows *)
  Definition grows (m m' : mst) : Prop := forall s, In s (sids (m_self m)) -> In s (sids (m_self m')).

  Lemma grows_refl : forall m, grows m m. Proof. intros m s H; exact H. Qed.
  Lemma grows_trans : forall a b c, grows a b -> grows b c -> grows a c.
  Proof. intros a b c H1 H2 s H. apply H2, H1, H. Qed.

  (* a heap write that keeps names and kinds and touches a symbol of one of the two tables *)
  Lemma MI_hset : forall m s v,
      MI m -> s_name v = s_name (hget (m_heap m) s) -> s_kind v = s_kind (hget (m_heap m) s) ->
      is_import v = is_import (hget (m_heap m) s) -> is_unres v = is_unres (hget (m_heap m) s) ->
      (In s (sids T0) \/ In s (sids O0)) ->
      MI (mkM (hset (m_heap m) s v) (m_self m) (m_other m)).
  Proof.
    intros m s v HM Hn Hk Hi Hu Hin. destruct HM as [Htok Hlen Hsub Hsup Htags Hargs Hframe Hkind Hifc].
    constructor; simpl; auto.
    - eapply TOK_frame; [exact Htok | rewrite hset_length; lia |].
      intros s' _. apply (hset_field _ s_name). exact Hn.
    - rewrite hset_length. exact Hlen.
    - intros s' H1 H2. rewrite hget_hset_other; [apply Hframe; assumption|].
      intro E; subst s'. destruct Hin; contradiction.
    - intros s'. rewrite (hset_field _ s_kind) by exact Hk. apply Hkind.
    - intros s'. rewrite (hset_field _ is_import) by exact Hi. rewrite (hset_field _ is_unres) by exact Hu. apply Hifc.
  Qed.

  (* renaming a symbol that is in the receiving table *)
  Lemma MI_rename_self : forall m s nm h' T',
      MI m -> rename_symbol (m_heap m) (m_self m) s nm = inl (h', T') ->
      MI (mkM h' T' (m_other m)) /\
      (forall x, In x (sids T') <-> In x (sids (m_self m))).
  Proof.
    intros m s nm h' T' HM H. destruct HM as [Htok Hlen Hsub Hsup Htags Hargs Hframe Hkind Hifc].
    pose proof (rename_symbol_TOK _ _ _ _ _ _ H Htok) as [Htok' [Hperm [Hlen' [Hin [Hs Hother]]]]].
    apply rename_symbol_spec in H as [_ [Hh [_ [Ht Ha]]]].
    assert (Hiff : forall x, In x (sids T') <-> In x (sids (m_self m))).
    { intros x; split; intro Hx; [eapply Permutation_in; [exact Hperm | exact Hx] |
                                   eapply Permutation_in; [apply Permutation_sym; exact Hperm | exact Hx]]. }
    split; [|exact Hiff].
    constructor; simpl.
    - exact Htok'.
    - congruence.
    - intros x Hx. apply Hsub. apply Hiff. exact Hx.
    - intros x Hx. apply Hiff. apply Hsup. exact Hx.
    - congruence.
    - congruence.
    - intros x H1 H2. rewrite Hother; [apply Hframe; assumption|].
      intro E; subst x. destruct (Hsub _ Hin); contradiction.
    - intros x. destruct (Nat.eq_dec x s) as [E|E].
      + subst x. rewrite Hs. simpl. apply Hkind.
      + rewrite Hother by exact E. apply Hkind.
    - intros x. destruct (Nat.eq_dec x s) as [E|E].
      + subst x. rewrite Hs. apply Hifc.
      + rewrite Hother by exact E. apply Hifc.
  Qed.

  (* renaming (in the other table) a symbol that is not in the receiving table *)
  Lemma MI_rename_other : forall m s nm h' O',
      MI m -> rename_symbol (m_heap m) (m_other m) s nm = inl (h', O') ->
      In s (sids O0) -> ~ In s (sids (m_self m)) ->
      MI (mkM h' (m_self m) O').
  Proof.
    intros m s nm h' O' HM H HinO Hnot. destruct HM as [Htok Hlen Hsub Hsup Htags Hargs Hframe Hkind Hifc].
    apply rename_symbol_spec in H as [_ [Hh _]]. subst h'.
    constructor; simpl; auto.
    - eapply TOK_frame; [exact Htok | rewrite hset_length; lia |].
      intros x Hx. rewrite hget_hset_other; [reflexivity|]. intro E; subst x. contradiction.
    - rewrite hset_length. exact Hlen.
    - intros x H1 H2. rewrite hget_hset_other; [apply Hframe; assumption|].
      intro E; subst x. contradiction.
    - intros x. rewrite (hset_field _ s_kind) by reflexivity. apply Hkind.
    - intros x. rewrite (hset_field _ is_import) by reflexivity. rewrite (hset_field _ is_unres) by reflexivity. apply Hifc.
  Qed.

  Lemma MI_add : forall m s T',
      MI m -> tbl_add (m_heap m) (m_self m) anc s "" = inl T' ->
      In s (sids O0) -> ~ In s (sids (m_self m)) -> s < List.length h0 ->
      MI (mkM (m_heap m) T' (m_other m)) /\ sids T' = sids (m_self m) ++ [s].
  Proof.
    intros m s T' HM H HinO Hnot Hlt. destruct HM as [Htok Hlen Hsub Hsup Htags Hargs Hframe Hkind Hifc].
    assert (Hlt' : s < List.length (m_heap m)) by lia.
    pose proof (tbl_add_TOK _ _ _ _ _ _ H Htok Hnot Hlt') as [Htok' Hs].
    apply tbl_add_spec in H as [_ [_ [Ha Ht]]].
    split; [|exact Hs].
    constructor; simpl; auto.
    - intros x Hx. rewrite Hs in Hx. apply in_app_or in Hx as [Hx|[Hx|[]]]; [apply Hsub; exact Hx | subst; right; exact HinO].
    - intros x Hx. rewrite Hs. apply in_or_app. left. apply Hsup. exact Hx.
    - destruct Ht as [[_ Ht]|[Hne _]]; [congruence | congruence].
    - congruence.
  Qed.

  Lemma rename_fresh_MI : forall m s root m' oe,
      MI m -> rename_fresh m anc s root = (m', oe) ->
      MI m' /\ m_other m' = m_other m /\ (forall x, In x (sids (m_self m')) <-> In x (sids (m_self m))).
  Proof.
    intros m s root m' oe HM H. unfold rename_fresh in H.
    destruct (next_available_name (m_self m) anc root false (Some (m_other m))) as [nm|];
      [|inversion H; subst; split; [exact HM | split; [reflexivity | tauto]]].
    destruct (rename_symbol (m_heap m) (m_self m) s nm) as [[h' T']|e] eqn:E;
      [|inversion H; subst; split; [exact HM | split; [reflexivity | tauto]]].
    inversion H; subst. pose proof (MI_rename_self _ _ _ _ _ HM E) as [HM' Hiff].
    split; [exact HM' | split; [reflexivity | exact Hiff]].
  Qed.

  Lemma madd_self_MI : forall m s m' oe,
      MI m -> madd_self m anc s = (m', oe) ->
      In s (sids O0) -> ~ In s (sids (m_self m)) -> s < List.length h0 ->
      MI m' /\ m_other m' = m_other m /\ m_heap m' = m_heap m /\ grows m m' /\
      (oe = None -> sids (m_self m') = sids (m_self m) ++ [s]) /\
      (oe <> None -> m' = m).
  Proof.
    intros m s m' oe HM H HinO Hnot Hlt. unfold madd_self in H.
    destruct (tbl_add (m_heap m) (m_self m) anc s "") as [T'|e] eqn:E; inversion H; subst.
    - pose proof (MI_add _ _ _ HM E HinO Hnot Hlt) as [HM' Hs].
      split; [exact HM'|]. split; [reflexivity|]. split; [reflexivity|]. split.
      + intros x Hx. simpl. rewrite Hs. apply in_or_app. left; exact Hx.
      + split; [intros _; exact Hs | intros Hc; congruence].
    - split; [exact HM|]. split; [reflexivity|]. split; [reflexivity|]. split; [apply grows_refl|].
      split; [discriminate | reflexivity].
  Qed.

  (* ---- container pass *)
  (* what is known about symbols of the other table that have not been moved yet *)
  Definition pend (m : mst) (l : list sid) : Prop :=
    (forall s, In s l -> ~ In s (sids (m_self m))) /\
    (forall s, In s (sids O0) -> is_container (hget h0 s) = false -> ~ In s (sids (m_self m))).

  Hypothesis O0_lt : forall s, In s (sids O0) -> s < List.length h0.

  Lemma is_container_stable : forall m s, MI m -> is_container (hget (m_heap m) s) = is_container (hget h0 s).
  Proof. intros m s HM. unfold is_container. rewrite (mi_kind _ HM). reflexivity. Qed.

  Lemma import_not_unres : forall y, is_import y = true -> is_unres y = false.
  Proof. intros y H. unfold is_import, is_unres in *. destruct (s_iface y); congruence. Qed.

  Lemma fix_imports_MI : forall l m csym m' oe,
      MI m -> (forall s, In s l -> In s (sids O0) /\ is_import (hget h0 s) = true) ->
      fix_imports m anc csym l = (m', oe) ->
      MI m' /\ m_other m' = m_other m /\ (forall x, In x (sids (m_self m')) <-> In x (sids (m_self m))).
  Proof.
    induction l as [|isym l IH]; intros m csym m' oe HM Hl H; simpl in H.
    - inversion H; subst. split; [exact HM | split; [reflexivity | tauto]].
    - assert (Hstep : forall m1 oe1,
                 (match find_key (normalize (s_name (hget (m_heap m) isym))) (t_syms (m_self m)) with
                  | None => (m, None)
                  | Some osym => if is_import (hget (m_heap m) osym) then (m, None)
                                 else rename_fresh m anc osym (s_name (hget (m_heap m) osym))
                  end) = (m1, oe1) ->
                 MI m1 /\ m_other m1 = m_other m /\ (forall x, In x (sids (m_self m1)) <-> In x (sids (m_self m)))).
      { intros m1 oe1 H1.
        destruct (find_key _ (t_syms (m_self m))) as [osym|];
          [|inversion H1; subst; split; [exact HM | split; [reflexivity | tauto]]].
        destruct (is_import (hget (m_heap m) osym));
          [inversion H1; subst; split; [exact HM | split; [reflexivity | tauto]]|].
        eapply rename_fresh_MI; eauto. }
      destruct (match find_key (normalize (s_name (hget (m_heap m) isym))) (t_syms (m_self m)) with
                | None => (m, None)
                | Some osym => if is_import (hget (m_heap m) osym) then (m, None)
                               else rename_fresh m anc osym (s_name (hget (m_heap m) osym))
                end) as [m1 [e1|]] eqn:E1.
      + inversion H; subst. eapply Hstep; eauto.
      + destruct (Hstep _ _ eq_refl) as [HM1 [Ho1 Hiff1]].
        destruct (lookup (m_self m1) anc (s_name (hget (m_heap m1) csym))) as [c'|];
          [|inversion H; subst; split; [exact HM1 | split; [exact Ho1 | exact Hiff1]]].
        destruct (Hl isym (or_introl eq_refl)) as [HiO Hii].
        assert (Hii1 : is_import (hget (m_heap m1) isym) = true).
        { destruct (mi_ifc _ HM1 isym) as [E _]. rewrite E. exact Hii. }
        match type of H with
        | fix_imports ?mm _ _ _ = _ =>
            assert (HM2 : MI mm);
              [|destruct (IH mm csym m' oe HM2 (fun s Hs => Hl s (or_intror Hs)) H) as [HM' [Ho' Hiff']]]
        end.
        * apply (MI_hset m1 isym); [exact HM1 | reflexivity | reflexivity | | | right; exact HiO].
          -- rewrite Hii1. reflexivity.
          -- rewrite (import_not_unres _ Hii1). reflexivity.
        * split; [exact HM'|]. split; [simpl in Ho'; congruence|].
          intros x. rewrite Hiff'. simpl. apply Hiff1.
  Qed.

  Lemma imported_from_incl : forall h T c s, In s (imported_from h T c) -> In s (sids T).
  Proof. intros h T c s H. unfold imported_from in H. apply filter_In in H as [H _]. exact H. Qed.

  Lemma container_one_MI : forall m csym l m' oe,
      MI m -> m_other m = O0 -> pend m (csym :: l) -> NoDup (csym :: l) ->
      In csym (sids O0) -> is_container (hget h0 csym) = true ->
      container_one m anc csym = (m', oe) ->
      MI m' /\ m_other m' = O0 /\ grows m m' /\ (oe = None -> pend m' l).
  Proof.
    intros m csym l m' oe HM HO [Hp1 Hp2] Hnd HcO Hcc H. unfold container_one in H.
    inversion Hnd as [|? ? Hnotl Hndl]; subst.
    assert (Hcnot : ~ In csym (sids (m_self m))) by (apply Hp1; left; reflexivity).
    (* first part: make room / add the container symbol *)
    assert (Hstep : forall m1 oe1,
               (match find_key (normalize (s_name (hget (m_heap m) csym))) (t_syms (m_self m)) with
                | Some scs =>
                    if negb (is_container (hget (m_heap m) scs)) then
                      match rename_fresh m anc scs (s_name (hget (m_heap m) csym)) with
                      | (m1, Some e) => (m1, Some e)
                      | (m1, None) => madd_self m1 anc csym
                      end
                    else if s_wild (hget (m_heap m) csym)
                         then (mkM (hset (m_heap m) scs (set_wild (hget (m_heap m) scs) true))
                                   (m_self m) (m_other m), None)
                         else (m, None)
                | None => madd_self m anc csym
                end) = (m1, oe1) ->
               MI m1 /\ m_other m1 = O0 /\ grows m m1 /\
               (forall x, In x (sids (m_self m1)) -> In x (sids (m_self m)) \/ x = csym)).
    { intros m1 oe1 H1.
      destruct (find_key _ (t_syms (m_self m))) as [scs|] eqn:Ef.
      - destruct (negb (is_container (hget (m_heap m) scs))) eqn:Ec.
        + destruct (rename_fresh m anc scs (s_name (hget (m_heap m) csym))) as [m2 [e2|]] eqn:Er.
          * inversion H1; subst. destruct (rename_fresh_MI _ _ _ _ _ HM Er) as [HM2 [Ho2 Hiff2]].
            split; [exact HM2|]. split; [congruence|]. split; [intros x Hx; apply Hiff2; exact Hx|].
            intros x Hx. left. apply Hiff2. exact Hx.
          * destruct (rename_fresh_MI _ _ _ _ _ HM Er) as [HM2 [Ho2 Hiff2]].
            assert (Hn2 : ~ In csym (sids (m_self m2))) by (rewrite Hiff2; exact Hcnot).
            destruct (madd_self_MI _ _ _ _ HM2 H1 HcO Hn2 (O0_lt _ HcO)) as [HM1 [Ho1 [_ [Hg [Hs Hsame]]]]].
            split; [exact HM1|]. split; [congruence|]. split.
            -- intros x Hx. apply Hg. apply Hiff2. exact Hx.
            -- intros x Hx. destruct oe1 as [e|].
               ++ rewrite (Hsame ltac:(discriminate)) in Hx. left. apply Hiff2. exact Hx.
               ++ rewrite (Hs eq_refl) in Hx. apply in_app_or in Hx as [Hx|[Hx|[]]]; [left; apply Hiff2; exact Hx | right; auto].
        + assert (Hscs : In scs (sids (m_self m))) by (apply find_key_In in Ef; apply in_sids; eauto).
          destruct (s_wild (hget (m_heap m) csym)); inversion H1; subst.
          * split; [|split; [simpl; exact HO | split; [intros x Hx; exact Hx | intros x Hx; left; exact Hx]]].
            apply MI_hset; [exact HM | reflexivity | reflexivity | reflexivity | reflexivity | apply (mi_sub _ HM); exact Hscs].
          * split; [exact HM | split; [exact HO | split; [apply grows_refl | intros x Hx; left; exact Hx]]].
      - destruct (madd_self_MI _ _ _ _ HM H1 HcO Hcnot (O0_lt _ HcO)) as [HM1 [Ho1 [_ [Hg [Hs Hsame]]]]].
        split; [exact HM1|]. split; [congruence|]. split; [exact Hg|].
        intros x Hx. destruct oe1 as [e|].
        + rewrite (Hsame ltac:(discriminate)) in Hx. left; exact Hx.
        + rewrite (Hs eq_refl) in Hx. apply in_app_or in Hx as [Hx|[Hx|[]]]; [left; exact Hx | right; auto]. }
    match type of H with
    | (match ?X with _ => _ end) = _ => destruct X as [m1 [e1|]] eqn:E1
    end.
    - inversion H; subst. destruct (Hstep _ _ eq_refl) as [HM1 [Ho1 [Hg1 _]]].
      split; [exact HM1 | split; [exact Ho1 | split; [exact Hg1 | discriminate]]].
    - destruct (Hstep _ _ eq_refl) as [HM1 [Ho1 [Hg1 Hnew]]].
      assert (Hpend1 : pend m1 l).
      { split.
        - intros s Hs Hc. destruct (Hnew _ Hc) as [Hc'|Hc'].
          + apply (Hp1 s); [right; exact Hs | exact Hc'].
          + subst s. contradiction.
        - intros s Hs Hk Hc. destruct (Hnew _ Hc) as [Hc'|Hc'].
          + apply (Hp2 s); assumption.
          + subst s. congruence. }
      destruct (lookup (m_other m1) [] (s_name (hget (m_heap m1) csym))) as [c0|];
        [|inversion H; subst; split; [exact HM1 | split; [exact Ho1 | split; [exact Hg1 | discriminate]]]].
      destruct (negb (Nat.eqb c0 csym));
        [inversion H; subst; split; [exact HM1 | split; [exact Ho1 | split; [exact Hg1 | discriminate]]]|].
      assert (Hl : forall s, In s (imported_from (m_heap m1) (m_other m1) csym) ->
                             In s (sids O0) /\ is_import (hget h0 s) = true).
      { intros s Hs. split; [apply imported_from_incl in Hs; rewrite Ho1 in Hs; exact Hs|].
        unfold imported_from in Hs. apply filter_In in Hs as [_ Hs].
        destruct (mi_ifc _ HM1 s) as [E _]. rewrite <- E. unfold is_import.
        destruct (s_iface (hget (m_heap m1) s)); congruence. }
      destruct (fix_imports_MI _ _ _ _ _ HM1 Hl H) as [HM' [Ho' Hiff']].
      split; [exact HM'|]. split; [congruence|]. split.
      + intros x Hx. apply Hiff'. apply Hg1. exact Hx.
      + intros _. destruct Hpend1 as [Hq1 Hq2]. split.
        * intros s Hs Hc. apply (Hq1 s Hs). apply Hiff'. exact Hc.
        * intros s Hs Hk Hc. apply (Hq2 s Hs Hk). apply Hiff'. exact Hc.
  Qed.

  Lemma container_loop_MI : forall l m m' oe,
      MI m -> m_other m = O0 -> pend m l -> NoDup l ->
      (forall s, In s l -> In s (sids O0) /\ is_container (hget h0 s) = true) ->
      container_loop m anc l = (m', oe) ->
      MI m' /\ m_other m' = O0 /\ grows m m' /\ (oe = None -> pend m' []).
  Proof.
    induction l as [|c l IH]; intros m m' oe HM HO Hp Hnd Hl H; simpl in H.
    - inversion H; subst. split; [exact HM | split; [exact HO | split; [apply grows_refl | intros _; exact Hp]]].
    - destruct (Hl c (or_introl eq_refl)) as [HcO Hcc].
      destruct (container_one m anc c) as [m1 [e1|]] eqn:E1.
      + inversion H; subst.
        destruct (container_one_MI _ _ _ _ _ HM HO Hp Hnd HcO Hcc E1) as [HM1 [Ho1 [Hg1 _]]].
        split; [exact HM1 | split; [exact Ho1 | split; [exact Hg1 | discriminate]]].
      + destruct (container_one_MI _ _ _ _ _ HM HO Hp Hnd HcO Hcc E1) as [HM1 [Ho1 [Hg1 Hp1]]].
        inversion Hnd; subst.
        destruct (IH m1 m' oe HM1 Ho1 (Hp1 eq_refl) ltac:(assumption)
                     (fun s Hs => Hl s (or_intror Hs)) H) as [HM' [Ho' [Hg' Hp']]].
        split; [exact HM' | split; [exact Ho' | split; [eapply grows_trans; eauto | exact Hp']]].
  Qed.

  (* ---- add pass *)
  Definition pend_add (m : mst) (l : list sid) : Prop :=
    forall s, In s l -> is_container (hget h0 s) = false -> ~ In s (sids (m_self m)).

  (* outcome of the clash handling for the symbol [os] of the other table *)
  Definition clash_post (m m' : mst) (os : sid) (oe : option err) : Prop :=
    MI m' /\ grows m m' /\
    (forall x, In x (sids (m_self m')) -> In x (sids (m_self m)) \/ x = os) /\
    (oe = None -> In os (sids (m_self m')) \/ is_import (hget (m_heap m) os) = true
                  \/ is_unres (hget (m_heap m) os) = true).

  Lemma clash_post_same : forall m os e, MI m -> clash_post m m os (Some e).
  Proof.
    intros m os e HM. split; [exact HM | split; [apply grows_refl | split; [intros x Hx; left; exact Hx | discriminate]]].
  Qed.

  Lemma clash_post_madd : forall m m1 os m' oe,
      MI m1 -> In os (sids O0) -> ~ In os (sids (m_self m1)) ->
      (forall x, In x (sids (m_self m1)) <-> In x (sids (m_self m))) ->
      madd_self m1 anc os = (m', oe) -> clash_post m m' os oe.
  Proof.
    intros m m1 os m' oe HM1 HinO Hn1 Hiff H.
    destruct (madd_self_MI _ _ _ _ HM1 H HinO Hn1 (O0_lt _ HinO)) as [HM' [_ [_ [Hg [Hs Hsm]]]]].
    split; [exact HM' | split; [intros x Hx; apply Hg; apply Hiff; exact Hx | split]].
    - intros x Hx. destruct oe as [e|].
      + rewrite (Hsm ltac:(discriminate)) in Hx. left; apply Hiff; exact Hx.
      + rewrite (Hs eq_refl) in Hx. apply in_app_or in Hx as [Hx|[Hx|[]]]; [left; apply Hiff; exact Hx | right; auto].
    - intros E. left. rewrite (Hs E). apply in_or_app. right; left; reflexivity.
  Qed.

  Lemma handle_clash_rename_MI : forall m os m' oe,
      MI m -> In os (sids O0) -> ~ In os (sids (m_self m)) ->
      handle_clash_rename m anc os = (m', oe) -> clash_post m m' os oe.
  Proof.
    intros m os m' oe HM HinO Hnot H. unfold handle_clash_rename in H.
    destruct (lookup (m_self m) anc (s_name (hget (m_heap m) os))) as [ss|];
      [|inversion H; subst; apply clash_post_same; exact HM].
    destruct (is_unres (hget (m_heap m) os) && is_unres (hget (m_heap m) ss)) eqn:Eu.
    { inversion H; subst. split; [exact HM | split; [apply grows_refl | split; [intros x Hx; left; exact Hx|]]].
      intros _. right; right. apply andb_true_iff in Eu as [Eu _]. exact Eu. }
    destruct (next_available_name (m_self m) anc (s_name (hget (m_heap m) os)) false (Some (m_other m))) as [nm|];
      [|inversion H; subst; apply clash_post_same; exact HM].
    destruct (rename_symbol (m_heap m) (m_other m) os nm) as [[h1 O1]|e1] eqn:Er.
    - pose proof (MI_rename_other _ _ _ _ _ HM Er HinO Hnot) as HM1.
      eapply (clash_post_madd m (mkM h1 (m_self m) O1)); eauto. simpl. tauto.
    - destruct e1; try (inversion H; subst; apply clash_post_same; exact HM).
      destruct (rename_symbol (m_heap m) (m_self m) ss nm) as [[h2 T2]|e2] eqn:Er2;
        [|inversion H; subst; apply clash_post_same; exact HM].
      pose proof (MI_rename_self _ _ _ _ _ HM Er2) as [HM2 Hiff2].
      eapply (clash_post_madd m (mkM h2 T2 (m_other m))); eauto.
      simpl. rewrite Hiff2. exact Hnot.
  Qed.

  Lemma handle_clash_MI : forall m os m' oe,
      MI m -> In os (sids O0) -> ~ In os (sids (m_self m)) ->
      handle_clash m anc os = (m', oe) -> clash_post m m' os oe.
  Proof.
    intros m os m' oe HM HinO Hnot H. unfold handle_clash in H.
    destruct (s_iface (hget (m_heap m) os)) eqn:Ei;
      try (eapply handle_clash_rename_MI; eauto; fail).
    destruct (lookup (m_self m) anc (s_name (hget (m_heap m) c))) as [sc|];
      [|inversion H; subst; apply clash_post_same; exact HM].
    destruct (Nat.eqb sc c); inversion H; subst; [|apply clash_post_same; exact HM].
    split; [exact HM | split; [apply grows_refl | split; [intros x Hx; left; exact Hx|]]].
    intros _. right; left. unfold is_import. rewrite Ei. reflexivity.
  Qed.

  Lemma add_one_MI : forall m skip os l m' oe,
      MI m -> pend_add m (os :: l) -> NoDup (os :: l) -> In os (sids O0) ->
      add_one m anc skip os = (m', oe) ->
      MI m' /\ grows m m' /\ (oe = None -> pend_add m' l) /\
      (oe = None -> In os skip \/ is_container (hget h0 os) = true \/ In os (sids (m_self m'))
                    \/ is_import (hget (m_heap m) os) = true \/ is_unres (hget (m_heap m) os) = true).
  Proof.
    intros m skip os l m' oe HM Hp Hnd HinO H. unfold add_one in H.
    inversion Hnd as [|? ? Hnotl Hndl]; subst.
    destruct (mem_sid os skip) eqn:Es; simpl in H.
    { inversion H; subst. split; [exact HM | split; [apply grows_refl | split]].
      - intros _ s Hs. apply Hp. right; exact Hs.
      - intros _. left. apply mem_sid_In. exact Es. }
    destruct (is_container (hget (m_heap m) os)) eqn:Ec.
    { inversion H; subst. split; [exact HM | split; [apply grows_refl | split]].
      - intros _ s Hs. apply Hp. right; exact Hs.
      - intros _. right; left. rewrite <- (is_container_stable _ _ HM). exact Ec. }
    rewrite (is_container_stable _ _ HM) in Ec.
    assert (Hnot : ~ In os (sids (m_self m))) by (apply Hp; [left; reflexivity | exact Ec]).
    assert (Hpend : forall m1, (forall x, In x (sids (m_self m1)) -> In x (sids (m_self m)) \/ x = os) ->
                               pend_add m1 l).
    { intros m1 Hnew s Hs Hk Hc. destruct (Hnew _ Hc) as [Hc'|Hc'].
      - apply (Hp s); [right; exact Hs | exact Hk | exact Hc'].
      - subst s. contradiction. }
    destruct (tbl_add (m_heap m) (m_self m) anc os "") as [T'|e] eqn:Ea.
    - inversion H; subst.
      pose proof (MI_add _ _ _ HM Ea HinO Hnot (O0_lt _ HinO)) as [HM' Hs].
      split; [exact HM'|]. split; [intros x Hx; simpl; rewrite Hs; apply in_or_app; left; exact Hx|]. split.
      + intros _. apply Hpend. intros x Hx. simpl in Hx. rewrite Hs in Hx.
        apply in_app_or in Hx as [Hx|[Hx|[]]]; [left; exact Hx | right; auto].
      + intros _. right; right; left. simpl. rewrite Hs. apply in_or_app. right; left; reflexivity.
    - destruct e; try (inversion H; subst; split; [exact HM | split; [apply grows_refl | split; discriminate]]).
      destruct (handle_clash_MI _ _ _ _ HM HinO Hnot H) as [HM' [Hg [Hnew Hres]]].
      split; [exact HM' | split; [exact Hg | split]].
      + intros _. apply Hpend. exact Hnew.
      + intros E. destruct (Hres E) as [R|[R|R]]; [right; right; left; exact R | right; right; right; left; exact R | right; right; right; right; exact R].
  Qed.
  Lemma add_loop_MI : forall l m skip m' oe,
      MI m -> pend_add m l -> NoDup l -> (forall s, In s l -> In s (sids O0)) ->
      add_loop m anc skip l = (m', oe) ->
      MI m' /\ grows m m' /\
      (oe = None -> forall s, In s l ->
                    In s skip \/ is_container (hget h0 s) = true \/ In s (sids (m_self m'))
                    \/ is_import (hget h0 s) = true \/ is_unres (hget h0 s) = true).
  Proof.
    induction l as [|os l IH]; intros m skip m' oe HM Hp Hnd Hl H; simpl in H.
    - inversion H; subst. split; [exact HM | split; [apply grows_refl | intros _ s []]].
    - destruct (add_one m anc skip os) as [m1 [e1|]] eqn:E1.
      + inversion H; subst.
        destruct (add_one_MI _ _ _ _ _ _ HM Hp Hnd (Hl os (or_introl eq_refl)) E1) as [HM1 [Hg1 _]].
        split; [exact HM1 | split; [exact Hg1 | discriminate]].
      + destruct (add_one_MI _ _ _ _ _ _ HM Hp Hnd (Hl os (or_introl eq_refl)) E1) as [HM1 [Hg1 [Hp1 Hr1]]].
        inversion Hnd; subst.
        destruct (IH m1 skip m' oe HM1 (Hp1 eq_refl) ltac:(assumption) (fun s Hs => Hl s (or_intror Hs)) H)
          as [HM' [Hg' Hr']].
        split; [exact HM' | split; [eapply grows_trans; eauto|]].
        intros E s [Hs|Hs].
        * subst s. destruct (mi_ifc _ HM os) as [Ei Eu].
          destruct (Hr1 eq_refl) as [R|[R|[R|[R|R]]]].
          -- left; exact R.
          -- right; left; exact R.
          -- right; right; left. apply Hg'. exact R.
          -- right; right; right; left. rewrite <- Ei. exact R.
          -- right; right; right; right. rewrite <- Eu. exact R.
        * apply Hr'; assumption.
  Qed.
End MergeInv.

(* ------------------------------------------------------------ whole merge *)
Lemma specialise_cont : forall h s h', specialise_intrinsic h s = inl h' ->
                                       forall x, is_container (hget h' x) = is_container (hget h x).
Proof.
  intros h s h' H. unfold specialise_intrinsic in H.
  destruct (s_kind (hget h s)) eqn:E; inversion H; subst; apply hset_field;
    unfold is_container; simpl; rewrite E; reflexivity.
Qed.

Lemma spec_opt_cont : forall (b : bool) h s h1,
    (if b then inl h else specialise_intrinsic h s) = inl h1 ->
    forall x, is_container (hget h1 x) = is_container (hget h x).
Proof.
  intros [|] h s h1 H x; [inversion H; subst; reflexivity | eapply specialise_cont; eauto].
Qed.

Lemma check_one_cont : forall h self other skip sw ow os h' oe,
    check_one h self other skip sw ow os = (h', oe) ->
    forall x, is_container (hget h' x) = is_container (hget h x).
Proof.
  intros h self other skip sw ow os h' oe H x. unfold check_one in H.
  repeat match type of H with
         | (match ?x with _ => _ end) = _ => destruct x eqn:?
         | (if ?x then _ else _) = _ => destruct x eqn:?
         end;
    inversion H; subst; clear H;
    repeat match goal with
           | E : (if _ then inl _ else specialise_intrinsic _ _) = inl _ |- _ => apply spec_opt_cont with (x := x) in E
           end;
    congruence.
Qed.

Lemma check_loop_cont : forall l h self other skip sw ow h' oe,
    check_loop h self other skip sw ow l = (h', oe) ->
    forall x, is_container (hget h' x) = is_container (hget h x).
Proof.
  induction l as [|os l IH]; intros h self other skip sw ow h' oe H x; simpl in H.
  - inversion H; subst. reflexivity.
  - destruct (check_one h self other skip sw ow os) as [h1 [e|]] eqn:E.
    + inversion H; subst. eapply check_one_cont; eauto.
    + rewrite (IH _ _ _ _ _ _ _ _ H x). eapply check_one_cont; eauto.
Qed.

(* the heap after check_for_clashes: same names, interfaces and container-ness; classes may
   have been specialised *)
Definition checked (h h1 : heap) : Prop :=
  same_names h h1 /\ (forall x, s_iface (hget h1 x) = s_iface (hget h x)) /\
  (forall x, is_container (hget h1 x) = is_container (hget h x)).

Lemma check_for_clashes_checked : forall h self anc other skip h1 oe,
    check_for_clashes h self anc other skip = (h1, oe) -> checked h h1.
Proof.
  intros h self anc other skip h1 oe H. split; [|split].
  - eapply check_for_clashes_names; eauto.
  - eapply check_for_clashes_iface; eauto.
  - unfold check_for_clashes in H. eapply check_loop_cont; eauto.
Qed.

Lemma MI_init : forall h1 T Ot, TOK h1 T -> MI h1 T Ot (mkM h1 T Ot).
Proof.
  intros h1 T Ot HT. constructor; simpl; auto.
  - intros s; reflexivity.
  - intros s; split; reflexivity.
Qed.

Definition merge_post (h : heap) (T Ot : table) (skip : list sid) (m : mst) (ph : mphase)
           (oe : option err) : Prop :=
  exists h1, checked h h1 /\
    match ph with
    | MRejected => m = mkM h1 T Ot /\ oe <> None
    | MPartial => MI h1 T Ot m /\ oe <> None
    | MDone => MI h1 T Ot m /\ oe = None /\
               forall s, In s (sids Ot) -> ~ In s skip -> is_container (hget h s) = false ->
                         is_import (hget h s) = false -> is_unres (hget h s) = false ->
                         In s (sids (m_self m))
    end.

Theorem merge_spec : forall h T anc Ot skip m ph oe,
    TOK h T -> TOK h Ot -> (forall s, In s (sids T) -> ~ In s (sids Ot)) ->
    merge h T anc Ot skip = (m, ph, oe) -> merge_post h T Ot skip m ph oe.
Proof.
  intros h T anc Ot skip m ph oe HT HO Hdisj H. unfold merge in H.
  destruct (check_for_clashes h T anc Ot skip) as [h1 [e|]] eqn:Ec.
  { inversion H; subst. exists h1. split; [eapply check_for_clashes_checked; eauto|].
    split; [reflexivity | discriminate]. }
  pose proof (check_for_clashes_checked _ _ _ _ _ _ _ Ec) as Hck.
  destruct Hck as [[Hlen Hnm] [Hif Hco]].
  assert (HT1 : TOK h1 T) by (eapply TOK_frame; [exact HT | lia | intros s _; apply Hnm]).
  assert (HO1 : TOK h1 Ot) by (eapply TOK_frame; [exact HO | lia | intros s _; apply Hnm]).
  assert (Hlt : forall s, In s (sids Ot) -> s < List.length h1).
  { intros s Hs. apply in_sids in Hs as [k Hk]. destruct HO1 as [_ [_ Hn]]. apply (Hn _ _ Hk). }
  pose proof (MI_init h1 T Ot HT1) as HM0.
  assert (Hpend0 : pend h1 Ot (mkM h1 T Ot) (filter (fun s => is_container (hget h1 s)) (sids Ot))).
  { split; simpl.
    - intros s Hs Hc. apply filter_In in Hs as [Hs _]. apply (Hdisj _ Hc Hs).
    - intros s Hs _ Hc. apply (Hdisj _ Hc Hs). }
  exists h1. split; [split; [split; assumption | split; assumption]|].
  unfold add_containers in H. simpl in H.
  destruct (container_loop (mkM h1 T Ot) anc (filter (fun s => is_container (hget h1 s)) (sids Ot)))
    as [m1 [e1|]] eqn:E1.
  - inversion H; subst.
    destruct (container_loop_MI h1 T Ot anc Hlt _ _ _ _ HM0 eq_refl Hpend0
                (NoDup_filter _ (proj1 (proj2 HO1)))
                (fun s Hs => let (a, b) := proj1 (filter_In _ _ _) Hs in conj a b) E1) as [HM1 _].
    split; [exact HM1 | discriminate].
  - destruct (container_loop_MI h1 T Ot anc Hlt _ _ _ _ HM0 eq_refl Hpend0
                (NoDup_filter _ (proj1 (proj2 HO1)))
                (fun s Hs => let (a, b) := proj1 (filter_In _ _ _) Hs in conj a b) E1)
      as [HM1 [Ho1 [Hg1 Hp1]]].
    unfold add_symbols in H. rewrite Ho1 in H. clear Ho1.
    assert (Hpa : pend_add h1 m1 (sids Ot)).
    { intros s Hs Hk. apply (proj2 (Hp1 eq_refl)); assumption. }
    destruct (add_loop m1 anc skip (sids Ot)) as [m2 [e2|]] eqn:E2.
    + inversion H; subst.
      destruct (add_loop_MI h1 T Ot anc Hlt _ _ _ _ _ HM1 Hpa (proj1 (proj2 HO1)) (fun s Hs => Hs) E2) as [HM2 _].
      split; [exact HM2 | discriminate].
    + inversion H; subst.
      destruct (add_loop_MI h1 T Ot anc Hlt _ _ _ _ _ HM1 Hpa (proj1 (proj2 HO1)) (fun s Hs => Hs) E2)
        as [HM2 [Hg2 Hr2]].
      split; [exact HM2|]. split; [reflexivity|].
      intros s Hs Hsk Hc Hi Hu.
      destruct (Hr2 eq_refl s Hs) as [R|[R|[R|[R|R]]]].
      * contradiction.
      * rewrite Hco in R. congruence.
      * exact R.
      * unfold is_import in *. rewrite Hif in R. congruence.
      * unfold is_unres in *. rewrite Hif in R. congruence.
Qed.
