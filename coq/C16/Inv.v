(* C16 -- association lists, lookup = innermost-first search, table invariants and their
   preservation by the primitive updates (add, rename, remove, heap writes). *)
From Coq Require Import List Arith Bool String Ascii NArith Lia Permutation.
Import ListNotations.
From PV Require Import C16.GenTables C16.Model C16.Names.
Open Scope string_scope.
Open Scope list_scope.

(* ----------------------------------------------------------- assoc lists *)
Lemma find_key_In : forall k l s, find_key k l = Some s -> In (k, s) l.
Proof.
  induction l as [|[k' s'] l IH]; intros s H; simpl in H; [discriminate|].
  destruct (String.eqb_spec k k') as [E|E].
  - inversion H; subst. left; reflexivity.
  - right. apply IH. exact H.
Qed.

Lemma find_key_None : forall k l, find_key k l = None <-> ~ In k (map fst l).
Proof.
  induction l as [|[k' s'] l IH]; simpl; [tauto|].
  destruct (String.eqb_spec k k') as [E|E].
  - subst. split; [discriminate | intros H; exfalso; apply H; left; reflexivity].
  - rewrite IH. split; [intros H [H'|H']; [congruence | tauto] | tauto].
Qed.

Lemma has_key_true : forall k l, has_key k l = true <-> In k (map fst l).
Proof.
  intros k l. unfold has_key. destruct (find_key k l) eqn:E.
  - split; [intros _ | reflexivity]. apply find_key_In in E. apply in_map_iff. exists (k, s). auto.
  - apply find_key_None in E. split; [discriminate | tauto].
Qed.

Lemma has_key_false : forall k l, has_key k l = false <-> ~ In k (map fst l).
Proof.
  intros k l. rewrite <- has_key_true. destruct (has_key k l); split; intro H; congruence.
Qed.

Lemma find_key_app : forall k l1 l2,
    find_key k (l1 ++ l2) = match find_key k l1 with Some s => Some s | None => find_key k l2 end.
Proof.
  induction l1 as [|[k' s'] l1 IH]; intros l2; simpl; [reflexivity|].
  destruct (String.eqb k k'); [reflexivity | apply IH].
Qed.

Lemma find_key_NoDup_In : forall k s l, NoDup (map fst l) -> In (k, s) l -> find_key k l = Some s.
Proof.
  induction l as [|[k' s'] l IH]; intros Hnd Hin; simpl in *; [tauto|].
  inversion Hnd as [|? ? Hnot Hnd']; subst.
  destruct Hin as [Hin|Hin].
  - inversion Hin; subst. rewrite String.eqb_refl. reflexivity.
  - destruct (String.eqb_spec k k') as [E|E]; [|apply IH; assumption].
    subst. exfalso. apply Hnot. apply in_map_iff. exists (k', s). auto.
Qed.

Lemma del_key_In : forall k k' s l, In (k', s) (del_key k l) <-> In (k', s) l /\ k <> k'.
Proof.
  intros k k' s l. unfold del_key. rewrite filter_In. simpl.
  destruct (String.eqb_spec k k') as [E|E]; simpl; split; intros [H1 H2]; try split; auto; try congruence.
Qed.

Lemma del_key_keys : forall k l x, In x (map fst (del_key k l)) <-> In x (map fst l) /\ k <> x.
Proof.
  intros k l x. rewrite !in_map_iff. split.
  - intros [[k' s] [E H]]. simpl in E. subst. apply del_key_In in H as [H1 H2]. split; [exists (x, s); auto | exact H2].
  - intros [[[k' s] [E H]] Hne]. simpl in E. subst. exists (x, s). split; [reflexivity | apply del_key_In; auto].
Qed.

Lemma NoDup_map_filter {A B} (f : A -> B) (p : A -> bool) (l : list A) :
  NoDup (map f l) -> NoDup (map f (filter p l)).
Proof.
  induction l as [|x l IH]; simpl; intros H; [constructor|].
  inversion H as [|? ? Hn Hd]; subst.
  destruct (p x); simpl; [constructor; [|auto] | auto].
  intro Hin. apply Hn. apply in_map_iff in Hin as [y [E Hy]]. apply filter_In in Hy as [Hy _].
  apply in_map_iff. exists y; auto.
Qed.

Lemma del_key_NoDup_keys : forall k l, NoDup (map fst l) -> NoDup (map fst (del_key k l)).
Proof. intros. apply NoDup_map_filter. assumption. Qed.

Lemma del_key_NoDup_sids : forall k l, NoDup (map snd l) -> NoDup (map snd (del_key k l)).
Proof. intros. apply NoDup_map_filter. assumption. Qed.

Lemma filter_all {A} (p : A -> bool) (l : list A) :
  (forall x, In x l -> p x = true) -> filter p l = l.
Proof.
  induction l as [|x l IH]; simpl; intros H; [reflexivity|].
  rewrite (H x (or_introl eq_refl)). f_equal. apply IH. intros y Hy. apply H. right; exact Hy.
Qed.

Lemma del_key_perm : forall k s l, NoDup (map fst l) -> In (k, s) l ->
                                   Permutation l ((k, s) :: del_key k l).
Proof.
  induction l as [|[k' s'] l IH]; intros Hnd Hin; simpl in *; [tauto|].
  inversion Hnd as [|? ? Hnot Hnd']; subst.
  destruct Hin as [Hin|Hin].
  - inversion Hin; subst. rewrite String.eqb_refl. simpl.
    assert (E : del_key k l = l).
    { unfold del_key. apply filter_all. intros [k2 s2] H2. simpl.
      destruct (String.eqb_spec k k2) as [E|E]; [|reflexivity].
      subst. exfalso. apply Hnot. apply in_map_iff. exists (k2, s2). auto. }
    rewrite E. apply Permutation_refl.
  - destruct (String.eqb_spec k k') as [E|E].
    + subst. exfalso. apply Hnot. apply in_map_iff. exists (k', s). auto.
    + simpl. eapply perm_trans; [apply perm_skip; apply IH; assumption | apply perm_swap].
Qed.

Lemma mem_sid_In : forall s l, mem_sid s l = true <-> In s l.
Proof.
  intros s l; induction l as [|x l IH]; simpl; [split; [discriminate | tauto]|].
  destruct (Nat.eqb_spec s x) as [E|E].
  - subst; split; auto.
  - rewrite IH. split; [auto | intros [H|H]; [congruence | exact H]].
Qed.

Lemma mem_sid_false : forall s l, mem_sid s l = false <-> ~ In s l.
Proof. intros s l. rewrite <- mem_sid_In. destruct (mem_sid s l); split; intro H; congruence. Qed.

Lemma NoDup_app_one {A} (l : list A) (x : A) : NoDup l -> ~ In x l -> NoDup (l ++ [x]).
Proof.
  intros Hl Hx. apply NoDup_rev in Hl. rewrite <- (rev_involutive (l ++ [x])).
  apply NoDup_rev. rewrite rev_app_distr. simpl. constructor; [rewrite <- in_rev; exact Hx | exact Hl].
Qed.

(* --------------------------------------------- lookup = innermost first *)
Fixpoint first_in_chain (k : string) (Ts : list (list (string * sid))) : option sid :=
  match Ts with
  | [] => None
  | l :: r => match find_key k l with Some s => Some s | None => first_in_chain k r end
  end.

Lemma find_key_add_missing : forall k l acc,
    find_key k (add_missing acc l) =
    match find_key k acc with Some s => Some s | None => find_key k l end.
Proof.
  induction l as [|[k' s'] l IH]; intros acc; simpl.
  - destruct (find_key k acc); reflexivity.
  - destruct (has_key k' acc) eqn:Hk.
    + rewrite IH. destruct (find_key k acc) eqn:E; [reflexivity|].
      destruct (String.eqb_spec k k') as [E'|E']; [|reflexivity].
      subst. unfold has_key in Hk. rewrite E in Hk. discriminate.
    + rewrite IH, find_key_app. simpl. destruct (find_key k acc) eqn:E; [reflexivity|].
      destruct (String.eqb k k'); reflexivity.
Qed.

Lemma find_key_fold : forall k (Ls : list (list (string * sid))) acc,
    find_key k (fold_left add_missing Ls acc) =
    match find_key k acc with Some s => Some s | None => first_in_chain k Ls end.
Proof.
  induction Ls as [|l Ls IH]; intros acc; simpl.
  - destruct (find_key k acc); reflexivity.
  - rewrite IH, find_key_add_missing. destruct (find_key k acc); [reflexivity|].
    destruct (find_key k l); reflexivity.
Qed.

Lemma fold_left_map {A B C} (f : A -> B -> A) (g : C -> B) (l : list C) (a : A) :
  fold_left (fun acc x => f acc (g x)) l a = fold_left f (map g l) a.
Proof. revert a; induction l as [|x l IH]; intros a; simpl; [reflexivity | apply IH]. Qed.

Lemma get_symbols_find : forall k T anc,
    find_key k (get_symbols T anc) = first_in_chain k (map t_syms (T :: anc)).
Proof.
  intros. unfold get_symbols.
  rewrite (fold_left_map add_missing t_syms (T :: anc) []), find_key_fold. reflexivity.
Qed.

Lemma get_tags_find : forall k T anc,
    find_key k (get_tags T anc) = first_in_chain k (map t_tags (T :: anc)).
Proof.
  intros. unfold get_tags.
  rewrite (fold_left_map add_missing t_tags (T :: anc) []), find_key_fold. reflexivity.
Qed.

Lemma first_in_chain_none : forall k Ls,
    first_in_chain k Ls = None <-> forall l, In l Ls -> ~ In k (map fst l).
Proof.
  induction Ls as [|l Ls IH]; simpl; [split; [intros _ l' [] | reflexivity]|].
  destruct (find_key k l) eqn:E.
  - split; [discriminate|]. intros H. exfalso. apply (H l (or_introl eq_refl)).
    apply find_key_In in E. apply in_map_iff. exists (k, s); auto.
  - rewrite IH. apply find_key_None in E. split.
    + intros H l' [Hl|Hl]; [subst; exact E | apply H; exact Hl].
    + intros H l' Hl. apply H. right; exact Hl.
Qed.

(* declarative reading: the answer comes from the first list of the chain that has the key *)
Lemma first_in_chain_spec : forall k Ls s,
    first_in_chain k Ls = Some s <->
    exists pre l post, Ls = pre ++ l :: post /\ (forall l', In l' pre -> ~ In k (map fst l')) /\
                       find_key k l = Some s.
Proof.
  induction Ls as [|l Ls IH]; intros s; simpl.
  - split; [discriminate|]. intros [pre [l [post [H _]]]]. destruct pre; discriminate.
  - destruct (find_key k l) eqn:E.
    + split.
      * intros H; inversion H; subst. exists [], l, Ls. split; [reflexivity|]. split; [intros ? []|exact E].
      * intros [pre [l0 [post [H [Hpre Hf]]]]]. destruct pre as [|p pre]; simpl in H; inversion H; subst.
        -- congruence.
        -- exfalso. apply (Hpre p (or_introl eq_refl)). apply find_key_In in E.
           apply in_map_iff. exists (k, s0); auto.
    + rewrite IH. apply find_key_None in E. split.
      * intros [pre [l0 [post [H [Hpre Hf]]]]]. exists (l :: pre), l0, post. subst. split; [reflexivity|].
        split; [|exact Hf]. intros l' [Hl|Hl]; [subst; exact E | apply Hpre; exact Hl].
      * intros [pre [l0 [post [H [Hpre Hf]]]]]. destruct pre as [|p pre]; simpl in H; inversion H; subst.
        -- apply find_key_None in E. congruence.
        -- exists pre, l0, post. split; [reflexivity|]. split; [|exact Hf].
           intros l' Hl. apply Hpre. right; exact Hl.
Qed.

Lemma get_symbols_keys : forall k T anc,
    In k (map fst (get_symbols T anc)) <-> exists T', In T' (T :: anc) /\ In k (keys T').
Proof.
  intros k T anc. rewrite <- has_key_true. unfold has_key. rewrite get_symbols_find.
  destruct (first_in_chain k (map t_syms (T :: anc))) eqn:E.
  - split; [intros _ | reflexivity].
    apply first_in_chain_spec in E as [pre [l [post [H [_ Hf]]]]].
    assert (Hin : In l (map t_syms (T :: anc))) by (rewrite H; apply in_or_app; right; left; reflexivity).
    apply in_map_iff in Hin as [T' [E' HT']]. exists T'. split; [exact HT'|]. subst.
    apply find_key_In in Hf. unfold keys. apply in_map_iff. exists (k, s); auto.
  - split; [discriminate|]. intros [T' [HT' Hk]]. exfalso.
    rewrite first_in_chain_none in E. apply (E (t_syms T')); [apply in_map; exact HT' | exact Hk].
Qed.

Lemma get_tags_keys_self : forall k T anc,
    In k (map fst (t_tags T)) -> has_key k (get_tags T anc) = true.
Proof.
  intros k T anc H. unfold has_key. rewrite get_tags_find. simpl.
  destruct (find_key k (t_tags T)) eqn:E; [reflexivity|]. apply find_key_None in E. contradiction.
Qed.

(* ------------------------------------------------------------------ heap *)
Lemma hset_length : forall h s v, List.length (hset h s v) = List.length h.
Proof. induction h as [|x h IH]; intros [|s] v; simpl; auto. Qed.

Lemma hget_hset_same : forall h s v, s < List.length h -> hget (hset h s v) s = v.
Proof.
  unfold hget. induction h as [|x h IH]; intros [|s] v H; simpl in *; try lia; [reflexivity|].
  apply IH. lia.
Qed.

Lemma hget_hset_other : forall h s s' v, s <> s' -> hget (hset h s v) s' = hget h s'.
Proof.
  unfold hget. induction h as [|x h IH]; intros [|s] [|s'] v H; simpl in *; try congruence; try reflexivity.
  apply IH. congruence.
Qed.

Lemma hget_app_old : forall h v s, s < List.length h -> hget (h ++ [v]) s = hget h s.
Proof. intros. unfold hget. apply app_nth1. assumption. Qed.

Lemma hget_app_new : forall h v, hget (h ++ [v]) (List.length h) = v.
Proof. intros. unfold hget. rewrite app_nth2; [|lia]. rewrite Nat.sub_diag. reflexivity. Qed.

(* ----------------------------------------------------------- invariants *)
Definition names_ok (h : heap) (T : table) : Prop :=
  forall k s, In (k, s) (t_syms T) -> k = normalize (s_name (hget h s)) /\ s < List.length h.

Definition TOK (h : heap) (T : table) : Prop :=
  NoDup (keys T) /\ NoDup (sids T) /\ names_ok h T.

Definition tags_ok (T : table) : Prop :=
  NoDup (map fst (t_tags T)) /\ forall tg s, In (tg, s) (t_tags T) -> In s (sids T).

Lemma in_sids : forall T s, In s (sids T) <-> exists k, In (k, s) (t_syms T).
Proof.
  intros T s. unfold sids. rewrite in_map_iff. split.
  - intros [[k s'] [E H]]. simpl in E. subst. eauto.
  - intros [k H]. exists (k, s). auto.
Qed.

Lemma in_keys : forall T k, In k (keys T) <-> exists s, In (k, s) (t_syms T).
Proof.
  intros T k. unfold keys. rewrite in_map_iff. split.
  - intros [[k' s] [E H]]. simpl in E. subst. eauto.
  - intros [s H]. exists (k, s). auto.
Qed.

Lemma names_ok_frame : forall h h' T,
    names_ok h T -> List.length h <= List.length h' ->
    (forall s, In s (sids T) -> s_name (hget h' s) = s_name (hget h s)) -> names_ok h' T.
Proof.
  intros h h' T H Hlen Hn k s Hin. destruct (H k s Hin) as [E Hs]. split; [|lia].
  rewrite Hn; [exact E | apply in_sids; eauto].
Qed.

Lemma TOK_frame : forall h h' T,
    TOK h T -> List.length h <= List.length h' ->
    (forall s, In s (sids T) -> s_name (hget h' s) = s_name (hget h s)) -> TOK h' T.
Proof.
  intros h h' T [H1 [H2 H3]] Hl Hn. split; [exact H1|]. split; [exact H2|].
  eapply names_ok_frame; eauto.
Qed.

Lemma TOK_entry_unique : forall h T k s k' s',
    TOK h T -> In (k, s) (t_syms T) -> In (k', s') (t_syms T) -> s = s' -> k = k'.
Proof.
  intros h T k s k' s' [_ [_ Hn]] H1 H2 E. subst.
  destruct (Hn _ _ H1) as [E1 _]. destruct (Hn _ _ H2) as [E2 _]. congruence.
Qed.

Lemma TOK_find : forall h T s, TOK h T -> In s (sids T) ->
                               find_key (normalize (s_name (hget h s))) (t_syms T) = Some s.
Proof.
  intros h T s [Hk [_ Hn]] Hin. apply in_sids in Hin as [k Hin].
  destruct (Hn _ _ Hin) as [E _]. subst. apply find_key_NoDup_In; assumption.
Qed.

(* names are unique case-insensitively inside a table *)
Lemma TOK_names_unique : forall h T k1 s1 k2 s2,
    TOK h T -> In (k1, s1) (t_syms T) -> In (k2, s2) (t_syms T) ->
    normalize (s_name (hget h s1)) = normalize (s_name (hget h s2)) -> s1 = s2.
Proof.
  intros h T k1 s1 k2 s2 [Hk [_ Hn]] H1 H2 E.
  destruct (Hn _ _ H1) as [E1 _]. destruct (Hn _ _ H2) as [E2 _].
  assert (k1 = k2) by congruence. subst k2.
  pose proof (find_key_NoDup_In _ _ _ Hk H1) as F1.
  pose proof (find_key_NoDup_In _ _ _ Hk H2) as F2. congruence.
Qed.

(* ------------------------------------------------------------------- add *)
Lemma tbl_add_spec : forall h T anc s tag T',
    tbl_add h T anc s tag = inl T' ->
    let key := normalize (s_name (hget h s)) in
    ~ In key (keys T) /\ t_syms T' = (t_syms T ++ [(key, s)])%list /\ t_args T' = t_args T /\
    ((tag = "" /\ t_tags T' = t_tags T) \/
     (tag <> "" /\ has_key tag (get_tags T anc) = false /\ t_tags T' = (t_tags T ++ [(tag, s)])%list)).
Proof.
  intros h T anc s tag T' H key. unfold tbl_add in H. fold key in H.
  destruct (has_key key (t_syms T)) eqn:Hk; [discriminate|].
  apply has_key_false in Hk. split; [exact Hk|].
  destruct (String.eqb_spec tag "") as [E|E].
  - inversion H; subst; simpl. auto.
  - destruct (has_key tag (get_tags T anc)) eqn:Ht; [discriminate|].
    inversion H; subst; simpl. split; [reflexivity|]. split; [reflexivity|]. right. auto.
Qed.

Lemma tbl_add_err : forall h T anc s tag e, tbl_add h T anc s tag = inr e -> e = EKey.
Proof.
  intros h T anc s tag e H. unfold tbl_add in H.
  destruct (has_key _ (t_syms T)); [inversion H; reflexivity|].
  destruct (String.eqb tag ""); [discriminate|].
  destruct (has_key tag _); [inversion H; reflexivity | discriminate].
Qed.

Lemma tbl_add_TOK : forall h T anc s tag T',
    tbl_add h T anc s tag = inl T' -> TOK h T -> ~ In s (sids T) -> s < List.length h ->
    TOK h T' /\ sids T' = (sids T ++ [s])%list.
Proof.
  intros h T anc s tag T' H [Hk [Hs Hn]] Hns Hlt.
  apply tbl_add_spec in H as [Hkey [Hsyms [_ _]]].
  unfold TOK, keys, sids, names_ok. rewrite Hsyms, !map_app. simpl.
  split; [|reflexivity]. split; [|split].
  - apply NoDup_app_one; assumption.
  - apply NoDup_app_one; assumption.
  - intros k s0 Hin. apply in_app_or in Hin as [Hin|[Hin|[]]]; [apply Hn; exact Hin|].
    inversion Hin; subst. auto.
Qed.

Lemma tbl_add_tags_ok : forall h T anc s tag T',
    tbl_add h T anc s tag = inl T' -> tags_ok T -> tags_ok T'.
Proof.
  intros h T anc s tag T' H [Hnd Hin].
  apply tbl_add_spec in H as [_ [Hsyms [_ Ht]]].
  assert (Hsub : forall x, In x (sids T) -> In x (sids T')).
  { intros x Hx. unfold sids. rewrite Hsyms, map_app. apply in_or_app. left. exact Hx. }
  destruct Ht as [[_ Ht]|[Hne [Hfree Ht]]]; unfold tags_ok; rewrite Ht.
  - split; [exact Hnd | intros tg s0 H0; apply Hsub; eapply Hin; eauto].
  - split.
    + rewrite map_app. simpl. apply NoDup_app_one; [exact Hnd|].
      intro Hc. apply (get_tags_keys_self _ _ anc) in Hc. congruence.
    + intros tg s0 H0. apply in_app_or in H0 as [H0|[H0|[]]]; [apply Hsub; eapply Hin; eauto|].
      inversion H0; subst. unfold sids. rewrite Hsyms, map_app. apply in_or_app. right. left. reflexivity.
Qed.

(* ---------------------------------------------------------------- rename *)
Lemma rename_check_ok : forall h T s name,
    rename_check h T s name = None ->
    In s (sids T) /\ ~ In (normalize name) (keys T) /\
    is_container (hget h s) = false /\ is_import (hget h s) = false /\ is_unres (hget h s) = false /\
    is_arg (hget h s) = false /\ is_common (hget h s) = false.
Proof.
  intros h T s name H. unfold rename_check in H.
  destruct (mem_sid s (sids T)) eqn:Hm; simpl in H; [|discriminate].
  apply mem_sid_In in Hm.
  destruct (is_container (hget h s)); [discriminate|].
  destruct (is_import (hget h s)); [discriminate|].
  destruct (is_unres (hget h s)); [discriminate|].
  destruct (is_arg (hget h s)); [discriminate|].
  destruct (is_common (hget h s)); [discriminate|].
  destruct (has_key (normalize name) (t_syms T)) eqn:Hk; [discriminate|].
  apply has_key_false in Hk. repeat split; auto.
Qed.

Lemma rename_symbol_spec : forall h T s name h' T',
    rename_symbol h T s name = inl (h', T') ->
    rename_check h T s name = None /\
    h' = hset h s (set_name (hget h s) name) /\
    t_syms T' = (del_key (normalize (s_name (hget h s))) (t_syms T) ++ [(normalize name, s)])%list /\
    t_tags T' = t_tags T /\ t_args T' = t_args T.
Proof.
  intros h T s name h' T' H. unfold rename_symbol in H.
  destruct (rename_check h T s name) eqn:Hc; [discriminate|]. split; [reflexivity|].
  unfold rename_do in H. destruct (has_key _ (t_syms T)); [|discriminate].
  inversion H; subst; simpl. auto.
Qed.

Lemma rename_symbol_TOK : forall h T s name h' T',
    rename_symbol h T s name = inl (h', T') -> TOK h T ->
    TOK h' T' /\ Permutation (sids T') (sids T) /\ List.length h' = List.length h /\
    In s (sids T) /\ hget h' s = set_name (hget h s) name /\
    (forall s', s' <> s -> hget h' s' = hget h s').
Proof.
  intros h T s name h' T' H HT.
  apply rename_symbol_spec in H as [Hc [Hh [Hsyms _]]].
  apply rename_check_ok in Hc as [Hin [Hfree _]].
  destruct HT as [Hk [Hs Hn]].
  set (old := normalize (s_name (hget h s))) in *.
  assert (Hent : In (old, s) (t_syms T)).
  { apply in_sids in Hin as [k Hk']. destruct (Hn _ _ Hk') as [E _]. subst k. exact Hk'. }
  assert (Hlt : s < List.length h) by (apply (Hn _ _ Hent)).
  pose proof (del_key_perm _ _ _ Hk Hent) as Hperm.
  assert (Hp2 : Permutation (sids T') (sids T)).
  { unfold sids. rewrite Hsyms, map_app. simpl.
    eapply perm_trans; [apply Permutation_app_comm|]. simpl.
    apply Permutation_sym. change (s :: map snd (del_key old (t_syms T))) with (map snd ((old, s) :: del_key old (t_syms T))).
    apply Permutation_map. exact Hperm. }
  assert (Hother : forall s', s' <> s -> hget h' s' = hget h s').
  { intros s' Hne. subst h'. apply hget_hset_other. congruence. }
  split; [|split; [exact Hp2 | split; [subst h'; apply hset_length | split; [exact Hin | split; [subst h'; apply hget_hset_same; exact Hlt | exact Hother]]]]].
  split; [|split].
  - unfold keys. rewrite Hsyms, map_app. simpl. apply NoDup_app_one.
    + apply del_key_NoDup_keys. exact Hk.
    + intro Hc. apply del_key_keys in Hc as [Hc _]. contradiction.
  - eapply Permutation_NoDup; [apply Permutation_sym; exact Hp2 | exact Hs].
  - intros k s0 Hin0. rewrite Hsyms in Hin0. apply in_app_or in Hin0 as [Hin0|[Hin0|[]]].
    + apply del_key_In in Hin0 as [Hin0 Hne]. destruct (Hn _ _ Hin0) as [E Hl].
      assert (s0 <> s).
      { intro E'. subst s0. apply Hne. subst k. reflexivity. }
      rewrite Hother by assumption. split; [exact E | subst h'; rewrite hset_length; exact Hl].
    + inversion Hin0; subst k s0. split.
      * subst h'. rewrite hget_hset_same by exact Hlt. reflexivity.
      * subst h'. rewrite hset_length. exact Hlt.
Qed.

(* ---------------------------------------------------------------- remove *)
Lemma tbl_remove_spec : forall h T s T',
    tbl_remove h T s = inl T' ->
    let k := normalize (s_name (hget h s)) in
    find_key k (t_syms T) = Some s /\ t_syms T' = del_key k (t_syms T) /\
    t_tags T' = filter (fun e => negb (Nat.eqb (snd e) s)) (t_tags T) /\ t_args T' = t_args T.
Proof.
  intros h T s T' H k. unfold tbl_remove in H. fold k in H.
  destruct (s_kind (hget h s)); try discriminate;
    (destruct (find_key k (t_syms T)) as [s'|] eqn:Hf; [|discriminate];
     destruct (Nat.eqb_spec s' s) as [E|E]; simpl in H; [|discriminate]; subst s';
     match type of H with
     | (if ?c then _ else _) = _ => destruct c; [discriminate|]
     end;
     match type of H with
     | (if ?c then _ else _) = _ => destruct c; [discriminate|]
     end; inversion H; subst; simpl; auto).
Qed.

Lemma tbl_remove_TOK : forall h T s T',
    tbl_remove h T s = inl T' -> TOK h T -> tags_ok T ->
    TOK h T' /\ tags_ok T' /\ incl (sids T') (sids T).
Proof.
  intros h T s T' H [Hk [Hs Hn]] [Htd Hti].
  apply tbl_remove_spec in H as [Hf [Hsyms [Htags _]]].
  set (k := normalize (s_name (hget h s))) in *.
  assert (Hincl : incl (sids T') (sids T)).
  { intros x Hx. apply in_sids in Hx as [k' Hx]. rewrite Hsyms in Hx. apply del_key_In in Hx as [Hx _].
    apply in_sids. eauto. }
  split; [|split; [|exact Hincl]].
  - split; [|split].
    + unfold keys. rewrite Hsyms. apply del_key_NoDup_keys. exact Hk.
    + unfold sids. rewrite Hsyms. apply del_key_NoDup_sids. exact Hs.
    + intros k' s' Hin. rewrite Hsyms in Hin. apply del_key_In in Hin as [Hin _]. apply Hn. exact Hin.
  - unfold tags_ok. rewrite Htags. split.
    + apply NoDup_map_filter. exact Htd.
    + intros tg s' Hin. apply filter_In in Hin as [Hin Hne]. simpl in Hne.
      apply negb_true_iff in Hne. apply Nat.eqb_neq in Hne.
      pose proof (Hti _ _ Hin) as Hs'. apply in_sids in Hs' as [k' Hk'].
      apply in_sids. exists k'. rewrite Hsyms. apply del_key_In. split; [exact Hk'|].
      intro E. subst k'. apply find_key_In in Hf.
      pose proof (find_key_NoDup_In _ _ _ Hk Hk') as F1.
      pose proof (find_key_NoDup_In _ _ _ Hk Hf) as F2. congruence.
Qed.
