(* C16 -- executable comparison for histories over scopes whose trees contain CodeBlocks.
   [step_cb] is Model.step with rename_symbol and merge going through C16/CodeBlocks.v. No proofs. *)
From Coq Require Import List Arith Bool String Ascii NArith.
Import ListNotations.
From PV Require Import C16.GenTables C16.Model C16.Exec C16.CodeBlocks.
Open Scope string_scope.
Open Scope list_scope.

Definition merge_step_cb (cbs : list (list string)) (st : state) (t : tref) (j : nat) (skip : list sid)
  : state * result :=
  match get_table st t, nth_error (st_det st) j with
  | Some T, Some Ot =>
    if (match t with TDet j' => Nat.eqb j' j | _ => false end) then (st, RErr ENoTable)
    else
      match merge_cb (cb_of cbs t) (st_heap st) T (ancestors st t) Ot skip with
      | (m, MRejected, oe) =>
          (with_heap st (m_heap m), match oe with Some e => RErr e | None => RUnit end)
      | (m, _, oe) =>
          let st1 := set_table (with_heap st (m_heap m)) t (m_self m) in
          (mkState (st_heap st1) (st_slots st1) (list_del (st_det st1) j),
           match oe with Some e => RErr e | None => RUnit end)
      end
  | _, _ => (st, RErr ENoTable)
  end.

Definition step_cb (cbs : list (list string)) (st : state) (o : op) : state * result :=
  match o with
  | ORename t s name => rename_step_cb cbs st t s name false
  | OMerge t j skip => merge_step_cb cbs st t j skip
  | _ => step st o
  end.

(* the gap: where the faithful model itself violates the property (as Exec.gap, over step_cb) *)
Definition gap_cb (cbs : list (list string)) (st : state) (o : op) : bool :=
  gap_skip st o ||
  match o with
  | OMerge t j skip =>
      match get_table st t, nth_error (st_det st) j with
      | Some T, Some Ot =>
          match merge_cb (cb_of cbs t) (st_heap st) T (ancestors st t) Ot skip with
          | (m, _, Some _) => negb (list_eqb sym_eqb (st_heap st) (m_heap m)
                                    && table_eqb T (m_self m) && table_eqb Ot (m_other m))
          | (m, _, None) =>
              negb (match needless_renames (st_heap st) (m_heap m) T Ot skip with [] => true | _ => false end)
          end
      | _, _ => false
      end
  | _ => false
  end.

Fixpoint first_bad_cb (cbs : list (list string)) (strict : bool) (st : state) (l : list (op * obs)) (i : nat)
  : option nat :=
  match l with
  | [] => None
  | (o, ob) :: rest =>
      let (st', r') := step_cb cbs st o in
      if obs_ok st st' r' ob then first_bad_cb cbs strict st' rest (S i)
      else if negb strict && gap_cb cbs st o then None
      else Some i
  end.

(* wire format: number of scopes, names in CodeBlocks per scope (innermost first), steps *)
Inductive wnames := WM0 | WM (n : string) (r : wnames).
Inductive wcbs := WB0 | WB (names : wnames) (r : wcbs).
Inductive wcase_cb := WCB (n : nat) (cbs : wcbs) (p : wsteps).

Fixpoint decode_names (w : wnames) : list string :=
  match w with WM0 => [] | WM n r => normalize n :: decode_names r end.
Fixpoint decode_cbs (w : wcbs) : list (list string) :=
  match w with WB0 => [] | WB a r => decode_names a :: decode_cbs r end.

Definition check_wcase_cb (w : wcase_cb) : bool :=
  match w with
  | WCB n cbs p =>
      match first_bad_cb (decode_cbs cbs) false (init_state n) (decode_steps p) 0 with
      | None => true | Some _ => false end
  end.
Definition first_bad_wcb (w : wcase_cb) : option nat :=
  match w with WCB n cbs p => first_bad_cb (decode_cbs cbs) true (init_state n) (decode_steps p) 0 end.
