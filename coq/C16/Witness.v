(* C16 -- concrete histories: refutations of the full-strength statements that the unchanged
   SymbolTable.merge violates (each is replayed on the implementation by props/C16/check.py), and
   non-vacuity examples for the hypotheses of the theorems of Proofs.v. *)
From Coq Require Import List Arith Bool String Ascii NArith Lia Permutation.
Import ListNotations.
From PV Require Import C16.GenTables C16.Model C16.Names C16.Inv C16.MergeProofs C16.RenameProofs C16.StateInv C16.Proofs.
Open Scope string_scope.
Open Scope list_scope.

Definition sp_unres := mkSpec KGeneric false IUnres.
Definition sp_data := mkSpec KData false IAuto.
Definition sp_arg := mkSpec KData false IArg.
Definition sp_cont := mkSpec KContainer false IOther.
Definition sp_imp (c : sid) := mkSpec KData false (IImport c "").

Lemma reachable_run : forall n ops, reachable (run (init_state n) ops).
Proof. intros n ops. exists n, ops. reflexivity. Qed.

(* what WF gives for the two tables of a merge *)
Lemma reachable_merge_pre : forall st t j T Ot,
    reachable st -> get_table st t = Some T -> nth_error (st_det st) j = Some Ot ->
    (match t with TDet j' => Nat.eqb j' j | _ => false end) = false ->
    TOK (st_heap st) T /\ TOK (st_heap st) Ot /\ (forall s, In s (sids T) -> ~ In s (sids Ot)).
Proof.
  intros st t j T Ot Hr HT HO Hne. pose proof (reachable_WF _ Hr) as HW.
  destruct (get_two_perm _ _ _ _ _ HT HO Hne) as [rest [P1 _]].
  assert (HW2 : WFl (st_heap st) (T :: Ot :: rest)) by (eapply WFl_perm; [exact P1 | exact HW]).
  split; [apply (proj1 HW2); left; reflexivity|]. split; [apply (proj1 HW2); right; left; reflexivity|].
  intros s Hs Hc. destruct HW2 as [_ Hnd]. simpl in Hnd. apply NoDup_app_elim in Hnd as [_ [_ Hd]].
  apply (Hd s Hs). apply in_or_app. left. exact Hc.
Qed.

(* ------------------------------------------------------------------------------------------
   The invariant theorems stated over histories (run from n nested empty scopes). *)
Lemma unique_names_run : forall n ops T,
    let st := run (init_state n) ops in
    In T (all_tables st) ->
    NoDup (keys T) /\ NoDup (sids T) /\
    (forall k s, In (k, s) (t_syms T) -> k = normalize (s_name (hget (st_heap st) s))) /\
    (forall k1 s1 k2 s2, In (k1, s1) (t_syms T) -> In (k2, s2) (t_syms T) ->
                         normalize (s_name (hget (st_heap st) s1)) = normalize (s_name (hget (st_heap st) s2)) ->
                         s1 = s2).
Proof. intros n ops T st. apply unique_names_inv_. apply reachable_run. Qed.

Lemma tags_run : forall n ops T,
    In T (all_tables (run (init_state n) ops)) ->
    NoDup (map fst (t_tags T)) /\ forall tg s, In (tg, s) (t_tags T) -> In s (sids T).
Proof. intros n ops T. apply tags_inv_. apply reachable_run. Qed.

Lemma one_owner_run : forall n ops, NoDup (flat_map sids (all_tables (run (init_state n) ops))).
Proof. intros n ops. apply ownership_inv_. apply reachable_run. Qed.

Lemma lookup_sound_run : forall n ops t T name s,
    let st := run (init_state n) ops in
    get_table st t = Some T -> lookup T (ancestors st t) name = Some s ->
    normalize (s_name (hget (st_heap st) s)) = normalize name.
Proof. intros n ops t T name s st. apply lookup_sound_. apply reachable_run. Qed.

Lemma fresh_name_no_clash_run : forall n ops t T root shadowing other nm,
    let st := run (init_state n) ops in
    get_table st t = Some T ->
    (forall Ot, other = Some Ot -> exists ot, get_table st ot = Some Ot) ->
    next_available_name T (ancestors st t) root shadowing other = Some nm ->
    forall P k s,
      (P = T \/ (shadowing = false /\ In P (ancestors st t)) \/ other = Some P) ->
      In (k, s) (t_syms P) ->
      normalize (s_name (hget (st_heap st) s)) <> normalize nm.
Proof. intros n ops t T root shadowing other nm st. apply fresh_name_no_clash_. apply reachable_run. Qed.

Lemma merge_hypotheses_run : forall n ops t j T Ot,
    let st := run (init_state n) ops in
    get_table st t = Some T -> nth_error (st_det st) j = Some Ot ->
    (match t with TDet j' => Nat.eqb j' j | _ => false end) = false ->
    TOK (st_heap st) T /\ TOK (st_heap st) Ot /\ (forall s, In s (sids T) -> ~ In s (sids Ot)).
Proof. intros n ops t j T Ot st. apply reachable_merge_pre. apply reachable_run. Qed.

Lemma merge_rejected_unchanged_both : forall st t j skip T Ot m oe st' r,
    get_table st t = Some T -> nth_error (st_det st) j = Some Ot ->
    merge (st_heap st) T (ancestors st t) Ot skip = (m, MRejected, oe) ->
    (m_self m = T /\ m_other m = Ot) /\
    (no_intrinsic_unresolved (st_heap st) T ->
     step st (OMerge t j skip) = (st', r) -> st' = st).
Proof.
  intros st t j skip T Ot m oe st' r HT HO Hm. split.
  - destruct (merge_rejected_unchanged_partial_ _ _ _ _ _ _ _ Hm) as [A [B _]]. split; assumption.
  - intros Hs H. eapply merge_step_rejected_unchanged_partial_; eauto.
Qed.

(* ------------------------------------------------------------------------------------------
   R1.  "a rejected operation changes nothing" is false for merge:
   (a) check_for_clashes specialises `sin` to IntrinsicSymbol in BOTH tables, then the clash on
       `x` (unresolved in both tables) raises SymbolError;
   (b) the container pass ignores symbols_to_skip: the skipped import `x` clashes with the routine
       argument `x`, rename_symbol raises SymbolError after container `m` was already added. *)
Definition ops_R1a : list op :=
  [OAdd (TSlot 0) "sin" sp_unres ""; OAdd (TSlot 0) "x" sp_unres ""; ONewTable;
   OAdd (TDet 0) "sin" sp_unres ""; OAdd (TDet 0) "x" sp_unres ""].

Lemma rejected_unchanged_refuted_a :
  exists st o st' e, reachable st /\ step st o = (st', RErr e) /\
                     map s_kind (st_heap st') <> map s_kind (st_heap st) /\
                     st_slots st' = st_slots st /\ st_det st' = st_det st.
Proof.
  exists (run (init_state 1) ops_R1a), (OMerge (TSlot 0) 0 []),
         (fst (step (run (init_state 1) ops_R1a) (OMerge (TSlot 0) 0 []))), ESymbol.
  split; [apply reachable_run|]. split; [vm_compute; reflexivity|].
  split; [vm_compute; discriminate|]. split; vm_compute; reflexivity.
Qed.

Definition ops_R1b : list op :=
  [OAdd (TSlot 0) "x" sp_arg ""; OSpecifyArgs (TSlot 0) [0]; ONewTable;
   OAdd (TDet 0) "m" sp_cont ""; OAdd (TDet 0) "x" (sp_imp 1) ""].

Lemma rejected_unchanged_refuted_b :
  exists st o st' e, reachable st /\ step st o = (st', RErr e) /\
                     get_table st' (TSlot 0) <> get_table st (TSlot 0).
Proof.
  exists (run (init_state 1) ops_R1b), (OMerge (TSlot 0) 0 [2]),
         (fst (step (run (init_state 1) ops_R1b) (OMerge (TSlot 0) 0 [2]))), ESymbol.
  split; [apply reachable_run|]. split; [vm_compute; reflexivity|]. vm_compute; discriminate.
Qed.

(* ------------------------------------------------------------------------------------------
   R2.  "merge adds every non-skipped symbol exactly once" is false: the other table imports
   `max` from a container symbol that is visible from the receiving table, which has a local
   `max`; _handle_symbol_clash takes the import for already present and drops it. *)
Definition ops_R2 : list op :=
  [OAdd (TSlot 0) "sin" sp_cont ""; ONewTable;
   OAdd (TDet 0) "max" (mkSpec KData false (IImport 0 "a")) "";
   OAdd (TSlot 0) "max" (mkSpec KIntrinsic false IAuto) ""].

Lemma merge_adds_once_refuted_ :
  exists st t j skip T Ot st' T' s,
    reachable st /\ get_table st t = Some T /\ nth_error (st_det st) j = Some Ot /\
    step st (OMerge t j skip) = (st', RUnit) /\ get_table st' t = Some T' /\
    In s (sids Ot) /\ ~ In s skip /\ is_container (hget (st_heap st) s) = false /\
    ~ In s (sids T') /\
    (* and nothing in the receiving table stands for it: no imported or unresolved symbol at all *)
    forallb (fun s' => negb (is_import (hget (st_heap st') s')) && negb (is_unres (hget (st_heap st') s')))
            (sids T') = true.
Proof.
  exists (run (init_state 1) ops_R2), (TSlot 0), 0, [].
  eexists. eexists. eexists. eexists. exists 1.
  split; [apply reachable_run|].
  split; [vm_compute; reflexivity|]. split; [vm_compute; reflexivity|].
  split; [vm_compute; reflexivity|]. split; [vm_compute; reflexivity|].
  split; [vm_compute; auto|]. split; [intros []|]. split; [vm_compute; reflexivity|].
  split; [vm_compute; intuition discriminate | vm_compute; reflexivity].
Qed.

(* ------------------------------------------------------------------------------------------
   R3.  "renames only where needed" is false: the only symbol of the other table named `x` is in
   symbols_to_skip (so it is not merged), yet the local `x` of the receiving table is renamed. *)
Definition ops_R3 : list op :=
  [OAdd (TSlot 0) "x" sp_data ""; ONewTable; OAdd (TDet 0) "m" sp_cont "";
   OAdd (TDet 0) "X" (sp_imp 1) ""].

Lemma merge_renames_refuted_ :
  exists st t j skip T Ot st' s,
    reachable st /\ get_table st t = Some T /\ nth_error (st_det st) j = Some Ot /\
    step st (OMerge t j skip) = (st', RUnit) /\
    In s (sids T) /\ s_name (hget (st_heap st') s) <> s_name (hget (st_heap st) s) /\
    forallb (fun e => negb (String.eqb (fst e) (normalize (s_name (hget (st_heap st) s))))
                      || mem_sid (snd e) skip) (t_syms Ot) = true.
Proof.
  exists (run (init_state 1) ops_R3), (TSlot 0), 0, [2].
  eexists. eexists. eexists. exists 0.
  split; [apply reachable_run|].
  split; [vm_compute; reflexivity|]. split; [vm_compute; reflexivity|].
  split; [vm_compute; reflexivity|]. split; [vm_compute; auto|].
  split; [vm_compute; discriminate | vm_compute; reflexivity].
Qed.

(* ------------------------------------------------------------------------------------------
   Non-vacuity. *)

(* a merge over three nested scopes that completes, renames on both sides and satisfies the
   hypotheses of merge_adds_once_partial_ *)
Definition ops_E1 : list op :=
  [OAdd (TSlot 2) "a_1" sp_data ""; OAdd (TSlot 1) "A" sp_data ""; OAdd (TSlot 0) "a" sp_arg "";
   OAdd (TSlot 0) "b" sp_data ""; ONewTable;
   OAdd (TDet 0) "A" sp_data "t1"; OAdd (TDet 0) "B" sp_arg ""; OAdd (TDet 0) "c" sp_data ""].

Example merge_adds_once_nonvacuous :
  exists st T Ot m,
    reachable st /\ get_table st (TSlot 0) = Some T /\ nth_error (st_det st) 0 = Some Ot /\
    TOK (st_heap st) T /\ TOK (st_heap st) Ot /\ (forall s, In s (sids T) -> ~ In s (sids Ot)) /\
    merge (st_heap st) T (ancestors st (TSlot 0)) Ot [] = (m, MDone, None) /\
    map (fun s => s_name (hget (m_heap m) s)) (sids (m_self m)) = ["a"; "A_2"; "B_1"; "B"; "c"].
Proof.
  exists (run (init_state 3) ops_E1). eexists. eexists. eexists.
  split; [apply reachable_run|]. split; [vm_compute; reflexivity|]. split; [vm_compute; reflexivity|].
  assert (Hpre := reachable_merge_pre (run (init_state 3) ops_E1) (TSlot 0) 0 _ _
                                      (reachable_run _ _) eq_refl eq_refl eq_refl).
  destruct Hpre as [H1 [H2 H3]].
  split; [exact H1|]. split; [exact H2|]. split; [exact H3|].
  split; vm_compute; reflexivity.
Qed.

(* a merge without any common key (with a container and an import): hypotheses of
   merge_no_clash_no_rename_ *)
Definition ops_E3 : list op :=
  [OAdd (TSlot 0) "a" sp_data ""; OAdd (TSlot 0) "B" sp_arg ""; ONewTable;
   OAdd (TDet 0) "m" sp_cont ""; OAdd (TDet 0) "x" (sp_imp 2) ""; OAdd (TDet 0) "c" sp_data ""].

Example merge_no_clash_nonvacuous :
  exists st T Ot m,
    reachable st /\ get_table st (TSlot 0) = Some T /\ nth_error (st_det st) 0 = Some Ot /\
    (forall s, In s (sids Ot) -> is_import (hget (st_heap st) s) = true -> is_container (hget (st_heap st) s) = false) /\
    (forall k, In k (keys T) -> ~ In k (keys Ot)) /\
    merge (st_heap st) T (ancestors st (TSlot 0)) Ot [] = (m, MDone, None) /\
    map (fun s => s_name (hget (m_heap m) s)) (sids (m_self m)) = ["a"; "B"; "m"; "x"; "c"].
Proof.
  exists (run (init_state 1) ops_E3). eexists. eexists. eexists.
  split; [apply reachable_run|]. split; [vm_compute; reflexivity|]. split; [vm_compute; reflexivity|].
  split.
  { intros s Hs. vm_compute in Hs. destruct Hs as [<-|[<-|[<-|[]]]]; vm_compute; congruence. }
  split.
  { intros k Hk. vm_compute in Hk. destruct Hk as [<-|[<-|[]]]; vm_compute; intuition discriminate. }
  split; vm_compute; reflexivity.
Qed.

(* a rejected merge (unresolved `x` in both tables, no intrinsic involved): hypotheses of
   merge_step_rejected_unchanged_partial_ hold and the state is unchanged *)
Definition ops_E2 : list op :=
  [OAdd (TSlot 0) "x" sp_unres ""; ONewTable; OAdd (TDet 0) "X" sp_unres ""].

Example merge_rejected_nonvacuous :
  exists st T Ot m,
    reachable st /\ get_table st (TSlot 0) = Some T /\ nth_error (st_det st) 0 = Some Ot /\
    merge (st_heap st) T (ancestors st (TSlot 0)) Ot [] = (m, MRejected, Some ESymbol) /\
    no_intrinsic_unresolved (st_heap st) T /\
    step st (OMerge (TSlot 0) 0 []) = (st, RErr ESymbol).
Proof.
  exists (run (init_state 1) ops_E2). eexists. eexists. eexists.
  split; [apply reachable_run|]. split; [vm_compute; reflexivity|]. split; [vm_compute; reflexivity|].
  split; [vm_compute; reflexivity|]. split; [|vm_compute; reflexivity].
  intros s Hs _. vm_compute in Hs. destruct Hs as [Hs|[]]. subst s. vm_compute. reflexivity.
Qed.

(* rejected non-merge operations in a reachable state *)
Example rejected_nonmerge_nonvacuous :
  let st := run (init_state 2) [OAdd (TSlot 1) "a" sp_data "t"; OAdd (TSlot 0) "B" sp_arg ""] in
  step st (OAdd (TSlot 1) "A" sp_data "") = (st, RErr EKey) /\
  step st (OAdd (TSlot 0) "c" sp_data "t") = (st, RErr EKey) /\
  step st (ORename (TSlot 0) 1 "b2") = (st, RErr ESymbol) /\
  step st (ORemove (TSlot 1) 0) = (st, RErr ENotImpl) /\
  step st (ONewSymbol (TSlot 0) "a" "" false sp_data false) = (st, RErr ESymbol).
Proof. vm_compute. repeat split. Qed.

(* rejected remove()/swap() of TAGGED symbols that are still referenced (a container imported from, a
   routine that is a member of a generic interface): the whole state, tag map included, is unchanged *)
Definition ops_E4 : list op :=
  [OAdd (TSlot 0) "mod1" sp_cont "c1"; OAdd (TSlot 0) "x" (sp_imp 0) "";
   OAdd (TSlot 0) "sub" (mkSpec KRoutine false IAuto) "r1";
   OAdd (TSlot 0) "gen" (mkSpec (KGenIface [2]) false IAuto) "g1"].

Example rejected_remove_tagged_nonvacuous :
  let st := run (init_state 1) ops_E4 in
  step st (ORemove (TSlot 0) 0) = (st, RErr EValue) /\
  step st (ORemove (TSlot 0) 2) = (st, RErr EValue) /\
  step st (OSwap (TSlot 0) 0 "MOD1" sp_cont) = (st, RErr EValue) /\
  snd (step st (OLookupTag (TSlot 0) "c1")) = RSym 0 /\
  snd (step st (OLookupTag (TSlot 0) "r1")) = RSym 2 /\
  snd (step st (OFindOrCreateTag (TSlot 0) "c1" "mod1" false sp_cont true)) = RSym 0 /\
  (* once the references are gone the removals succeed and take the tags with them *)
  snd (step (run st [ORemove (TSlot 0) 3; ORemove (TSlot 0) 2]) (OLookupTag (TSlot 0) "r1")) = RErr EKey.
Proof. vm_compute. repeat split. Qed.

(* fresh names: case-insensitive, suffix search over self + ancestors + other *)
Example fresh_name_nonvacuous :
  let st := run (init_state 2)
                [OAdd (TSlot 1) "a" sp_data ""; OAdd (TSlot 0) "A_1" sp_data ""; ONewTable;
                 OAdd (TDet 0) "a_2" sp_data ""] in
  snd (step st (ONextName (TSlot 0) "A" false (Some (TDet 0)))) = RName "A_3" /\
  snd (step st (ONextName (TSlot 0) "A" false None)) = RName "A_2" /\
  snd (step st (ONextName (TSlot 0) "A" true None)) = RName "A" /\
  snd (step st (ONextName (TSlot 1) "" false None)) = RName "psyir_tmp".
Proof. vm_compute. repeat split. Qed.

(* lookup: the innermost of two symbols that differ only in case *)
Example lookup_nonvacuous :
  let st := run (init_state 3) [OAdd (TSlot 2) "a" sp_data ""; OAdd (TSlot 0) "A" (mkSpec KGeneric false IAuto) ""] in
  snd (step st (OLookup (TSlot 0) "a")) = RSym 1 /\ snd (step st (OLookup (TSlot 1) "A")) = RSym 0 /\
  snd (step (fst (step st (ODetach 1))) (OLookup (TSlot 0) "a")) = RSym 1 /\
  snd (step (fst (step (fst (step st (ORemove (TSlot 0) 1))) (ODetach 1))) (OLookup (TSlot 0) "a")) = RErr EKey.
Proof. vm_compute. repeat split. Qed.
