(* C16 -- the invariants over ALL histories of the CodeBlock-aware step (ExecCB.step_cb), by
   simulation: for every operation other than merge, step_cb either is Model.step or refuses a
   rename because of a CodeBlock access and leaves the state unchanged.  And the general form of
   "an un-resolvable clash is rejected up front". *)
From Coq Require Import List Arith Bool String Ascii NArith Lia Permutation.
Import ListNotations.
From PV Require Import C16.GenTables C16.Model C16.Names C16.Inv C16.MergeProofs C16.StateInv C16.Proofs
     C16.Exec C16.CodeBlocks C16.ExecCB.
Open Scope string_scope.
Open Scope list_scope.

Definition run_cb (cbs : list (list string)) (st : state) (ops : list op) : state :=
  fold_left (fun s o => fst (step_cb cbs s o)) ops st.

Definition no_merge (ops : list op) : bool := forallb (fun o => negb (is_merge o)) ops.

(* ------------------------------------------------------------------ simulation *)
Lemma step_cb_sim : forall cbs st o,
    is_merge o = false ->
    step_cb cbs st o = step st o \/
    (exists t s name, o = ORename t s name /\ step_cb cbs st o = (st, RErr ESymbol)).
Proof.
  intros cbs st o Hm. destruct o; simpl in Hm; try discriminate Hm; try (left; reflexivity).
  simpl. unfold rename_step_cb.
  destruct (get_table st t) as [T|]; [|left; reflexivity].
  unfold rename_symbol_cb, rename_check_cb, rename_symbol.
  destruct (rename_check (st_heap st) T s name) as [e|]; [left; reflexivity|].
  destruct (mem_str _ _); [right; eauto | left; reflexivity].
Qed.

Lemma step_cb_WF : forall cbs st o, is_merge o = false -> WF st -> WF (fst (step_cb cbs st o)).
Proof.
  intros cbs st o Hm HW. destruct (step_cb_sim cbs st o Hm) as [E|[t [s [name [_ E]]]]]; rewrite E.
  - apply step_WF. exact HW.
  - exact HW.
Qed.

Lemma run_cb_WF : forall cbs ops st, no_merge ops = true -> WF st -> WF (run_cb cbs st ops).
Proof.
  intros cbs. induction ops as [|o ops IH]; intros st Hn HW; simpl; [exact HW|].
  simpl in Hn. apply andb_true_iff in Hn as [Ho Hn]. apply negb_true_iff in Ho.
  apply IH; [exact Hn | apply step_cb_WF; assumption].
Qed.

(* ------------------------------------------------------------------ invariants *)
Theorem unique_names_inv_cb_ : forall cbs n ops T,
    no_merge ops = true ->
    let st := run_cb cbs (init_state n) ops in
    In T (all_tables st) ->
    NoDup (keys T) /\ NoDup (sids T) /\
    (forall k s, In (k, s) (t_syms T) -> k = normalize (s_name (hget (st_heap st) s))) /\
    (forall k1 s1 k2 s2, In (k1, s1) (t_syms T) -> In (k2, s2) (t_syms T) ->
                         normalize (s_name (hget (st_heap st) s1)) = normalize (s_name (hget (st_heap st) s2)) ->
                         s1 = s2).
Proof.
  intros cbs n ops T Hn st HT.
  destruct (run_cb_WF cbs ops (init_state n) Hn (init_WF n)) as [H _]. destruct (H T HT) as [Htok _].
  split; [apply Htok|]. split; [apply Htok|]. split.
  - intros k s Hin. apply (proj2 (proj2 Htok) _ _ Hin).
  - intros. eapply TOK_names_unique; eauto.
Qed.

Theorem tags_never_stale_cb_ : forall cbs n ops T,
    no_merge ops = true -> In T (all_tables (run_cb cbs (init_state n) ops)) ->
    NoDup (map fst (t_tags T)) /\ forall tg s, In (tg, s) (t_tags T) -> In s (sids T).
Proof.
  intros cbs n ops T Hn HT.
  destruct (run_cb_WF cbs ops (init_state n) Hn (init_WF n)) as [H _]. destruct (H T HT) as [_ Htag]. exact Htag.
Qed.

(* lookup itself is not affected by CodeBlocks (C16_lookup_innermost holds verbatim); in a state reached
   through step_cb the symbol found is named as requested up to case *)
Theorem lookup_innermost_cb_ : forall cbs n ops t T name s,
    no_merge ops = true ->
    let st := run_cb cbs (init_state n) ops in
    get_table st t = Some T ->
    (lookup T (ancestors st t) name = Some s <->
     exists pre T' post, T :: ancestors st t = pre ++ T' :: post /\
                         (forall P, In P pre -> ~ In (normalize name) (keys P)) /\
                         find_key (normalize name) (t_syms T') = Some s) /\
    (lookup T (ancestors st t) name = Some s ->
     normalize (s_name (hget (st_heap st) s)) = normalize name).
Proof.
  intros cbs n ops t T name s Hn st Ht. split; [apply lookup_innermost_|].
  intros Hl. apply lookup_innermost_ in Hl as [pre [T' [post [E [_ Hf]]]]].
  assert (HT' : In T' (all_tables st)).
  { eapply chain_in_all; [exact Ht|]. rewrite E. apply in_or_app; right; left; reflexivity. }
  destruct (run_cb_WF cbs ops (init_state n) Hn (init_WF n)) as [H _]. destruct (H T' HT') as [[_ [_ Hnm]] _].
  apply find_key_In in Hf. destruct (Hnm _ _ Hf) as [Ek _]. symmetry. exact Ek.
Qed.

(* every operation except merge: an exception (a CodeBlock refusal included) leaves the state as it was *)
Theorem rejected_unchanged_cb_ : forall cbs st o st' e,
    is_merge o = false -> step_cb cbs st o = (st', RErr e) -> st' = st.
Proof.
  intros cbs st o st' e Hm H. destruct (step_cb_sim cbs st o Hm) as [E|[t [s [name [_ E]]]]]; rewrite E in H.
  - apply (rejected_unchanged_nonmerge_ st o st' e Hm H).
  - inversion H; reflexivity.
Qed.

(* ------------------------------------------------------------------ up-front rejection, general *)
(* the pair (ts in the receiving table, os in the other) is none of the special cases of
   check_for_clashes: it has to be resolved by renaming *)
Definition needs_rename (h : heap) (ts os : sid) : Prop :=
  is_container (hget h ts) && is_container (hget h os) = false /\
  is_intrinsic_sym (hget h ts) && is_intrinsic_sym (hget h os) = false /\
  is_import (hget h os) && is_import (hget h ts) = false /\
  is_unres (hget h os) && is_unres (hget h ts) = false.

(* neither can be renamed (or the dry run raises something else than SymbolError) *)
Definition unrenameable_pair (cb : list string) (h : heap) (self other : table) (ts os : sid) : Prop :=
  exists e1, rename_check_cb cb h self ts "" = Some e1 /\
             (e1 = ESymbol -> exists e2, rename_check_cb [] h other os "" = Some e2).

Lemma check_one_cb_unrenameable_gen : forall cb h self other skip sw ow os ts,
    find_key (normalize (s_name (hget h os))) (t_syms self) = Some ts ->
    ~ In os skip -> needs_rename h ts os -> unrenameable_pair cb h self other ts os ->
    exists e, check_one_cb cb h self other skip sw ow os = (h, Some e).
Proof.
  intros cb h self other skip sw ow os ts Hf Hsk [Hc [Hi [Him Hu]]] [e1 [H1 H2]]. unfold check_one_cb.
  rewrite Hf. apply mem_sid_false in Hsk. rewrite Hsk, Hc, Hi, Him, Hu, H1.
  destruct e1; try (eexists; reflexivity).
  destruct (H2 eq_refl) as [e2 E2]. rewrite E2. eexists; reflexivity.
Qed.

(* any number of clashing pairs, any number of un-renameable ones: as soon as ONE non-skipped pair cannot
   be resolved, check_for_clashes raises (at that pair or at an earlier one) and merge returns with the heap
   and both tables untouched *)
Theorem merge_unrenameable_clash_rejected_upfront_ : forall cb h self anc other skip os ts,
    no_intrinsic_unresolved h self ->
    In os (sids other) -> ~ In os skip ->
    find_key (normalize (s_name (hget h os))) (t_syms self) = Some ts ->
    needs_rename h ts os -> unrenameable_pair cb h self other ts os ->
    exists e, check_for_clashes_cb cb h self anc other skip = (h, Some e) /\
              merge_cb cb h self anc other skip = (mkM h self other, MRejected, Some e).
Proof.
  intros cb h self anc other skip os ts Hs Hin Hsk Hf Hn Hu.
  assert (Hl : forall l, In os l ->
                         exists e, check_loop_cb cb h self other skip (wildcards h (self :: anc))
                                                 (wildcards h [other]) l = (h, Some e)).
  { induction l as [|x l IH]; intros Hx; [destruct Hx|]. cbn [check_loop_cb].
    destruct (check_one_cb cb h self other skip (wildcards h (self :: anc)) (wildcards h [other]) x)
      as [h1 [e|]] eqn:E.
    - pose proof (check_one_cb_safe _ _ _ _ _ _ _ _ _ _ Hs E) as Eh. rewrite Eh. eexists; reflexivity.
    - pose proof (check_one_cb_safe _ _ _ _ _ _ _ _ _ _ Hs E) as Eh. rewrite Eh in *. clear Eh.
      destruct (Nat.eq_dec x os) as [Ex|Ex].
      + subst x. destruct (check_one_cb_unrenameable_gen cb h self other skip (wildcards h (self :: anc))
                                                         (wildcards h [other]) os ts Hf Hsk Hn Hu) as [e' E'].
        rewrite E' in E. discriminate.
      + apply IH. destruct Hx as [Hx|Hx]; [congruence | exact Hx]. }
  destruct (Hl (sids other) Hin) as [e He]. exists e.
  unfold merge_cb, check_for_clashes_cb. rewrite He. split; reflexivity.
Qed.

(* ------------------------------------------------------------------ examples *)
(* a history without merge over a scope with WRITE(*,*) x, a: refused renames, successful renames,
   shadowing, removal; the invariant hypotheses hold and the CodeBlock refusals are really taken *)
Definition cbi_ops : list op :=
  [OAdd (TSlot 1) "a" (mkSpec KData false IAuto) "t"; OAdd (TSlot 0) "x" (mkSpec KData false IAuto) "";
   OAdd (TSlot 0) "A" (mkSpec KGeneric false IAuto) "";
   ORename (TSlot 0) 1 "z"; ORename (TSlot 1) 0 "q"; ORename (TSlot 0) 2 "B"; ORename (TSlot 0) 2 "x";
   ORemove (TSlot 0) 2].

Example invariants_cb_nonvacuous :
  no_merge cbi_ops = true /\
  map snd (map (step_cb [["x"; "a"]; []] (run_cb [["x"; "a"]; []] (init_state 2) (firstn 3 cbi_ops)))
               [ORename (TSlot 0) 1 "z"; ORename (TSlot 1) 0 "q"; ORename (TSlot 0) 2 "B"])
  = [RErr ESymbol; RErr ESymbol; RErr ESymbol] /\
  (* x and a keep their names, A (also named in the CodeBlock, case-insensitively) too *)
  map s_name (st_heap (run_cb [["x"; "a"]; []] (init_state 2) cbi_ops)) = ["a"; "x"; "A"] /\
  (* without CodeBlocks the same history renames them *)
  map s_name (st_heap (run_cb [[]; []] (init_state 2) cbi_ops)) = ["q"; "z"; "x"].
Proof. vm_compute. repeat split. Qed.

(* two clashing pairs, the first resolvable (b / B), the second not (x in a CodeBlock / X argument),
   a third symbol without clash: rejected up front *)
Definition cbg_st : state :=
  run (init_state 1)
      [OAdd (TSlot 0) "b" (mkSpec KData false IAuto) ""; OAdd (TSlot 0) "x" (mkSpec KData false IAuto) "";
       ONewTable; OAdd (TDet 0) "B" (mkSpec KData false IAuto) ""; OAdd (TDet 0) "first" (mkSpec KData false IAuto) "";
       OAdd (TDet 0) "X" (mkSpec KData false IArg) ""].

Example merge_upfront_general_nonvacuous :
  exists T Ot,
    get_table cbg_st (TSlot 0) = Some T /\ nth_error (st_det cbg_st) 0 = Some Ot /\
    no_intrinsic_unresolved (st_heap cbg_st) T /\ In 4 (sids Ot) /\
    find_key (normalize (s_name (hget (st_heap cbg_st) 4))) (t_syms T) = Some 1 /\
    needs_rename (st_heap cbg_st) 1 4 /\ unrenameable_pair ["x"] (st_heap cbg_st) T Ot 1 4 /\
    merge_cb ["x"] (st_heap cbg_st) T [] Ot [] = (mkM (st_heap cbg_st) T Ot, MRejected, Some ESymbol) /\
    (exists m, merge_cb [] (st_heap cbg_st) T [] Ot [] = (m, MDone, None) /\
               map (fun s => s_name (hget (m_heap m) s)) (sids (m_self m)) = ["b"; "B_1"; "first"; "X_1"; "X"]).
Proof.
  eexists. eexists. split; [vm_compute; reflexivity|]. split; [vm_compute; reflexivity|].
  split. { intros s Hs Hu. vm_compute in Hs. destruct Hs as [<-|[<-|[]]]; vm_compute in Hu; discriminate. }
  split; [vm_compute; auto|]. split; [vm_compute; reflexivity|].
  split; [vm_compute; auto|].
  split. { exists ESymbol. split; [vm_compute; reflexivity|]. intros _. exists ESymbol. vm_compute. reflexivity. }
  split; [vm_compute; reflexivity|]. eexists. split; vm_compute; reflexivity.
Qed.
