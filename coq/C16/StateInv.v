(* C16 -- the invariant of the whole state (all tables of all scopes and all detached tables)
   and its preservation by every operation. *)
From Coq Require Import List Arith Bool String Ascii NArith Lia Permutation.
Import ListNotations.
From PV Require Import C16.GenTables C16.Model C16.Names C16.Inv C16.MergeProofs.
Open Scope string_scope.
Open Scope list_scope.

Definition slot_tables (l : list (option table)) : list table :=
  flat_map (fun o => match o with Some T => [T] | None => [] end) l.

Definition all_tables (st : state) : list table := slot_tables (st_slots st) ++ st_det st.

(* a list of tables over a heap: each table is consistent, tags point into their table, and no
   symbol object is in two tables (or twice in one) *)
Definition WFl (h : heap) (Ts : list table) : Prop :=
  (forall T, In T Ts -> TOK h T /\ tags_ok T) /\ NoDup (flat_map sids Ts).

Definition WF (st : state) : Prop := WFl (st_heap st) (all_tables st).

(* ------------------------------------------------------------ list lemmas *)
Lemma NoDup_app_elim {A} (a b : list A) :
  NoDup (a ++ b) -> NoDup a /\ NoDup b /\ (forall x, In x a -> ~ In x b).
Proof.
  induction a as [|x a IH]; simpl; intros H.
  - split; [constructor | split; [exact H | intros x []]].
  - inversion H as [|? ? Hn Hd]; subst. destruct (IH Hd) as [Ha [Hb Hdis]].
    split; [constructor; [intro Hx; apply Hn; apply in_or_app; left; exact Hx | exact Ha]|].
    split; [exact Hb|]. intros y [Hy|Hy]; [subst; intro Hy; apply Hn; apply in_or_app; right; exact Hy | apply Hdis; exact Hy].
Qed.

Lemma NoDup_app_intro {A} (a b : list A) :
  NoDup a -> NoDup b -> (forall x, In x a -> ~ In x b) -> NoDup (a ++ b).
Proof.
  induction a as [|x a IH]; simpl; intros Ha Hb Hd; [exact Hb|].
  inversion Ha as [|? ? Hn Ha']; subst. constructor.
  - intro Hx. apply in_app_or in Hx as [Hx|Hx]; [contradiction | apply (Hd x (or_introl eq_refl) Hx)].
  - apply IH; [exact Ha' | exact Hb | intros y Hy; apply Hd; right; exact Hy].
Qed.

Lemma WFl_perm : forall h Ts Ts', Permutation Ts Ts' -> WFl h Ts -> WFl h Ts'.
Proof.
  intros h Ts Ts' Hp [H1 H2]. split.
  - intros T HT. apply H1. eapply Permutation_in; [apply Permutation_sym; exact Hp | exact HT].
  - eapply Permutation_NoDup; [apply Permutation_flat_map; exact Hp | exact H2].
Qed.

Lemma list_set_split {A} : forall (l : list A) i x,
    nth_error l i = Some x ->
    exists l1 l2, l = l1 ++ x :: l2 /\ (forall y, list_set l i y = l1 ++ y :: l2) /\ list_del l i = l1 ++ l2.
Proof.
  induction l as [|a l IH]; intros [|i] x H; simpl in H; try discriminate.
  - inversion H; subst. exists [], l. repeat split; reflexivity.
  - destruct (IH i x H) as [l1 [l2 [E1 [E2 E3]]]]. exists (a :: l1), l2. simpl.
    split; [congruence|]. split; [intros y; rewrite E2; reflexivity | congruence].
Qed.

Lemma slot_tables_app : forall a b, slot_tables (a ++ b) = slot_tables a ++ slot_tables b.
Proof. intros. unfold slot_tables. apply flat_map_app. Qed.

(* the table addressed by a reference, and the others *)
Lemma get_table_perm : forall st t T,
    get_table st t = Some T ->
    exists rest, Permutation (all_tables st) (T :: rest) /\
                 forall h' T', Permutation (all_tables (set_table (with_heap st h') t T')) (T' :: rest).
Proof.
  intros st [i|j] T H; unfold get_table in H.
  - destruct (nth_error (st_slots st) i) as [[T0|]|] eqn:E; try discriminate. inversion H; subst T0.
    destruct (list_set_split _ _ _ E) as [l1 [l2 [E1 [E2 _]]]].
    exists (slot_tables l1 ++ slot_tables l2 ++ st_det st). split.
    + unfold all_tables. rewrite E1, slot_tables_app. simpl. rewrite <- app_assoc. simpl.
      apply Permutation_sym. apply Permutation_middle.
    + intros h' T'. unfold all_tables. simpl. rewrite E2, slot_tables_app. simpl. rewrite <- app_assoc. simpl.
      apply Permutation_sym. apply Permutation_middle.
  - destruct (list_set_split _ _ _ H) as [l1 [l2 [E1 [E2 _]]]].
    exists (slot_tables (st_slots st) ++ l1 ++ l2). split.
    + unfold all_tables. rewrite E1. rewrite app_assoc. apply Permutation_sym.
      rewrite app_assoc. apply Permutation_middle.
    + intros h' T'. unfold all_tables. simpl. rewrite E2. rewrite app_assoc. apply Permutation_sym.
      rewrite app_assoc. apply Permutation_middle.
Qed.

(* ------------------------------------------------------------ frame lemmas *)
Lemma WFl_sids_lt : forall h Ts T s, WFl h Ts -> In T Ts -> In s (sids T) -> s < List.length h.
Proof.
  intros h Ts T s [H _] HT Hs. destruct (H T HT) as [[_ [_ Hn]] _].
  apply in_sids in Hs as [k Hk]. apply (Hn _ _ Hk).
Qed.

Lemma in_flat_sids : forall Ts s, In s (flat_map sids Ts) <-> exists T, In T Ts /\ In s (sids T).
Proof. intros. apply in_flat_map. Qed.

(* only the heap changes, and no name changes *)
Lemma WFl_heap : forall h h' Ts,
    WFl h Ts -> List.length h <= List.length h' ->
    (forall s, s < List.length h -> s_name (hget h' s) = s_name (hget h s)) -> WFl h' Ts.
Proof.
  intros h h' Ts HW Hlen Hn. destruct HW as [H1 H2]. split; [|exact H2].
  intros T HT. destruct (H1 T HT) as [Htok Htag]. split; [|exact Htag].
  eapply TOK_frame; [exact Htok | exact Hlen|].
  intros s Hs. apply Hn. eapply WFl_sids_lt; [split; eauto | exact HT | exact Hs].
Qed.

(* one table (and the heap) changes *)
Lemma WFl_update : forall h h' T T' rest,
    WFl h (T :: rest) -> TOK h' T' -> tags_ok T' -> List.length h <= List.length h' ->
    (forall s, s < List.length h -> ~ In s (sids T) -> s_name (hget h' s) = s_name (hget h s)) ->
    (forall s, In s (sids T') -> In s (sids T) \/ List.length h <= s) ->
    WFl h' (T' :: rest).
Proof.
  intros h h' T T' rest HW Htok Htag Hlen Hn Hsub.
  assert (HW' := HW). destruct HW as [H1 H2]. simpl in H2.
  apply NoDup_app_elim in H2 as [HndT [Hndr Hdis]].
  split.
  - intros T2 [E|HT2]; [subst; split; assumption|].
    destruct (H1 T2 (or_intror HT2)) as [Htok2 Htag2]. split; [|exact Htag2].
    eapply TOK_frame; [exact Htok2 | exact Hlen|].
    intros s Hs. apply Hn.
    + eapply WFl_sids_lt; [exact HW' | right; exact HT2 | exact Hs].
    + intro Hc. apply (Hdis s Hc). apply in_flat_sids. exists T2. auto.
  - simpl. apply NoDup_app_intro; [apply Htok | exact Hndr|].
    intros s Hs Hc. apply in_flat_sids in Hc as [T2 [HT2 Hs2]].
    destruct (Hsub s Hs) as [Hin|Hge].
    + apply (Hdis s Hin). apply in_flat_sids. exists T2. auto.
    + assert (s < List.length h) by (eapply WFl_sids_lt; [exact HW' | right; exact HT2 | exact Hs2]). lia.
Qed.

(* merge: the receiving table changes, the other table disappears *)
Lemma WFl_merge : forall h h' T Ot T' rest,
    WFl h (T :: Ot :: rest) -> TOK h' T' -> tags_ok T' -> List.length h' = List.length h ->
    (forall s, ~ In s (sids T) -> ~ In s (sids Ot) -> s_name (hget h' s) = s_name (hget h s)) ->
    (forall s, In s (sids T') -> In s (sids T) \/ In s (sids Ot)) ->
    WFl h' (T' :: rest).
Proof.
  intros h h' T Ot T' rest HW Htok Htag Hlen Hn Hsub.
  assert (HW' := HW). destruct HW as [H1 H2]. simpl in H2.
  apply NoDup_app_elim in H2 as [HndT [H2 HdisT]].
  apply NoDup_app_elim in H2 as [HndO [Hndr HdisO]].
  split.
  - intros T2 [E|HT2]; [subst; split; assumption|].
    destruct (H1 T2 (or_intror (or_intror HT2))) as [Htok2 Htag2]. split; [|exact Htag2].
    eapply TOK_frame; [exact Htok2 | lia|].
    intros s Hs. apply Hn.
    + intro Hc. apply (HdisT s Hc). apply in_or_app. right. apply in_flat_sids. exists T2. auto.
    + intro Hc. apply (HdisO s Hc). apply in_flat_sids. exists T2. auto.
  - simpl. apply NoDup_app_intro; [apply Htok | exact Hndr|].
    intros s Hs Hc. apply in_flat_sids in Hc as [T2 [HT2 Hs2]].
    destruct (Hsub s Hs) as [Hin|Hin].
    + apply (HdisT s Hin). apply in_or_app. right. apply in_flat_sids. exists T2. auto.
    + apply (HdisO s Hin). apply in_flat_sids. exists T2. auto.
Qed.

(* two distinct references: the receiving table of a merge and the detached other table *)
Lemma get_two_perm : forall st t j T Ot,
    get_table st t = Some T -> nth_error (st_det st) j = Some Ot ->
    (match t with TDet j' => Nat.eqb j' j | _ => false end) = false ->
    exists rest, Permutation (all_tables st) (T :: Ot :: rest) /\
                 forall h' T',
                   let st1 := set_table (with_heap st h') t T' in
                   Permutation (all_tables (mkState (st_heap st1) (st_slots st1) (list_del (st_det st1) j)))
                               (T' :: rest).
Proof.
  intros st [i|j'] j T Ot HT HO Hne; unfold get_table in HT.
  - destruct (nth_error (st_slots st) i) as [[T0|]|] eqn:E; try discriminate. inversion HT; subst T0.
    destruct (list_set_split _ _ _ E) as [l1 [l2 [E1 [E2 _]]]].
    destruct (list_set_split _ _ _ HO) as [d1 [d2 [D1 [_ D3]]]].
    exists (slot_tables l1 ++ slot_tables l2 ++ d1 ++ d2). split.
    + unfold all_tables. rewrite E1, D1, slot_tables_app. simpl. rewrite <- app_assoc. simpl.
      apply Permutation_sym. eapply perm_trans; [|apply Permutation_middle]. apply perm_skip.
      rewrite !app_assoc. apply Permutation_middle.
    + intros h' T'. simpl. unfold all_tables. simpl. rewrite E2, D3, slot_tables_app. simpl.
      rewrite <- app_assoc. simpl. apply Permutation_sym. apply Permutation_middle.
  - apply Nat.eqb_neq in Hne.
    (* both in the detached list, at different positions *)
    assert (Hsplit : exists rest, Permutation (st_det st) (T :: Ot :: rest) /\
                                  forall T', Permutation (list_del (list_set (st_det st) j' T') j) (T' :: rest)).
    { clear - HT HO Hne. revert j' j HT HO Hne. generalize (st_det st).
      induction l as [|a l IH]; intros [|j'] [|j] HT HO Hne; simpl in *; try discriminate; try lia.
      - inversion HT; subst a. destruct (list_set_split _ _ _ HO) as [d1 [d2 [D1 [_ D3]]]].
        exists (d1 ++ d2). split.
        + apply perm_skip. rewrite D1. apply Permutation_sym. apply Permutation_middle.
        + intros T'. rewrite D3. apply Permutation_refl.
      - inversion HO; subst a. destruct (list_set_split _ _ _ HT) as [d1 [d2 [D1 [D2 _]]]].
        exists (d1 ++ d2). split.
        + eapply perm_trans; [|apply perm_swap]. apply perm_skip. rewrite D1.
          apply Permutation_sym. apply Permutation_middle.
        + intros T'. rewrite D2. apply Permutation_sym. apply Permutation_middle.
      - destruct (IH j' j HT HO ltac:(lia)) as [rest [P1 P2]].
        exists (a :: rest). split.
        + eapply perm_trans; [apply perm_skip; exact P1|].
          eapply perm_trans; [apply perm_swap|]. apply perm_skip. apply perm_swap.
        + intros T'. eapply perm_trans; [apply perm_skip; apply P2 | apply perm_swap]. }
    destruct Hsplit as [rest [P1 P2]].
    exists (slot_tables (st_slots st) ++ rest). split.
    + unfold all_tables. eapply perm_trans; [apply Permutation_app_head; exact P1|].
      apply Permutation_sym.
      eapply perm_trans; [apply perm_skip; apply Permutation_middle|].
      apply Permutation_middle.
    + intros h' T'. simpl. unfold all_tables. simpl.
      eapply perm_trans; [apply Permutation_app_head; apply P2|].
      apply Permutation_sym. apply Permutation_middle.
Qed.

(* ------------------------------------------------------ per-operation lemmas *)
Lemma set_table_with_heap_id : forall st t T', set_table (with_heap st (st_heap st)) t T' = set_table st t T'.
Proof. intros st [i|j] T'; reflexivity. Qed.

Lemma WF_get : forall st t T, WF st -> get_table st t = Some T -> TOK (st_heap st) T /\ tags_ok T.
Proof.
  intros st t T HW H. destruct (get_table_perm _ _ _ H) as [rest [P _]].
  apply (WFl_perm _ _ _ P) in HW. apply (proj1 HW). left; reflexivity.
Qed.

Lemma WF_update_table : forall st t T h' T',
    WF st -> get_table st t = Some T -> TOK h' T' -> tags_ok T' ->
    List.length (st_heap st) <= List.length h' ->
    (forall s, s < List.length (st_heap st) -> ~ In s (sids T) ->
               s_name (hget h' s) = s_name (hget (st_heap st) s)) ->
    (forall s, In s (sids T') -> In s (sids T) \/ List.length (st_heap st) <= s) ->
    WF (set_table (with_heap st h') t T').
Proof.
  intros st t T h' T' HW H Htok Htag Hlen Hn Hsub.
  destruct (get_table_perm _ _ _ H) as [rest [P1 P2]].
  unfold WF. eapply WFl_perm; [apply Permutation_sym; apply P2|].
  replace (st_heap (set_table (with_heap st h') t T')) with h' by (destruct t; reflexivity).
  eapply WFl_update; eauto. eapply WFl_perm; [exact P1 | exact HW].
Qed.

(* allocate a new symbol object and add it to (a sub-table of) the addressed table *)
Lemma alloc_add_WF : forall st t T T1 anc y tag T',
    WF st -> get_table st t = Some T ->
    TOK (st_heap st) T1 -> tags_ok T1 -> incl (sids T1) (sids T) ->
    tbl_add (st_heap st ++ [y]) T1 anc (List.length (st_heap st)) tag = inl T' ->
    WF (set_table (with_heap st (st_heap st ++ [y])) t T').
Proof.
  intros st t T T1 anc y tag T' HW H Htok1 Htag1 Hincl Hadd.
  set (h := st_heap st) in *. set (h' := h ++ [y]).
  assert (Hlen : List.length h' = S (List.length h)) by (unfold h'; rewrite app_length; simpl; lia).
  assert (Hlt1 : forall s, In s (sids T1) -> s < List.length h).
  { intros s Hs. apply in_sids in Hs as [k Hk]. apply (proj2 (proj2 Htok1) _ _ Hk). }
  assert (Htok1' : TOK h' T1).
  { eapply TOK_frame; [exact Htok1 | lia|]. intros s Hs. unfold h'. rewrite hget_app_old; [reflexivity | apply Hlt1; exact Hs]. }
  assert (Hnot : ~ In (List.length h) (sids T1)) by (intro Hc; apply Hlt1 in Hc; lia).
  assert (Hlt' : List.length h < List.length h') by lia.
  destruct (tbl_add_TOK _ _ _ _ _ _ Hadd Htok1' Hnot Hlt') as [Htok' Hs'].
  pose proof (tbl_add_tags_ok _ _ _ _ _ _ Hadd Htag1) as Htag'.
  eapply WF_update_table; eauto.
  - fold h. fold h'. lia.
  - intros s Hs _. unfold h'. rewrite hget_app_old by exact Hs. reflexivity.
  - intros s Hs. rewrite Hs' in Hs. apply in_app_or in Hs as [Hs|[Hs|[]]]; [left; apply Hincl; exact Hs | right; subst s; fold h; lia].
Qed.

Lemma new_symbol_WF : forall st t T root tag sh sp allow st' r,
    WF st -> get_table st t = Some T -> new_symbol st t T root tag sh sp allow = (st', r) -> WF st'.
Proof.
  intros st t T root tag sh sp allow st' r HW H Hn. unfold new_symbol in Hn.
  destruct (next_available_name T (ancestors st t) root sh None) as [nm|]; [|inversion Hn; subst; exact HW].
  destruct (negb allow && negb (String.eqb nm root)); [inversion Hn; subst; exact HW|].
  match type of Hn with
  | (match tbl_add ?h' T ?anc ?s tag with _ => _ end) = _ => destruct (tbl_add h' T anc s tag) as [T'|e] eqn:Ea
  end; inversion Hn; subst; [|exact HW].
  destruct (WF_get _ _ _ HW H) as [Htok Htag].
  eapply alloc_add_WF; eauto. intros x Hx; exact Hx.
Qed.

Lemma empty_WFl : forall h Ts, WFl h Ts -> WFl h (empty_table :: Ts).
Proof.
  intros h Ts [H1 H2]. split.
  - intros T [E|HT]; [subst|apply H1; exact HT].
    split; [split; [constructor | split; [constructor | intros k s []]] | split; [constructor | intros tg s []]].
  - simpl. exact H2.
Qed.

(* ------------------------------------------------------------- every step *)
Theorem step_WF : forall st o, WF st -> WF (fst (step st o)).
Proof.
  intros st o HW. destruct o; simpl.
  - (* OAdd *)
    destruct (get_table st t) as [T|] eqn:H; [|exact HW].
    destruct (negb (spec_ok (st_heap st) sp)); [exact HW|].
    match goal with
    | |- WF (fst (match tbl_add ?h' T ?anc ?s tag with _ => _ end)) => destruct (tbl_add h' T anc s tag) as [T'|e] eqn:Ea
    end; simpl; [|exact HW].
    destruct (WF_get _ _ _ HW H) as [Htok Htag].
    eapply alloc_add_WF; eauto. intros x Hx; exact Hx.
  - (* ONewSymbol *)
    destruct (get_table st t) as [T|] eqn:H; [|exact HW].
    destruct (negb (spec_ok (st_heap st) sp)); [exact HW|].
    destruct (new_symbol st t T root tag shadowing sp allow_renaming) as [st' r] eqn:E. simpl.
    eapply new_symbol_WF; eauto.
  - (* OFindOrCreate *)
    destruct (get_table st t) as [T|] eqn:H; [|exact HW].
    destruct (negb (spec_ok (st_heap st) sp)); [exact HW|].
    destruct (lookup T (ancestors st t) name) as [s|].
    + destruct (kind_isinstance _ _); exact HW.
    + destruct (new_symbol st t T name "" false sp true) as [st' r] eqn:E. simpl.
      eapply new_symbol_WF; eauto.
  - (* OFindOrCreateTag *)
    destruct (get_table st t) as [T|] eqn:H; [|exact HW].
    destruct (negb (spec_ok (st_heap st) sp)); [exact HW|].
    destruct (lookup_tag T (ancestors st t) tag) as [s|].
    + destruct (kind_isinstance _ _); exact HW.
    + match goal with |- WF (fst ?X) => destruct X as [st' r] eqn:E end. simpl.
      eapply new_symbol_WF; eauto.
  - (* ONextName *)
    destruct (get_table st t) as [T|]; [|exact HW].
    destruct other as [ot|].
    + destruct (get_table st ot) as [Ot|]; [|exact HW].
      destruct (next_available_name _ _ _ _ _); exact HW.
    + destruct (next_available_name _ _ _ _ _); exact HW.
  - (* OLookup *)
    destruct (get_table st t) as [T|]; [|exact HW]. destruct (lookup _ _ _); exact HW.
  - (* OLookupTag *)
    destruct (get_table st t) as [T|]; [|exact HW]. destruct (lookup_tag _ _ _); exact HW.
  - (* ORename *)
    destruct (get_table st t) as [T|] eqn:H; [|exact HW].
    destruct (rename_symbol (st_heap st) T s name) as [[h' T']|e] eqn:E; simpl; [|exact HW].
    destruct (WF_get _ _ _ HW H) as [Htok Htag].
    pose proof (rename_symbol_TOK _ _ _ _ _ _ E Htok) as [Htok' [Hperm [Hlen [Hin [_ Hother]]]]].
    apply rename_symbol_spec in E as [_ [_ [_ [Ht _]]]].
    eapply WF_update_table; eauto.
    + destruct Htag as [Hd Hi]. split; [rewrite Ht; exact Hd|].
      intros tg x Hx. rewrite Ht in Hx. eapply Permutation_in; [apply Permutation_sym; exact Hperm | eapply Hi; eauto].
    + lia.
    + intros x _ Hx. rewrite Hother; [reflexivity | intro Ex; subst; contradiction].
    + intros x Hx. left. eapply Permutation_in; [exact Hperm | exact Hx].
  - (* ORemove *)
    destruct (get_table st t) as [T|] eqn:H; [|exact HW].
    destruct (tbl_remove (st_heap st) T s) as [T'|e] eqn:E; simpl; [|exact HW].
    destruct (WF_get _ _ _ HW H) as [Htok Htag].
    destruct (tbl_remove_TOK _ _ _ _ E Htok Htag) as [Htok' [Htag' Hincl]].
    rewrite <- set_table_with_heap_id.
    eapply WF_update_table; eauto.
    all: try (intros x Hx; left; apply Hincl; exact Hx).
  - (* OSwap *)
    destruct (get_table st t) as [T|] eqn:H; [|exact HW].
    destruct (negb (spec_ok (st_heap st) sp)); [exact HW|].
    destruct (negb (String.eqb _ _)); [exact HW|].
    destruct (tbl_remove (st_heap st) T old) as [T1|e] eqn:E; simpl; [|exact HW].
    destruct (WF_get _ _ _ HW H) as [Htok Htag].
    destruct (tbl_remove_TOK _ _ _ _ E Htok Htag) as [Htok1 [Htag1 Hincl]].
    match goal with
    | |- WF (fst (match tbl_add ?h' T1 ?anc ?s "" with _ => _ end)) => destruct (tbl_add h' T1 anc s "") as [T2|e2] eqn:Ea
    end; simpl.
    + eapply alloc_add_WF; eauto.
    + rewrite <- set_table_with_heap_id.
      eapply WF_update_table; eauto.
      all: try (intros x Hx; left; apply Hincl; exact Hx).
  - (* OSpecifyArgs *)
    destruct (get_table st t) as [T|] eqn:H; [|exact HW].
    destruct (validate_arg_list (st_heap st) l); simpl; [exact HW|].
    destruct (WF_get _ _ _ HW H) as [Htok Htag].
    rewrite <- set_table_with_heap_id.
    eapply WF_update_table; eauto.
    all: try (intros x Hx; left; exact Hx).
  - (* OMerge *)
    destruct (get_table st t) as [T|] eqn:H; [|exact HW].
    destruct (nth_error (st_det st) other) as [Ot|] eqn:HO; [|exact HW].
    destruct (match t with TDet j' => Nat.eqb j' other | _ => false end) eqn:Hne; [exact HW|].
    destruct (get_two_perm _ _ _ _ _ H HO Hne) as [rest [P1 P2]].
    assert (HW2 : WFl (st_heap st) (T :: Ot :: rest)) by (eapply WFl_perm; [exact P1 | exact HW]).
    assert (HT : TOK (st_heap st) T /\ tags_ok T) by (apply (proj1 HW2); left; reflexivity).
    assert (HOt : TOK (st_heap st) Ot) by (apply (proj1 HW2); right; left; reflexivity).
    assert (Hdisj : forall s, In s (sids T) -> ~ In s (sids Ot)).
    { intros s Hs Hc. destruct HW2 as [_ Hnd]. simpl in Hnd. apply NoDup_app_elim in Hnd as [_ [_ Hd]].
      apply (Hd s Hs). apply in_or_app. left. exact Hc. }
    destruct (merge (st_heap st) T (ancestors st t) Ot skip) as [[m ph] oe] eqn:Em.
    pose proof (merge_spec _ _ _ _ _ _ _ _ (proj1 HT) HOt Hdisj Em) as [h1 [[[Hlen Hnm] [Hif Hco]] Hpost]].
    destruct ph.
    + (* rejected by check_for_clashes *)
      destruct Hpost as [Hm _]. subst m. simpl.
      unfold WF. simpl. eapply WFl_heap; [exact HW | lia | intros s _; apply Hnm].
    + (* an exception escaped later *)
      destruct Hpost as [HM _]. simpl.
      unfold WF. eapply WFl_perm; [apply Permutation_sym; apply (P2 (m_heap m) (m_self m))|].
      replace (st_heap _) with (m_heap m) by (destruct t; reflexivity).
      destruct HM as [Htok Hl Hsub Hsup Htags _ Hframe _ _].
      eapply WFl_merge; [exact HW2 | exact Htok | | lia | | exact Hsub].
      * destruct HT as [_ [Hd Hi]]. split; [rewrite Htags; exact Hd|].
        intros tg x Hx. rewrite Htags in Hx. apply Hsup. eapply Hi; eauto.
      * intros s H1 H2. rewrite Hframe by assumption. apply Hnm.
    + destruct Hpost as [HM _]. simpl.
      unfold WF. eapply WFl_perm; [apply Permutation_sym; apply (P2 (m_heap m) (m_self m))|].
      replace (st_heap _) with (m_heap m) by (destruct t; reflexivity).
      destruct HM as [Htok Hl Hsub Hsup Htags _ Hframe _ _].
      eapply WFl_merge; [exact HW2 | exact Htok | | lia | | exact Hsub].
      * destruct HT as [_ [Hd Hi]]. split; [rewrite Htags; exact Hd|].
        intros tg x Hx. rewrite Htags in Hx. apply Hsup. eapply Hi; eauto.
      * intros s H1 H2. rewrite Hframe by assumption. apply Hnm.
  - (* ONewTable *)
    unfold WF, all_tables. simpl. rewrite app_assoc.
    eapply WFl_perm; [apply Permutation_cons_append | apply empty_WFl; exact HW].
  - (* ODetach *)
    destruct (nth_error (st_slots st) i) as [[T|]|] eqn:E; try exact HW. simpl.
    destruct (list_set_split _ _ _ E) as [l1 [l2 [E1 [E2 _]]]].
    unfold WF, all_tables in *. simpl. rewrite E2. rewrite E1 in HW.
    rewrite slot_tables_app in *. simpl in *.
    eapply WFl_perm; [|exact HW].
    rewrite <- !app_assoc. apply Permutation_app_head. simpl.
    eapply perm_trans; [apply Permutation_cons_append|]. rewrite <- !app_assoc. apply Permutation_refl.
  - (* OAttach *)
    destruct (nth_error (st_det st) j) as [T|] eqn:Ej; [|exact HW].
    destruct (nth_error (st_slots st) i) as [[T0|]|] eqn:Ei; try exact HW. simpl.
    destruct (list_set_split _ _ _ Ei) as [l1 [l2 [E1 [E2 _]]]].
    destruct (list_set_split _ _ _ Ej) as [d1 [d2 [D1 [_ D3]]]].
    unfold WF, all_tables in *. simpl. rewrite E2, D3. rewrite E1, D1 in HW.
    rewrite slot_tables_app in *. simpl in *.
    eapply WFl_perm; [|exact HW].
    rewrite <- !app_assoc. apply Permutation_app_head. simpl.
    apply Permutation_sym.
    rewrite (app_assoc (slot_tables l2) d1 (T :: d2)), (app_assoc (slot_tables l2) d1 d2).
    apply Permutation_middle.
Qed.

Lemma init_WF : forall n, WF (init_state n).
Proof.
  intros n. unfold WF, init_state, all_tables. simpl. rewrite app_nil_r.
  induction n as [|n IH]; simpl.
  - split; [intros T [] | constructor].
  - apply empty_WFl. exact IH.
Qed.

Theorem run_WF : forall l st, WF st -> WF (run st l).
Proof. induction l as [|o l IH]; intros st H; simpl; [exact H | apply IH; apply step_WF; exact H]. Qed.
