(* C16 -- executable comparison of the model with observations of the real SymbolTable.
   No proofs.  A case is a number of nested scopes and a history of operations, each with the
   result and the complete state observed on the implementation after it. *)
From Coq Require Import List Arith Bool String Ascii NArith.
Import ListNotations.
From PV Require Import C16.GenTables C16.Model.
Open Scope string_scope.

Fixpoint list_eqb {A} (eqb : A -> A -> bool) (a b : list A) : bool :=
  match a, b with
  | [], [] => true
  | x :: a', y :: b' => eqb x y && list_eqb eqb a' b'
  | _, _ => false
  end.

Definition opt_eqb {A} (eqb : A -> A -> bool) (a b : option A) : bool :=
  match a, b with
  | None, None => true
  | Some x, Some y => eqb x y
  | _, _ => false
  end.

Definition iface_eqb (a b : iface) : bool :=
  match a, b with
  | IAuto, IAuto | IArg, IArg | IUnres, IUnres | ICommon, ICommon | IOther, IOther => true
  | IImport c1 o1, IImport c2 o2 => Nat.eqb c1 c2 && String.eqb o1 o2
  | _, _ => false
  end.

Definition kind_eqb_full (a b : kind) : bool :=
  match a, b with
  | KGenIface l1, KGenIface l2 => list_eqb Nat.eqb l1 l2
  | _, _ => kind_eqb a b
  end.

Definition sym_eqb (a b : sym) : bool :=
  String.eqb (s_name a) (s_name b) && kind_eqb_full (s_kind a) (s_kind b)
  && Bool.eqb (s_wild a) (s_wild b) && iface_eqb (s_iface a) (s_iface b).

Definition entry_eqb (a b : string * sid) : bool :=
  String.eqb (fst a) (fst b) && Nat.eqb (snd a) (snd b).

Definition table_eqb (a b : table) : bool :=
  list_eqb entry_eqb (t_syms a) (t_syms b) && list_eqb entry_eqb (t_tags a) (t_tags b)
  && list_eqb Nat.eqb (t_args a) (t_args b).

Definition state_eqb (a b : state) : bool :=
  list_eqb sym_eqb (st_heap a) (st_heap b)
  && list_eqb (opt_eqb table_eqb) (st_slots a) (st_slots b)
  && list_eqb table_eqb (st_det a) (st_det b).

Definition err_eqb (a b : err) : bool :=
  match a, b with
  | EKey, EKey | EValue, EValue | EType, EType | ESymbol, ESymbol | EInternal, EInternal
  | ENotImpl, ENotImpl | EFuel, EFuel | ENoTable, ENoTable => true
  | _, _ => false
  end.

Definition result_eqb (a b : result) : bool :=
  match a, b with
  | RUnit, RUnit => true
  | RSym x, RSym y => Nat.eqb x y
  | RName x, RName y => String.eqb x y
  | RErr x, RErr y => err_eqb x y
  | _, _ => false
  end.

(* ---- where the faithful model itself violates the property (the "gap") ---------------- *)

(* a rejected operation that nevertheless changed the state.  For merge the comparison is on
   the heap and the two tables (the model drops the other table from the state after a merge that
   got past check_for_clashes; that bookkeeping is not a change made by the implementation). *)
Definition gap_rejected (st : state) (o : op) : bool :=
  match o with
  | OMerge t j skip =>
      match get_table st t, nth_error (st_det st) j with
      | Some T, Some Ot =>
          match merge (st_heap st) T (ancestors st t) Ot skip with
          | (m, _, Some _) => negb (list_eqb sym_eqb (st_heap st) (m_heap m)
                                    && table_eqb T (m_self m) && table_eqb Ot (m_other m))
          | _ => false
          end
      | _, _ => false
      end
  | _ => match step st o with
         | (st', RErr _) => negb (state_eqb st st')
         | _ => false
         end
  end.

(* a successful merge that renamed a symbol of the receiving table although no non-skipped
   symbol of the other table has that name *)
Definition needless_renames (h h' : heap) (self other : table) (skip : list sid) : list sid :=
  filter (fun s =>
            negb (String.eqb (s_name (hget h s)) (s_name (hget h' s)))
            && negb (existsb (fun e => String.eqb (fst e) (normalize (s_name (hget h s)))
                                       && negb (mem_sid (snd e) skip)) (t_syms other)))
         (sids self).

Definition gap_rename (st : state) (o : op) : bool :=
  match o with
  | OMerge t j skip =>
      match get_table st t, nth_error (st_det st) j, step st o with
      | Some T, Some Ot, (st', RUnit) =>
          negb (match needless_renames (st_heap st) (st_heap st') T Ot skip with [] => true | _ => false end)
      | _, _, _ => false
      end
  | _ => false
  end.

(* a merge whose symbols_to_skip names a ContainerSymbol or an imported symbol of the other table:
   the container pass of the code ignores the skip list (known finding); a repaired implementation
   differs from the faithful model on exactly these merges *)
Definition gap_skip (st : state) (o : op) : bool :=
  match o with
  | OMerge t j skip =>
      match nth_error (st_det st) j with
      | Some Ot => existsb (fun s => mem_sid s (sids Ot)
                                    && (is_container (hget (st_heap st) s) || is_import (hget (st_heap st) s)))
                           skip
      | None => false
      end
  | _ => false
  end.

Definition gap (st : state) (o : op) : bool := gap_rejected st o || gap_rename st o || gap_skip st o.

(* ---- cases ------------------------------------------------------------------------------ *)
(* observation after one operation: the result and the complete state -- [None] when the state
   observed on the implementation is the same as before the operation *)
Definition obs := (result * option state)%type.
Definition case := (nat * list (op * obs))%type.

Definition obs_ok (st st' : state) (r' : result) (o : obs) : bool :=
  result_eqb (fst o) r' &&
  match snd o with
  | Some ex => state_eqb st' ex
  | None => state_eqb st' st
  end.

(* index of the first step whose observation differs from the model, unless the model is in the
   gap at that step (then the history is abandoned: the implementation's own compliance with
   the property at that step is evaluated by the harness directly) *)
Fixpoint first_bad (st : state) (l : list (op * obs)) (i : nat) : option nat :=
  match l with
  | [] => None
  | (o, ob) :: rest =>
      let (st', r') := step st o in
      if obs_ok st st' r' ob then first_bad st' rest (S i)
      else if gap st o then None
      else Some i
  end.

Definition check_case (c : case) : bool :=
  match first_bad (init_state (fst c)) (snd c) 0 with None => true | Some _ => false end.

(* strict variant: no tolerance in the gap *)
Fixpoint first_bad_strict (st : state) (l : list (op * obs)) (i : nat) : option nat :=
  match l with
  | [] => None
  | (o, ob) :: rest =>
      let (st', r') := step st o in
      if obs_ok st st' r' ob then first_bad_strict st' rest (S i) else Some i
  end.

(* for replay files: what the model answers at step i *)
Fixpoint model_at (st : state) (l : list (op * obs)) (i : nat) : option (result * state) :=
  match l with
  | [] => None
  | (o, _) :: rest => match i with
                      | O => Some (snd (step st o), fst (step st o))
                      | S i' => model_at (fst (step st o)) rest i'
                      end
  end.

(* number of steps of a case at which the model is in the gap *)
Fixpoint gap_steps (st : state) (l : list (op * obs)) : nat :=
  match l with
  | [] => 0
  | (o, _) :: rest => (if gap st o then 1 else 0) + gap_steps (fst (step st o)) rest
  end.

(* ---- wire format -------------------------------------------------------------------------
   Monomorphic types for the generated case files: no implicit arguments, so that coqc
   elaborates the literals in linear time.  [decode_*] maps them to the model's types. *)
Inductive wents := WE0 | WE (k : string) (s : nat) (r : wents).
Inductive wnats := WN0 | WN (n : nat) (r : wnats).
Inductive wheap := WH0 | WH (name : string) (k : kind) (w : bool) (i : iface) (r : wheap).
Inductive wtable := WT (syms tags : wents) (args : wnats).
Inductive wslots := WS0 | WSnone (r : wslots) | WSsome (t : wtable) (r : wslots).
Inductive wdet := WD0 | WD (t : wtable) (r : wdet).
Inductive wobs := WSame | WNew (h : wheap) (s : wslots) (d : wdet).
Inductive wsteps := WP0 | WP (o : op) (r : result) (ob : wobs) (rest : wsteps).
Inductive wcase := WC (n : nat) (p : wsteps).

Fixpoint decode_ents (w : wents) : list (string * sid) :=
  match w with WE0 => [] | WE k s r => (k, s) :: decode_ents r end.
Fixpoint decode_nats (w : wnats) : list nat :=
  match w with WN0 => [] | WN n r => n :: decode_nats r end.
Fixpoint decode_heap (w : wheap) : heap :=
  match w with WH0 => [] | WH n k b i r => mkSym n k b i :: decode_heap r end.
Definition decode_table (w : wtable) : table :=
  match w with WT a b c => mkTable (decode_ents a) (decode_ents b) (decode_nats c) end.
Fixpoint decode_slots (w : wslots) : list (option table) :=
  match w with
  | WS0 => []
  | WSnone r => None :: decode_slots r
  | WSsome t r => Some (decode_table t) :: decode_slots r
  end.
Fixpoint decode_det (w : wdet) : list table :=
  match w with WD0 => [] | WD t r => decode_table t :: decode_det r end.
Definition decode_obs (w : wobs) : option state :=
  match w with
  | WSame => None
  | WNew h s d => Some (mkState (decode_heap h) (decode_slots s) (decode_det d))
  end.
Fixpoint decode_steps (w : wsteps) : list (op * obs) :=
  match w with WP0 => [] | WP o r ob rest => (o, (r, decode_obs ob)) :: decode_steps rest end.
Definition decode_case (w : wcase) : case :=
  match w with WC n p => (n, decode_steps p) end.

Definition check_wcase (w : wcase) : bool := check_case (decode_case w).
Definition first_bad_w (w : wcase) : option nat :=
  let c := decode_case w in first_bad_strict (init_state (fst c)) (snd c) 0.
Definition model_at_w (w : wcase) (i : nat) : option (result * state) :=
  let c := decode_case w in model_at (init_state (fst c)) (snd c) i.
