(* C11 — statements outside Fort.Syntax: routine calls, IntrinsicCall statements (ALLOCATE, DEALLOCATE,
   intrinsic subroutines built through IntrinsicCall.create) and WHILE loops.

   A wrapper [xstmt] over the core statements, its access function (faithful to Call.reference_accesses
   call.py:277-318, IntrinsicCall.reference_accesses intrinsic_call.py:906-925, WhileLoop.reference_accesses
   while_loop.py:144-157) and a by-reference semantics: an actual argument that is a variable or an array
   element designates a location; the callee reads the locations of its intent(in)/(inout) dummies and
   writes those of its intent(out)/(inout) dummies with arbitrary values.  The analysis does not see the
   intents; the semantics does.

   Theorems: coverage holds for impure user calls and (since the IntrinsicCall fix) statement-level
   intrinsics (every by-reference argument READWRITE), for pure calls only when no dummy is
   intent(out/inout) (`xsafe`); it is refuted for a pure subroutine with an intent(out) dummy. *)
From Coq Require Import List ZArith Bool Lia.
Import ListNotations.
From PV Require Import Fort.Syntax Fort.Sem C11.Access C11.Proofs.

Inductive intent := IIn | IOut | IInOut.
Inductive cform :=
| CUser (pure : bool)      (* a Call node; pure = RoutineSymbol.is_pure *)
| CIntrinsic.              (* an IntrinsicCall node used as a statement (not an inquiry function) *)

Inductive xstmt :=
| XCore (s : stmt)
| XCall (k : cform) (its : list intent) (args : list expr)    (* its: the callee's dummy intents, invisible to the analysis *)
| XWhile (c : expr) (body : list stmt).

(* ------------------------------------------------------------------ the analysis (faithful) *)
(* Call: a Reference argument is added with the default access BEFORE its index expressions are
   visited (READ); any other argument is walked as an expression *)
Definition call_arg (loc : nat) (k : akind) (e : expr) : list access :=
  match e with
  | EVar x => [mkAcc x k loc]
  | EIdx a ix => mkAcc a k loc :: reads_at loc (flat_map expr_reads ix)
  | _ => reads_at loc (expr_reads e)
  end.

Definition xacc_stmt (x : xstmt) (loc : nat) : list access * nat :=
  match x with
  | XCore s => acc_stmt s loc
  | XCall (CUser pure) _ args =>
      (flat_map (call_arg loc (if pure then READ else READWRITE)) args, S loc)     (* + next_location *)
  | XCall CIntrinsic _ args =>
      (* since the fix of IntrinsicCall.reference_accesses (statement-level intrinsic = parent is a Schedule):
         treated like an impure call; before it was (reads_at loc (flat_map expr_reads args), loc) *)
      (flat_map (call_arg loc READWRITE) args, S loc)
  | XWhile c body =>
      let (a1, l1) := acc_block body (S loc) in (reads_at loc (expr_reads c) ++ a1, S l1)
  end.

Fixpoint xacc_block (xs : list xstmt) (loc : nat) : list access * nat :=
  match xs with
  | [] => ([], loc)
  | x :: r => let (a1, l1) := xacc_stmt x loc in let (a2, l2) := xacc_block r l1 in (a1 ++ a2, l2)
  end.
Definition xaccesses (xs : list xstmt) : list access := fst (xacc_block xs 0).

(* ------------------------------------------------------------------ semantics *)
(* what evaluating the actual arguments reads before the callee runs *)
Definition arg_pre_reads (s : store) (e : expr) : list loc :=
  match e with EVar _ => [] | EIdx _ ix => flat_map (ereads s) ix | _ => ereads s e end.

(* Some (Some l): by reference to l; Some None: a value; None: fault *)
Definition arg_loc (s : store) (e : expr) : option (option loc) :=
  match e with
  | EVar x => Some (Some (x, []))
  | EIdx a ix => match opt_all (map (eval s) ix) with Some vs => Some (Some (a, vs)) | None => None end
  | _ => match eval s e with Some _ => Some None | None => None end
  end.

Definition reads_of_intent (i : intent) : bool := match i with IIn | IInOut => true | IOut => false end.
Definition writes_of_intent (i : intent) : bool := match i with IOut | IInOut => true | IIn => false end.

(* callee-side accesses: (locations read, locations written); None = fault (bad argument, or a value
   passed to an intent(out/inout) dummy, or arity mismatch) *)
Fixpoint callee_accesses (s : store) (its : list intent) (args : list expr) : option (list loc * list loc) :=
  match its, args with
  | [], [] => Some ([], [])
  | i :: its', e :: args' =>
      match arg_loc s e, callee_accesses s its' args' with
      | Some (Some l), Some (R, W) =>
          Some ((if reads_of_intent i then [l] else []) ++ R, (if writes_of_intent i then [l] else []) ++ W)
      | Some None, Some (R, W) => if writes_of_intent i then None else Some (R, W)
      | _, _ => None
      end
  | _, _ => None
  end.

Definition wrs (ls : list loc) : list event := map Wr ls.

(* the callee stores [outs k] into its k-th written location (any function: the theorems quantify over it) *)
Fixpoint store_outs (s : store) (W : list loc) (outs : nat -> Z) (k : nat) : store :=
  match W with [] => s | l :: r => store_outs (upd s l (outs k)) r outs (S k) end.

Definition call_step (outs : nat -> Z) (its : list intent) (args : list expr) (s : store) : outcome :=
  match callee_accesses s its args with
  | Some (R, W) => Ok (store_outs s W outs 0) (rds (flat_map (arg_pre_reads s) args) ++ rds R ++ wrs W) CNormal
  | None => Fault
  end.

Fixpoint while_loop (n : nat) (c : expr) (run : store -> outcome) (s : store) : outcome :=
  match n with
  | O => OutOfFuel
  | S n' =>
      match eval s c with
      | None => Fault
      | Some v =>
          if (v =? 0)%Z then Ok s (rds (ereads s c)) CNormal
          else match run s with
               | Ok s2 tr ctl =>
                   match ctl with
                   | CNormal | CCycle => prepend (rds (ereads s c) ++ tr) (while_loop n' c run s2)
                   | CExit => Ok s2 (rds (ereads s c) ++ tr) CNormal
                   | CReturn => Ok s2 (rds (ereads s c) ++ tr) CReturn
                   end
               | other => other
               end
      end
  end.

Definition xstep (fuel : nat) (outs : nat -> Z) (x : xstmt) (s : store) : outcome :=
  match x with
  | XCore st => exec fuel [st] s
  | XCall _ its args => call_step outs its args s
  | XWhile c body => while_loop fuel c (exec fuel body) s
  end.

Fixpoint xexec (fuel : nat) (outs : nat -> Z) (xs : list xstmt) (s : store) : outcome :=
  match xs with
  | [] => Ok s [] CNormal
  | x :: r =>
      match xstep fuel outs x s with
      | Ok s1 tr1 CNormal => prepend tr1 (xexec fuel outs r s1)
      | other => other
      end
  end.

(* ------------------------------------------------------------------ when the report is sufficient *)
Definition xsafe (x : xstmt) : bool :=
  match x with
  | XCore s => noprint s
  | XCall (CUser false) _ _ => true
  | XCall CIntrinsic _ _ => true
  | XCall (CUser true) its _ => forallb (fun i => negb (writes_of_intent i)) its
  | XWhile _ body => forallb noprint body
  end.

(* reason code of an unsafe statement (used by the harness to key findings) *)
Inductive reason := RNone | RCodeBlock | RPureCallOut.
Definition xreason (x : xstmt) : reason :=
  if xsafe x then RNone else
  match x with
  | XCore _ | XWhile _ _ => RCodeBlock
  | XCall _ _ _ => RPureCallOut
  end.

(* ------------------------------------------------------------------ proofs *)
Definition bcovers (tr : list event) (A : list access) : Prop :=
  (forall l, In l (reads tr) -> is_read (fst l) A = true) /\
  (forall l, In l (writes tr) -> is_written (fst l) A = true).

Lemma is_read_app x A B : is_read x (A ++ B) = is_read x A || is_read x B.
Proof. unfold is_read. apply existsb_app. Qed.
Lemma is_written_app x A B : is_written x (A ++ B) = is_written x A || is_written x B.
Proof. unfold is_written. apply existsb_app. Qed.

Lemma bcovers_nil A : bcovers [] A.
Proof. split; intros l []. Qed.

Lemma bcovers_app t1 t2 A1 A2 : bcovers t1 A1 -> bcovers t2 A2 -> bcovers (t1 ++ t2) (A1 ++ A2).
Proof.
  intros [R1 W1] [R2 W2]. split; intros l Hl.
  - rewrite reads_app' in Hl. rewrite is_read_app. apply orb_true_iff. apply in_app_iff in Hl as [Hl|Hl]; auto.
  - rewrite writes_app' in Hl. rewrite is_written_app. apply orb_true_iff. apply in_app_iff in Hl as [Hl|Hl]; auto.
Qed.

Lemma bcovers_l t A B : bcovers t A -> bcovers t (A ++ B).
Proof.
  intros [R W]. split; intros l Hl; [rewrite is_read_app | rewrite is_written_app]; apply orb_true_iff; auto.
Qed.
Lemma bcovers_r t A B : bcovers t B -> bcovers t (A ++ B).
Proof.
  intros [R W]. split; intros l Hl; [rewrite is_read_app | rewrite is_written_app]; apply orb_true_iff; auto.
Qed.
Lemma bcovers_app_same t1 t2 A : bcovers t1 A -> bcovers t2 A -> bcovers (t1 ++ t2) A.
Proof.
  intros [R1 W1] [R2 W2]. split; intros l Hl.
  - rewrite reads_app' in Hl. apply in_app_iff in Hl as [Hl|Hl]; auto.
  - rewrite writes_app' in Hl. apply in_app_iff in Hl as [Hl|Hl]; auto.
Qed.

Lemma bcovers_of_covers tr A : covers tr (map sk A) -> bcovers tr A.
Proof. intros [R W]. split; intros l Hl; [apply is_read_in | apply is_written_in]; auto. Qed.

Lemma is_read_reads_at x loc xs : In x xs -> is_read x (reads_at loc xs) = true.
Proof.
  intro H. apply is_read_in. rewrite sk_reads_at. apply (in_map rdk) in H. exact H.
Qed.

Lemma bcovers_rds R loc xs : (forall l, In l R -> In (fst l) xs) -> bcovers (rds R) (reads_at loc xs).
Proof.
  intro H. split; intros l Hl.
  - rewrite reads_rds' in Hl. apply is_read_reads_at, H, Hl.
  - rewrite writes_rds' in Hl. destruct Hl.
Qed.

Lemma reads_wrs W : reads (wrs W) = [].
Proof. induction W as [|l r IH]; [reflexivity | exact IH]. Qed.
Lemma writes_wrs W : writes (wrs W) = W.
Proof. induction W as [|l r IH]; [reflexivity|]. cbn [wrs map writes]. unfold wrs in IH. rewrite IH. reflexivity. Qed.

(* core blocks at any location counter *)
Lemma core_block_bcovers fuel ss loc st st' tr c :
  forallb noprint ss = true -> exec fuel ss st = Ok st' tr c -> bcovers tr (fst (acc_block ss loc)).
Proof.
  intros NP H. apply bcovers_of_covers. rewrite sk_acc_block. eapply exec_covers; eassumption.
Qed.

Lemma core_stmt_bcovers fuel s loc st st' tr c :
  noprint s = true -> exec fuel [s] st = Ok st' tr c -> bcovers tr (fst (acc_stmt s loc)).
Proof. intros NP H. exact (access_covers_stmt_ fuel s loc st st' tr c NP H). Qed.

(* ---- calls *)
Lemma arg_pre_reads_sub s e l : In l (arg_pre_reads s e) ->
  match e with EVar _ => False | EIdx _ ix => In (fst l) (flat_map expr_reads ix) | _ => In (fst l) (expr_reads e) end.
Proof.
  destruct e; cbn [arg_pre_reads]; intro H; try (apply (ereads_sub s) in H; exact H).
  - destruct H.
  - apply (ereads_flat_sub s), H.
Qed.

Lemma call_arg_reads_pre s loc k e l : In l (arg_pre_reads s e) -> is_read (fst l) (call_arg loc k e) = true.
Proof.
  intro H. apply arg_pre_reads_sub in H. destruct e; cbn [call_arg]; try (apply is_read_reads_at; exact H).
  - destruct H.
  - change (mkAcc a k loc :: reads_at loc (flat_map expr_reads ix)) with ([mkAcc a k loc] ++ reads_at loc (flat_map expr_reads ix)).
    rewrite is_read_app. apply orb_true_iff. right. apply is_read_reads_at, H.
Qed.

(* the head access of a by-reference argument *)
Lemma call_arg_head s loc k e l : arg_loc s e = Some (Some l) ->
  exists rest, call_arg loc k e = mkAcc (fst l) k loc :: rest.
Proof.
  destruct e; cbn [arg_loc call_arg]; intro H; try discriminate.
  - inversion H; subst. eexists. reflexivity.
  - destruct (opt_all (map (eval s) ix)); [|discriminate]. inversion H; subst. eexists. reflexivity.
  - destruct (eval s (EUn o e)); discriminate.
  - destruct (eval s (EBin o e1 e2)); discriminate.
  - destruct (eval s (EIntr f args)); discriminate.
Qed.

Lemma is_read_head x k loc rest : kind_reads k = true -> is_read x (mkAcc x k loc :: rest) = true.
Proof. intro H. unfold is_read. cbn [existsb a_sig a_kind]. rewrite Nat.eqb_refl, H. reflexivity. Qed.
Lemma is_written_head x k loc rest : kind_writes k = true -> is_written x (mkAcc x k loc :: rest) = true.
Proof. intro H. unfold is_written. cbn [existsb a_sig a_kind]. rewrite Nat.eqb_refl, H. reflexivity. Qed.

(* user call, default access k: pre-reads are covered; callee reads are covered when k reads; callee writes
   are covered when k writes, or when no dummy is intent(out/inout) *)
Lemma user_call_covers s loc k : forall its args R W,
  kind_reads k = true ->
  (kind_writes k = true \/ forallb (fun i => negb (writes_of_intent i)) its = true) ->
  callee_accesses s its args = Some (R, W) ->
  bcovers (rds (flat_map (arg_pre_reads s) args) ++ rds R ++ wrs W) (flat_map (call_arg loc k) args).
Proof.
  intros its args R W Hk Hw H.
  assert (G : (forall l, In l (flat_map (arg_pre_reads s) args) -> is_read (fst l) (flat_map (call_arg loc k) args) = true) /\
              (forall l, In l R -> is_read (fst l) (flat_map (call_arg loc k) args) = true) /\
              (forall l, In l W -> is_written (fst l) (flat_map (call_arg loc k) args) = true)).
  { revert args R W H Hw. induction its as [|i its IH]; intros [|e args] R W H Hw; cbn [callee_accesses] in H; try discriminate.
    - inversion H; subst. repeat split; intros l [].
    - destruct (arg_loc s e) as [[l0|]|] eqn:El; try discriminate;
        destruct (callee_accesses s its args) as [[R' W']|] eqn:Ec; try discriminate.
      + (* by reference *)
        inversion H; subst. clear H.
        assert (Hw' : kind_writes k = true \/ forallb (fun i => negb (writes_of_intent i)) its = true).
        { destruct Hw as [Hw|Hw]; [left; exact Hw|]. cbn [forallb] in Hw. apply andb_true_iff in Hw as [_ Hw]. right. exact Hw. }
        destruct (IH args R' W' Ec Hw') as [G1 [G2 G3]].
        destruct (call_arg_head s loc k e l0 El) as [rest Hh].
        cbn [flat_map]. repeat split; intros l Hl.
        * apply in_app_iff in Hl as [Hl|Hl]; rewrite is_read_app; apply orb_true_iff;
            [left; apply (call_arg_reads_pre s), Hl | right; apply G1, Hl].
        * apply in_app_iff in Hl as [Hl|Hl]; rewrite is_read_app; apply orb_true_iff.
          -- left. destruct (reads_of_intent i); [|destruct Hl]. destruct Hl as [<-|[]]. rewrite Hh. apply is_read_head, Hk.
          -- right. apply G2, Hl.
        * apply in_app_iff in Hl as [Hl|Hl]; rewrite is_written_app; apply orb_true_iff.
          -- left. destruct (writes_of_intent i) eqn:Ei; [|destruct Hl]. destruct Hl as [<-|[]]. rewrite Hh.
             apply is_written_head. destruct Hw as [Hw|Hw]; [exact Hw|].
             cbn [forallb] in Hw. rewrite Ei in Hw. discriminate.
          -- right. apply G3, Hl.
      + (* by value *)
        destruct (writes_of_intent i) eqn:Ei; [discriminate|]. inversion H; subst. clear H.
        assert (Hw' : kind_writes k = true \/ forallb (fun i => negb (writes_of_intent i)) its = true).
        { destruct Hw as [Hw|Hw]; [left; exact Hw|]. cbn [forallb] in Hw. apply andb_true_iff in Hw as [_ Hw]. right. exact Hw. }
        destruct (IH args R W Ec Hw') as [G1 [G2 G3]].
        cbn [flat_map]. repeat split; intros l Hl.
        * apply in_app_iff in Hl as [Hl|Hl]; rewrite is_read_app; apply orb_true_iff;
            [left; apply (call_arg_reads_pre s), Hl | right; apply G1, Hl].
        * rewrite is_read_app. apply orb_true_iff. right. apply G2, Hl.
        * rewrite is_written_app. apply orb_true_iff. right. apply G3, Hl. }
  destruct G as [G1 [G2 G3]]. split; intros l Hl.
  - rewrite !reads_app', !reads_rds', reads_wrs, app_nil_r in Hl. apply in_app_iff in Hl as [Hl|Hl]; auto.
  - rewrite !writes_app', !writes_rds', writes_wrs in Hl. cbn [app] in Hl. auto.
Qed.

(* ---- while *)
Lemma while_covers (run : store -> outcome) c A loc :
  (forall s s' tr ctl, run s = Ok s' tr ctl -> bcovers tr A) ->
  forall n s s' tr ctl, while_loop n c run s = Ok s' tr ctl -> bcovers tr (reads_at loc (expr_reads c) ++ A).
Proof.
  intros Hrun. induction n as [|n IH]; intros s s' tr ctl H; cbn [while_loop] in H; [discriminate|].
  destruct (eval s c) as [v|]; [|discriminate].
  assert (Hc : bcovers (rds (ereads s c)) (reads_at loc (expr_reads c) ++ A)).
  { apply bcovers_l. apply bcovers_rds. apply ereads_sub. }
  destruct (v =? 0)%Z.
  - inversion H; subst. exact Hc.
  - destruct (run s) as [s2 tr2 c2| |] eqn:E; try discriminate. apply Hrun in E.
    assert (Hh : bcovers (rds (ereads s c) ++ tr2) (reads_at loc (expr_reads c) ++ A)).
    { apply bcovers_app_same; [exact Hc | apply bcovers_r, E]. }
    destruct c2.
    + apply prepend_ok in H as [tr' [H ->]]. apply bcovers_app_same; [exact Hh | eapply IH, H].
    + inversion H; subst. exact Hh.
    + apply prepend_ok in H as [tr' [H ->]]. apply bcovers_app_same; [exact Hh | eapply IH, H].
    + inversion H; subst. exact Hh.
Qed.

(* ---- one extended statement, then blocks *)
Lemma xstep_covers fuel outs x loc s s' tr c :
  xsafe x = true -> xstep fuel outs x s = Ok s' tr c -> bcovers tr (fst (xacc_stmt x loc)).
Proof.
  intros Hs H. destruct x as [st|k its args|cnd body]; cbn [xstep xacc_stmt xsafe] in *.
  - eapply core_stmt_bcovers; eassumption.
  - unfold call_step in H. destruct (callee_accesses s its args) as [[R W]|] eqn:E; [|discriminate].
    inversion H; subst. destruct k as [[|]|]; cbn [fst].
    + eapply user_call_covers; [reflexivity | right; exact Hs | exact E].
    + eapply user_call_covers; [reflexivity | left; reflexivity | exact E].
    + eapply user_call_covers; [reflexivity | left; reflexivity | exact E].
  - pose proof (fun s s' tr ctl => core_block_bcovers fuel body (S loc) s s' tr ctl Hs) as Hb.
    destruct (acc_block body (S loc)) as [a1 l1]. cbn [fst] in *.
    eapply while_covers; [exact Hb | exact H].
Qed.

Theorem xaccess_covers_ : forall fuel outs xs loc s s' tr c,
  forallb xsafe xs = true -> xexec fuel outs xs s = Ok s' tr c -> bcovers tr (fst (xacc_block xs loc)).
Proof.
  intros fuel outs xs. induction xs as [|x r IH]; intros loc s s' tr c Hs H; cbn [xexec] in H.
  - inversion H; subst. apply bcovers_nil.
  - cbn [forallb] in Hs. apply andb_true_iff in Hs as [Hx Hr].
    cbn [xacc_block]. destruct (xstep fuel outs x s) as [s1 tr1 c1| |] eqn:E; try discriminate.
    pose proof (xstep_covers fuel outs x loc s s1 tr1 c1 Hx E) as H1.
    destruct (xacc_stmt x loc) as [a1 l1]. specialize (IH l1).
    destruct (xacc_block r l1) as [a2 l2]. cbn [fst] in *.
    destruct c1.
    + apply prepend_ok in H as [tr' [H ->]]. apply bcovers_app; [exact H1 | eapply IH; eassumption].
    + inversion H; subst. apply bcovers_l, H1.
    + inversion H; subst. apply bcovers_l, H1.
    + inversion H; subst. apply bcovers_l, H1.
Qed.

Theorem xaccess_covers_reads_ : forall fuel outs xs s s' tr c,
  forallb xsafe xs = true -> xexec fuel outs xs s = Ok s' tr c ->
  forall l, In l (reads tr) -> is_read (fst l) (xaccesses xs) = true.
Proof. intros fuel outs xs s s' tr c Hs H. exact (proj1 (xaccess_covers_ fuel outs xs 0 s s' tr c Hs H)). Qed.

Theorem xaccess_covers_writes_ : forall fuel outs xs s s' tr c,
  forallb xsafe xs = true -> xexec fuel outs xs s = Ok s' tr c ->
  forall l, In l (writes tr) -> is_written (fst l) (xaccesses xs) = true.
Proof. intros fuel outs xs s s' tr c Hs H. exact (proj2 (xaccess_covers_ fuel outs xs 0 s s' tr c Hs H)). Qed.

(* an impure user call reports every by-reference argument READWRITE, whatever the callee's intents *)
Theorem impure_call_covers_ : forall fuel outs its args loc s s' tr c,
  xstep fuel outs (XCall (CUser false) its args) s = Ok s' tr c ->
  bcovers tr (fst (xacc_stmt (XCall (CUser false) its args) loc)).
Proof. intros. eapply xstep_covers; [reflexivity | eassumption]. Qed.

Local Open Scope nat_scope.

(* non-vacuity: call sub(a(i), n+1, m) with intents (inout, in, out); a WHILE; then an assignment *)
Definition xex_prog : list xstmt :=
  [XCall (CUser false) [IInOut; IIn; IOut] [EIdx 2 [EVar 0]; EBin Add (EVar 1) (ELit 1); EVar 3];
   XWhile (EBin Lt (EVar 0) (EVar 1)) [SAssign 0 [] (EBin Add (EVar 0) (ELit 1)); SAssign 2 [EVar 0] (EVar 3)];
   XCall (CUser true) [IIn] [EVar 3];
   XCall CIntrinsic [IIn; IIn] [EVar 1; EIdx 2 [ELit 1]]].
Definition xex_store : store := store_of [((0, []), 1%Z); ((1, []), 3%Z)] [].

Example xcovers_nonvacuous :
  forallb xsafe xex_prog = true /\
  match xexec 20 (fun k => Z.of_nat k) xex_prog xex_store with
  | Ok _ tr c => length (reads tr) = 18 /\ length (writes tr) = 6 /\ c = CNormal
  | _ => False
  end.
Proof. vm_compute. repeat split. Qed.

(* ------------------------------------------------------------------ refutations (faithful model) *)
(* IntrinsicCall statements (ALLOCATE(a(n), STAT=i), DEALLOCATE, RANDOM_NUMBER(x) ...): since the fix every
   by-reference argument is READWRITE, so coverage holds in full whatever the intents (before the fix this
   was refuted: the arguments were READ only) *)
Theorem intrinsic_stmt_covers_ : forall fuel outs its args loc s s' tr c,
  xstep fuel outs (XCall CIntrinsic its args) s = Ok s' tr c ->
  bcovers tr (fst (xacc_stmt (XCall CIntrinsic its args) loc)).
Proof. intros. eapply xstep_covers; [reflexivity | eassumption]. Qed.

Example allocate_reported_written :
  let x := XCall CIntrinsic [IOut; IOut] [EIdx 2 [EVar 1]; EVar 4] in
  is_written 4 (fst (xacc_stmt x 0)) = true /\ is_written 2 (fst (xacc_stmt x 0)) = true /\
  is_read 1 (fst (xacc_stmt x 0)) = true /\ snd (xacc_stmt x 0) = 1.
Proof. vm_compute. repeat split. Qed.

(* a PURE subroutine may still have intent(out) dummies; Call.reference_accesses reports READ for all *)
Theorem access_refuted_pure_call_ :
  exists x outs s s' tr c l,
    xstep 1 outs x s = Ok s' tr c /\ In l (writes tr) /\ is_written (fst l) (fst (xacc_stmt x 0)) = false.
Proof.
  exists (XCall (CUser true) [IIn; IOut] [EIdx 2 [EVar 0]; EIdx 3 [EBin Add (EVar 1) (ELit 1)]]),
         (fun _ => 9%Z), (store_of [((0, []), 1%Z); ((1, []), 2%Z)] []).
  eexists. eexists. eexists. exists (3, [3%Z]).
  split; [vm_compute; reflexivity|]. split; [vm_compute; left; reflexivity | vm_compute; reflexivity].
Qed.

(* ------------------------------------------------------------------ executable comparison (harness) *)
Definition xobs_agrees (xs : list xstmt) (o : obs) (final : nat) : bool :=
  obs_agrees (xaccesses xs) o && Nat.eqb (snd (xacc_block xs 0)) final.
