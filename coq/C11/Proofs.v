(* C11 — proofs about the access model of coq/C11/Access.v against the semantics Fort.Sem:
   every location read (written) by ANY execution of a block is reported READ (WRITE) by `accesses`,
   for all stores and fuels, provided the block contains no CodeBlock that touches data (PRINT);
   the access list of an assignment is exactly the sequence of its dynamic accesses (RHS reads, LHS
   index reads, then the write); PRINT (a CodeBlock) refutes the unrestricted statement. *)
From Coq Require Import List ZArith Bool Lia.
Import ListNotations.
From PV Require Import Fort.Syntax Fort.Sem C11.Access.

(* ------------------------------------------------------------------ location-free view *)
Definition sk (a : access) : name * akind := (a_sig a, a_kind a).
Definition rdk (x : name) : name * akind := (x, READ).

Fixpoint racc_stmt (s : stmt) : list (name * akind) :=
  match s with
  | SAssign x ix e => map rdk (expr_reads e) ++ map rdk (flat_map expr_reads ix) ++ [(x, WRITE)]
  | SIf c th el => map rdk (expr_reads c) ++ flat_map racc_stmt th ++ flat_map racc_stmt el
  | SDo x lo hi st body =>
      (x, WRITE) :: (x, READ) :: map rdk (expr_reads lo ++ expr_reads hi ++ expr_reads st) ++ flat_map racc_stmt body
  | SRegion _ body | SDir _ body => flat_map racc_stmt body
  | _ => []
  end.

Lemma sk_reads_at loc xs : map sk (reads_at loc xs) = map rdk xs.
Proof. unfold reads_at. rewrite map_map. reflexivity. Qed.

Lemma acc_stmt_if c th el loc :
  acc_stmt (SIf c th el) loc =
  let (a1, l1) := acc_block th (S loc) in
  match el with
  | [] => (reads_at loc (expr_reads c) ++ a1, S l1)
  | _ => let (a2, l2) := acc_block el (S l1) in (reads_at loc (expr_reads c) ++ a1 ++ a2, S l2)
  end.
Proof. reflexivity. Qed.

Lemma acc_stmt_do x lo hi st body loc :
  acc_stmt (SDo x lo hi st body) loc =
  let (a1, l1) := acc_loop_body body (S loc) in
  (mkAcc x WRITE loc :: mkAcc x READ loc :: reads_at loc (expr_reads lo ++ expr_reads hi ++ expr_reads st) ++ a1, l1).
Proof. reflexivity. Qed.

Lemma acc_stmt_region r body loc : acc_stmt (SRegion r body) loc = acc_block body loc.
Proof. reflexivity. Qed.
Lemma acc_stmt_dir d body loc : acc_stmt (SDir d body) loc = acc_block body loc.
Proof. reflexivity. Qed.

Lemma sk_acc_block_of ss :
  Forall (fun s => forall loc, map sk (fst (acc_stmt s loc)) = racc_stmt s) ss ->
  forall loc, map sk (fst (acc_block ss loc)) = flat_map racc_stmt ss.
Proof.
  induction 1 as [|s r Hs _ IH]; intro loc; [reflexivity|].
  cbn [acc_block flat_map]. specialize (Hs loc). destruct (acc_stmt s loc) as [a1 l1].
  specialize (IH l1). destruct (acc_block r l1) as [a2 l2]. cbn [fst] in *.
  rewrite map_app, Hs, IH. reflexivity.
Qed.

Lemma sk_acc_loop_body_of ss :
  Forall (fun s => forall loc, map sk (fst (acc_stmt s loc)) = racc_stmt s) ss ->
  forall loc, map sk (fst (acc_loop_body ss loc)) = flat_map racc_stmt ss.
Proof.
  induction 1 as [|s r Hs _ IH]; intro loc; [reflexivity|].
  cbn [acc_loop_body flat_map]. specialize (Hs loc). destruct (acc_stmt s loc) as [a1 l1].
  specialize (IH (S l1)). destruct (acc_loop_body r (S l1)) as [a2 l2]. cbn [fst] in *.
  rewrite map_app, Hs, IH. reflexivity.
Qed.

Lemma sk_acc_stmt s : forall loc, map sk (fst (acc_stmt s loc)) = racc_stmt s.
Proof.
  induction s using stmt_ind'; intro loc.
  - cbn [acc_stmt fst racc_stmt]. rewrite !map_app, !sk_reads_at. reflexivity.
  - rewrite acc_stmt_if. pose proof (sk_acc_block_of th H (S loc)) as Ht.
    destruct (acc_block th (S loc)) as [a1 l1]. cbn [fst] in Ht.
    destruct el as [|e0 el'].
    + cbn [fst racc_stmt flat_map]. rewrite map_app, sk_reads_at, Ht, app_nil_r. reflexivity.
    + pose proof (sk_acc_block_of (e0 :: el') H0 (S l1)) as He.
      destruct (acc_block (e0 :: el') (S l1)) as [a2 l2]. cbn [fst] in *.
      cbn [racc_stmt]. rewrite !map_app, sk_reads_at, Ht, He. reflexivity.
  - rewrite acc_stmt_do. pose proof (sk_acc_loop_body_of body H (S loc)) as Hb.
    destruct (acc_loop_body body (S loc)) as [a1 l1]. cbn [fst] in *.
    cbn [racc_stmt map sk a_sig a_kind]. rewrite map_app, sk_reads_at, Hb. reflexivity.
  - reflexivity.
  - reflexivity.
  - reflexivity.
  - reflexivity.
  - rewrite acc_stmt_region. cbn [racc_stmt]. apply sk_acc_block_of, H.
  - rewrite acc_stmt_dir. cbn [racc_stmt]. apply sk_acc_block_of, H.
Qed.

Lemma sk_acc_block ss loc : map sk (fst (acc_block ss loc)) = flat_map racc_stmt ss.
Proof. apply sk_acc_block_of. apply Forall_forall. intros s _. apply sk_acc_stmt. Qed.

Lemma sk_accesses ss : map sk (accesses ss) = flat_map racc_stmt ss.
Proof. apply sk_acc_block. Qed.

(* the boolean queries only depend on the location-free view *)
Lemma is_read_in x l : In (x, READ) (map sk l) -> is_read x l = true.
Proof.
  intro H. apply in_map_iff in H as [a [E Ha]]. unfold is_read. apply existsb_exists. exists a. split; [exact Ha|].
  unfold sk in E. inversion E as [[E1 E2]]. rewrite E2, Nat.eqb_refl. reflexivity.
Qed.
Lemma is_written_in x l : In (x, WRITE) (map sk l) -> is_written x l = true.
Proof.
  intro H. apply in_map_iff in H as [a [E Ha]]. unfold is_written. apply existsb_exists. exists a. split; [exact Ha|].
  unfold sk in E. inversion E as [[E1 E2]]. rewrite E2, Nat.eqb_refl. reflexivity.
Qed.
Lemma is_read_in_rw x l : In (x, READWRITE) (map sk l) -> is_read x l = true /\ is_written x l = true.
Proof.
  intro H. apply in_map_iff in H as [a [E Ha]]. unfold is_read, is_written.
  unfold sk in E. inversion E as [[E1 E2]].
  split; apply existsb_exists; exists a; (split; [exact Ha|]); rewrite Nat.eqb_refl, E2; reflexivity.
Qed.

(* ------------------------------------------------------------------ traces *)
Lemma reads_app' t1 t2 : reads (t1 ++ t2) = reads t1 ++ reads t2.
Proof. induction t1 as [|[l|l|v|r|r] t IH]; cbn [reads app]; rewrite ?IH; reflexivity. Qed.
Lemma writes_app' t1 t2 : writes (t1 ++ t2) = writes t1 ++ writes t2.
Proof. induction t1 as [|[l|l|v|r|r] t IH]; cbn [writes app]; rewrite ?IH; reflexivity. Qed.
Lemma reads_rds' ls : reads (rds ls) = ls.
Proof. induction ls as [|l r IH]; cbn [rds map reads]; [reflexivity|]. unfold rds in IH. rewrite IH. reflexivity. Qed.
Lemma writes_rds' ls : writes (rds ls) = [].
Proof. induction ls as [|l r IH]; cbn [rds map writes]; [reflexivity|]. exact IH. Qed.

(* [covers tr K]: every location read in tr has its variable listed READ in K, every written one WRITE *)
Definition covers (tr : list event) (K : list (name * akind)) : Prop :=
  (forall l, In l (reads tr) -> In (fst l, READ) K) /\ (forall l, In l (writes tr) -> In (fst l, WRITE) K).

Lemma covers_nil K : covers [] K.
Proof. split; intros l []. Qed.

Lemma covers_incl tr K K' : incl K K' -> covers tr K -> covers tr K'.
Proof. intros HI [H1 H2]. split; intros l Hl; apply HI; auto. Qed.

Lemma covers_app t1 t2 K1 K2 : covers t1 K1 -> covers t2 K2 -> covers (t1 ++ t2) (K1 ++ K2).
Proof.
  intros [R1 W1] [R2 W2]. split; intros l Hl.
  - rewrite reads_app' in Hl. apply in_app_iff in Hl as [Hl|Hl]; apply in_app_iff; auto.
  - rewrite writes_app' in Hl. apply in_app_iff in Hl as [Hl|Hl]; apply in_app_iff; auto.
Qed.

Lemma covers_app_same t1 t2 K : covers t1 K -> covers t2 K -> covers (t1 ++ t2) K.
Proof.
  intros [R1 W1] [R2 W2]. split; intros l Hl.
  - rewrite reads_app' in Hl. apply in_app_iff in Hl as [Hl|Hl]; auto.
  - rewrite writes_app' in Hl. apply in_app_iff in Hl as [Hl|Hl]; auto.
Qed.

Lemma covers_rds R xs : (forall l, In l R -> In (fst l) xs) -> covers (rds R) (map rdk xs).
Proof.
  intro H. split; intros l Hl.
  - rewrite reads_rds' in Hl. apply H in Hl. apply (in_map rdk) in Hl. exact Hl.
  - rewrite writes_rds' in Hl. destruct Hl.
Qed.

Lemma covers_wr x vs : covers [Wr (x, vs)] [(x, WRITE)].
Proof. split; intros l Hl; cbn in Hl; [destruct Hl | destruct Hl as [<-|[]]; left; reflexivity]. Qed.

(* ------------------------------------------------------------------ expressions *)
Lemma in_flat_map_sub {A B C} (f : A -> list B) (g : A -> list C) (h : B -> C) (l : list A) :
  Forall (fun a => forall b, In b (f a) -> In (h b) (g a)) l ->
  forall b, In b (flat_map f l) -> In (h b) (flat_map g l).
Proof.
  induction 1 as [|a r Ha _ IH]; intros b Hb; [destruct Hb|].
  cbn [flat_map] in *. apply in_app_iff in Hb as [Hb|Hb]; apply in_app_iff; auto.
Qed.

Lemma ereads_sub s e : forall l, In l (ereads s e) -> In (fst l) (expr_reads e).
Proof.
  induction e using expr_ind'; intros l Hl; cbn [ereads expr_reads] in *.
  - destruct Hl.
  - destruct Hl as [<-|[]]. left. reflexivity.
  - apply in_app_iff in Hl as [Hl|Hl]; apply in_app_iff.
    + left. exact (in_flat_map_sub (ereads s) expr_reads fst ix H l Hl).
    + right. destruct (opt_all (map (eval s) ix)); [|destruct Hl]. destruct Hl as [<-|[]]. left. reflexivity.
  - auto.
  - apply in_app_iff in Hl as [Hl|Hl]; apply in_app_iff; auto.
  - destruct (is_inquiry f).
    + destruct args as [|a0 r]; [destruct Hl|]. inversion H as [|? ? _ Hr]; subst.
      exact (in_flat_map_sub (ereads s) expr_reads fst r Hr l Hl).
    + exact (in_flat_map_sub (ereads s) expr_reads fst args H l Hl).
Qed.

Lemma ereads_flat_sub s es : forall l, In l (flat_map (ereads s) es) -> In (fst l) (flat_map expr_reads es).
Proof.
  apply (in_flat_map_sub (ereads s) expr_reads fst). apply Forall_forall. intros e _. apply ereads_sub.
Qed.

(* ------------------------------------------------------------------ one statement of [exec] *)
Definition step (f : nat) (st : stmt) (s : store) : outcome :=
  match st with
  | SAssign x ix e =>
      match opt_all (map (eval s) ix), eval s e with
      | Some vs, Some v => Ok (upd s (x, vs) v) (rds (ereads s e ++ flat_map (ereads s) ix) ++ [Wr (x, vs)]) CNormal
      | _, _ => Fault
      end
  | SIf c th el =>
      match eval s c with
      | Some v => prepend (rds (ereads s c)) (exec f (if (v =? 0)%Z then el else th) s)
      | None => Fault
      end
  | SDo x lo hi st body =>
      match eval s lo, eval s hi, eval s st with
      | Some l, Some h, Some t =>
          if (t =? 0)%Z then Fault
          else prepend (rds (ereads s lo ++ ereads s hi ++ ereads s st))
                       (do_loop (exec f body) x l t (trip_count l h t) 0 s)
      | _, _, _ => Fault
      end
  | SExit => Ok s [] CExit
  | SCycle => Ok s [] CCycle
  | SReturn => Ok s [] CReturn
  | SPrint es =>
      match opt_all (map (eval s) es) with
      | Some vs => Ok s (rds (flat_map (ereads s) es) ++ [Out vs]) CNormal
      | None => Fault
      end
  | SRegion r body =>
      match exec f body s with
      | Ok s1 tr c => Ok s1 (Enter r :: tr ++ (match c with CNormal => [Leave r] | _ => [] end)) c
      | other => other
      end
  | SDir _ body => exec f body s
  end.

Lemma exec_S_cons f st rest s :
  exec (S f) (st :: rest) s =
  match step f st s with Ok s1 tr1 CNormal => prepend tr1 (exec f rest s1) | other => other end.
Proof.
  transitivity (let r1 := step f st s in
                match r1 with Ok s1 tr1 CNormal => prepend tr1 (exec f rest s1) | other => other end).
  - destruct st; reflexivity.
  - cbv zeta. destruct (step f st s) as [s1 tr1 [| | |]| |]; reflexivity.
Qed.

Lemma prepend_ok t o s tr c : prepend t o = Ok s tr c -> exists tr', o = Ok s tr' c /\ tr = t ++ tr'.
Proof. destruct o as [s0 tr0 c0| |]; cbn [prepend]; intro H; inversion H; subst. eauto. Qed.

(* no CodeBlock that touches data: PRINT is the one statement of the subset that is a CodeBlock and reads *)
Fixpoint noprint (s : stmt) : bool :=
  match s with
  | SPrint _ => false
  | SIf _ th el => forallb noprint th && forallb noprint el
  | SDo _ _ _ _ body => forallb noprint body
  | SRegion _ body | SDir _ body => forallb noprint body
  | _ => true
  end.

Section DoLoop.
  Variable run : store -> outcome.
  Variable K : list (name * akind).
  Hypothesis Hrun : forall s s' tr c, run s = Ok s' tr c -> covers tr K.

  Lemma do_loop_covers x l t n : forall k s s' tr c,
    do_loop run x l t n k s = Ok s' tr c -> covers tr ((x, WRITE) :: K).
  Proof.
    induction n as [|n IH]; intros k s s' tr c H; cbn [do_loop] in H.
    - inversion H; subst. apply (covers_incl _ [(x, WRITE)]); [intros p [<-|[]]; left; reflexivity | apply covers_wr].
    - destruct (run (upd s (x, []) (l + k * t)%Z)) as [s2 tr2 c2| |] eqn:E; try discriminate.
      apply Hrun in E.
      assert (Hhead : covers (Wr (x, []) :: tr2) ((x, WRITE) :: K)).
      { change (covers ([Wr (x, [])] ++ tr2) ([(x, WRITE)] ++ K)). apply covers_app; [apply covers_wr | exact E]. }
      destruct c2.
      + apply prepend_ok in H as [tr' [H ->]]. apply IH in H. apply covers_app_same; assumption.
      + inversion H; subst. exact Hhead.
      + apply prepend_ok in H as [tr' [H ->]]. apply IH in H. apply covers_app_same; assumption.
      + inversion H; subst. exact Hhead.
  Qed.
End DoLoop.

Lemma covers_region r tr (c : ctl) K : covers tr K ->
  covers (Enter r :: tr ++ (match c with CNormal => [Leave r] | _ => [] end)) K.
Proof.
  intro H. change (covers ([Enter r] ++ tr ++ (match c with CNormal => [Leave r] | _ => [] end)) K).
  apply covers_app_same; [split; intros l []|]. apply covers_app_same; [exact H|].
  destruct c; split; intros l Hl; cbn in Hl; destruct Hl.
Qed.

Lemma step_covers f
  (IH : forall ss s s' tr c, forallb noprint ss = true -> exec f ss s = Ok s' tr c -> covers tr (flat_map racc_stmt ss)) :
  forall st s s' tr c, noprint st = true -> step f st s = Ok s' tr c -> covers tr (racc_stmt st).
Proof.
  intros st s s' tr c NP H. destruct st; cbn [step racc_stmt noprint] in *.
  - (* assignment *)
    destruct (opt_all (map (eval s) ix)) as [vs|]; [|discriminate]. destruct (eval s e) as [v|]; [|discriminate].
    inversion H; subst. rewrite app_assoc. apply covers_app; [|apply covers_wr].
    rewrite <- map_app. apply covers_rds. intros l Hl. apply in_app_iff in Hl as [Hl|Hl]; apply in_app_iff.
    + left. apply (ereads_sub s), Hl.
    + right. apply (ereads_flat_sub s), Hl.
  - (* if *)
    apply andb_true_iff in NP as [NP1 NP2].
    destruct (eval s c0) as [v|]; [|discriminate]. apply prepend_ok in H as [tr' [H ->]].
    apply covers_app; [apply covers_rds, ereads_sub|].
    destruct (v =? 0)%Z; apply IH in H; try assumption.
    + eapply covers_incl; [|exact H]. apply incl_appr, incl_refl.
    + eapply covers_incl; [|exact H]. apply incl_appl, incl_refl.
  - (* do *)
    destruct (eval s lo) as [l|]; [|discriminate]. destruct (eval s hi) as [h|]; [|discriminate].
    destruct (eval s st) as [t|]; [|discriminate]. destruct (t =? 0)%Z; [discriminate|].
    apply prepend_ok in H as [tr' [H ->]].
    apply (do_loop_covers (exec f body) (flat_map racc_stmt body)) in H; [|intros; eapply IH; eassumption].
    change (covers (rds (ereads s lo ++ ereads s hi ++ ereads s st) ++ tr')
                   ([(x, WRITE); (x, READ)] ++ map rdk (expr_reads lo ++ expr_reads hi ++ expr_reads st) ++ flat_map racc_stmt body)).
    apply covers_app_same.
    + eapply covers_incl; [|apply (covers_rds _ (expr_reads lo ++ expr_reads hi ++ expr_reads st))].
      * apply incl_appr, incl_appl, incl_refl.
      * intros l0 Hl. apply in_app_iff in Hl as [Hl|Hl]; [|apply in_app_iff in Hl as [Hl|Hl]];
          apply (ereads_sub s) in Hl; rewrite !in_app_iff; auto.
    + eapply covers_incl; [|exact H]. intros p [<-|Hp]; [left; reflexivity|].
      right. right. cbn [app]. apply in_app_iff. right. exact Hp.
  - inversion H; subst. apply covers_nil.
  - inversion H; subst. apply covers_nil.
  - inversion H; subst. apply covers_nil.
  - discriminate.
  - destruct (exec f body s) as [s1 tr1 c1| |] eqn:E; try discriminate. inversion H; subst.
    apply covers_region. eapply IH; eassumption.
  - eapply IH; eassumption.
Qed.

Lemma exec_covers f : forall ss s s' tr c,
  forallb noprint ss = true -> exec f ss s = Ok s' tr c -> covers tr (flat_map racc_stmt ss).
Proof.
  induction f as [|f IH]; intros ss s s' tr c NP H; [discriminate|].
  destruct ss as [|st rest]; [inversion H; subst; apply covers_nil|].
  rewrite exec_S_cons in H. cbn [forallb] in NP. apply andb_true_iff in NP as [NP1 NP2].
  cbn [flat_map].
  destruct (step f st s) as [s1 tr1 c1| |] eqn:E; try discriminate.
  pose proof (step_covers f IH st s s1 tr1 c1 NP1 E) as H1.
  destruct c1.
  - apply prepend_ok in H as [tr' [H ->]]. apply covers_app; [exact H1 | eapply IH; eassumption].
  - inversion H; subst. eapply covers_incl; [|exact H1]. apply incl_appl, incl_refl.
  - inversion H; subst. eapply covers_incl; [|exact H1]. apply incl_appl, incl_refl.
  - inversion H; subst. eapply covers_incl; [|exact H1]. apply incl_appl, incl_refl.
Qed.

(* ------------------------------------------------------------------ the coverage theorems *)
Theorem access_covers_reads_ : forall fuel ss st st' tr c,
  forallb noprint ss = true -> exec fuel ss st = Ok st' tr c ->
  forall l, In l (reads tr) -> is_read (fst l) (accesses ss) = true.
Proof.
  intros fuel ss st st' tr c NP H l Hl. apply is_read_in. rewrite sk_accesses.
  destruct (exec_covers fuel ss st st' tr c NP H) as [HR _]. apply HR, Hl.
Qed.

Theorem access_covers_writes_ : forall fuel ss st st' tr c,
  forallb noprint ss = true -> exec fuel ss st = Ok st' tr c ->
  forall l, In l (writes tr) -> is_written (fst l) (accesses ss) = true.
Proof.
  intros fuel ss st st' tr c NP H l Hl. apply is_written_in. rewrite sk_accesses.
  destruct (exec_covers fuel ss st st' tr c NP H) as [_ HW]. apply HW, Hl.
Qed.

(* the same for the access list of ONE statement taken at any location counter (VariablesAccessInfo(node)) *)
Theorem access_covers_stmt_ : forall fuel s loc st st' tr c,
  noprint s = true -> exec fuel [s] st = Ok st' tr c ->
  (forall l, In l (reads tr) -> is_read (fst l) (fst (acc_stmt s loc)) = true) /\
  (forall l, In l (writes tr) -> is_written (fst l) (fst (acc_stmt s loc)) = true).
Proof.
  intros fuel s loc st st' tr c NP H.
  assert (NP' : forallb noprint [s] = true) by (cbn; rewrite NP; reflexivity).
  destruct (exec_covers fuel [s] st st' tr c NP' H) as [HR HW]. cbn [flat_map] in HR, HW. rewrite app_nil_r in HR, HW.
  split; intros l Hl; [apply is_read_in | apply is_written_in]; rewrite sk_acc_stmt; auto.
Qed.

(* non-vacuity: a loop nest with an IF, offsets and a zero-trip inner loop runs to completion and reads/writes *)
Local Open Scope nat_scope.
Definition ex_prog : list stmt :=
  [SDo 0 (ELit 1) (EVar 5) (ELit 1)
     [SIf (EBin Gt (EIdx 3 [EVar 0]) (ELit 0))
          [SAssign 2 [EBin Add (EVar 0) (ELit 1)] (EBin Add (EIdx 3 [EVar 0]) (EVar 6))]
          [SAssign 6 [] (EIntr IMax [EVar 6; EIntr IUbound [EVar 3; ELit 1]])];
      SDo 1 (ELit 3) (ELit 2) (ELit 1) [SAssign 4 [EVar 1] (ELit 0)]]].
Definition ex_store : store :=
  store_of [((5, []), 3%Z); ((3, [1%Z]), 2%Z); ((3, [2%Z]), (-1)%Z); ((3, [3%Z]), 4%Z); ((6, []), 7%Z)]
           [(3, [(1%Z, 3%Z)])].

Example covers_nonvacuous :
  forallb noprint ex_prog = true /\
  match exec 50 ex_prog ex_store with
  | Ok _ tr c => length (reads tr) = 16 /\ length (writes tr) = 10 /\ c = CNormal
  | _ => False
  end.
Proof. vm_compute. repeat split. Qed.

(* ------------------------------------------------------------------ order: RHS before LHS *)
Definition lname (l : loc) : name := fst l.

Lemma opt_all_some {A B} (f : A -> option B) l vs :
  opt_all (map f l) = Some vs -> Forall (fun a => exists v, f a = Some v) l.
Proof.
  revert vs. induction l as [|a r IH]; intros vs H; [constructor|].
  cbn [map opt_all] in H. destruct (f a) as [v|] eqn:E; [|discriminate].
  destruct (opt_all (map f r)) as [vr|] eqn:Er; [|discriminate]. constructor; [eauto | eapply IH; reflexivity].
Qed.

Lemma map_flat_map_eq {A B C} (f : A -> list B) (g : A -> list C) (h : B -> C) (l : list A) :
  Forall (fun a => map h (f a) = g a) l -> map h (flat_map f l) = flat_map g l.
Proof. induction 1 as [|a r Ha _ IH]; [reflexivity|]. cbn [flat_map]. rewrite map_app, Ha, IH. reflexivity. Qed.

Lemma Forall_and_ex {A} (P Q : A -> Prop) l :
  Forall (fun a => P a -> Q a) l -> Forall P l -> Forall Q l.
Proof. induction 1; intro H'; inversion H'; subst; constructor; auto. Qed.

(* when an expression evaluates, the variables of its dynamic reads are exactly its static reads, in order *)
Lemma ereads_exact s e : forall v, eval s e = Some v -> map lname (ereads s e) = expr_reads e.
Proof.
  induction e using expr_ind'; intros v Hv; cbn [eval ereads expr_reads] in *.
  - reflexivity.
  - reflexivity.
  - destruct (opt_all (map (eval s) ix)) as [vs|] eqn:E; [|discriminate].
    rewrite map_app. cbn [map lname fst]. f_equal.
    apply map_flat_map_eq. apply opt_all_some in E.
    eapply Forall_and_ex; [|exact E]. eapply Forall_impl; [|exact H].
    intros e0 He0 [va Hva]. eapply He0, Hva.
  - destruct (eval s e) as [a|] eqn:E; [|discriminate]. eapply IHe. reflexivity.
  - destruct (eval s e1) as [a|] eqn:E1; [|discriminate]. destruct (eval s e2) as [b|] eqn:E2; [|discriminate].
    rewrite map_app. f_equal; [apply (IHe1 a eq_refl) | apply (IHe2 b eq_refl)].
  - destruct (is_inquiry f).
    + destruct args as [|a0 r]; [reflexivity|]. inversion H as [|? ? _ Hr]; subst.
      destruct (opt_all (map (eval s) r)) as [vs|] eqn:E; [|discriminate].
      apply map_flat_map_eq. apply opt_all_some in E.
      eapply Forall_and_ex; [|exact E]. eapply Forall_impl; [|exact Hr].
      intros e0 He0 [va Hva]. eapply He0, Hva.
    + destruct (opt_all (map (eval s) args)) as [vs|] eqn:E; [|discriminate].
      apply map_flat_map_eq. apply opt_all_some in E.
      eapply Forall_and_ex; [|exact E]. eapply Forall_impl; [|exact H].
      intros e0 He0 [va Hva]. eapply He0, Hva.
Qed.

Lemma ereads_flat_exact s es vs : opt_all (map (eval s) es) = Some vs ->
  map lname (flat_map (ereads s) es) = flat_map expr_reads es.
Proof.
  intro E. apply map_flat_map_eq. apply opt_all_some in E. eapply Forall_impl; [|exact E].
  intros a [va Hva]. eapply ereads_exact, Hva.
Qed.

(* the (variable, kind) sequence of a trace *)
Definition ev_sk (e : event) : list (name * akind) :=
  match e with Rd l => [(lname l, READ)] | Wr l => [(lname l, WRITE)] | _ => [] end.

Lemma ev_sk_rds R : flat_map ev_sk (rds R) = map rdk (map lname R).
Proof. induction R as [|l r IH]; [reflexivity|]. cbn [rds map flat_map ev_sk app]. unfold rds in IH. rewrite IH. reflexivity. Qed.

(* the access list of an assignment IS the sequence of its dynamic accesses: RHS reads (left to right,
   subscripts before the array), then the reads of the LHS subscripts, then the write — whatever the store *)
Theorem assign_sequence_ : forall fuel x ix e loc st st' tr c,
  exec fuel [SAssign x ix e] st = Ok st' tr c ->
  flat_map ev_sk tr = map sk (fst (acc_stmt (SAssign x ix e) loc)).
Proof.
  intros fuel x ix e loc st st' tr c H. destruct fuel as [|f]; [discriminate|].
  rewrite exec_S_cons in H. cbn [step] in H.
  destruct (opt_all (map (eval st) ix)) as [vs|] eqn:Ei; [|discriminate].
  destruct (eval st e) as [v|] eqn:Ee; [|discriminate].
  destruct f as [|f]; [discriminate|]. cbn [exec prepend] in H. inversion H; subst.
  rewrite app_nil_r. rewrite flat_map_app, ev_sk_rds. cbn [flat_map ev_sk app lname fst].
  rewrite map_app, (ereads_exact st e v Ee), (ereads_flat_exact st ix vs Ei).
  rewrite sk_acc_stmt. cbn [racc_stmt]. rewrite map_app, <- app_assoc. reflexivity.
Qed.

(* static form: the write is the LAST access of the statement, everything before it is a READ at the same
   location, and every variable of the right-hand side is among those reads *)
Theorem rhs_before_lhs_ : forall x ix e loc,
  exists R, fst (acc_stmt (SAssign x ix e) loc) = R ++ [mkAcc x WRITE loc] /\
            Forall (fun a => a_kind a = READ /\ a_loc a = loc) R /\
            (forall y, In y (expr_reads e) -> In (mkAcc y READ loc) R) /\
            snd (acc_stmt (SAssign x ix e) loc) = S loc.
Proof.
  intros x ix e loc. exists (reads_at loc (expr_reads e) ++ reads_at loc (flat_map expr_reads ix)).
  cbn [acc_stmt fst snd]. repeat split.
  - rewrite <- app_assoc. reflexivity.
  - apply Forall_forall. intros a Ha. apply in_app_iff in Ha as [Ha|Ha]; unfold reads_at in Ha;
      apply in_map_iff in Ha as [y [<- _]]; split; reflexivity.
  - intros y Hy. apply in_app_iff. left. unfold reads_at. apply in_map_iff. exists y. split; [reflexivity | exact Hy].
Qed.

(* consequence used by the clients (`a = a + 1` is not "written first"): if the assigned scalar occurs on
   the right-hand side, its first access in the statement is a READ *)
Theorem self_update_not_written_first_ : forall x ix e loc,
  In x (expr_reads e) -> is_written_first x (fst (acc_stmt (SAssign x ix e) loc)) = false.
Proof.
  intros x ix e loc Hx. cbn [acc_stmt fst]. unfold is_written_first, first_access, var_accesses.
  apply in_split in Hx as [l1 [l2 E]]. rewrite E. unfold reads_at. rewrite map_app. cbn [map].
  rewrite <- !app_assoc. rewrite filter_app.
  assert (Hl1 : forall l, match filter (fun a => Nat.eqb (a_sig a) x) (map (rd loc) l1) ++ l with
                          | [] => None | a :: _ => Some a end =
                          match filter (fun a => Nat.eqb (a_sig a) x) (map (rd loc) l1) with
                          | [] => match l with [] => None | a :: _ => Some a end | a :: _ => Some a end).
  { intro l. destruct (filter _ (map (rd loc) l1)); reflexivity. }
  rewrite Hl1. clear Hl1.
  assert (Hk : forall l, Forall (fun a => a_kind a = READ) (filter (fun a => Nat.eqb (a_sig a) x) (map (rd loc) l))).
  { intro l. apply Forall_forall. intros a Ha. apply filter_In in Ha as [Ha _]. apply in_map_iff in Ha as [y [<- _]]. reflexivity. }
  destruct (filter (fun a => Nat.eqb (a_sig a) x) (map (rd loc) l1)) as [|a0 r0] eqn:E0.
  - cbn [app filter rd a_sig]. rewrite Nat.eqb_refl. reflexivity.
  - specialize (Hk l1). rewrite E0 in Hk. inversion Hk as [|? ? Ha0 _]; subst. rewrite Ha0. reflexivity.
Qed.

(* the loop variable is reported written before it is reported read (what OpenMP privatisation relies on) *)
Theorem loop_var_written_first_ : forall x lo hi st body loc,
  is_written_first x (fst (acc_stmt (SDo x lo hi st body) loc)) = true.
Proof.
  intros. rewrite acc_stmt_do. destruct (acc_loop_body body (S loc)) as [a1 l1]. cbn [fst].
  unfold is_written_first, first_access, var_accesses. cbn [filter a_sig]. rewrite Nat.eqb_refl. reflexivity.
Qed.

(* ------------------------------------------------------------------ refutation: CodeBlocks *)
(* PRINT is a CodeBlock in PSyIR; CodeBlock has no reference_accesses, so nothing is reported although the
   statement reads its operands: the unrestricted coverage statement is false of the faithful model. *)
Theorem access_refuted_codeblock_ :
  exists ss st st' tr c l, exec 5 ss st = Ok st' tr c /\ In l (reads tr) /\ is_read (fst l) (accesses ss) = false.
Proof.
  exists [SPrint [EIdx 1 [EVar 0]]], (store_of [((0, []), 2%Z)] []).
  eexists. eexists. eexists. exists (0, []).
  split; [vm_compute; reflexivity|]. split; [vm_compute; left; reflexivity | vm_compute; reflexivity].
Qed.
