(* C11 — static variable-access information of MiniFortran statements.

   A faithful model of PSyclone's `reference_accesses` / `VariablesAccessInfo` as the code is today
   (src/psyclone/psyir/nodes/{reference,array_mixin,assignment,loop,if_block,intrinsic_call,node}.py,
   src/psyclone/core/{variables_access_info,single_variable_access_info}.py) over the shared syntax
   Fort.Syntax.  DEFINITIONS ONLY (no proofs) so that this file keeps compiling when a proof breaks;
   it is imported by C12 (extraction in/out lists) and C13 (OpenACC data clauses).

   Interface (keep stable):
     akind  READ | WRITE | READWRITE                     AccessType (the three kinds the language level uses)
     access {a_sig; a_kind; a_loc}                       one AccessInfo: signature, access type, location
     expr_reads e : list name                            Reference/ArrayReference/Operation/IntrinsicCall.reference_accesses
     acc_stmt s loc, acc_block ss loc                    Node.reference_accesses with the location counter threaded
     accesses ss : list access                           VariablesAccessInfo(nodes=ss) flattened in add order
     final_location ss                                   VariablesAccessInfo(nodes=ss).location
     accesses_ok ss : bool                               false iff the implementation raises NotImplementedError
     var_accesses x l                                    VariablesAccessInfo[x].all_accesses
     signatures l                                        the keys (first-insertion order, duplicate free)
     is_read is_written has_read_write is_written_first is_read_only first_access
                                                         the SingleVariableAccessInfo predicates

   What is observable of the implementation is, per signature, the list of (access type, location)
   in insertion order (`VariablesAccessInfo` is a dict of per-variable lists).  The flat list below
   is one linearisation of it: the relative order of accesses to DIFFERENT variables at the same
   location is not observable in the implementation (and `merge` inserts the left-hand side in sorted
   signature order); the correspondence therefore compares `var_accesses x` for every x. *)
From Coq Require Import List ZArith Bool.
Import ListNotations.
From PV Require Import Fort.Syntax Fort.Sem.

Inductive akind := READ | WRITE | READWRITE.

Record access := mkAcc { a_sig : name; a_kind : akind; a_loc : nat }.

Definition akind_eqb (a b : akind) : bool :=
  match a, b with READ, READ | WRITE, WRITE | READWRITE, READWRITE => true | _, _ => false end.

(* AccessType.all_read_accesses() / all_write_accesses() restricted to the three kinds *)
Definition kind_reads (k : akind) : bool := match k with READ | READWRITE => true | WRITE => false end.
Definition kind_writes (k : akind) : bool := match k with WRITE | READWRITE => true | READ => false end.

(* ---- expressions: every Reference is READ, index expressions first, then the reference itself
        (Reference.reference_accesses); operations recurse over their children in order
        (Node.reference_accesses); an inquiry intrinsic (LBOUND/UBOUND/SIZE) skips its first argument
        (IntrinsicCall.reference_accesses, option COLLECT-ARRAY-SHAPE-READS off = the default). *)
Fixpoint expr_reads (e : expr) : list name :=
  match e with
  | ELit _ => []
  | EVar x => [x]
  | EIdx a ix => flat_map expr_reads ix ++ [a]
  | EUn _ e1 => expr_reads e1
  | EBin _ l r => expr_reads l ++ expr_reads r
  | EIntr f args =>
      if is_inquiry f then match args with [] => [] | _ :: r => flat_map expr_reads r end
      else flat_map expr_reads args
  end.

Definition rd (loc : nat) (x : name) : access := mkAcc x READ loc.
Definition reads_at (loc : nat) (xs : list name) : list access := map (rd loc) xs.

(* ---- statements.  [acc_stmt s loc] = (accesses added, location counter afterwards).
   Assignment : RHS reads, then the LHS (index reads, target changed READ->WRITE) merged at the
                same location, then next_location            (assignment.py:133-168)
   IfBlock    : condition; next; if-body; next; [else-body; next]   (if_block.py:183-203)
   Loop       : variable WRITE then READ, start/stop/step reads, next; then every child of the body
                followed by next                                        (loop.py:428-459)
   Return, CodeBlock (EXIT, CYCLE, PRINT...) : nothing (Node.reference_accesses, no children)
   PSyData region, directive : recursion over the children (Node.reference_accesses)          *)
Fixpoint acc_stmt (s : stmt) (loc : nat) {struct s} : list access * nat :=
  let block := fix block (ss : list stmt) (loc : nat) {struct ss} : list access * nat :=
    match ss with
    | [] => ([], loc)
    | s1 :: r => let (a1, l1) := acc_stmt s1 loc in let (a2, l2) := block r l1 in (a1 ++ a2, l2)
    end in
  let loop_body := fix loop_body (ss : list stmt) (loc : nat) {struct ss} : list access * nat :=
    match ss with
    | [] => ([], loc)
    | s1 :: r => let (a1, l1) := acc_stmt s1 loc in let (a2, l2) := loop_body r (S l1) in (a1 ++ a2, l2)
    end in
  match s with
  | SAssign x ix e =>
      (reads_at loc (expr_reads e) ++ reads_at loc (flat_map expr_reads ix) ++ [mkAcc x WRITE loc], S loc)
  | SIf c th el =>
      let (a1, l1) := block th (S loc) in
      match el with
      | [] => (reads_at loc (expr_reads c) ++ a1, S l1)
      | _ => let (a2, l2) := block el (S l1) in (reads_at loc (expr_reads c) ++ a1 ++ a2, S l2)
      end
  | SDo x lo hi st body =>
      let (a1, l1) := loop_body body (S loc) in
      (mkAcc x WRITE loc :: mkAcc x READ loc ::
       reads_at loc (expr_reads lo ++ expr_reads hi ++ expr_reads st) ++ a1, l1)
  | SExit | SCycle | SReturn => ([], loc)
  | SPrint _ => ([], loc)              (* a CodeBlock: reports nothing *)
  | SRegion _ body => block body loc
  | SDir _ body => block body loc
  end.

Fixpoint acc_block (ss : list stmt) (loc : nat) : list access * nat :=
  match ss with
  | [] => ([], loc)
  | s1 :: r => let (a1, l1) := acc_stmt s1 loc in let (a2, l2) := acc_block r l1 in (a1 ++ a2, l2)
  end.

Fixpoint acc_loop_body (ss : list stmt) (loc : nat) : list access * nat :=
  match ss with
  | [] => ([], loc)
  | s1 :: r => let (a1, l1) := acc_stmt s1 loc in let (a2, l2) := acc_loop_body r (S l1) in (a1 ++ a2, l2)
  end.

Definition accesses (ss : list stmt) : list access := fst (acc_block ss 0).
Definition final_location (ss : list stmt) : nat := snd (acc_block ss 0).

(* ---- when the implementation refuses: Assignment.reference_accesses raises NotImplementedError
   when the assigned variable also occurs in its own index expressions (`a(a(1)) = ...`). *)
Definition lhs_ok (x : name) (ix : list expr) : bool :=
  negb (existsb (Nat.eqb x) (flat_map expr_reads ix)).

Fixpoint stmt_ok (s : stmt) : bool :=
  let all := fix all (ss : list stmt) : bool := match ss with [] => true | s1 :: r => stmt_ok s1 && all r end in
  match s with
  | SAssign x ix _ => lhs_ok x ix
  | SIf _ th el => all th && all el
  | SDo _ _ _ _ body => all body
  | SRegion _ body | SDir _ body => all body
  | _ => true
  end.
Definition accesses_ok (ss : list stmt) : bool := forallb stmt_ok ss.

(* ---- SingleVariableAccessInfo / VariablesAccessInfo queries on an access list *)
Definition var_accesses (x : name) (l : list access) : list access :=
  filter (fun a => Nat.eqb (a_sig a) x) l.

Fixpoint dedup (seen : list name) (l : list name) : list name :=
  match l with
  | [] => []
  | x :: r => if existsb (Nat.eqb x) seen then dedup seen r else x :: dedup (x :: seen) r
  end.
Definition signatures (l : list access) : list name := dedup [] (map a_sig l).

Definition is_read (x : name) (l : list access) : bool :=
  existsb (fun a => Nat.eqb (a_sig a) x && kind_reads (a_kind a)) l.
Definition is_written (x : name) (l : list access) : bool :=
  existsb (fun a => Nat.eqb (a_sig a) x && kind_writes (a_kind a)) l.
Definition has_read_write (x : name) (l : list access) : bool :=
  existsb (fun a => Nat.eqb (a_sig a) x && akind_eqb (a_kind a) READWRITE) l.
Definition first_access (x : name) (l : list access) : option access :=
  match var_accesses x l with [] => None | a :: _ => Some a end.
(* is_written_first: the FIRST access is exactly WRITE (a READWRITE first access does not count) *)
Definition is_written_first (x : name) (l : list access) : bool :=
  match first_access x l with Some a => akind_eqb (a_kind a) WRITE | None => false end.
Definition is_read_only (x : name) (l : list access) : bool :=
  forallb (fun a => akind_eqb (a_kind a) READ) (var_accesses x l).

(* ---- executable comparison with the implementation's observation:
   per signature (numbered), the list of (kind, location) in insertion order *)
Definition obs := list (name * list (akind * nat)).
Definition kl_eqb (a b : akind * nat) : bool := akind_eqb (fst a) (fst b) && Nat.eqb (snd a) (snd b).
Fixpoint kls_eqb (a b : list (akind * nat)) : bool :=
  match a, b with [], [] => true | x :: a', y :: b' => kl_eqb x y && kls_eqb a' b' | _, _ => false end.
Definition var_obs (x : name) (l : list access) : list (akind * nat) :=
  map (fun a => (a_kind a, a_loc a)) (var_accesses x l).
(* the implementation reported exactly [o] (one entry per signature, any order) with final location n *)
Definition obs_agrees (l : list access) (o : obs) : bool :=
  forallb (fun p => kls_eqb (var_obs (fst p) l) (snd p)) o &&
  forallb (fun x => existsb (fun p => Nat.eqb (fst p) x) o) (signatures l) &&
  forallb (fun p => negb (match snd p with [] => true | _ => false end)) o.
