(* C11 — structure accesses as a FIRST-CLASS expression form.

   [fexpr] = the MiniFortran expressions plus [FRef path]: a structure access may occur wherever an expression may
   (array subscripts, intrinsic arguments, DO bounds/step, IF conditions, call arguments, nested inside the subscripts
   of another structure access).  [fstmt]/[fblock] = assignments (to a variable, an array element or a structure
   element), IF, DO and calls, arbitrarily nested.  Mutual inductives (no nested lists) so that `Scheme` provides the
   induction principles.  The access function is the one of Access.v/Ext.v/Struct.v (same location discipline); the
   semantics is built on Fort.Sem (store, events, do_loop, eval_bin/eval_un/eval_intr), a structure element being the
   location (enc signature, evaluated subscripts of all components). *)
From Coq Require Import List ZArith Bool Lia.
Import ListNotations.
From PV Require Import Fort.Syntax Fort.Sem C11.Access C11.Proofs C11.Ext.
Local Open Scope nat_scope.

Inductive fexpr :=
| FLit (z : Z) | FVar (x : name) | FIdx (a : name) (ix : fexprs)
| FUn (o : unop) (e : fexpr) | FBin (o : binop) (l r : fexpr)
| FIntr (f : intr) (args : fexprs)
| FRef (p : fpath)
with fexprs := ENil | ECons (e : fexpr) (r : fexprs)
with fpath := PNil | PCons (c : name) (ix : fexprs) (r : fpath).

Scheme fexpr_mut := Induction for fexpr Sort Prop
  with fexprs_mut := Induction for fexprs Sort Prop
  with fpath_mut := Induction for fpath Sort Prop.
Combined Scheme fexpr_all_ind from fexpr_mut, fexprs_mut, fpath_mut.

Inductive ftarget := FTVar (x : name) (ix : fexprs) | FTRef (p : fpath).

Inductive fstmt :=
| FAssign (t : ftarget) (e : fexpr)
| FIf (c : fexpr) (th el : fblock)
| FDo (x : name) (lo hi st : fexpr) (body : fblock)
| FCall (k : cform) (its : list intent) (args : fexprs)
with fblock := BNil | BCons (s : fstmt) (r : fblock).

Fixpoint psig (p : fpath) : list name := match p with PNil => [] | PCons c _ r => c :: psig r end.

Section Enc.
Variable enc : list name -> name.

(* ------------------------------------------------------------------ the analysis *)
Fixpoint fexpr_reads (e : fexpr) : list name :=
  match e with
  | FLit _ => []
  | FVar x => [x]
  | FIdx a ix => fexprs_reads ix ++ [a]
  | FUn _ e1 => fexpr_reads e1
  | FBin _ l r => fexpr_reads l ++ fexpr_reads r
  | FIntr f args => if is_inquiry f then match args with ENil => [] | ECons _ r => fexprs_reads r end else fexprs_reads args
  | FRef p => fpath_reads p ++ [enc (psig p)]      (* every subscript of every component, THEN the signature *)
  end
with fexprs_reads (es : fexprs) : list name :=
  match es with ENil => [] | ECons e r => fexpr_reads e ++ fexprs_reads r end
with fpath_reads (p : fpath) : list name :=
  match p with PNil => [] | PCons _ ix r => fexprs_reads ix ++ fpath_reads r end.

Definition ftarget_sig (t : ftarget) : name := match t with FTVar x _ => x | FTRef p => enc (psig p) end.
Definition ftarget_reads (t : ftarget) : list name := match t with FTVar _ ix => fexprs_reads ix | FTRef p => fpath_reads p end.

Definition fcall_arg (loc : nat) (k : akind) (a : fexpr) : list access :=
  match a with
  | FVar x => [mkAcc x k loc]
  | FIdx a0 ix => mkAcc a0 k loc :: reads_at loc (fexprs_reads ix)
  | FRef p => mkAcc (enc (psig p)) k loc :: reads_at loc (fpath_reads p)
  | _ => reads_at loc (fexpr_reads a)
  end.
Fixpoint fcall_args (loc : nat) (k : akind) (es : fexprs) : list access :=
  match es with ENil => [] | ECons e r => fcall_arg loc k e ++ fcall_args loc k r end.

Definition fdefault (k : cform) : akind := match k with CUser true => READ | _ => READWRITE end.

(* [bump] = inside a Loop body every child is followed by an extra next_location *)
Fixpoint facc_stmt (s : fstmt) (loc : nat) : list access * nat :=
  match s with
  | FAssign t e =>
      (reads_at loc (fexpr_reads e) ++ reads_at loc (ftarget_reads t) ++ [mkAcc (ftarget_sig t) WRITE loc], S loc)
  | FIf c th el =>
      let (a1, l1) := facc_block false th (S loc) in
      match el with
      | BNil => (reads_at loc (fexpr_reads c) ++ a1, S l1)
      | _ => let (a2, l2) := facc_block false el (S l1) in (reads_at loc (fexpr_reads c) ++ a1 ++ a2, S l2)
      end
  | FDo x lo hi st body =>
      let (a1, l1) := facc_block true body (S loc) in
      (mkAcc x WRITE loc :: mkAcc x READ loc :: reads_at loc (fexpr_reads lo ++ fexpr_reads hi ++ fexpr_reads st) ++ a1, l1)
  | FCall k _ args => (fcall_args loc (fdefault k) args, S loc)
  end
with facc_block (bump : bool) (b : fblock) (loc : nat) : list access * nat :=
  match b with
  | BNil => ([], loc)
  | BCons s r =>
      let (a1, l1) := facc_stmt s loc in
      let (a2, l2) := facc_block bump r (if bump then S l1 else l1) in (a1 ++ a2, l2)
  end.

(* ------------------------------------------------------------------ semantics *)
Definition inq_args (args : fexprs) : list expr := match args with ECons (FVar a) _ => [EVar a] | _ => [] end.

Fixpoint feval (s : store) (e : fexpr) : option Z :=
  match e with
  | FLit z => Some z
  | FVar x => Some (val s (x, []))
  | FIdx a ix => match fevals s ix with Some vs => Some (val s (a, vs)) | None => None end
  | FUn o e1 => option_map (eval_un o) (feval s e1)
  | FBin o l r => match feval s l, feval s r with Some a, Some b => eval_bin o a b | _, _ => None end
  | FIntr f args =>
      let ovs := if is_inquiry f then match args with ENil => None | ECons _ r => fevals s r end else fevals s args in
      match ovs with Some vs => eval_intr s f (inq_args args) vs | None => None end
  | FRef p => match fpevals s p with Some vs => Some (val s (enc (psig p), vs)) | None => None end
  end
with fevals (s : store) (es : fexprs) : option (list Z) :=
  match es with
  | ENil => Some []
  | ECons e r => match feval s e, fevals s r with Some v, Some vs => Some (v :: vs) | _, _ => None end
  end
with fpevals (s : store) (p : fpath) : option (list Z) :=
  match p with
  | PNil => Some []
  | PCons _ ix r => match fevals s ix, fpevals s r with Some v1, Some v2 => Some (v1 ++ v2) | _, _ => None end
  end.

Fixpoint fereads (s : store) (e : fexpr) : list loc :=
  match e with
  | FLit _ => []
  | FVar x => [(x, [])]
  | FIdx a ix => fereadss s ix ++ match fevals s ix with Some vs => [(a, vs)] | None => [] end
  | FUn _ e1 => fereads s e1
  | FBin _ l r => fereads s l ++ fereads s r
  | FIntr f args => if is_inquiry f then match args with ENil => [] | ECons _ r => fereadss s r end else fereadss s args
  | FRef p => fpreads s p ++ match fpevals s p with Some vs => [(enc (psig p), vs)] | None => [] end
  end
with fereadss (s : store) (es : fexprs) : list loc :=
  match es with ENil => [] | ECons e r => fereads s e ++ fereadss s r end
with fpreads (s : store) (p : fpath) : list loc :=
  match p with PNil => [] | PCons _ ix r => fereadss s ix ++ fpreads s r end.

Definition ftarget_evals (s : store) (t : ftarget) : option (list Z) :=
  match t with FTVar _ ix => fevals s ix | FTRef p => fpevals s p end.
Definition ftarget_dreads (s : store) (t : ftarget) : list loc :=
  match t with FTVar _ ix => fereadss s ix | FTRef p => fpreads s p end.

Definition farg_pre (s : store) (a : fexpr) : list loc :=
  match a with FVar _ => [] | FIdx _ ix => fereadss s ix | FRef p => fpreads s p | _ => fereads s a end.
Definition farg_loc (s : store) (a : fexpr) : option (option loc) :=
  match a with
  | FVar x => Some (Some (x, []))
  | FIdx a0 ix => match fevals s ix with Some vs => Some (Some (a0, vs)) | None => None end
  | FRef p => match fpevals s p with Some vs => Some (Some (enc (psig p), vs)) | None => None end
  | _ => match feval s a with Some _ => Some None | None => None end
  end.
Fixpoint fargs_pre (s : store) (es : fexprs) : list loc :=
  match es with ENil => [] | ECons e r => farg_pre s e ++ fargs_pre s r end.

Fixpoint fcallee (s : store) (its : list intent) (args : fexprs) : option (list loc * list loc) :=
  match its, args with
  | [], ENil => Some ([], [])
  | i :: its', ECons e args' =>
      match farg_loc s e, fcallee s its' args' with
      | Some (Some l), Some (R, W) =>
          Some ((if reads_of_intent i then [l] else []) ++ R, (if writes_of_intent i then [l] else []) ++ W)
      | Some None, Some (R, W) => if writes_of_intent i then None else Some (R, W)
      | _, _ => None
      end
  | _, _ => None
  end.

Variable outs : nat -> Z.

Fixpoint fexec (fuel : nat) (b : fblock) (s : store) : outcome :=
  match fuel with
  | O => OutOfFuel
  | S f =>
    match b with
    | BNil => Ok s [] CNormal
    | BCons st rest =>
      let r1 :=
        match st with
        | FAssign t e =>
            match ftarget_evals s t, feval s e with
            | Some vs, Some v =>
                Ok (upd s (ftarget_sig t, vs) v) (rds (fereads s e ++ ftarget_dreads s t) ++ [Wr (ftarget_sig t, vs)]) CNormal
            | _, _ => Fault
            end
        | FIf c th el =>
            match feval s c with
            | Some v => prepend (rds (fereads s c)) (fexec f (if (v =? 0)%Z then el else th) s)
            | None => Fault
            end
        | FDo x lo hi st body =>
            match feval s lo, feval s hi, feval s st with
            | Some l, Some h, Some t =>
                if (t =? 0)%Z then Fault
                else prepend (rds (fereads s lo ++ fereads s hi ++ fereads s st))
                             (do_loop (fexec f body) x l t (trip_count l h t) 0 s)
            | _, _, _ => Fault
            end
        | FCall _ its args =>
            match fcallee s its args with
            | Some (R, W) => Ok (store_outs s W outs 0) (rds (fargs_pre s args) ++ rds R ++ wrs W) CNormal
            | None => Fault
            end
        end in
      match r1 with
      | Ok s1 tr1 CNormal => prepend tr1 (fexec f rest s1)
      | Ok s1 tr1 c => Ok s1 tr1 c
      | Fault => Fault
      | OutOfFuel => OutOfFuel
      end
    end
  end.

(* a pure call with an intent(out/inout) dummy is the remaining (open) gap *)
Fixpoint fsafe (s : fstmt) : bool :=
  match s with
  | FAssign _ _ => true
  | FIf _ th el => fsafe_block th && fsafe_block el
  | FDo _ _ _ _ body => fsafe_block body
  | FCall (CUser true) its _ => forallb (fun i => negb (writes_of_intent i)) its
  | FCall _ _ _ => true
  end
with fsafe_block (b : fblock) : bool := match b with BNil => true | BCons s r => fsafe s && fsafe_block r end.

(* ------------------------------------------------------------------ expressions: dynamic reads are reported *)
(* an inquiry intrinsic skips its first argument: the list invariant also speaks about the tail *)
Fixpoint etail (es : fexprs) : fexprs := match es with ENil => ENil | ECons _ r => r end.

Lemma fereads_sub_all s :
  (forall e l, In l (fereads s e) -> In (fst l) (fexpr_reads e)) /\
  (forall es, (forall l, In l (fereadss s es) -> In (fst l) (fexprs_reads es)) /\
              (forall l, In l (fereadss s (etail es)) -> In (fst l) (fexprs_reads (etail es)))) /\
  (forall p l, In l (fpreads s p) -> In (fst l) (fpath_reads p)).
Proof.
  apply fexpr_all_ind; cbn [fereads fereadss fpreads fexpr_reads fexprs_reads fpath_reads etail].
  - intros z l [].
  - intros x l [<-|[]]. left. reflexivity.
  - intros a ix [IH _] l Hl. apply in_app_iff in Hl as [Hl|Hl]; apply in_app_iff; [left; auto|right].
    destruct (fevals s ix); [|destruct Hl]. destruct Hl as [<-|[]]. left. reflexivity.
  - intros o e IH l Hl. auto.
  - intros o l0 IH1 r IH2 l Hl. apply in_app_iff in Hl as [Hl|Hl]; apply in_app_iff; auto.
  - intros f args [IH IHt] l Hl. destruct (is_inquiry f); [|auto].
    destruct args as [|e0 r]; [destruct Hl|]. cbn [etail] in IHt. auto.
  - intros p IH l Hl. apply in_app_iff in Hl as [Hl|Hl]; apply in_app_iff; [left; auto|right].
    destruct (fpevals s p); [|destruct Hl]. destruct Hl as [<-|[]]. left. reflexivity.
  - split; intros l [].
  - intros e IHe r [IHr _]. split; [|exact IHr].
    intros l Hl. apply in_app_iff in Hl as [Hl|Hl]; apply in_app_iff; auto.
  - intros l [].
  - intros c ix [IHi _] r IHr l Hl. apply in_app_iff in Hl as [Hl|Hl]; apply in_app_iff; auto.
Qed.

Lemma fereads_sub s e l : In l (fereads s e) -> In (fst l) (fexpr_reads e).
Proof. apply (proj1 (fereads_sub_all s)). Qed.
Lemma fereadss_sub s es l : In l (fereadss s es) -> In (fst l) (fexprs_reads es).
Proof. apply (proj1 (proj1 (proj2 (fereads_sub_all s)) es)). Qed.
Lemma fpreads_sub s p l : In l (fpreads s p) -> In (fst l) (fpath_reads p).
Proof. apply (proj2 (proj2 (fereads_sub_all s))). Qed.

Lemma ftarget_sub s t l : In l (ftarget_dreads s t) -> In (fst l) (ftarget_reads t).
Proof. destruct t; cbn; [apply fereadss_sub | apply fpreads_sub]. Qed.

(* ------------------------------------------------------------------ calls *)
Lemma farg_pre_read s loc k a l : In l (farg_pre s a) -> is_read (fst l) (fcall_arg loc k a) = true.
Proof.
  intro H.
  assert (Hcons : forall x rest, In (fst l) rest -> is_read (fst l) (mkAcc x k loc :: reads_at loc rest) = true).
  { intros x rest Hr. change (mkAcc x k loc :: reads_at loc rest) with ([mkAcc x k loc] ++ reads_at loc rest).
    rewrite is_read_app. apply orb_true_iff. right. apply is_read_reads_at, Hr. }
  destruct a; cbn [farg_pre fcall_arg] in *;
    try (apply is_read_reads_at; eapply fereads_sub; exact H).
  - destruct H.
  - apply Hcons. eapply fereadss_sub, H.
  - apply Hcons. eapply fpreads_sub, H.
Qed.

Lemma farg_head s loc k a l : farg_loc s a = Some (Some l) -> exists rest, fcall_arg loc k a = mkAcc (fst l) k loc :: rest.
Proof.
  destruct a; cbn [farg_loc fcall_arg]; intro H;
    try (match type of H with match ?X with _ => _ end = _ => destruct X end; try discriminate; inversion H; subst; eexists; reflexivity).
  inversion H; subst. eexists. reflexivity.
Qed.

Lemma fcall_covers s loc k : forall its args R W,
  kind_reads k = true ->
  (kind_writes k = true \/ forallb (fun i => negb (writes_of_intent i)) its = true) ->
  fcallee s its args = Some (R, W) ->
  bcovers (rds (fargs_pre s args) ++ rds R ++ wrs W) (fcall_args loc k args).
Proof.
  intros its args R W Hk Hw H.
  assert (G : (forall l, In l (fargs_pre s args) -> is_read (fst l) (fcall_args loc k args) = true) /\
              (forall l, In l R -> is_read (fst l) (fcall_args loc k args) = true) /\
              (forall l, In l W -> is_written (fst l) (fcall_args loc k args) = true)).
  { revert args R W H Hw. induction its as [|i its IH]; intros [|e args] R W H Hw; cbn [fcallee] in H; try discriminate.
    - inversion H; subst. repeat split; intros l [].
    - assert (Hw' : kind_writes k = true \/ forallb (fun i => negb (writes_of_intent i)) its = true).
      { destruct Hw as [Hw|Hw]; [left; exact Hw|]. cbn [forallb] in Hw. apply andb_true_iff in Hw as [_ Hw]. right. exact Hw. }
      destruct (farg_loc s e) as [[l0|]|] eqn:El; try discriminate;
        destruct (fcallee s its args) as [[R' W']|] eqn:Ec; try discriminate.
      + inversion H; subst. clear H.
        destruct (IH args R' W' Ec Hw') as [G1 [G2 G3]].
        destruct (farg_head s loc k e l0 El) as [rest Hh].
        cbn [fcall_args fargs_pre]. repeat split; intros l Hl.
        * apply in_app_iff in Hl as [Hl|Hl]; rewrite is_read_app; apply orb_true_iff;
            [left; apply (farg_pre_read s), Hl | right; apply G1, Hl].
        * apply in_app_iff in Hl as [Hl|Hl]; rewrite is_read_app; apply orb_true_iff.
          -- left. destruct (reads_of_intent i); [|destruct Hl]. destruct Hl as [<-|[]]. rewrite Hh. apply is_read_head, Hk.
          -- right. apply G2, Hl.
        * apply in_app_iff in Hl as [Hl|Hl]; rewrite is_written_app; apply orb_true_iff.
          -- left. destruct (writes_of_intent i) eqn:Ei; [|destruct Hl]. destruct Hl as [<-|[]]. rewrite Hh.
             apply is_written_head. destruct Hw as [Hw|Hw]; [exact Hw|].
             cbn [forallb] in Hw. rewrite Ei in Hw. discriminate.
          -- right. apply G3, Hl.
      + destruct (writes_of_intent i) eqn:Ei; [discriminate|]. inversion H; subst. clear H.
        destruct (IH args R W Ec Hw') as [G1 [G2 G3]].
        cbn [fcall_args fargs_pre]. repeat split; intros l Hl.
        * apply in_app_iff in Hl as [Hl|Hl]; rewrite is_read_app; apply orb_true_iff;
            [left; apply (farg_pre_read s), Hl | right; apply G1, Hl].
        * rewrite is_read_app. apply orb_true_iff. right. apply G2, Hl.
        * rewrite is_written_app. apply orb_true_iff. right. apply G3, Hl. }
  destruct G as [G1 [G2 G3]]. split; intros l Hl.
  - rewrite !reads_app', !reads_rds', reads_wrs, app_nil_r in Hl. apply in_app_iff in Hl as [Hl|Hl]; auto.
  - rewrite !writes_app', !writes_rds', writes_wrs in Hl. cbn [app] in Hl. auto.
Qed.

(* ------------------------------------------------------------------ statements *)
Lemma fwr x vs loc : bcovers [Wr (x, vs)] [mkAcc x WRITE loc].
Proof. split; intros l Hl; cbn in Hl; [destruct Hl|]. destruct Hl as [<-|[]]. apply is_written_head. reflexivity. Qed.

Lemma do_loop_bcovers (run : store -> outcome) A x loc :
  (forall s s' tr c, run s = Ok s' tr c -> bcovers tr A) ->
  forall l t n k s s' tr c, do_loop run x l t n k s = Ok s' tr c -> bcovers tr (mkAcc x WRITE loc :: A).
Proof.
  intros Hrun l t. induction n as [|n IH]; intros k s s' tr c H; cbn [do_loop] in H.
  - inversion H; subst. change (mkAcc x WRITE loc :: A) with ([mkAcc x WRITE loc] ++ A). apply bcovers_l, fwr.
  - destruct (run (upd s (x, []) (l + k * t)%Z)) as [s2 tr2 c2| |] eqn:E; try discriminate. apply Hrun in E.
    assert (Hh : bcovers (Wr (x, []) :: tr2) (mkAcc x WRITE loc :: A)).
    { change (bcovers ([Wr (x, [])] ++ tr2) ([mkAcc x WRITE loc] ++ A)). apply bcovers_app; [apply fwr | exact E]. }
    destruct c2.
    + apply prepend_ok in H as [tr' [H ->]]. apply bcovers_app_same; [exact Hh | eapply IH, H].
    + inversion H; subst. exact Hh.
    + apply prepend_ok in H as [tr' [H ->]]. apply bcovers_app_same; [exact Hh | eapply IH, H].
    + inversion H; subst. exact Hh.
Qed.

Lemma rds_app2 l1 l2 : rds (l1 ++ l2) = rds l1 ++ rds l2.
Proof. unfold rds. apply map_app. Qed.

Theorem fexec_covers_ : forall fuel bump b loc s s' tr c,
  fsafe_block b = true -> fexec fuel b s = Ok s' tr c -> bcovers tr (fst (facc_block bump b loc)).
Proof.
  induction fuel as [|f IH]; intros bump b loc s s' tr c Hs H; [discriminate|].
  destruct b as [|st rest]; [inversion H; subst; apply bcovers_nil|].
  cbn [fsafe_block] in Hs. apply andb_true_iff in Hs as [Hst Hrest].
  cbn [fexec] in H. cbn [facc_block].
  (* the statement itself *)
  assert (Hstep : forall s1 tr1 c1,
            match st with
            | FAssign t e =>
                match ftarget_evals s t, feval s e with
                | Some vs, Some v =>
                    Ok (upd s (ftarget_sig t, vs) v) (rds (fereads s e ++ ftarget_dreads s t) ++ [Wr (ftarget_sig t, vs)]) CNormal
                | _, _ => Fault
                end
            | FIf c0 th el =>
                match feval s c0 with
                | Some v => prepend (rds (fereads s c0)) (fexec f (if (v =? 0)%Z then el else th) s)
                | None => Fault
                end
            | FDo x lo hi st0 body =>
                match feval s lo, feval s hi, feval s st0 with
                | Some l, Some h, Some t =>
                    if (t =? 0)%Z then Fault
                    else prepend (rds (fereads s lo ++ fereads s hi ++ fereads s st0))
                                 (do_loop (fexec f body) x l t (trip_count l h t) 0 s)
                | _, _, _ => Fault
                end
            | FCall _ its args =>
                match fcallee s its args with
                | Some (R, W) => Ok (store_outs s W outs 0) (rds (fargs_pre s args) ++ rds R ++ wrs W) CNormal
                | None => Fault
                end
            end = Ok s1 tr1 c1 -> bcovers tr1 (fst (facc_stmt st loc))).
  { intros s1 tr1 c1 E. destruct st as [t e|c0 th el|x lo hi st0 body|k its args]; cbn [facc_stmt fsafe] in *.
    - destruct (ftarget_evals s t) as [vs|]; [|discriminate]. destruct (feval s e) as [v|]; [|discriminate].
      inversion E; subst. cbn [fst]. rewrite rds_app2, <- !app_assoc.
      apply bcovers_app; [apply bcovers_rds; intros l; apply fereads_sub|].
      apply bcovers_app; [apply bcovers_rds; intros l; apply ftarget_sub | apply fwr].
    - apply andb_true_iff in Hst as [N1 N2].
      destruct (feval s c0) as [v|]; [|discriminate]. apply prepend_ok in E as [tr' [E ->]].
      pose proof (fun b0 N l0 => IH false b0 l0 s s1 tr' c1 N) as IHb.
      pose proof (IHb th N1 (S loc)) as Ht.
      destruct (facc_block false th (S loc)) as [a1 l1]. cbn [fst] in Ht.
      destruct el as [|e0 el'].
      + cbn [fst]. apply bcovers_app; [apply bcovers_rds; intros l; apply fereads_sub|].
        destruct (v =? 0)%Z; [|apply Ht, E]. destruct f; [discriminate|]. cbn in E. inversion E; subst. apply bcovers_nil.
      + pose proof (IHb (BCons e0 el') N2 (S l1)) as He.
        destruct (facc_block false (BCons e0 el') (S l1)) as [a2 l2]. cbn [fst] in *.
        apply bcovers_app; [apply bcovers_rds; intros l; apply fereads_sub|].
        destruct (v =? 0)%Z; [apply bcovers_r, He, E | apply bcovers_l, Ht, E].
    - destruct (feval s lo) as [l|]; [|discriminate]. destruct (feval s hi) as [h|]; [|discriminate].
      destruct (feval s st0) as [t|]; [|discriminate]. destruct (t =? 0)%Z; [discriminate|].
      apply prepend_ok in E as [tr' [E ->]].
      pose proof (fun s0 s0' t0 c0 => IH true body (S loc) s0 s0' t0 c0 Hst) as Hb.
      destruct (facc_block true body (S loc)) as [a1 l1]. cbn [fst] in *.
      apply (do_loop_bcovers (fexec f body) a1 x loc Hb) in E.
      change (mkAcc x WRITE loc :: mkAcc x READ loc :: reads_at loc (fexpr_reads lo ++ fexpr_reads hi ++ fexpr_reads st0) ++ a1)
        with ([mkAcc x WRITE loc; mkAcc x READ loc] ++ reads_at loc (fexpr_reads lo ++ fexpr_reads hi ++ fexpr_reads st0) ++ a1).
      apply bcovers_app_same.
      + apply bcovers_r, bcovers_l, bcovers_rds. intros l0 Hl.
        apply in_app_iff in Hl as [Hl|Hl]; [|apply in_app_iff in Hl as [Hl|Hl]]; apply fereads_sub in Hl; rewrite !in_app_iff; auto.
      + destruct E as [ER EW]. split; intros l0 Hl.
        * apply ER in Hl. change (mkAcc x WRITE loc :: a1) with ([mkAcc x WRITE loc] ++ a1) in Hl.
          rewrite is_read_app in Hl. rewrite !is_read_app. apply orb_true_iff in Hl as [Hl|Hl].
          -- cbn in Hl. rewrite andb_false_r in Hl. discriminate.
          -- apply orb_true_iff. right. apply orb_true_iff. right. exact Hl.
        * apply EW in Hl. change (mkAcc x WRITE loc :: a1) with ([mkAcc x WRITE loc] ++ a1) in Hl.
          rewrite is_written_app in Hl. rewrite !is_written_app. apply orb_true_iff in Hl as [Hl|Hl].
          -- apply orb_true_iff. left. cbn [is_written existsb a_sig a_kind kind_writes] in *.
             apply orb_true_iff in Hl as [Hl|Hl]; [|discriminate]. rewrite Hl. reflexivity.
          -- apply orb_true_iff. right. apply orb_true_iff. right. exact Hl.
    - destruct (fcallee s its args) as [[R W]|] eqn:Ec; [|discriminate]. inversion E; subst. cbn [fst].
      destruct k as [[|]|]; cbn [fdefault].
      + eapply fcall_covers; [reflexivity | right; exact Hst | exact Ec].
      + eapply fcall_covers; [reflexivity | left; reflexivity | exact Ec].
      + eapply fcall_covers; [reflexivity | left; reflexivity | exact Ec]. }
  match type of H with (match ?R with _ => _ end) = _ => destruct R as [s1 tr1 c1| |] eqn:E end; try discriminate.
  specialize (Hstep s1 tr1 c1 eq_refl).
  destruct (facc_stmt st loc) as [a1 l1].
  pose proof (IH bump rest (if bump then S l1 else l1)) as IHr.
  destruct (facc_block bump rest (if bump then S l1 else l1)) as [a2 l2]. cbn [fst] in *.
  destruct c1.
  - apply prepend_ok in H as [tr' [H ->]]. apply bcovers_app; [exact Hstep | eapply IHr; eassumption].
  - inversion H; subst. apply bcovers_l, Hstep.
  - inversion H; subst. apply bcovers_l, Hstep.
  - inversion H; subst. apply bcovers_l, Hstep.
Qed.

(* ------------------------------------------------------------------ subscripts reported; order *)
(* every subscript variable of every component of a structure access occurring ANYWHERE in an expression is READ *)
Theorem fref_subscripts_reported_ : forall p x,
  In x (fpath_reads p) ->
  (forall e loc, In x (fexpr_reads e) -> is_read x (reads_at loc (fexpr_reads e)) = true) /\
  In x (fexpr_reads (FRef p)) /\
  (forall a ix0 o e2 f, In x (fexpr_reads (FIdx a (ECons (FRef p) ix0))) /\
                        In x (fexpr_reads (FBin o (FRef p) e2)) /\
                        (is_inquiry f = false -> In x (fexpr_reads (FIntr f (ECons e2 (ECons (FRef p) ENil))))) /\
                        In x (fexpr_reads (FRef (PCons a (ECons (FRef p) ENil) PNil)))) /\
  (forall t loc, is_read x (fst (facc_stmt (FAssign (FTRef p) t) loc)) = true) /\
  (forall k its loc, is_read x (fst (facc_stmt (FCall k its (ECons (FRef p) ENil)) loc)) = true).
Proof.
  intros p x Hx. split; [intros e loc He; apply is_read_reads_at, He|].
  assert (Hr : In x (fexpr_reads (FRef p))) by (cbn [fexpr_reads]; apply in_app_iff; left; exact Hx).
  split; [exact Hr|]. split; [|split].
  - intros a ix0 o e2 f. cbn [fexpr_reads fexprs_reads fpath_reads] in *. repeat split.
    + apply in_app_iff. left. apply in_app_iff. left. exact Hr.
    + apply in_app_iff. left. exact Hr.
    + intro Hf. rewrite Hf. cbn [fexprs_reads]. apply in_app_iff. right. apply in_app_iff. left. exact Hr.
    + apply in_app_iff. left. apply in_app_iff. left. apply in_app_iff. left. exact Hr.
  - intros t loc. cbn [facc_stmt fst ftarget_reads]. rewrite !is_read_app. apply orb_true_iff. right.
    apply orb_true_iff. left. apply is_read_reads_at, Hx.
  - intros k its loc. cbn [facc_stmt fst fcall_args fcall_arg]. rewrite app_nil_r.
    change (mkAcc (enc (psig p)) (fdefault k) loc :: reads_at loc (fpath_reads p))
      with ([mkAcc (enc (psig p)) (fdefault k) loc] ++ reads_at loc (fpath_reads p)).
    rewrite is_read_app. apply orb_true_iff. right. apply is_read_reads_at, Hx.
Qed.

(* order: the reads of the subscripts of all components precede the access of the signature — statically in the
   report of an expression / assignment target, and dynamically in the trace *)
Theorem fstruct_order_ : forall p,
  fexpr_reads (FRef p) = fpath_reads p ++ [enc (psig p)] /\
  (forall e loc, exists pre,
      fst (facc_stmt (FAssign (FTRef p) e) loc) = pre ++ reads_at loc (fpath_reads p) ++ [mkAcc (enc (psig p)) WRITE loc]) /\
  (forall s vs, fpevals s p = Some vs -> fereads s (FRef p) = fpreads s p ++ [(enc (psig p), vs)]) /\
  (forall s l, In l (fpreads s p) -> In (fst l) (fpath_reads p)).
Proof.
  intro p. split; [reflexivity|]. split; [|split].
  - intros e loc. exists (reads_at loc (fexpr_reads e)). reflexivity.
  - intros s vs E. cbn [fereads]. rewrite E. reflexivity.
  - intros s l. apply fpreads_sub.
Qed.

End Enc.

(* ------------------------------------------------------------------ harness support, non-vacuity *)
Fixpoint names_eqb2 (a b : list name) : bool :=
  match a, b with [], [] => true | x :: a', y :: b' => Nat.eqb x y && names_eqb2 a' b' | _, _ => false end.
Definition enc_tbl2 (tbl : list (list name * name)) (p : list name) : name :=
  match find (fun q => names_eqb2 (fst q) p) tbl with Some q => snd q | None => 0 end.
Definition fobs_agrees (tbl : list (list name * name)) (x : fstmt) (o : obs) (final : nat) : bool :=
  obs_agrees (fst (facc_stmt (enc_tbl2 tbl) x 0)) o && Nat.eqb (snd (facc_stmt (enc_tbl2 tbl) x 0)) final.

(* do i = 1, g(k)%n ; a(s%idx(i)) = max(t(i)%v(j), 0) ; end do
   names: i=0 k=1 j=2 a=3; components g=10 n=11 s=12 idx=13 t=14 v=15; signatures g%n=20 s%idx=21 t%v=22 *)
Definition fx_tbl : list (list name * name) := [([10; 11], 20); ([12; 13], 21); ([14; 15], 22)].
Definition fx_prog : fblock :=
  BCons (FDo 0 (FLit 1) (FRef (PCons 10 (ECons (FVar 1) ENil) (PCons 11 ENil PNil))) (FLit 1)
           (BCons (FAssign (FTVar 3 (ECons (FRef (PCons 12 ENil (PCons 13 (ECons (FVar 0) ENil) PNil))) ENil))
                           (FIntr IMax (ECons (FRef (PCons 14 (ECons (FVar 0) ENil) (PCons 15 (ECons (FVar 2) ENil) PNil)))
                                              (ECons (FLit 0) ENil))))
                  BNil))
        BNil.
Definition fx_store : store :=
  store_of [((1, []), 2%Z); ((2, []), 5%Z); ((20, [2%Z]), 2%Z); ((21, [1%Z]), 4%Z); ((21, [2%Z]), 6%Z);
            ((22, [1; 5]%Z), (-3)%Z); ((22, [2; 5]%Z), 9%Z)] [].

Example fstruct_nonvacuous :
  fsafe_block fx_prog = true /\
  match fexec (enc_tbl2 fx_tbl) (fun _ => 0%Z) 10 fx_prog fx_store with
  | Ok s' tr c =>
      val s' (3, [4%Z]) = 0%Z /\ val s' (3, [6%Z]) = 9%Z /\ c = CNormal /\
      reads tr = [(1, []); (20, [2%Z]);
                  (0, []); (2, []); (22, [1; 5]%Z); (0, []); (21, [1%Z]);
                  (0, []); (2, []); (22, [2; 5]%Z); (0, []); (21, [2%Z])] /\
      writes tr = [(0, []); (3, [4%Z]); (0, []); (3, [6%Z]); (0, [])]
  | _ => False
  end /\
  map (fun a => (a_sig a, a_kind a, a_loc a)) (fst (facc_block (enc_tbl2 fx_tbl) false fx_prog 0)) =
    [(0, WRITE, 0); (0, READ, 0); (1, READ, 0); (20, READ, 0);
     (0, READ, 1); (2, READ, 1); (22, READ, 1); (0, READ, 1); (21, READ, 1); (3, WRITE, 1)].
Proof. vm_compute. repeat split. Qed.
