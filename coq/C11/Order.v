(* C11 — the location counter orders the report: along the access list of any statement/block the
   locations never decrease, every access of a statement lies between the counter before and after it,
   hence every access of a later statement of a block has a location >= every access of an earlier one
   (what `is_written_before`-style clients rely on). *)
From Coq Require Import List ZArith Bool Lia.
Import ListNotations.
From PV Require Import Fort.Syntax Fort.Sem C11.Access C11.Proofs.
Local Open Scope nat_scope.

Definition between (lo hi : nat) (l : list access) : Prop :=
  Forall (fun a => lo <= a_loc a /\ a_loc a <= hi) l.

Fixpoint mono (l : list access) : Prop :=
  match l with
  | [] => True
  | a :: r => Forall (fun b => a_loc a <= a_loc b) r /\ mono r
  end.

Definition good (loc : nat) (r : list access * nat) : Prop :=
  loc <= snd r /\ between loc (snd r) (fst r) /\ mono (fst r).

Lemma between_weaken lo hi lo' hi' A : lo' <= lo -> hi <= hi' -> between lo hi A -> between lo' hi' A.
Proof. intros H1 H2 H. eapply Forall_impl; [|exact H]. cbn. intros a [Ha Hb]. lia. Qed.

Lemma between_app lo hi A B : between lo hi A -> between lo hi B -> between lo hi (A ++ B).
Proof. intros HA HB. apply Forall_app. split; assumption. Qed.

Lemma mono_app lo mid hi A B :
  mono A -> mono B -> between lo mid A -> between mid hi B -> mono (A ++ B).
Proof.
  intros HA HB BA BB. induction A as [|a A IH]; [exact HB|].
  cbn [app mono] in *. destruct HA as [Ha HA]. inversion BA as [|? ? [_ Ham] BA']; subst.
  split; [|apply IH; assumption].
  apply Forall_app. split; [exact Ha|]. eapply Forall_impl; [|exact BB]. cbn. intros b [Hb _]. lia.
Qed.

Lemma between_reads_at loc xs : between loc loc (reads_at loc xs).
Proof. unfold reads_at. apply Forall_forall. intros a Ha. apply in_map_iff in Ha as [x [<- _]]. cbn. lia. Qed.

Lemma mono_same loc A : between loc loc A -> mono A.
Proof.
  induction A as [|a A IH]; intro H; [exact I|]. inversion H as [|? ? [Ha1 Ha2] H']; subst.
  split; [|apply IH, H']. eapply Forall_impl; [|exact H']. cbn. intros b [Hb _]. lia.
Qed.

Lemma good_block ss :
  Forall (fun s => forall loc, good loc (acc_stmt s loc)) ss -> forall loc, good loc (acc_block ss loc).
Proof.
  induction 1 as [|s r Hs _ IH]; intro loc.
  - cbn. unfold good. cbn. repeat split; [lia | constructor].
  - cbn [acc_block]. specialize (Hs loc). destruct (acc_stmt s loc) as [a1 l1].
    specialize (IH l1). destruct (acc_block r l1) as [a2 l2]. unfold good in *. cbn [fst snd] in *.
    destruct Hs as [H1 [B1 M1]]. destruct IH as [H2 [B2 M2]]. split; [lia|]. split.
    + apply between_app; [eapply between_weaken; [| |exact B1] | eapply between_weaken; [| |exact B2]]; lia.
    + eapply mono_app; eassumption.
Qed.

Lemma good_loop_body ss :
  Forall (fun s => forall loc, good loc (acc_stmt s loc)) ss -> forall loc, good loc (acc_loop_body ss loc).
Proof.
  induction 1 as [|s r Hs _ IH]; intro loc.
  - cbn. unfold good. cbn. repeat split; [lia | constructor].
  - cbn [acc_loop_body]. specialize (Hs loc). destruct (acc_stmt s loc) as [a1 l1].
    specialize (IH (S l1)). destruct (acc_loop_body r (S l1)) as [a2 l2]. unfold good in *. cbn [fst snd] in *.
    destruct Hs as [H1 [B1 M1]]. destruct IH as [H2 [B2 M2]]. split; [lia|]. split.
    + apply between_app; [eapply between_weaken; [| |exact B1] | eapply between_weaken; [| |exact B2]]; lia.
    + eapply (mono_app loc l1 l2); [assumption | assumption | assumption |].
      eapply between_weaken; [| |exact B2]; lia.
Qed.

Lemma good_stmt s : forall loc, good loc (acc_stmt s loc).
Proof.
  induction s using stmt_ind'; intro loc.
  - (* assignment: everything at loc, counter S loc *)
    cbn [acc_stmt]. unfold good. cbn [fst snd].
    assert (B : between loc loc (reads_at loc (expr_reads e) ++ reads_at loc (flat_map expr_reads ix) ++ [mkAcc x WRITE loc])).
    { apply between_app; [apply between_reads_at|]. apply between_app; [apply between_reads_at|].
      constructor; [cbn; lia | constructor]. }
    split; [lia|]. split; [eapply between_weaken; [| |exact B]; lia | eapply mono_same, B].
  - (* if *)
    rewrite acc_stmt_if. pose proof (good_block th H (S loc)) as Gt.
    destruct (acc_block th (S loc)) as [a1 l1]. unfold good in Gt. cbn [fst snd] in Gt. destruct Gt as [H1 [B1 M1]].
    destruct el as [|e0 el'].
    + unfold good. cbn [fst snd]. split; [lia|]. split.
      * apply between_app; [eapply between_weaken; [| |apply between_reads_at]; lia | eapply between_weaken; [| |exact B1]; lia].
      * eapply (mono_app loc loc l1); [eapply mono_same, between_reads_at | exact M1 | apply between_reads_at |].
        eapply between_weaken; [| |exact B1]; lia.
    + pose proof (good_block (e0 :: el') H0 (S l1)) as Ge.
      destruct (acc_block (e0 :: el') (S l1)) as [a2 l2]. unfold good in *. cbn [fst snd] in *.
      destruct Ge as [H2 [B2 M2]]. split; [lia|]. split.
      * apply between_app; [eapply between_weaken; [| |apply between_reads_at]; lia|].
        apply between_app; [eapply between_weaken; [| |exact B1] | eapply between_weaken; [| |exact B2]]; lia.
      * eapply (mono_app loc loc l2); [eapply mono_same, between_reads_at | | apply between_reads_at |].
        -- eapply (mono_app (S loc) l1 l2); [exact M1 | exact M2 | exact B1 | eapply between_weaken; [| |exact B2]; lia].
        -- apply between_app; [eapply between_weaken; [| |exact B1] | eapply between_weaken; [| |exact B2]]; lia.
  - (* do *)
    rewrite acc_stmt_do. pose proof (good_loop_body body H (S loc)) as Gb.
    destruct (acc_loop_body body (S loc)) as [a1 l1]. unfold good in *. cbn [fst snd] in *. destruct Gb as [H1 [B1 M1]].
    assert (Bh : between loc loc (mkAcc x WRITE loc :: mkAcc x READ loc ::
                                  reads_at loc (expr_reads lo ++ expr_reads hi ++ expr_reads st))).
    { constructor; [cbn; lia|]. constructor; [cbn; lia|]. apply between_reads_at. }
    change (mkAcc x WRITE loc :: mkAcc x READ loc :: reads_at loc (expr_reads lo ++ expr_reads hi ++ expr_reads st) ++ a1)
      with ((mkAcc x WRITE loc :: mkAcc x READ loc :: reads_at loc (expr_reads lo ++ expr_reads hi ++ expr_reads st)) ++ a1).
    split; [lia|]. split.
    + apply between_app; [eapply between_weaken; [| |exact Bh] | eapply between_weaken; [| |exact B1]]; lia.
    + eapply (mono_app loc loc l1); [eapply mono_same, Bh | exact M1 | exact Bh | eapply between_weaken; [| |exact B1]; lia].
  - cbn. unfold good. cbn. repeat split; [lia | constructor].
  - cbn. unfold good. cbn. repeat split; [lia | constructor].
  - cbn. unfold good. cbn. repeat split; [lia | constructor].
  - cbn. unfold good. cbn. repeat split; [lia | constructor].
  - rewrite acc_stmt_region. apply good_block, H.
  - rewrite acc_stmt_dir. apply good_block, H.
Qed.

Theorem locations_monotone_ : forall ss loc,
  loc <= snd (acc_block ss loc) /\ between loc (snd (acc_block ss loc)) (fst (acc_block ss loc)) /\
  mono (fst (acc_block ss loc)).
Proof. intros ss loc. apply good_block. apply Forall_forall. intros s _. apply good_stmt. Qed.

(* sequencing: in `s1; rest` every access of the rest has a location >= every access of s1, and the
   accesses of s1 come first in the list *)
Theorem later_statement_later_location_ : forall s1 rest loc a b,
  In a (fst (acc_stmt s1 loc)) -> In b (fst (acc_block rest (snd (acc_stmt s1 loc)))) ->
  a_loc a <= a_loc b /\
  fst (acc_block (s1 :: rest) loc) = fst (acc_stmt s1 loc) ++ fst (acc_block rest (snd (acc_stmt s1 loc))).
Proof.
  intros s1 rest loc a b Ha Hb. split.
  - destruct (good_stmt s1 loc) as [_ [B1 _]].
    destruct (locations_monotone_ rest (snd (acc_stmt s1 loc))) as [_ [B2 _]].
    unfold between in *. rewrite Forall_forall in B1, B2. specialize (B1 a Ha). specialize (B2 b Hb). lia.
  - cbn [acc_block]. destruct (acc_stmt s1 loc) as [a1 l1]. cbn [fst snd]. destruct (acc_block rest l1). reflexivity.
Qed.
