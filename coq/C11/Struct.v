(* C11 — structure (derived-type) accesses: grid(ii)%cells(jj)%vals(j).

   A structure access is a component path with a subscript list per component.  Faithful to
   StructureReference/ArrayOfStructuresReference.get_signature_and_indices + Reference.reference_accesses
   (reference.py:155-179): every subscript expression of EVERY component is visited (READ) in component order, then
   the signature built from the component names is accessed; Assignment turns the target's access into WRITE;
   Call.reference_accesses (call.py:277-318) gives the signature the default access and visits the subscripts of
   every component (`for indices in indices_list`).

   The signature (list of component names) is mapped to a variable name by [enc] (any function: all theorems
   quantify over it; the harness passes a table).  The semantics flattens the access to the location
   (enc signature, all evaluated subscripts).  Subscripts are core expressions; structure accesses occur as leaves
   of unary/binary operations, as assignment targets, call arguments and IF/WHILE conditions. *)
From Coq Require Import List ZArith Bool Lia.
Import ListNotations.
From PV Require Import Fort.Syntax Fort.Sem C11.Access C11.Proofs C11.Ext.
Local Open Scope nat_scope.

Definition path := list (name * list expr).
Definition psig (p : path) : list name := map fst p.
Definition psubs (p : path) : list expr := flat_map snd p.

Inductive sexpr :=
| SCore (e : expr)
| SRef (p : path)
| SUn (o : unop) (e : sexpr)
| SBin (o : binop) (l r : sexpr).

Inductive target := TVar (x : name) (ix : list expr) | TRef (p : path).

Inductive sstmt :=
| SAsg (t : target) (e : sexpr)
| SCallS (k : cform) (its : list intent) (args : list sexpr)
| SIfS (c : sexpr) (th el : list stmt)
| SWhileS (c : sexpr) (body : list stmt).

Section Enc.
Variable enc : list name -> name.

(* ------------------------------------------------------------------ the analysis (faithful) *)
Fixpoint sexpr_reads (e : sexpr) : list name :=
  match e with
  | SCore e0 => expr_reads e0
  | SRef p => flat_map expr_reads (psubs p) ++ [enc (psig p)]
  | SUn _ e1 => sexpr_reads e1
  | SBin _ l r => sexpr_reads l ++ sexpr_reads r
  end.

Definition target_sig (t : target) : name := match t with TVar x _ => x | TRef p => enc (psig p) end.
Definition target_subs (t : target) : list expr := match t with TVar _ ix => ix | TRef p => psubs p end.

Definition scall_arg (loc : nat) (k : akind) (a : sexpr) : list access :=
  match a with
  | SCore (EVar x) => [mkAcc x k loc]
  | SCore (EIdx a0 ix) => mkAcc a0 k loc :: reads_at loc (flat_map expr_reads ix)
  | SRef p => mkAcc (enc (psig p)) k loc :: reads_at loc (flat_map expr_reads (psubs p))
  | _ => reads_at loc (sexpr_reads a)
  end.

Definition default_access (k : cform) : akind :=
  match k with CUser true => READ | _ => READWRITE end.

Definition sacc_stmt (s : sstmt) (loc : nat) : list access * nat :=
  match s with
  | SAsg t e =>
      (reads_at loc (sexpr_reads e) ++ reads_at loc (flat_map expr_reads (target_subs t)) ++ [mkAcc (target_sig t) WRITE loc], S loc)
  | SCallS k _ args => (flat_map (scall_arg loc (default_access k)) args, S loc)
  | SIfS c th el =>
      let (a1, l1) := acc_block th (S loc) in
      match el with
      | [] => (reads_at loc (sexpr_reads c) ++ a1, S l1)
      | _ => let (a2, l2) := acc_block el (S l1) in (reads_at loc (sexpr_reads c) ++ a1 ++ a2, S l2)
      end
  | SWhileS c body =>
      let (a1, l1) := acc_block body (S loc) in (reads_at loc (sexpr_reads c) ++ a1, S l1)
  end.

(* ------------------------------------------------------------------ semantics *)
Fixpoint seval (s : store) (e : sexpr) : option Z :=
  match e with
  | SCore e0 => eval s e0
  | SRef p => match opt_all (map (eval s) (psubs p)) with Some vs => Some (val s (enc (psig p), vs)) | None => None end
  | SUn o e1 => option_map (eval_un o) (seval s e1)
  | SBin o l r => match seval s l, seval s r with Some a, Some b => eval_bin o a b | _, _ => None end
  end.

Fixpoint sereads (s : store) (e : sexpr) : list loc :=
  match e with
  | SCore e0 => ereads s e0
  | SRef p => flat_map (ereads s) (psubs p) ++
              match opt_all (map (eval s) (psubs p)) with Some vs => [(enc (psig p), vs)] | None => [] end
  | SUn _ e1 => sereads s e1
  | SBin _ l r => sereads s l ++ sereads s r
  end.

(* by-reference arguments: plain variables, array elements and structure accesses *)
Definition sarg_pre (s : store) (a : sexpr) : list loc :=
  match a with
  | SCore (EVar _) => []
  | SCore (EIdx _ ix) => flat_map (ereads s) ix
  | SRef p => flat_map (ereads s) (psubs p)
  | _ => sereads s a
  end.

Definition sarg_loc (s : store) (a : sexpr) : option (option loc) :=
  match a with
  | SCore (EVar x) => Some (Some (x, []))
  | SCore (EIdx a0 ix) => match opt_all (map (eval s) ix) with Some vs => Some (Some (a0, vs)) | None => None end
  | SRef p => match opt_all (map (eval s) (psubs p)) with Some vs => Some (Some (enc (psig p), vs)) | None => None end
  | _ => match seval s a with Some _ => Some None | None => None end
  end.

Fixpoint scallee (s : store) (its : list intent) (args : list sexpr) : option (list loc * list loc) :=
  match its, args with
  | [], [] => Some ([], [])
  | i :: its', e :: args' =>
      match sarg_loc s e, scallee s its' args' with
      | Some (Some l), Some (R, W) =>
          Some ((if reads_of_intent i then [l] else []) ++ R, (if writes_of_intent i then [l] else []) ++ W)
      | Some None, Some (R, W) => if writes_of_intent i then None else Some (R, W)
      | _, _ => None
      end
  | _, _ => None
  end.

Definition sstep (fuel : nat) (outs : nat -> Z) (x : sstmt) (s : store) : outcome :=
  match x with
  | SAsg t e =>
      match opt_all (map (eval s) (target_subs t)), seval s e with
      | Some vs, Some v =>
          Ok (upd s (target_sig t, vs) v)
             (rds (sereads s e ++ flat_map (ereads s) (target_subs t)) ++ [Wr (target_sig t, vs)]) CNormal
      | _, _ => Fault
      end
  | SCallS _ its args =>
      match scallee s its args with
      | Some (R, W) => Ok (store_outs s W outs 0) (rds (flat_map (sarg_pre s) args) ++ rds R ++ wrs W) CNormal
      | None => Fault
      end
  | SIfS c th el =>
      match seval s c with
      | Some v => prepend (rds (sereads s c)) (exec fuel (if (v =? 0)%Z then el else th) s)
      | None => Fault
      end
  | SWhileS c body =>
      (fix loop (n : nat) (s : store) : outcome :=
         match n with
         | O => OutOfFuel
         | S n' =>
             match seval s c with
             | None => Fault
             | Some v =>
                 if (v =? 0)%Z then Ok s (rds (sereads s c)) CNormal
                 else match exec fuel body s with
                      | Ok s2 tr ctl =>
                          match ctl with
                          | CNormal | CCycle => prepend (rds (sereads s c) ++ tr) (loop n' s2)
                          | CExit => Ok s2 (rds (sereads s c) ++ tr) CNormal
                          | CReturn => Ok s2 (rds (sereads s c) ++ tr) CReturn
                          end
                      | other => other
                      end
             end
         end) fuel s
  end.

Definition ssafe (x : sstmt) : bool :=
  match x with
  | SAsg _ _ => true
  | SCallS (CUser true) its _ => forallb (fun i => negb (writes_of_intent i)) its
  | SCallS _ _ _ => true
  | SIfS _ th el => forallb noprint th && forallb noprint el
  | SWhileS _ body => forallb noprint body
  end.

(* ------------------------------------------------------------------ proofs *)
Lemma sereads_sub s e : forall l, In l (sereads s e) -> In (fst l) (sexpr_reads e).
Proof.
  induction e as [e0|p|o e1 IH|o l1 IH1 r1 IH2]; intros l Hl; cbn [sereads sexpr_reads] in *.
  - apply (ereads_sub s), Hl.
  - apply in_app_iff in Hl as [Hl|Hl]; apply in_app_iff.
    + left. apply (ereads_flat_sub s), Hl.
    + right. destruct (opt_all (map (eval s) (psubs p))); [|destruct Hl]. destruct Hl as [<-|[]]. left. reflexivity.
  - auto.
  - apply in_app_iff in Hl as [Hl|Hl]; apply in_app_iff; auto.
Qed.

Lemma sarg_pre_read s loc k a l : In l (sarg_pre s a) -> is_read (fst l) (scall_arg loc k a) = true.
Proof.
  intro H.
  assert (Hcons : forall x rest, In (fst l) rest -> is_read (fst l) (mkAcc x k loc :: reads_at loc rest) = true).
  { intros x rest Hr. change (mkAcc x k loc :: reads_at loc rest) with ([mkAcc x k loc] ++ reads_at loc rest).
    rewrite is_read_app. apply orb_true_iff. right. apply is_read_reads_at, Hr. }
  destruct a as [e0|p|o e1|o l1 r1]; cbn [sarg_pre scall_arg] in *.
  - destruct e0; cbn [sexpr_reads] in *; try (apply is_read_reads_at, (ereads_sub s), H).
    + destruct H.
    + apply Hcons, (ereads_flat_sub s), H.
  - apply Hcons, (ereads_flat_sub s), H.
  - apply is_read_reads_at, (sereads_sub s), H.
  - apply is_read_reads_at, (sereads_sub s (SBin o l1 r1)), H.
Qed.

Lemma sarg_head s loc k a l : sarg_loc s a = Some (Some l) ->
  exists rest, scall_arg loc k a = mkAcc (fst l) k loc :: rest.
Proof.
  destruct a as [e0|p|o e1|o l1 r1]; cbn [sarg_loc scall_arg]; intro H.
  - destruct e0; try (destruct (seval s (SCore _)); discriminate).
    + inversion H; subst. eexists. reflexivity.
    + destruct (opt_all (map (eval s) ix)); [|discriminate]. inversion H; subst. eexists. reflexivity.
  - destruct (opt_all (map (eval s) (psubs p))); [|discriminate]. inversion H; subst. eexists. reflexivity.
  - destruct (seval s (SUn o e1)); discriminate.
  - destruct (seval s (SBin o l1 r1)); discriminate.
Qed.

Lemma scall_covers s loc k : forall its args R W,
  kind_reads k = true ->
  (kind_writes k = true \/ forallb (fun i => negb (writes_of_intent i)) its = true) ->
  scallee s its args = Some (R, W) ->
  bcovers (rds (flat_map (sarg_pre s) args) ++ rds R ++ wrs W) (flat_map (scall_arg loc k) args).
Proof.
  intros its args R W Hk Hw H.
  assert (G : (forall l, In l (flat_map (sarg_pre s) args) -> is_read (fst l) (flat_map (scall_arg loc k) args) = true) /\
              (forall l, In l R -> is_read (fst l) (flat_map (scall_arg loc k) args) = true) /\
              (forall l, In l W -> is_written (fst l) (flat_map (scall_arg loc k) args) = true)).
  { revert args R W H Hw. induction its as [|i its IH]; intros [|e args] R W H Hw; cbn [scallee] in H; try discriminate.
    - inversion H; subst. repeat split; intros l [].
    - assert (Hw' : kind_writes k = true \/ forallb (fun i => negb (writes_of_intent i)) its = true).
      { destruct Hw as [Hw|Hw]; [left; exact Hw|]. cbn [forallb] in Hw. apply andb_true_iff in Hw as [_ Hw]. right. exact Hw. }
      destruct (sarg_loc s e) as [[l0|]|] eqn:El; try discriminate;
        destruct (scallee s its args) as [[R' W']|] eqn:Ec; try discriminate.
      + inversion H; subst. clear H.
        destruct (IH args R' W' Ec Hw') as [G1 [G2 G3]].
        destruct (sarg_head s loc k e l0 El) as [rest Hh].
        cbn [flat_map]. repeat split; intros l Hl.
        * apply in_app_iff in Hl as [Hl|Hl]; rewrite is_read_app; apply orb_true_iff;
            [left; apply (sarg_pre_read s), Hl | right; apply G1, Hl].
        * apply in_app_iff in Hl as [Hl|Hl]; rewrite is_read_app; apply orb_true_iff.
          -- left. destruct (reads_of_intent i); [|destruct Hl]. destruct Hl as [<-|[]]. rewrite Hh. apply is_read_head, Hk.
          -- right. apply G2, Hl.
        * apply in_app_iff in Hl as [Hl|Hl]; rewrite is_written_app; apply orb_true_iff.
          -- left. destruct (writes_of_intent i) eqn:Ei; [|destruct Hl]. destruct Hl as [<-|[]]. rewrite Hh.
             apply is_written_head. destruct Hw as [Hw|Hw]; [exact Hw|].
             cbn [forallb] in Hw. rewrite Ei in Hw. discriminate.
          -- right. apply G3, Hl.
      + destruct (writes_of_intent i) eqn:Ei; [discriminate|]. inversion H; subst. clear H.
        destruct (IH args R W Ec Hw') as [G1 [G2 G3]].
        cbn [flat_map]. repeat split; intros l Hl.
        * apply in_app_iff in Hl as [Hl|Hl]; rewrite is_read_app; apply orb_true_iff;
            [left; apply (sarg_pre_read s), Hl | right; apply G1, Hl].
        * rewrite is_read_app. apply orb_true_iff. right. apply G2, Hl.
        * rewrite is_written_app. apply orb_true_iff. right. apply G3, Hl. }
  destruct G as [G1 [G2 G3]]. split; intros l Hl.
  - rewrite !reads_app', !reads_rds', reads_wrs, app_nil_r in Hl. apply in_app_iff in Hl as [Hl|Hl]; auto.
  - rewrite !writes_app', !writes_rds', writes_wrs in Hl. cbn [app] in Hl. auto.
Qed.

Lemma bcovers_wr x vs loc : bcovers [Wr (x, vs)] [mkAcc x WRITE loc].
Proof.
  split; intros l Hl; cbn in Hl; [destruct Hl|]. destruct Hl as [<-|[]]. cbn [fst].
  apply is_written_head. reflexivity.
Qed.

Lemma rds_app_ l1 l2 : rds (l1 ++ l2) = rds l1 ++ rds l2.
Proof. unfold rds. apply map_app. Qed.

(* the generic WHILE of this file, as an invariant *)
Lemma swhile_covers fuel c body A loc :
  (forall s s' tr ctl, exec fuel body s = Ok s' tr ctl -> bcovers tr A) ->
  forall n s s' tr ctl,
    (fix loop (n : nat) (s : store) : outcome :=
       match n with
       | O => OutOfFuel
       | S n' =>
           match seval s c with
           | None => Fault
           | Some v =>
               if (v =? 0)%Z then Ok s (rds (sereads s c)) CNormal
               else match exec fuel body s with
                    | Ok s2 tr ctl =>
                        match ctl with
                        | CNormal | CCycle => prepend (rds (sereads s c) ++ tr) (loop n' s2)
                        | CExit => Ok s2 (rds (sereads s c) ++ tr) CNormal
                        | CReturn => Ok s2 (rds (sereads s c) ++ tr) CReturn
                        end
                    | other => other
                    end
           end
       end) n s = Ok s' tr ctl ->
    bcovers tr (reads_at loc (sexpr_reads c) ++ A).
Proof.
  intros Hrun. induction n as [|n IH]; intros s s' tr ctl H; [discriminate|].
  destruct (seval s c) as [v|]; [|discriminate].
  assert (Hc : bcovers (rds (sereads s c)) (reads_at loc (sexpr_reads c) ++ A)).
  { apply bcovers_l. apply bcovers_rds. apply sereads_sub. }
  destruct (v =? 0)%Z.
  - inversion H; subst. exact Hc.
  - destruct (exec fuel body s) as [s2 tr2 c2| |] eqn:E; try discriminate. apply Hrun in E.
    assert (Hh : bcovers (rds (sereads s c) ++ tr2) (reads_at loc (sexpr_reads c) ++ A)).
    { apply bcovers_app_same; [exact Hc | apply bcovers_r, E]. }
    destruct c2.
    + apply prepend_ok in H as [tr' [H ->]]. apply bcovers_app_same; [exact Hh | eapply IH, H].
    + inversion H; subst. exact Hh.
    + apply prepend_ok in H as [tr' [H ->]]. apply bcovers_app_same; [exact Hh | eapply IH, H].
    + inversion H; subst. exact Hh.
Qed.

Theorem sstep_covers_ : forall fuel outs x loc s s' tr c,
  ssafe x = true -> sstep fuel outs x s = Ok s' tr c -> bcovers tr (fst (sacc_stmt x loc)).
Proof.
  intros fuel outs x loc s s' tr c Hs H. destruct x as [t e|k its args|cnd th el|cnd body]; cbn [sstep sacc_stmt ssafe] in *.
  - (* assignment *)
    destruct (opt_all (map (eval s) (target_subs t))) as [vs|]; [|discriminate].
    destruct (seval s e) as [v|]; [|discriminate]. inversion H; subst. cbn [fst].
    rewrite rds_app_. rewrite <- !app_assoc.
    apply bcovers_app; [apply bcovers_rds, sereads_sub|].
    apply bcovers_app; [apply bcovers_rds, ereads_flat_sub | apply bcovers_wr].
  - (* call *)
    destruct (scallee s its args) as [[R W]|] eqn:E; [|discriminate]. inversion H; subst. cbn [fst].
    destruct k as [[|]|]; cbn [default_access].
    + eapply scall_covers; [reflexivity | right; exact Hs | exact E].
    + eapply scall_covers; [reflexivity | left; reflexivity | exact E].
    + eapply scall_covers; [reflexivity | left; reflexivity | exact E].
  - (* if *)
    apply andb_true_iff in Hs as [N1 N2].
    destruct (seval s cnd) as [v|]; [|discriminate]. apply prepend_ok in H as [tr' [H ->]].
    pose proof (fun st st' t0 c0 => core_block_bcovers fuel th (S loc) st st' t0 c0 N1) as Ht.
    destruct (acc_block th (S loc)) as [a1 l1]. cbn [fst] in Ht.
    destruct el as [|e0 el'].
    + cbn [fst]. apply bcovers_app; [apply bcovers_rds, sereads_sub|].
      destruct (v =? 0)%Z; [|eapply Ht, H]. destruct fuel; [discriminate|]. cbn in H. inversion H; subst. apply bcovers_nil.
    + pose proof (fun st st' t0 c0 => core_block_bcovers fuel (e0 :: el') (S l1) st st' t0 c0 N2) as He.
      destruct (acc_block (e0 :: el') (S l1)) as [a2 l2]. cbn [fst] in *.
      apply bcovers_app; [apply bcovers_rds, sereads_sub|].
      destruct (v =? 0)%Z; [apply bcovers_r; eapply He, H | apply bcovers_l; eapply Ht, H].
  - (* while *)
    pose proof (fun st st' t0 c0 => core_block_bcovers fuel body (S loc) st st' t0 c0 Hs) as Hb.
    destruct (acc_block body (S loc)) as [a1 l1]. cbn [fst] in *.
    eapply swhile_covers; [exact Hb | exact H].
Qed.

(* the subscripts of every component are reported READ, the signature as the statement uses it *)
Theorem sref_subscripts_reported_ : forall p e loc x,
  In x (flat_map expr_reads (psubs p)) ->
  is_read x (fst (sacc_stmt (SAsg (TRef p) e) loc)) = true /\
  is_read x (fst (sacc_stmt (SAsg (TVar 0 []) (SRef p)) loc)) = true /\
  (forall k its, is_read x (fst (sacc_stmt (SCallS k its [SRef p]) loc)) = true).
Proof.
  intros p e loc x Hx. cbn [sacc_stmt fst target_subs target_sig sexpr_reads flat_map scall_arg]. repeat split.
  - rewrite !is_read_app. apply orb_true_iff. right. apply orb_true_iff. left. apply is_read_reads_at, Hx.
  - rewrite !is_read_app. apply orb_true_iff. left. apply is_read_reads_at. apply in_app_iff. left. exact Hx.
  - intros k its. rewrite app_nil_r.
    change (mkAcc (enc (psig p)) (default_access k) loc :: reads_at loc (flat_map expr_reads (psubs p)))
      with ([mkAcc (enc (psig p)) (default_access k) loc] ++ reads_at loc (flat_map expr_reads (psubs p))).
    rewrite is_read_app. apply orb_true_iff. right. apply is_read_reads_at, Hx.
Qed.

End Enc.

(* ------------------------------------------------------------------ harness support and non-vacuity *)
Fixpoint names_eqb (a b : list name) : bool :=
  match a, b with [], [] => true | x :: a', y :: b' => Nat.eqb x y && names_eqb a' b' | _, _ => false end.
Definition enc_tbl (tbl : list (list name * name)) (p : list name) : name :=
  match find (fun q => names_eqb (fst q) p) tbl with Some q => snd q | None => 0 end.

Definition sobs_agrees (tbl : list (list name * name)) (x : sstmt) (o : obs) (final : nat) : bool :=
  obs_agrees (fst (sacc_stmt (enc_tbl tbl) x 0)) o && Nat.eqb (snd (sacc_stmt (enc_tbl tbl) x 0)) final.

(* grid(ii)%cells(jj)%vals(j): names grid=10 cells=11 vals=12, ii=1 jj=2 j=3, signature encoded as 20 *)
Definition ex_tbl : list (list name * name) := [([10; 11; 12], 20)].
Definition ex_gcv : path := [(10, [EVar 1]); (11, [EVar 2]); (12, [EVar 3])].
Definition ex_sstore : store := store_of [((1, []), 2%Z); ((2, []), 3%Z); ((3, []), 4%Z); ((20, [2; 3; 4]%Z), 7%Z)] [].

Example struct_nonvacuous :
  (* x = grid(ii)%cells(jj)%vals(j) + 1   reads ii, jj, j and the element; *)
  (match sstep (enc_tbl ex_tbl) 5 (fun _ => 0%Z) (SAsg (TVar 5 []) (SBin Add (SRef ex_gcv) (SCore (ELit 1)))) ex_sstore with
   | Ok s' tr _ => reads tr = [(1, []); (2, []); (3, []); (20, [2; 3; 4]%Z)] /\ val s' (5, []) = 8%Z
   | _ => False end) /\
  (* call sub(grid(ii)%cells(jj)%vals(j)) with an intent(inout) dummy reads ii, jj, j, reads and writes the element *)
  (match sstep (enc_tbl ex_tbl) 5 (fun _ => 0%Z) (SCallS (CUser false) [IInOut] [SRef ex_gcv]) ex_sstore with
   | Ok _ tr _ => reads tr = [(1, []); (2, []); (3, []); (20, [2; 3; 4]%Z)] /\ writes tr = [(20, [2; 3; 4]%Z)]
   | _ => False end) /\
  map (fun a => (a_sig a, a_kind a)) (fst (sacc_stmt (enc_tbl ex_tbl) (SCallS (CUser false) [IInOut] [SRef ex_gcv]) 0))
    = [(20, READWRITE); (1, READ); (2, READ); (3, READ)] /\
  map (fun a => (a_sig a, a_kind a)) (fst (sacc_stmt (enc_tbl ex_tbl) (SAsg (TRef ex_gcv) (SCore (EVar 1))) 0))
    = [(1, READ); (1, READ); (2, READ); (3, READ); (20, WRITE)].
Proof. vm_compute. repeat split. Qed.
