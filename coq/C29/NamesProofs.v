(* C29 -- names inside the written file versus the file name. *)
From Coq Require Import List Arith Bool Ascii String.
Import ListNotations.
Local Open Scope string_scope.
Local Open Scope list_scope.
From PV Require Import C29.NamesModel.

(* the code as it is: the module name is the file name without extension whenever "_mod" is
   spelled in lower case or is absent in every spelling *)
Lemma names_match_partial_ : forall modname tag,
  suffix_case_ok modname = true -> module_name false modname tag = file_stem modname tag.
Proof.
  intros m tag H. unfold suffix_case_ok in H. apply Bool.eqb_prop in H.
  unfold module_name, file_stem, new_name, old_base, has_suffix. rewrite <- H.
  destruct (endswith m (S_ "_mod")); reflexivity.
Qed.

(* the repaired variant: for every name *)
Lemma names_match_fixed_ : forall modname tag, module_name true modname tag = file_stem modname tag.
Proof.
  intros m tag. unfold module_name, file_stem, new_name, old_base, has_suffix.
  change (lower (S_ "_mod")) with (S_ "_mod").
  destruct (endswith (lower m) (S_ "_mod")); reflexivity.
Qed.

(* whatever the spelling, module and routine names carry the index tag of the file and end in
   "_mod" / "_code" *)
Lemma module_tagged_ : forall ci modname tag,
  exists p, module_name ci modname tag = p ++ tag ++ S_ "_mod".
Proof.
  intros ci m tag. unfold module_name, new_name. destruct (has_suffix ci m (S_ "_mod")); eauto.
Qed.
Lemma routine_tagged_ : forall ci kname tag,
  exists p, routine_name ci kname tag = p ++ tag ++ S_ "_code".
Proof.
  intros ci k tag. unfold routine_name, new_name. destruct (has_suffix ci k (S_ "_code")); eauto.
Qed.
Lemma file_tagged_ : forall modname tag, exists p, file_name modname tag = p ++ tag ++ S_ "_mod.f90".
Proof.
  intros m tag. exists (old_base m). unfold file_name, file_stem.
  rewrite <- !app_assoc. reflexivity.
Qed.

(* FULL STATEMENT (false of the code as it is):
     forall modname tag, module_name false modname tag = file_stem modname tag.
   `use testkern_MOD` in the algorithm layer is legal Fortran and gives module_name
   "testkern_MOD": the file is testkern_0_mod.f90, the module in it testkern_MOD_0_mod --
   different even when compared case-insensitively. *)
Lemma names_match_refuted_ :
  exists modname tag, lower (module_name false modname tag) <> lower (file_stem modname tag).
Proof.
  exists (S_ "testkern_MOD"), (S_ "_0"). vm_compute. discriminate.
Qed.

Example names_nonvacuous :
  suffix_case_ok (S_ "testkern_mod") = true /\ suffix_case_ok (S_ "TESTKERN_mod") = true /\
  suffix_case_ok (S_ "testkern") = true /\ suffix_case_ok (S_ "testkern_MOD") = false /\
  file_name (S_ "testkern_mod") (S_ "_3") = S_ "testkern_3_mod.f90" /\
  module_name false (S_ "testkern_mod") (S_ "_3") = S_ "testkern_3_mod" /\
  routine_name false (S_ "testkern_code") (S_ "_3") = S_ "testkern_3_code" /\
  module_name false (S_ "testkern") (S_ "_0") = S_ "testkern_0_mod" /\
  module_name false (S_ "testkern_MOD") (S_ "_0") = S_ "testkern_MOD_0_mod" /\
  module_name true (S_ "testkern_MOD") (S_ "_0") = S_ "testkern_0_mod" /\
  file_name (S_ "testkern_MOD") (S_ "_0") = S_ "testkern_0_mod.f90".
Proof. vm_compute. repeat split. Qed.
