(* C29 -- string-level model of the names computed by CodedKern.rename_and_write and
   CodedKern._new_name / _rename_psyir (src/psyclone/psyGen.py).  No proofs in this file.

     orig_mod_name = self.module_name[:]
     if orig_mod_name.lower().endswith("_mod"): old_base_name = orig_mod_name[:-4]
     else:                                      old_base_name = orig_mod_name[:]
     new_suffix = f"_{name_idx}" ; new_name = old_base_name + new_suffix + "_mod.f90"

     def _new_name(original, tag, suffix):
         if original.endswith(suffix): return original[:-len(suffix)] + tag + suffix
         return original + tag + suffix
     new_kern_name = _new_name(orig_kern_name, suffix, "_code")
     new_mod_name  = _new_name(orig_mod_name,  suffix, "_mod")                              *)
From Coq Require Import List Arith Bool Ascii String.
Import ListNotations.
Local Open Scope string_scope.
Local Open Scope list_scope.

Definition str := list ascii.
Definition S_ (s : string) : str := list_ascii_of_string s.

Fixpoint str_eqb (a b : str) : bool :=
  match a, b with
  | [], [] => true
  | x :: a', y :: b' => Ascii.eqb x y && str_eqb a' b'
  | _, _ => false
  end.

(* str.lower() on ASCII *)
Definition lower_c (c : ascii) : ascii :=
  let n := nat_of_ascii c in if ((65 <=? n)%nat && (n <=? 90)%nat)%bool then ascii_of_nat (n + 32) else c.
Definition lower (s : str) : str := map lower_c s.

(* s.endswith(suf) *)
Definition endswith (s suf : str) : bool := str_eqb (skipn (List.length s - List.length suf) s) suf.
(* s[:-n]  (Python: s[:-0] is the empty string) *)
Definition py_drop_last (s : str) (n : nat) : str :=
  if (n =? 0)%nat then [] else firstn (List.length s - n) s.

(* [ci = false]: the code as it is (original.endswith(suffix));
   [ci = true]: the repaired variant (original.lower().endswith(suffix.lower())), props/C29/fix.patch.
   The harness determines which one the tree under test implements. *)
Definition has_suffix (ci : bool) (s suf : str) : bool :=
  if ci then endswith (lower s) (lower suf) else endswith s suf.

Definition new_name (ci : bool) (orig tag suf : str) : str :=
  if has_suffix ci orig suf then py_drop_last orig (List.length suf) ++ tag ++ suf
  else orig ++ tag ++ suf.

Definition old_base (modname : str) : str :=
  if endswith (lower modname) (S_ "_mod") then py_drop_last modname 4 else modname.

(* file name without the ".f90" extension *)
Definition file_stem (modname tag : str) : str := old_base modname ++ tag ++ S_ "_mod".
Definition file_name (modname tag : str) : str := file_stem modname tag ++ S_ ".f90".
Definition module_name (ci : bool) (modname tag : str) : str := new_name ci modname tag (S_ "_mod").
Definition routine_name (ci : bool) (kname tag : str) : str := new_name ci kname tag (S_ "_code").

(* the convention under which the names provably agree for the code as it is: "_mod" is present
   in lower case or not at all (in any case) *)
Definition suffix_case_ok (modname : str) : bool :=
  Bool.eqb (endswith modname (S_ "_mod")) (endswith (lower modname) (S_ "_mod")).

(* ---- executable checks used by the correspondence harness ---- *)
(* _new_name(original, tag, suffix) == observed *)
Definition check_new_name (c : bool * string * string * string * string) : bool :=
  match c with (ci, o, t, s, r) => str_eqb (new_name ci (S_ o) (S_ t) (S_ s)) (S_ r) end.
(* (module_name, kernel name, tag) -> observed (file name, new module name, new kernel name) *)
Definition check_names (c : bool * string * string * string * (string * string * string)) : bool :=
  match c with
  | (ci, m, k, t, (f, m', k')) =>
      str_eqb (file_name (S_ m) (S_ t)) (S_ f) && str_eqb (module_name ci (S_ m) (S_ t)) (S_ m')
      && str_eqb (routine_name ci (S_ k) (S_ t)) (S_ k')
  end.
