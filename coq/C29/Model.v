(* C29 -- model of the kernel-file protocol of CodedKern.rename_and_write / _rename_psyir
   (src/psyclone/psyGen.py).  No proofs in this file.

   One PSyclone "run" writes one transformed kernel (a PSyclone process that writes several
   kernels is several runs scheduled one after the other).  The atomic actions are those the
   code performs, in its order:

     name_idx = -1; fdesc = None
     while not fdesc:
         name_idx += 1 ; new_name = old_base_name + "_<idx>" + "_mod.f90"
         try:    fdesc = os.open(join(dir, new_name), O_CREAT|O_WRONLY|O_EXCL)   (Try idx)
         except: if kernel_naming == "single": break                          (-> Found idx)
                 continue                                                   (-> Try (idx+1))
     self._rename_psyir(new_suffix)            (Created idx -> ToWrite idx, Found idx -> ToRead idx)
     new_kern_code = writer(kernel schedule root)
     if not fdesc:  kern_code = open(new_name).read()                          (ToRead idx)
                    if kern_code != new_kern_code: raise GenerationError       (-> Failed idx)
                                                                         (else Done idx false)
     else:          os.write(fdesc, new_kern_code)                 (ToWrite idx -> ToClose idx)
                    os.close(fdesc)                                (ToClose idx -> Done idx true)

   Names are abstract: a file name is (base, idx) standing for "<base>_<idx>_mod.f90"; the text
   of a kernel file is (module name, routine name, body).  The string-level computation of the
   names (_new_name, the "_mod" stripping) is modelled separately in C29/NamesModel.v. *)
From Coq Require Import List Arith Bool.
Import ListNotations.

Inductive scheme := Multiple | Single.

Definition fname := (nat * nat)%type.          (* (old_base_name, name_idx) *)

Record kernel := { k_base : nat;               (* module name without "_mod" *)
                   k_rout : nat;               (* routine name without "_code" *)
                   k_body : nat }.             (* the transformed code, names abstracted *)

Record code := { c_mod : nat * nat;            (* module  <base>_<idx>_mod *)
                 c_rout : nat * nat;           (* routine <rout>_<idx>_code *)
                 c_body : nat }.

Inductive content := Empty | Text (c : code) | Other (n : nat).

Definition fname_eqb (a b : fname) : bool := (fst a =? fst b) && (snd a =? snd b).
Definition code_eqb (a b : code) : bool :=
  fname_eqb (c_mod a) (c_mod b) && fname_eqb (c_rout a) (c_rout b) && (c_body a =? c_body b).

(* the output directory: association list, the first binding of a name is the current one *)
Definition fsys := list (fname * content).
Fixpoint lookup (fs : fsys) (f : fname) : option content :=
  match fs with
  | [] => None
  | (g, c) :: r => if fname_eqb g f then Some c else lookup r f
  end.
Definition fset (fs : fsys) (f : fname) (c : content) : fsys := (f, c) :: fs.

(* what FortranWriter prints after _rename_psyir("_<idx>") *)
Definition render (k : kernel) (idx : nat) : code :=
  {| c_mod := (k_base k, idx); c_rout := (k_rout k, idx); c_body := k_body k |}.

Inductive pc :=
| Try (idx : nat)        (* about to os.open(<base>_<idx>_mod.f90, O_CREAT|O_EXCL) *)
| Created (idx : nat)    (* open succeeded, descriptor held; next: _rename_psyir *)
| Found (idx : nat)      (* single: open failed, loop left; next: _rename_psyir *)
| ToWrite (idx : nat)    (* renamed, code generated; next: os.write *)
| ToRead (idx : nat)     (* renamed, code generated; next: read back and compare *)
| ToClose (idx : nat)    (* written; next: os.close *)
| Done (idx : nat) (wrote : bool)
| Failed (idx : nat).    (* GenerationError *)

Record run := { r_kern : kernel;
                r_pc : pc;
                r_psy : option nat }.   (* Some idx: the PSy layer (kern.name, kern.module_name)
                                           now names module (base, idx) and routine (rout, idx) *)

Record state := { st_fs : fsys; st_runs : nat -> run }.

Definition upd (rs : nat -> run) (a : nat) (r : run) : nat -> run :=
  fun j => if j =? a then r else rs j.

Definition set_pc (r : run) (p : pc) : run := {| r_kern := r_kern r; r_pc := p; r_psy := r_psy r |}.
Definition set_pc_psy (r : run) (p : pc) (i : nat) : run :=
  {| r_kern := r_kern r; r_pc := p; r_psy := Some i |}.

(* one atomic action of run [a] *)
Definition step (sch : scheme) (st : state) (a : nat) : state :=
  let r := st_runs st a in
  let k := r_kern r in
  let fs := st_fs st in
  match r_pc r with
  | Try idx =>
      match lookup fs (k_base k, idx) with
      | None => {| st_fs := fset fs (k_base k, idx) Empty;
                   st_runs := upd (st_runs st) a (set_pc r (Created idx)) |}
      | Some _ =>
          match sch with
          | Multiple => {| st_fs := fs; st_runs := upd (st_runs st) a (set_pc r (Try (S idx))) |}
          | Single => {| st_fs := fs; st_runs := upd (st_runs st) a (set_pc r (Found idx)) |}
          end
      end
  | Created idx => {| st_fs := fs; st_runs := upd (st_runs st) a (set_pc_psy r (ToWrite idx) idx) |}
  | Found idx => {| st_fs := fs; st_runs := upd (st_runs st) a (set_pc_psy r (ToRead idx) idx) |}
  | ToWrite idx => {| st_fs := fset fs (k_base k, idx) (Text (render k idx));
                      st_runs := upd (st_runs st) a (set_pc r (ToClose idx)) |}
  | ToRead idx =>
      match lookup fs (k_base k, idx) with
      | Some (Text c) =>
          if code_eqb c (render k idx)
          then {| st_fs := fs; st_runs := upd (st_runs st) a (set_pc r (Done idx false)) |}
          else {| st_fs := fs; st_runs := upd (st_runs st) a (set_pc r (Failed idx)) |}
      | _ => {| st_fs := fs; st_runs := upd (st_runs st) a (set_pc r (Failed idx)) |}
      end
  | ToClose idx => {| st_fs := fs; st_runs := upd (st_runs st) a (set_pc r (Done idx true)) |}
  | Done _ _ => st
  | Failed _ => st
  end.

(* a schedule = the sequence of run numbers that perform the next atomic action *)
Definition exec (sch : scheme) (st : state) (s : list nat) : state := fold_left (step sch) s st.

(* any number of runs: run i transforms kernel [ks i]; all start before their first open *)
Definition init (fs0 : fsys) (ks : nat -> kernel) : state :=
  {| st_fs := fs0; st_runs := fun i => {| r_kern := ks i; r_pc := Try 0; r_psy := None |} |}.

(* the file a run has created (it holds or held the descriptor) *)
Definition own_idx (p : pc) : option nat :=
  match p with
  | Created i | ToWrite i | ToClose i | Done i true => Some i
  | _ => None
  end.
Definition written (p : pc) : bool :=
  match p with ToClose _ | Done _ true => true | _ => false end.
Definition pc_idx (p : pc) : nat :=
  match p with
  | Try i | Created i | Found i | ToWrite i | ToRead i | ToClose i | Done i _ | Failed i => i
  end.

(* sufficient condition for the sharing half of the 'single' rule: no read-back observes a file
   that its creator has not written yet *)
Fixpoint read_safe (sch : scheme) (st : state) (s : list nat) : bool :=
  match s with
  | [] => true
  | a :: r =>
      let ok := match r_pc (st_runs st a) with
                | ToRead idx =>
                    match lookup (st_fs st) (k_base (r_kern (st_runs st a)), idx) with
                    | Some Empty => false
                    | _ => true
                    end
                | _ => true
                end in
      ok && read_safe sch (step sch st a) r
  end.

(* ---------------------------------------------------------------------------------------- *)
(* executable comparison used by the correspondence harness (props/C29/check.py)            *)

Definition kdef : kernel := {| k_base := 0; k_rout := 0; k_body := 0 |}.
Definition ks_of (l : list kernel) : nat -> kernel := fun i => nth i l kdef.

Definition content_eqb (a b : content) : bool :=
  match a, b with
  | Empty, Empty => true
  | Text x, Text y => code_eqb x y
  | Other n, Other m => n =? m
  | _, _ => false
  end.
Definition ocontent_eqb (a b : option content) : bool :=
  match a, b with
  | None, None => true
  | Some x, Some y => content_eqb x y
  | _, _ => false
  end.
Definition pc_eqb (a b : pc) : bool :=
  match a, b with
  | Try i, Try j | Created i, Created j | Found i, Found j | ToWrite i, ToWrite j
  | ToRead i, ToRead j | ToClose i, ToClose j | Failed i, Failed j => i =? j
  | Done i w, Done j v => (i =? j) && Bool.eqb w v
  | _, _ => false
  end.
Definition onat_eqb (a b : option nat) : bool :=
  match a, b with
  | None, None => true
  | Some x, Some y => x =? y
  | _, _ => false
  end.

(* same finite map: agree on every name bound in either *)
Definition fs_agree (m o : fsys) : bool :=
  forallb (fun e => ocontent_eqb (lookup m (fst e)) (lookup o (fst e))) (m ++ o).

(* What the harness observes after a step of run [a]:
   - the content (None = absent) of (i) the file the action of run [a] was aimed at and (ii)
     every file whose content differs from the snapshot before the step;
   - the (pc, psy) of run [a] and of every run whose observed (pc, psy) differs from the
     observation before the step.
   [step] changes no other file than (i) and no other run than [a], so agreement on these after
   every step, together with agreement of all runs at the start, is agreement of the whole
   directory and of all runs after every step; everything is compared again at the end. *)
Definition delta := list (fname * option content).
Definition runobs := list (pc * option nat).
Definition rdelta := list (nat * (pc * option nat)).

Definition delta_agree (fs : fsys) (d : delta) : bool :=
  forallb (fun e => ocontent_eqb (lookup fs (fst e)) (snd e)) d.

Definition run_agree (r : run) (o : pc * option nat) : bool :=
  pc_eqb (r_pc r) (fst o) && onat_eqb (r_psy r) (snd o).

Definition rdelta_agree (rs : nat -> run) (d : rdelta) : bool :=
  forallb (fun e => run_agree (rs (fst e)) (snd e)) d.

Fixpoint runs_agree (rs : nat -> run) (i : nat) (l : runobs) : bool :=
  match l with
  | [] => true
  | o :: r => run_agree (rs i) o && runs_agree rs (S i) r
  end.

Definition obs_step := (nat * delta * rdelta)%type.

Fixpoint replay (sch : scheme) (st : state) (tr : list obs_step) : option state :=
  match tr with
  | [] => Some st
  | (a, d, rd) :: r =>
      let st' := step sch st a in
      if delta_agree (st_fs st') d && rdelta_agree (st_runs st') rd then replay sch st' r else None
  end.

(* compact constructors for the generated cases *)
Definition mkK (b r d : nat) : kernel := {| k_base := b; k_rout := r; k_body := d |}.
Definition mkT (mb mi rb ri d : nat) : content :=
  Text {| c_mod := (mb, mi); c_rout := (rb, ri); c_body := d |}.

(* a case: scheme, initial directory, kernels of runs 0..n-1, observed initial run states, the
   schedule with the observation after each step, the observed final run states and directory *)
Definition case := (scheme * fsys * list kernel * runobs * list obs_step * runobs * fsys)%type.
Definition check_case (c : case) : bool :=
  match c with
  | (sch, fs0, ks, ro0, tr, roN, fsN) =>
      let st := init fs0 (ks_of ks) in
      runs_agree (st_runs st) 0 ro0 &&
      match replay sch st tr with
      | Some stN => runs_agree (st_runs stN) 0 roN && fs_agree (st_fs stN) fsN
      | None => false
      end
  end.

(* index of the first step at which model and observation differ (for replay files) *)
Fixpoint first_diff (sch : scheme) (st : state) (tr : list obs_step) (k : nat) : option nat :=
  match tr with
  | [] => None
  | (a, d, rd) :: r =>
      let st' := step sch st a in
      if delta_agree (st_fs st') d && rdelta_agree (st_runs st') rd then first_diff sch st' r (S k)
      else Some k
  end.
Definition model_trace (c : case) : option nat * list (list pc) * fsys :=
  match c with
  | (sch, fs0, ks, ro0, tr, roN, fsN) =>
      let st := init fs0 (ks_of ks) in
      let n := length ks in
      let sts := fold_left (fun acc x => match acc with
                                         | [] => []
                                         | s :: _ => step sch s (fst (fst x)) :: acc
                                         end) tr [st] in
      (first_diff sch st tr 0,
       rev (map (fun s => map (fun i => r_pc (st_runs s i)) (seq 0 n)) sts),
       match sts with s :: _ => st_fs s | [] => [] end)
  end.
