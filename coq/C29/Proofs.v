(* C29 -- invariant of the kernel-file protocol over ALL interleavings of ANY number of runs. *)
From Coq Require Import List Arith Bool Lia.
Import ListNotations.
From PV Require Import C29.Model.

(* ------------------------------------------------------------------ basic facts *)
Lemma fname_eqb_eq : forall a b, fname_eqb a b = true <-> a = b.
Proof.
  intros [a1 a2] [b1 b2]; unfold fname_eqb; cbn. rewrite andb_true_iff, !Nat.eqb_eq.
  split; [intros [-> ->]; reflexivity | intro E; inversion E; auto].
Qed.

Lemma fname_eqb_refl : forall a, fname_eqb a a = true.
Proof. intro a; apply fname_eqb_eq; reflexivity. Qed.

Lemma fname_eqb_neq : forall a b, a <> b -> fname_eqb a b = false.
Proof.
  intros a b N. destruct (fname_eqb a b) eqn:E; [|reflexivity].
  apply fname_eqb_eq in E; contradiction.
Qed.

Lemma code_eqb_eq : forall a b, code_eqb a b = true <-> a = b.
Proof.
  intros [am ar ab] [bm br bb]; unfold code_eqb; cbn.
  rewrite !andb_true_iff, !fname_eqb_eq, Nat.eqb_eq.
  split; [intros [[-> ->] ->]; reflexivity | intro E; inversion E; auto].
Qed.

Lemma lookup_fset_same : forall fs f c, lookup (fset fs f c) f = Some c.
Proof. intros; unfold fset; cbn. rewrite fname_eqb_refl; reflexivity. Qed.

Lemma lookup_fset_other : forall fs f g c, f <> g -> lookup (fset fs f c) g = lookup fs g.
Proof. intros; unfold fset; cbn. rewrite fname_eqb_neq by assumption; reflexivity. Qed.

Lemma upd_same : forall rs a r, upd rs a r a = r.
Proof. intros; unfold upd; rewrite Nat.eqb_refl; reflexivity. Qed.

Lemma upd_other : forall rs a r j, j <> a -> upd rs a r j = rs j.
Proof. intros; unfold upd. destruct (Nat.eqb_spec j a); [contradiction | reflexivity]. Qed.

(* ------------------------------------------------------------------ the invariant *)
Definition local_ok (sch : scheme) (r : run) : Prop :=
  match r_pc r with
  | Try _ | Created _ | Found _ => r_psy r = None
  | ToWrite i | ToRead i | ToClose i | Done i _ | Failed i => r_psy r = Some i
  end /\
  (sch = Single -> pc_idx (r_pc r) = 0) /\
  (sch = Multiple ->
   match r_pc r with Found _ | ToRead _ | Failed _ | Done _ false => False | _ => True end).

Record Inv (fs0 : fsys) (ks : nat -> kernel) (sch : scheme) (st : state) : Prop := {
  inv_kern : forall i, r_kern (st_runs st i) = ks i;
  inv_local : forall i, local_ok sch (st_runs st i);
  (* files present before the runs started are never changed *)
  inv_pre : forall f c, lookup fs0 f = Some c -> lookup (st_fs st) f = Some c;
  (* a created file was absent initially and holds nothing or its creator's kernel *)
  inv_own : forall i idx, own_idx (r_pc (st_runs st i)) = Some idx ->
      lookup fs0 (k_base (ks i), idx) = None /\
      lookup (st_fs st) (k_base (ks i), idx) =
        Some (if written (r_pc (st_runs st i)) then Text (render (ks i) idx) else Empty);
  inv_distinct : forall i j idx idx', i <> j ->
      own_idx (r_pc (st_runs st i)) = Some idx -> own_idx (r_pc (st_runs st j)) = Some idx' ->
      (k_base (ks i), idx) <> (k_base (ks j), idx');
  (* a run that re-uses an existing file found its own kernel there, and it stays there *)
  inv_shared : forall i idx, r_pc (st_runs st i) = Done idx false ->
      lookup (st_fs st) (k_base (ks i), idx) = Some (Text (render (ks i) idx));
  inv_exists : forall i idx,
      r_pc (st_runs st i) = Found idx \/ r_pc (st_runs st i) = ToRead idx ->
      lookup (st_fs st) (k_base (ks i), idx) <> None }.

Lemma init_inv : forall fs0 ks sch, Inv fs0 ks sch (init fs0 ks).
Proof.
  intros; constructor; cbn; intros; try discriminate; auto.
  - repeat split; cbn; auto.
  - destruct H; discriminate.
Qed.

(* steps that leave the directory and the ownership of run [a] unchanged *)
Lemma inv_same_fs : forall fs0 ks sch st a r',
  Inv fs0 ks sch st ->
  r_kern r' = ks a ->
  own_idx (r_pc r') = own_idx (r_pc (st_runs st a)) ->
  written (r_pc r') = written (r_pc (st_runs st a)) ->
  local_ok sch r' ->
  (forall idx, r_pc r' = Done idx false ->
               lookup (st_fs st) (k_base (ks a), idx) = Some (Text (render (ks a) idx))) ->
  (forall idx, r_pc r' = Found idx \/ r_pc r' = ToRead idx ->
               lookup (st_fs st) (k_base (ks a), idx) <> None) ->
  Inv fs0 ks sch {| st_fs := st_fs st; st_runs := upd (st_runs st) a r' |}.
Proof.
  intros fs0 ks sch st a r' I Hk Ho Hw Hl Hs He.
  destruct I as [IK IL IP IO ID IS IE].
  constructor; cbn [st_fs st_runs].
  - intro i. destruct (Nat.eq_dec i a) as [->|N]; [rewrite upd_same | rewrite upd_other]; auto.
  - intro i. destruct (Nat.eq_dec i a) as [->|N]; [rewrite upd_same | rewrite upd_other]; auto.
  - exact IP.
  - intros i idx. destruct (Nat.eq_dec i a) as [->|N].
    + rewrite upd_same, Ho, Hw. apply IO.
    + rewrite upd_other by assumption. apply IO.
  - intros i j idx idx' Hij.
    destruct (Nat.eq_dec i a) as [->|Ni]; destruct (Nat.eq_dec j a) as [->|Nj];
      rewrite ?upd_same, ?upd_other by assumption; rewrite ?Ho.
    + congruence.
    + apply ID; assumption.
    + apply ID; assumption.
    + apply ID; assumption.
  - intros i idx. destruct (Nat.eq_dec i a) as [->|N].
    + rewrite upd_same. apply Hs.
    + rewrite upd_other by assumption. apply IS.
  - intros i idx. destruct (Nat.eq_dec i a) as [->|N].
    + rewrite upd_same. apply He.
    + rewrite upd_other by assumption. apply IE.
Qed.

Lemma step_inv : forall fs0 ks sch st a, Inv fs0 ks sch st -> Inv fs0 ks sch (step sch st a).
Proof.
  intros fs0 ks sch st a I.
  pose proof (inv_kern _ _ _ _ I a) as Hk.
  pose proof (inv_local _ _ _ _ I a) as [Hpsy [Hsing Hmult]].
  unfold step. rewrite Hk.
  destruct (r_pc (st_runs st a)) as [idx|idx|idx|idx|idx|idx|idx w|idx] eqn:Epc; cbn in Hpsy, Hsing, Hmult.
  - (* Try idx *)
    destruct (lookup (st_fs st) (k_base (ks a), idx)) as [c|] eqn:El.
    + (* the name exists: next index (multiple) or leave the loop (single) *)
      destruct sch.
      * apply inv_same_fs; auto; cbn; try (rewrite Epc; reflexivity).
        -- repeat split; cbn; auto. intro; discriminate.
        -- intros; discriminate.
        -- intros ? [H|H]; discriminate.
      * apply inv_same_fs; auto; cbn; try (rewrite Epc; reflexivity).
        -- repeat split; cbn; auto. intro; discriminate.
        -- intros; discriminate.
        -- intros idx0 [H|H]; inversion H; subst. rewrite El; discriminate.
    + (* O_CREAT|O_EXCL succeeds: the file is created, empty *)
      destruct I as [IK IL IP IO ID IS IE].
      assert (Hfresh : forall g c, lookup (st_fs st) g = Some c -> (k_base (ks a), idx) <> g)
        by (intros g c Hg E; subst g; rewrite El in Hg; discriminate).
      constructor; cbn [st_fs st_runs].
      * intro i. destruct (Nat.eq_dec i a) as [->|N]; [rewrite upd_same | rewrite upd_other]; auto.
      * intro i. destruct (Nat.eq_dec i a) as [->|N]; [rewrite upd_same | rewrite upd_other]; auto.
        repeat split; cbn; auto.
      * intros f c Hf. rewrite lookup_fset_other; [apply IP; assumption|].
        apply (Hfresh f c). apply IP; assumption.
      * intros i idx0. destruct (Nat.eq_dec i a) as [->|N].
        -- rewrite upd_same; cbn. intro E; inversion E; subst idx0. split.
           ++ destruct (lookup fs0 (k_base (ks a), idx)) eqn:E0; [|reflexivity].
              apply IP in E0. rewrite El in E0; discriminate.
           ++ apply lookup_fset_same.
        -- rewrite upd_other by assumption. intro Ho. destruct (IO i idx0 Ho) as [H0 H1].
           split; [assumption|]. rewrite lookup_fset_other; [assumption|].
           eapply Hfresh; eassumption.
      * intros i j idx1 idx2 Hij.
        destruct (Nat.eq_dec i a) as [->|Ni]; destruct (Nat.eq_dec j a) as [->|Nj];
          rewrite ?upd_same, ?upd_other by assumption; cbn.
        -- congruence.
        -- intros E Ho; inversion E; subst idx1. destruct (IO j idx2 Ho) as [_ H1].
           eapply Hfresh; eassumption.
        -- intros Ho E; inversion E; subst idx2. destruct (IO i idx1 Ho) as [_ H1].
           intro X; symmetry in X; revert X. eapply Hfresh; eassumption.
        -- apply ID; assumption.
      * intros i idx0. destruct (Nat.eq_dec i a) as [->|N].
        -- rewrite upd_same; cbn; discriminate.
        -- rewrite upd_other by assumption. intro Hd.
           rewrite lookup_fset_other; [apply IS; assumption|].
           eapply Hfresh; apply IS; eassumption.
      * intros i idx0. destruct (Nat.eq_dec i a) as [->|N].
        -- rewrite upd_same; cbn. intros [H|H]; discriminate.
        -- rewrite upd_other by assumption. intro Hd.
           specialize (IE i idx0 Hd).
           destruct (lookup (st_fs st) (k_base (ks i), idx0)) eqn:E1; [|contradiction].
           rewrite lookup_fset_other; [rewrite E1; discriminate|].
           eapply Hfresh; eassumption.
  - (* Created idx: _rename_psyir *)
    apply inv_same_fs; auto; cbn; try (rewrite Epc; reflexivity).
    + repeat split; cbn; auto.
    + intros; discriminate.
    + intros ? [H|H]; discriminate.
  - (* Found idx: _rename_psyir *)
    apply inv_same_fs; auto; cbn; try (rewrite Epc; reflexivity).
    + repeat split; cbn; auto.
    + intros; discriminate.
    + intros idx0 [H|H]; inversion H; subst.
      apply (inv_exists _ _ _ _ I a idx0). left; assumption.
  - (* ToWrite idx: os.write through the descriptor of the file this run created *)
    destruct I as [IK IL IP IO ID IS IE].
    assert (Hown : own_idx (r_pc (st_runs st a)) = Some idx) by (rewrite Epc; reflexivity).
    destruct (IO a idx Hown) as [Ha0 Ha1]. rewrite Epc in Ha1; cbn in Ha1.
    constructor; cbn [st_fs st_runs].
    + intro i. destruct (Nat.eq_dec i a) as [->|N]; [rewrite upd_same | rewrite upd_other]; auto.
    + intro i. destruct (Nat.eq_dec i a) as [->|N]; [rewrite upd_same | rewrite upd_other]; auto.
      repeat split; cbn; auto.
    + intros f c Hf. rewrite lookup_fset_other; [apply IP; assumption|].
      intro E; subst f. rewrite Ha0 in Hf; discriminate.
    + intros i idx0. destruct (Nat.eq_dec i a) as [->|N].
      * rewrite upd_same; cbn. intro E; inversion E; subst idx0. split; [assumption|].
        apply lookup_fset_same.
      * rewrite upd_other by assumption. intro Ho. destruct (IO i idx0 Ho) as [H0 H1].
        split; [assumption|]. rewrite lookup_fset_other; [assumption|].
        apply (ID a i idx idx0); auto.
    + intros i j idx1 idx2 Hij.
      destruct (Nat.eq_dec i a) as [->|Ni]; destruct (Nat.eq_dec j a) as [->|Nj];
        rewrite ?upd_same, ?upd_other by assumption; cbn.
      * congruence.
      * intros E Ho; inversion E; subst idx1. apply (ID a j idx idx2); auto.
      * intros Ho E; inversion E; subst idx2. apply (ID i a idx1 idx); auto.
      * apply ID; assumption.
    + intros i idx0. destruct (Nat.eq_dec i a) as [->|N].
      * rewrite upd_same; cbn; discriminate.
      * rewrite upd_other by assumption. intro Hd.
        rewrite lookup_fset_other; [apply IS; assumption|].
        intro E. specialize (IS i idx0 Hd). rewrite <- E, Ha1 in IS. discriminate.
    + intros i idx0. destruct (Nat.eq_dec i a) as [->|N].
      * rewrite upd_same; cbn. intros [H|H]; discriminate.
      * rewrite upd_other by assumption. intro Hd. specialize (IE i idx0 Hd).
        destruct (fname_eqb (k_base (ks a), idx) (k_base (ks i), idx0)) eqn:E.
        -- apply fname_eqb_eq in E. rewrite <- E, lookup_fset_same. discriminate.
        -- rewrite lookup_fset_other; [assumption|].
           intro X. rewrite X, fname_eqb_refl in E. discriminate.
  - (* ToRead idx: read back and compare *)
    destruct (lookup (st_fs st) (k_base (ks a), idx)) as [[|c|n]|] eqn:El.
    + apply inv_same_fs; auto; cbn; try (rewrite Epc; reflexivity).
      * repeat split; cbn; auto.
      * intros; discriminate.
      * intros ? [H|H]; discriminate.
    + destruct (code_eqb c (render (ks a) idx)) eqn:Ec.
      * apply code_eqb_eq in Ec; subst c.
        apply inv_same_fs; auto; cbn; try (rewrite Epc; reflexivity).
        -- repeat split; cbn; auto.
        -- intros idx0 E; inversion E; subst; assumption.
        -- intros ? [H|H]; discriminate.
      * apply inv_same_fs; auto; cbn; try (rewrite Epc; reflexivity).
        -- repeat split; cbn; auto.
        -- intros; discriminate.
        -- intros ? [H|H]; discriminate.
    + apply inv_same_fs; auto; cbn; try (rewrite Epc; reflexivity).
      * repeat split; cbn; auto.
      * intros; discriminate.
      * intros ? [H|H]; discriminate.
    + apply inv_same_fs; auto; cbn; try (rewrite Epc; reflexivity).
      * repeat split; cbn; auto.
      * intros; discriminate.
      * intros ? [H|H]; discriminate.
  - (* ToClose idx *)
    apply inv_same_fs; auto; cbn; try (rewrite Epc; reflexivity).
    + repeat split; cbn; auto.
    + intros; discriminate.
    + intros ? [H|H]; discriminate.
  - exact I.
  - exact I.
Qed.

Lemma exec_inv_from : forall fs0 ks sch s st, Inv fs0 ks sch st -> Inv fs0 ks sch (exec sch st s).
Proof.
  intros fs0 ks sch s; induction s as [|a s IH]; intros st I; cbn; [assumption|].
  apply IH. apply step_inv. assumption.
Qed.

Lemma exec_inv : forall fs0 ks sch s, Inv fs0 ks sch (exec sch (init fs0 ks) s).
Proof. intros. apply exec_inv_from. apply init_inv. Qed.

Lemma exec_app : forall sch s s' st, exec sch st (s ++ s') = exec sch (exec sch st s) s'.
Proof. intros; unfold exec; apply fold_left_app. Qed.

(* a finished run stays finished *)
Lemma step_done_stable : forall sch st a i idx w,
  r_pc (st_runs st i) = Done idx w -> r_pc (st_runs (step sch st a) i) = Done idx w.
Proof.
  intros sch st a i idx w H. unfold step.
  destruct (Nat.eq_dec i a) as [->|N].
  - rewrite H. assumption.
  - destruct (r_pc (st_runs st a)); cbn;
      repeat match goal with
             | |- context [match ?x with _ => _ end] => destruct x; cbn
             end; rewrite ?upd_other by assumption; assumption.
Qed.

Lemma exec_done_stable : forall sch s st i idx w,
  r_pc (st_runs st i) = Done idx w -> r_pc (st_runs (exec sch st s) i) = Done idx w.
Proof.
  intros sch s; induction s as [|a s IH]; intros st i idx w H; cbn; [assumption|].
  apply IH. apply step_done_stable. assumption.
Qed.

(* ------------------------------------------------------------------ 'multiple' scheme *)
Section Multiple.
  Variables (fs0 : fsys) (ks : nat -> kernel) (s : list nat).
  Let st := exec Multiple (init fs0 ks) s.

  Lemma multiple_done_wrote : forall i idx w, r_pc (st_runs st i) = Done idx w -> w = true.
  Proof.
    intros i idx w H. destruct (inv_local _ _ _ _ (exec_inv fs0 ks Multiple s) i) as [_ [_ M]].
    fold st in M. specialize (M eq_refl). rewrite H in M. destruct w; [reflexivity|contradiction].
  Qed.

  (* files created by different runs are different files (at every moment, not only at the end) *)
  Lemma files_distinct_ : forall i j idx idx', i <> j ->
    own_idx (r_pc (st_runs st i)) = Some idx -> own_idx (r_pc (st_runs st j)) = Some idx' ->
    (k_base (ks i), idx) <> (k_base (ks j), idx').
  Proof. apply (inv_distinct _ _ _ _ (exec_inv fs0 ks Multiple s)). Qed.

  (* a finished run wrote a file that did not exist before, and it holds that run's kernel *)
  Lemma content_is_own_ : forall i idx w, r_pc (st_runs st i) = Done idx w ->
    lookup fs0 (k_base (ks i), idx) = None /\
    lookup (st_fs st) (k_base (ks i), idx) = Some (Text (render (ks i) idx)).
  Proof.
    intros i idx w H. pose proof (multiple_done_wrote _ _ _ H); subst w.
    pose proof (inv_own _ _ _ _ (exec_inv fs0 ks Multiple s) i idx) as O. fold st in O.
    rewrite H in O. cbn in O. apply O. reflexivity.
  Qed.

  Lemma never_fails_ : forall i idx, r_pc (st_runs st i) <> Failed idx.
  Proof.
    intros i idx H. destruct (inv_local _ _ _ _ (exec_inv fs0 ks Multiple s) i) as [_ [_ M]].
    fold st in M. specialize (M eq_refl). rewrite H in M. exact M.
  Qed.

  Lemma psy_uses_own_ : forall i idx w, r_pc (st_runs st i) = Done idx w ->
    r_psy (st_runs st i) = Some idx /\
    exists c, lookup (st_fs st) (k_base (ks i), idx) = Some (Text c) /\
              c_mod c = (k_base (ks i), idx) /\ c_rout c = (k_rout (ks i), idx) /\
              c_body c = k_body (ks i).
  Proof.
    intros i idx w H. split.
    - destruct (inv_local _ _ _ _ (exec_inv fs0 ks Multiple s) i) as [P _]. fold st in P.
      rewrite H in P. exact P.
    - exists (render (ks i) idx). destruct (content_is_own_ _ _ _ H) as [_ C].
      repeat split; assumption.
  Qed.
End Multiple.

(* files that were in the directory before are never changed -- either scheme *)
Lemma preexisting_untouched_ : forall sch fs0 ks s f c,
  lookup fs0 f = Some c -> lookup (st_fs (exec sch (init fs0 ks) s)) f = Some c.
Proof. intros sch fs0 ks s. apply (inv_pre _ _ _ _ (exec_inv fs0 ks sch s)). Qed.

(* once written, whatever the other runs do afterwards, the file keeps its creator's kernel *)
Lemma never_overwritten_ : forall fs0 ks s s' i idx w,
  r_pc (st_runs (exec Multiple (init fs0 ks) s) i) = Done idx w ->
  lookup (st_fs (exec Multiple (init fs0 ks) (s ++ s'))) (k_base (ks i), idx)
    = Some (Text (render (ks i) idx)).
Proof.
  intros fs0 ks s s' i idx w H.
  apply (content_is_own_ fs0 ks (s ++ s') i idx w).
  rewrite exec_app. apply exec_done_stable. assumption.
Qed.

(* ------------------------------------------------------------------ 'single' scheme *)
Lemma single_uses_identical_ : forall fs0 ks s i idx w,
  let st := exec Single (init fs0 ks) s in
  r_pc (st_runs st i) = Done idx w ->
  idx = 0 /\ r_psy (st_runs st i) = Some 0 /\
  lookup (st_fs st) (k_base (ks i), 0) = Some (Text (render (ks i) 0)).
Proof.
  intros fs0 ks s i idx w st H.
  pose proof (exec_inv fs0 ks Single s) as I. fold st in I.
  destruct (inv_local _ _ _ _ I i) as [P [S0 _]]. specialize (S0 eq_refl).
  rewrite H in S0, P; cbn in S0, P. subst idx. split; [reflexivity|]. split; [assumption|].
  destruct w.
  - pose proof (inv_own _ _ _ _ I i 0) as O. rewrite H in O; cbn in O. apply O; reflexivity.
  - apply (inv_shared _ _ _ _ I i 0 H).
Qed.

Lemma render_inj : forall k k' i, k_base k = k_base k' -> render k i = render k' i -> k = k'.
Proof.
  intros [b r d] [b' r' d'] i; unfold render; cbn. intros -> E. inversion E; reflexivity.
Qed.

(* two runs on the same file name with different kernels never both succeed *)
Lemma different_kernel_fails_ : forall fs0 ks s i j idx idx' w w',
  let st := exec Single (init fs0 ks) s in
  k_base (ks i) = k_base (ks j) -> ks i <> ks j ->
  r_pc (st_runs st i) = Done idx w -> r_pc (st_runs st j) = Done idx' w' -> False.
Proof.
  intros fs0 ks s i j idx idx' w w' st Hb Hne Hi Hj.
  destruct (single_uses_identical_ fs0 ks s i idx w Hi) as [_ [_ Li]].
  destruct (single_uses_identical_ fs0 ks s j idx' w' Hj) as [_ [_ Lj]].
  fold st in Li, Lj. rewrite Hb, Lj in Li.
  assert (E : render (ks j) 0 = render (ks i) 0) by congruence.
  apply Hne. symmetry. apply (render_inj (ks j) (ks i) 0); [symmetry; exact Hb | exact E].
Qed.

(* a run that finds a file whose text is not exactly its own kernel fails (one step) *)
Lemma differing_file_fails_ : forall st a idx,
  r_pc (st_runs st a) = ToRead idx ->
  lookup (st_fs st) (k_base (r_kern (st_runs st a)), idx)
    <> Some (Text (render (r_kern (st_runs st a)) idx)) ->
  r_pc (st_runs (step Single st a) a) = Failed idx.
Proof.
  intros st a idx H N. unfold step. rewrite H.
  destruct (lookup (st_fs st) (k_base (r_kern (st_runs st a)), idx)) as [[|c|n]|] eqn:El;
    cbn; rewrite ?upd_same; try reflexivity.
  destruct (code_eqb c (render (r_kern (st_runs st a)) idx)) eqn:Ec; cbn; rewrite upd_same; cbn.
  - apply code_eqb_eq in Ec. subst c. contradiction.
  - reflexivity.
Qed.

(* FULL STATEMENT (false of the faithful model, see identical_share_refuted):
     forall fs0 ks s, same_base_same_kernel ks -> dir_compatible fs0 ks ->
       forall i idx, r_pc (st_runs (exec Single (init fs0 ks) s) i) <> Failed idx.           *)
Definition same_base_same_kernel (ks : nat -> kernel) : Prop :=
  forall i j, k_base (ks i) = k_base (ks j) -> ks i = ks j.
Definition dir_compatible (fs0 : fsys) (ks : nat -> kernel) : Prop :=
  forall i, lookup fs0 (k_base (ks i), 0) = None \/
            lookup fs0 (k_base (ks i), 0) = Some (Text (render (ks i) 0)).

Definition share_ok (ks : nat -> kernel) (st : state) : Prop :=
  (forall i, lookup (st_fs st) (k_base (ks i), 0) = None \/
             lookup (st_fs st) (k_base (ks i), 0) = Some Empty \/
             lookup (st_fs st) (k_base (ks i), 0) = Some (Text (render (ks i) 0))) /\
  (forall i idx, r_pc (st_runs st i) <> Failed idx).

Lemma nf_upd : forall (rs : nat -> run) a r',
  (forall i idx, r_pc (rs i) <> Failed idx) -> (forall idx, r_pc r' <> Failed idx) ->
  forall i idx, r_pc (upd rs a r' i) <> Failed idx.
Proof.
  intros rs a r' H H' i idx. destruct (Nat.eq_dec i a) as [->|N];
    [rewrite upd_same; apply H' | rewrite upd_other by assumption; apply H].
Qed.

Lemma share_step : forall fs0 ks st a,
  same_base_same_kernel ks -> Inv fs0 ks Single st -> share_ok ks st ->
  read_safe Single st [a] = true -> share_ok ks (step Single st a).
Proof.
  intros fs0 ks st a SB I [F NF] RS.
  pose proof (inv_kern _ _ _ _ I a) as Hk.
  destruct (inv_local _ _ _ _ I a) as [_ [S0 _]]. specialize (S0 eq_refl).
  cbn in RS. rewrite andb_true_r in RS. rewrite Hk in RS.
  unfold step, share_ok. rewrite Hk.
  destruct (r_pc (st_runs st a)) as [idx|idx|idx|idx|idx|idx|idx w|idx] eqn:Epc;
    cbn in S0; try subst idx.
  - destruct (lookup (st_fs st) (k_base (ks a), 0)) eqn:El; cbn [st_fs st_runs].
    + split; [exact F|]. apply nf_upd; [exact NF | cbn; discriminate].
    + split.
      * intro i. destruct (fname_eqb (k_base (ks a), 0) (k_base (ks i), 0)) eqn:E.
        -- apply fname_eqb_eq in E. rewrite <- E, lookup_fset_same. right; left; reflexivity.
        -- rewrite lookup_fset_other; [apply F|].
           intro X; rewrite X, fname_eqb_refl in E; discriminate.
      * apply nf_upd; [exact NF | cbn; discriminate].
  - cbn [st_fs st_runs]. split; [exact F|]. apply nf_upd; [exact NF | cbn; discriminate].
  - cbn [st_fs st_runs]. split; [exact F|]. apply nf_upd; [exact NF | cbn; discriminate].
  - cbn [st_fs st_runs]. split.
    + intro i. destruct (fname_eqb (k_base (ks a), 0) (k_base (ks i), 0)) eqn:E.
      * apply fname_eqb_eq in E. rewrite <- E, lookup_fset_same. right; right.
        inversion E as [Eb]. rewrite (SB a i Eb). reflexivity.
      * rewrite lookup_fset_other; [apply F|].
        intro X; rewrite X, fname_eqb_refl in E; discriminate.
    + apply nf_upd; [exact NF | cbn; discriminate].
  - (* read back: the file exists, is not empty, hence holds this very kernel *)
    pose proof (inv_exists _ _ _ _ I a 0 (or_intror Epc)) as Ex.
    destruct (F a) as [H|[H|H]].
    + contradiction.
    + rewrite H in RS; discriminate.
    + rewrite H. assert (Ec : code_eqb (render (ks a) 0) (render (ks a) 0) = true)
        by (apply code_eqb_eq; reflexivity). rewrite Ec. cbn [st_fs st_runs].
      split; [exact F|]. apply nf_upd; [exact NF | cbn; discriminate].
  - cbn [st_fs st_runs]. split; [exact F|]. apply nf_upd; [exact NF | cbn; discriminate].
  - split; assumption.
  - split; assumption.
Qed.

Lemma share_exec : forall fs0 ks s st,
  same_base_same_kernel ks -> Inv fs0 ks Single st -> share_ok ks st ->
  read_safe Single st s = true -> share_ok ks (exec Single st s).
Proof.
  intros fs0 ks s; induction s as [|a s IH]; intros st SB I SO RS; cbn; [assumption|].
  cbn in RS. apply andb_true_iff in RS as [R1 R2].
  apply IH; auto.
  - apply step_inv; assumption.
  - eapply share_step; eauto. cbn. rewrite R1. reflexivity.
Qed.

(* under read_safe, identical kernels never fail and all finished ones use the one file *)
Lemma identical_share_partial_ : forall fs0 ks s,
  same_base_same_kernel ks -> dir_compatible fs0 ks ->
  read_safe Single (init fs0 ks) s = true ->
  let st := exec Single (init fs0 ks) s in
  forall i, (forall idx, r_pc (st_runs st i) <> Failed idx) /\
            (forall idx w, r_pc (st_runs st i) = Done idx w ->
               idx = 0 /\ r_psy (st_runs st i) = Some 0 /\
               lookup (st_fs st) (k_base (ks i), 0) = Some (Text (render (ks i) 0))).
Proof.
  intros fs0 ks s SB DC RS st i. split.
  - assert (SO : share_ok ks st).
    { apply (share_exec fs0); auto; [apply init_inv|]. split; cbn.
      - intro j. destruct (DC j) as [H|H]; auto.
      - intros; discriminate. }
    destruct SO as [_ NF]. apply NF.
  - intros idx w. apply single_uses_identical_.
Qed.

(* the TOCTOU: A creates the (still empty) file, B's O_EXCL open fails, B renames, B reads the
   empty file and compares -> GenerationError although both kernels are identical and the
   directory was empty *)
Definition k_wit : kernel := {| k_base := 7; k_rout := 7; k_body := 1 |}.
Lemma identical_share_refuted_ :
  exists (fs0 : fsys) (ks : nat -> kernel) (s : list nat) (i idx : nat),
    same_base_same_kernel ks /\ dir_compatible fs0 ks /\
    r_pc (st_runs (exec Single (init fs0 ks) s) i) = Failed idx.
Proof.
  exists [], (fun _ => k_wit), [0; 1; 1; 1], 1, 0. split; [|split].
  - intros i j _. reflexivity.
  - intro i. left. reflexivity.
  - vm_compute. reflexivity.
Qed.

(* ------------------------------------------------------------------ non-vacuity *)
Definition k_a : kernel := {| k_base := 1; k_rout := 1; k_body := 10 |}.
Definition k_b : kernel := {| k_base := 1; k_rout := 1; k_body := 11 |}.
Definition k_c : kernel := {| k_base := 2; k_rout := 3; k_body := 10 |}.

(* three runs (two of them on the same module name) racing in an arbitrary order in a directory
   that already holds <base1>_0_mod.f90: all finish, on files 1_2, 1_1 and 2_0 *)
Example multiple_nonvacuous :
  let fs0 := [((1, 0), Other 5)] in
  let st := exec Multiple (init fs0 (ks_of [k_a; k_b; k_c]))
                 [0; 1; 2; 1; 1; 0; 2; 0; 1; 2; 0; 1; 1; 2; 0; 0] in
  r_pc (st_runs st 0) = Done 2 true /\ r_pc (st_runs st 1) = Done 1 true /\
  r_pc (st_runs st 2) = Done 0 true /\
  lookup (st_fs st) (1, 2) = Some (Text (render k_a 2)) /\
  lookup (st_fs st) (1, 1) = Some (Text (render k_b 1)) /\
  lookup (st_fs st) (1, 0) = Some (Other 5).
Proof. vm_compute. repeat split. Qed.

(* single: identical kernels, one after the other (a read_safe schedule): one file, shared;
   a third run with a different kernel fails *)
Example single_nonvacuous :
  let s := [0; 0; 0; 0; 1; 1; 1; 2; 2; 2] in
  let st := exec Single (init [] (ks_of [k_a; k_a; k_b])) s in
  read_safe Single (init [] (ks_of [k_a; k_a; k_b])) s = true /\
  r_pc (st_runs st 0) = Done 0 true /\ r_pc (st_runs st 1) = Done 0 false /\
  r_pc (st_runs st 2) = Failed 0 /\
  lookup (st_fs st) (1, 0) = Some (Text (render k_a 0)).
Proof. vm_compute. repeat split. Qed.

Example share_partial_nonvacuous :
  let ks := fun _ : nat => k_a in
  let s := [0; 0; 1; 0; 2; 0; 1; 1; 2; 2] in
  same_base_same_kernel ks /\ dir_compatible [] ks /\
  read_safe Single (init [] ks) s = true /\
  r_pc (st_runs (exec Single (init [] ks) s) 1) = Done 0 false /\
  r_pc (st_runs (exec Single (init [] ks) s) 2) = Done 0 false.
Proof.
  split; [intros i j _; reflexivity|]. split; [intro i; left; reflexivity|].
  vm_compute. repeat split.
Qed.
