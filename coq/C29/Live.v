(* C29 -- 'multiple' scheme: from every reachable state, a run that is given enough steps
   completes (the index search terminates because the directory is finite). *)
From Coq Require Import List Arith Bool Lia.
Import ListNotations.
From PV Require Import C29.Model C29.Proofs.

Fixpoint max_idx (fs : fsys) : nat :=
  match fs with
  | [] => 0
  | ((_, j), _) :: r => Nat.max j (max_idx r)
  end.

Lemma lookup_above : forall fs b j, max_idx fs < j -> lookup fs (b, j) = None.
Proof.
  induction fs as [|[[b' j'] c] r IH]; intros b j H; cbn in *; [reflexivity|].
  unfold fname_eqb; cbn.
  destruct (Nat.eqb_spec j' j) as [E|N]; [lia|].
  rewrite andb_false_r. apply IH. lia.
Qed.

Lemma step_created : forall sch st i idx, r_pc (st_runs st i) = Created idx ->
  r_pc (st_runs (step sch st i) i) = ToWrite idx.
Proof. intros sch st i idx H. unfold step. rewrite H. cbn. rewrite upd_same. reflexivity. Qed.
Lemma step_towrite : forall sch st i idx, r_pc (st_runs st i) = ToWrite idx ->
  r_pc (st_runs (step sch st i) i) = ToClose idx.
Proof. intros sch st i idx H. unfold step. rewrite H. cbn. rewrite upd_same. reflexivity. Qed.
Lemma step_toclose : forall sch st i idx, r_pc (st_runs st i) = ToClose idx ->
  r_pc (st_runs (step sch st i) i) = Done idx true.
Proof. intros sch st i idx H. unfold step. rewrite H. cbn. rewrite upd_same. reflexivity. Qed.

Lemma solo_try : forall m st idx i,
  r_pc (st_runs st i) = Try idx ->
  lookup (st_fs st) (k_base (r_kern (st_runs st i)), idx + m) = None ->
  exists n idx', r_pc (st_runs (exec Multiple st (repeat i n)) i) = Created idx'.
Proof.
  induction m as [|m IH]; intros st idx i H L.
  - rewrite Nat.add_0_r in L. exists 1, idx. cbn. unfold step. rewrite H, L. cbn.
    rewrite upd_same. reflexivity.
  - destruct (lookup (st_fs st) (k_base (r_kern (st_runs st i)), idx)) as [c|] eqn:El.
    + destruct (IH (step Multiple st i) (S idx) i) as [n [idx' Hn]].
      * unfold step. rewrite H, El. cbn. rewrite upd_same. reflexivity.
      * unfold step. rewrite H, El. cbn. rewrite upd_same. cbn.
        replace (S (idx + m)) with (idx + S m) by lia. exact L.
      * exists (S n), idx'. cbn. exact Hn.
    + exists 1, idx. cbn. unfold step. rewrite H, El. cbn. rewrite upd_same. reflexivity.
Qed.

Definition multiple_pc (p : pc) : Prop :=
  match p with Found _ | ToRead _ | Failed _ | Done _ false => False | _ => True end.

Lemma solo_completes : forall st i, multiple_pc (r_pc (st_runs st i)) ->
  exists n idx, r_pc (st_runs (exec Multiple st (repeat i n)) i) = Done idx true.
Proof.
  intros st i M.
  assert (C : forall st' idx, r_pc (st_runs st' i) = Created idx ->
              r_pc (st_runs (exec Multiple st' (repeat i 3)) i) = Done idx true).
  { intros st' idx H. cbn. apply step_toclose, step_towrite, step_created. exact H. }
  destruct (r_pc (st_runs st i)) as [idx|idx|idx|idx|idx|idx|idx w|idx] eqn:E; cbn in M;
    try contradiction.
  - destruct (solo_try (S (max_idx (st_fs st))) st idx i E) as [n [idx' Hn]].
    + apply lookup_above. lia.
    + exists (n + 3), idx'. rewrite repeat_app, exec_app. apply C. exact Hn.
  - exists 3, idx. apply C. exact E.
  - exists 2, idx. cbn. apply step_toclose, step_towrite. exact E.
  - exists 1, idx. cbn. apply step_toclose. exact E.
  - destruct w; [|contradiction]. exists 0, idx. cbn. exact E.
Qed.

Lemma run_completes_ : forall fs0 ks s i,
  exists n idx, r_pc (st_runs (exec Multiple (init fs0 ks) (s ++ repeat i n)) i) = Done idx true.
Proof.
  intros fs0 ks s i.
  destruct (solo_completes (exec Multiple (init fs0 ks) s) i) as [n [idx H]].
  - destruct (inv_local _ _ _ _ (exec_inv fs0 ks Multiple s) i) as [_ [_ M]].
    exact (M eq_refl).
  - exists n, idx. rewrite exec_app. exact H.
Qed.
