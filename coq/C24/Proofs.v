(* C24 -- proofs about the model of coq/C24/Model.v.  Axiom-free. *)
From Coq Require Import List Bool String Ascii NArith Lia.
Import ListNotations.
From PV Require Import C24.Fresh C24.Model.
Open Scope string_scope.

(* ------------------------------------------------------------ small facts *)
Lemma mem_str_app : forall x a b, mem_str x (a ++ b) = mem_str x a || mem_str x b.
Proof.
  intros x a b; induction a as [|y a IH]; simpl; [reflexivity|].
  destruct (String.eqb x y); [reflexivity | exact IH].
Qed.

Lemma lookup_app : forall t a b,
    lookup t (a ++ b) = match lookup t a with Some v => Some v | None => lookup t b end.
Proof.
  intros t a b; induction a as [|[k v] a IH]; simpl; [reflexivity|].
  destruct (String.eqb t k); [reflexivity | exact IH].
Qed.

Lemma lookup_In : forall t l n, lookup t l = Some n -> In (t, n) l.
Proof.
  intros t l n; induction l as [|[k v] l IH]; simpl; [discriminate|].
  destruct (String.eqb_spec t k) as [E|E]; intro H.
  - inversion H; subst; left; reflexivity.
  - right; apply IH; exact H.
Qed.

Lemma lookup_None : forall t l, lookup t l = None -> ~ In t (map fst l).
Proof.
  intros t l; induction l as [|[k v] l IH]; simpl; [tauto|].
  destruct (String.eqb_spec t k) as [E|E]; [discriminate|].
  intros H [H'|H']; [congruence | exact (IH H H')].
Qed.

Lemma NoDup_snoc {A} : forall (l : list A) x, NoDup l -> ~ In x l -> NoDup (l ++ [x]).
Proof.
  induction l as [|y l IH]; intros x Hl Hx; simpl.
  - constructor; [tauto | constructor].
  - inversion Hl as [|? ? Hy Hl']; subst. constructor.
    + rewrite in_app_iff; simpl. intros [H|[H|[]]]; [exact (Hy H) | subst; apply Hx; left; reflexivity].
    + apply IH; [exact Hl' | intro H; apply Hx; right; exact H].
Qed.

Lemma NoDup_map_inj {A B} (f : A -> B) : forall l x y,
    NoDup (map f l) -> In x l -> In y l -> f x = f y -> x = y.
Proof.
  induction l as [|z l IH]; intros x y Hnd Hx Hy E; simpl in *; [tauto|].
  inversion Hnd as [|? ? Hz Hnd']; subst.
  destruct Hx as [Hx|Hx], Hy as [Hy|Hy]; subst.
  - reflexivity.
  - exfalso; apply Hz; rewrite E; apply in_map; exact Hy.
  - exfalso; apply Hz; rewrite <- E; apply in_map; exact Hx.
  - eapply IH; eauto.
Qed.

(* ------------------------------------------------- the symbol-table state *)
Definition nname (p : string * string) : string := normalize (snd p).

Definition wf (s : st) : Prop :=
  NoDup (map fst (tags s)) /\ NoDup (map nname (tags s)) /\ incl (map nname (tags s)) (used s).

Lemma foc_wf : forall s tag rt, wf s -> wf (foc s tag rt).
Proof.
  intros s tag rt [Hk [Hn Hi]]. unfold foc.
  destruct (lookup tag (tags s)) eqn:E; [split; [|split]; assumption|].
  unfold wf. cbn [tags used]. rewrite !map_app. cbn [map fst snd]. unfold nname at 2. cbn [snd].
  pose proof (fresh_not_used rt (used s)) as Hf.
  split; [|split].
  - apply NoDup_snoc; [exact Hk | apply lookup_None; exact E].
  - apply NoDup_snoc; [exact Hn | intro H; apply Hf; apply Hi; exact H].
  - intros x Hx. apply in_app_iff in Hx as [Hx|[Hx|[]]].
    + right; apply Hi; exact Hx.
    + left; exact Hx.
Qed.

Lemma foc_mono : forall s tag rt t n,
    lookup t (tags s) = Some n -> lookup t (tags (foc s tag rt)) = Some n.
Proof.
  intros s tag rt t n H. unfold foc.
  destruct (lookup tag (tags s)); [exact H|]. cbn [tags]. rewrite lookup_app, H. reflexivity.
Qed.

Lemma foc_binds : forall s tag rt, lookup tag (tags (foc s tag rt)) <> None.
Proof.
  intros s tag rt. unfold foc.
  destruct (lookup tag (tags s)) eqn:E; [rewrite E; discriminate|].
  cbn [tags]. rewrite lookup_app, E. simpl. rewrite String.eqb_refl. discriminate.
Qed.

Lemma fold_wf : forall rs s, wf s -> wf (fold_left step rs s).
Proof. induction rs as [|r rs IH]; intros s H; simpl; [exact H | apply IH, foc_wf, H]. Qed.

Lemma fold_mono : forall rs s t n,
    lookup t (tags s) = Some n -> lookup t (tags (fold_left step rs s)) = Some n.
Proof.
  induction rs as [|r rs IH]; intros s t n H; simpl; [exact H | apply IH, foc_mono, H].
Qed.

Lemma fold_binds : forall rs s tag rt,
    In (tag, rt) rs -> lookup tag (tags (fold_left step rs s)) <> None.
Proof.
  induction rs as [|r rs IH]; intros s tag rt Hin; simpl in *; [tauto|].
  destruct Hin as [E|Hin]; [|eapply IH; eauto].
  subst r. unfold step at 2. cbn [fst snd].
  destruct (lookup tag (tags (foc s tag rt))) eqn:E; [|exfalso; exact (foc_binds _ _ _ E)].
  rewrite (fold_mono rs _ _ _ E). discriminate.
Qed.

Lemma final_wf : forall pre ks, wf (final pre ks).
Proof.
  intros. apply fold_wf. split; [|split]; simpl; [constructor | constructor | intros x []].
Qed.

Definition bound (F : st) (t : string) : Prop := lookup (tagof t) (tags F) <> None.

Lemma tagof_inj : forall a b, tagof a = tagof b -> a = b.
Proof. intros a b H. unfold tagof in H. eapply str_app_inv_head; eauto. Qed.

(* names_injective_on_texts, in its general form *)
Lemma name_of_inj : forall F t1 t2,
    wf F -> bound F t1 -> bound F t2 -> name_of F t1 = name_of F t2 -> t1 = t2.
Proof.
  intros F t1 t2 [_ [Hn _]] B1 B2 E. unfold name_of, bound in *.
  destruct (lookup (tagof t1) (tags F)) as [n1|] eqn:E1; [|congruence].
  destruct (lookup (tagof t2) (tags F)) as [n2|] eqn:E2; [|congruence].
  subst n2. apply lookup_In in E1. apply lookup_In in E2.
  apply tagof_inj.
  assert (P : (tagof t1, n1) = (tagof t2, n1)) by (eapply (NoDup_map_inj nname); eauto).
  inversion P; reflexivity.
Qed.

(* ------------------------------------------------ every passed text is bound *)
Lemma texts_kernel_req : forall p r k t,
    (forall r', role_eqb r' r = true -> p r' = true) ->
    In t (flat_map (fun ra => if role_eqb (fst ra) r && passed ra then [text (snd ra)] else []) (flat_args k)) ->
    exists rt, In (tagof t, rt) (reqs_where p k).
Proof.
  intros p r k t Hp Hin. unfold reqs_where.
  apply in_flat_map in Hin as [ra [Hra Ht]].
  destruct (role_eqb (fst ra) r) eqn:Er; [|simpl in Ht; tauto].
  destruct (passed ra) eqn:Ep; simpl in Ht; [|tauto].
  destruct Ht as [Ht|[]]. subst t.
  exists (root (snd ra)). apply in_flat_map. exists ra. split; [exact Hra|].
  rewrite (Hp _ Er). unfold req_of. rewrite Ep. left; reflexivity.
Qed.

Lemma texts_of_req : forall r ks t, In t (texts_of r ks) -> exists rt, In (tagof t, rt) (reqs ks).
Proof.
  intros r ks t Hin. unfold texts_of in Hin. apply in_flat_map in Hin as [k [Hk Hin]].
  assert (H : exists rt, In (tagof t, rt) (kcall_reqs k)).
  { unfold kcall_reqs. destruct r.
    - destruct (texts_kernel_req is_main RMain k t) as [rt H]; [intros r' E; exact E | exact Hin |].
      exists rt. right. apply in_or_app. left; exact H.
    - destruct (texts_kernel_req is_sten RExt k t) as [rt H];
        [intros r' E; unfold is_sten; rewrite E; reflexivity | exact Hin |].
      exists rt. right. apply in_or_app. right. apply in_or_app. left; exact H.
    - destruct (texts_kernel_req is_sten RDir k t) as [rt H];
        [intros r' E; unfold is_sten; rewrite E; apply orb_true_r | exact Hin |].
      exists rt. right. apply in_or_app. right. apply in_or_app. left; exact H.
    - destruct (texts_kernel_req is_qr RQr k t) as [rt H]; [intros r' E; exact E | exact Hin |].
      exists rt. right. apply in_or_app. right. apply in_or_app. right; exact H. }
  destruct H as [rt H]. exists rt. unfold reqs. apply in_flat_map. exists k. split; assumption.
Qed.

Lemma texts_bound : forall pre r ks t, In t (texts_of r ks) -> bound (final pre ks) t.
Proof.
  intros pre r ks t Hin. destruct (texts_of_req _ _ _ Hin) as [rt H].
  unfold bound, final. eapply fold_binds; eauto.
Qed.

(* ------------------------------------------------------------ de-duplication *)
Lemma uniq_acc_In : forall l seen x, In x (uniq_acc seen l) <-> In x l /\ ~ In x seen.
Proof.
  induction l as [|y l IH]; intros seen x; simpl; [tauto|].
  destruct (mem_str y seen) eqn:E.
  - apply mem_str_In in E. rewrite IH. split.
    + intros [H1 H2]; split; [right; exact H1 | exact H2].
    + intros [[H1|H1] H2]; [subst; contradiction | split; assumption].
  - apply mem_str_false in E. simpl. rewrite IH. simpl. split.
    + intros [H|[H1 H2]]; [subst; split; [left; reflexivity | exact E] | split; [right; exact H1 | tauto]].
    + intros [[H1|H1] H2]; [left; exact H1|].
      destruct (string_dec y x) as [D|D]; [left; exact D | right; split; [exact H1 | intros [H|H]; tauto]].
Qed.

Lemma uniq_In : forall l x, In x (uniq l) <-> In x l.
Proof. intros l x. unfold uniq. rewrite uniq_acc_In. simpl. tauto. Qed.

Lemma uniq_acc_NoDup : forall l seen, NoDup (uniq_acc seen l).
Proof.
  induction l as [|y l IH]; intros seen; simpl; [constructor|].
  destruct (mem_str y seen); [apply IH|].
  constructor; [|apply IH]. rewrite uniq_acc_In. simpl. tauto.
Qed.

Lemma uniq_NoDup : forall l, NoDup (uniq l).
Proof. intros; apply uniq_acc_NoDup. Qed.

Lemma mem_str_map_inj : forall (f : string -> string) x l,
    (forall y, In y l -> f x = f y -> x = y) -> mem_str (f x) (map f l) = mem_str x l.
Proof.
  intros f x l; induction l as [|y l IH]; intros Hinj; simpl; [reflexivity|].
  destruct (String.eqb_spec x y) as [E|E].
  - subst; rewrite String.eqb_refl; reflexivity.
  - destruct (String.eqb_spec (f x) (f y)) as [E'|E'].
    + exfalso; apply E, Hinj; [left; reflexivity | exact E'].
    + apply IH. intros z Hz; apply Hinj; right; exact Hz.
Qed.

(* dedup by NAME of the names = names of the dedup by TEXT, when naming is injective on the texts *)
Lemma uniq_acc_map : forall (f : string -> string) l seen,
    (forall x y, In x (seen ++ l) -> In y (seen ++ l) -> f x = f y -> x = y) ->
    uniq_acc (map f seen) (map f l) = map f (uniq_acc seen l).
Proof.
  intros f l; induction l as [|x l IH]; intros seen Hinj; simpl; [reflexivity|].
  rewrite mem_str_map_inj.
  - destruct (mem_str x seen).
    + apply IH. intros a b Ha Hb; apply Hinj; rewrite in_app_iff in *; simpl; tauto.
    + simpl. f_equal. apply (IH (x :: seen)).
      intros a b Ha Hb; apply Hinj; rewrite in_app_iff in *; simpl in *; tauto.
  - intros y Hy; apply Hinj; rewrite in_app_iff; simpl; tauto.
Qed.

Lemma uniq_map : forall (f : string -> string) l,
    (forall x y, In x l -> In y l -> f x = f y -> x = y) -> uniq (map f l) = map f (uniq l).
Proof. intros f l H. unfold uniq. apply (uniq_acc_map f l []). simpl. exact H. Qed.

Lemma name_of_inj_on : forall pre r ks x y,
    In x (texts_of r ks) -> In y (texts_of r ks) ->
    name_of (final pre ks) x = name_of (final pre ks) y -> x = y.
Proof.
  intros pre r ks x y Hx Hy E.
  eapply name_of_inj; eauto using final_wf, texts_bound.
Qed.

(* ------------------------------------------------------ alignment of the layers *)
(* the dummy list is, position by position, the list of names of the (repaired) actual list *)
Theorem dummies_are_names_of_fixed : forall pre ks,
    psy_dummies pre ks = map (name_of (final pre ks)) (alg_args_fixed ks).
Proof.
  intros pre ks. unfold psy_dummies, alg_args_fixed. rewrite !map_app.
  rewrite (uniq_map _ (texts_of RMain ks)) by (intros x y; apply name_of_inj_on).
  rewrite (uniq_map _ (texts_of RQr ks)) by (intros x y; apply name_of_inj_on).
  reflexivity.
Qed.

Theorem alg_psy_same_length_ : forall pre ks,
    List.length (alg_args pre ks) = List.length (psy_dummies pre ks).
Proof.
  intros pre ks. rewrite dummies_are_names_of_fixed. unfold alg_args, alg_args_fixed.
  rewrite map_length, !app_length, !map_length. reflexivity.
Qed.

Lemma map_id_on : forall (f : string -> string) l,
    forallb (fun t => String.eqb (f t) t) l = true -> map f l = l.
Proof.
  intros f l; induction l as [|x l IH]; simpl; [reflexivity|].
  intro H. apply andb_true_iff in H as [H1 H2]. apply String.eqb_eq in H1. rewrite H1, IH; auto.
Qed.

Lemma safe_alg_fixed : forall pre ks, stencil_safe pre ks = true -> alg_args pre ks = alg_args_fixed ks.
Proof.
  intros pre ks H. unfold stencil_safe in H. rewrite forallb_app in H.
  apply andb_true_iff in H as [H1 H2]. unfold alg_args, alg_args_fixed.
  rewrite (map_id_on _ _ H1), (map_id_on _ _ H2). reflexivity.
Qed.

(* positions_aligned for the code as it is, under the sufficient condition *)
Theorem positions_aligned_partial_ : forall pre ks,
    stencil_safe pre ks = true ->
    psy_dummies pre ks = map (name_of (final pre ks)) (alg_args pre ks).
Proof. intros pre ks H. rewrite (safe_alg_fixed _ _ H). apply dummies_are_names_of_fixed. Qed.

(* ... and, unconditionally, for the part of the lists that carries kernel arguments and quadrature:
   the i-th dummy is the name of the i-th actual wherever the i-th actual is one of those texts *)
Lemma nth_error_app_r {A} : forall (a x : list A) q, nth_error (a ++ x) (List.length a + q) = nth_error x q.
Proof. induction a as [|y a IH]; intros x q; simpl; [reflexivity | apply IH]. Qed.

(* ------------------------------------------------------ kernel bindings *)
Lemma passed_text_in : forall ks k j ra,
    In k ks -> nth_error (flat_args k) j = Some ra -> passed ra = true ->
    In (text (snd ra)) (texts_of (fst ra) ks).
Proof.
  intros ks k j ra Hk Hj Hp. unfold texts_of. apply in_flat_map. exists k. split; [exact Hk|].
  apply in_flat_map. exists ra. split; [eapply nth_error_In; eauto|].
  rewrite Hp. destruct (fst ra); simpl; left; reflexivity.
Qed.

Lemma in_fixed : forall r ks t, In t (texts_of r ks) -> In t (alg_args_fixed ks).
Proof.
  intros r ks t H. unfold alg_args_fixed. rewrite !in_app_iff, !uniq_In.
  destruct r; tauto.
Qed.

(* repaired algorithm layer: every passed kernel argument is bound to the actual with its source text *)
Theorem kernel_arg_bound_fixed_ : forall pre ks k j ra,
    In k ks -> nth_error (flat_args k) j = Some ra -> passed ra = true ->
    nth_error (kernel_used (final pre ks) k) j = Some (used_of (final pre ks) ra) /\
    bound_ok (alg_args_fixed ks) (psy_dummies pre ks) (used_of (final pre ks) ra) (text (snd ra)).
Proof.
  intros pre ks k j ra Hk Hj Hp. split.
  - unfold kernel_used. apply map_nth_error. exact Hj.
  - pose proof (in_fixed _ _ _ (passed_text_in _ _ _ _ Hk Hj Hp)) as Hin.
    apply In_nth_error in Hin as [p Hpn]. exists p. split; [|exact Hpn].
    rewrite dummies_are_names_of_fixed. unfold used_of. rewrite Hp.
    apply map_nth_error. exact Hpn.
Qed.

(* the code as it is, under the sufficient condition *)
Theorem kernel_arg_bound_partial_ : forall pre ks k j ra,
    stencil_safe pre ks = true ->
    In k ks -> nth_error (flat_args k) j = Some ra -> passed ra = true ->
    nth_error (kernel_used (final pre ks) k) j = Some (used_of (final pre ks) ra) /\
    bound_ok (alg_args pre ks) (psy_dummies pre ks) (used_of (final pre ks) ra) (text (snd ra)).
Proof.
  intros pre ks k j ra Hs. rewrite (safe_alg_fixed _ _ Hs). apply kernel_arg_bound_fixed_.
Qed.

(* the code as it is, unconditionally, for kernel arguments proper (fields, scalars, operators) and
   quadrature objects: only stencil extents / directions can be mis-passed *)
Theorem kernel_arg_bound_main_qr_ : forall pre ks k j ra,
    In k ks -> nth_error (flat_args k) j = Some ra -> passed ra = true ->
    (fst ra = RMain \/ fst ra = RQr) ->
    bound_ok (alg_args pre ks) (psy_dummies pre ks) (used_of (final pre ks) ra) (text (snd ra)).
Proof.
  intros pre ks k j ra Hk Hj Hp Hr.
  pose proof (passed_text_in _ _ _ _ Hk Hj Hp) as Hin.
  set (F := final pre ks).
  assert (Hpsy : psy_dummies pre ks =
                 (map (name_of F) (uniq (texts_of RMain ks)) ++
                 (map (name_of F) (uniq (texts_of RExt ks)) ++ map (name_of F) (uniq (texts_of RDir ks))) ++
                 map (name_of F) (uniq (texts_of RQr ks)))%list).
  { rewrite dummies_are_names_of_fixed. unfold alg_args_fixed. rewrite !map_app, <- !app_assoc. reflexivity. }
  assert (Halg : alg_args pre ks =
                 (uniq (texts_of RMain ks) ++
                 (map (name_of F) (uniq (texts_of RExt ks)) ++ map (name_of F) (uniq (texts_of RDir ks))) ++
                 uniq (texts_of RQr ks))%list).
  { unfold alg_args. fold F. rewrite <- !app_assoc. reflexivity. }
  unfold used_of. rewrite Hp. fold F.
  destruct Hr as [Hr|Hr]; rewrite Hr in Hin.
  - apply uniq_In in Hin. apply In_nth_error in Hin as [p Hpn].
    exists p. rewrite Hpsy, Halg. split.
    + rewrite nth_error_app1; [apply map_nth_error; exact Hpn|].
      rewrite map_length. apply nth_error_Some. congruence.
    + rewrite nth_error_app1; [exact Hpn | apply nth_error_Some; congruence].
  - apply uniq_In in Hin. apply In_nth_error in Hin as [p Hpn].
    set (A1 := uniq (texts_of RMain ks)) in *.
    set (M := (map (name_of F) (uniq (texts_of RExt ks)) ++ map (name_of F) (uniq (texts_of RDir ks)))%list) in *.
    exists (List.length A1 + (List.length M + p)). rewrite Hpsy, Halg. split.
    + replace (List.length A1) with (List.length (map (name_of F) A1)) by apply map_length.
      rewrite nth_error_app_r, nth_error_app_r. apply map_nth_error. exact Hpn.
    + rewrite nth_error_app_r, nth_error_app_r. exact Hpn.
Qed.

(* ------------------------------------------------------ injectivity / duplicates *)
Theorem names_injective_on_texts_ : forall pre ks r1 r2 t1 t2,
    In t1 (texts_of r1 ks) -> In t2 (texts_of r2 ks) ->
    (name_of (final pre ks) t1 = name_of (final pre ks) t2 <-> t1 = t2).
Proof.
  intros pre ks r1 r2 t1 t2 H1 H2. split; [|intro; subst; reflexivity].
  intro E. eapply name_of_inj; eauto using final_wf, texts_bound.
Qed.

(* same meaning, different spelling => same text => same name *)
Theorem spelling_irrelevant_ : forall F a b, text a = text b -> name_of F (text a) = name_of F (text b).
Proof. intros F a b E; rewrite E; reflexivity. Qed.

Lemma NoDup_map_on {A B} (f : A -> B) : forall l,
    (forall x y, In x l -> In y l -> f x = f y -> x = y) -> NoDup l -> NoDup (map f l).
Proof.
  induction l as [|x l IH]; intros Hinj Hnd; simpl; [constructor|].
  inversion Hnd as [|? ? Hx Hl]; subst. constructor.
  - intro H. apply in_map_iff in H as [y [Hy Hy']].
    assert (y = x) by (apply Hinj; simpl; auto). subst. contradiction.
  - apply IH; [intros a b Ha Hb; apply Hinj; simpl; auto | exact Hl].
Qed.

Lemma fixed_bound : forall pre ks t, In t (alg_args_fixed ks) -> bound (final pre ks) t.
Proof.
  intros pre ks t H. unfold alg_args_fixed in H. rewrite !in_app_iff, !uniq_In in H.
  destruct H as [H|[H|[H|H]]]; eapply texts_bound; eauto.
Qed.

(* the dummy list has no repeated name as long as no text is used in two roles *)
Theorem dummies_nodup_partial_ : forall pre ks,
    NoDup (alg_args_fixed ks) -> NoDup (psy_dummies pre ks).
Proof.
  intros pre ks H. rewrite dummies_are_names_of_fixed. apply NoDup_map_on; [|exact H].
  intros x y Hx Hy E. eapply name_of_inj; eauto using final_wf, fixed_bound.
Qed.

(* ------------------------------------------------------ bound_okb reflects bound_ok *)
Lemma bound_okb_spec : forall alg psy u src, bound_okb alg psy u src = true <-> bound_ok alg psy u src.
Proof.
  induction alg as [|a alg IH]; intros psy u src; simpl.
  - split; [destruct psy; discriminate | intros [p [_ H]]; destruct p; discriminate].
  - destruct psy as [|d psy].
    + split; [discriminate | intros [p [H _]]; destruct p; discriminate].
    + rewrite orb_true_iff, andb_true_iff, !String.eqb_eq, IH. split.
      * intros [[H1 H2]|[p [H1 H2]]]; [exists 0; subst; simpl; auto | exists (S p); simpl; auto].
      * intros [[|p] [H1 H2]]; simpl in *; [left; split; congruence | right; exists p; auto].
Qed.

(* ------------------------------------------------------ text normalisation *)
Lemma norm_idem : forall s, norm (norm s) = norm s.
Proof.
  induction s as [|c s IH]; simpl; [reflexivity|].
  destruct (Ascii.eqb c " ") eqn:E; [exact IH|].
  simpl. rewrite lower_ascii_idem.
  assert (Hl : Ascii.eqb (lower_ascii c) " " = false).
  { destruct c as [b0 b1 b2 b3 b4 b5 b6 b7].
    destruct b0, b1, b2, b3, b4, b5, b6, b7; try reflexivity; discriminate E. }
  rewrite Hl, IH. reflexivity.
Qed.

(* ------------------------------------------------------ concrete instances *)
Definition pre0 : list string :=
  ["invoke_0"; "stencil_1dx"; "stencil_1dy"; "stencil_cross"; "stencil_2d_cross"; "stencil_region";
   "omp_get_thread_num"; "omp_get_max_threads"].
Definition v (n : string) : sarg := SRef [(n, None)].
Definition ix (n i : string) : sarg := SRef [(n, Some i)].

(* testkern_stencil_type(f1, f2, exts(1), m1, m2): the extent is an array element *)
Definition wit_stencil : list kcall :=
  [ {| k_builtin := false;
       k_slots := [Plain (v "f1"); Sten (v "f2") (ix "exts" "1") None; Plain (v "m1"); Plain (v "m2")];
       k_qr := [] |} ].

(* the extent n is also an integer argument of another kernel of the invoke *)
Definition wit_dup : list kcall :=
  [ {| k_builtin := false;
       k_slots := [Plain (v "f1"); Plain (v "n"); Plain (v "f2"); Plain (v "m1"); Plain (v "m2")]; k_qr := [] |};
    {| k_builtin := false;
       k_slots := [Plain (v "f1"); Sten (v "f2") (v "n") None; Plain (v "m1"); Plain (v "m2")]; k_qr := [] |} ].

(* a well-behaved invoke with repeats, spellings, renamings, literals, a simple extent and quadrature *)
Definition ex_ok : list kcall :=
  [ {| k_builtin := false;
       k_slots := [Plain (SRef [("obj", None); ("f", None)]); Sten (v "F1") (v "ext") (Some (v "x_direction"));
                   Plain (v "obj_f"); Plain (ix "fa" " 2 ")];
       k_qr := [v "qr"] |};
    {| k_builtin := true;
       k_slots := [Plain (ix "FA" "2"); Plain (SLit "1.0_r_def"); Plain (v "fa_1"); Plain (v "f1 ")]; k_qr := [] |} ].

Lemma refuted_binding :
  exists pre ks k j ra,
    In k ks /\ nth_error (flat_args k) j = Some ra /\ passed ra = true /\
    ~ bound_ok (alg_args pre ks) (psy_dummies pre ks) (used_of (final pre ks) ra) (text (snd ra)).
Proof.
  exists pre0, wit_stencil, (hd {| k_builtin := true; k_slots := []; k_qr := [] |} wit_stencil), 2,
         (RExt, ix "exts" "1").
  split; [left; reflexivity|]. split; [reflexivity|]. split; [reflexivity|].
  rewrite <- bound_okb_spec. vm_compute. discriminate.
Qed.

Lemma refuted_actual_text :
  exists pre ks, alg_args pre ks = ["f1"; "f2"; "m1"; "m2"; "exts"] /\
                 alg_args_fixed ks = ["f1"; "f2"; "m1"; "m2"; "exts(1)"] /\
                 psy_dummies pre ks = ["f1"; "f2"; "m1"; "m2"; "exts"].
Proof. exists pre0, wit_stencil. vm_compute. repeat split. Qed.

Lemma refuted_nodup : exists pre ks, ~ NoDup (psy_dummies pre ks).
Proof.
  exists pre0, wit_dup.
  assert (E : psy_dummies pre0 wit_dup = ["f1"; "n"; "f2"; "m1"; "m2"; "n"]) by (vm_compute; reflexivity).
  rewrite E. intro H. inversion H as [|? ? _ H1]; subst. inversion H1 as [|? ? Hn _]; subst.
  apply Hn. simpl. tauto.
Qed.

Lemma nonvacuous_ok :
  stencil_safe pre0 ex_ok = true /\ NoDup (alg_args_fixed ex_ok) /\
  alg_args pre0 ex_ok = ["obj%f"; "f1"; "obj_f"; "fa(2)"; "fa_1"; "ext"; "qr"] /\
  psy_dummies pre0 ex_ok = ["obj_f"; "f1"; "obj_f_1"; "fa"; "fa_1"; "ext"; "qr"] /\
  map (kernel_used (final pre0 ex_ok)) ex_ok =
    [["obj_f"; "f1"; "ext"; "x_direction"; "obj_f_1"; "fa"; "qr"]; ["fa"; "1.0_r_def"; "fa_1"; "f1"]].
Proof.
  split; [vm_compute; reflexivity|]. split; [|vm_compute; repeat split].
  assert (E : alg_args_fixed ex_ok = ["obj%f"; "f1"; "obj_f"; "fa(2)"; "fa_1"; "ext"; "qr"])
    by (vm_compute; reflexivity).
  rewrite E. repeat (constructor; [simpl; intuition discriminate|]). constructor.
Qed.
