(* C24 -- model of how PSyclone (LFRic API) builds the argument list of an invoke in BOTH layers.
   No proofs in this file; everything is a total computable function.

   Modelled code (as it is today, including its defects):
   * parse/algorithm.py get_kernel / create_var_name : Arg.text = fparser tostr().lower()  ([text]: blank-free,
     lower-case, components joined by "%"), Arg.varname = component names joined by "_" ([root]);
   * psyGen.py Argument._complete_init, dynamo0p3.py DynKernelArguments.__init__ (stencil extent / direction),
     lfric_kern.py LFRicKern._setup (quadrature): name := find_or_create_tag("AlgArgs_"+text, root)  ([foc]);
     psyir SymbolTable.next_available_name: root, root_1, root_2, ...                                  ([fresh]);
   * psyGen.py Invoke.__init__ : _alg_unique_args (dedup by TEXT), _psy_unique_vars (dedup by NAME);
   * lfric_invoke.py LFRicInvoke.__init__ / gen_code and lfric_stencils.py unique_alg_vars:
       algorithm actuals = unique texts ++ extent NAMES ++ direction NAMES ++ unique qr texts
       PSy dummies       = unique names ++ extent NAMES ++ direction NAMES ++ unique qr names
     (extents / directions are de-duplicated by text but passed BY NAME in both layers: [alg_args]);
   * [alg_args_fixed] = the same with the stencil block passed by text (props/C24/fix.patch).
   The order of the symbol-table requests follows the construction order of the schedule: per kernel call
   the loop variable (cell / df), the kernel arguments, then the stencil extents/directions, then the
   quadrature arguments. *)
From Coq Require Import List Bool String Ascii NArith.
Import ListNotations.
From PV Require Import C24.Fresh.
Open Scope string_scope.

(* ------------------------------------------------------------------ texts *)
(* case / blank normalisation: what "the same argument text" means *)
Fixpoint norm (s : string) : string :=
  match s with
  | EmptyString => EmptyString
  | String c r => if Ascii.eqb c " "%char then norm r else String (lower_ascii c) (norm r)
  end.

(* a component of a reference as written: name and, if present, the text between the parentheses *)
Definition comp := (string * option string)%type.

(* a source argument: a literal, or a reference  c1 % c2 % ... *)
Inductive sarg := SLit (t : string) | SRef (cs : list comp).

Definition comp_text (c : comp) : string :=
  match c with
  | (n, None) => norm n
  | (n, Some ix) => norm n ++ "(" ++ norm ix ++ ")"
  end.

Fixpoint join (sep : string) (l : list string) : string :=
  match l with
  | [] => ""
  | x :: r => match r with [] => x | _ => x ++ sep ++ join sep r end
  end.

Definition text (a : sarg) : string :=
  match a with SLit t => norm t | SRef cs => join "%" (map comp_text cs) end.

(* create_var_name(...).lower() *)
Definition root (a : sarg) : string :=
  match a with SLit _ => "" | SRef cs => join "_" (map (fun c : comp => norm (fst c)) cs) end.

Definition is_lit (a : sarg) : bool := match a with SLit _ => true | SRef _ => false end.

(* ---------------------------------------------------------- kernel calls *)
(* an argument slot of the kernel metadata: an ordinary argument, or a field with a stencil, which is
   followed in the source by its extent and (xory1d) its direction *)
Inductive slot :=
| Plain (a : sarg)
| Sten (a : sarg) (ext : sarg) (dir : option sarg).

Record kcall := { k_builtin : bool; k_slots : list slot; k_qr : list sarg }.

Inductive role := RMain | RExt | RDir | RQr.
Definition role_eqb (a b : role) : bool :=
  match a, b with RMain, RMain | RExt, RExt | RDir, RDir | RQr, RQr => true | _, _ => false end.

Definition slot_args (s : slot) : list (role * sarg) :=
  match s with
  | Plain a => [(RMain, a)]
  | Sten a e d => (RMain, a) :: (RExt, e) :: match d with Some d' => [(RDir, d')] | None => [] end
  end.

(* the arguments of the kernel call in SOURCE order, with their role *)
Definition flat_args (k : kcall) : list (role * sarg) :=
  flat_map slot_args (k_slots k) ++ map (fun q => (RQr, q)) (k_qr k).

Definition dirconsts : list string := ["x_direction"; "y_direction"].

(* does this source argument travel through the argument list of the invoke?  (literals and the
   direction constants x_direction / y_direction do not) *)
Definition passed (ra : role * sarg) : bool :=
  negb (is_lit (snd ra)) &&
  match fst ra with RDir => negb (mem_str (text (snd ra)) dirconsts) | _ => true end.

(* ------------------------------------------------------ the symbol table *)
Record st := { tags : list (string * string); used : list string }.

Fixpoint lookup (t : string) (l : list (string * string)) : option string :=
  match l with
  | [] => None
  | (k, v) :: r => if String.eqb t k then Some v else lookup t r
  end.

(* find_or_create_tag(tag, root) *)
Definition foc (s : st) (tag rt : string) : st :=
  match lookup tag (tags s) with
  | Some _ => s
  | None => let n := fresh rt (used s) in
            {| tags := tags s ++ [(tag, n)]; used := normalize n :: used s |}
  end.

Definition tagof (t : string) : string := "AlgArgs_" ++ t.

Definition req_of (ra : role * sarg) : list (string * string) :=
  if passed ra then [(tagof (text (snd ra)), root (snd ra))] else [].

Definition reqs_where (p : role -> bool) (k : kcall) : list (string * string) :=
  flat_map (fun ra => if p (fst ra) then req_of ra else []) (flat_args k).

Definition loop_req (k : kcall) : string * string :=
  if k_builtin k then ("dof_loop_idx", "df") else ("cell_loop_idx", "cell").

Definition is_main (r : role) := role_eqb r RMain.
Definition is_sten (r : role) := role_eqb r RExt || role_eqb r RDir.
Definition is_qr (r : role) := role_eqb r RQr.

Definition kcall_reqs (k : kcall) : list (string * string) :=
  loop_req k :: reqs_where is_main k ++ reqs_where is_sten k ++ reqs_where is_qr k.

Definition reqs (ks : list kcall) : list (string * string) := flat_map kcall_reqs ks.

Definition step (s : st) (r : string * string) : st := foc s (fst r) (snd r).

(* the table after the whole schedule has been built; [pre] = names present before (routine name, reserved) *)
Definition final (pre : list string) (ks : list kcall) : st :=
  fold_left step (reqs ks) {| tags := []; used := pre |}.

(* the PSy-layer name of the argument whose text is t *)
Definition name_of (F : st) (t : string) : string :=
  match lookup (tagof t) (tags F) with Some n => n | None => "" end.

(* ------------------------------------------------------ de-duplication *)
Fixpoint uniq_acc (seen l : list string) : list string :=
  match l with
  | [] => []
  | x :: r => if mem_str x seen then uniq_acc seen r else x :: uniq_acc (x :: seen) r
  end.
Definition uniq (l : list string) : list string := uniq_acc [] l.

(* the texts of the passed arguments with a given role, in schedule order *)
Definition texts_of (r : role) (ks : list kcall) : list string :=
  flat_map (fun k => flat_map (fun ra => if role_eqb (fst ra) r && passed ra then [text (snd ra)] else [])
                              (flat_args k)) ks.

(* ------------------------------------------------------ the two layers *)
(* actual arguments of the generated  call invoke_x(...)  -- the code as it is *)
Definition alg_args (pre : list string) (ks : list kcall) : list string :=
  let F := final pre ks in
  uniq (texts_of RMain ks)
  ++ map (name_of F) (uniq (texts_of RExt ks))
  ++ map (name_of F) (uniq (texts_of RDir ks))
  ++ uniq (texts_of RQr ks).

(* dummy arguments of the generated  subroutine invoke_x(...) *)
Definition psy_dummies (pre : list string) (ks : list kcall) : list string :=
  let F := final pre ks in
  uniq (map (name_of F) (texts_of RMain ks))
  ++ map (name_of F) (uniq (texts_of RExt ks))
  ++ map (name_of F) (uniq (texts_of RDir ks))
  ++ uniq (map (name_of F) (texts_of RQr ks)).

(* the repaired algorithm layer: stencil extents / directions passed by their text *)
Definition alg_args_fixed (ks : list kcall) : list string :=
  uniq (texts_of RMain ks) ++ uniq (texts_of RExt ks) ++ uniq (texts_of RDir ks) ++ uniq (texts_of RQr ks).

(* what the PSy layer uses at a kernel-argument position: the name of a passed argument, else the text *)
Definition used_of (F : st) (ra : role * sarg) : string :=
  if passed ra then name_of F (text (snd ra)) else text (snd ra).

Definition kernel_used (F : st) (k : kcall) : list string := map (used_of F) (flat_args k).

(* "the variable used is a dummy at a position whose actual is the source text" *)
Definition bound_ok (alg psy : list string) (u src : string) : Prop :=
  exists p, nth_error psy p = Some u /\ nth_error alg p = Some src.

Fixpoint bound_okb (alg psy : list string) (u src : string) : bool :=
  match alg, psy with
  | a :: alg', d :: psy' => (String.eqb d u && String.eqb a src) || bound_okb alg' psy' u src
  | _, _ => false
  end.

(* sufficient condition for the code as it is: every stencil extent / direction that is passed is a name
   that the symbol table left unchanged (so passing the name is passing the text) *)
Definition stencil_safe (pre : list string) (ks : list kcall) : bool :=
  forallb (fun t => String.eqb (name_of (final pre ks) t) t)
          (uniq (texts_of RExt ks) ++ uniq (texts_of RDir ks)).

(* ------------------------------------------------------ correspondence *)
Fixpoint list_eqb (a b : list string) : bool :=
  match a, b with
  | [], [] => true
  | x :: a', y :: b' => String.eqb x y && list_eqb a' b'
  | _, _ => false
  end.
Fixpoint list2_eqb (a b : list (list string)) : bool :=
  match a, b with
  | [], [] => true
  | x :: a', y :: b' => list_eqb x y && list2_eqb a' b'
  | _, _ => false
  end.

(* a case: names present beforehand, the source invoke, and what was read back from the generated code:
   actual list, dummy list, and per kernel the dummy (or literal) used at every source position *)
Definition case := (list string * list kcall * list string * list string * list (list string))%type.

Definition model_view (c : case) :=
  match c with (pre, ks, _, _, _) =>
    (alg_args pre ks, psy_dummies pre ks, map (kernel_used (final pre ks)) ks) end.

(* the actual list may be the one the code produces today or the repaired one (props/C24/fix.patch):
   the check must work on the tree with and without the repair *)
Definition agrees (c : case) : bool :=
  match c with (pre, ks, acts, dums, kn) =>
    (list_eqb (alg_args pre ks) acts || list_eqb (alg_args_fixed ks) acts)
    && list_eqb (psy_dummies pre ks) dums
    && list2_eqb (map (kernel_used (final pre ks)) ks) kn end.
