(* C24 -- the two traversals that must enumerate the invokes in the same order.

   parse/algorithm.py Parser.invoke_info :  for statement in walk(tree, (Type_Declaration_Stmt,
       Data_Component_Def_Stmt, Use_Stmt, Call_Stmt)): ... if Call_Stmt and name.lower() == "invoke":
       invoke_calls.append(create_invoke_call(statement))          -> PSy invoke_list (same order, psyGen.Invokes)
   alg_gen.py Alg.gen :  idx = 0; for statement in walk(tree, Call_Stmt): if name.lower() == "invoke":
       rewrite statement with psy.invokes.invoke_list[idx]; idx += 1

   fparser2's walk is a pre-order traversal that returns the nodes of the requested classes (and still
   descends below them).  A statement is identified by [nid] (Python object identity).  Axiom-free. *)
From Coq Require Import List Bool String Arith Lia.
Import ListNotations.
From PV Require Import C24.Fresh.
Open Scope string_scope.

Inductive kind := KCall (name : string) | KDecl | KUse | KOther.
Inductive node := N (id : nat) (k : kind) (children : list node).

Definition nid (n : node) : nat := match n with N i _ _ => i end.
Definition nkind (n : node) : kind := match n with N _ k _ => k end.

Fixpoint walk (p : kind -> bool) (n : node) : list node :=
  match n with
  | N i k cs => (if p k then [n] else []) ++ flat_map (walk p) cs
  end.

Definition is_call (k : kind) : bool := match k with KCall _ => true | _ => false end.
Definition parse_types (k : kind) : bool := match k with KOther => false | _ => true end.
Definition is_invoke (n : node) : bool :=
  match nkind n with KCall name => String.eqb (normalize name) "invoke" | _ => false end.

(* the InvokeCall objects (hence psy.invokes.invoke_list), each identified by the statement it came from *)
Definition parse_invokes (t : node) : list nat := map nid (filter is_invoke (walk parse_types t)).

(* Alg.gen: which Invoke (by originating statement) each visited invoke statement is rewritten with *)
Fixpoint gen_pairs (visited : list node) (idx : nat) (invoke_list : list nat) : list (nat * option nat) :=
  match visited with
  | [] => []
  | n :: r => if is_invoke n then (nid n, nth_error invoke_list idx) :: gen_pairs r (S idx) invoke_list
              else gen_pairs r idx invoke_list
  end.

Definition alg_gen (t : node) : list (nat * option nat) := gen_pairs (walk is_call t) 0 (parse_invokes t).

(* ---------------------------------------------------------------- proofs *)
Close Scope string_scope.
Open Scope list_scope.
Lemma filter_flat_map {A B} (q : B -> bool) (f : A -> list B) : forall l,
    filter q (flat_map f l) = flat_map (fun x => filter q (f x)) l.
Proof. induction l as [|x l IH]; simpl; [reflexivity | rewrite filter_app, IH; reflexivity]. Qed.

Lemma flat_map_ext_in {A B} (f g : A -> list B) : forall l,
    (forall x, In x l -> f x = g x) -> flat_map f l = flat_map g l.
Proof.
  induction l as [|x l IH]; intros H; simpl; [reflexivity|].
  rewrite H by (left; reflexivity). rewrite IH; [reflexivity | intros y Hy; apply H; right; exact Hy].
Qed.

(* induction principle for the nested tree *)
Fixpoint node_ind' (P : node -> Prop)
         (H : forall i k cs, Forall P cs -> P (N i k cs)) (n : node) : P n :=
  match n with
  | N i k cs => H i k cs ((fix go (l : list node) : Forall P l :=
                             match l with [] => Forall_nil P | x :: r => Forall_cons x (node_ind' P H x) (go r) end) cs)
  end.

(* a filtered walk is the filter of the full walk, for any predicate on kinds implied by the class test *)
Lemma filter_walk : forall (p : kind -> bool) (q : node -> bool),
    (forall n, q n = true -> p (nkind n) = true) ->
    forall t, filter q (walk p t) = filter q (walk (fun _ => true) t).
Proof.
  intros p q Hq. apply (node_ind' (fun t => filter q (walk p t) = filter q (walk (fun _ => true) t))).
  intros i k cs IH. cbn [walk]. rewrite !filter_app, !filter_flat_map. f_equal.
  - destruct (p k) eqn:E; [reflexivity|]. simpl.
    destruct (q (N i k cs)) eqn:E'; [|reflexivity]. apply Hq in E'. simpl in E'. congruence.
  - apply flat_map_ext_in. rewrite Forall_forall in IH. exact IH.
Qed.

Lemma invoke_is_call : forall n, is_invoke n = true -> is_call (nkind n) = true.
Proof. intros n. unfold is_invoke. destruct (nkind n); simpl; congruence. Qed.
Lemma invoke_is_parsed : forall n, is_invoke n = true -> parse_types (nkind n) = true.
Proof. intros n. unfold is_invoke. destruct (nkind n); simpl; congruence. Qed.

(* both traversals meet the same invoke statements in the same order *)
Theorem same_invoke_sequence : forall t,
    filter is_invoke (walk parse_types t) = filter is_invoke (walk is_call t).
Proof.
  intros t. rewrite (filter_walk parse_types is_invoke invoke_is_parsed).
  rewrite (filter_walk is_call is_invoke invoke_is_call). reflexivity.
Qed.

Lemma gen_pairs_aligned : forall L done,
    Forall (fun pr => snd pr = Some (fst pr))
           (gen_pairs L (List.length done) (done ++ map nid (filter is_invoke L))%list).
Proof.
  induction L as [|n L IH]; intros done; simpl; [constructor|].
  destruct (is_invoke n) eqn:E.
  - constructor.
    + simpl. rewrite nth_error_app2 by lia. rewrite Nat.sub_diag. reflexivity.
    + specialize (IH (done ++ [nid n])). rewrite app_length in IH. simpl in IH.
      rewrite Nat.add_1_r, <- app_assoc in IH. exact IH.
  - apply IH.
Qed.

(* every invoke statement is rewritten with the Invoke object built from that very statement *)
Theorem invoke_order_aligned_ : forall t,
    Forall (fun pr => snd pr = Some (fst pr)) (alg_gen t).
Proof.
  intros t. unfold alg_gen, parse_invokes. rewrite same_invoke_sequence.
  apply (gen_pairs_aligned (walk is_call t) []).
Qed.

(* ... and every invoke statement is rewritten (none skipped): one pair per invoke, in order *)
Lemma gen_pairs_fst : forall L idx il, map fst (gen_pairs L idx il) = map nid (filter is_invoke L).
Proof.
  induction L as [|n L IH]; intros idx il; simpl; [reflexivity|].
  destruct (is_invoke n); simpl; [f_equal|]; apply IH.
Qed.

Theorem all_invokes_rewritten_ : forall t, map fst (alg_gen t) = parse_invokes t.
Proof. intros t. unfold alg_gen. rewrite gen_pairs_fst. unfold parse_invokes. rewrite same_invoke_sequence. reflexivity. Qed.

(* a module with two subroutines: invoke inside an IF construct, a non-invoke call, "INVOKE" upper-case,
   an invoke in a one-line IF, declarations and USE statements in between *)
Open Scope string_scope.
Definition ex_tree : node :=
  N 0 KOther [ N 1 KUse [];
               N 2 KOther [ N 3 KDecl []; N 4 (KCall "other") [];
                            N 5 KOther [ N 6 (KCall "invoke") [] ];
                            N 7 (KCall "INVOKE") [] ];
               N 8 KOther [ N 9 KDecl []; N 10 KOther [ N 11 (KCall "Invoke") [] ]; N 12 (KCall "invoke_helper") [] ] ].

Lemma ex_tree_pairs : alg_gen ex_tree = [(6, Some 6); (7, Some 7); (11, Some 11)] /\ parse_invokes ex_tree = [6; 7; 11].
Proof. vm_compute. split; reflexivity. Qed.
