(* C24 -- the PSyIR-based algorithm generation (generator.LFRIC_TESTING): LFRicAlgInvoke2PSyCallTrans.get_arguments
   and AlgInvoke2PSyCallTrans._add_arg, next to the default path of Model.v.  Axiom-free.

   _add_arg(arg, list):  Literal (or -Literal)  -> not passed;
                         Reference              -> appended unless SymbolicMaths.equal(arg, existing) for one existing;
                         CodeBlock              -> ALWAYS appended (no comparison).
   SymbolicMaths compares symbols case-insensitively (base name, index expressions) but structure MEMBER names as
   written ([pkey]).  Four lists (arguments, stencil sizes, stencil directions, quadrature) are de-duplicated
   separately and concatenated, as in the default path.  Which arguments the fparser2 frontend leaves as a
   CodeBlock is an input ([cb]).
   Routine names: psyGen.Invoke.__init__ vs LFRicAlgorithmInvokeCall._def_routine_root_name. *)
From Coq Require Import List Bool String Ascii NArith Arith.
Import ListNotations.
From PV Require Import C24.Fresh C24.Model C24.Proofs.
Open Scope string_scope.

Fixpoint strip (s : string) : string :=
  match s with
  | EmptyString => EmptyString
  | String c r => if Ascii.eqb c " "%char then strip r else String c (strip r)
  end.

Definition member_key (c : comp) : string :=
  match c with (n, None) => strip n | (n, Some ix) => strip n ++ "(" ++ norm ix ++ ")" end.

(* the equality key of a Reference under SymbolicMaths.equal *)
Definition pkey (a : sarg) : string :=
  match a with
  | SLit t => norm t
  | SRef [] => ""
  | SRef (c :: cs) => join "%" (comp_text c :: map member_key cs)
  end.

Definition entry := (option string * string)%type.      (* (Some key | None = CodeBlock, text) *)

Fixpoint puniq_acc (seen : list string) (l : list entry) : list string :=
  match l with
  | [] => []
  | (None, t) :: r => t :: puniq_acc seen r
  | (Some k, t) :: r => if mem_str k seen then puniq_acc seen r else t :: puniq_acc (k :: seen) r
  end.
Definition puniq := puniq_acc [].

Definition entry_of (cb : sarg -> bool) (a : sarg) : entry :=
  (if cb a then None else Some (pkey a), text a).

Definition entries_of (cb : sarg -> bool) (r : role) (ks : list kcall) : list entry :=
  flat_map (fun k => flat_map (fun ra => if role_eqb (fst ra) r && passed ra then [entry_of cb (snd ra)] else [])
                              (flat_args k)) ks.

Definition psyir_alg_args (cb : sarg -> bool) (ks : list kcall) : list string :=
  puniq (entries_of cb RMain ks) ++ puniq (entries_of cb RExt ks)
  ++ puniq (entries_of cb RDir ks) ++ puniq (entries_of cb RQr ks).

(* sufficient condition: no passed argument is a CodeBlock and every structure member is spelled so that the
   PSyIR key is the text (lower-case member names): excludes the repeated-structure-argument class *)
Definition psyir_safe (cb : sarg -> bool) (ks : list kcall) : bool :=
  forallb (fun ra => negb (passed ra) || (negb (cb (snd ra)) && String.eqb (pkey (snd ra)) (text (snd ra))))
          (flat_map flat_args ks).

Definition agrees_psyir (c : list kcall * list string) : bool :=
  list_eqb (psyir_alg_args (fun _ => false) (fst c)) (snd c).

(* ------------------------------------------------------------- proofs *)
Lemma puniq_acc_texts : forall l seen,
    Forall (fun e : entry => fst e = Some (snd e)) l -> puniq_acc seen l = uniq_acc seen (map snd l).
Proof.
  induction l as [|[k t] l IH]; intros seen H; simpl; [reflexivity|].
  inversion H as [|? ? Hk Hl]; subst. simpl in Hk. subst k.
  destruct (mem_str t seen); [apply IH; exact Hl | f_equal; apply IH; exact Hl].
Qed.

Lemma map_flat_map {A B C} (g : B -> C) (f : A -> list B) : forall l,
    map g (flat_map f l) = flat_map (fun x => map g (f x)) l.
Proof. induction l as [|x l IH]; simpl; [reflexivity | rewrite map_app, IH; reflexivity]. Qed.

Lemma flat_map_ext' {A B} (f g : A -> list B) : forall l, (forall x, f x = g x) -> flat_map f l = flat_map g l.
Proof. induction l as [|x l IH]; intros H; simpl; [reflexivity | rewrite H, IH; auto]. Qed.

Lemma entries_texts : forall cb r ks, map snd (entries_of cb r ks) = texts_of r ks.
Proof.
  intros cb r ks. unfold entries_of, texts_of. rewrite map_flat_map. apply flat_map_ext'. intro k.
  rewrite map_flat_map. apply flat_map_ext'. intro ra.
  destruct (role_eqb (fst ra) r && passed ra); reflexivity.
Qed.

Lemma entries_safe : forall cb r ks, psyir_safe cb ks = true ->
    Forall (fun e : entry => fst e = Some (snd e)) (entries_of cb r ks).
Proof.
  intros cb r ks Hs. apply Forall_forall. intros e He. unfold entries_of in He.
  apply in_flat_map in He as [k [Hk He]]. apply in_flat_map in He as [ra [Hra He]].
  destruct (role_eqb (fst ra) r) eqn:Er; [|simpl in He; tauto].
  destruct (passed ra) eqn:Ep; simpl in He; [|tauto]. destruct He as [He|[]]. subst e.
  unfold psyir_safe in Hs. rewrite forallb_forall in Hs.
  assert (Hin : In ra (flat_map flat_args ks)) by (apply in_flat_map; exists k; auto).
  specialize (Hs _ Hin). rewrite Ep in Hs. simpl in Hs. apply andb_true_iff in Hs as [H1 H2].
  apply negb_true_iff in H1. apply String.eqb_eq in H2. unfold entry_of. rewrite H1. simpl. rewrite H2. reflexivity.
Qed.

Lemma psyir_is_fixed : forall cb ks, psyir_safe cb ks = true -> psyir_alg_args cb ks = alg_args_fixed ks.
Proof.
  intros cb ks H. unfold psyir_alg_args, alg_args_fixed, puniq, uniq.
  rewrite !puniq_acc_texts by (apply entries_safe; exact H). rewrite !entries_texts. reflexivity.
Qed.

(* the i-th PSy dummy is the name of the i-th actual of the PSyIR-generated call *)
Theorem psyir_positions_aligned_partial_ : forall cb pre ks,
    psyir_safe cb ks = true ->
    psy_dummies pre ks = map (name_of (final pre ks)) (psyir_alg_args cb ks).
Proof. intros cb pre ks H. rewrite (psyir_is_fixed _ _ H). apply dummies_are_names_of_fixed. Qed.

(* ---------------------------------------------------------- routine names *)
Inductive rname := ByLabel (l : string) | ByIdx (i : nat) | ByIdxKern (i : nat) (k : string).

(* an invoke as both namers see it: optional label, index, (kernel name, is built-in) list *)
Definition psy_rname (label : option string) (i : nat) (ks : list (string * bool)) : rname :=
  match label with
  | Some l => ByLabel (normalize l)
  | None => match ks with [(k, false)] => ByIdxKern i k | _ => ByIdx i end
  end.

Definition psyir_rname (label : option string) (i : nat) (ks : list (string * bool)) : rname :=
  match ks with
  | [(_, true)] => ByIdx i                       (* LFRic override: tested before the label *)
  | _ => match label with
         | Some l => ByLabel (normalize l)
         | None => match ks with [(k, _)] => ByIdxKern i k | _ => ByIdx i end
         end
  end.

Definition named_single_builtin (label : option string) (ks : list (string * bool)) : bool :=
  match label, ks with Some _, [(_, true)] => true | _, _ => false end.

Theorem routine_names_agree_partial_ : forall label i ks,
    named_single_builtin label ks = false -> psyir_rname label i ks = psy_rname label i ks.
Proof.
  intros label i ks H. unfold psyir_rname, psy_rname.
  destruct ks as [|[k b] [|k2 ks]]; destruct label; try reflexivity; destruct b; try reflexivity; discriminate H.
Qed.

Lemma routine_names_refuted : exists label i ks, psyir_rname label i ks <> psy_rname label i ks.
Proof. exists (Some "Update"), 0, [("setval_c", true)]. vm_compute. discriminate. Qed.

(* ---------------------------------------------------------- witnesses *)
Definition lit1 := SLit "1.0_r_def".
Definition bi (args : list sarg) : kcall := {| k_builtin := true; k_slots := map Plain args; k_qr := [] |}.

(* invoke(setval_c(obj%v(1), 1.0_r_def), setval_X(f1, OBJ % V( 1 ))) *)
Definition wit_struct : list kcall :=
  [ bi [SRef [("obj", None); ("v", Some "1")]; lit1];
    bi [v "f1"; SRef [("OBJ ", None); (" V", Some " 1 ")]] ].

Lemma refuted_struct_dup :
  psyir_alg_args (fun _ => false) wit_struct = ["obj%v(1)"; "f1"; "obj%v(1)"] /\
  psy_dummies ("invoke_0" :: nil) wit_struct = ["obj_v"; "f1"] /\
  alg_args_fixed wit_struct = ["obj%v(1)"; "f1"].
Proof. vm_compute. repeat split. Qed.

Lemma refuted_psyir_aligned :
  exists cb pre ks, psy_dummies pre ks <> map (name_of (final pre ks)) (psyir_alg_args cb ks).
Proof. exists (fun _ => false), ("invoke_0" :: nil), wit_struct. vm_compute. discriminate. Qed.

(* identical spelling, but the frontend left the argument as a CodeBlock: appended every time *)
Lemma refuted_codeblock_dup :
  psyir_alg_args (fun _ => true) [bi [SRef [("obj", None); ("f", None)]; lit1]; bi [v "f1"; SRef [("obj", None); ("f", None)]]]
  = ["obj%f"; "f1"; "obj%f"].
Proof. vm_compute. reflexivity. Qed.

Lemma psyir_nonvacuous : psyir_safe (fun _ => false) ex_ok = true /\
  psyir_alg_args (fun _ => false) ex_ok = ["obj%f"; "f1"; "obj_f"; "fa(2)"; "fa_1"; "ext"; "qr"].
Proof. vm_compute. split; reflexivity. Qed.
