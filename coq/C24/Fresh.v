(* C24 -- the name search of SymbolTable.next_available_name (root, root_1, root_2, ...) and the
   pigeonhole argument that it always returns an unused name.
   The definitions lower_ascii / normalize / dec / cand / mem_str / fresh_loop and the lemmas below are
   COPIED from coq/C16/Model.v and coq/C16/Names.v (same development, other property) so that C24 does
   not depend on C16's generated tables.  Axiom-free. *)
From Coq Require Import List Arith Bool String Ascii NArith Lia DecimalString DecimalN.
Import ListNotations.
Open Scope string_scope.

(* ------------------------------------------------------------------ names *)
Definition lower_ascii (c : ascii) : ascii :=
  let n := N_of_ascii c in
  if (N.leb 65 n && N.leb n 90)%bool then ascii_of_N (n + 32) else c.

Fixpoint normalize (s : string) : string :=
  match s with
  | EmptyString => EmptyString
  | String c r => String (lower_ascii c) (normalize r)
  end.

(* str(idx) *)
Definition dec (n : N) : string := NilEmpty.string_of_uint (N.to_uint n).

(* the candidates of next_available_name: root, root_1, root_2, ... *)
Definition cand (root : string) (i : N) : string :=
  match i with
  | N0 => root
  | _ => root ++ "_" ++ dec i
  end.

Fixpoint mem_str (x : string) (l : list string) : bool :=
  match l with
  | [] => false
  | y :: r => if String.eqb x y then true else mem_str x r
  end.

Fixpoint fresh_loop (fuel : nat) (root : string) (existing : list string) (i : N) : option string :=
  match fuel with
  | O => None
  | S f => let c := cand root i in
           if mem_str (normalize c) existing then fresh_loop f root existing (N.succ i)
           else Some c
  end.

(* ------------------------------------------------------------ strings *)
Lemma str_length_app : forall a b, String.length (a ++ b) = String.length a + String.length b.
Proof. induction a as [|c a IH]; intros b; simpl; [reflexivity | rewrite IH; reflexivity]. Qed.

Lemma str_app_inv_head : forall a b c, a ++ b = a ++ c -> b = c.
Proof. induction a as [|x a IH]; intros b c H; simpl in H; [exact H | inversion H; auto]. Qed.

Lemma str_app_assoc : forall a b c, (a ++ b) ++ c = a ++ (b ++ c).
Proof. induction a as [|x a IH]; intros b c; simpl; [reflexivity | rewrite IH; reflexivity]. Qed.

Lemma normalize_app : forall a b, normalize (a ++ b) = normalize a ++ normalize b.
Proof. induction a as [|c a IH]; intros b; simpl; [reflexivity | rewrite IH; reflexivity]. Qed.

Lemma normalize_length : forall a, String.length (normalize a) = String.length a.
Proof. induction a as [|c a IH]; simpl; [reflexivity | rewrite IH; reflexivity]. Qed.

Lemma lower_ascii_idem : forall c, lower_ascii (lower_ascii c) = lower_ascii c.
Proof.
  intros [b0 b1 b2 b3 b4 b5 b6 b7].
  destruct b0, b1, b2, b3, b4, b5, b6, b7; vm_compute; reflexivity.
Qed.

Lemma normalize_idem : forall a, normalize (normalize a) = normalize a.
Proof. induction a as [|c a IH]; simpl; [reflexivity | rewrite lower_ascii_idem, IH; reflexivity]. Qed.

(* decimal digits are not changed by lower-casing *)
Lemma normalize_uint : forall d, normalize (NilEmpty.string_of_uint d) = NilEmpty.string_of_uint d.
Proof. induction d; simpl; try rewrite IHd; reflexivity. Qed.

Lemma normalize_dec : forall n, normalize (dec n) = dec n.
Proof. intros n. unfold dec. apply normalize_uint. Qed.

Lemma dec_inj : forall n m, dec n = dec m -> n = m.
Proof.
  intros n m H. unfold dec in H.
  assert (E : Some (N.to_uint n) = Some (N.to_uint m)).
  { rewrite <- (NilEmpty.usu (N.to_uint n)), <- (NilEmpty.usu (N.to_uint m)), H. reflexivity. }
  inversion E as [E'].
  rewrite <- (Unsigned.of_to n), <- (Unsigned.of_to m), E'. reflexivity.
Qed.

(* ------------------------------------------------------- candidates *)
Lemma normalize_cand : forall root i, normalize (cand root i) = cand (normalize root) i.
Proof.
  intros root [|p]; simpl; [reflexivity|].
  rewrite normalize_app. simpl. f_equal.
  change (String (lower_ascii "_"%char) (normalize (dec (N.pos p)))) with
      (String "_"%char (normalize (dec (N.pos p)))).
  rewrite normalize_dec. reflexivity.
Qed.

Lemma cand_inj : forall root i j, cand root i = cand root j -> i = j.
Proof.
  intros root [|p] [|q] H; simpl in H.
  - reflexivity.
  - exfalso. apply (f_equal String.length) in H. rewrite str_length_app in H. simpl in H. lia.
  - exfalso. apply (f_equal String.length) in H. rewrite str_length_app in H. simpl in H. lia.
  - apply str_app_inv_head in H. simpl in H. inversion H as [H']. apply dec_inj in H'. exact H'.
Qed.

Lemma ncand_inj : forall root i j,
    normalize (cand root i) = normalize (cand root j) -> i = j.
Proof. intros root i j H. rewrite !normalize_cand in H. eapply cand_inj; eauto. Qed.

(* ---------------------------------------------------------- membership *)
Lemma mem_str_In : forall x l, mem_str x l = true <-> In x l.
Proof.
  intros x l; induction l as [|y l IH]; simpl; [split; [discriminate | tauto]|].
  destruct (String.eqb_spec x y) as [E|E].
  - subst; split; auto.
  - rewrite IH. split; [auto | intros [H|H]; [congruence | exact H]].
Qed.

Lemma mem_str_false : forall x l, mem_str x l = false <-> ~ In x l.
Proof.
  intros x l. rewrite <- mem_str_In. destruct (mem_str x l); split; intro H; congruence.
Qed.

(* ---------------------------------------------------------- the search *)
Fixpoint nseq (i : N) (n : nat) : list N :=
  match n with O => [] | S n' => i :: nseq (N.succ i) n' end.

Lemma nseq_lt : forall n i x, In x (nseq i n) -> (i <= x)%N.
Proof.
  induction n as [|n IH]; intros i x H; simpl in H; [tauto|].
  destruct H as [H|H]; [subst; lia | apply IH in H; lia].
Qed.

Lemma nseq_NoDup : forall n i, NoDup (nseq i n).
Proof.
  induction n as [|n IH]; intros i; simpl; constructor; [|apply IH].
  intro H. apply nseq_lt in H. lia.
Qed.

Lemma nseq_length : forall n i, List.length (nseq i n) = n.
Proof. induction n as [|n IH]; intros i; simpl; [reflexivity | rewrite IH; reflexivity]. Qed.

(* if the loop runs out of fuel, every candidate tried is in use *)
Lemma fresh_loop_none : forall fuel root ex i,
    fresh_loop fuel root ex i = None ->
    forall x, In x (nseq i fuel) -> In (normalize (cand root x)) ex.
Proof.
  induction fuel as [|f IH]; intros root ex i H x Hx; simpl in *; [tauto|].
  destruct (mem_str (normalize (cand root i)) ex) eqn:E; [|discriminate].
  destruct Hx as [Hx|Hx]; [subst; apply mem_str_In; exact E | eapply IH; eauto].
Qed.

Lemma map_inj_NoDup {A B} (f : A -> B) (l : list A) :
  (forall x y, f x = f y -> x = y) -> NoDup l -> NoDup (map f l).
Proof.
  intros Hinj H; induction H as [|x l Hx Hl IH]; simpl; constructor; [|exact IH].
  intro Hin. apply in_map_iff in Hin as [y [Hy Hy']]. apply Hinj in Hy. subst. contradiction.
Qed.

(* pigeonhole: fuel = |existing| + 1 is never exhausted *)
Lemma fresh_loop_total : forall root ex i,
    exists c, fresh_loop (S (List.length ex)) root ex i = Some c.
Proof.
  intros root ex i.
  destruct (fresh_loop (S (List.length ex)) root ex i) as [c|] eqn:E; [eauto|exfalso].
  pose proof (fresh_loop_none _ _ _ _ E) as Hall.
  assert (Hnd : NoDup (map (fun x => normalize (cand root x)) (nseq i (S (List.length ex))))).
  { apply map_inj_NoDup; [intros x y; apply ncand_inj | apply nseq_NoDup]. }
  assert (Hincl : incl (map (fun x => normalize (cand root x)) (nseq i (S (List.length ex)))) ex).
  { intros y Hy. apply in_map_iff in Hy as [x [Hx Hx']]. subst. apply Hall; exact Hx'. }
  pose proof (NoDup_incl_length Hnd Hincl) as Hlen.
  rewrite map_length, nseq_length in Hlen. lia.
Qed.

(* what the loop returns: the first candidate (from i on) that is free *)
Lemma fresh_loop_some : forall fuel root ex i c,
    fresh_loop fuel root ex i = Some c ->
    exists k, c = cand root (i + N.of_nat k)%N /\ ~ In (normalize c) ex /\
              forall k', k' < k -> In (normalize (cand root (i + N.of_nat k')%N)) ex.
Proof.
  induction fuel as [|f IH]; intros root ex i c H; simpl in H; [discriminate|].
  destruct (mem_str (normalize (cand root i)) ex) eqn:E.
  - apply IH in H as [k [Hc [Hfree Hmin]]].
    exists (S k). split; [|split].
    + rewrite Hc. f_equal. lia.
    + exact Hfree.
    + intros k' Hk'. destruct k' as [|k'].
      * replace (i + N.of_nat 0)%N with i by lia. apply mem_str_In. exact E.
      * replace (i + N.of_nat (S k'))%N with (N.succ i + N.of_nat k')%N by lia.
        apply Hmin. lia.
  - inversion H; subst. exists 0. split; [|split].
    + f_equal. lia.
    + apply mem_str_false. exact E.
    + intros k' Hk'. lia.
Qed.

(* ------------------------------------------------ the total fresh-name function used by C24 *)
Definition fresh (root : string) (used : list string) : string :=
  match fresh_loop (S (List.length used)) root used 0%N with
  | Some c => c
  | None => root            (* unreachable: fresh_loop_total *)
  end.

Lemma fresh_not_used : forall root used, ~ In (normalize (fresh root used)) used.
Proof.
  intros root used. unfold fresh.
  destruct (fresh_loop_total root used 0%N) as [c Hc]. rewrite Hc.
  apply fresh_loop_some in Hc as [k [_ [Hfree _]]]. exact Hfree.
Qed.

(* with a lower-case root the result is lower-case, hence itself not in [used] *)
Lemma fresh_normal : forall root used, normalize root = root -> normalize (fresh root used) = fresh root used.
Proof.
  intros root used Hr. unfold fresh.
  destruct (fresh_loop_total root used 0%N) as [c Hc]. rewrite Hc.
  apply fresh_loop_some in Hc as [k [Hc' _]]. subst c. rewrite normalize_cand, Hr. reflexivity.
Qed.
