(* C24 -- the tag key of quadrature (and ordinary) arguments, as extracted from the tree under test by
   props/C24/translate.py (GenQr.v): names are injective on argument TEXTS because the tag is built from the
   TEXT.  If the key becomes the variable name, [qr_tag_is_text_tag] no longer holds and this file fails.  Axiom-free. *)
From Coq Require Import List Bool String.
Import ListNotations.
From PV Require Import C24.Fresh C24.Model C24.Proofs C24.GenQr.
Open Scope string_scope.

Definition key_of (f : key_field) (a : sarg) : string := match f with QText => text a | QVarname => root a end.
Definition qr_tag (a : sarg) : string := qr_tag_prefix ++ key_of qr_tag_key a.
Definition arg_tag (a : sarg) : string := arg_tag_prefix ++ key_of arg_tag_key a.
Definition qr_name (F : st) (a : sarg) : string :=
  match lookup (qr_tag a) (tags F) with Some n => n | None => "" end.

(* the extracted keys are the ones Model.v uses: tag "AlgArgs_" ++ text, root = variable name *)
Lemma qr_tag_is_text_tag : forall a, qr_tag a = tagof (text a).
Proof. intro a. reflexivity. Qed.
Lemma arg_tag_is_text_tag : forall a, arg_tag a = tagof (text a).
Proof. intro a. reflexivity. Qed.
Lemma qr_root_is_varname : forall a, key_of qr_root_key a = root a.
Proof. intro a. reflexivity. Qed.

Theorem qr_names_injective_on_texts_ : forall pre ks a b,
    In (text a) (texts_of RQr ks) -> In (text b) (texts_of RQr ks) -> text a <> text b ->
    qr_name (final pre ks) a <> qr_name (final pre ks) b.
Proof.
  intros pre ks a b Ha Hb Hne E. apply Hne. unfold qr_name in E. rewrite !qr_tag_is_text_tag in E.
  apply (names_injective_on_texts_ pre ks RQr RQr (text a) (text b) Ha Hb). exact E.
Qed.

(* two kernels with quadrature objects qrs(1) and qrs(2): different dummies *)
Definition ex_qr : list kcall :=
  [ {| k_builtin := false; k_slots := [Plain (v "f1")]; k_qr := [ix "qrs" "1"] |};
    {| k_builtin := false; k_slots := [Plain (v "f1")]; k_qr := [ix "QRS" " 2"] |} ].
Lemma ex_qr_names :
  qr_name (final pre0 ex_qr) (ix "qrs" "1") = "qrs" /\ qr_name (final pre0 ex_qr) (ix "QRS" " 2") = "qrs_1" /\
  psy_dummies pre0 ex_qr = ["f1"; "qrs"; "qrs_1"] /\ alg_args pre0 ex_qr = ["f1"; "qrs(1)"; "qrs(2)"].
Proof. vm_compute. repeat split. Qed.
