(* C25 - GOcean loops visit exactly the configured grid points.  MODEL (definitions only).

   Modelled code (PSyclone working tree):
     gocean1p0.py   GOLoop.setup_bounds / add_bounds / _bounds_lookup     -> table, lookup, add_bounds
                    GOLoop.lower_bound / upper_bound / get_custom_bound_string -> default_bound
                    GOKernCallFactory.create (outer j loop around inner i loop around the call) -> gen_outer
     domain/gocean/transformations/gocean_const_loop_bounds_trans.py      -> const_bound, XConst
     domain/gocean/transformations/gocean_loop_fuse_trans.py + psyir LoopFuseTrans.validate
                    (for PSyLoops only the attributes iteration_space / field_space are compared) -> XFuse*
     OpenMP / OpenACC / extraction transformations: wrappers that leave the loops alone -> XWrap*
   The dl_esm_inf library (not in the repository) is the parameter [libm]. *)
From Coq Require Import List ZArith Bool String Lia.
Import ListNotations.
Local Open Scope Z_scope.
Local Open Scope string_scope.

(* ------------------------------------------------------------------ bound strings of the table *)
Inductive bexpr :=
| BStart | BStop | BLit (z : Z)
| BAdd (a b : bexpr) | BSub (a b : bexpr) | BMul (a b : bexpr) | BNeg (a : bexpr)
| BDiv (a b : bexpr).          (* Fortran integer division: truncation toward zero *)

Fixpoint eval_b (start stop : Z) (e : bexpr) : Z :=
  match e with
  | BStart => start | BStop => stop | BLit z => z
  | BAdd a b => eval_b start stop a + eval_b start stop b
  | BSub a b => eval_b start stop a - eval_b start stop b
  | BMul a b => eval_b start stop a * eval_b start stop b
  | BNeg a => - eval_b start stop a
  | BDiv a b => Z.quot (eval_b start stop a) (eval_b start stop b)
  end.

Fixpoint bexpr_eqb (a b : bexpr) : bool :=
  match a, b with
  | BStart, BStart => true | BStop, BStop => true
  | BLit x, BLit y => Z.eqb x y
  | BAdd a1 a2, BAdd b1 b2 => bexpr_eqb a1 b1 && bexpr_eqb a2 b2
  | BSub a1 a2, BSub b1 b2 => bexpr_eqb a1 b1 && bexpr_eqb a2 b2
  | BMul a1 a2, BMul b1 b2 => bexpr_eqb a1 b1 && bexpr_eqb a2 b2
  | BNeg a1, BNeg b1 => bexpr_eqb a1 b1
  | BDiv a1 a2, BDiv b1 b2 => bexpr_eqb a1 b1 && bexpr_eqb a2 b2
  | _, _ => false
  end.

(* outer (j, North-South) start/stop, inner (i, East-West) start/stop *)
Record bounds4 := mkB { o_lo : bexpr; o_hi : bexpr; i_lo : bexpr; i_hi : bexpr }.

Definition bounds4_eqb (a b : bounds4) : bool :=
  bexpr_eqb (o_lo a) (o_lo b) && bexpr_eqb (o_hi a) (o_hi b) &&
  bexpr_eqb (i_lo a) (i_lo b) && bexpr_eqb (i_hi a) (i_hi b).

(* (index offset, grid-point type, iteration space) *)
Definition key := (string * string * string)%type.
Definition key_eqb (a b : key) : bool :=
  let '(a1, a2, a3) := a in let '(b1, b2, b3) := b in
  String.eqb a1 b1 && String.eqb a2 b2 && String.eqb a3 b3.

Definition table := list (key * bounds4).

Fixpoint lookup (tb : table) (k : key) : option bounds4 :=
  match tb with
  | [] => None
  | (k', b) :: r => if key_eqb k' k then Some b else lookup r k
  end.

(* GOLoop.add_bounds on the nested dictionaries: overwrite the entry if the key exists, else add *)
Fixpoint add_bounds (tb : table) (k : key) (b : bounds4) : table :=
  match tb with
  | [] => [(k, b)]
  | (k', b') :: r => if key_eqb k' k then (k, b) :: r else (k', b') :: add_bounds r k b
  end.

(* GOceanConfig: one add_bounds per line of the iteration-spaces entry, in order *)
Definition add_all (tb : table) (es : table) : table :=
  fold_left (fun t e => add_bounds t (fst e) (snd e)) es tb.

(* what a list of config lines says about a key: the last line for that key wins *)
Fixpoint lookup_last (es : table) (k : key) : option bounds4 :=
  match es with
  | [] => None
  | (k', b) :: r => match lookup_last r k with
                    | Some b' => Some b'
                    | None => if key_eqb k' k then Some b else None
                    end
  end.

Inductive dim := X | Y.         (* X: inner loop, i, array dimension 1;  Y: outer loop, j, dimension 2 *)
Inductive side := Lo | Hi.

Definition sel (b : bounds4) (d : dim) (s : side) : bexpr :=
  match d, s with
  | Y, Lo => o_lo b | Y, Hi => o_hi b | X, Lo => i_lo b | X, Hi => i_hi b
  end.

(* ------------------------------------------------------------------ regions and DO-loop traces *)
Record rect := mkR { jlo : Z; jhi : Z; ilo : Z; ihi : Z }.

(* {start} is replaced by 2, {stop} by the grid's internal stop index of that direction *)
Definition region_of (b : bounds4) (sx sy : Z) : rect :=
  mkR (eval_b 2 sy (o_lo b)) (eval_b 2 sy (o_hi b)) (eval_b 2 sx (i_lo b)) (eval_b 2 sx (i_hi b)).

Definition inside (r : rect) (i j : Z) : Prop := jlo r <= j <= jhi r /\ ilo r <= i <= ihi r.

Definition rect_subset (a b : rect) : Prop :=          (* a inside b, as index ranges *)
  jlo b <= jlo a /\ jhi a <= jhi b /\ ilo b <= ilo a /\ ihi a <= ihi b.

(* an event: kernel k called with arguments (i, j) *)
Definition ev := (nat * Z * Z)%type.
Definition ev_k (e : ev) : nat := fst (fst e).
Definition ev_i (e : ev) : Z := snd (fst e).
Definition ev_j (e : ev) : Z := snd e.

(* Fortran DO v = lo, hi, 1: trip count max(0, hi-lo+1) computed once, v incremented each trip *)
Fixpoint do_iter {A : Type} (n : nat) (v : Z) (body : Z -> list A) : list A :=
  match n with
  | O => []
  | S n' => body v ++ do_iter n' (v + 1) body
  end.
Definition do_loop {A : Type} (lo hi : Z) (body : Z -> list A) : list A :=
  do_iter (Z.to_nat (hi - lo + 1)) lo body.

(* DO j = jlo, jhi ; DO i = ilo, ihi ; CALL k(i, j) *)
Definition nest (k : nat) (r : rect) : list ev :=
  do_loop (jlo r) (jhi r) (fun j => do_loop (ilo r) (ihi r) (fun i => [(k, i, j)])).

(* kernels called at point (i, j), in call order *)
Definition at_pt (i j : Z) (tr : list ev) : list nat :=
  map ev_k (filter (fun e => Z.eqb (ev_i e) i && Z.eqb (ev_j e) j) tr).

(* row-major order of the points *)
Definition rm_lt (a b : ev) : Prop := ev_j a < ev_j b \/ (ev_j a = ev_j b /\ ev_i a < ev_i b).

(* ------------------------------------------------------------------ the run-time library *)
Inductive regk := Internal | Whole.          (* fld%internal%..., fld%whole%... *)
Definition space_of_regk (r : regk) : string :=
  match r with Internal => "go_internal_pts" | Whole => "go_all_pts" end.

(* lib_bound G t r d s S: value of fld%<r>%<d><s> for a field of grid-point type t on a grid of index
   offset G whose internal region stops at S in direction d (it starts at 2);
   lib_size S: SIZE(fld%data, d) on such a grid *)
Record libm := mkLib { lib_bound : string -> string -> regk -> dim -> side -> Z -> Z;
                       lib_size : Z -> Z }.

Definition lib_of_table (tb : table) : libm :=
  mkLib (fun g t r d s S => match lookup tb (g, t, space_of_regk r) with
                            | Some b => eval_b 2 S (sel b d s)
                            | None => 0
                            end)
        (fun S => S + 1).

(* ------------------------------------------------------------------ generated loop bounds *)
Inductive gexpr :=
| GLit (z : Z)
| GFld (f : nat) (r : regk) (d : dim) (s : side)       (* f%internal%xstart ... f%whole%ystop *)
| GGridStop (f : nat) (d : dim)                        (* f%grid%subdomain%internal%{x,y}stop, also istop/jstop *)
| GSize (f : nat) (d : dim)                            (* SIZE(f%data, 1|2) *)
| GAdd (a b : gexpr) | GSub (a b : gexpr) | GMul (a b : gexpr) | GNeg (a : gexpr) | GDiv (a b : gexpr).

(* a grid (index offset, internal stop indices) and the grid-point type of every field argument;
   all fields of an invoke live on this one grid *)
Record env := mkEnv { e_goff : string; e_sx : Z; e_sy : Z; e_ftype : nat -> string }.
Definition stop_of (en : env) (d : dim) : Z := match d with X => e_sx en | Y => e_sy en end.

Fixpoint eval_g (lib : libm) (en : env) (e : gexpr) : Z :=
  match e with
  | GLit z => z
  | GFld f r d s => lib_bound lib (e_goff en) (e_ftype en f) r d s (stop_of en d)
  | GGridStop _ d => stop_of en d
  | GSize _ d => lib_size lib (stop_of en d)
  | GAdd a b => eval_g lib en a + eval_g lib en b
  | GSub a b => eval_g lib en a - eval_g lib en b
  | GMul a b => eval_g lib en a * eval_g lib en b
  | GNeg a => - eval_g lib en a
  | GDiv a b => Z.quot (eval_g lib en a) (eval_g lib en b)
  end.

(* bound string with start='2', stop=<stop expression> *)
Fixpoint subst_b (e : bexpr) (stop : gexpr) : gexpr :=
  match e with
  | BStart => GLit 2 | BStop => stop | BLit z => GLit z
  | BAdd a b => GAdd (subst_b a stop) (subst_b b stop)
  | BSub a b => GSub (subst_b a stop) (subst_b b stop)
  | BMul a b => GMul (subst_b a stop) (subst_b b stop)
  | BNeg a => GNeg (subst_b a stop)
  | BDiv a b => GDiv (subst_b a stop) (subst_b b stop)
  end.

(* ------------------------------------------------------------------ the PSy-layer schedule *)
(* GOLoop attributes: index_offset, field_space, iteration_space, field_name *)
Record lattr := mkA { a_off : string; a_type : string; a_space : string; a_fld : nat }.

(* inner (i) loop holding kernel calls; outer (j) loop holding inner loops.  *_wrap: the directives /
   extraction regions put around the loop (they do not execute anything themselves) *)
Record inner := mkI { in_attr : lattr; in_lo : gexpr; in_hi : gexpr; in_ks : list nat; in_wrap : list nat }.
Record outer := mkO { out_attr : lattr; out_lo : gexpr; out_hi : gexpr; out_body : list inner; out_wrap : list nat }.
Definition sched := list outer.

Definition exec_inner (lib : libm) (en : env) (j : Z) (l : inner) : list ev :=
  do_loop (eval_g lib en (in_lo l)) (eval_g lib en (in_hi l)) (fun i => map (fun k => (k, i, j)) (in_ks l)).
Definition exec_outer (lib : libm) (en : env) (o : outer) : list ev :=
  do_loop (eval_g lib en (out_lo o)) (eval_g lib en (out_hi o))
          (fun j => flat_map (exec_inner lib en j) (out_body o)).
Definition exec (lib : libm) (en : env) (s : sched) : list ev := flat_map (exec_outer lib en) s.

(* a kernel call: id, metadata index offset, grid-point type and field of its first written argument,
   iteration space (lower case, as KernelType stores it) *)
Record kern := mkK { k_id : nat; k_off : string; k_type : string; k_space : string; k_fld : nat }.
Definition attr_of (k : kern) : lattr := mkA (k_off k) (k_type k) (k_space k) (k_fld k).
Definition akey (a : lattr) : key := (a_off a, a_type a, a_space a).

(* GOLoop.lower_bound / upper_bound.  [first] is the first r2d_field argument of the invoke. *)
Definition default_bound (tb : table) (first : nat) (a : lattr) (d : dim) (s : side) : option gexpr :=
  if String.eqb (a_type a) "go_every" then
    Some (match s with Lo => GLit 1 | Hi => GSize (a_fld a) d end)
  else if String.eqb (a_space a) "go_internal_pts" then Some (GFld (a_fld a) Internal d s)
  else if String.eqb (a_space a) "go_all_pts" then Some (GFld (a_fld a) Whole d s)
  else match lookup tb (akey a) with
       | Some b => Some (subst_b (sel b d s) (GGridStop first d))
       | None => None                       (* GenerationError *)
       end.

(* GOConstLoopBoundsTrans: every loop gets its table entry with start='2', stop=istop|jstop, where
   istop/jstop are assigned first%grid%subdomain%internal%{x,y}stop *)
Definition const_bound (tb : table) (first : nat) (a : lattr) (d : dim) (s : side) : option gexpr :=
  match lookup tb (akey a) with
  | Some b => Some (subst_b (sel b d s) (GGridStop first d))
  | None => None                            (* TransformationError *)
  end.

Definition bounds_fn := lattr -> dim -> side -> option gexpr.

Definition mk_inner (bf : bounds_fn) (a : lattr) (ks : list nat) (w : list nat) : option inner :=
  match bf a X Lo, bf a X Hi with
  | Some lo, Some hi => Some (mkI a lo hi ks w)
  | _, _ => None
  end.

Fixpoint map_opt {A B : Type} (f : A -> option B) (l : list A) : option (list B) :=
  match l with
  | [] => Some []
  | x :: r => match f x, map_opt f r with
              | Some y, Some ys => Some (y :: ys)
              | _, _ => None
              end
  end.

(* GOKernCallFactory.create *)
Definition gen_outer (tb : table) (first : nat) (k : kern) : option outer :=
  let a := attr_of k in
  match default_bound tb first a Y Lo, default_bound tb first a Y Hi,
        mk_inner (default_bound tb first) a [k_id k] [] with
  | Some lo, Some hi, Some l => Some (mkO a lo hi [l] [])
  | _, _, _ => None
  end.
Definition gen_sched (tb : table) (first : nat) (ks : list kern) : option sched :=
  map_opt (gen_outer tb first) ks.

(* ------------------------------------------------------------------ transformations *)
Definition const_inner (tb : table) (first : nat) (l : inner) : option inner :=
  mk_inner (const_bound tb first) (in_attr l) (in_ks l) (in_wrap l).
Definition const_outer (tb : table) (first : nat) (o : outer) : option outer :=
  match const_bound tb first (out_attr o) Y Lo, const_bound tb first (out_attr o) Y Hi,
        map_opt (const_inner tb first) (out_body o) with
  | Some lo, Some hi, Some body => Some (mkO (out_attr o) lo hi body (out_wrap o))
  | _, _, _ => None
  end.

(* what LoopFuseTrans.validate + GOceanLoopFuseTrans.validate compare for two GOLoops *)
Definition attrs_fusable (a b : lattr) : bool :=
  String.eqb (a_space a) (a_space b) && String.eqb (a_type a) (a_type b).
Definition is_nil {A : Type} (l : list A) : bool := match l with [] => true | _ => false end.

Definition ok_o (a b : outer) : bool :=
  is_nil (out_wrap a) && is_nil (out_wrap b) && attrs_fusable (out_attr a) (out_attr b).
Definition ok_i (a b : inner) : bool :=
  is_nil (in_wrap a) && is_nil (in_wrap b) && attrs_fusable (in_attr a) (in_attr b).
(* the first loop keeps its bounds and attributes and receives the body of the second *)
Definition fuse_o (a b : outer) : outer :=
  mkO (out_attr a) (out_lo a) (out_hi a) (out_body a ++ out_body b) [].
Definition fuse_i (a b : inner) : inner :=
  mkI (in_attr a) (in_lo a) (in_hi a) (in_ks a ++ in_ks b) [].

Fixpoint fuse_at {A : Type} (ok : A -> A -> bool) (f : A -> A -> A) (n : nat) (l : list A) : option (list A) :=
  match n, l with
  | O, x :: y :: r => if ok x y then Some (f x y :: r) else None
  | S n', x :: r => option_map (cons x) (fuse_at ok f n' r)
  | _, _ => None
  end.
Fixpoint update_at {A : Type} (g : A -> option A) (n : nat) (l : list A) : option (list A) :=
  match n, l with
  | O, x :: r => option_map (fun y => y :: r) (g x)
  | S n', x :: r => option_map (cons x) (update_at g n' r)
  | _, [] => None
  end.

Definition set_body (o : outer) (b : list inner) : outer :=
  mkO (out_attr o) (out_lo o) (out_hi o) b (out_wrap o).

Inductive xform :=
| XConst                                 (* GOConstLoopBoundsTrans on the invoke *)
| XFuseOuter (n : nat)                   (* GOceanLoopFuseTrans on top-level nests n and n+1 *)
| XFuseInner (n m : nat)                 (* ... on inner loops m and m+1 of nest n *)
| XWrapOuter (n w : nat)                 (* OpenMP/OpenACC directive or extraction region w around nest n *)
| XWrapInner (n m w : nat).              (* ... around inner loop m of nest n *)

Definition apply_x (tb : table) (first : nat) (s : sched) (x : xform) : option sched :=
  match x with
  | XConst => map_opt (const_outer tb first) s
  | XFuseOuter n => fuse_at ok_o fuse_o n s
  | XFuseInner n m =>
      update_at (fun o => option_map (set_body o) (fuse_at ok_i fuse_i m (out_body o))) n s
  | XWrapOuter n w =>
      update_at (fun o => Some (mkO (out_attr o) (out_lo o) (out_hi o) (out_body o) (w :: out_wrap o))) n s
  | XWrapInner n m w =>
      update_at (fun o => option_map (set_body o)
        (update_at (fun l => Some (mkI (in_attr l) (in_lo l) (in_hi l) (in_ks l) (w :: in_wrap l))) m (out_body o))) n s
  end.

Fixpoint apply_hist (tb : table) (first : nat) (s : sched) (h : list xform) : option sched :=
  match h with
  | [] => Some s
  | x :: r => match apply_x tb first s x with
              | Some s' => apply_hist tb first s' r
              | None => None
              end
  end.

(* ------------------------------------------------------------------ the reference (definition of
   the built-in regions = contract of the dl_esm_inf library): PSyclone's table as of the verified
   tree.  The live table (C25/Gen.v) is proved equal to it on every run. *)
Definition ref_table : table := [
  (("go_offset_ne", "go_cu", "go_all_pts"), mkB (BSub BStart (BLit 1)) (BAdd BStop (BLit 1)) (BSub BStart (BLit 1)) BStop);
  (("go_offset_ne", "go_cu", "go_internal_pts"), mkB BStart BStop BStart (BSub BStop (BLit 1)));
  (("go_offset_ne", "go_cv", "go_all_pts"), mkB (BSub BStart (BLit 1)) BStop (BSub BStart (BLit 1)) (BAdd BStop (BLit 1)));
  (("go_offset_ne", "go_cv", "go_internal_pts"), mkB BStart (BSub BStop (BLit 1)) BStart BStop);
  (("go_offset_ne", "go_ct", "go_all_pts"), mkB (BSub BStart (BLit 1)) (BAdd BStop (BLit 1)) (BSub BStart (BLit 1)) (BAdd BStop (BLit 1)));
  (("go_offset_ne", "go_ct", "go_internal_pts"), mkB BStart BStop BStart BStop);
  (("go_offset_ne", "go_cf", "go_all_pts"), mkB (BSub BStart (BLit 1)) BStop (BSub BStart (BLit 1)) BStop);
  (("go_offset_ne", "go_cf", "go_internal_pts"), mkB (BSub BStart (BLit 1)) (BSub BStop (BLit 1)) (BSub BStart (BLit 1)) (BSub BStop (BLit 1)));
  (("go_offset_ne", "go_every", "go_all_pts"), mkB (BSub BStart (BLit 1)) (BAdd BStop (BLit 1)) (BSub BStart (BLit 1)) (BAdd BStop (BLit 1)));
  (("go_offset_ne", "go_every", "go_internal_pts"), mkB (BSub BStart (BLit 1)) (BAdd BStop (BLit 1)) (BSub BStart (BLit 1)) (BAdd BStop (BLit 1)));
  (("go_offset_ne", "go_every", "go_external_pts"), mkB (BSub BStart (BLit 1)) (BAdd BStop (BLit 1)) (BSub BStart (BLit 1)) (BAdd BStop (BLit 1)));
  (("go_offset_sw", "go_cu", "go_all_pts"), mkB (BSub BStart (BLit 1)) (BAdd BStop (BLit 1)) (BSub BStart (BLit 1)) (BAdd BStop (BLit 1)));
  (("go_offset_sw", "go_cu", "go_internal_pts"), mkB BStart BStop BStart (BAdd BStop (BLit 1)));
  (("go_offset_sw", "go_cv", "go_all_pts"), mkB (BSub BStart (BLit 1)) (BAdd BStop (BLit 1)) (BSub BStart (BLit 1)) (BAdd BStop (BLit 1)));
  (("go_offset_sw", "go_cv", "go_internal_pts"), mkB BStart (BAdd BStop (BLit 1)) BStart BStop);
  (("go_offset_sw", "go_ct", "go_all_pts"), mkB (BSub BStart (BLit 1)) (BAdd BStop (BLit 1)) (BSub BStart (BLit 1)) (BAdd BStop (BLit 1)));
  (("go_offset_sw", "go_ct", "go_internal_pts"), mkB BStart BStop BStart BStop);
  (("go_offset_sw", "go_cf", "go_all_pts"), mkB (BSub BStart (BLit 1)) (BAdd BStop (BLit 1)) (BSub BStart (BLit 1)) (BAdd BStop (BLit 1)));
  (("go_offset_sw", "go_cf", "go_internal_pts"), mkB BStart (BAdd BStop (BLit 1)) BStart (BAdd BStop (BLit 1)));
  (("go_offset_sw", "go_every", "go_all_pts"), mkB (BSub BStart (BLit 1)) (BAdd BStop (BLit 1)) (BSub BStart (BLit 1)) (BAdd BStop (BLit 1)));
  (("go_offset_sw", "go_every", "go_internal_pts"), mkB (BSub BStart (BLit 1)) (BAdd BStop (BLit 1)) (BSub BStart (BLit 1)) (BAdd BStop (BLit 1)));
  (("go_offset_sw", "go_every", "go_external_pts"), mkB (BSub BStart (BLit 1)) (BAdd BStop (BLit 1)) (BSub BStart (BLit 1)) (BAdd BStop (BLit 1)));
  (("go_offset_any", "go_cu", "go_all_pts"), mkB (BSub BStart (BLit 1)) BStop (BSub BStart (BLit 1)) BStop);
  (("go_offset_any", "go_cu", "go_internal_pts"), mkB (BSub BStart (BLit 1)) BStop (BSub BStart (BLit 1)) BStop);
  (("go_offset_any", "go_cu", "go_external_pts"), mkB (BSub BStart (BLit 1)) BStop (BSub BStart (BLit 1)) BStop);
  (("go_offset_any", "go_cv", "go_all_pts"), mkB (BSub BStart (BLit 1)) BStop (BSub BStart (BLit 1)) BStop);
  (("go_offset_any", "go_cv", "go_internal_pts"), mkB (BSub BStart (BLit 1)) BStop (BSub BStart (BLit 1)) BStop);
  (("go_offset_any", "go_cv", "go_external_pts"), mkB (BSub BStart (BLit 1)) BStop (BSub BStart (BLit 1)) BStop);
  (("go_offset_any", "go_ct", "go_all_pts"), mkB (BSub BStart (BLit 1)) BStop (BSub BStart (BLit 1)) BStop);
  (("go_offset_any", "go_ct", "go_internal_pts"), mkB (BSub BStart (BLit 1)) BStop (BSub BStart (BLit 1)) BStop);
  (("go_offset_any", "go_ct", "go_external_pts"), mkB (BSub BStart (BLit 1)) BStop (BSub BStart (BLit 1)) BStop);
  (("go_offset_any", "go_cf", "go_all_pts"), mkB (BSub BStart (BLit 1)) BStop (BSub BStart (BLit 1)) BStop);
  (("go_offset_any", "go_cf", "go_internal_pts"), mkB (BSub BStart (BLit 1)) BStop (BSub BStart (BLit 1)) BStop);
  (("go_offset_any", "go_cf", "go_external_pts"), mkB (BSub BStart (BLit 1)) BStop (BSub BStart (BLit 1)) BStop);
  (("go_offset_any", "go_every", "go_all_pts"), mkB (BSub BStart (BLit 1)) (BAdd BStop (BLit 1)) (BSub BStart (BLit 1)) (BAdd BStop (BLit 1)));
  (("go_offset_any", "go_every", "go_internal_pts"), mkB (BSub BStart (BLit 1)) (BAdd BStop (BLit 1)) (BSub BStart (BLit 1)) (BAdd BStop (BLit 1)));
  (("go_offset_any", "go_every", "go_external_pts"), mkB (BSub BStart (BLit 1)) (BAdd BStop (BLit 1)) (BSub BStart (BLit 1)) (BAdd BStop (BLit 1)))
].

Definition ref_lib : libm := lib_of_table ref_table.

Definition real_offsets : list string := ["go_offset_ne"; "go_offset_sw"].
Definition point_types : list string := ["go_cu"; "go_cv"; "go_ct"; "go_cf"].
Definition mem (s : string) (l : list string) : bool := existsb (String.eqb s) l.

(* ------------------------------------------------------------------ the configured region *)
Definition builtin_space (s : string) : bool :=
  String.eqb s "go_internal_pts" || String.eqb s "go_all_pts".

(* Region the property assigns to kernel k on a grid of offset G:
   - the configuration file's region when it defines (offset, type, space);
   - all points of the array (depth-1 halo included) for grid-point type go_every;
   - otherwise the built-in region of (offset, type, space), where a GO_OFFSET_ANY kernel iterating
     over a built-in space takes the region of the grid's own offset. *)
Definition spec_region (cfg : table) (G : string) (k : kern) (sx sy : Z) : option rect :=
  match lookup_last cfg (akey (attr_of k)) with
  | Some b => Some (region_of b sx sy)
  | None =>
      if String.eqb (k_type k) "go_every" then Some (mkR 1 (sy + 1) 1 (sx + 1))
      else
        let off := if String.eqb (k_off k) "go_offset_any" && builtin_space (k_space k) then G else k_off k in
        option_map (fun b => region_of b sx sy) (lookup ref_table (off, k_type k, k_space k))
  end.

(* configuration lines that the default code path does not look at: a built-in space name, or any
   space for grid-point type go_every *)
Definition cfg_ignored (cfg : table) (k : kern) : bool :=
  match lookup_last cfg (akey (attr_of k)) with
  | Some _ => String.eqb (k_type k) "go_every" || builtin_space (k_space k)
  | None => false
  end.
