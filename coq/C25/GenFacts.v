(* C25 - the generated loop nest of a kernel visits the configured region (default code path and
   GOConstLoopBoundsTrans), under the library contract; refutation witnesses where the unchanged code
   does not (GO_OFFSET_ANY under constant loop bounds; configuration lines that are not looked at). *)
From Coq Require Import List ZArith Bool String Lia.
Import ListNotations.
From PV Require Import C25.Model C25.BoundsFacts C25.TraceFacts C25.Gen C25.TableFacts.
Local Open Scope Z_scope.
Local Open Scope list_scope.
Local Open Scope string_scope.

(* The dl_esm_inf contract (unverifiable here: the library source is not in the repository):
   field-object bounds are the reference table's go_internal_pts / go_all_pts rows with start=2 and
   stop = the grid's internal stop index, and field arrays cover exactly the depth-1 halo. *)
Definition lib_contract (lib : libm) : Prop :=
  (forall g t r d s S, mem g real_offsets = true -> mem t point_types = true ->
     lib_bound lib g t r d s S = lib_bound ref_lib g t r d s S) /\
  (forall S, lib_size lib S = S + 1).

Lemma ref_lib_contract : lib_contract ref_lib.
Proof. split; intros; reflexivity. Qed.

(* tb answers lookups like "the configuration lines on top of the reference table" *)
Definition table_is (cfg tb : table) : Prop :=
  forall k, lookup tb k = match lookup_last cfg k with Some b => Some b | None => lookup ref_table k end.

Lemma table_is_add_all_ref : forall cfg, table_is cfg (add_all ref_table cfg).
Proof. intros cfg k; apply lookup_add_all. Qed.

Lemma table_is_add_all_builtin : forall cfg, table_is cfg (add_all builtin_table cfg).
Proof. intros cfg k. rewrite lookup_add_all, builtin_table_is_reference_. reflexivity. Qed.

Definition kof (a : lattr) : kern := mkK 0 (a_off a) (a_type a) (a_space a) (a_fld a).

Definition rsel (r : rect) (d : dim) (s : side) : Z :=
  match d, s with Y, Lo => jlo r | Y, Hi => jhi r | X, Lo => ilo r | X, Hi => ihi r end.

Lemma rsel_region_of : forall b sx sy d s,
  rsel (region_of b sx sy) d s = eval_b 2 (match d with X => sx | Y => sy end) (sel b d s).
Proof. intros b sx sy [] []; reflexivity. Qed.

(* the loop attributes fit the grid and the fields, and no configuration line is being ignored *)
Definition attr_ok (cfg : table) (en : env) (a : lattr) : Prop :=
  mem (e_goff en) real_offsets = true /\
  (a_off a = e_goff en \/ a_off a = "go_offset_any") /\
  (a_type a = "go_every" \/ (mem (a_type a) point_types = true /\ e_ftype en (a_fld a) = a_type a)) /\
  cfg_ignored cfg (kof a) = false.

(* GO_OFFSET_ANY with a built-in space is where constant loop bounds differ *)
Definition const_safe (en : env) (a : lattr) : Prop :=
  a_off a = e_goff en \/ a_type a = "go_every" \/ builtin_space (a_space a) = false.

Lemma point_type_not_every : forall t, mem t point_types = true -> String.eqb t "go_every" = false.
Proof.
  intros t H. destruct (String.eqb t "go_every") eqn:E; [|reflexivity].
  apply String.eqb_eq in E; subst. vm_compute in H. discriminate.
Qed.

Section WithLib.
Variable lib : libm.
Hypothesis HC : lib_contract lib.

Lemma lib_fld_eval : forall en f r d s,
  mem (e_goff en) real_offsets = true -> mem (e_ftype en f) point_types = true ->
  exists b, lookup ref_table (e_goff en, e_ftype en f, space_of_regk r) = Some b /\
            eval_g lib en (GFld f r d s) = eval_b 2 (stop_of en d) (sel b d s).
Proof.
  intros en f r d s Hg Ht. destruct (ref_complete_ _ _ r Hg Ht) as [b Hb]. exists b; split; [assumption|].
  cbn [eval_g]. destruct HC as [HB _]. rewrite (HB _ _ r d s _ Hg Ht).
  unfold ref_lib, lib_of_table; cbn [lib_bound]. rewrite Hb. reflexivity.
Qed.

Lemma stop_of_match : forall en d, stop_of en d = match d with X => e_sx en | Y => e_sy en end.
Proof. intros en []; reflexivity. Qed.

(* GOLoop.lower_bound/upper_bound evaluate to the configured region *)
Lemma default_bound_eval : forall cfg tb first en a d s g,
  table_is cfg tb -> attr_ok cfg en a ->
  default_bound tb first a d s = Some g ->
  exists r, spec_region cfg (e_goff en) (kof a) (e_sx en) (e_sy en) = Some r /\
            eval_g lib en g = rsel r d s.
Proof.
  intros cfg tb first en a d s g HT [Hg [Hoff [Hty Hig]]] H.
  unfold default_bound in H. unfold spec_region, cfg_ignored, akey, attr_of, kof in *. cbn [k_off k_type k_space k_fld a_off a_type a_space a_fld] in *.
  destruct (String.eqb (a_type a) "go_every") eqn:Eev.
  - (* go_every: 1 .. SIZE *)
    destruct (lookup_last cfg (a_off a, a_type a, a_space a)); [cbn in Hig; discriminate|].
    exists (mkR 1 (e_sy en + 1) 1 (e_sx en + 1)); split; [reflexivity|].
    destruct HC as [_ HS]. inversion H; subst g. destruct d, s; cbn [eval_g rsel jlo jhi ilo ihi stop_of]; rewrite ?HS; reflexivity.
  - destruct Hty as [Hty|[Hpt Hft]]; [apply String.eqb_eq in Hty; congruence|].
    assert (Hpt' : mem (e_ftype en (a_fld a)) point_types = true) by (rewrite Hft; assumption).
    destruct (String.eqb (a_space a) "go_internal_pts") eqn:Ein.
    + (* fld%internal%... *)
      apply String.eqb_eq in Ein.
      destruct (lookup_last cfg (a_off a, a_type a, a_space a));
        [rewrite Ein in Hig; vm_compute in Hig; discriminate|].
      inversion H; subst g.
      destruct (lib_fld_eval en (a_fld a) Internal d s Hg Hpt') as [b [Hb Hev]].
      rewrite Hft in Hb. cbn [space_of_regk] in Hb.
      exists (region_of b (e_sx en) (e_sy en)); split.
      * assert (Eb : builtin_space (a_space a) = true) by (rewrite Ein; reflexivity).
        rewrite Eb, andb_true_r, Ein.
        destruct Hoff as [Hoff|Hoff]; rewrite Hoff.
        -- destruct (String.eqb (e_goff en) "go_offset_any"); rewrite Hb; reflexivity.
        -- rewrite String.eqb_refl. rewrite Hb; reflexivity.
      * rewrite Hev, rsel_region_of, stop_of_match. reflexivity.
    + destruct (String.eqb (a_space a) "go_all_pts") eqn:Eal.
      * (* fld%whole%... *)
        apply String.eqb_eq in Eal.
        destruct (lookup_last cfg (a_off a, a_type a, a_space a));
          [rewrite Eal in Hig; vm_compute in Hig; discriminate|].
        inversion H; subst g.
        destruct (lib_fld_eval en (a_fld a) Whole d s Hg Hpt') as [b [Hb Hev]].
        rewrite Hft in Hb. cbn [space_of_regk] in Hb.
        exists (region_of b (e_sx en) (e_sy en)); split.
        -- assert (Eb : builtin_space (a_space a) = true) by (rewrite Eal; reflexivity).
           rewrite Eb, andb_true_r, Eal.
           destruct Hoff as [Hoff|Hoff]; rewrite Hoff.
           ++ destruct (String.eqb (e_goff en) "go_offset_any"); rewrite Hb; reflexivity.
           ++ rewrite String.eqb_refl. rewrite Hb; reflexivity.
        -- rewrite Hev, rsel_region_of, stop_of_match. reflexivity.
      * (* custom space: table entry with start=2, stop=first%grid%subdomain%internal%stop *)
        destruct (lookup tb (a_off a, a_type a, a_space a)) as [b|] eqn:El; [|discriminate]. inversion H; subst g.
        rewrite HT in El.
        exists (region_of b (e_sx en) (e_sy en)); split.
        -- destruct (lookup_last cfg (a_off a, a_type a, a_space a)) as [b'|]; [inversion El; reflexivity|].
           unfold builtin_space. rewrite Ein, Eal. cbn [orb]. rewrite andb_false_r. rewrite El. reflexivity.
        -- rewrite (eval_subst_b lib en (sel b d s) (GGridStop first d) (stop_of en d) eq_refl), rsel_region_of, stop_of_match. reflexivity.
Qed.

(* GOConstLoopBoundsTrans evaluates to the configured region, except for GO_OFFSET_ANY + built-in space *)
Lemma const_bound_eval : forall cfg tb first en a d s g,
  table_is cfg tb -> attr_ok cfg en a -> const_safe en a ->
  const_bound tb first a d s = Some g ->
  exists r, spec_region cfg (e_goff en) (kof a) (e_sx en) (e_sy en) = Some r /\
            eval_g lib en g = rsel r d s.
Proof.
  intros cfg tb first en a d s g HT [Hg [Hoff [Hty Hig]]] Hsafe H.
  unfold const_bound in H. destruct (lookup tb (akey a)) as [b|] eqn:El; [|discriminate]. inversion H; subst g.
  unfold akey in El. rewrite HT in El.
  unfold spec_region, akey, attr_of, kof. cbn [k_off k_type k_space k_fld a_off a_type a_space a_fld].
  exists (region_of b (e_sx en) (e_sy en)); split.
  - destruct (lookup_last cfg (a_off a, a_type a, a_space a)) as [b'|]; [inversion El; reflexivity|].
    destruct (String.eqb (a_type a) "go_every") eqn:Eev.
    + apply String.eqb_eq in Eev. rewrite Eev in El. rewrite <- builtin_table_is_reference_ in El.
      rewrite (every_rows_full_ _ _ _ El). reflexivity.
    + assert (Eo : (if String.eqb (a_off a) "go_offset_any" && builtin_space (a_space a) then e_goff en else a_off a) = a_off a).
      { destruct Hsafe as [Hs|[Hs|Hs]].
        - destruct (String.eqb (a_off a) "go_offset_any" && builtin_space (a_space a)); congruence.
        - apply String.eqb_eq in Hs; congruence.
        - rewrite Hs, andb_false_r; reflexivity. }
      rewrite Eo, El. reflexivity.
  - rewrite (eval_subst_b lib en (sel b d s) (GGridStop first d) (stop_of en d) eq_refl), rsel_region_of, stop_of_match. reflexivity.
Qed.

(* a nest holding one inner loop with one kernel *)
Lemma exec_single : forall en a lo hi a' lo' hi' kid w w',
  exec_outer lib en (mkO a lo hi [mkI a' lo' hi' [kid] w] w') =
  nest kid (mkR (eval_g lib en lo) (eval_g lib en hi) (eval_g lib en lo') (eval_g lib en hi')).
Proof.
  intros. unfold exec_outer, nest; cbn [out_lo out_hi out_body jlo jhi ilo ihi].
  apply do_loop_ext. intros j. cbn [flat_map]. rewrite app_nil_r. unfold exec_inner; cbn [in_lo in_hi in_ks].
  apply do_loop_ext. intros i. reflexivity.
Qed.

Lemma rect_from_rsel : forall r, mkR (rsel r Y Lo) (rsel r Y Hi) (rsel r X Lo) (rsel r X Hi) = r.
Proof. intros []; reflexivity. Qed.

(* Default code path: the nest generated for a kernel visits exactly its configured region. *)
Theorem generated_region_is_configured_ : forall cfg tb first en k o,
  table_is cfg tb -> attr_ok cfg en (attr_of k) ->
  gen_outer tb first k = Some o ->
  exists r, spec_region cfg (e_goff en) k (e_sx en) (e_sy en) = Some r /\
            exec_outer lib en o = nest (k_id k) r.
Proof.
  intros cfg tb first en k o HT Hok H. unfold gen_outer, mk_inner in H.
  destruct (default_bound tb first (attr_of k) Y Lo) as [g1|] eqn:E1; [|discriminate].
  destruct (default_bound tb first (attr_of k) Y Hi) as [g2|] eqn:E2; [|discriminate].
  destruct (default_bound tb first (attr_of k) X Lo) as [g3|] eqn:E3; [|discriminate].
  destruct (default_bound tb first (attr_of k) X Hi) as [g4|] eqn:E4; [|discriminate].
  inversion H; subst o.
  destruct (default_bound_eval _ _ _ _ _ _ _ _ HT Hok E1) as [r [Hr V1]].
  destruct (default_bound_eval _ _ _ _ _ _ _ _ HT Hok E2) as [r2 [Hr2 V2]].
  destruct (default_bound_eval _ _ _ _ _ _ _ _ HT Hok E3) as [r3 [Hr3 V3]].
  destruct (default_bound_eval _ _ _ _ _ _ _ _ HT Hok E4) as [r4 [Hr4 V4]].
  rewrite Hr in Hr2, Hr3, Hr4. inversion Hr2; inversion Hr3; inversion Hr4; subst r2 r3 r4.
  exists r; split; [exact Hr|].
  rewrite exec_single, V1, V2, V3, V4, rect_from_rsel. reflexivity.
Qed.

(* Constant loop bounds: same trace as before, for kernels written for the grid's own offset
   (or over go_every / a user-defined space). *)
Theorem const_bounds_same_region_ : forall cfg tb first en k o o',
  table_is cfg tb -> attr_ok cfg en (attr_of k) -> const_safe en (attr_of k) ->
  gen_outer tb first k = Some o -> const_outer tb first o = Some o' ->
  exec_outer lib en o' = exec_outer lib en o.
Proof.
  intros cfg tb first en k o o' HT Hok Hsafe Hgen Hc.
  destruct (generated_region_is_configured_ _ _ _ _ _ _ HT Hok Hgen) as [r [Hr Hex]]. rewrite Hex.
  unfold gen_outer, mk_inner in Hgen.
  destruct (default_bound tb first (attr_of k) Y Lo) as [d1|]; [|discriminate].
  destruct (default_bound tb first (attr_of k) Y Hi) as [d2|]; [|discriminate].
  destruct (default_bound tb first (attr_of k) X Lo) as [d3|]; [|discriminate].
  destruct (default_bound tb first (attr_of k) X Hi) as [d4|]; [|discriminate].
  inversion Hgen; subst o. clear Hgen.
  unfold const_outer in Hc; cbn [out_attr out_body out_wrap map_opt] in Hc.
  unfold const_inner, mk_inner in Hc; cbn [in_attr in_ks in_wrap] in Hc.
  destruct (const_bound tb first (attr_of k) Y Lo) as [g1|] eqn:E1; [|discriminate].
  destruct (const_bound tb first (attr_of k) Y Hi) as [g2|] eqn:E2; [|discriminate].
  destruct (const_bound tb first (attr_of k) X Lo) as [g3|] eqn:E3; [|discriminate].
  destruct (const_bound tb first (attr_of k) X Hi) as [g4|] eqn:E4; [|discriminate].
  inversion Hc; subst o'.
  destruct (const_bound_eval _ _ _ _ _ _ _ _ HT Hok Hsafe E1) as [r1 [Hr1 V1]].
  destruct (const_bound_eval _ _ _ _ _ _ _ _ HT Hok Hsafe E2) as [r2 [Hr2 V2]].
  destruct (const_bound_eval _ _ _ _ _ _ _ _ HT Hok Hsafe E3) as [r3 [Hr3 V3]].
  destruct (const_bound_eval _ _ _ _ _ _ _ _ HT Hok Hsafe E4) as [r4 [Hr4 V4]].
  change (spec_region cfg (e_goff en) (kof (attr_of k)) (e_sx en) (e_sy en))
    with (spec_region cfg (e_goff en) k (e_sx en) (e_sy en)) in *.
  rewrite Hr in Hr1, Hr2, Hr3, Hr4. inversion Hr1; inversion Hr2; inversion Hr3; inversion Hr4; subst r1 r2 r3 r4.
  rewrite exec_single, V1, V2, V3, V4, rect_from_rsel. reflexivity.
Qed.

End WithLib.

(* ------------------------------------------------------------------ refutations: statements about the
   model of the code as verified (frozen reference table), so they stay true if the tree is repaired *)
Definition wit_env (g : string) (sx sy : Z) (t : string) : env := mkEnv g sx sy (fun _ => t).

(* GO_OFFSET_ANY kernel over T points, GO_INTERNAL_PTS, NE grid with internal region 2..3:
   default loops visit 2..3 x 2..3, constant-bounds loops visit 1..3 x 1..3 *)
Theorem const_bounds_any_offset_refuted_ :
  exists (k : kern) (en : env) (o o' : outer),
    lib_contract ref_lib /\ attr_ok [] en (attr_of k) /\
    gen_outer ref_table 0 k = Some o /\ const_outer ref_table 0 o = Some o' /\
    spec_region [] (e_goff en) k (e_sx en) (e_sy en) = Some (mkR 2 3 2 3) /\
    exec_outer ref_lib en o = nest (k_id k) (mkR 2 3 2 3) /\
    exec_outer ref_lib en o' = nest (k_id k) (mkR 1 3 1 3) /\
    exec_outer ref_lib en o' <> exec_outer ref_lib en o.
Proof.
  exists (mkK 7 "go_offset_any" "go_ct" "go_internal_pts" 0), (wit_env "go_offset_ne" 3 3 "go_ct").
  eexists; eexists.
  split; [apply ref_lib_contract|].
  split; [unfold attr_ok; cbn; repeat split; auto|].
  split; [vm_compute; reflexivity|]. split; [vm_compute; reflexivity|].
  split; [vm_compute; reflexivity|]. split; [vm_compute; reflexivity|]. split; [vm_compute; reflexivity|].
  vm_compute; discriminate.
Qed.

(* a configuration line that redefines go_all_pts for (NE, cu) is not looked at by the default path *)
Theorem config_line_ignored_refuted_ :
  exists (cfg : table) (k : kern) (en : env) (o : outer) (r : rect),
    cfg_ignored cfg k = true /\
    gen_outer (add_all ref_table cfg) 0 k = Some o /\
    spec_region cfg (e_goff en) k (e_sx en) (e_sy en) = Some r /\
    exec_outer ref_lib en o <> nest (k_id k) r.
Proof.
  exists [(("go_offset_ne", "go_cu", "go_all_pts"), mkB BStart BStop BStart BStop)],
         (mkK 7 "go_offset_ne" "go_cu" "go_all_pts" 0), (wit_env "go_offset_ne" 3 3 "go_cu").
  eexists; eexists.
  split; [vm_compute; reflexivity|]. split; [vm_compute; reflexivity|]. split; [vm_compute; reflexivity|].
  vm_compute; discriminate.
Qed.

(* non-vacuity of the positive theorems: a NE-offset cu kernel over go_internal_pts on a 4 x 5 grid *)
Example generated_region_nonvacuous :
  let k := mkK 1 "go_offset_ne" "go_cu" "go_internal_pts" 0 in
  let en := wit_env "go_offset_ne" 4 5 "go_cu" in
  attr_ok [] en (attr_of k) /\ const_safe en (attr_of k) /\
  (exists o o', gen_outer builtin_table 0 k = Some o /\ const_outer builtin_table 0 o = Some o' /\
                exec_outer ref_lib en o = nest 1 (mkR 2 5 2 3) /\ exec_outer ref_lib en o' = nest 1 (mkR 2 5 2 3)).
Proof.
  cbn zeta. split; [unfold attr_ok; cbn; repeat split; auto|].
  split; [left; reflexivity|].
  eexists; eexists. split; [vm_compute; reflexivity|]. split; [vm_compute; reflexivity|].
  split; vm_compute; reflexivity.
Qed.
