(* C25 - facts about DO-loop traces: a nest visits exactly its rectangle, once per point, in
   row-major order; per-point call sequences under loop fusion. *)
From Coq Require Import List ZArith Bool String Lia Sorting.Sorted.
Import ListNotations.
From PV Require Import C25.Model.
Local Open Scope Z_scope.
Local Open Scope list_scope.

Lemma do_iter_ext : forall (A : Type) n v (f g : Z -> list A),
  (forall u, f u = g u) -> do_iter n v f = do_iter n v g.
Proof.
  intros A n; induction n as [|n IH]; intros v f g H; cbn [do_iter]; [reflexivity|].
  rewrite (H v), (IH (v + 1) f g H); reflexivity.
Qed.

Lemma do_loop_ext : forall (A : Type) lo hi (f g : Z -> list A),
  (forall u, f u = g u) -> do_loop lo hi f = do_loop lo hi g.
Proof. intros; unfold do_loop; apply do_iter_ext; assumption. Qed.

Lemma in_do_iter : forall (A : Type) n v (body : Z -> list A) e,
  In e (do_iter n v body) <-> exists u, v <= u < v + Z.of_nat n /\ In e (body u).
Proof.
  intros A n; induction n as [|n IH]; intros v body e; cbn [do_iter].
  - split; [intros []|intros [u [Hu _]]; lia].
  - rewrite in_app_iff, IH. split.
    + intros [H|[u [Hu H]]]; [exists v|exists u]; split; try assumption; lia.
    + intros [u [Hu H]]. destruct (Z.eq_dec u v) as [->|Hne]; [left; assumption|].
      right; exists u; split; [lia|assumption].
Qed.

Lemma in_do_loop : forall (A : Type) lo hi (body : Z -> list A) e,
  In e (do_loop lo hi body) <-> exists u, lo <= u <= hi /\ In e (body u).
Proof.
  intros A lo hi body e; unfold do_loop; rewrite in_do_iter.
  split; intros [u [Hu H]]; exists u; (split; [lia|assumption]).
Qed.

Lemma nodup_app : forall (A : Type) (l1 l2 : list A),
  NoDup l1 -> NoDup l2 -> (forall x, In x l1 -> ~ In x l2) -> NoDup (l1 ++ l2).
Proof.
  intros A l1; induction l1 as [|a l1 IH]; intros l2 H1 H2 Hd; cbn; [assumption|].
  inversion H1 as [|a' l' Hna Hnd]; subst. constructor.
  - rewrite in_app_iff; intros [H|H]; [contradiction|]. apply (Hd a); [left; reflexivity|assumption].
  - apply IH; try assumption. intros x Hx; apply Hd; right; assumption.
Qed.

Lemma nodup_do_iter : forall (A : Type) n v (body : Z -> list A),
  (forall u, NoDup (body u)) ->
  (forall u u' e, In e (body u) -> In e (body u') -> u = u') ->
  NoDup (do_iter n v body).
Proof.
  intros A n; induction n as [|n IH]; intros v body Hn Hd; cbn [do_iter]; [constructor|].
  apply nodup_app; [apply Hn|apply IH; assumption|].
  intros x Hx Hin. apply in_do_iter in Hin. destruct Hin as [u [Hu Hin]].
  pose proof (Hd v u x Hx Hin). lia.
Qed.

Lemma sorted_app : forall (A : Type) (R : A -> A -> Prop) (l1 l2 : list A),
  StronglySorted R l1 -> StronglySorted R l2 ->
  (forall x y, In x l1 -> In y l2 -> R x y) -> StronglySorted R (l1 ++ l2).
Proof.
  intros A R l1; induction l1 as [|a l1 IH]; intros l2 H1 H2 Hc; cbn; [assumption|].
  inversion H1 as [|a' l' Hs Hf]; subst. constructor.
  - apply IH; try assumption. intros x y Hx Hy; apply Hc; [right|]; assumption.
  - rewrite Forall_forall in *. intros x Hx. apply in_app_iff in Hx. destruct Hx as [Hx|Hx].
    + apply Hf; assumption.
    + apply Hc; [left; reflexivity|assumption].
Qed.

Lemma sorted_do_iter : forall (A : Type) (R : A -> A -> Prop) n v (body : Z -> list A),
  (forall u, StronglySorted R (body u)) ->
  (forall u u' a b, u < u' -> In a (body u) -> In b (body u') -> R a b) ->
  StronglySorted R (do_iter n v body).
Proof.
  intros A R n; induction n as [|n IH]; intros v body Hs Hc; cbn [do_iter]; [constructor|].
  apply sorted_app; [apply Hs|apply IH; assumption|].
  intros x y Hx Hy. apply in_do_iter in Hy. destruct Hy as [u [Hu Hy]].
  apply (Hc v u); [lia|assumption|assumption].
Qed.

(* ------------------------------------------------------------------ the nest *)
Lemma in_nest : forall k r k' i j,
  In (k', i, j) (nest k r) <-> k' = k /\ inside r i j.
Proof.
  intros k r k' i j; unfold nest, inside. rewrite in_do_loop. split.
  - intros [u [Hu H]]. apply in_do_loop in H. destruct H as [w [Hw H]].
    cbn in H. destruct H as [H|[]]. inversion H; subst. repeat split; lia.
  - intros [-> [Hj Hi]]. exists j; split; [lia|]. apply in_do_loop. exists i; split; [lia|].
    left; reflexivity.
Qed.

Lemma nodup_nest : forall k r, NoDup (nest k r).
Proof.
  intros k r; unfold nest, do_loop. apply nodup_do_iter.
  - intros u. apply nodup_do_iter.
    + intros w; constructor; [intros []|constructor].
    + intros w w' e [H|[]] [H'|[]]. subst e. inversion H'; reflexivity.
  - intros u u' e H H'. apply in_do_iter in H. apply in_do_iter in H'.
    destruct H as [w [_ [H|[]]]]. destruct H' as [w' [_ [H'|[]]]]. subst e. inversion H'; reflexivity.
Qed.

Lemma sorted_nest : forall k r, StronglySorted rm_lt (nest k r).
Proof.
  intros k r; unfold nest, do_loop. apply sorted_do_iter.
  - intros u. apply sorted_do_iter.
    + intros w; constructor; [constructor|constructor].
    + intros w w' a b Hlt [Ha|[]] [Hb|[]]; subst; unfold rm_lt, ev_i, ev_j; cbn. right; split; [reflexivity|assumption].
  - intros u u' a b Hlt Ha Hb. apply in_do_iter in Ha. apply in_do_iter in Hb.
    destruct Ha as [w [_ [Ha|[]]]]. destruct Hb as [w' [_ [Hb|[]]]]. subst; unfold rm_lt, ev_j; cbn. left; assumption.
Qed.

(* ------------------------------------------------------------------ per-point call sequences *)
Lemma at_pt_app : forall i j a b, at_pt i j (a ++ b) = at_pt i j a ++ at_pt i j b.
Proof. intros; unfold at_pt; rewrite filter_app, map_app; reflexivity. Qed.

Lemma at_pt_nil_j : forall i j l, (forall e, In e l -> ev_j e <> j) -> at_pt i j l = [].
Proof.
  intros i j l; induction l as [|a l IH]; intros H; [reflexivity|].
  unfold at_pt in *; cbn [filter].
  assert (Ha : ev_j a <> j) by (apply H; left; reflexivity).
  apply Z.eqb_neq in Ha. rewrite Ha, andb_false_r. apply IH. intros e He; apply H; right; assumption.
Qed.

Lemma at_pt_nil_i : forall i j l, (forall e, In e l -> ev_i e <> i) -> at_pt i j l = [].
Proof.
  intros i j l; induction l as [|a l IH]; intros H; [reflexivity|].
  unfold at_pt in *; cbn [filter].
  assert (Ha : ev_i a <> i) by (apply H; left; reflexivity).
  apply Z.eqb_neq in Ha. rewrite Ha, andb_false_l. apply IH. intros e He; apply H; right; assumption.
Qed.

Lemma at_pt_do_iter_cong : forall i j n v (F F' : Z -> list ev),
  (forall u, at_pt i j (F u) = at_pt i j (F' u)) ->
  at_pt i j (do_iter n v F) = at_pt i j (do_iter n v F').
Proof.
  intros i j n; induction n as [|n IH]; intros v F F' H; cbn [do_iter]; [reflexivity|].
  rewrite !at_pt_app, (H v), (IH (v + 1) F F' H); reflexivity.
Qed.

(* only iteration p of the loop can contribute to the sequence at the point *)
Lemma at_pt_do_iter_single : forall i j p n v (F : Z -> list ev),
  (forall u, u <> p -> at_pt i j (F u) = []) ->
  at_pt i j (do_iter n v F) =
  if (v <=? p) && (p <? v + Z.of_nat n) then at_pt i j (F p) else [].
Proof.
  intros i j p n; induction n as [|n IH]; intros v F H; cbn [do_iter].
  - replace (p <? v + Z.of_nat 0) with (negb (v <=? p)).
    + destruct (v <=? p); reflexivity.
    + destruct (Z.leb_spec v p), (Z.ltb_spec p (v + Z.of_nat 0)); cbn; try reflexivity; lia.
  - rewrite at_pt_app, (IH (v + 1) F H).
    destruct (Z.eq_dec v p) as [->|Hne].
    + replace (p + 1 <=? p) with false by (symmetry; apply Z.leb_gt; lia).
      replace (p <=? p) with true by (symmetry; apply Z.leb_le; lia).
      replace (p <? p + Z.of_nat (S n)) with true by (symmetry; apply Z.ltb_lt; lia).
      cbn. rewrite app_nil_r. reflexivity.
    + rewrite (H v Hne). cbn [app].
      destruct (Z.leb_spec (v + 1) p), (Z.leb_spec v p), (Z.ltb_spec p (v + 1 + Z.of_nat n)),
               (Z.ltb_spec p (v + Z.of_nat (S n))); cbn; try reflexivity; lia.
Qed.

Lemma at_pt_fuse_iter_j : forall i j n v (A B : Z -> list ev),
  (forall u e, In e (A u) -> ev_j e = u) -> (forall u e, In e (B u) -> ev_j e = u) ->
  at_pt i j (do_iter n v (fun u => A u ++ B u)) = at_pt i j (do_iter n v A) ++ at_pt i j (do_iter n v B).
Proof.
  intros i j n v A B HA HB.
  assert (NA : forall u, u <> j -> at_pt i j (A u) = []).
  { intros u Hu. apply at_pt_nil_j. intros e He. rewrite (HA u e He). assumption. }
  assert (NB : forall u, u <> j -> at_pt i j (B u) = []).
  { intros u Hu. apply at_pt_nil_j. intros e He. rewrite (HB u e He). assumption. }
  rewrite (at_pt_do_iter_single i j j n v (fun u => A u ++ B u)).
  - rewrite (at_pt_do_iter_single i j j n v A NA), (at_pt_do_iter_single i j j n v B NB).
    destruct ((v <=? j) && (j <? v + Z.of_nat n)); [apply at_pt_app|reflexivity].
  - intros u Hu. rewrite at_pt_app, (NA u Hu), (NB u Hu). reflexivity.
Qed.

Lemma at_pt_fuse_iter_i : forall i j n v (A B : Z -> list ev),
  (forall u e, In e (A u) -> ev_i e = u) -> (forall u e, In e (B u) -> ev_i e = u) ->
  at_pt i j (do_iter n v (fun u => A u ++ B u)) = at_pt i j (do_iter n v A) ++ at_pt i j (do_iter n v B).
Proof.
  intros i j n v A B HA HB.
  assert (NA : forall u, u <> i -> at_pt i j (A u) = []).
  { intros u Hu. apply at_pt_nil_i. intros e He. rewrite (HA u e He). assumption. }
  assert (NB : forall u, u <> i -> at_pt i j (B u) = []).
  { intros u Hu. apply at_pt_nil_i. intros e He. rewrite (HB u e He). assumption. }
  rewrite (at_pt_do_iter_single i j i n v (fun u => A u ++ B u)).
  - rewrite (at_pt_do_iter_single i j i n v A NA), (at_pt_do_iter_single i j i n v B NB).
    destruct ((v <=? i) && (i <? v + Z.of_nat n)); [apply at_pt_app|reflexivity].
  - intros u Hu. rewrite at_pt_app, (NA u Hu), (NB u Hu). reflexivity.
Qed.

(* DO v=lo,hi {A; B}  versus  DO v=lo,hi {A}; DO v=lo,hi {B}: same kernels, same order, at every point *)
Theorem fuse_loops_per_point_j : forall lo hi (A B : Z -> list ev),
  (forall u e, In e (A u) -> ev_j e = u) -> (forall u e, In e (B u) -> ev_j e = u) ->
  forall i j, at_pt i j (do_loop lo hi (fun u => A u ++ B u)) =
              at_pt i j (do_loop lo hi A ++ do_loop lo hi B).
Proof. intros lo hi A B HA HB i j. unfold do_loop. rewrite at_pt_app. apply at_pt_fuse_iter_j; assumption. Qed.

Theorem fuse_loops_per_point_i : forall lo hi (A B : Z -> list ev),
  (forall u e, In e (A u) -> ev_i e = u) -> (forall u e, In e (B u) -> ev_i e = u) ->
  forall i j, at_pt i j (do_loop lo hi (fun u => A u ++ B u)) =
              at_pt i j (do_loop lo hi A ++ do_loop lo hi B).
Proof. intros lo hi A B HA HB i j. unfold do_loop. rewrite at_pt_app. apply at_pt_fuse_iter_i; assumption. Qed.
