(* C25 - bound strings are linear in {stop} once {start}=2: a sound decision procedure for
   "e1 <= e2 on every grid (stop >= 2)", and facts about table lookup / add_bounds. *)
From Coq Require Import List ZArith Bool String Lia.
Import ListNotations.
From PV Require Import C25.Model.
Local Open Scope Z_scope.
Local Open Scope list_scope.

(* a*stop + c *)
Definition lin := (Z * Z)%type.

Fixpoint linearize (e : bexpr) : option lin :=
  match e with
  | BStart => Some (0, 2)
  | BStop => Some (1, 0)
  | BLit z => Some (0, z)
  | BAdd a b => match linearize a, linearize b with
                | Some (a1, c1), Some (a2, c2) => Some (a1 + a2, c1 + c2) | _, _ => None end
  | BSub a b => match linearize a, linearize b with
                | Some (a1, c1), Some (a2, c2) => Some (a1 - a2, c1 - c2) | _, _ => None end
  | BNeg a => match linearize a with Some (a1, c1) => Some (- a1, - c1) | None => None end
  | BMul a b => match linearize a, linearize b with
                | Some (a1, c1), Some (a2, c2) =>
                    if Z.eqb a1 0 then Some (c1 * a2, c1 * c2)
                    else if Z.eqb a2 0 then Some (a1 * c2, c1 * c2) else None
                | _, _ => None end
  | BDiv _ _ => None                       (* quotients are outside the linear fragment *)
  end.

Lemma linearize_sound : forall e a c, linearize e = Some (a, c) -> forall S, eval_b 2 S e = a * S + c.
Proof.
  induction e as [| |z|e1 IH1 e2 IH2|e1 IH1 e2 IH2|e1 IH1 e2 IH2|e1 IH1|e1 IH1 e2 IH2]; intros a c H S; cbn [linearize eval_b] in *.
  - inversion H; lia.
  - inversion H; lia.
  - inversion H; lia.
  - destruct (linearize e1) as [[a1 c1]|]; [|discriminate]. destruct (linearize e2) as [[a2 c2]|]; [|discriminate].
    inversion H; subst. rewrite (IH1 a1 c1 eq_refl S), (IH2 a2 c2 eq_refl S). lia.
  - destruct (linearize e1) as [[a1 c1]|]; [|discriminate]. destruct (linearize e2) as [[a2 c2]|]; [|discriminate].
    inversion H; subst. rewrite (IH1 a1 c1 eq_refl S), (IH2 a2 c2 eq_refl S). lia.
  - destruct (linearize e1) as [[a1 c1]|]; [|discriminate]. destruct (linearize e2) as [[a2 c2]|]; [|discriminate].
    rewrite (IH1 a1 c1 eq_refl S), (IH2 a2 c2 eq_refl S).
    destruct (Z.eqb a1 0) eqn:E1.
    + apply Z.eqb_eq in E1. inversion H; subst. lia.
    + destruct (Z.eqb a2 0) eqn:E2; [|discriminate]. apply Z.eqb_eq in E2. inversion H; subst. lia.
  - destruct (linearize e1) as [[a1 c1]|]; [|discriminate]. inversion H; subst. rewrite (IH1 a1 c1 eq_refl S). lia.
  - discriminate.
Qed.

Definition lin_nonneg (l : lin) : bool := (0 <=? fst l) && (0 <=? 2 * fst l + snd l).

Lemma lin_nonneg_sound : forall a c, lin_nonneg (a, c) = true -> forall S, 2 <= S -> 0 <= a * S + c.
Proof.
  intros a c H S HS. unfold lin_nonneg in H; cbn [fst snd] in H. apply andb_true_iff in H.
  destruct H as [H1 H2]. apply Z.leb_le in H1. apply Z.leb_le in H2. nia.
Qed.

(* e1 <= e2 whenever {start}=2 and {stop} >= 2 *)
Definition le_all (e1 e2 : bexpr) : bool :=
  match linearize e1, linearize e2 with
  | Some (a1, c1), Some (a2, c2) => lin_nonneg (a2 - a1, c2 - c1)
  | _, _ => false
  end.

Lemma le_all_sound : forall e1 e2, le_all e1 e2 = true ->
  forall S, 2 <= S -> eval_b 2 S e1 <= eval_b 2 S e2.
Proof.
  intros e1 e2 H S HS. unfold le_all in H.
  destruct (linearize e1) as [[a1 c1]|] eqn:E1; [|discriminate].
  destruct (linearize e2) as [[a2 c2]|] eqn:E2; [|discriminate].
  rewrite (linearize_sound e1 a1 c1 E1 S), (linearize_sound e2 a2 c2 E2 S).
  pose proof (lin_nonneg_sound _ _ H S HS). lia.
Qed.

(* e = a*stop + c exactly *)
Definition lin_is (e : bexpr) (a c : Z) : bool :=
  match linearize e with Some (a', c') => Z.eqb a' a && Z.eqb c' c | None => false end.
Lemma lin_is_sound : forall e a c, lin_is e a c = true -> forall S, eval_b 2 S e = a * S + c.
Proof.
  intros e a c H S. unfold lin_is in H. destruct (linearize e) as [[a' c']|] eqn:E; [|discriminate].
  apply andb_true_iff in H. destruct H as [H1 H2]. apply Z.eqb_eq in H1. apply Z.eqb_eq in H2. subst.
  apply linearize_sound; assumption.
Qed.

(* ------------------------------------------------------------------ syntactic equality *)
Lemma bexpr_eqb_eq : forall a b, bexpr_eqb a b = true -> a = b.
Proof.
  induction a as [| |z|a1 IH1 a2 IH2|a1 IH1 a2 IH2|a1 IH1 a2 IH2|a1 IH1|a1 IH1 a2 IH2]; intros b H; destruct b; cbn in H;
    try discriminate; try reflexivity.
  - apply Z.eqb_eq in H; subst; reflexivity.
  - apply andb_true_iff in H; destruct H as [H1 H2]. rewrite (IH1 _ H1), (IH2 _ H2); reflexivity.
  - apply andb_true_iff in H; destruct H as [H1 H2]. rewrite (IH1 _ H1), (IH2 _ H2); reflexivity.
  - apply andb_true_iff in H; destruct H as [H1 H2]. rewrite (IH1 _ H1), (IH2 _ H2); reflexivity.
  - rewrite (IH1 _ H); reflexivity.
  - apply andb_true_iff in H; destruct H as [H1 H2]. rewrite (IH1 _ H1), (IH2 _ H2); reflexivity.
Qed.

Lemma bounds4_eqb_eq : forall a b, bounds4_eqb a b = true -> a = b.
Proof.
  intros [a1 a2 a3 a4] [b1 b2 b3 b4] H. unfold bounds4_eqb in H; cbn in H.
  repeat (apply andb_true_iff in H; destruct H as [H ?]).
  f_equal; apply bexpr_eqb_eq; assumption.
Qed.

Lemma key_eqb_eq : forall a b, key_eqb a b = true <-> a = b.
Proof.
  intros [[a1 a2] a3] [[b1 b2] b3]; unfold key_eqb. rewrite !andb_true_iff, !String.eqb_eq.
  split; [intros [[-> ->] ->]; reflexivity|intros H; inversion H; auto].
Qed.

Lemma key_eqb_refl : forall a, key_eqb a a = true.
Proof. intros a; apply key_eqb_eq; reflexivity. Qed.

Lemma key_eqb_neq : forall a b, key_eqb a b = false <-> a <> b.
Proof.
  intros a b; split.
  - intros H E; apply key_eqb_eq in E; congruence.
  - intros H; destruct (key_eqb a b) eqn:E; [apply key_eqb_eq in E; contradiction|reflexivity].
Qed.

(* ------------------------------------------------------------------ lookup *)
Lemma lookup_some_in : forall tb k b, lookup tb k = Some b -> In (k, b) tb.
Proof.
  induction tb as [|[k' b'] r IH]; intros k b H; cbn in H; [discriminate|].
  destruct (key_eqb k' k) eqn:E.
  - apply key_eqb_eq in E; inversion H; subst; left; reflexivity.
  - right; apply IH; assumption.
Qed.

(* pointwise comparison of two tables through lookup *)
Definition table_incl (a b : table) : bool :=
  forallb (fun e => match lookup b (fst e) with Some v => bounds4_eqb (snd e) v | None => false end) a.

Lemma table_incl_sound : forall a b, table_incl a b = true ->
  forall k v, lookup a k = Some v -> lookup b k = Some v.
Proof.
  intros a b H k v Hl. apply lookup_some_in in Hl.
  unfold table_incl in H. rewrite forallb_forall in H. specialize (H _ Hl). cbn [fst snd] in H.
  destruct (lookup b k) as [v'|]; [|discriminate]. apply bounds4_eqb_eq in H; subst; reflexivity.
Qed.

Lemma table_equiv_sound : forall a b, table_incl a b = true -> table_incl b a = true ->
  forall k, lookup a k = lookup b k.
Proof.
  intros a b Hab Hba k. destruct (lookup a k) as [v|] eqn:Ea.
  - symmetry; apply (table_incl_sound a b Hab); assumption.
  - destruct (lookup b k) as [v|] eqn:Eb; [|reflexivity].
    rewrite (table_incl_sound b a Hba k v Eb) in Ea; discriminate.
Qed.

(* ------------------------------------------------------------------ add_bounds / config lines *)
Lemma lookup_add_same : forall tb k b, lookup (add_bounds tb k b) k = Some b.
Proof.
  induction tb as [|[k' b'] r IH]; intros k b; cbn.
  - rewrite key_eqb_refl; reflexivity.
  - destruct (key_eqb k' k) eqn:E; cbn; [rewrite key_eqb_refl; reflexivity|rewrite E; apply IH].
Qed.

Lemma lookup_add_other : forall tb k b k', k' <> k -> lookup (add_bounds tb k b) k' = lookup tb k'.
Proof.
  induction tb as [|[k0 b0] r IH]; intros k b k' H; cbn.
  - assert (E : key_eqb k k' = false) by (apply key_eqb_neq; congruence). rewrite E; reflexivity.
  - destruct (key_eqb k0 k) eqn:E; cbn.
    + apply key_eqb_eq in E; subst k0.
      assert (E' : key_eqb k k' = false) by (apply key_eqb_neq; congruence). rewrite E'; reflexivity.
    + destruct (key_eqb k0 k'); [reflexivity|apply IH; assumption].
Qed.

Lemma lookup_add_all : forall es tb k,
  lookup (add_all tb es) k = match lookup_last es k with Some b => Some b | None => lookup tb k end.
Proof.
  unfold add_all. induction es as [|[k0 b0] r IH]; intros tb k; cbn [fold_left lookup_last fst snd]; [reflexivity|].
  rewrite IH. destruct (lookup_last r k) as [b'|]; [reflexivity|].
  destruct (key_eqb k0 k) eqn:E.
  - apply key_eqb_eq in E; subst k0; apply lookup_add_same.
  - apply lookup_add_other. apply key_eqb_neq in E; congruence.
Qed.

(* evaluation of a substituted bound string *)
Lemma eval_subst_b : forall lib en e stop S, eval_g lib en stop = S ->
  eval_g lib en (subst_b e stop) = eval_b 2 S e.
Proof.
  intros lib en e stop S HS; induction e as [| |z|a IHa b IHb|a IHa b IHb|a IHa b IHb|a IHa|a IHa b IHb];
    cbn [subst_b eval_g eval_b]; try congruence; reflexivity.
Qed.
