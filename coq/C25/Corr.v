(* C25 - executable agreement check for the correspondence run: the faithful model (generation from
   the LIVE table C25/Gen.v + transformation history) against the loop structure read out of the PSy
   layer that the implementation generated, on every grid of a fixed sweep. *)
From Coq Require Import List ZArith Bool String.
Import ListNotations.
From PV Require Import C25.Model C25.Gen.
Local Open Scope Z_scope.
Local Open Scope string_scope.
Local Open Scope list_scope.

Record ccase := mkCase {
  c_cfg : table;              (* iteration-spaces lines of the configuration file, in order *)
  c_kerns : list kern;        (* kernel calls of the invoke *)
  c_hist : list xform;        (* transformations the implementation accepted, in order *)
  c_ftypes : list string;     (* grid-point type of every field argument *)
  c_impl : option sched       (* loops read from the generated (lowered) PSy layer; None = refused *)
}.

Definition sizes : list Z := [2; 3; 4; 5; 6].
Definition grids : list (string * Z * Z) :=
  flat_map (fun g => flat_map (fun sx => map (fun sy => (g, sx, sy)) sizes) sizes) real_offsets.

Definition compatible (g : string) (ks : list kern) : bool :=
  forallb (fun k => String.eqb (k_off k) g || String.eqb (k_off k) "go_offset_any") ks.

Definition ev_eqb (a b : ev) : bool :=
  Nat.eqb (ev_k a) (ev_k b) && Z.eqb (ev_i a) (ev_i b) && Z.eqb (ev_j a) (ev_j b).
Fixpoint trace_eqb (a b : list ev) : bool :=
  match a, b with
  | [], [] => true
  | x :: r, y :: r' => ev_eqb x y && trace_eqb r r'
  | _, _ => false
  end.

Definition live_table (c : ccase) : table := add_all builtin_table (c_cfg c).

Definition model_run (c : ccase) : option sched :=
  match gen_sched (live_table c) 0 (c_kerns c) with
  | Some s => apply_hist (live_table c) 0 s (c_hist c)
  | None => None
  end.

Definition env_of (c : ccase) (g : string * Z * Z) : env :=
  let '(go, sx, sy) := g in mkEnv go sx sy (fun f => nth f (c_ftypes c) "").

Definition agrees (c : ccase) : bool :=
  match c_impl c with
  | None => true                                   (* a stricter implementation is never an alarm *)
  | Some impl =>
      match model_run c with
      | None => false
      | Some ms =>
          forallb (fun g => if compatible (fst (fst g)) (c_kerns c)
                            then trace_eqb (exec ref_lib (env_of c g) ms) (exec ref_lib (env_of c g) impl)
                            else true) grids
      end
  end.

(* attribute-less loops, as read from generated code *)
Definition noattr : lattr := mkA "" "" "" 0.
Definition iloop (lo hi : gexpr) (ks : list nat) : inner := mkI noattr lo hi ks [].
Definition oloop (lo hi : gexpr) (body : list inner) : outer := mkO noattr lo hi body [].
