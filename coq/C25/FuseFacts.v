(* C25 - transformations on the schedule: fusion keeps the per-point call sequences when the fused
   loops have equal bounds; wrappers (OpenMP/OpenACC/extraction) keep the trace; a whole
   transformation history keeps the per-point sequences when no GO_OFFSET_ANY kernel and no ignored
   configuration line is involved; refutation witness for fusion after constant loop bounds. *)
From Coq Require Import List ZArith Bool String Lia.
Import ListNotations.
From PV Require Import C25.Model C25.BoundsFacts C25.TraceFacts C25.Gen C25.TableFacts C25.GenFacts.
Local Open Scope Z_scope.
Local Open Scope string_scope.
Local Open Scope list_scope.

(* same kernels in the same order at every grid point *)
Definition ppeq (t1 t2 : list ev) : Prop := forall i j, at_pt i j t1 = at_pt i j t2.

Lemma ppeq_refl : forall t, ppeq t t.
Proof. intros t i j; reflexivity. Qed.
Lemma ppeq_trans : forall a b c, ppeq a b -> ppeq b c -> ppeq a c.
Proof. intros a b c H1 H2 i j; rewrite H1; apply H2. Qed.
Lemma ppeq_app : forall a a' b b', ppeq a a' -> ppeq b b' -> ppeq (a ++ b) (a' ++ b').
Proof. intros a a' b b' H1 H2 i j; rewrite !at_pt_app, H1, H2; reflexivity. Qed.
Lemma ppeq_do_loop : forall lo hi F F', (forall u, ppeq (F u) (F' u)) -> ppeq (do_loop lo hi F) (do_loop lo hi F').
Proof. intros lo hi F F' H i j; unfold do_loop; apply at_pt_do_iter_cong; intros u; apply H. Qed.

Section Sched.
Variable lib : libm.
Variable en : env.

Definition same_bounds (lo hi lo' hi' : gexpr) : Prop :=
  eval_g lib en lo = eval_g lib en lo' /\ eval_g lib en hi = eval_g lib en hi'.
Definition same_bounds_o (a b : outer) := same_bounds (out_lo a) (out_hi a) (out_lo b) (out_hi b).
Definition same_bounds_i (a b : inner) := same_bounds (in_lo a) (in_hi a) (in_lo b) (in_hi b).

Lemma inner_ev_j : forall j l e, In e (exec_inner lib en j l) -> ev_j e = j.
Proof.
  intros j l e H. unfold exec_inner in H. apply in_do_loop in H. destruct H as [u [_ H]].
  apply in_map_iff in H. destruct H as [k [<- _]]. reflexivity.
Qed.

Lemma body_ev_j : forall j body e, In e (flat_map (exec_inner lib en j) body) -> ev_j e = j.
Proof.
  intros j body e H. apply in_flat_map in H. destruct H as [l [_ H]]. apply (inner_ev_j j l e H).
Qed.

Lemma fuse_o_ppeq : forall a b, same_bounds_o a b ->
  ppeq (exec_outer lib en (fuse_o a b)) (exec_outer lib en a ++ exec_outer lib en b).
Proof.
  intros a b [H1 H2] i j. unfold exec_outer at 1 3; cbn [fuse_o out_lo out_hi out_body].
  rewrite <- H1, <- H2.
  rewrite (do_loop_ext _ _ _ _ (fun u => flat_map (exec_inner lib en u) (out_body a) ++ flat_map (exec_inner lib en u) (out_body b)))
    by (intros u; apply flat_map_app).
  unfold exec_outer. apply fuse_loops_per_point_j; intros u e; apply body_ev_j.
Qed.

Lemma fuse_i_ppeq : forall j' a b, same_bounds_i a b ->
  ppeq (exec_inner lib en j' (fuse_i a b)) (exec_inner lib en j' a ++ exec_inner lib en j' b).
Proof.
  intros j' a b [H1 H2] i j. unfold exec_inner; cbn [fuse_i in_lo in_hi in_ks].
  rewrite <- H1, <- H2.
  rewrite (do_loop_ext _ _ _ _ (fun u => map (fun k => (k, u, j')) (in_ks a) ++ map (fun k => (k, u, j')) (in_ks b)))
    by (intros u; apply map_app).
  apply fuse_loops_per_point_i; intros u e H; apply in_map_iff in H; destruct H as [k [<- _]]; reflexivity.
Qed.

(* ---- list surgery *)
Lemma fuse_at_ppeq : forall (A : Type) (ok : A -> A -> bool) (f : A -> A -> A) (E : A -> list ev) (P : A -> A -> Prop),
  (forall x y, ok x y = true -> P x y -> ppeq (E (f x y)) (E x ++ E y)) ->
  forall n l l', fuse_at ok f n l = Some l' ->
  (forall x y, nth_error l n = Some x -> nth_error l (S n) = Some y -> P x y) ->
  ppeq (flat_map E l') (flat_map E l).
Proof.
  intros A ok f E P HF n; induction n as [|n IH]; intros l l' H HP.
  - destruct l as [|x [|y r]]; cbn in H; try discriminate.
    destruct (ok x y) eqn:Eok; [|discriminate]. inversion H; subst l'. cbn [flat_map].
    rewrite app_assoc. apply ppeq_app; [|apply ppeq_refl]. apply HF; [assumption|]. apply HP; reflexivity.
  - destruct l as [|x r]; cbn in H; [discriminate|].
    destruct (fuse_at ok f n r) as [r'|] eqn:Er; [|discriminate]. inversion H; subst l'. cbn [flat_map].
    apply ppeq_app; [apply ppeq_refl|]. apply (IH r r' Er). intros a b Ha Hb. apply HP; assumption.
Qed.

Lemma update_at_ppeq : forall (A : Type) (g : A -> option A) (E : A -> list ev) n l l',
  update_at g n l = Some l' ->
  (forall x y, nth_error l n = Some x -> g x = Some y -> ppeq (E y) (E x)) ->
  ppeq (flat_map E l') (flat_map E l).
Proof.
  intros A g E n; induction n as [|n IH]; intros l l' H HP.
  - destruct l as [|x r]; cbn in H; [discriminate|].
    destruct (g x) as [y|] eqn:Eg; [|discriminate]. inversion H; subst l'. cbn [flat_map].
    apply ppeq_app; [|apply ppeq_refl]. apply HP; [reflexivity|assumption].
  - destruct l as [|x r]; cbn in H; [discriminate|].
    destruct (update_at g n r) as [r'|] eqn:Er; [|discriminate]. inversion H; subst l'. cbn [flat_map].
    apply ppeq_app; [apply ppeq_refl|]. apply (IH r r' Er). intros a b Ha Hb. apply HP; assumption.
Qed.

Lemma update_at_eq : forall (A : Type) (g : A -> option A) (E : A -> list ev) n l l',
  update_at g n l = Some l' ->
  (forall x y, g x = Some y -> E y = E x) ->
  flat_map E l' = flat_map E l.
Proof.
  intros A g E n; induction n as [|n IH]; intros l l' H HP.
  - destruct l as [|x r]; cbn in H; [discriminate|].
    destruct (g x) as [y|] eqn:Eg; [|discriminate]. inversion H; subst l'. cbn [flat_map].
    rewrite (HP x y Eg); reflexivity.
  - destruct l as [|x r]; cbn in H; [discriminate|].
    destruct (update_at g n r) as [r'|] eqn:Er; [|discriminate]. inversion H; subst l'. cbn [flat_map].
    rewrite (IH r r' Er HP); reflexivity.
Qed.

Lemma fuse_at_Forall : forall (A : Type) (ok : A -> A -> bool) (f : A -> A -> A) (Q : A -> Prop),
  (forall x y, Q x -> Q y -> ok x y = true -> Q (f x y)) ->
  forall n l l', fuse_at ok f n l = Some l' -> Forall Q l -> Forall Q l'.
Proof.
  intros A ok f Q HQ n; induction n as [|n IH]; intros l l' H HF.
  - destruct l as [|x [|y r]]; cbn in H; try discriminate.
    destruct (ok x y) eqn:Eok; [|discriminate]. inversion H; subst l'.
    inversion HF as [|? ? Hx HF']; subst. inversion HF' as [|? ? Hy HF'']; subst.
    constructor; [apply HQ; assumption|assumption].
  - destruct l as [|x r]; cbn in H; [discriminate|].
    destruct (fuse_at ok f n r) as [r'|] eqn:Er; [|discriminate]. inversion H; subst l'.
    inversion HF; subst. constructor; [assumption|apply (IH r r' Er); assumption].
Qed.

Lemma update_at_Forall : forall (A : Type) (g : A -> option A) (Q : A -> Prop),
  (forall x y, Q x -> g x = Some y -> Q y) ->
  forall n l l', update_at g n l = Some l' -> Forall Q l -> Forall Q l'.
Proof.
  intros A g Q HQ n; induction n as [|n IH]; intros l l' H HF.
  - destruct l as [|x r]; cbn in H; [discriminate|].
    destruct (g x) as [y|] eqn:Eg; [|discriminate]. inversion H; subst l'.
    inversion HF; subst. constructor; [apply (HQ x y); assumption|assumption].
  - destruct l as [|x r]; cbn in H; [discriminate|].
    destruct (update_at g n r) as [r'|] eqn:Er; [|discriminate]. inversion H; subst l'.
    inversion HF; subst. constructor; [assumption|apply (IH r r' Er); assumption].
Qed.

Lemma nth_error_Forall : forall (A : Type) (Q : A -> Prop) l n x, Forall Q l -> nth_error l n = Some x -> Q x.
Proof. intros A Q l n x HF H. rewrite Forall_forall in HF. apply HF. apply (nth_error_In _ _ H). Qed.

(* ---- fusion with equal bounds keeps the per-point call sequences *)
Theorem fuse_outer_preserves_ : forall tb first s n s',
  apply_x tb first s (XFuseOuter n) = Some s' ->
  (forall a b, nth_error s n = Some a -> nth_error s (S n) = Some b -> same_bounds_o a b) ->
  ppeq (exec lib en s') (exec lib en s).
Proof.
  intros tb first s n s' H HP. cbn [apply_x] in H. unfold exec.
  apply (fuse_at_ppeq _ ok_o fuse_o (exec_outer lib en) same_bounds_o) with (n := n); try assumption.
  intros x y _ Hs. apply fuse_o_ppeq; assumption.
Qed.

Lemma exec_outer_body_ppeq : forall o body',
  (forall j, ppeq (flat_map (exec_inner lib en j) body') (flat_map (exec_inner lib en j) (out_body o))) ->
  ppeq (exec_outer lib en (set_body o body')) (exec_outer lib en o).
Proof.
  intros o body' H. unfold exec_outer; cbn [set_body out_lo out_hi out_body]. apply ppeq_do_loop. exact H.
Qed.

Theorem fuse_inner_preserves_ : forall tb first s n m s',
  apply_x tb first s (XFuseInner n m) = Some s' ->
  (forall o a b, nth_error s n = Some o -> nth_error (out_body o) m = Some a ->
                 nth_error (out_body o) (S m) = Some b -> same_bounds_i a b) ->
  ppeq (exec lib en s') (exec lib en s).
Proof.
  intros tb first s n m s' H HP. cbn [apply_x] in H. unfold exec.
  apply (update_at_ppeq _ _ (exec_outer lib en) n s s' H).
  intros o o' Ho Hg. destruct (fuse_at ok_i fuse_i m (out_body o)) as [body'|] eqn:Eb; [|discriminate].
  cbn [option_map] in Hg. inversion Hg; subst o'. apply exec_outer_body_ppeq. intros j.
  apply (fuse_at_ppeq _ ok_i fuse_i (exec_inner lib en j) same_bounds_i) with (n := m); try assumption.
  - intros x y _ Hs. apply fuse_i_ppeq; assumption.
  - intros a b Ha Hb. apply (HP o a b); assumption.
Qed.

(* ---- directives and extraction regions leave the trace alone *)
Theorem wrap_preserves_trace_ : forall tb first s x s',
  (exists n w, x = XWrapOuter n w) \/ (exists n m w, x = XWrapInner n m w) ->
  apply_x tb first s x = Some s' -> exec lib en s' = exec lib en s.
Proof.
  intros tb first s x s' [[n [w ->]]|[n [m [w ->]]]] H; cbn [apply_x] in H; unfold exec.
  - apply (update_at_eq _ _ (exec_outer lib en) n s s' H). intros o o' Hg. inversion Hg; reflexivity.
  - apply (update_at_eq _ _ (exec_outer lib en) n s s' H). intros o o' Hg.
    destruct (update_at _ m (out_body o)) as [body'|] eqn:Eb; [|discriminate].
    cbn [option_map] in Hg. inversion Hg; subst o'.
    unfold exec_outer; cbn [set_body out_lo out_hi out_body]. apply do_loop_ext. intros j.
    apply (update_at_eq _ _ (exec_inner lib en j) m _ _ Eb). intros l l' Hl. inversion Hl; reflexivity.
Qed.

End Sched.

(* ------------------------------------------------------------------ whole histories *)
Section History.
Variable lib : libm.
Hypothesis HC : lib_contract lib.
Variable cfg tb : table.
Hypothesis HT : table_is cfg tb.
Variable first : nat.
Variable en : env.

(* the loop is for the grid's own offset, its attributes are consistent, and its bounds evaluate to
   the configured region of its attributes in direction d *)
Definition loop_ok (a : lattr) (d : dim) (lo hi : gexpr) : Prop :=
  attr_ok cfg en a /\ a_off a = e_goff en /\
  exists r, spec_region cfg (e_goff en) (kof a) (e_sx en) (e_sy en) = Some r /\
            eval_g lib en lo = rsel r d Lo /\ eval_g lib en hi = rsel r d Hi.
Definition inner_ok (l : inner) : Prop := loop_ok (in_attr l) X (in_lo l) (in_hi l).
Definition outer_ok (o : outer) : Prop :=
  loop_ok (out_attr o) Y (out_lo o) (out_hi o) /\ Forall inner_ok (out_body o).
Definition sched_ok (s : sched) : Prop := Forall outer_ok s.

Lemma spec_same_key : forall a b, a_off a = a_off b -> a_type a = a_type b -> a_space a = a_space b ->
  spec_region cfg (e_goff en) (kof a) (e_sx en) (e_sy en) = spec_region cfg (e_goff en) (kof b) (e_sx en) (e_sy en).
Proof.
  intros a b H1 H2 H3. unfold spec_region, akey, attr_of, kof.
  cbn [k_off k_type k_space k_fld a_off a_type a_space a_fld]. rewrite H1, H2, H3. reflexivity.
Qed.

Lemma fusable_same_bounds : forall a b d lo hi lo' hi',
  loop_ok a d lo hi -> loop_ok b d lo' hi' -> attrs_fusable a b = true ->
  same_bounds lib en lo hi lo' hi'.
Proof.
  intros a b d lo hi lo' hi' [_ [Ha [r [Hr [V1 V2]]]]] [_ [Hb [r' [Hr' [V1' V2']]]]] Hf.
  unfold attrs_fusable in Hf. apply andb_true_iff in Hf. destruct Hf as [Hs Ht].
  apply String.eqb_eq in Hs. apply String.eqb_eq in Ht.
  rewrite (spec_same_key a b) in Hr by congruence. rewrite Hr in Hr'. inversion Hr'; subst r'.
  split; congruence.
Qed.

Lemma map_opt_Forall2 : forall (A B : Type) (f : A -> option B) l l',
  map_opt f l = Some l' -> Forall2 (fun x y => f x = Some y) l l'.
Proof.
  intros A B f l; induction l as [|x r IH]; intros l' H; cbn in H.
  - inversion H; constructor.
  - destruct (f x) as [y|] eqn:E; [|discriminate]. destruct (map_opt f r) as [ys|]; [|discriminate].
    inversion H; subst. constructor; [assumption|apply IH; reflexivity].
Qed.

Lemma const_loop_ok : forall a d lo hi g1 g2,
  loop_ok a d lo hi -> const_bound tb first a d Lo = Some g1 -> const_bound tb first a d Hi = Some g2 ->
  loop_ok a d g1 g2 /\ same_bounds lib en g1 g2 lo hi.
Proof.
  intros a d lo hi g1 g2 [Hok [Hoff [r [Hr [V1 V2]]]]] E1 E2.
  assert (Hs : const_safe en a) by (left; assumption).
  destruct (const_bound_eval lib _ _ _ _ _ _ _ _ HT Hok Hs E1) as [r1 [Hr1 W1]].
  destruct (const_bound_eval lib _ _ _ _ _ _ _ _ HT Hok Hs E2) as [r2 [Hr2 W2]].
  rewrite Hr in Hr1, Hr2. inversion Hr1; inversion Hr2; subst r1 r2.
  split; [|split; congruence].
  split; [assumption|]. split; [assumption|]. exists r; repeat split; assumption.
Qed.

Lemma const_inner_ok : forall l l', inner_ok l -> const_inner tb first l = Some l' ->
  inner_ok l' /\ forall j, exec_inner lib en j l' = exec_inner lib en j l.
Proof.
  intros l l' Hok H. unfold const_inner, mk_inner in H.
  destruct (const_bound tb first (in_attr l) X Lo) as [g1|] eqn:E1; [|discriminate].
  destruct (const_bound tb first (in_attr l) X Hi) as [g2|] eqn:E2; [|discriminate].
  inversion H; subst l'. destruct (const_loop_ok _ _ _ _ _ _ Hok E1 E2) as [Hok' [S1 S2]].
  split; [exact Hok'|]. intros j. unfold exec_inner; cbn [in_lo in_hi in_ks]. rewrite S1, S2. reflexivity.
Qed.

Lemma const_body_ok : forall body body', Forall inner_ok body -> map_opt (const_inner tb first) body = Some body' ->
  Forall inner_ok body' /\ forall j, flat_map (exec_inner lib en j) body' = flat_map (exec_inner lib en j) body.
Proof.
  intros body body' HF H. apply map_opt_Forall2 in H. induction H as [|l l' r r' Hl Hr IH].
  - split; [constructor|reflexivity].
  - inversion HF as [|? ? Hx HF']; subst. destruct (IH HF') as [IH1 IH2].
    destruct (const_inner_ok l l' Hx Hl) as [Hok He].
    split; [constructor; assumption|]. intros j; cbn [flat_map]. rewrite He, IH2; reflexivity.
Qed.

Lemma const_outer_ok : forall o o', outer_ok o -> const_outer tb first o = Some o' ->
  outer_ok o' /\ exec_outer lib en o' = exec_outer lib en o.
Proof.
  intros o o' [Hok Hb] H. unfold const_outer in H.
  destruct (const_bound tb first (out_attr o) Y Lo) as [g1|] eqn:E1; [|discriminate].
  destruct (const_bound tb first (out_attr o) Y Hi) as [g2|] eqn:E2; [|discriminate].
  destruct (map_opt (const_inner tb first) (out_body o)) as [body'|] eqn:Eb; [|discriminate].
  inversion H; subst o'. destruct (const_loop_ok _ _ _ _ _ _ Hok E1 E2) as [Hok' [S1 S2]].
  destruct (const_body_ok _ _ Hb Eb) as [Hb' He].
  split; [split; assumption|].
  unfold exec_outer; cbn [out_lo out_hi out_body]. rewrite S1, S2. apply do_loop_ext. exact He.
Qed.

Lemma const_sched_ok : forall s s', sched_ok s -> map_opt (const_outer tb first) s = Some s' ->
  sched_ok s' /\ exec lib en s' = exec lib en s.
Proof.
  intros s s' HF H. apply map_opt_Forall2 in H. induction H as [|o o' r r' Ho Hr IH].
  - split; [constructor|reflexivity].
  - inversion HF as [|? ? Hx HF']; subst. destruct (IH HF') as [IH1 IH2].
    destruct (const_outer_ok o o' Hx Ho) as [Hok He].
    split; [constructor; assumption|]. unfold exec in *; cbn [flat_map]. rewrite He, IH2; reflexivity.
Qed.

(* one transformation step keeps the invariant and the per-point call sequences *)
Lemma step_ok : forall s x s', sched_ok s -> apply_x tb first s x = Some s' ->
  sched_ok s' /\ ppeq (exec lib en s') (exec lib en s).
Proof.
  intros s x s' Hok H. destruct x as [|n|n m|n w|n m w].
  - cbn [apply_x] in H. destruct (const_sched_ok s s' Hok H) as [H1 H2]. split; [assumption|].
    rewrite H2; apply ppeq_refl.
  - split.
    + cbn [apply_x] in H. apply (fuse_at_Forall _ ok_o fuse_o outer_ok) with (n := n) (l := s); try assumption.
      intros a b [Ha Hab] [Hb Hbb] _. split; [exact Ha|]. cbn [fuse_o out_body]. apply Forall_app; split; assumption.
    + apply (fuse_outer_preserves_ lib en tb first s n s' H). intros a b Ha Hb.
      pose proof (nth_error_Forall _ _ _ _ _ Hok Ha) as [La _]. pose proof (nth_error_Forall _ _ _ _ _ Hok Hb) as [Lb _].
      cbn [apply_x] in H.
      assert (Hf : ok_o a b = true).
      { clear - H Ha Hb. revert s s' H Ha Hb. induction n as [|n IH]; intros s s' H Ha Hb.
        - destruct s as [|x [|y r]]; cbn in *; try discriminate. inversion Ha; inversion Hb; subst.
          destruct (ok_o a b); [reflexivity|discriminate].
        - destruct s as [|x r]; cbn in *; [discriminate|].
          destruct (fuse_at ok_o fuse_o n r) as [r'|] eqn:Er; [|discriminate]. apply (IH r r' Er); assumption. }
      unfold ok_o in Hf. apply andb_true_iff in Hf. destruct Hf as [_ Hf].
      apply (fusable_same_bounds _ _ _ _ _ _ _ La Lb Hf).
  - split.
    + cbn [apply_x] in H. unfold sched_ok in *; eapply (update_at_Forall outer _ outer_ok); [|exact H|exact Hok].
      intros o o' [Ho Hb] Hg. destruct (fuse_at ok_i fuse_i m (out_body o)) as [body'|] eqn:Eb; [|discriminate].
      cbn [option_map] in Hg. inversion Hg; subst o'. split; [exact Ho|]. cbn [set_body out_body].
      apply (fuse_at_Forall _ ok_i fuse_i inner_ok) with (n := m) (l := out_body o); try assumption.
      intros a b Ha _ _. exact Ha.
    + apply (fuse_inner_preserves_ lib en tb first s n m s' H). intros o a b Ho Ha Hb.
      pose proof (nth_error_Forall _ _ _ _ _ Hok Ho) as [_ Hbody].
      pose proof (nth_error_Forall _ _ _ _ _ Hbody Ha) as La. pose proof (nth_error_Forall _ _ _ _ _ Hbody Hb) as Lb.
      cbn [apply_x] in H.
      assert (Hf : ok_i a b = true).
      { assert (Hx : exists body', fuse_at ok_i fuse_i m (out_body o) = Some body').
        { clear - H Ho. revert s s' H Ho. induction n as [|n IH]; intros s s' H Ho.
          - destruct s as [|x r]; cbn in *; [discriminate|]. inversion Ho; subst.
            destruct (fuse_at ok_i fuse_i m (out_body o)) as [b'|]; [eexists; reflexivity|discriminate].
          - destruct s as [|x r]; cbn in *; [discriminate|].
            destruct (update_at _ n r) as [r'|] eqn:Er; [|discriminate]. apply (IH r r' Er); assumption. }
        destruct Hx as [body' Hx]. clear - Hx Ha Hb. revert Hx Ha Hb. generalize (out_body o) as l. revert body'.
        induction m as [|m IH]; intros body' l Hx Ha Hb.
        - destruct l as [|x [|y r]]; cbn in *; try discriminate. inversion Ha; inversion Hb; subst.
          destruct (ok_i a b); [reflexivity|discriminate].
        - destruct l as [|x r]; cbn in *; [discriminate|].
          destruct (fuse_at ok_i fuse_i m r) as [r'|] eqn:Er; [|discriminate]. apply (IH r' r Er); assumption. }
      unfold ok_i in Hf. apply andb_true_iff in Hf. destruct Hf as [_ Hf].
      apply (fusable_same_bounds _ _ _ _ _ _ _ La Lb Hf).
  - split.
    + cbn [apply_x] in H. unfold sched_ok in *; eapply (update_at_Forall outer _ outer_ok); [|exact H|exact Hok].
      intros o o' Ho Hg. inversion Hg; subst o'. exact Ho.
    + rewrite (wrap_preserves_trace_ lib en tb first s _ s' (or_introl (ex_intro _ n (ex_intro _ w eq_refl))) H).
      apply ppeq_refl.
  - split.
    + cbn [apply_x] in H. unfold sched_ok in *; eapply (update_at_Forall outer _ outer_ok); [|exact H|exact Hok].
      intros o o' [Ho Hb] Hg. destruct (update_at _ m (out_body o)) as [body'|] eqn:Eb; [|discriminate].
      cbn [option_map] in Hg. inversion Hg; subst o'. split; [exact Ho|]. cbn [set_body out_body].
      eapply (update_at_Forall inner _ inner_ok); [|exact Eb|exact Hb].
      intros l l' Hl Hgl. inversion Hgl; subst l'. exact Hl.
    + rewrite (wrap_preserves_trace_ lib en tb first s _ s' (or_intror (ex_intro _ n (ex_intro _ m (ex_intro _ w eq_refl)))) H).
      apply ppeq_refl.
Qed.

Lemma hist_ok : forall h s s', sched_ok s -> apply_hist tb first s h = Some s' ->
  sched_ok s' /\ ppeq (exec lib en s') (exec lib en s).
Proof.
  induction h as [|x r IH]; intros s s' Hok H; cbn in H.
  - inversion H; subst; split; [assumption|apply ppeq_refl].
  - destruct (apply_x tb first s x) as [s1|] eqn:E; [|discriminate].
    destruct (step_ok s x s1 Hok E) as [Hok1 P1]. destruct (IH s1 s' Hok1 H) as [Hok' P2].
    split; [assumption|]. apply (ppeq_trans _ _ _ P2 P1).
Qed.

(* freshly generated nests satisfy the invariant *)
Lemma gen_outer_ok : forall k o, attr_ok cfg en (attr_of k) -> k_off k = e_goff en ->
  gen_outer tb first k = Some o -> outer_ok o.
Proof.
  intros k o Hok Hoff H. unfold gen_outer, mk_inner in H.
  destruct (default_bound tb first (attr_of k) Y Lo) as [g1|] eqn:E1; [|discriminate].
  destruct (default_bound tb first (attr_of k) Y Hi) as [g2|] eqn:E2; [|discriminate].
  destruct (default_bound tb first (attr_of k) X Lo) as [g3|] eqn:E3; [|discriminate].
  destruct (default_bound tb first (attr_of k) X Hi) as [g4|] eqn:E4; [|discriminate].
  inversion H; subst o.
  destruct (default_bound_eval lib HC _ _ _ _ _ _ _ _ HT Hok E1) as [r [Hr V1]].
  destruct (default_bound_eval lib HC _ _ _ _ _ _ _ _ HT Hok E2) as [r2 [Hr2 V2]].
  destruct (default_bound_eval lib HC _ _ _ _ _ _ _ _ HT Hok E3) as [r3 [Hr3 V3]].
  destruct (default_bound_eval lib HC _ _ _ _ _ _ _ _ HT Hok E4) as [r4 [Hr4 V4]].
  rewrite Hr in Hr2, Hr3, Hr4. inversion Hr2; inversion Hr3; inversion Hr4; subst r2 r3 r4.
  split; cbn [out_attr out_lo out_hi out_body].
  - split; [assumption|]. split; [exact Hoff|]. exists r; repeat split; assumption.
  - constructor; [|constructor]. unfold inner_ok; cbn [in_attr in_lo in_hi].
    split; [assumption|]. split; [exact Hoff|]. exists r; repeat split; assumption.
Qed.

Lemma gen_sched_ok : forall ks s,
  Forall (fun k => attr_ok cfg en (attr_of k) /\ k_off k = e_goff en) ks ->
  gen_sched tb first ks = Some s -> sched_ok s.
Proof.
  intros ks s HF H. unfold gen_sched in H. apply map_opt_Forall2 in H. induction H as [|k o r r' Hk Hr IH].
  - constructor.
  - inversion HF as [|? ? [Hx Hy] HF']; subst. constructor; [apply (gen_outer_ok k o Hx Hy Hk)|apply IH; assumption].
Qed.

(* Any accepted sequence of GOConstLoopBoundsTrans, GOcean loop fusions and OpenMP/OpenACC/extraction
   wrappers keeps, at every grid point, the kernels called and their order - for kernels written for
   the grid's own index offset whose configuration lines are not ignored. *)
Theorem history_preserves_per_point_ : forall ks h s s',
  Forall (fun k => attr_ok cfg en (attr_of k) /\ k_off k = e_goff en) ks ->
  gen_sched tb first ks = Some s -> apply_hist tb first s h = Some s' ->
  forall i j, at_pt i j (exec lib en s') = at_pt i j (exec lib en s).
Proof.
  intros ks h s s' HF Hg Hh. apply (hist_ok h s s' (gen_sched_ok ks s HF Hg) Hh).
Qed.

End History.

(* ------------------------------------------------------------------ refutation: fusion compares the
   loop attributes only.  NE-offset kernel 1 and ANY-offset kernel 2, both go_ct / go_internal_pts;
   after GOConstLoopBoundsTrans their nests are 2..S and 1..S; fusing them is accepted and kernel 2
   is no longer called at points of row/column 1. *)
Theorem fusion_attrs_only_refuted_ :
  exists (ks : list kern) (en : env) (s s1 s2 : sched),
    lib_contract ref_lib /\
    Forall (fun k => attr_ok [] en (attr_of k)) ks /\
    gen_sched ref_table 0 ks = Some s /\
    apply_x ref_table 0 s XConst = Some s1 /\
    apply_x ref_table 0 s1 (XFuseOuter 0) = Some s2 /\
    at_pt 1 1 (exec ref_lib en s1) = [2%nat] /\ at_pt 1 1 (exec ref_lib en s2) = [].
Proof.
  exists [mkK 1 "go_offset_ne" "go_ct" "go_internal_pts" 0; mkK 2 "go_offset_any" "go_ct" "go_internal_pts" 1],
         (wit_env "go_offset_ne" 3 3 "go_ct").
  eexists; eexists; eexists.
  split; [apply ref_lib_contract|].
  split; [constructor; [|constructor; [|constructor]]; unfold attr_ok; cbn; repeat split; auto|].
  split; [vm_compute; reflexivity|]. split; [vm_compute; reflexivity|]. split; [vm_compute; reflexivity|].
  split; vm_compute; reflexivity.
Qed.

(* non-vacuity of the history theorem: three NE kernels, constant bounds, two fusions, two wrappers *)
Example history_nonvacuous :
  let ks := [mkK 1 "go_offset_ne" "go_cu" "go_internal_pts" 0; mkK 2 "go_offset_ne" "go_cu" "go_internal_pts" 1;
             mkK 3 "go_offset_ne" "go_every" "go_all_pts" 2] in
  let en := mkEnv "go_offset_ne" 4 3 (fun f => match f with 2%nat => "go_ct" | _ => "go_cu" end) in
  let h := [XFuseOuter 0; XConst; XFuseInner 0 0; XWrapOuter 0 1; XWrapInner 1 0 2] in
  Forall (fun k => attr_ok [] en (attr_of k) /\ k_off k = e_goff en) ks /\
  exists s s', gen_sched builtin_table 0 ks = Some s /\ apply_hist builtin_table 0 s h = Some s' /\
               List.length s' = 2%nat /\ at_pt 2 2 (exec ref_lib en s') = [1%nat; 2%nat; 3%nat].
Proof.
  cbn zeta. split.
  - constructor; [|constructor; [|constructor; [|constructor]]];
      (split; [unfold attr_ok; cbn; repeat split; auto|reflexivity]).
  - eexists; eexists. split; [vm_compute; reflexivity|]. split; [vm_compute; reflexivity|].
    split; vm_compute; reflexivity.
Qed.
