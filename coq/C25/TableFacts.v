(* C25 - finite facts about the table dumped from the working tree (C25/Gen.v): each is a boolean
   sweep over the generated table evaluated by vm_compute and lifted with forallb_forall; the
   arithmetic in the grid size is discharged once and for all by le_all_sound (lia/nia). *)
From Coq Require Import List ZArith Bool String Lia.
Import ListNotations.
From PV Require Import C25.Model C25.BoundsFacts C25.Gen.
Local Open Scope Z_scope.
Local Open Scope list_scope.
Local Open Scope string_scope.

(* ---- the live built-in table is the reference table *)
Lemma builtin_incl_ref : table_incl builtin_table ref_table = true.
Proof. vm_compute; reflexivity. Qed.
Lemma ref_incl_builtin : table_incl ref_table builtin_table = true.
Proof. vm_compute; reflexivity. Qed.

Theorem builtin_table_is_reference_ : forall k, lookup builtin_table k = lookup ref_table k.
Proof. apply table_equiv_sound; [apply builtin_incl_ref|apply ref_incl_builtin]. Qed.

(* ---- never beyond the depth-1 halo *)
Definition halo_ok (b : bounds4) : bool :=
  le_all (BLit 1) (o_lo b) && le_all (o_hi b) (BAdd BStop (BLit 1)) &&
  le_all (BLit 1) (i_lo b) && le_all (i_hi b) (BAdd BStop (BLit 1)).

Lemma halo_ok_sound : forall b, halo_ok b = true -> forall sx sy, 2 <= sx -> 2 <= sy ->
  1 <= jlo (region_of b sx sy) /\ jhi (region_of b sx sy) <= sy + 1 /\
  1 <= ilo (region_of b sx sy) /\ ihi (region_of b sx sy) <= sx + 1.
Proof.
  intros b H sx sy Hx Hy. unfold halo_ok in H.
  repeat (apply andb_true_iff in H; destruct H as [H ?]).
  cbn [region_of jlo jhi ilo ihi].
  pose proof (le_all_sound _ _ H sy Hy) as A1. pose proof (le_all_sound _ _ H2 sy Hy) as A2.
  pose proof (le_all_sound _ _ H1 sx Hx) as A3. pose proof (le_all_sound _ _ H0 sx Hx) as A4.
  cbn [eval_b] in *. lia.
Qed.

Lemma builtin_halo_all : forallb (fun e => halo_ok (snd e)) builtin_table = true.
Proof. vm_compute; reflexivity. Qed.

Theorem table_within_halo_ : forall k b, lookup builtin_table k = Some b ->
  forall sx sy, 2 <= sx -> 2 <= sy ->
  1 <= jlo (region_of b sx sy) /\ jhi (region_of b sx sy) <= sy + 1 /\
  1 <= ilo (region_of b sx sy) /\ ihi (region_of b sx sy) <= sx + 1.
Proof.
  intros k b H. apply lookup_some_in in H.
  pose proof builtin_halo_all as A. rewrite forallb_forall in A. specialize (A _ H). cbn [snd] in A.
  apply halo_ok_sound; assumption.
Qed.

(* ---- every built-in region contains the points that are internal for every point type: [2, stop-1]^2 *)
Definition core_ok (b : bounds4) : bool :=
  le_all (o_lo b) (BLit 2) && le_all (BSub BStop (BLit 1)) (o_hi b) &&
  le_all (i_lo b) (BLit 2) && le_all (BSub BStop (BLit 1)) (i_hi b).

Lemma core_ok_sound : forall b, core_ok b = true -> forall sx sy, 2 <= sx -> 2 <= sy ->
  rect_subset (mkR 2 (sy - 1) 2 (sx - 1)) (region_of b sx sy).
Proof.
  intros b H sx sy Hx Hy. unfold core_ok in H.
  repeat (apply andb_true_iff in H; destruct H as [H ?]).
  unfold rect_subset; cbn [region_of jlo jhi ilo ihi].
  pose proof (le_all_sound _ _ H sy Hy) as A1. pose proof (le_all_sound _ _ H2 sy Hy) as A2.
  pose proof (le_all_sound _ _ H1 sx Hx) as A3. pose proof (le_all_sound _ _ H0 sx Hx) as A4.
  cbn [eval_b] in *. lia.
Qed.

Lemma builtin_core_all : forallb (fun e => core_ok (snd e)) builtin_table = true.
Proof. vm_compute; reflexivity. Qed.

Theorem builtin_contains_core_ : forall k b, lookup builtin_table k = Some b ->
  forall sx sy, 2 <= sx -> 2 <= sy -> rect_subset (mkR 2 (sy - 1) 2 (sx - 1)) (region_of b sx sy).
Proof.
  intros k b H. apply lookup_some_in in H.
  pose proof builtin_core_all as A. rewrite forallb_forall in A. specialize (A _ H). cbn [snd] in A.
  apply core_ok_sound; assumption.
Qed.

(* ---- go_all_pts contains go_internal_pts of the same offset and point type *)
Definition contains_ok (ba bi : bounds4) : bool :=
  le_all (o_lo ba) (o_lo bi) && le_all (o_hi bi) (o_hi ba) &&
  le_all (i_lo ba) (i_lo bi) && le_all (i_hi bi) (i_hi ba).

Lemma contains_ok_sound : forall ba bi, contains_ok ba bi = true -> forall sx sy, 2 <= sx -> 2 <= sy ->
  rect_subset (region_of bi sx sy) (region_of ba sx sy).
Proof.
  intros ba bi H sx sy Hx Hy. unfold contains_ok in H.
  repeat (apply andb_true_iff in H; destruct H as [H ?]).
  unfold rect_subset; cbn [region_of jlo jhi ilo ihi].
  pose proof (le_all_sound _ _ H sy Hy). pose proof (le_all_sound _ _ H2 sy Hy).
  pose proof (le_all_sound _ _ H1 sx Hx). pose proof (le_all_sound _ _ H0 sx Hx). lia.
Qed.

Definition pair_ok (ea ei : key * bounds4) : bool :=
  let '(oa, ta, sa) := fst ea in let '(oi, ti, si) := fst ei in
  if String.eqb sa "go_all_pts" && String.eqb si "go_internal_pts" && String.eqb oa oi && String.eqb ta ti
  then contains_ok (snd ea) (snd ei) else true.

Lemma builtin_pairs_all :
  forallb (fun ea => forallb (fun ei => pair_ok ea ei) builtin_table) builtin_table = true.
Proof. vm_compute; reflexivity. Qed.

Theorem all_pts_contains_internal_ : forall o t ba bi,
  lookup builtin_table (o, t, "go_all_pts") = Some ba ->
  lookup builtin_table (o, t, "go_internal_pts") = Some bi ->
  forall sx sy, 2 <= sx -> 2 <= sy -> rect_subset (region_of bi sx sy) (region_of ba sx sy).
Proof.
  intros o t ba bi Ha Hi. apply lookup_some_in in Ha. apply lookup_some_in in Hi.
  pose proof builtin_pairs_all as A. rewrite forallb_forall in A. specialize (A _ Ha).
  rewrite forallb_forall in A. specialize (A _ Hi). unfold pair_ok in A; cbn [fst snd] in A.
  rewrite !String.eqb_refl in A. cbn in A. apply contains_ok_sound; assumption.
Qed.

(* ---- rows for grid-point type go_every: the whole array, depth-1 halo included *)
Definition every_ok (e : key * bounds4) : bool :=
  let '(o, t, s) := fst e in
  if String.eqb t "go_every" then
    lin_is (o_lo (snd e)) 0 1 && lin_is (o_hi (snd e)) 1 1 && lin_is (i_lo (snd e)) 0 1 && lin_is (i_hi (snd e)) 1 1
  else true.

Lemma builtin_every_all : forallb every_ok builtin_table = true.
Proof. vm_compute; reflexivity. Qed.

Theorem every_rows_full_ : forall o s b, lookup builtin_table (o, "go_every", s) = Some b ->
  forall sx sy, region_of b sx sy = mkR 1 (sy + 1) 1 (sx + 1).
Proof.
  intros o s b H sx sy. apply lookup_some_in in H.
  pose proof builtin_every_all as A. rewrite forallb_forall in A. specialize (A _ H).
  unfold every_ok in A; cbn [fst snd] in A. rewrite String.eqb_refl in A.
  repeat (apply andb_true_iff in A; destruct A as [A ?]).
  unfold region_of.
  rewrite (lin_is_sound _ _ _ A sy), (lin_is_sound _ _ _ H2 sy), (lin_is_sound _ _ _ H1 sx), (lin_is_sound _ _ _ H0 sx).
  f_equal; lia.
Qed.

(* ---- the reference has a row for every real offset, point type and built-in space *)
Lemma ref_complete_b :
  forallb (fun g => forallb (fun t => match lookup ref_table (g, t, "go_internal_pts"), lookup ref_table (g, t, "go_all_pts")
                                      with Some _, Some _ => true | _, _ => false end) point_types) real_offsets = true.
Proof. vm_compute; reflexivity. Qed.

Lemma mem_in : forall s l, mem s l = true -> In s l.
Proof.
  intros s l H. unfold mem in H. apply existsb_exists in H. destruct H as [x [Hx E]].
  apply String.eqb_eq in E; subst; assumption.
Qed.

Theorem ref_complete_ : forall g t r, mem g real_offsets = true -> mem t point_types = true ->
  exists b, lookup ref_table (g, t, space_of_regk r) = Some b.
Proof.
  intros g t r Hg Ht. apply mem_in in Hg. apply mem_in in Ht.
  pose proof ref_complete_b as A. rewrite forallb_forall in A. specialize (A _ Hg).
  rewrite forallb_forall in A. specialize (A _ Ht).
  destruct (lookup ref_table (g, t, "go_internal_pts")) as [b1|] eqn:E1; [|discriminate].
  destruct (lookup ref_table (g, t, "go_all_pts")) as [b2|] eqn:E2; [|discriminate].
  destruct r; cbn [space_of_regk]; [exists b1|exists b2]; assumption.
Qed.

(* ---- GOceanConfig + GOLoop.add_bounds: the table after loading a config file is the model's *)
Lemma after_incl_model : table_incl table_after_config (add_all builtin_table user_cfg_entries) = true.
Proof. vm_compute; reflexivity. Qed.
Lemma model_incl_after : table_incl (add_all builtin_table user_cfg_entries) table_after_config = true.
Proof. vm_compute; reflexivity. Qed.

Theorem config_parsing_is_add_bounds_ : forall k,
  lookup table_after_config k =
  match lookup_last user_cfg_entries k with Some b => Some b | None => lookup builtin_table k end.
Proof.
  intros k. rewrite <- lookup_add_all.
  apply table_equiv_sound; [apply after_incl_model|apply model_incl_after].
Qed.
