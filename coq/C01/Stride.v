(* C01 -- strided sections in a 1-D WHERE: statements for coq/Properties/C01.v (stated here because
   Model2 re-uses the names of Model.v), the refutation of the pre-fix index and a non-vacuity example. *)
From Coq Require Import List ZArith Bool Lia.
Import ListNotations.
From PV Require Import Fort.Syntax Fort.Sem Fort.Facts C01.Model2 C01.WhereLocal2 C01.WhereExec2.
Open Scope Z_scope.

(* FULL statement (false of the reader before b189692, see [strided_refuted]); proved under
   [safe_where], which for a strided operand a(lo:hi:st) demands: a is not assigned in the construct,
   a is not the loop variable, and the index is the repaired one (fx = true) or the stride is 1.
   Modelled: strided sections as read-only operands with literal bounds / stride; the loop is sized
   from the first FULL-RANGE section of the mask. *)
Definition strided_sound_stmt : Prop :=
  forall md dc w s s' ss,
    safe_where w = true ->
    (forall a0, wfirst (wmask w) = Some a0 -> dc_ok md dc s a0) ->
    where_sem w s = Some s' ->
    lower_where md dc w = Lowered ss ->
    exists f s'' tr,
      exec f ss s = Ok s'' tr CNormal /\ bnd s'' = bnd s' /\
      (forall c, fst c <> wx w -> val s'' c = val s' c) /\ outputs tr = [].

Lemma strided_sound : strided_sound_stmt.
Proof. exact lower_where_sound_partial_. Qed.

Definition differs (md : mode) (dc : decls) (w : wconstruct) (s : store) (c : loc) (fuel : nat) : bool :=
  match where_sem w s, lower_where md dc w with
  | Some s', Lowered ss =>
      match exec fuel ss s with Ok s'' _ _ => negb (val s'' c =? val s' c) | _ => false end
  | _, _ => false
  end.

Lemma differs_spec md dc w s c fuel :
  differs md dc w s c fuel = true ->
  exists s' ss, where_sem w s = Some s' /\ lower_where md dc w = Lowered ss /\
    ~ (exists f s'' tr ctl, exec f ss s = Ok s'' tr ctl /\ val s'' c = val s' c).
Proof.
  unfold differs. destruct (where_sem w s) as [s'|]; [|discriminate].
  destruct (lower_where md dc w) as [| |ss]; try discriminate.
  destruct (exec fuel ss s) as [s0 tr0 c0| |] eqn:E; try discriminate.
  intro H. apply negb_true_iff, Z.eqb_neq in H.
  exists s', ss. split; [reflexivity|]. split; [reflexivity|].
  intros [f [s'' [tr [ctl [E2 Hv]]]]].
  assert (E3 : Ok s0 tr0 c0 = Ok s'' tr ctl) by (eapply exec_det; [exact E|exact E2|discriminate|discriminate]).
  inversion E3; subst. contradiction.
Qed.

(* integer :: a(10) = 1..10, b(5) = 0 ;   WHERE (b(:) >= 0) b(:) = a(2:10:2)      (Fortran: b = 2 4 6 8 10) *)
Definition sA : name := 0%nat.  Definition sB : name := 1%nat.  Definition sX : name := 9%nat.
Definition wS (fx : bool) : wconstruct :=
  mkW sX (WBin Ge (WArr sB) (WScal (ELit 0))) [WAssign sB (WSec fx sA 2 10 2)] [].
Definition sS : store :=
  store_of [((sA, [1]), 1); ((sA, [2]), 2); ((sA, [3]), 3); ((sA, [4]), 4); ((sA, [5]), 5);
            ((sA, [6]), 6); ((sA, [7]), 7); ((sA, [8]), 8); ((sA, [9]), 9); ((sA, [10]), 10)]
           [(sA, [(1, 10)]); (sB, [(1, 5)])].

(* REFUTED: with the stride dropped from the index (a(2 + widx - 1)) no run of the lowered code gives
   the source value of b(2) (4; the loop stores a(3) = 3); the repaired index does. *)
Theorem strided_refuted :
  fst (sB, [2]) <> wx (wS false) /\
  (exists s' ss, where_sem (wS false) sS = Some s' /\ lower_where Today (fun _ => None) (wS false) = Lowered ss /\
     ~ (exists f s'' tr ctl, exec f ss sS = Ok s'' tr ctl /\ val s'' (sB, [2]) = val s' (sB, [2]))) /\
  safe_where (wS false) = false /\
  differs Today (fun _ => None) (wS true) sS (sB, [2]) 100 = false.
Proof.
  split; [cbn; discriminate|]. split.
  - apply (differs_spec Today (fun _ => None) (wS false) sS (sB, [2]) 100). vm_compute. reflexivity.
  - split; vm_compute; reflexivity.
Qed.

(* non-vacuity of [strided_sound]: the repaired construct is safe, its lowering is the expected loop, and
   source meaning and lowered run both give b = 2 4 6 8 10 *)
Definition strided_check : bool :=
  match where_sem (wS true) sS, lower_where Today (fun _ => None) (wS true) with
  | Some s', Lowered ss =>
      match exec 100 ss sS with
      | Ok s'' _ CNormal =>
          zlist_eqb (map (fun i => val s' (sB, [i])) [1; 2; 3; 4; 5]) [2; 4; 6; 8; 10] &&
          zlist_eqb (map (fun i => val s'' (sB, [i])) [1; 2; 3; 4; 5]) [2; 4; 6; 8; 10]
      | _ => false
      end
  | _, _ => false
  end.

Example strided_example :
  safe_where (wS true) = true /\
  (forall a0, wfirst (wmask (wS true)) = Some a0 -> dc_ok Today (fun _ => None) sS a0) /\
  lower_where Today (fun _ => None) (wS true) =
    Lowered [SDo sX (ELit 1) (EIntr ISize [EVar sB; ELit 1]) (ELit 1)
               [SIf (EBin Ge (EIdx sB [idx_of sB sX]) (ELit 0))
                    [SAssign sB [idx_of sB sX]
                       (EIdx sA [EBin Add (ELit 2) (EBin Mul (EBin Sub (EVar sX) (ELit 1)) (ELit 2))])] []]] /\
  strided_check = true.
Proof.
  split; [vm_compute; reflexivity|]. split; [intros a0 _; exact I|]. split; [reflexivity|vm_compute; reflexivity].
Qed.
