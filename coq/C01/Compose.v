(* C01 -- the nested source language: its semantics by the Fortran rules ([sexec], built on Fort.Sem and
   on [select_sem] / [where_sem] of Model.v), an induction principle, equations for [lower_stmt], and
   the identity theorem: programs without SELECT CASE / WHERE are lowered to themselves (a missing
   DO step becomes the literal 1) and have the same meaning. *)
From Coq Require Import List ZArith Bool Lia.
Import ListNotations.
From PV Require Import Fort.Syntax Fort.Sem Fort.Facts C01.Model.
Open Scope Z_scope.

Definition dstep (st0 : option expr) : expr := match st0 with Some e => e | None => ELit 1 end.

(* ------------------------------------------------------------------ source semantics *)
Fixpoint sexec (fuel : nat) (ss : list sstmt) (s : store) : outcome :=
  match fuel with
  | O => OutOfFuel
  | S f =>
    match ss with
    | [] => Ok s [] CNormal
    | st :: rest =>
      let r1 :=
        match st with
        | TAssign x ix e =>
            match opt_all (map (eval s) ix), eval s e with
            | Some vs, Some v =>
                Ok (upd s (x, vs) v) (rds (ereads s e ++ flat_map (ereads s) ix) ++ [Wr (x, vs)]) CNormal
            | _, _ => Fault
            end
        | TIf c th el =>
            match eval s c with
            | Some v => prepend (rds (ereads s c)) (sexec f (if v =? 0 then el else th) s)
            | None => Fault
            end
        | TDo x lo hi st0 body =>
            match eval s lo, eval s hi, eval s (dstep st0) with
            | Some l, Some h, Some t =>
                if t =? 0 then Fault
                else prepend (rds (ereads s lo ++ ereads s hi ++ ereads s (dstep st0)))
                             (do_loop (sexec f body) x l t (trip_count l h t) 0 s)
            | _, _, _ => Fault
            end
        | TExit => Ok s [] CExit
        | TCycle => Ok s [] CCycle
        | TReturn => Ok s [] CReturn
        | TSelect sel cls => select_sem (fun b st => sexec f b st) [] sel cls s
        | TWhere w => match where_sem w s with Some s' => Ok s' [] CNormal | None => Fault end
        end in
      match r1 with
      | Ok s1 tr1 CNormal => prepend tr1 (sexec f rest s1)
      | other => other
      end
    end
  end.

(* ------------------------------------------------------------------ induction principle *)
Section SInd.
  Variable P : sstmt -> Prop.
  Hypothesis Hassign : forall x ix e, P (TAssign x ix e).
  Hypothesis Hif : forall c th el, Forall P th -> Forall P el -> P (TIf c th el).
  Hypothesis Hdo : forall x lo hi st body, Forall P body -> P (TDo x lo hi st body).
  Hypothesis Hexit : P TExit.
  Hypothesis Hcycle : P TCycle.
  Hypothesis Hreturn : P TReturn.
  Hypothesis Hsel : forall sel cls, Forall (fun cl => Forall P (snd cl)) cls -> P (TSelect sel cls).
  Hypothesis Hwhere : forall w, P (TWhere w).
  Fixpoint sstmt_ind' (s : sstmt) : P s :=
    let go := (fix go l : Forall P l :=
                 match l with [] => Forall_nil P | x :: r => Forall_cons x (sstmt_ind' x) (go r) end) in
    match s with
    | TAssign x ix e => Hassign x ix e
    | TIf c th el => Hif c th el (go th) (go el)
    | TDo x lo hi st body => Hdo x lo hi st body (go body)
    | TExit => Hexit
    | TCycle => Hcycle
    | TReturn => Hreturn
    | TSelect sel cls =>
        Hsel sel cls
             ((fix gc (l : list (option (list cval) * list sstmt)) : Forall (fun cl => Forall P (snd cl)) l :=
                 match l with
                 | [] => Forall_nil _
                 | cl :: r =>
                     Forall_cons cl (match cl as c0 return Forall P (snd c0) with (o, b) => go b end) (gc r)
                 end) cls)
    | TWhere w => Hwhere w
    end.
End SInd.

(* ------------------------------------------------------------------ equations for [lower_stmt] *)
Lemma lw_eq md dc l :
  (fix lw (l0 : list sstmt) : option (list stmt) :=
     match l0 with [] => Some [] | x :: r => oapp (lower_stmt md dc x) (lw r) end) l = lower md dc l.
Proof. induction l as [|x r IH]; [reflexivity|]. cbn [lower]. rewrite <- IH. reflexivity. Qed.

Fixpoint lower_clauses (md : mode) (dc : decls) (l : list (option (list cval) * list sstmt))
  : option (list (option (list cval) * list stmt)) :=
  match l with
  | [] => Some []
  | (o, b) :: r =>
      match lower md dc b, lower_clauses md dc r with
      | Some b', Some r' => Some ((o, b') :: r')
      | _, _ => None
      end
  end.

Lemma lower_stmt_if md dc c th el :
  lower_stmt md dc (TIf c th el) =
  match lower md dc th, lower md dc el with Some a, Some b => Some [SIf c a b] | _, _ => None end.
Proof. cbn [lower_stmt]. rewrite !lw_eq. reflexivity. Qed.

Lemma lower_stmt_do md dc x lo hi st0 body :
  lower_stmt md dc (TDo x lo hi st0 body) =
  match lower md dc body with Some b => Some [SDo x lo hi (dstep st0) b] | None => None end.
Proof. cbn [lower_stmt]. rewrite lw_eq. reflexivity. Qed.

Lemma lower_stmt_select md dc sel cls :
  lower_stmt md dc (TSelect sel cls) =
  match lower_clauses md dc cls with Some cls' => Some (lower_select sel cls') | None => None end.
Proof.
  cbn [lower_stmt].
  assert (E : forall l,
    (fix lc (l0 : list (option (list cval) * list sstmt)) : option (list (option (list cval) * list stmt)) :=
       match l0 with
       | [] => Some []
       | (o, b) :: r =>
           match (fix lw (l1 : list sstmt) : option (list stmt) :=
                    match l1 with [] => Some [] | x :: r0 => oapp (lower_stmt md dc x) (lw r0) end) b, lc r with
           | Some b', Some r' => Some ((o, b') :: r')
           | _, _ => None
           end
       end) l = lower_clauses md dc l).
  { induction l as [|[o b] r IH]; [reflexivity|]. cbn [lower_clauses]. rewrite <- IH, <- lw_eq. reflexivity. }
  rewrite E. reflexivity.
Qed.

Lemma lower_cons md dc x r : lower md dc (x :: r) = oapp (lower_stmt md dc x) (lower md dc r).
Proof. reflexivity. Qed.

(* ------------------------------------------------------------------ programs without SELECT / WHERE *)
Fixpoint plain (st : sstmt) : bool :=
  match st with
  | TIf _ th el => forallb plain th && forallb plain el
  | TDo _ _ _ _ body => forallb plain body
  | TSelect _ _ | TWhere _ => false
  | _ => true
  end.

Fixpoint embed (st : sstmt) : stmt :=
  match st with
  | TAssign x ix e => SAssign x ix e
  | TIf c th el => SIf c (map embed th) (map embed el)
  | TDo x lo hi st0 body => SDo x lo hi (dstep st0) (map embed body)
  | TExit => SExit
  | TCycle => SCycle
  | TReturn | TSelect _ _ | TWhere _ => SReturn
  end.

Lemma lower_plain_list md dc l :
  Forall (fun st => plain st = true -> lower_stmt md dc st = Some [embed st]) l ->
  forallb plain l = true -> lower md dc l = Some (map embed l).
Proof.
  induction 1 as [|x r Hx Hr IH]; intro Hp; [reflexivity|].
  cbn [forallb] in Hp. apply andb_true_iff in Hp as [H1 H2].
  cbn [lower map]. rewrite (Hx H1), (IH H2). reflexivity.
Qed.

Lemma lower_plain_stmt md dc st : plain st = true -> lower_stmt md dc st = Some [embed st].
Proof.
  induction st using sstmt_ind'; intro Hp; try reflexivity; try discriminate.
  - cbn [plain] in Hp. apply andb_true_iff in Hp as [H1 H2].
    rewrite lower_stmt_if, (lower_plain_list _ _ _ H H1), (lower_plain_list _ _ _ H0 H2). reflexivity.
  - cbn [plain] in Hp. rewrite lower_stmt_do, (lower_plain_list _ _ _ H Hp). reflexivity.
Qed.

(* lowered to themselves ... *)
Theorem lower_do_if_identity_syntax md dc p :
  forallb plain p = true -> lower md dc p = Some (map embed p).
Proof.
  intro Hp. apply lower_plain_list; [|exact Hp]. apply Forall_forall. intros st _. apply lower_plain_stmt.
Qed.

(* ... with the same meaning: the source semantics of a plain program IS the MiniFortran semantics of
   its embedding (same outcome: store, trace, control state, faults, fuel) *)
Theorem sexec_plain : forall f p s, forallb plain p = true -> sexec f p s = exec f (map embed p) s.
Proof.
  induction f as [|f IH]; intros p s Hp; [reflexivity|].
  destruct p as [|st rest]; [reflexivity|].
  cbn [forallb] in Hp. apply andb_true_iff in Hp as [H1 H2].
  cbn [map]. cbn [sexec exec].
  destruct st as [x ix e|c th el|x lo hi st0 body| | | |sel cls|w]; cbn [embed plain] in *; try discriminate.
  - destruct (opt_all (map (eval s) ix)); [|reflexivity]. destruct (eval s e); [|reflexivity].
    rewrite (IH rest _ H2). reflexivity.
  - apply andb_true_iff in H1 as [Ht He].
    destruct (eval s c) as [v|]; [|reflexivity].
    assert (E : sexec f (if v =? 0 then el else th) s = exec f (if v =? 0 then map embed el else map embed th) s).
    { destruct (v =? 0); apply IH; assumption. }
    rewrite E. destruct (prepend _ _) as [s1 tr1 c1| |]; [|reflexivity|reflexivity].
    destruct c1; try reflexivity. rewrite (IH rest _ H2). reflexivity.
  - destruct (eval s lo); [|reflexivity]. destruct (eval s hi); [|reflexivity].
    destruct (eval s (dstep st0)); [|reflexivity]. destruct (z1 =? 0); [reflexivity|].
    assert (E : forall n k s0, do_loop (sexec f body) x z z1 n k s0 = do_loop (exec f (map embed body)) x z z1 n k s0).
    { induction n as [|n IHn]; intros k s0; [reflexivity|]. cbn [do_loop]. rewrite (IH body _ H1).
      destruct (exec f (map embed body) _) as [s2 tr2 c2| |]; try reflexivity.
      destruct c2; try reflexivity; rewrite IHn; reflexivity. }
    rewrite E. destruct (prepend _ _) as [s1 tr1 c1| |]; [|reflexivity|reflexivity].
    destruct c1; try reflexivity. rewrite (IH rest _ H2). reflexivity.
  - reflexivity.
  - reflexivity.
  - reflexivity.
Qed.

Theorem lower_do_if_identity md dc p :
  forallb plain p = true ->
  lower md dc p = Some (map embed p) /\ forall f s, sexec f p s = exec f (map embed p) s.
Proof. intro Hp. split; [apply lower_do_if_identity_syntax, Hp|intros f s; apply sexec_plain, Hp]. Qed.
