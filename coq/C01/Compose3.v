(* C01 -- compositional soundness, part 2: [lower md dc p] simulates [p] for every nested source
   program whose WHERE constructs satisfy the side condition of lower_where_sound_partial. *)
From Coq Require Import List ZArith Bool Lia.
Import ListNotations.
From PV Require Import Fort.Syntax Fort.Sem Fort.Facts Fort.Facts3 C01.Model C01.SelectProofs
  C01.WhereLocal C01.WhereExec C01.Compose C01.Compose2.
Open Scope Z_scope.

Definition cval_names (cv : cval) : list name :=
  match cv with
  | CVal e | CFrom e | CUpto e => enames e
  | CBetween a b => enames a ++ enames b
  end.

(* the effect of the head statement (the [let r1 := ...] of [sexec]) *)
Definition shead (f : nat) (st : sstmt) (s : store) : outcome :=
  match st with
  | TAssign x ix e =>
      match opt_all (map (eval s) ix), eval s e with
      | Some vs, Some v =>
          Ok (upd s (x, vs) v) (rds (ereads s e ++ flat_map (ereads s) ix) ++ [Wr (x, vs)]) CNormal
      | _, _ => Fault
      end
  | TIf c th el =>
      match eval s c with
      | Some v => prepend (rds (ereads s c)) (sexec f (if v =? 0 then el else th) s)
      | None => Fault
      end
  | TDo x lo hi st0 body =>
      match eval s lo, eval s hi, eval s (dstep st0) with
      | Some l, Some h, Some t =>
          if t =? 0 then Fault
          else prepend (rds (ereads s lo ++ ereads s hi ++ ereads s (dstep st0)))
                       (do_loop (sexec f body) x l t (trip_count l h t) 0 s)
      | _, _, _ => Fault
      end
  | TExit => Ok s [] CExit
  | TCycle => Ok s [] CCycle
  | TReturn => Ok s [] CReturn
  | TSelect sel cls => select_sem (fun b st => sexec f b st) [] sel cls s
  | TWhere w => match where_sem w s with Some s' => Ok s' [] CNormal | None => Fault end
  end.

Lemma sexec_cons f st rest s :
  sexec (S f) (st :: rest) s =
  let r1 := shead f st s in
  match r1 with
  | Ok s1 tr1 CNormal => prepend tr1 (sexec f rest s1)
  | other => other
  end.
Proof. destruct st; reflexivity. Qed.

Section Prog.
  Variable X : list name.
  Variables (md : mode) (dc : decls).

  Definition freshb (ns : list name) : bool := forallb (fun y => notin_b y X) ns.

  Lemma freshb_spec ns : freshb ns = true -> fresh X ns.
  Proof. unfold freshb. rewrite forallb_forall. intros H y Hy. apply notin_b_spec, H, Hy. Qed.

  (* well-formed source programs: no statement mentions a name of X; every WHERE satisfies the side
     condition of the WHERE theorem and its loop variable is in X *)
  Fixpoint wf (st : sstmt) : bool :=
    match st with
    | TAssign x ix e => notin_b x X && freshb (flat_map enames ix) && freshb (enames e)
    | TIf c th el => freshb (enames c) && forallb wf th && forallb wf el
    | TDo x lo hi st0 body =>
        notin_b x X && freshb (enames lo) && freshb (enames hi) && freshb (enames (dstep st0)) && forallb wf body
    | TExit | TCycle | TReturn => true
    | TSelect sel cls =>
        freshb (enames sel) &&
        forallb (fun cl => match cl with
                           | (Some cvs, b) => freshb (flat_map cval_names cvs) && forallb wf b
                           | (None, b) => forallb wf b
                           end) cls
    | TWhere w => safe_where w && existsb (Nat.eqb (wx w)) X && freshb (wnames_all w)
    end.

  (* what the reader knows about declared bounds is true of the store (bounds never change), and the
     trip count derived from it is right *)
  Definition dcb_ok (s : store) : Prop :=
    forall a lb ub, dc a = Some (lb, ub) -> bnd s a = [(lb, ub)] /\ (md = Fixed \/ lb = 1).

  Lemma dcb_bnd s s2 : bnd s2 = bnd s -> dcb_ok s -> dcb_ok s2.
  Proof. intros Hb H a lb ub E. rewrite Hb. apply H, E. Qed.

  Definition IHf (f : nat) : Prop :=
    forall p q s t s' tr c,
      lower md dc p = Some q -> forallb wf p = true -> nsim X s t -> dcb_ok s ->
      sexec f p s = Ok s' tr c ->
      exists f' t' tr', exec f' q t = Ok t' tr' c /\ nsim X s' t' /\ bnd s' = bnd s.

  (* ---------------------------------------------------------------- DO *)
  Lemma do_sim f body b x l stp :
    IHf f -> lower md dc body = Some b -> forallb wf body = true -> ~ In x X ->
    forall n k s t s1 tr c, nsim X s t -> dcb_ok s ->
      do_loop (sexec f body) x l stp n k s = Ok s1 tr c ->
      exists f' t1 tr', do_loop (exec f' b) x l stp n k t = Ok t1 tr' c /\ nsim X s1 t1 /\ bnd s1 = bnd s.
  Proof.
    intros IH Hl Hw Hx. induction n as [|n IHn]; intros k s t s1 tr c Hs Hd H.
    - rewrite do_loop_0 in H. inversion H; subst. exists 0%nat. eexists. eexists.
      rewrite do_loop_0. split; [reflexivity|]. split; [apply nsim_upd, Hs|reflexivity].
    - cbn [do_loop] in H.
      destruct (sexec f body (upd s (x, []) (l + k * stp))) as [s2 tr2 c2| |] eqn:Eb; try discriminate.
      destruct (IH _ _ _ _ _ _ _ Hl Hw (nsim_upd X s t (x, []) (l + k * stp) Hs) Hd Eb)
        as [f1 [t2 [tr2' [E1 [Hs2 Hb2]]]]].
      rewrite bnd_upd in Hb2.
      destruct c2.
      + apply prepend_ok_inv in H as [tr0 [H _]].
        destruct (IHn _ _ _ _ _ _ Hs2 (dcb_bnd _ _ Hb2 Hd) H) as [f2 [t1 [tr' [E2 [Hs1 Hb1]]]]].
        exists (Nat.max f1 f2). eexists. eexists. split; [|split; [exact Hs1|congruence]].
        rewrite (do_loop_S_normal _ _ _ _ _ _ _ t2 tr2' CNormal);
          [|apply (exec_mono f1 _ _ _ _ E1); [discriminate|lia]|left; reflexivity].
        rewrite (do_loop_mono_exec f2 (Nat.max f1 f2) _ _ _ _ _ _ _ _ E2); [|discriminate|lia]. reflexivity.
      + inversion H; subst. exists f1. eexists. eexists. split; [|split; [exact Hs2|exact Hb2]].
        apply do_loop_S_exit. exact E1.
      + apply prepend_ok_inv in H as [tr0 [H _]].
        destruct (IHn _ _ _ _ _ _ Hs2 (dcb_bnd _ _ Hb2 Hd) H) as [f2 [t1 [tr' [E2 [Hs1 Hb1]]]]].
        exists (Nat.max f1 f2). eexists. eexists. split; [|split; [exact Hs1|congruence]].
        rewrite (do_loop_S_normal _ _ _ _ _ _ _ t2 tr2' CCycle);
          [|apply (exec_mono f1 _ _ _ _ E1); [discriminate|lia]|right; reflexivity].
        rewrite (do_loop_mono_exec f2 (Nat.max f1 f2) _ _ _ _ _ _ _ _ E2); [|discriminate|lia]. reflexivity.
      + inversion H; subst. exists f1. eexists. eexists. split; [|split; [exact Hs2|exact Hb2]].
        apply do_loop_S_return. exact E1.
  Qed.

  (* ---------------------------------------------------------------- SELECT CASE *)
  Lemma cval_match_nsim s t v cv : fresh X (cval_names cv) -> nsim X s t -> cval_match t v cv = cval_match s v cv.
  Proof.
    intros Hf Hs. destruct cv as [e|e|e|a b]; cbn [cval_match cval_names] in *.
    1-3: rewrite (eval_nsim X s t e Hf Hs); reflexivity.
    rewrite (eval_nsim X s t a), (eval_nsim X s t b); [reflexivity| |exact Hs| |exact Hs];
      intros y Hy; apply Hf, in_or_app; auto.
  Qed.

  Lemma clause_match_nsim s t v : forall cvs,
    fresh X (flat_map cval_names cvs) -> nsim X s t -> clause_match t v cvs = clause_match s v cvs.
  Proof.
    induction cvs as [|cv r IH]; intros Hf Hs; [reflexivity|]. cbn [clause_match flat_map] in *.
    rewrite (cval_match_nsim s t v cv), IH; [reflexivity| |exact Hs| |exact Hs];
      intros y Hy; apply Hf, in_or_app; auto.
  Qed.

  (* a source block and its lowering *)
  Definition orel (r : option (list sstmt)) (r' : option (list stmt)) : Prop :=
    match r, r' with
    | Some b, Some b' => lower md dc b = Some b' /\ forallb wf b = true
    | None, None => True
    | _, _ => False
    end.

  Definition wf_clause (cl : option (list cval) * list sstmt) : bool :=
    match cl with
    | (Some cvs, b) => freshb (flat_map cval_names cvs) && forallb wf b
    | (None, b) => forallb wf b
    end.

  Lemma pick_lower s t v : forall cls cls' r,
    lower_clauses md dc cls = Some cls' -> forallb wf_clause cls = true -> nsim X s t ->
    pick s v (nondefault cls) = Some r ->
    exists r', pick t v (nondefault cls') = Some r' /\ orel r r'.
  Proof.
    induction cls as [|[o b] rest IH]; intros cls' r Hl Hw Hs Hp.
    - cbn in Hl. inversion Hl; subst. cbn in Hp. inversion Hp; subst. exists None. split; [reflexivity|exact I].
    - cbn [lower_clauses] in Hl. destruct (lower md dc b) as [b'|] eqn:Eb; [|discriminate].
      destruct (lower_clauses md dc rest) as [rest'|] eqn:Er; [|discriminate]. inversion Hl; subst cls'.
      cbn [forallb] in Hw. apply andb_true_iff in Hw as [Hc Hr].
      destruct o as [cvs|].
      + cbn [wf_clause] in Hc. apply andb_true_iff in Hc as [Hfc Hwb]. apply freshb_spec in Hfc.
        cbn [nondefault pick] in *. rewrite (clause_match_nsim s t v cvs Hfc Hs).
        destruct (clause_match s v cvs) as [[|]|]; try discriminate.
        * destruct (pick s v (nondefault rest)) as [r0|] eqn:Ep; [|discriminate]. inversion Hp; subst r.
          destruct (IH _ _ eq_refl Hr Hs eq_refl) as [r0' [Ep' _]]. rewrite Ep'.
          exists (Some b'). split; [reflexivity|]. split; assumption.
        * destruct (pick s v (nondefault rest)) as [r0|] eqn:Ep; [|discriminate]. inversion Hp; subst r.
          destruct (IH _ _ eq_refl Hr Hs eq_refl) as [r0' [Ep' Ho]]. rewrite Ep'.
          exists r0'. split; [reflexivity|exact Ho].
      + cbn [nondefault] in *. apply (IH _ _ eq_refl Hr Hs Hp).
  Qed.

  Lemma default_lower : forall cls cls',
    lower_clauses md dc cls = Some cls' -> forallb wf_clause cls = true ->
    orel (default_of cls) (default_of cls').
  Proof.
    induction cls as [|[o b] rest IH]; intros cls' Hl Hw.
    - cbn in Hl. inversion Hl; subst. exact I.
    - cbn [lower_clauses] in Hl. destruct (lower md dc b) as [b'|] eqn:Eb; [|discriminate].
      destruct (lower_clauses md dc rest) as [rest'|] eqn:Er; [|discriminate]. inversion Hl; subst cls'.
      cbn [forallb] in Hw. apply andb_true_iff in Hw as [Hc Hr].
      specialize (IH _ eq_refl Hr). destruct o as [cvs|]; cbn [default_of]; [exact IH|].
      cbn [wf_clause] in Hc. unfold orel in IH.
      destruct (default_of rest) as [d|], (default_of rest') as [d'|]; try contradiction; [exact IH|].
      split; assumption.
  Qed.

  (* ---------------------------------------------------------------- the head statement *)
  Lemma head_sim f st q1 s t s1 tr1 c1 :
    IHf f -> lower_stmt md dc st = Some q1 -> wf st = true -> nsim X s t -> dcb_ok s ->
    shead f st s = Ok s1 tr1 c1 ->
    exists f1 t1 tr1', exec f1 q1 t = Ok t1 tr1' c1 /\ nsim X s1 t1 /\ bnd s1 = bnd s.
  Proof.
    intros IH Hl Hw Hs Hd H.
    destruct st as [x ix e|c th el|x lo hi st0 body| | | |sel cls|w].
    - (* assignment *)
      cbn [lower_stmt] in Hl. inversion Hl; subst q1. cbn [wf] in Hw.
      apply andb_true_iff in Hw as [Hw He]. apply andb_true_iff in Hw as [_ Hix].
      apply freshb_spec in He, Hix. cbn [shead] in H.
      destruct (opt_all (map (eval s) ix)) as [vs|] eqn:Ei; [|discriminate].
      destruct (eval s e) as [v|] eqn:Ee; [|discriminate]. inversion H; subst.
      exists 2%nat. eexists. eexists. split; [|split; [apply nsim_upd, Hs|reflexivity]].
      apply exec_assign; [rewrite (evals_nsim X s t ix Hix Hs); exact Ei|rewrite (eval_nsim X s t e He Hs); exact Ee].
    - (* IF *)
      rewrite lower_stmt_if in Hl.
      destruct (lower md dc th) as [a|] eqn:Ea; [|discriminate].
      destruct (lower md dc el) as [b|] eqn:Eb; [|discriminate]. inversion Hl; subst q1.
      cbn [wf] in Hw. apply andb_true_iff in Hw as [Hw Hwe]. apply andb_true_iff in Hw as [Hc Hwt].
      apply freshb_spec in Hc. cbn [shead] in H.
      destruct (eval s c) as [v|] eqn:Ec; [|discriminate].
      apply prepend_ok_inv in H as [tr0 [H _]].
      assert (Hbr : exists f0 t1 tr', exec f0 (if v =? 0 then b else a) t = Ok t1 tr' c1 /\ nsim X s1 t1 /\ bnd s1 = bnd s).
      { destruct (v =? 0); [apply (IH _ _ _ _ _ _ _ Eb Hwe Hs Hd H)|apply (IH _ _ _ _ _ _ _ Ea Hwt Hs Hd H)]. }
      destruct Hbr as [f0 [t1 [tr' [E0 [Hs1 Hb1]]]]].
      exists (S (S f0)). eexists. eexists. split; [|split; [exact Hs1|exact Hb1]].
      rewrite (exec_if _ _ _ _ _ v); [|rewrite (eval_nsim X s t c Hc Hs); exact Ec].
      rewrite (exec_mono f0 (S f0) _ _ _ E0); [reflexivity|discriminate|lia].
    - (* DO *)
      rewrite lower_stmt_do in Hl. destruct (lower md dc body) as [b|] eqn:Eb; [|discriminate]. inversion Hl; subst q1.
      cbn [wf] in Hw. apply andb_true_iff in Hw as [Hw Hwb]. apply andb_true_iff in Hw as [Hw Hst].
      apply andb_true_iff in Hw as [Hw Hhi]. apply andb_true_iff in Hw as [Hx Hlo].
      apply notin_b_spec in Hx. apply freshb_spec in Hlo, Hhi, Hst. cbn [shead] in H.
      destruct (eval s lo) as [l|] eqn:El; [|discriminate].
      destruct (eval s hi) as [h|] eqn:Eh; [|discriminate].
      destruct (eval s (dstep st0)) as [stp|] eqn:Es; [|discriminate].
      destruct (stp =? 0) eqn:Ez; [discriminate|]. apply Z.eqb_neq in Ez.
      apply prepend_ok_inv in H as [tr0 [H _]].
      destruct (do_sim f body b x l stp IH Eb Hwb Hx _ _ _ _ _ _ _ Hs Hd H) as [f' [t1 [tr' [E1 [Hs1 Hb1]]]]].
      exists (S (S f')). eexists. eexists. split; [|split; [exact Hs1|exact Hb1]].
      rewrite (exec_do f' x lo hi (dstep st0) b t l h stp); try assumption.
      + rewrite (do_loop_mono_exec f' (S f') _ _ _ _ _ _ _ _ E1); [reflexivity|discriminate|lia].
      + rewrite (eval_nsim X s t lo Hlo Hs); exact El.
      + rewrite (eval_nsim X s t hi Hhi Hs); exact Eh.
      + rewrite (eval_nsim X s t _ Hst Hs); exact Es.
    - cbn in Hl, H. inversion Hl; inversion H; subst. exists 2%nat, t, []. split; [reflexivity|split; [exact Hs|reflexivity]].
    - cbn in Hl, H. inversion Hl; inversion H; subst. exists 2%nat, t, []. split; [reflexivity|split; [exact Hs|reflexivity]].
    - cbn in Hl, H. inversion Hl; inversion H; subst. exists 2%nat, t, []. split; [reflexivity|split; [exact Hs|reflexivity]].
    - (* SELECT CASE *)
      rewrite lower_stmt_select in Hl. destruct (lower_clauses md dc cls) as [cls'|] eqn:Ec; [|discriminate].
      inversion Hl; subst q1. cbn [wf] in Hw. apply andb_true_iff in Hw as [Hsel Hwc]. apply freshb_spec in Hsel.
      change (forallb wf_clause cls = true) in Hwc.
      cbn [shead] in H. unfold select_sem in H.
      destruct (eval s sel) as [v|] eqn:Ev; [|discriminate].
      destruct (pick s v (nondefault cls)) as [r|] eqn:Ep; [|discriminate].
      destruct (pick_lower s t v _ _ _ Ec Hwc Hs Ep) as [r' [Ep' Hor]].
      pose proof (default_lower _ _ Ec Hwc) as Hod.
      set (bsrc := match r with Some b => b | None => match default_of cls with Some b => b | None => [] end end).
      set (dflt' := match default_of cls' with Some b => b | None => [] end).
      assert (Hrun : exists tr0, sexec f bsrc s = Ok s1 tr0 c1).
      { unfold bsrc. destruct r as [b|]; apply prepend_ok_inv in H as [tr0 [H _]]; eauto. }
      destruct Hrun as [tr0 Hrun].
      assert (Hlow : lower md dc bsrc = Some (match r' with Some b => b | None => dflt' end) /\ forallb wf bsrc = true).
      { unfold bsrc, dflt', orel in *. destruct r as [b|], r' as [b'|]; try contradiction; [exact Hor|].
        destruct (default_of cls) as [d|], (default_of cls') as [d'|]; try contradiction; [exact Hod|].
        split; reflexivity. }
      destruct Hlow as [Hlow Hwb].
      destruct (IH _ _ _ _ _ _ _ Hlow Hwb Hs Hd Hrun) as [f0 [t1 [tr' [E0 [Hs1 Hb1]]]]].
      assert (Evt : eval t sel = Some v) by (rewrite (eval_nsim X s t sel Hsel Hs); exact Ev).
      destruct (if_chain_exec sel dflt' t v _ _ _ _ _ _ Evt Ep' E0) as [f' [tr'' [E' _]]].
      exists f', t1, tr''. split; [exact E'|split; [exact Hs1|exact Hb1]].
    - (* WHERE *)
      cbn [lower_stmt] in Hl. destruct (lower_where md dc w) as [| |ss] eqn:Elw; try discriminate.
      inversion Hl; subst q1. cbn [wf] in Hw. apply andb_true_iff in Hw as [Hw Hfr].
      apply andb_true_iff in Hw as [Hsafe Hin]. apply in_b_spec in Hin. apply freshb_spec in Hfr.
      cbn [shead] in H. destruct (where_sem w s) as [s1'|] eqn:Ew; [|discriminate]. inversion H; subst.
      destruct (where_sem_nsim X w s t s1 Hsafe Hfr Hs Ew) as [t1s [Et Hs1]].
      assert (Hdc : forall a0, wfirst (wmask w) = Some a0 -> dc_ok md dc t a0).
      { intros a0 _. unfold dc_ok. destruct (dc a0) as [[lb ub]|] eqn:Ed; [|exact I].
        destruct Hs as [Hb _]. rewrite Hb. apply Hd, Ed. }
      destruct (lower_where_sound_partial_ md dc w t t1s ss Hsafe Hdc Et Elw) as [f0 [t'' [tr [E0 [Hb'' [Hv'' _]]]]]].
      exists f0, t'', tr. split; [exact E0|].
      destruct Hs1 as [Hb1 Hv1]. destruct Hs as [Hb Hv].
      pose proof (exec_bnd _ _ _ _ _ _ E0) as Hbt.
      split; [split; [congruence|]|congruence].
      intros l Nl. rewrite Hv''; [apply Hv1, Nl|]. intro E. apply Nl. rewrite E. exact Hin.
  Qed.

  (* ---------------------------------------------------------------- programs *)
  Theorem sim_exec : forall f, IHf f.
  Proof.
    induction f as [|f IH]; intros p q s t s' tr c Hl Hw Hs Hd H; [discriminate|].
    destruct p as [|st rest].
    - cbn in Hl, H. inversion Hl; inversion H; subst. exists 1%nat, t, []. split; [reflexivity|split; [exact Hs|reflexivity]].
    - rewrite lower_cons in Hl. destruct (lower_stmt md dc st) as [q1|] eqn:E1; [|discriminate].
      destruct (lower md dc rest) as [q2|] eqn:E2; [|discriminate]. cbn [oapp] in Hl. inversion Hl; subst q.
      cbn [forallb] in Hw. apply andb_true_iff in Hw as [Hw1 Hw2].
      rewrite sexec_cons in H. cbv zeta in H.
      destruct (shead f st s) as [s1 tr1 c1| |] eqn:Eh; try discriminate.
      destruct (head_sim f st q1 s t s1 tr1 c1 IH E1 Hw1 Hs Hd Eh) as [f1 [t1 [tr1' [X1 [Hs1 Hb1]]]]].
      destruct c1.
      + apply prepend_ok_inv in H as [tr0 [H _]].
        destruct (IH _ _ _ _ _ _ _ E2 Hw2 Hs1 (dcb_bnd _ _ Hb1 Hd) H) as [f2 [t' [tr' [X2 [Hs' Hb']]]]].
        exists (f1 + f2)%nat. eexists. eexists. split; [apply (exec_app_ok _ _ _ _ _ _ _ _ _ _ X1 X2)|].
        split; [exact Hs'|congruence].
      + inversion H; subst. exists f1. eexists. eexists. split; [apply exec_app_abrupt; [exact X1|discriminate]|]. auto.
      + inversion H; subst. exists f1. eexists. eexists. split; [apply exec_app_abrupt; [exact X1|discriminate]|]. auto.
      + inversion H; subst. exists f1. eexists. eexists. split; [apply exec_app_abrupt; [exact X1|discriminate]|]. auto.
  Qed.
End Prog.

(* ------------------------------------------------------------------------------------------
   lower_program_sound_partial: X = the loop variables of the WHERE constructs.  From the same store,
   the lowered program ends with the same control state and a store equal to the source's except on X. *)
Theorem lower_program_sound_partial_ X md dc p q f s s' tr c :
  lower md dc p = Some q -> forallb (wf X) p = true -> dcb_ok md dc s ->
  sexec f p s = Ok s' tr c ->
  exists f' t' tr', exec f' q s = Ok t' tr' c /\ bnd t' = bnd s' /\
                    forall l, ~ In (fst l) X -> val t' l = val s' l.
Proof.
  intros Hl Hw Hd H.
  destruct (sim_exec X md dc f p q s s s' tr c Hl Hw (nsim_refl X s) Hd H) as [f' [t' [tr' [E [[Hb Hv] _]]]]].
  exists f', t', tr'. auto.
Qed.

(* non-vacuity: a SELECT CASE (CASE DEFAULT first) inside a DO without step inside an IF, followed by a
   WHERE / ELSEWHERE over arrays with lower bounds -1 and 1 whose right-hand side reads the scalar the
   loop computed.  n = 3: m = 10, 11, 21; a = 5 -3 0 2  =>  b = 26 0 0 23 *)
Definition pe_a : name := 0%nat.  Definition pe_b : name := 1%nat.  Definition pe_n : name := 3%nat.
Definition pe_m : name := 4%nat.  Definition pe_i : name := 5%nat.  Definition pe_x : name := 9%nat.
Definition pe_prog : list sstmt :=
  [ TIf (EBin Gt (EVar pe_n) (ELit 0))
        [ TDo pe_i (ELit 1) (EVar pe_n) None
              [ TSelect (EVar pe_i)
                        [ (None, [TAssign pe_m [] (EBin Add (EVar pe_m) (ELit 10))]);
                          (Some [CVal (ELit 2)], [TAssign pe_m [] (EBin Add (EVar pe_m) (ELit 1))]) ] ] ]
        [];
    TWhere (mkW pe_x (WBin Gt (WArr pe_a) (WScal (ELit 0)))
                [WAssign pe_b (WBin Add (WArr pe_a) (WScal (EVar pe_m)))]
                [(None, [WAssign pe_b (WScal (ELit 0))])]) ].
Definition pe_store : store :=
  store_of [((pe_n, []), 3); ((pe_a, [-1]), 5); ((pe_a, [0]), -3); ((pe_a, [1]), 0); ((pe_a, [2]), 2);
            ((pe_b, [1]), 7); ((pe_b, [2]), 7); ((pe_b, [3]), 7); ((pe_b, [4]), 7)]
           [(pe_a, [(-1, 2)]); (pe_b, [(1, 4)])].
Definition pe_check : bool :=
  match lower Today (fun _ => None) pe_prog with
  | Some q =>
      match sexec 40 pe_prog pe_store, exec 80 q pe_store with
      | Ok s1 _ CNormal, Ok t1 _ CNormal =>
          zlist_eqb (map (fun k => val s1 (pe_b, [k])) [1; 2; 3; 4]) [26; 0; 0; 23] &&
          zlist_eqb (map (fun k => val t1 (pe_b, [k])) [1; 2; 3; 4]) [26; 0; 0; 23] &&
          (val s1 (pe_m, []) =? 21) && (val t1 (pe_m, []) =? 21) &&
          (val s1 (pe_x, []) =? 0) && (val t1 (pe_x, []) =? 5)
      | _, _ => false
      end
  | None => false
  end.

Example program_example :
  forallb (wf [pe_x]) pe_prog = true /\ dcb_ok Today (fun _ => None) pe_store /\ pe_check = true.
Proof. split; [vm_compute; reflexivity|]. split; [intros a lb ub E; discriminate|vm_compute; reflexivity]. Qed.
