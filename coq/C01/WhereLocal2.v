(* C01 -- WHERE with strided read-only sections (copy of WhereLocal.v over Model2), pure part.  Fortran executes a WHERE construct statement by statement (each masked
   assignment over all elements, masks evaluated once); the reader's loop executes it element by
   element (all statements for element 1, then element 2, ...).  Here: when every array operand is a
   full-range section (so element k of the construct only touches element k of each array) and the
   scalar sub-expressions do not mention an assigned array, both orders give the same store.

   [wclauses_rows]  statement-major (Model.v, the Fortran rules)
   [pm]             element-major: [chain_at] for k = 0, 1, ..., with the loop variable updated
   Main result: [rows_pm]. *)
From Coq Require Import List ZArith Bool Lia.
Import ListNotations.
From PV Require Import Fort.Syntax Fort.Sem Fort.Facts Fort.Facts3 C01.Model2.
Open Scope Z_scope.

Definition notin_b (y : name) (l : list name) : bool := negb (existsb (Nat.eqb y) l).

Lemma notin_b_spec y l : notin_b y l = true -> ~ In y l.
Proof.
  unfold notin_b. intros H I. apply negb_true_iff in H.
  assert (E : existsb (Nat.eqb y) l = true) by (apply existsb_exists; exists y; split; [exact I|apply Nat.eqb_refl]).
  congruence.
Qed.

Lemma in_b_spec y l : existsb (Nat.eqb y) l = true -> In y l.
Proof. intro H. apply existsb_exists in H as [z [I E]]. apply Nat.eqb_eq in E. subst. exact I. Qed.

Section Where.
  Variable W : list name.     (* the arrays assigned in the construct *)
  Variable x : name.          (* the loop variable created by the lowering *)
  Variable n : nat.           (* the extent of the construct *)
  Hypothesis HxW : ~ In x W.

  (* ---------------------------------------------------------------- syntactic conditions *)
  Fixpoint safe_e (e : wexpr) : bool :=
    match e with
    | WScal e0 => forallb (fun y => notin_b y W && negb (Nat.eqb y x)) (enames e0)
    | WArr a => negb (Nat.eqb a x)
    | WSec fx a _ _ st => notin_b a W && negb (Nat.eqb a x) && (fx || (st =? 1))
    | WUn _ e1 => safe_e e1
    | WBin _ l r => safe_e l && safe_e r
    | WIntr1 f e1 => negb (is_inquiry f) && safe_e e1
    | WIntr2 f l r => negb (is_inquiry f) && safe_e l && safe_e r
    | WRed _ _ => false
    end.

  Definition safe_item (it : witem) : bool :=
    match it with
    | WAssign a rhs => existsb (Nat.eqb a) W && safe_e rhs
    | WNest _ _ _ => false
    end.
  Definition safe_items (items : list witem) : bool := forallb safe_item items.
  Definition safe_clause (cl : option wexpr * list witem) : bool :=
    match fst cl with Some m => safe_e m | None => true end && safe_items (snd cl).
  Definition safe_clauses (cls : list (option wexpr * list witem)) : bool := forallb safe_clause cls.

  (* ---------------------------------------------------------------- agreement on element k *)
  Definition agree (k : Z) (s1 s2 : store) : Prop :=
    bnd s1 = bnd s2 /\
    (forall l, ~ In (fst l) W -> fst l <> x -> val s1 l = val s2 l) /\
    (forall a l0 u0, In a W -> bnd s1 a = [(l0, u0)] -> val s1 (a, [l0 + k]) = val s2 (a, [l0 + k])).

  Lemma agree_refl k s : agree k s s.
  Proof. repeat split; auto. Qed.

  Lemma agree_sym k s1 s2 : agree k s1 s2 -> agree k s2 s1.
  Proof.
    intros [Hb [H2 H3]]. split; [symmetry; exact Hb|]. split.
    - intros l N1 N2. symmetry. apply H2; assumption.
    - intros a l0 u0 Ia Hba. symmetry. apply (H3 a l0 u0 Ia). rewrite Hb. exact Hba.
  Qed.

  Lemma agree_trans k s1 s2 s3 : agree k s1 s2 -> agree k s2 s3 -> agree k s1 s3.
  Proof.
    intros [Hb [H2 H3]] [Hb' [H2' H3']]. split; [congruence|]. split.
    - intros l N1 N2. rewrite H2 by assumption. apply H2'; assumption.
    - intros a l0 u0 Ia Hba. rewrite (H3 a l0 u0 Ia Hba). apply (H3' a l0 u0 Ia). rewrite <- Hb. exact Hba.
  Qed.

  Lemma agree_updx k s v : agree k (upd s (x, []) v) s.
  Proof.
    split; [reflexivity|]. split.
    - intros l N1 N2. apply val_upd_other. intro E. apply N2. rewrite E. reflexivity.
    - intros a l0 u0 Ia _. apply val_upd_other. intro E. inversion E.
  Qed.

  (* the same store of element k of an assigned array on both sides *)
  Lemma agree_upd_col k s1 s2 a l0 v :
    agree k s1 s2 -> agree k (upd s1 (a, [l0 + k]) v) (upd s2 (a, [l0 + k]) v).
  Proof.
    intros [Hb [H2 H3]]. split; [exact Hb|]. split.
    - intros l N1 N2. rewrite !val_upd. destruct (loc_eq_dec l (a, [l0 + k])); [reflexivity|apply H2; assumption].
    - intros a' l1 u1 Ia Hba. rewrite !val_upd.
      destruct (loc_eq_dec (a', [l1 + k]) (a, [l0 + k])); [reflexivity|apply (H3 a' l1 u1 Ia Hba)].
  Qed.

  (* ---------------------------------------------------------------- locality of [weval] *)
  Lemma weval_agree k s1 s2 e :
    safe_e e = true -> agree k s1 s2 -> weval s1 n k e = weval s2 n k e.
  Proof.
    intros Hs [Hb [H2 H3]]. induction e as [e0|a|fx a lo hi st|o e1 IH|o l IHl r IHr|f e1 IH|f l IHl r IHr|rd e1 IH];
      cbn [safe_e weval] in *.
    - symmetry. apply eval_frame; [symmetry; exact Hb|]. intros l Hl. symmetry.
      apply ereads_names in Hl.
      rewrite forallb_forall in Hs. specialize (Hs _ Hl). apply andb_true_iff in Hs as [Ha Hc].
      apply H2; [apply notin_b_spec, Ha|]. apply negb_true_iff, Nat.eqb_neq in Hc. exact Hc.
    - rewrite <- Hb. destruct (bnd s1 a) as [|[l0 u0] [|? ?]] eqn:Eb; try reflexivity.
      f_equal. destruct (in_dec Nat.eq_dec a W) as [Ia|Na].
      + apply (H3 a l0 u0 Ia Eb).
      + apply H2; [exact Na|]. cbn [fst]. apply negb_true_iff, Nat.eqb_neq in Hs. exact Hs.
    - apply andb_true_iff in Hs as [Hs _]. apply andb_true_iff in Hs as [Ha Hx]. f_equal.
      apply H2; [apply notin_b_spec, Ha|]. cbn [fst]. apply negb_true_iff, Nat.eqb_neq in Hx. exact Hx.
    - rewrite (IH Hs). reflexivity.
    - apply andb_true_iff in Hs as [Hl Hr]. rewrite (IHl Hl), (IHr Hr). reflexivity.
    - apply andb_true_iff in Hs as [_ Hs]. rewrite (IH Hs).
      destruct (weval s2 n k e1); [|reflexivity]. symmetry. apply eval_intr_bnd. symmetry. exact Hb.
    - apply andb_true_iff in Hs as [Hs Hr]. apply andb_true_iff in Hs as [_ Hl].
      rewrite (IHl Hl), (IHr Hr).
      destruct (weval s2 n k l); [|reflexivity]. destruct (weval s2 n k r); [|reflexivity].
      symmetry. apply eval_intr_bnd. symmetry. exact Hb.
    - discriminate.
  Qed.

  (* ---------------------------------------------------------------- element-wise execution *)
  Fixpoint items_at (s : store) (k : Z) (items : list witem) : option store :=
    match items with
    | [] => Some s
    | WAssign a rhs :: r =>
        match bnd s a, weval s n k rhs with
        | [(l, _)], Some v => items_at (upd s (a, [l + k]) v) k r
        | _, _ => None
        end
    | WNest _ _ _ :: _ => None
    end.

  Fixpoint chain_at (s : store) (k : Z) (cls : list (option wexpr * list witem)) : option store :=
    match cls with
    | [] => Some s
    | (Some m, body) :: rest =>
        match weval s n k m with
        | Some v => if v =? 0 then chain_at s k rest else items_at s k body
        | None => None
        end
    | (None, body) :: _ => items_at s k body
    end.

  Lemma items_at_agree k : forall items s1 s2 u1,
    safe_items items = true -> agree k s1 s2 -> items_at s1 k items = Some u1 ->
    exists u2, items_at s2 k items = Some u2 /\ agree k u1 u2.
  Proof.
    induction items as [|it r IH]; intros s1 s2 u1 Hs Ha H.
    - cbn in H. inversion H; subst. exists s2. split; [reflexivity|exact Ha].
    - cbn [safe_items forallb] in Hs. apply andb_true_iff in Hs as [Hi Hr].
      destruct it as [a rhs|? ? ?]; [|discriminate].
      cbn [safe_item] in Hi. apply andb_true_iff in Hi as [_ He].
      cbn [items_at] in *. rewrite <- (weval_agree k s1 s2 rhs He Ha).
      destruct Ha as [Hb Ha']. rewrite <- Hb.
      destruct (bnd s1 a) as [|[l0 u0] [|? ?]] eqn:Eb; try discriminate.
      destruct (weval s1 n k rhs) as [v|]; [|discriminate].
      apply (IH _ _ _ Hr (agree_upd_col k s1 s2 a l0 v (conj Hb Ha')) H).
  Qed.

  Lemma chain_at_agree k : forall cls s1 s2 u1,
    safe_clauses cls = true -> agree k s1 s2 -> chain_at s1 k cls = Some u1 ->
    exists u2, chain_at s2 k cls = Some u2 /\ agree k u1 u2.
  Proof.
    induction cls as [|[[m|] body] rest IH]; intros s1 s2 u1 Hs Ha H.
    - cbn in H. inversion H; subst. exists s2. split; [reflexivity|exact Ha].
    - cbn [safe_clauses forallb] in Hs. apply andb_true_iff in Hs as [Hc Hr].
      unfold safe_clause in Hc. cbn [fst snd] in Hc. apply andb_true_iff in Hc as [Hm Hbd].
      cbn [chain_at] in *. rewrite <- (weval_agree k s1 s2 m Hm Ha).
      destruct (weval s1 n k m) as [v|]; [|discriminate].
      destruct (v =? 0); [apply (IH _ _ _ Hr Ha H)|apply (items_at_agree k _ _ _ _ Hbd Ha H)].
    - cbn [safe_clauses forallb] in Hs. apply andb_true_iff in Hs as [Hc _].
      unfold safe_clause in Hc. cbn [fst snd] in Hc.
      cbn [chain_at] in *. apply (items_at_agree k _ _ _ _ Hc Ha H).
  Qed.

  (* what element k may change: only element k of assigned arrays *)
  Definition col_cell (s : store) (k : Z) (c : loc) : Prop :=
    exists a l0 u0, In a W /\ bnd s a = [(l0, u0)] /\ c = (a, [l0 + k]).

  Lemma items_at_frame k : forall items s u,
    safe_items items = true -> items_at s k items = Some u ->
    bnd u = bnd s /\ forall c, ~ col_cell s k c -> val u c = val s c.
  Proof.
    induction items as [|it r IH]; intros s u Hs H.
    - cbn in H. inversion H; subst. auto.
    - cbn [safe_items forallb] in Hs. apply andb_true_iff in Hs as [Hi Hr].
      destruct it as [a rhs|? ? ?]; [|discriminate].
      cbn [safe_item] in Hi. apply andb_true_iff in Hi as [Ia _]. apply in_b_spec in Ia.
      cbn [items_at] in H.
      destruct (bnd s a) as [|[l0 u0] [|? ?]] eqn:Eb; try discriminate.
      destruct (weval s n k rhs) as [v|]; [|discriminate].
      destruct (IH _ _ Hr H) as [Hb Hv]. split; [exact Hb|].
      intros c Nc. rewrite Hv.
      + apply val_upd_other. intro E. apply Nc. exists a, l0, u0. auto.
      + intros [a' [l1 [u1 [Ia' [Eb' Ec]]]]]. apply Nc. exists a', l1, u1. auto.
  Qed.

  Lemma chain_at_frame k : forall cls s u,
    safe_clauses cls = true -> chain_at s k cls = Some u ->
    bnd u = bnd s /\ forall c, ~ col_cell s k c -> val u c = val s c.
  Proof.
    induction cls as [|[[m|] body] rest IH]; intros s u Hs H.
    - cbn in H. inversion H; subst. auto.
    - cbn [safe_clauses forallb] in Hs. apply andb_true_iff in Hs as [Hc Hr].
      unfold safe_clause in Hc. cbn [fst snd] in Hc. apply andb_true_iff in Hc as [_ Hbd].
      cbn [chain_at] in H. destruct (weval s n k m) as [v|]; [|discriminate].
      destruct (v =? 0); [apply (IH _ _ Hr H)|apply (items_at_frame k _ _ _ Hbd H)].
    - cbn [safe_clauses forallb] in Hs. apply andb_true_iff in Hs as [Hc _].
      unfold safe_clause in Hc. cbn [fst snd] in Hc. cbn [chain_at] in H.
      apply (items_at_frame k _ _ _ Hc H).
  Qed.

  (* ---------------------------------------------------------------- one masked assignment (a row) *)
  Section Row.
    Variables (ctrl : Z -> bool) (a : name) (l0 : Z) (rhs : wexpr) (s0 : store).
    Let F := fun (st : store) (k : Z) => if ctrl k then upd st (a, [l0 + k]) (oget (weval s0 n k rhs)) else st.

    Lemma row_bnd : forall K st, bnd (fold_left F K st) = bnd st.
    Proof.
      induction K as [|k K IH]; intro st; [reflexivity|]. cbn [fold_left]. rewrite IH.
      unfold F. destruct (ctrl k); reflexivity.
    Qed.

    Lemma row_other : forall K st c,
      (forall k, In k K -> ctrl k = true -> c <> (a, [l0 + k])) -> val (fold_left F K st) c = val st c.
    Proof.
      induction K as [|k K IH]; intros st c H; [reflexivity|]. cbn [fold_left]. rewrite IH.
      - unfold F. destruct (ctrl k) eqn:E; [|reflexivity]. apply val_upd_other. apply H; [left; reflexivity|exact E].
      - intros k' I. apply H. right. exact I.
    Qed.

    Lemma row_hit : forall K st k,
      In k K -> ctrl k = true -> val (fold_left F K st) (a, [l0 + k]) = oget (weval s0 n k rhs).
    Proof.
      induction K as [|k' K IH]; intros st k I C; [destruct I|]. cbn [fold_left].
      destruct (in_dec Z.eq_dec k K) as [I'|N'].
      - apply IH; assumption.
      - destruct I as [->|I]; [|contradiction].
        rewrite row_other.
        + unfold F. rewrite C. apply val_upd_same.
        + intros k2 I2 _ E. inversion E. assert (k2 = k) by lia. subst. contradiction.
    Qed.
  End Row.

  Lemma row_store_eq s ctrl a l0 rhs :
    row_store s n ctrl a l0 rhs =
    fold_left (fun st k => if ctrl k then upd st (a, [l0 + k]) (oget (weval s n k rhs)) else st) (zseq 0 n) s.
  Proof. reflexivity. Qed.

  Definition inK (k : Z) : Prop := In k (zseq 0 n).

  (* the effect of a row on element k *)
  Lemma row_agree k ctrl a l0 u0 rhs t u v :
    inK k -> In a W -> bnd t a = [(l0, u0)] -> agree k t u ->
    (ctrl k = true -> oget (weval t n k rhs) = v) ->
    agree k (row_store t n ctrl a l0 rhs) (if ctrl k then upd u (a, [l0 + k]) v else u).
  Proof.
    intros Ik Ia Eb [Hb [H2 H3]] Hv. rewrite row_store_eq.
    split; [rewrite row_bnd; destruct (ctrl k); exact Hb|]. split.
    - intros c N1 N2. rewrite row_other.
      + destruct (ctrl k); [|apply H2; assumption].
        rewrite val_upd_other; [apply H2; assumption|]. intro E. apply N1. rewrite E. exact Ia.
      + intros k' _ _ E. apply N1. rewrite E. exact Ia.
    - intros a' l1 u1 Ia' Eb'. rewrite row_bnd in Eb'.
      destruct (Nat.eq_dec a' a) as [->|Na].
      + rewrite Eb in Eb'. inversion Eb'; subst l1 u1.
        destruct (ctrl k) eqn:C.
        * rewrite row_hit by assumption. rewrite val_upd_same. apply Hv. reflexivity.
        * rewrite row_other; [apply (H3 a l0 u0 Ia Eb)|].
          intros k' _ C' E. inversion E. assert (k' = k) by lia. subst. congruence.
      + rewrite row_other.
        * destruct (ctrl k); [|apply (H3 a' l1 u1 Ia' Eb')].
          rewrite val_upd_other; [apply (H3 a' l1 u1 Ia' Eb')|]. intro E. inversion E. contradiction.
        * intros k' _ _ E. inversion E. contradiction.
  Qed.

  (* rows only change elements 0..n-1 of assigned arrays *)
  Definition any_col (s : store) (c : loc) : Prop := exists k, inK k /\ col_cell s k c.

  Lemma row_frame ctrl a l0 u0 rhs t :
    In a W -> bnd t a = [(l0, u0)] ->
    bnd (row_store t n ctrl a l0 rhs) = bnd t /\
    forall c, ~ any_col t c -> val (row_store t n ctrl a l0 rhs) c = val t c.
  Proof.
    intros Ia Eb. rewrite row_store_eq. split; [apply row_bnd|].
    intros c Nc. apply row_other. intros k Ik _ E. apply Nc. exists k. split; [exact Ik|].
    exists a, l0, u0. auto.
  Qed.

  (* ---------------------------------------------------------------- statement-major vs element k *)
  Lemma items_rows_col k ctrl : forall items t u t',
    inK k -> safe_items items = true -> agree k t u -> witems_rows t n ctrl items = Some t' ->
    (ctrl k = true -> exists u', items_at u k items = Some u' /\ agree k t' u') /\
    (ctrl k = false -> agree k t' u).
  Proof.
    intro items. induction items as [|it r IH]; intros t u t' Ik Hs Ha H.
    - cbn in H. inversion H; subst. split; [intros _; exists u; split; [reflexivity|exact Ha]|intros _; exact Ha].
    - cbn [safe_items forallb] in Hs. apply andb_true_iff in Hs as [Hi Hr].
      destruct it as [a rhs|? ? ?]; [|discriminate].
      cbn [safe_item] in Hi. apply andb_true_iff in Hi as [Ia He]. apply in_b_spec in Ia.
      cbn [witems_rows] in H. unfold wassign_row in H.
      destruct (bnd t a) as [|[l0 u0] [|? ?]] eqn:Eb; try discriminate.
      destruct (row_ok t n ctrl rhs) eqn:Erow; [|discriminate].
      pose proof (weval_agree k t u rhs He Ha) as Ew.
      assert (Ebu : bnd u a = [(l0, u0)]) by (destruct Ha as [Hb _]; rewrite <- Hb; exact Eb).
      destruct (ctrl k) eqn:C.
      + unfold row_ok in Erow. rewrite forallb_forall in Erow. specialize (Erow k Ik). rewrite C in Erow.
        destruct (weval t n k rhs) as [v|] eqn:Ev; [|discriminate].
        pose proof (row_agree k ctrl a l0 u0 rhs t u v Ik Ia Eb Ha) as Hra. rewrite C in Hra.
        assert (Hra' : agree k (row_store t n ctrl a l0 rhs) (upd u (a, [l0 + k]) v)).
        { apply Hra. intros _. rewrite Ev. reflexivity. }
        destruct (IH _ _ _ Ik Hr Hra' H) as [IH1 _]. split; [|discriminate].
        intros _. destruct (IH1 eq_refl) as [u' [Hu' Hag]]. exists u'. split; [|exact Hag].
        cbn [items_at]. rewrite Ebu, <- Ew. exact Hu'.
      + pose proof (row_agree k ctrl a l0 u0 rhs t u 0 Ik Ia Eb Ha) as Hra. rewrite C in Hra.
        assert (Hra' : agree k (row_store t n ctrl a l0 rhs) u) by (apply Hra; discriminate).
        destruct (IH _ _ _ Ik Hr Hra' H) as [_ IH2]. split; [discriminate|exact IH2].
  Qed.

  Lemma clauses_rows_col k : forall cls pend t u t',
    inK k -> safe_clauses cls = true -> agree k t u -> wclauses_rows t n pend cls = Some t' ->
    (pend k = true -> exists u', chain_at u k cls = Some u' /\ agree k t' u') /\
    (pend k = false -> agree k t' u).
  Proof.
    induction cls as [|[[m|] body] rest IH]; intros pend t u t' Ik Hs Ha H.
    - cbn in H. inversion H; subst. split; [intros _; exists u; split; [reflexivity|exact Ha]|intros _; exact Ha].
    - cbn [safe_clauses forallb] in Hs. apply andb_true_iff in Hs as [Hc Hr].
      unfold safe_clause in Hc. cbn [fst snd] in Hc. apply andb_true_iff in Hc as [Hm Hbd].
      cbn [wclauses_rows] in H.
      destruct (mask_ok t n pend m) eqn:Emk; [|discriminate].
      destruct (witems_rows t n (fun k0 => pend k0 && mask_fun t n m k0) body) as [t1|] eqn:Eit; [|discriminate].
      pose proof (items_rows_col k _ _ _ _ _ Ik Hbd Ha Eit) as [B1 B2]. cbn beta in B1, B2.
      pose proof (weval_agree k t u m Hm Ha) as Ew.
      destruct (pend k) eqn:P.
      + unfold mask_ok in Emk. rewrite forallb_forall in Emk. specialize (Emk k Ik). rewrite P in Emk.
        destruct (weval t n k m) as [v|] eqn:Ev; [|discriminate].
        assert (Emf : mask_fun t n m k = negb (v =? 0)) by (unfold mask_fun; rewrite Ev; reflexivity).
        split; [|discriminate]. intros _. cbn [chain_at]. rewrite <- Ew.
        destruct (v =? 0) eqn:Ez.
        * rewrite Emf in B2. cbn in B2. specialize (B2 eq_refl).
          destruct (IH _ _ _ _ Ik Hr B2 H) as [I1 _]. cbn beta in I1. rewrite P, Emf in I1.
          apply I1. reflexivity.
        * rewrite Emf in B1. cbn in B1. destruct (B1 eq_refl) as [u' [Hu' Hag]].
          destruct (IH _ _ _ _ Ik Hr Hag H) as [_ I2]. cbn beta in I2. rewrite P, Emf in I2.
          exists u'. split; [exact Hu'|apply I2; reflexivity].
      + split; [discriminate|]. intros _. cbn in B2. specialize (B2 eq_refl).
        destruct (IH _ _ _ _ Ik Hr B2 H) as [_ I2]. cbn beta in I2. rewrite P in I2. apply I2. reflexivity.
    - cbn [safe_clauses forallb] in Hs. apply andb_true_iff in Hs as [Hc Hr].
      unfold safe_clause in Hc. cbn [fst snd] in Hc.
      cbn [wclauses_rows] in H.
      destruct (witems_rows t n pend body) as [t1|] eqn:Eit; [|discriminate].
      pose proof (items_rows_col k _ _ _ _ _ Ik Hc Ha Eit) as [B1 B2].
      destruct (pend k) eqn:P.
      + split; [|discriminate]. intros _. destruct (B1 eq_refl) as [u' [Hu' Hag]].
        destruct (IH _ _ _ _ Ik Hr Hag H) as [_ I2]. exists u'. split; [exact Hu'|apply I2; reflexivity].
      + split; [discriminate|]. intros _. specialize (B2 eq_refl).
        destruct (IH _ _ _ _ Ik Hr B2 H) as [_ I2]. apply I2. reflexivity.
  Qed.

  Lemma any_col_bnd s1 s2 c : bnd s1 = bnd s2 -> any_col s1 c -> any_col s2 c.
  Proof.
    intros Hb [k [Ik [a [l0 [u0 [Ia [Eb Ec]]]]]]]. exists k. split; [exact Ik|].
    exists a, l0, u0. rewrite <- Hb. auto.
  Qed.

  Lemma items_rows_frame ctrl : forall items t t',
    safe_items items = true -> witems_rows t n ctrl items = Some t' ->
    bnd t' = bnd t /\ forall c, ~ any_col t c -> val t' c = val t c.
  Proof.
    induction items as [|it r IH]; intros t t' Hs H.
    - cbn in H. inversion H; subst. auto.
    - cbn [safe_items forallb] in Hs. apply andb_true_iff in Hs as [Hi Hr].
      destruct it as [a rhs|? ? ?]; [|discriminate].
      cbn [safe_item] in Hi. apply andb_true_iff in Hi as [Ia _]. apply in_b_spec in Ia.
      cbn [witems_rows] in H. unfold wassign_row in H.
      destruct (bnd t a) as [|[l0 u0] [|? ?]] eqn:Eb; try discriminate.
      destruct (row_ok t n ctrl rhs); [|discriminate].
      destruct (row_frame ctrl a l0 u0 rhs t Ia Eb) as [Rb Rv].
      destruct (IH _ _ Hr H) as [Hb Hv]. split; [congruence|].
      intros c Nc. rewrite Hv; [apply Rv, Nc|]. intro A. apply Nc. eapply any_col_bnd; [|exact A]. exact Rb.
  Qed.

  Lemma clauses_rows_frame : forall cls pend t t',
    safe_clauses cls = true -> wclauses_rows t n pend cls = Some t' ->
    bnd t' = bnd t /\ forall c, ~ any_col t c -> val t' c = val t c.
  Proof.
    induction cls as [|[[m|] body] rest IH]; intros pend t t' Hs H.
    - cbn in H. inversion H; subst. auto.
    - cbn [safe_clauses forallb] in Hs. apply andb_true_iff in Hs as [Hc Hr].
      unfold safe_clause in Hc. cbn [fst snd] in Hc. apply andb_true_iff in Hc as [_ Hbd].
      cbn [wclauses_rows] in H. destruct (mask_ok t n pend m); [|discriminate].
      destruct (witems_rows t n (fun k0 => pend k0 && mask_fun t n m k0) body) as [t1|] eqn:Eit; [|discriminate].
      destruct (items_rows_frame _ _ _ _ Hbd Eit) as [Rb Rv].
      destruct (IH _ _ _ Hr H) as [Hb Hv]. split; [congruence|].
      intros c Nc. rewrite Hv; [apply Rv, Nc|]. intro A. apply Nc. eapply any_col_bnd; [|exact A]. exact Rb.
    - cbn [safe_clauses forallb] in Hs. apply andb_true_iff in Hs as [Hc Hr].
      unfold safe_clause in Hc. cbn [fst snd] in Hc.
      cbn [wclauses_rows] in H.
      destruct (witems_rows t n pend body) as [t1|] eqn:Eit; [|discriminate].
      destruct (items_rows_frame _ _ _ _ Hc Eit) as [Rb Rv].
      destruct (IH _ _ _ Hr H) as [Hb Hv]. split; [congruence|].
      intros c Nc. rewrite Hv; [apply Rv, Nc|]. intro A. apply Nc. eapply any_col_bnd; [|exact A]. exact Rb.
  Qed.

  (* ---------------------------------------------------------------- element-major execution *)
  Variable cls : list (option wexpr * list witem).
  Hypothesis Hsafe : safe_clauses cls = true.

  (* elements k, k+1, ..., k+m-1 in turn; the loop variable holds 1 + k during element k *)
  Fixpoint pm (s : store) (k : Z) (m : nat) : option store :=
    match m with
    | O => Some s
    | S m' =>
        match chain_at (upd s (x, []) (1 + k * 1)) k cls with
        | Some s1 => pm s1 (k + 1) m'
        | None => None
        end
    end.

  Lemma col_cell_bnd s1 s2 k c : bnd s1 = bnd s2 -> col_cell s1 k c -> col_cell s2 k c.
  Proof. intros Hb [a [l0 [u0 [Ia [Eb Ec]]]]]. exists a, l0, u0. rewrite <- Hb. auto. Qed.

  Lemma pm_frame : forall m s k0 p,
    pm s k0 m = Some p ->
    bnd p = bnd s /\
    forall c, fst c <> x -> (forall k, k0 <= k < k0 + Z.of_nat m -> ~ col_cell s k c) -> val p c = val s c.
  Proof.
    induction m as [|m IH]; intros s k0 p H.
    - cbn in H. inversion H; subst. auto.
    - cbn [pm] in H. destruct (chain_at (upd s (x, []) (1 + k0 * 1)) k0 cls) as [s1|] eqn:Ec; [|discriminate].
      destruct (chain_at_frame k0 _ _ _ Hsafe Ec) as [Cb Cv]. rewrite bnd_upd in Cb.
      destruct (IH _ _ _ H) as [Pb Pv]. split; [congruence|].
      intros c Nx Nc. rewrite Pv.
      + rewrite Cv.
        * apply val_upd_other. intro E. apply Nx. rewrite E. reflexivity.
        * intro A. apply (Nc k0); [lia|]. eapply col_cell_bnd; [|exact A]. apply bnd_upd.
      + exact Nx.
      + intros k Hk A. apply (Nc k); [lia|]. eapply col_cell_bnd; [|exact A]. exact Cb.
  Qed.

  (* two different elements of the construct never share a cell *)
  Lemma col_cell_disjoint s k1 k2 c : k1 <> k2 -> col_cell s k1 c -> ~ col_cell s k2 c.
  Proof.
    intros N [a [l0 [u0 [Ia [Eb Ec]]]]] [a' [l1 [u1 [Ia' [Eb' Ec']]]]]. subst c.
    inversion Ec'; subst a'. rewrite Eb in Eb'. inversion Eb'; subst. lia.
  Qed.

  (* a store that differs from [s] only in the loop variable and in other elements agrees on k *)
  Lemma agree_from_frame k s s1 :
    bnd s1 = bnd s ->
    (forall c, fst c <> x -> ~ (exists k', k' <> k /\ col_cell s k' c) -> val s1 c = val s c) ->
    agree k s1 s.
  Proof.
    intros Hb Hv. split; [exact Hb|]. split.
    - intros c N1 N2. apply Hv; [exact N2|]. intros [k' [_ [a [l0 [u0 [Ia [_ Ec]]]]]]]. apply N1. rewrite Ec. exact Ia.
    - intros a l0 u0 Ia Eb. apply Hv.
      + cbn [fst]. intro E. subst. contradiction.
      + intros [k' [Nk A]]. revert A. apply col_cell_disjoint with (k1 := k); [congruence|].
        exists a, l0, u0. rewrite <- Hb. auto.
  Qed.

  Lemma pm_col : forall m s k0 p,
    pm s k0 m = Some p ->
    forall k, k0 <= k < k0 + Z.of_nat m ->
    exists u', chain_at s k cls = Some u' /\ agree k p u'.
  Proof.
    induction m as [|m IH]; intros s k0 p H k Hk; [cbn in Hk; lia|].
    cbn [pm] in H. destruct (chain_at (upd s (x, []) (1 + k0 * 1)) k0 cls) as [s1|] eqn:Ec; [|discriminate].
    destruct (chain_at_frame k0 _ _ _ Hsafe Ec) as [Cb Cv]. rewrite bnd_upd in Cb.
    destruct (Z.eq_dec k k0) as [->|Nk].
    - destruct (chain_at_agree k0 _ _ _ _ Hsafe (agree_updx k0 s _) Ec) as [u' [Hu' Hag]].
      exists u'. split; [exact Hu'|]. apply agree_trans with (s2 := s1); [|exact Hag].
      destruct (pm_frame _ _ _ _ H) as [Pb Pv].
      apply agree_from_frame; [exact Pb|]. intros c Nx Nc. apply Pv; [exact Nx|].
      intros k' Hk' A. apply Nc. exists k'. split; [lia|exact A].
    - destruct (IH _ _ _ H k ltac:(lia)) as [u1 [Hu1 Hag1]].
      assert (Ha1 : agree k s1 s).
      { apply agree_from_frame; [exact Cb|]. intros c Nx Nc. rewrite Cv.
        - apply val_upd_other. intro E. apply Nx. rewrite E. reflexivity.
        - intro A. apply Nc. exists k0. split; [congruence|]. eapply col_cell_bnd; [|exact A]. apply bnd_upd. }
      destruct (chain_at_agree k _ _ _ _ Hsafe Ha1 Hu1) as [u' [Hu' Hag']].
      exists u'. split; [exact Hu'|]. apply agree_trans with (s2 := u1); assumption.
  Qed.

  Lemma pm_exists : forall m s k0,
    (forall k, k0 <= k < k0 + Z.of_nat m -> exists u, chain_at s k cls = Some u) ->
    exists p, pm s k0 m = Some p.
  Proof.
    induction m as [|m IH]; intros s k0 H; [exists s; reflexivity|].
    cbn [pm]. destruct (H k0 ltac:(lia)) as [u Hu].
    destruct (chain_at_agree k0 _ _ _ _ Hsafe (agree_sym _ _ _ (agree_updx k0 s (1 + k0 * 1))) Hu) as [s1 [Hs1 _]].
    rewrite Hs1. apply IH. intros k Hk. destruct (H k ltac:(lia)) as [u2 Hu2].
    destruct (chain_at_frame k0 _ _ _ Hsafe Hs1) as [Cb Cv]. rewrite bnd_upd in Cb.
    assert (Ha1 : agree k s s1).
    { apply agree_sym. apply agree_from_frame; [exact Cb|]. intros c Nx Nc. rewrite Cv.
      - apply val_upd_other. intro E. apply Nx. rewrite E. reflexivity.
      - intro A. apply Nc. exists k0. split; [lia|]. eapply col_cell_bnd; [|exact A]. apply bnd_upd. }
    destruct (chain_at_agree k _ _ _ _ Hsafe Ha1 Hu2) as [u3 [Hu3 _]]. exists u3. exact Hu3.
  Qed.

  (* ---------------------------------------------------------------- the two orders agree *)
  Theorem rows_pm s t' :
    wclauses_rows s n (fun _ => true) cls = Some t' ->
    exists p, pm s 0 n = Some p /\ bnd p = bnd t' /\ forall c, fst c <> x -> val p c = val t' c.
  Proof.
    intro H.
    assert (Hcol : forall k, inK k -> exists u', chain_at s k cls = Some u' /\ agree k t' u').
    { intros k Ik. destruct (clauses_rows_col k cls _ s s t' Ik Hsafe (agree_refl k s) H) as [C1 _].
      apply C1. reflexivity. }
    assert (HinK : forall k, 0 <= k < 0 + Z.of_nat n -> inK k) by (intros k Hk; apply in_zseq; exact Hk).
    destruct (pm_exists n s 0) as [p Hp].
    { intros k Hk. destruct (Hcol k (HinK k Hk)) as [u' [Hu' _]]. exists u'. exact Hu'. }
    exists p. split; [exact Hp|].
    destruct (pm_frame _ _ _ _ Hp) as [Pb Pv].
    destruct (clauses_rows_frame _ _ _ _ Hsafe H) as [Rb Rv].
    split; [congruence|].
    intros c Nx.
    (* is c element k (0 <= k < n) of an assigned array? *)
    destruct c as [a ix]. cbn [fst] in Nx.
    assert (Hout : (forall k, 0 <= k < 0 + Z.of_nat n -> ~ col_cell s k (a, ix)) -> val p (a, ix) = val t' (a, ix)).
    { intro No. rewrite Pv; [|exact Nx|exact No]. symmetry. apply Rv.
      intros [k [Ik A]]. apply (No k); [apply in_zseq in Ik; exact Ik|exact A]. }
    destruct (in_dec Nat.eq_dec a W) as [Ia|Na].
    2:{ apply Hout. intros k _ [a' [l0 [u0 [Ia' [_ Ec]]]]]. inversion Ec; subst. contradiction. }
    destruct (bnd s a) as [|[l0 u0] [|? ?]] eqn:Eb.
    1,3: (apply Hout; intros k _ [a' [l1 [u1 [_ [Eb' Ec]]]]]; inversion Ec; subst a'; rewrite Eb in Eb'; discriminate).
    destruct ix as [|i [|? ?]].
    1,3: (apply Hout; intros k _ [a' [l1 [u1 [_ [_ Ec]]]]]; inversion Ec).
    destruct (Z_le_dec 0 (i - l0)) as [L1|L1]; [destruct (Z_lt_dec (i - l0) (Z.of_nat n)) as [L2|L2]|].
    - (* element k = i - l0 *)
      set (k := i - l0). assert (Hk : 0 <= k < 0 + Z.of_nat n) by (unfold k; lia).
      replace i with (l0 + k) by (unfold k; lia).
      destruct (Hcol k (HinK k Hk)) as [u' [Hu' [_ [_ Hag3]]]].
      destruct (pm_col _ _ _ _ Hp k Hk) as [u2 [Hu2 [_ [_ Hag3']]]].
      rewrite Hu' in Hu2. inversion Hu2; subst u2.
      rewrite (Hag3' a l0 u0 Ia) by (rewrite Pb; exact Eb).
      symmetry. apply (Hag3 a l0 u0 Ia). rewrite Rb. exact Eb.
    - apply Hout. intros k Hk [a' [l1 [u1 [_ [Eb' Ec]]]]]. inversion Ec; subst a'.
      rewrite Eb in Eb'. inversion Eb'; subst. lia.
    - apply Hout. intros k Hk [a' [l1 [u1 [_ [Eb' Ec]]]]]. inversion Ec; subst a'.
      rewrite Eb in Eb'. inversion Eb'; subst. lia.
  Qed.
End Where.
