(* C01 -- Model.v with the strided / explicit-section operand [WSec] of Model2.v (generated copy; used by the
   correspondence check Corr3.v so that WHERE constructs with such operands are compared with [lower] too).
   Reading and re-writing Fortran preserves behaviour.  Definitions only (no proofs):

   * source-level constructs the PSyclone reader (psyir/frontend/fparser2.py) lowers into other
     forms: SELECT CASE and 1-D WHERE / ELSEWHERE, as an extension of Fort.Syntax;
   * their source-level meaning by the Fortran rules (selector evaluated once, unique matching block;
     mask evaluated once, statement-by-statement masked assignment with the whole right-hand side
     evaluated before any element is stored), built on Fort.Sem;
   * the lowerings as functions, faithful to the code as it is today:
       lower_select  = _case_construct_handler / _process_case_value_list / _process_case_value
       lower_where   = _where_construct_handler / _array_syntax_to_indexed
       lower         = the whole reader on the nested source language (DO default step included). *)
From Coq Require Import List ZArith Bool Lia.
Import ListNotations.
From PV Require Import Fort.Syntax Fort.Sem Fort.Facts.   (* Facts: [zseq] only *)
Open Scope Z_scope.

(* ================================================================== SELECT CASE *)

(* one item of a case-value list *)
Inductive cval :=
| CVal (e : expr)                 (* CASE (e)      *)
| CFrom (lo : expr)               (* CASE (lo:)    *)
| CUpto (hi : expr)               (* CASE (:hi)    *)
| CBetween (lo hi : expr).        (* CASE (lo:hi)  *)

(* does the selector value [v] match the item?  [None]: a case value does not evaluate *)
Definition cval_match (s : store) (v : Z) (cv : cval) : option bool :=
  match cv with
  | CVal e => option_map (fun z => v =? z) (eval s e)
  | CFrom lo => option_map (fun l => v >=? l) (eval s lo)
  | CUpto hi => option_map (fun h => v <=? h) (eval s hi)
  | CBetween lo hi =>
      match eval s lo, eval s hi with
      | Some l, Some h => Some ((v >=? l) && (v <=? h))
      | _, _ => None
      end
  end.

Fixpoint clause_match (s : store) (v : Z) (cvs : list cval) : option bool :=
  match cvs with
  | [] => Some false
  | cv :: r =>
      match cval_match s v cv, clause_match s v r with
      | Some a, Some b => Some (a || b)
      | _, _ => None
      end
  end.

Section Select.
  Variable B : Type.                         (* bodies: source statements or MiniFortran statements *)

  (* all case values are evaluated (they are constant expressions); the block of the first clause
     with a matching item is chosen -- by the Fortran constraint that case values do not overlap it
     is the unique one (see [pick_unique] in SelectProofs.v) *)
  Fixpoint pick (s : store) (v : Z) (cls : list (list cval * B)) : option (option B) :=
    match cls with
    | [] => Some None
    | (cvs, body) :: rest =>
        match clause_match s v cvs, pick s v rest with
        | Some true, Some _ => Some (Some body)
        | Some false, Some r => Some r
        | _, _ => None
        end
    end.

  (* clauses in source order; [None] marks CASE DEFAULT (it may stand anywhere) *)
  Definition sclause := (option (list cval) * B)%type.

  Fixpoint nondefault (cls : list sclause) : list (list cval * B) :=
    match cls with
    | [] => []
    | (Some cvs, b) :: r => (cvs, b) :: nondefault r
    | (None, _) :: r => nondefault r
    end.

  (* the code keeps the position of the last CASE DEFAULT it meets *)
  Fixpoint default_of (cls : list sclause) : option B :=
    match cls with
    | [] => None
    | (None, b) :: r => match default_of r with Some b' => Some b' | None => Some b end
    | (Some _, _) :: r => default_of r
    end.

  (* source meaning: the selector is evaluated once; exactly one block (or none) is run *)
  Definition select_sem (run : B -> store -> outcome) (nil_body : B) (sel : expr) (cls : list sclause)
             (s : store) : outcome :=
    match eval s sel with
    | None => Fault
    | Some v =>
        match pick s v (nondefault cls) with
        | None => Fault
        | Some (Some body) => prepend (rds (ereads s sel)) (run body s)
        | Some None =>
            prepend (rds (ereads s sel))
                    (run (match default_of cls with Some b => b | None => nil_body end) s)
        end
    end.
End Select.
Arguments pick {B}. Arguments nondefault {B}. Arguments default_of {B}. Arguments select_sem {B}.

(* ---- the lowering: an IF chain; the condition of a clause is the right-nested .OR. of the tests of
   its items, each test repeating the selector expression *)
Definition case_cond (sel : expr) (cv : cval) : expr :=
  match cv with
  | CVal e => EBin Eq sel e                       (* == for numbers, .EQV. for logicals: both Eq here *)
  | CFrom lo => EBin Ge sel lo
  | CUpto hi => EBin Le sel hi
  | CBetween lo hi => EBin And (EBin Ge sel lo) (EBin Le sel hi)
  end.

Fixpoint clause_cond (sel : expr) (cvs : list cval) : expr :=
  match cvs with
  | [] => ELit 0                                   (* CASE () is not Fortran *)
  | [cv] => case_cond sel cv
  | cv :: r => EBin Or (case_cond sel cv) (clause_cond sel r)
  end.

Fixpoint if_chain (sel : expr) (cls : list (list cval * list stmt)) (dflt : list stmt) : list stmt :=
  match cls with
  | [] => dflt
  | (cvs, body) :: rest => [SIf (clause_cond sel cvs) body (if_chain sel rest dflt)]
  end.

(* CASE DEFAULT is moved last; with no other clause its body is emitted without any IF *)
Definition lower_select (sel : expr) (cls : list (sclause (list stmt))) : list stmt :=
  if_chain sel (nondefault cls) (match default_of cls with Some b => b | None => [] end).

(* ================================================================== WHERE (1-D) *)

Inductive red := RSum | RProduct | RMaxval | RMinval.

(* array-valued expression of a WHERE: every array operand is a full-range 1-D section a(:) *)
Inductive wexpr :=
| WScal (e : expr)                      (* scalar sub-expression: left alone by the lowering *)
| WArr (a : name)                       (* a(:) *)
| WSec (fx : bool) (a : name) (lo hi st : Z)   (* a(lo:hi:st), literal bounds and stride, read only *)
| WUn (o : unop) (e : wexpr)
| WBin (o : binop) (l r : wexpr)
| WIntr1 (f : intr) (e : wexpr)         (* elemental intrinsic *)
| WIntr2 (f : intr) (l r : wexpr)
| WRed (r : red) (e : wexpr).           (* SUM(e), MAXVAL(e), ... without dim= : a scalar *)

Inductive witem :=
| WAssign (a : name) (rhs : wexpr)                                  (* a(:) = rhs *)
| WNest (x : name) (mask : wexpr) (body : list (name * wexpr)).     (* nested WHERE (one level) *)

Record wconstruct := mkW {
  wx : name;                                          (* the loop variable the reader creates (widx1...) *)
  wmask : wexpr;
  wbody : list witem;
  wels : list (option wexpr * list witem)             (* ELSEWHERE (mask) / plain ELSEWHERE = None *)
}.

(* the first array section of an expression in pre-order: the reader sizes the loop from it *)
Fixpoint wfirst (e : wexpr) : option name :=
  match e with
  | WScal _ | WSec _ _ _ _ _ => None
  | WArr a => Some a
  | WUn _ e1 | WIntr1 _ e1 | WRed _ e1 => wfirst e1
  | WBin _ l r | WIntr2 _ l r => match wfirst l with Some a => Some a | None => wfirst r end
  end.

(* ---- source meaning *)
Definition red_apply (r : red) (vs : list Z) : Z :=
  match r with
  | RSum => fold_left Z.add vs 0
  | RProduct => fold_left Z.mul vs 1
  | RMaxval => fold_left Z.max vs (-2147483647)
  | RMinval => fold_left Z.min vs 2147483647
  end.

(* value at offset [k] (0-based, relative to each array's own lower bound); [n] = extent *)
Fixpoint weval (s : store) (n : nat) (k : Z) (e : wexpr) : option Z :=
  match e with
  | WScal e0 => eval s e0
  | WArr a => match bnd s a with [(l, _)] => Some (val s (a, [l + k])) | _ => None end
  | WSec _ a lo _ st => Some (val s (a, [lo + k * st]))
  | WUn o e1 => option_map (eval_un o) (weval s n k e1)
  | WBin o l r =>
      match weval s n k l, weval s n k r with Some a, Some b => eval_bin o a b | _, _ => None end
  | WIntr1 f e1 => match weval s n k e1 with Some a => eval_intr s f [] [a] | None => None end
  | WIntr2 f l r =>
      match weval s n k l, weval s n k r with Some a, Some b => eval_intr s f [] [a; b] | _, _ => None end
  | WRed r e1 =>
      match opt_all (map (fun j => weval s n j e1) (zseq 0 n)) with
      | Some vs => Some (red_apply r vs)
      | None => None
      end
  end.

Definition is_some {A} (o : option A) : bool := match o with Some _ => true | None => false end.
Definition oget (o : option Z) : Z := match o with Some v => v | None => 0 end.

(* the mask is evaluated (for the pending elements) in the store [s] of the moment the clause is
   entered, once; the resulting function is used for all the statements of the clause *)
Definition mask_ok (s : store) (n : nat) (pend : Z -> bool) (m : wexpr) : bool :=
  forallb (fun k => if pend k then is_some (weval s n k m) else true) (zseq 0 n).
Definition mask_fun (s : store) (n : nat) (m : wexpr) : Z -> bool :=
  fun k => negb (oget (weval s n k m) =? 0).

(* one masked assignment: all selected right-hand side elements are evaluated in the store [s] at
   the start of the statement, then stored *)
Definition row_ok (s : store) (n : nat) (ctrl : Z -> bool) (rhs : wexpr) : bool :=
  forallb (fun k => if ctrl k then is_some (weval s n k rhs) else true) (zseq 0 n).
Definition row_store (s : store) (n : nat) (ctrl : Z -> bool) (a : name) (l : Z) (rhs : wexpr) : store :=
  fold_left (fun st k => if ctrl k then upd st (a, [l + k]) (oget (weval s n k rhs)) else st) (zseq 0 n) s.

Definition wassign_row (s : store) (n : nat) (ctrl : Z -> bool) (a : name) (rhs : wexpr) : option store :=
  match bnd s a with
  | [(l, _)] => if row_ok s n ctrl rhs then Some (row_store s n ctrl a l rhs) else None
  | _ => None
  end.

Fixpoint wassigns_rows (s : store) (n : nat) (ctrl : Z -> bool) (l : list (name * wexpr)) : option store :=
  match l with
  | [] => Some s
  | (a, rhs) :: r => match wassign_row s n ctrl a rhs with Some s1 => wassigns_rows s1 n ctrl r | None => None end
  end.

Fixpoint witems_rows (s : store) (n : nat) (ctrl : Z -> bool) (items : list witem) : option store :=
  match items with
  | [] => Some s
  | WAssign a rhs :: r =>
      match wassign_row s n ctrl a rhs with Some s1 => witems_rows s1 n ctrl r | None => None end
  | WNest _ m body :: r =>
      (* nested WHERE: its mask is evaluated where the outer control mask holds; control = both *)
      if mask_ok s n ctrl m
      then match wassigns_rows s n (fun k => ctrl k && mask_fun s n m k) body with
           | Some s1 => witems_rows s1 n ctrl r
           | None => None
           end
      else None
  end.

Fixpoint wclauses_rows (s : store) (n : nat) (pend : Z -> bool)
         (cls : list (option wexpr * list witem)) : option store :=
  match cls with
  | [] => Some s
  | (Some m, body) :: rest =>
      if mask_ok s n pend m
      then let mv := mask_fun s n m in
           match witems_rows s n (fun k => pend k && mv k) body with
           | Some s1 => wclauses_rows s1 n (fun k => pend k && negb (mv k)) rest
           | None => None
           end
      else None
  | (None, body) :: rest =>
      match witems_rows s n pend body with
      | Some s1 => wclauses_rows s1 n (fun _ => false) rest
      | None => None
      end
  end.

Definition extent_of (s : store) (a : name) : option nat :=
  match bnd s a with [(l, u)] => Some (Z.to_nat (Z.max 0 (u - l + 1))) | _ => None end.

Definition wclauses (w : wconstruct) : list (option wexpr * list witem) :=
  (Some (wmask w), wbody w) :: wels w.

(* the shape of the construct is that of its mask *)
Definition where_sem (w : wconstruct) (s : store) : option store :=
  match wfirst (wmask w) with
  | Some a0 =>
      match extent_of s a0 with
      | Some n => wclauses_rows s n (fun _ => true) (wclauses w)
      | None => None
      end
  | None => None
  end.

(* ---- the lowering *)
(* idx = LBOUND(a, 1) + widx - 1 *)
Definition idx_of (a x : name) : expr :=
  EBin Sub (EBin Add (EIntr ILbound [EVar a; ELit 1]) (EVar x)) (ELit 1).

(* _array_syntax_to_indexed walks ALL array references that have a range -- also the argument of a
   reduction -- and replaces the range by the index expression *)
Fixpoint index_w (x : name) (e : wexpr) : wexpr :=
  match e with
  | WScal e0 => WScal e0
  | WArr a => WScal (EIdx a [idx_of a x])
  | WSec fx a lo _ st =>
      (* _array_syntax_to_indexed: a literal start 1 gives the loop variable itself, any other start gives
         start + widx - 1; since b189692 a stride other than the literal 1 gives start + (widx - 1) * stride *)
      WScal (EIdx a [if fx && negb (st =? 1)
                     then EBin Add (ELit lo) (EBin Mul (EBin Sub (EVar x) (ELit 1)) (ELit st))
                     else if lo =? 1 then EVar x
                     else EBin Sub (EBin Add (ELit lo) (EVar x)) (ELit 1)])
  | WUn o e1 => WUn o (index_w x e1)
  | WBin o l r => WBin o (index_w x l) (index_w x r)
  | WIntr1 f e1 => WIntr1 f (index_w x e1)
  | WIntr2 f l r => WIntr2 f (index_w x l) (index_w x r)
  | WRed r e1 => WRed r (index_w x e1)
  end.

(* rank of an array expression; [None]: ill-typed (a reduction applied to a scalar) *)
Fixpoint wrank (e : wexpr) : option nat :=
  match e with
  | WScal _ => Some O
  | WArr _ | WSec _ _ _ _ _ => Some 1%nat
  | WUn _ e1 | WIntr1 _ e1 => wrank e1
  | WBin _ l r | WIntr2 _ l r =>
      match wrank l, wrank r with Some a, Some b => Some (Nat.max a b) | _, _ => None end
  | WRed _ e1 => match wrank e1 with Some (S _) => Some O | _ => None end
  end.

(* a scalar, reduction-free expression as a MiniFortran expression *)
Fixpoint to_expr (e : wexpr) : option expr :=
  match e with
  | WScal e0 => Some e0
  | WArr _ | WSec _ _ _ _ _ => None
  | WUn o e1 => option_map (EUn o) (to_expr e1)
  | WBin o l r => match to_expr l, to_expr r with Some a, Some b => Some (EBin o a b) | _, _ => None end
  | WIntr1 f e1 => option_map (fun a => EIntr f [a]) (to_expr e1)
  | WIntr2 f l r => match to_expr l, to_expr r with Some a, Some b => Some (EIntr f [a; b]) | _, _ => None end
  | WRed _ _ => None
  end.

Definition lower_wexpr (x : name) (e : wexpr) : option expr := to_expr (index_w x e).

(* what the reader knows about the declaration of an array: [Some (lb, ub)] when the symbol has an
   ArrayType with literal bounds, [None] otherwise (unsupported declaration, assumed shape) *)
Definition decls := name -> option (Z * Z).

(* Today: the upper bound of the declaration is used as the trip count whatever the lower bound is
   (fparser2.py: `loop.addchild(mask_shape[idx-1].upper.copy())`).  Fixed: props/C01/fix.patch. *)
Inductive mode := Today | Fixed.

Definition ub_expr (md : mode) (dc : decls) (a0 : name) : expr :=
  match dc a0 with
  | None => EIntr ISize [EVar a0; ELit 1]
  | Some (lb, ub) =>
      match md with
      | Today => ELit ub
      | Fixed => if lb =? 1 then ELit ub else EBin Add (EBin Sub (ELit ub) (ELit lb)) (ELit 1)
      end
  end.

Fixpoint lower_assigns (x : name) (l : list (name * wexpr)) : option (list stmt) :=
  match l with
  | [] => Some []
  | (a, rhs) :: r =>
      match lower_wexpr x rhs, lower_assigns x r with
      | Some e, Some ss => Some (SAssign a [idx_of a x] e :: ss)
      | _, _ => None
      end
  end.

(* a nested WHERE is lowered on its own, to its own loop over all its elements *)
Definition lower_nest (md : mode) (dc : decls) (x' : name) (m : wexpr) (body : list (name * wexpr))
  : option stmt :=
  match wfirst m, lower_wexpr x' m, lower_assigns x' body with
  | Some a0, Some c, Some ss => Some (SDo x' (ELit 1) (ub_expr md dc a0) (ELit 1) [SIf c ss []])
  | _, _, _ => None
  end.

Fixpoint lower_items (md : mode) (dc : decls) (x : name) (items : list witem) : option (list stmt) :=
  match items with
  | [] => Some []
  | WAssign a rhs :: r =>
      match lower_wexpr x rhs, lower_items md dc x r with
      | Some e, Some ss => Some (SAssign a [idx_of a x] e :: ss)
      | _, _ => None
      end
  | WNest x' m body :: r =>
      match lower_nest md dc x' m body, lower_items md dc x r with
      | Some st, Some ss => Some (st :: ss)
      | _, _ => None
      end
  end.

(* mask -> IF, ELSEWHERE (mask) -> nested IF in the else branch, plain ELSEWHERE -> else branch *)
Fixpoint lower_chain (md : mode) (dc : decls) (x : name) (cls : list (option wexpr * list witem))
  : option (list stmt) :=
  match cls with
  | [] => Some []
  | (Some m, body) :: rest =>
      match lower_wexpr x m, lower_items md dc x body, lower_chain md dc x rest with
      | Some c, Some th, Some el => Some [SIf c th el]
      | _, _, _ => None
      end
  | (None, body) :: _ => lower_items md dc x body
  end.

Inductive lres :=
| Refused                      (* NotImplementedError in the reader: the construct stays a code block *)
| NotExpressible               (* the PSyIR built is not a MiniFortran program (e.g. SUM of a scalar) *)
| Lowered (ss : list stmt).

Definition lower_where (md : mode) (dc : decls) (w : wconstruct) : lres :=
  match wfirst (wmask w) with
  | None => Refused
  | Some a0 =>
      match lower_chain md dc (wx w) (wclauses w) with
      | Some body => Lowered [SDo (wx w) (ELit 1) (ub_expr md dc a0) (ELit 1) body]
      | None => NotExpressible
      end
  end.

(* ================================================================== the nested source language *)
Inductive sstmt :=
| TAssign (x : name) (ix : list expr) (e : expr)
| TIf (c : expr) (th el : list sstmt)
| TDo (x : name) (lo hi : expr) (st : option expr) (body : list sstmt)       (* step may be absent *)
| TExit | TCycle | TReturn
| TSelect (sel : expr) (cls : list (option (list cval) * list sstmt))
| TWhere (w : wconstruct).

Definition oapp {A} (a b : option (list A)) : option (list A) :=
  match a, b with Some x, Some y => Some (x ++ y) | _, _ => None end.

(* [None]: some WHERE is refused / not expressible *)
Fixpoint lower_stmt (md : mode) (dc : decls) (st : sstmt) : option (list stmt) :=
  let lw := fix lw (l : list sstmt) : option (list stmt) :=
              match l with [] => Some [] | x :: r => oapp (lower_stmt md dc x) (lw r) end in
  match st with
  | TAssign x ix e => Some [SAssign x ix e]
  | TIf c th el =>
      match lw th, lw el with Some a, Some b => Some [SIf c a b] | _, _ => None end
  | TDo x lo hi st0 body =>
      match lw body with
      | Some b => Some [SDo x lo hi (match st0 with Some e => e | None => ELit 1 end) b]
      | None => None
      end
  | TExit => Some [SExit]
  | TCycle => Some [SCycle]
  | TReturn => Some [SReturn]
  | TSelect sel cls =>
      let lc := fix lc (l : list (option (list cval) * list sstmt))
                  : option (list (option (list cval) * list stmt)) :=
                  match l with
                  | [] => Some []
                  | (o, b) :: r =>
                      match lw b, lc r with
                      | Some b', Some r' => Some ((o, b') :: r') | _, _ => None end
                  end in
      match lc cls with Some cls' => Some (lower_select sel cls') | None => None end
  | TWhere w =>
      match lower_where md dc w with Lowered ss => Some ss | _ => None end
  end.

Fixpoint lower (md : mode) (dc : decls) (p : list sstmt) : option (list stmt) :=
  match p with [] => Some [] | x :: r => oapp (lower_stmt md dc x) (lower md dc r) end.
