(* C01 -- WHERE with strided read-only sections (copy of WhereExec.v over Model2): the loop nest produced by the reader, executed by the MiniFortran semantics
   (Fort.Sem.exec), computes the element-major function [pm] of WhereLocal.v; with [rows_pm] this
   gives [lower_where_sound_partial_]. *)
From Coq Require Import List ZArith Bool Lia.
Import ListNotations.
From PV Require Import Fort.Syntax Fort.Sem Fort.Facts Fort.Facts3 C01.Model2 C01.WhereLocal2.
Open Scope Z_scope.

(* arrays assigned by the construct *)
Definition item_names (it : witem) : list name :=
  match it with WAssign a _ => [a] | WNest _ _ body => map fst body end.
Definition wassigned (w : wconstruct) : list name :=
  flat_map (fun cl => flat_map item_names (snd cl)) (wclauses w).

(* the sufficient condition of the theorem: no nested WHERE, no reduction, only elemental
   intrinsics; scalar sub-expressions mention neither an assigned array nor the loop variable; the
   loop variable is none of the arrays *)
Definition safe_where (w : wconstruct) : bool :=
  notin_b (wx w) (wassigned w) && safe_clauses (wassigned w) (wx w) (wclauses w).

(* what the reader knows about the mask array is true of the store, and the trip count it derives
   from the declaration is right: always for SIZE, for declared bounds only if the lower bound is 1
   (or with the repaired bound expression) *)
Definition dc_ok (md : mode) (dc : decls) (s : store) (a0 : name) : Prop :=
  match dc a0 with
  | None => True
  | Some (lb, ub) => bnd s a0 = [(lb, ub)] /\ (md = Fixed \/ lb = 1)
  end.

Lemma ub_eval md dc s a0 l u :
  bnd s a0 = [(l, u)] -> dc_ok md dc s a0 ->
  exists h, eval s (ub_expr md dc a0) = Some h /\ Z.to_nat (Z.max 0 h) = Z.to_nat (Z.max 0 (u - l + 1)).
Proof.
  intros Eb Hd. unfold dc_ok, ub_expr in *. destruct (dc a0) as [[lb ub]|].
  - destruct Hd as [Eb' Hm]. rewrite Eb in Eb'. inversion Eb'; subst lb ub.
    destruct md.
    + destruct Hm as [Hm|Hm]; [discriminate|]. subst l. exists u. split; [reflexivity|]. f_equal. lia.
    + destruct (l =? 1) eqn:E.
      * apply Z.eqb_eq in E. subst l. exists u. split; [reflexivity|]. f_equal. lia.
      * exists (u - l + 1). split; [reflexivity|reflexivity].
  - exists (Z.max 0 (u - l + 1)). split.
    + cbn. unfold dim_of. cbn. rewrite Eb. reflexivity.
    + f_equal. lia.
Qed.

Lemma eval_intr_args s f a1 a2 vs : is_inquiry f = false -> eval_intr s f a1 vs = eval_intr s f a2 vs.
Proof. destruct f; cbn; intro H; try discriminate; reflexivity. Qed.

Section Exec.
  Variable W : list name.
  Variable x : name.
  Variable n : nat.
  Variables (md : mode) (dc : decls).

  Lemma lbound_eval t a l u rest :
    bnd t a = (l, u) :: rest -> eval t (EIntr ILbound [EVar a; ELit 1]) = Some l.
  Proof. intro Eb. cbn. unfold dim_of. cbn. rewrite Eb. reflexivity. Qed.

  Lemma idx_eval t a l u rest k :
    bnd t a = (l, u) :: rest -> val t (x, []) = 1 + k * 1 -> eval t (idx_of a x) = Some (l + k).
  Proof.
    intros Eb Hx. unfold idx_of.
    change (eval t (EBin Sub (EBin Add (EIntr ILbound [EVar a; ELit 1]) (EVar x)) (ELit 1)))
      with (match (match eval t (EIntr ILbound [EVar a; ELit 1]), Some (val t (x, [])) with
                   | Some a0, Some b => eval_bin Add a0 b | _, _ => None end), Some 1 with
            | Some a0, Some b => eval_bin Sub a0 b | _, _ => None end).
    rewrite (lbound_eval t a l u rest Eb). cbn [eval_bin]. rewrite Hx. f_equal. lia.
  Qed.

  (* the indexed expression evaluates, with the loop variable at 1 + k, to element k *)
  Lemma low_eval t k : val t (x, []) = 1 + k * 1 -> forall e e' v,
    safe_e W x e = true -> to_expr (index_w x e) = Some e' -> weval t n k e = Some v -> eval t e' = Some v.
  Proof.
    intros Hx. induction e as [e0|a|fx a lo hi st|o e1 IH|o l IHl r IHr|f e1 IH|f l IHl r IHr|rd e1 IH];
      intros e' v Hs Ht Hw; cbn [safe_e index_w to_expr weval] in *.
    - inversion Ht; subst. exact Hw.
    - inversion Ht; subst. destruct (bnd t a) as [|[l0 u0] [|? ?]] eqn:Eb; try discriminate.
      inversion Hw; subst. cbn [eval map opt_all]. rewrite (idx_eval t a l0 u0 [] k Eb Hx). reflexivity.
    - (* strided section: the index expression evaluates to lo + k * st *)
      apply andb_true_iff in Hs as [_ Hfx]. inversion Ht; subst e'. inversion Hw; subst v.
      destruct (fx && negb (st =? 1)) eqn:Efx.
      + cbn [eval map opt_all eval_bin]. rewrite Hx.
        replace (lo + (1 + k * 1 - 1) * st) with (lo + k * st) by (replace (1 + k * 1 - 1) with k by lia; reflexivity).
        reflexivity.
      + assert (Est : st = 1).
        { destruct (st =? 1) eqn:E1; [apply Z.eqb_eq, E1|]. destruct fx; cbn in Efx, Hfx; discriminate. }
        subst st. destruct (lo =? 1) eqn:El.
        * apply Z.eqb_eq in El. subst lo. cbn [eval map opt_all]. rewrite Hx.
          replace (1 + k * 1) with (1 + k * 1) by reflexivity. reflexivity.
        * cbn [eval map opt_all eval_bin]. rewrite Hx.
          replace (lo + (1 + k * 1) - 1) with (lo + k * 1) by lia. reflexivity.
    - destruct (to_expr (index_w x e1)) as [e1'|]; [|discriminate]. inversion Ht; subst.
      destruct (weval t n k e1) as [v1|]; [|discriminate]. inversion Hw; subst.
      cbn [eval]. rewrite (IH _ _ Hs eq_refl eq_refl). reflexivity.
    - apply andb_true_iff in Hs as [Hl Hr].
      destruct (to_expr (index_w x l)) as [l'|]; [|discriminate].
      destruct (to_expr (index_w x r)) as [r'|]; [|discriminate]. inversion Ht; subst.
      destruct (weval t n k l) as [vl|]; [|discriminate].
      destruct (weval t n k r) as [vr|]; [|discriminate].
      cbn [eval]. rewrite (IHl _ _ Hl eq_refl eq_refl), (IHr _ _ Hr eq_refl eq_refl). exact Hw.
    - apply andb_true_iff in Hs as [Hf Hs]. apply negb_true_iff in Hf.
      destruct (to_expr (index_w x e1)) as [e1'|]; [|discriminate]. inversion Ht; subst.
      destruct (weval t n k e1) as [v1|]; [|discriminate].
      cbn [eval]. rewrite Hf. cbn [map opt_all]. rewrite (IH _ _ Hs eq_refl eq_refl).
      rewrite <- Hw. apply eval_intr_args. exact Hf.
    - apply andb_true_iff in Hs as [Hs Hr]. apply andb_true_iff in Hs as [Hf Hl]. apply negb_true_iff in Hf.
      destruct (to_expr (index_w x l)) as [l'|]; [|discriminate].
      destruct (to_expr (index_w x r)) as [r'|]; [|discriminate]. inversion Ht; subst.
      destruct (weval t n k l) as [vl|]; [|discriminate].
      destruct (weval t n k r) as [vr|]; [|discriminate].
      cbn [eval]. rewrite Hf. cbn [map opt_all].
      rewrite (IHl _ _ Hl eq_refl eq_refl), (IHr _ _ Hr eq_refl eq_refl).
      rewrite <- Hw. apply eval_intr_args. exact Hf.
    - discriminate.
  Qed.

  Lemma exec_items k : forall items ss t u,
    safe_items W x items = true -> lower_items md dc x items = Some ss ->
    val t (x, []) = 1 + k * 1 -> items_at n t k items = Some u ->
    exists f tr, exec f ss t = Ok u tr CNormal /\ outputs tr = [].
  Proof.
    induction items as [|it r IH]; intros ss t u Hs Hl Hx H.
    - cbn in Hl, H. inversion Hl; inversion H; subst. exists 1%nat, []. split; reflexivity.
    - cbn [safe_items forallb] in Hs. apply andb_true_iff in Hs as [Hi Hr].
      destruct it as [a rhs|? ? ?]; [|discriminate].
      cbn [safe_item] in Hi. apply andb_true_iff in Hi as [_ He].
      cbn [lower_items] in Hl. unfold lower_wexpr in Hl.
      destruct (to_expr (index_w x rhs)) as [e|] eqn:Ee; [|discriminate].
      destruct (lower_items md dc x r) as [ss'|] eqn:Er; [|discriminate]. inversion Hl; subst ss.
      cbn [items_at] in H.
      destruct (bnd t a) as [|[l0 u0] [|? ?]] eqn:Eb; try discriminate.
      destruct (weval t n k rhs) as [v|] eqn:Ev; [|discriminate].
      assert (Hx' : val (upd t (a, [l0 + k]) v) (x, []) = 1 + k * 1).
      { rewrite val_upd_other; [exact Hx|]. intro E. inversion E. }
      destruct (IH _ _ _ Hr eq_refl Hx' H) as [f2 [tr2 [E2 O2]]].
      pose proof (low_eval t k Hx rhs e v He Ee Ev) as Hev.
      assert (Hix : opt_all (map (eval t) [idx_of a x]) = Some [l0 + k]).
      { cbn [map opt_all]. rewrite (idx_eval t a l0 u0 [] k Eb Hx). reflexivity. }
      pose proof (exec_assign 0 a [idx_of a x] e t [l0 + k] v Hix Hev) as E1.
      exists (2 + f2)%nat. eexists. split.
      + apply (exec_cons_ok 2 f2 _ _ _ _ _ _ _ _ E1 E2).
      + rewrite outputs_app, O2, outputs_app, outputs_rds. reflexivity.
  Qed.

  Lemma exec_chain k : forall cls ss t u,
    safe_clauses W x cls = true -> lower_chain md dc x cls = Some ss ->
    val t (x, []) = 1 + k * 1 -> chain_at n t k cls = Some u ->
    exists f tr, exec f ss t = Ok u tr CNormal /\ outputs tr = [].
  Proof.
    induction cls as [|[[m|] body] rest IH]; intros ss t u Hs Hl Hx H.
    - cbn in Hl, H. inversion Hl; inversion H; subst. exists 1%nat, []. split; reflexivity.
    - cbn [safe_clauses forallb] in Hs. apply andb_true_iff in Hs as [Hc Hr].
      unfold safe_clause in Hc. cbn [fst snd] in Hc. apply andb_true_iff in Hc as [Hm Hbd].
      cbn [lower_chain] in Hl. unfold lower_wexpr in Hl.
      destruct (to_expr (index_w x m)) as [c|] eqn:Ec; [|discriminate].
      destruct (lower_items md dc x body) as [th|] eqn:Eth; [|discriminate].
      destruct (lower_chain md dc x rest) as [el|] eqn:Eel; [|discriminate]. inversion Hl; subst ss.
      cbn [chain_at] in H. destruct (weval t n k m) as [v|] eqn:Ev; [|discriminate].
      pose proof (low_eval t k Hx m c v Hm Ec Ev) as Hev.
      assert (Hbr : exists f0 tr0, exec f0 (if v =? 0 then el else th) t = Ok u tr0 CNormal /\ outputs tr0 = []).
      { destruct (v =? 0); [apply (IH _ _ _ Hr eq_refl Hx H)|apply (exec_items k _ _ _ _ Hbd Eth Hx H)]. }
      destruct Hbr as [f0 [tr0 [E0 O0]]].
      exists (S (S f0)). eexists. split.
      + rewrite (exec_if _ _ _ _ _ _ Hev). rewrite (exec_mono f0 (S f0) _ _ _ E0); [reflexivity|discriminate|lia].
      + rewrite outputs_app, outputs_rds, O0. reflexivity.
    - cbn [safe_clauses forallb] in Hs. apply andb_true_iff in Hs as [Hc _].
      unfold safe_clause in Hc. cbn [fst snd] in Hc.
      cbn [lower_chain] in Hl. cbn [chain_at] in H. apply (exec_items k _ _ _ _ Hc Hl Hx H).
  Qed.

  Variable cls : list (option wexpr * list witem).
  Hypothesis Hsafe : safe_clauses W x cls = true.
  Variable body : list stmt.
  Hypothesis Hlow : lower_chain md dc x cls = Some body.

  (* the DO loop over widx = 1 .. computes [pm] and leaves widx at its exit value *)
  Lemma exec_loop : forall m k s p,
    pm x n cls s k m = Some p ->
    exists f tr, do_loop (exec f body) x 1 1 m k s = Ok (upd p (x, []) (1 + (k + Z.of_nat m) * 1)) tr CNormal
                 /\ outputs tr = [].
  Proof.
    induction m as [|m IH]; intros k s p H.
    - cbn in H. inversion H; subst. exists 0%nat, [Wr (x, [])]. split; [|reflexivity].
      rewrite do_loop_0. cbn [Z.of_nat]. rewrite Z.add_0_r. reflexivity.
    - cbn [pm] in H.
      destruct (chain_at n (upd s (x, []) (1 + k * 1)) k cls) as [s1|] eqn:Ec; [|discriminate].
      destruct (exec_chain k _ _ _ _ Hsafe Hlow (val_upd_same s (x, []) (1 + k * 1)) Ec) as [f1 [tr1 [E1 O1]]].
      destruct (IH _ _ _ H) as [f2 [tr2 [E2 O2]]].
      exists (Nat.max f1 f2). eexists. split.
      + rewrite (do_loop_S_normal _ _ _ _ _ _ _ s1 tr1 CNormal).
        * rewrite (do_loop_mono_exec f2 (Nat.max f1 f2) _ _ _ _ _ _ _ _ E2); [|discriminate|lia].
          cbn [prepend]. replace (k + 1 + Z.of_nat m) with (k + Z.of_nat (S m)) by lia. reflexivity.
        * apply (exec_mono f1 _ _ _ _ E1); [discriminate|lia].
        * left; reflexivity.
      + rewrite outputs_app. cbn [outputs]. rewrite O1, O2. reflexivity.
  Qed.
End Exec.

(* ------------------------------------------------------------------------------------------
   lower_where_sound_partial.  FULL STATEMENT (false of the reader as it is, see Refuted.v):
     for every WHERE construct w the reader lowers, every store s and s' with where_sem w s = Some s',
     the lowered statements end in a store equal to s' except for the loop variable.
   PROVED under the sufficient condition
     - [safe_where w]: every array operand is a full-range section a(:) (built into the syntax:
       all of them are accessed at the same relative position lbound + k, whatever their lower bounds),
       no nested WHERE, no reduction, elemental intrinsics only, and no scalar sub-expression mentions
       an array assigned in the construct (an element read at a fixed position) or the loop variable;
     - [dc_ok]: the trip count the reader derives for the mask array is its extent (SIZE, or a declared
       upper bound with lower bound 1, or the repaired expression ub - lb + 1).
   No condition on the lower bounds or on the extents of the other arrays is needed: statement-by-
   statement masked assignment (Fortran) and the per-element interleaving (the loop) agree. *)
Theorem lower_where_sound_partial_ md dc w s s' ss :
  safe_where w = true ->
  (forall a0, wfirst (wmask w) = Some a0 -> dc_ok md dc s a0) ->
  where_sem w s = Some s' ->
  lower_where md dc w = Lowered ss ->
  exists f s'' tr,
    exec f ss s = Ok s'' tr CNormal /\ bnd s'' = bnd s' /\
    (forall c, fst c <> wx w -> val s'' c = val s' c) /\ outputs tr = [].
Proof.
  intros Hsafe Hdc Hsem Hlow. unfold safe_where in Hsafe. apply andb_true_iff in Hsafe as [Hx Hs].
  apply notin_b_spec in Hx.
  unfold where_sem in Hsem. unfold lower_where in Hlow.
  destruct (wfirst (wmask w)) as [a0|] eqn:Ef; [|discriminate].
  specialize (Hdc a0 eq_refl).
  unfold extent_of in Hsem. destruct (bnd s a0) as [|[l u] [|? ?]] eqn:Eb; try discriminate.
  destruct (lower_chain md dc (wx w) (wclauses w)) as [body|] eqn:Ech; [|discriminate].
  inversion Hlow; subst ss. clear Hlow.
  set (n := Z.to_nat (Z.max 0 (u - l + 1))) in *.
  destruct (rows_pm (wassigned w) (wx w) n Hx (wclauses w) Hs s s' Hsem) as [p [Hp [Pb Pv]]].
  destruct (exec_loop (wassigned w) (wx w) n md dc (wclauses w) Hs body Ech n 0 s p Hp) as [f [tr [El Ot]]].
  destruct (ub_eval md dc s a0 l u Eb Hdc) as [h [Eh Hn]].
  exists (S (S f)). eexists. eexists. split; [|split; [|split]].
  - rewrite (exec_do f (wx w) (ELit 1) (ub_expr md dc a0) (ELit 1) body s 1 h 1 eq_refl Eh eq_refl); [|lia].
    assert (Etc : trip_count 1 h 1 = n).
    { unfold trip_count. rewrite Z.quot_1_r. replace (h - 1 + 1) with h by lia. exact Hn. }
    rewrite Etc. rewrite (do_loop_mono_exec f (S f) _ _ _ _ _ _ _ _ El); [|discriminate|lia].
    cbn [prepend]. reflexivity.
  - rewrite bnd_upd. exact Pb.
  - intros c Nc. rewrite val_upd_other; [apply Pv, Nc|]. intro E. apply Nc. rewrite E. reflexivity.
  - rewrite outputs_app, outputs_rds, Ot. reflexivity.
Qed.

(* non-vacuity: arrays with three different lower bounds, an array assigned and read in the same
   construct, ELSEWHERE (mask) and plain ELSEWHERE; the mask array has an unsupported declaration
   (negative lower bound), so the loop runs to SIZE(a, 1) *)
Definition ex_a : name := 0%nat.  Definition ex_b : name := 1%nat.  Definition ex_c : name := 2%nat.
Definition ex_n : name := 3%nat.  Definition ex_x : name := 9%nat.
Definition ex_w : wconstruct :=
  mkW ex_x (WBin Gt (WArr ex_a) (WScal (ELit 0)))
      [WAssign ex_b (WBin Add (WArr ex_a) (WArr ex_c)); WAssign ex_a (WUn Neg (WArr ex_b))]
      [(Some (WBin Lt (WArr ex_a) (WScal (EUn Neg (ELit 1)))), [WAssign ex_b (WScal (ELit 0))]);
       (None, [WAssign ex_c (WIntr2 IMax (WArr ex_c) (WScal (EVar ex_n)))])].
Definition ex_s : store :=
  store_of [((ex_a, [-2]), 5); ((ex_a, [-1]), -3); ((ex_a, [0]), 0); ((ex_a, [1]), 2);
            ((ex_b, [1]), 7); ((ex_b, [2]), 7); ((ex_b, [3]), 7); ((ex_b, [4]), 7);
            ((ex_c, [3]), 1); ((ex_c, [4]), 1); ((ex_c, [5]), 1); ((ex_c, [6]), 1); ((ex_n, []), 4)]
           [(ex_a, [(-2, 1)]); (ex_b, [(1, 4)]); (ex_c, [(3, 6)])].

Definition zlist_eqb (a b : list Z) : bool :=
  (Nat.eqb (length a) (length b)) && forallb (fun p => fst p =? snd p) (combine a b).

(* source meaning and lowered run both computed: b = 6 0 7 3, a = -6 -3 0 -3, c = 1 1 4 1 *)
Definition ex_check : bool :=
  match where_sem ex_w ex_s, lower_where Today (fun _ => None) ex_w with
  | Some s', Lowered ss =>
      match exec 60 ss ex_s with
      | Ok s'' _ CNormal =>
          zlist_eqb (map (fun i => val s' (ex_b, [i])) [1; 2; 3; 4]) [6; 0; 7; 3] &&
          zlist_eqb (map (fun i => val s' (ex_a, [i])) [-2; -1; 0; 1]) [-6; -3; 0; -3] &&
          zlist_eqb (map (fun i => val s' (ex_c, [i])) [3; 4; 5; 6]) [1; 1; 4; 1] &&
          zlist_eqb (map (fun i => val s'' (ex_b, [i])) [1; 2; 3; 4]) [6; 0; 7; 3] &&
          zlist_eqb (map (fun i => val s'' (ex_a, [i])) [-2; -1; 0; 1]) [-6; -3; 0; -3] &&
          zlist_eqb (map (fun i => val s'' (ex_c, [i])) [3; 4; 5; 6]) [1; 1; 4; 1]
      | _ => false
      end
  | _, _ => false
  end.

Example where_example :
  safe_where ex_w = true /\
  (forall a0, wfirst (wmask ex_w) = Some a0 -> dc_ok Today (fun _ => None) ex_s a0) /\
  ex_check = true.
Proof. split; [vm_compute; reflexivity|]. split; [intros a0 _; exact I|vm_compute; reflexivity]. Qed.
