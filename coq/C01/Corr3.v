(* C01 -- (copy of Corr.v over Model3) executable check used by the correspondence run (props/C01/check.py): the tree the real
   reader built for a generated program (serialised by props/C01/psy2t.py) must be the result of
   [lower] -- with the trip count of the WHERE loops either as the reader computes it today or as
   repaired by props/C01/fix.patch. *)
From Coq Require Import List ZArith Bool.
Import ListNotations.
From PV Require Import Fort.Syntax Fort.Sem Base.Harness C01.Model3.
Open Scope Z_scope.

Definition binop_eqb (a b : binop) : bool :=
  match a, b with
  | Add, Add | Sub, Sub | Mul, Mul | Div, Div | Pow, Pow | Eq, Eq | Ne, Ne | Lt, Lt | Le, Le
  | Gt, Gt | Ge, Ge | And, And | Or, Or => true
  | _, _ => false
  end.
Definition unop_eqb (a b : unop) : bool :=
  match a, b with Neg, Neg | Not, Not => true | _, _ => false end.
Definition intr_eqb (a b : intr) : bool :=
  match a, b with
  | IMin, IMin | IMax, IMax | IMod, IMod | IAbs, IAbs | ISign, ISign | ILbound, ILbound
  | IUbound, IUbound | ISize, ISize => true
  | _, _ => false
  end.

Fixpoint expr_eqb (a b : expr) : bool :=
  match a, b with
  | ELit x, ELit y => x =? y
  | EVar x, EVar y => Nat.eqb x y
  | EIdx x ix, EIdx y iy =>
      Nat.eqb x y &&
      (fix go (l1 l2 : list expr) : bool :=
         match l1, l2 with
         | [], [] => true
         | u :: l1', v :: l2' => expr_eqb u v && go l1' l2'
         | _, _ => false
         end) ix iy
  | EUn o x, EUn p y => unop_eqb o p && expr_eqb x y
  | EBin o x1 x2, EBin p y1 y2 => binop_eqb o p && expr_eqb x1 y1 && expr_eqb x2 y2
  | EIntr f xs, EIntr g ys =>
      intr_eqb f g &&
      (fix go (l1 l2 : list expr) : bool :=
         match l1, l2 with
         | [], [] => true
         | u :: l1', v :: l2' => expr_eqb u v && go l1' l2'
         | _, _ => false
         end) xs ys
  | _, _ => false
  end.

Fixpoint stmt_eqb (a b : stmt) : bool :=
  let go := (fix go (l1 l2 : list stmt) : bool :=
               match l1, l2 with
               | [], [] => true
               | u :: l1', v :: l2' => stmt_eqb u v && go l1' l2'
               | _, _ => false
               end) in
  match a, b with
  | SAssign x ix e, SAssign y iy f => Nat.eqb x y && list_beq expr_eqb ix iy && expr_eqb e f
  | SIf c t e, SIf c' t' e' => expr_eqb c c' && go t t' && go e e'
  | SDo x lo hi st body, SDo x' lo' hi' st' body' =>
      Nat.eqb x x' && expr_eqb lo lo' && expr_eqb hi hi' && expr_eqb st st' && go body body'
  | SExit, SExit | SCycle, SCycle | SReturn, SReturn => true
  | SPrint es, SPrint es' => list_beq expr_eqb es es'
  | SRegion r body, SRegion r' body' => Nat.eqb r r' && go body body'
  | SDir d body, SDir d' body' => Nat.eqb d d' && go body body'
  | _, _ => false
  end.
Definition stmts_eqb (a b : list stmt) : bool := list_beq stmt_eqb a b.

Definition decls_of (d : list (name * (Z * Z))) : decls :=
  fun a => match find (fun q => Nat.eqb (fst q) a) d with Some q => Some (snd q) | None => None end.

(* declared literal bounds known to the reader, source program, tree built by the reader *)
Definition corr_case := (list (name * (Z * Z)) * list sstmt * list stmt)%type.

Definition lowers_to (md : mode) (c : corr_case) : bool :=
  match c with
  | (d, p, obs) => match lower md (decls_of d) p with Some l => stmts_eqb l obs | None => false end
  end.

Definition corr_check (c : corr_case) : bool := lowers_to Today c || lowers_to Fixed c.
