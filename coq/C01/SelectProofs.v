(* C01 -- SELECT CASE: the IF chain built by the reader runs exactly the block the Fortran rules
   select, for ALL selector expressions, clause lists (CASE DEFAULT anywhere) and stores. *)
From Coq Require Import List ZArith Bool Lia.
Import ListNotations.
From PV Require Import Fort.Syntax Fort.Sem Fort.Facts C01.Model.
Open Scope Z_scope.

(* the trace without its read events: the lowered code evaluates the selector once per test, so
   only the number of reads differs *)
Fixpoint noreads (tr : list event) : list event :=
  match tr with
  | [] => []
  | Rd _ :: r => noreads r
  | e :: r => e :: noreads r
  end.

Lemma noreads_app t1 t2 : noreads (t1 ++ t2) = noreads t1 ++ noreads t2.
Proof. induction t1 as [|e t1 IH]; [reflexivity|]. destruct e; cbn [noreads app]; rewrite ?IH; reflexivity. Qed.

Lemma noreads_rds ls : noreads (rds ls) = [].
Proof. unfold rds. induction ls as [|a ls IH]; [reflexivity|]. cbn [map noreads]. exact IH. Qed.

Lemma noreads_rds_app ls tr : noreads (rds ls ++ tr) = noreads tr.
Proof. rewrite noreads_app, noreads_rds. reflexivity. Qed.

Lemma noreads_outputs tr : outputs (noreads tr) = outputs tr.
Proof. induction tr as [|e tr IH]; [reflexivity|]. destruct e; cbn [noreads outputs]; rewrite ?IH; reflexivity. Qed.

Lemma noreads_writes tr : writes (noreads tr) = writes tr.
Proof. induction tr as [|e tr IH]; [reflexivity|]. destruct e; cbn [noreads writes]; rewrite ?IH; reflexivity. Qed.

Lemma noreads_regions tr : regions (noreads tr) = regions tr.
Proof. induction tr as [|e tr IH]; [reflexivity|]. destruct e; cbn [noreads regions]; rewrite ?IH; reflexivity. Qed.

Lemma b2z_and a b : b2z (negb (b2z a =? 0) && negb (b2z b =? 0)) = b2z (a && b).
Proof. destruct a, b; reflexivity. Qed.
Lemma b2z_or a b : b2z (negb (b2z a =? 0) || negb (b2z b =? 0)) = b2z (a || b).
Proof. destruct a, b; reflexivity. Qed.

(* the test built for one case-value item evaluates to the Fortran matching rule *)
Lemma case_cond_eval s sel v cv b :
  eval s sel = Some v -> cval_match s v cv = Some b -> eval s (case_cond sel cv) = Some (b2z b).
Proof.
  intros Hs Hm. destruct cv as [e|lo|hi|lo hi]; cbn [case_cond cval_match eval] in *; rewrite ?Hs.
  - destruct (eval s e) as [z|]; [|discriminate]. cbn [option_map] in Hm. inversion Hm; subst. reflexivity.
  - destruct (eval s lo) as [z|]; [|discriminate]. cbn [option_map] in Hm. inversion Hm; subst. reflexivity.
  - destruct (eval s hi) as [z|]; [|discriminate]. cbn [option_map] in Hm. inversion Hm; subst. reflexivity.
  - destruct (eval s lo) as [l|]; [|discriminate]. destruct (eval s hi) as [h|]; [|discriminate].
    inversion Hm; subst. cbn [eval_bin]. rewrite b2z_and. reflexivity.
Qed.

Lemma clause_cond_eval s sel v : forall cvs b,
  eval s sel = Some v -> clause_match s v cvs = Some b -> eval s (clause_cond sel cvs) = Some (b2z b).
Proof.
  induction cvs as [|cv r IH]; intros b Hs Hm.
  - cbn in Hm. inversion Hm; subst. reflexivity.
  - cbn [clause_match] in Hm.
    destruct (cval_match s v cv) as [a|] eqn:Ea; [|discriminate].
    destruct (clause_match s v r) as [b'|] eqn:Eb; [|discriminate].
    inversion Hm; subst.
    destruct r as [|c2 r'].
    + cbn in Eb. inversion Eb; subst. rewrite orb_false_r.
      cbn [clause_cond]. eapply case_cond_eval; eassumption.
    + change (clause_cond sel (cv :: c2 :: r')) with (EBin Or (case_cond sel cv) (clause_cond sel (c2 :: r'))).
      cbn [eval]. rewrite (case_cond_eval _ _ _ _ _ Hs Ea), (IH _ Hs eq_refl).
      cbn [eval_bin]. rewrite b2z_or. reflexivity.
Qed.

(* the chosen block is one of the clauses, and its case values match the selector *)
Lemma pick_in {B} s v (cls : list (list cval * B)) b :
  pick s v cls = Some (Some b) -> exists cvs, In (cvs, b) cls /\ clause_match s v cvs = Some true.
Proof.
  induction cls as [|[cvs body] rest IH]; intro H; [discriminate|].
  cbn [pick] in H. destruct (clause_match s v cvs) as [[|]|] eqn:E; try discriminate.
  - destruct (pick s v rest); [|discriminate]. inversion H; subst.
    exists cvs. split; [left; reflexivity|exact E].
  - destruct (pick s v rest) as [r|] eqn:Er; [|discriminate]. inversion H; subst.
    destruct (IH eq_refl) as [cvs' [Hin Hm]]. exists cvs'. split; [right; exact Hin|exact Hm].
Qed.

(* no block chosen: no clause matches *)
Lemma pick_none {B} s v (cls : list (list cval * B)) :
  pick s v cls = Some None -> forall cvs b, In (cvs, b) cls -> clause_match s v cvs = Some false.
Proof.
  induction cls as [|[cvs body] rest IH]; intros H cvs0 b0 Hin; [destruct Hin|].
  cbn [pick] in H. destruct (clause_match s v cvs) as [[|]|] eqn:E; try discriminate.
  - destruct (pick s v rest); discriminate.
  - destruct (pick s v rest) as [r|] eqn:Er; [|discriminate]. inversion H; subst.
    destruct Hin as [Hin|Hin]; [inversion Hin; subst; exact E | eapply IH; [reflexivity|exact Hin]].
Qed.

(* "unique matching block": when the case values do not overlap (Fortran constraint C811, expressed
   on the value at hand: at most one clause matches) the chosen block does not depend on the order in
   which the clauses are written *)
Lemma pick_unique {B} s v (cls : list (list cval * B)) b cvs' b' :
  pick s v cls = Some (Some b) ->
  (forall c1 b1 c2 b2, In (c1, b1) cls -> In (c2, b2) cls ->
                       clause_match s v c1 = Some true -> clause_match s v c2 = Some true -> b1 = b2) ->
  In (cvs', b') cls -> clause_match s v cvs' = Some true -> b' = b.
Proof.
  intros H U Hin Hm. destruct (pick_in _ _ _ _ H) as [cvs [Hin0 Hm0]].
  exact (U _ _ _ _ Hin Hin0 Hm Hm0).
Qed.

(* the IF chain runs the block chosen by [pick] (or the default block) *)
Lemma if_chain_exec sel dflt s v : forall cls f r s' tr c,
  eval s sel = Some v -> pick s v cls = Some r ->
  exec f (match r with Some b => b | None => dflt end) s = Ok s' tr c ->
  exists f' tr', exec f' (if_chain sel cls dflt) s = Ok s' tr' c /\ noreads tr' = noreads tr.
Proof.
  induction cls as [|[cvs body] rest IH]; intros f r s' tr c Hs Hp He.
  - cbn in Hp. inversion Hp; subst. exists f, tr. split; [exact He|reflexivity].
  - cbn [pick] in Hp. cbn [if_chain].
    destruct (clause_match s v cvs) as [b0|] eqn:Em; [|discriminate].
    destruct (pick s v rest) as [r0|] eqn:Er; [|destruct b0; discriminate].
    pose proof (clause_cond_eval _ _ _ _ _ Hs Em) as Hc.
    destruct b0.
    + inversion Hp; subst. exists (S (S f)), (rds (ereads s (clause_cond sel cvs)) ++ tr).
      split; [|apply noreads_rds_app].
      rewrite (exec_if _ _ _ _ _ _ Hc). cbn [b2z Z.eqb].
      rewrite (exec_mono f (S f) _ _ _ He); [reflexivity|discriminate|lia].
    + inversion Hp; subst.
      destruct (IH f r s' tr c Hs eq_refl He) as [f1 [tr1 [H1 H2]]].
      exists (S (S f1)), (rds (ereads s (clause_cond sel cvs)) ++ tr1).
      split; [|rewrite noreads_rds_app; exact H2].
      rewrite (exec_if _ _ _ _ _ _ Hc). cbn [b2z Z.eqb].
      rewrite (exec_mono f1 (S f1) _ _ _ H1); [reflexivity|discriminate|lia].
Qed.

(* ------------------------------------------------------------------------------------------
   lower_select_sound: for every selector expression, every list of clauses (value lists, ranges,
   open ranges, CASE DEFAULT in any position or absent) and every store: if the SELECT CASE
   construct, run by the Fortran rules, ends in store s' with control state c, then the IF chain
   produced by the reader ends in the same store with the same control state and the same trace of
   writes / outputs / region events (only the selector is read more often). *)
Theorem lower_select_sound_ f sel (cls : list (sclause (list stmt))) s s' tr c :
  select_sem (fun b st => exec f b st) [] sel cls s = Ok s' tr c ->
  exists f' tr', exec f' (lower_select sel cls) s = Ok s' tr' c /\ noreads tr' = noreads tr.
Proof.
  unfold select_sem, lower_select. intro H.
  destruct (eval s sel) as [v|] eqn:Es; [|discriminate].
  destruct (pick s v (nondefault cls)) as [r|] eqn:Ep; [|discriminate].
  set (dflt := match default_of cls with Some b => b | None => [] end) in *.
  assert (He : exists tr0, exec f (match r with Some b => b | None => dflt end) s = Ok s' tr0 c
                           /\ tr = rds (ereads s sel) ++ tr0).
  { destruct r as [b|]; apply prepend_ok_inv in H; exact H. }
  destruct He as [tr0 [He Ht]].
  destruct (if_chain_exec sel dflt s v _ _ _ _ _ _ Es Ep He) as [f' [tr' [H1 H2]]].
  exists f', tr'. split; [exact H1|]. rewrite H2, Ht, noreads_rds_app. reflexivity.
Qed.

(* the observable consequences *)
Corollary lower_select_obs f sel (cls : list (sclause (list stmt))) s s' tr c :
  select_sem (fun b st => exec f b st) [] sel cls s = Ok s' tr c ->
  exists f' tr', exec f' (lower_select sel cls) s = Ok s' tr' c /\
                 outputs tr' = outputs tr /\ writes tr' = writes tr /\ regions tr' = regions tr.
Proof.
  intro H. destruct (lower_select_sound_ _ _ _ _ _ _ _ H) as [f' [tr' [H1 H2]]].
  exists f', tr'. split; [exact H1|].
  rewrite <- (noreads_outputs tr'), <- (noreads_writes tr'), <- (noreads_regions tr'), H2.
  rewrite noreads_outputs, noreads_writes, noreads_regions. auto.
Qed.

(* non-vacuity: CASE DEFAULT written first, a value list with a range and an open range; selector
   n+1 with n = 3 picks the second clause; the lowered chain is the expected IF nest *)
Example select_example :
  let n := 0%nat in let m := 1%nat in
  let sel := EBin Add (EVar n) (ELit 1) in
  let cls : list (sclause (list stmt)) :=
      [ (None, [SAssign m [] (ELit 0)]);
        (Some [CVal (ELit 1); CBetween (ELit 3) (ELit 5); CUpto (EUn Neg (ELit 2))], [SAssign m [] (ELit 1)]);
        (Some [CFrom (ELit 7)], [SAssign m [] (ELit 2)]) ] in
  let s := store_of [((n, []), 3)] [] in
  lower_select sel cls =
    [SIf (EBin Or (EBin Eq sel (ELit 1))
                  (EBin Or (EBin And (EBin Ge sel (ELit 3)) (EBin Le sel (ELit 5)))
                           (EBin Le sel (EUn Neg (ELit 2)))))
         [SAssign m [] (ELit 1)]
         [SIf (EBin Ge sel (ELit 7)) [SAssign m [] (ELit 2)] [SAssign m [] (ELit 0)]]]
  /\ (exists s' tr, select_sem (fun b st => exec 10 b st) [] sel cls s = Ok s' tr CNormal /\ val s' (m, []) = 1)
  /\ (exists s' tr, exec 10 (lower_select sel cls) s = Ok s' tr CNormal /\ val s' (m, []) = 1).
Proof.
  cbv zeta. split; [reflexivity|]. split; eexists; eexists; (split; [vm_compute; reflexivity|reflexivity]).
Qed.
