(* C01 -- compositional soundness of the reader's lowering: [lower p] simulates the source program [p]
   (Compose.sexec), lifting lower_select_sound and lower_where_sound_partial through sequences, IF
   branches, DO bodies and SELECT CASE blocks.  Stores are compared up to the loop variables the reader
   creates for WHERE constructs (the set X of names no source statement mentions).
   Part 1 (this file): the relation [nsim] and the source WHERE semantics respects it. *)
From Coq Require Import List ZArith Bool Lia.
Import ListNotations.
From PV Require Import Fort.Syntax Fort.Sem Fort.Facts Fort.Facts3 C01.Model C01.WhereLocal C01.WhereExec.
Open Scope Z_scope.

(* ------------------------------------------------------------------ names of a WHERE construct *)
Fixpoint wenames (e : wexpr) : list name :=
  match e with
  | WScal e0 => enames e0
  | WArr a => [a]
  | WUn _ e1 | WIntr1 _ e1 | WRed _ e1 => wenames e1
  | WBin _ l r | WIntr2 _ l r => wenames l ++ wenames r
  end.
Definition item_wnames (it : witem) : list name :=
  match it with
  | WAssign a rhs => a :: wenames rhs
  | WNest x m body => x :: wenames m ++ flat_map (fun p => fst p :: wenames (snd p)) body
  end.
Definition clause_wnames (cl : option wexpr * list witem) : list name :=
  match fst cl with Some m => wenames m | None => [] end ++ flat_map item_wnames (snd cl).
Definition wnames_all (w : wconstruct) : list name := flat_map clause_wnames (wclauses w).

Lemma forallb_ext' {A} (f g : A -> bool) l : (forall x, f x = g x) -> forallb f l = forallb g l.
Proof. intro H. induction l as [|a l IH]; [reflexivity|]. cbn. rewrite H, IH. reflexivity. Qed.

Section NSim.
  Variable X : list name.

  (* equal except on the names in X *)
  Definition nsim (s t : store) : Prop :=
    bnd t = bnd s /\ forall l, ~ In (fst l) X -> val t l = val s l.

  Definition fresh (ns : list name) : Prop := forall y, In y ns -> ~ In y X.

  Lemma nsim_refl s : nsim s s.
  Proof. split; auto. Qed.

  Lemma nsim_upd s t l v : nsim s t -> nsim (upd s l v) (upd t l v).
  Proof.
    intros [Hb Hv]. split; [exact Hb|]. intros c Nc. rewrite !val_upd.
    destruct (loc_eq_dec c l); [reflexivity|apply Hv, Nc].
  Qed.

  Lemma eval_nsim s t e : fresh (enames e) -> nsim s t -> eval t e = eval s e.
  Proof.
    intros Hf [Hb Hv]. apply eval_frame; [exact Hb|]. intros l Hl. apply Hv, Hf.
    apply (ereads_names _ _ _ Hl).
  Qed.

  Lemma evals_nsim s t es : fresh (flat_map enames es) -> nsim s t -> map (eval t) es = map (eval s) es.
  Proof.
    intros Hf Hs. induction es as [|e r IH]; [reflexivity|]. cbn [map flat_map] in *.
    assert (F1 : fresh (enames e)) by (intros y Hy; apply Hf, in_or_app; left; exact Hy).
    assert (F2 : fresh (flat_map enames r)) by (intros y Hy; apply Hf, in_or_app; right; exact Hy).
    rewrite (eval_nsim s t e F1 Hs), (IH F2). reflexivity.
  Qed.

  Lemma weval_nsim s t n e : fresh (wenames e) -> nsim s t -> forall k, weval t n k e = weval s n k e.
  Proof.
    intros Hf Hs. induction e as [e0|a|o e1 IH|o l IHl r IHr|f e1 IH|f l IHl r IHr|rd e1 IH]; intro k;
      cbn [weval wenames] in *.
    - apply eval_nsim; assumption.
    - destruct Hs as [Hb Hv]. rewrite Hb. destruct (bnd s a) as [|[l0 u0] [|? ?]]; try reflexivity.
      f_equal. apply Hv. cbn [fst]. apply Hf. left. reflexivity.
    - rewrite (IH Hf). reflexivity.
    - rewrite IHl, IHr; [reflexivity| |]; intros y Hy; apply Hf, in_or_app; auto.
    - rewrite (IH Hf). destruct (weval s n k e1); [|reflexivity]. apply eval_intr_bnd. apply Hs.
    - rewrite IHl, IHr; [| |]; try (intros y Hy; apply Hf, in_or_app; auto).
      destruct (weval s n k l); [|reflexivity]. destruct (weval s n k r); [|reflexivity].
      apply eval_intr_bnd. apply Hs.
    - rewrite (map_ext _ _ (IH Hf)). reflexivity.
  Qed.

  Section Rows.
    Variables (W : list name) (x : name) (n : nat).

    Lemma row_nsim s t c c' a rhs s1 :
      fresh (wenames rhs) -> nsim s t -> (forall k, c' k = c k) ->
      wassign_row s n c a rhs = Some s1 -> exists t1, wassign_row t n c' a rhs = Some t1 /\ nsim s1 t1.
    Proof.
      intros Hf Hs Hc H. unfold wassign_row in *. destruct Hs as [Hb Hv]. rewrite Hb.
      destruct (bnd s a) as [|[l0 u0] [|? ?]]; try discriminate.
      assert (Ew : forall k, weval t n k rhs = weval s n k rhs) by (apply weval_nsim; [exact Hf|split; assumption]).
      assert (Eok : row_ok t n c' rhs = row_ok s n c rhs).
      { unfold row_ok. apply forallb_ext'. intro k. rewrite Hc, Ew. reflexivity. }
      rewrite Eok. destruct (row_ok s n c rhs); [|discriminate]. inversion H; subst s1.
      eexists. split; [reflexivity|]. unfold row_store.
      assert (G : forall K s0 t0, nsim s0 t0 ->
        nsim (fold_left (fun st k => if c k then upd st (a, [l0 + k]) (oget (weval s n k rhs)) else st) K s0)
             (fold_left (fun st k => if c' k then upd st (a, [l0 + k]) (oget (weval t n k rhs)) else st) K t0)).
      { induction K as [|k K IH]; intros s0 t0 H0; [exact H0|]. cbn [fold_left]. apply IH.
        rewrite Hc, Ew. destruct (c k); [apply nsim_upd, H0|exact H0]. }
      apply G. split; assumption.
    Qed.

    Lemma items_nsim c c' : forall items s t s1,
      safe_items W x items = true -> fresh (flat_map item_wnames items) -> nsim s t -> (forall k, c' k = c k) ->
      witems_rows s n c items = Some s1 -> exists t1, witems_rows t n c' items = Some t1 /\ nsim s1 t1.
    Proof.
      induction items as [|it r IH]; intros s t s1 Hsafe Hf Hs Hc H.
      - cbn in H. inversion H; subst. exists t. split; [reflexivity|exact Hs].
      - cbn [safe_items forallb] in Hsafe. apply andb_true_iff in Hsafe as [Hi Hr].
        destruct it as [a rhs|? ? ?]; [|discriminate].
        cbn [witems_rows] in *. cbn [flat_map item_wnames] in Hf.
        destruct (wassign_row s n c a rhs) as [s2|] eqn:E; [|discriminate].
        destruct (row_nsim s t c c' a rhs s2) as [t2 [Et Hs2]]; try assumption.
        { intros y Hy. apply Hf, in_or_app. left. right. exact Hy. }
        rewrite Et. apply (IH s2 t2 s1 Hr); [|exact Hs2|exact Hc|exact H].
        intros y Hy. apply Hf, in_or_app. right. exact Hy.
    Qed.

    Lemma clauses_nsim : forall cls p p' s t s1,
      safe_clauses W x cls = true -> fresh (flat_map clause_wnames cls) -> nsim s t -> (forall k, p' k = p k) ->
      wclauses_rows s n p cls = Some s1 -> exists t1, wclauses_rows t n p' cls = Some t1 /\ nsim s1 t1.
    Proof.
      induction cls as [|[[m|] body] rest IH]; intros p p' s t s1 Hsafe Hf Hs Hp H.
      - cbn in H. inversion H; subst. exists t. split; [reflexivity|exact Hs].
      - cbn [safe_clauses forallb] in Hsafe. apply andb_true_iff in Hsafe as [Hc Hr].
        unfold safe_clause in Hc. cbn [fst snd] in Hc. apply andb_true_iff in Hc as [_ Hbd].
        cbn [flat_map] in Hf. unfold clause_wnames at 1 in Hf. cbn [fst snd] in Hf.
        assert (Fm : fresh (wenames m)) by (intros y Hy; apply Hf, in_or_app; left; apply in_or_app; left; exact Hy).
        assert (Fb : fresh (flat_map item_wnames body)) by (intros y Hy; apply Hf, in_or_app; left; apply in_or_app; right; exact Hy).
        assert (Fr : fresh (flat_map clause_wnames rest)) by (intros y Hy; apply Hf, in_or_app; right; exact Hy).
        cbn [wclauses_rows] in *.
        assert (Ew : forall k, weval t n k m = weval s n k m) by (apply weval_nsim; assumption).
        assert (Emk : mask_ok t n p' m = mask_ok s n p m).
        { unfold mask_ok. apply forallb_ext'. intro k. rewrite Hp, Ew. reflexivity. }
        assert (Emf : forall k, mask_fun t n m k = mask_fun s n m k) by (intro k; unfold mask_fun; rewrite Ew; reflexivity).
        rewrite Emk. destruct (mask_ok s n p m); [|discriminate].
        destruct (witems_rows s n (fun k => p k && mask_fun s n m k) body) as [s2|] eqn:E; [|discriminate].
        destruct (items_nsim (fun k => p k && mask_fun s n m k) (fun k => p' k && mask_fun t n m k) body s t s2
                    Hbd Fb Hs (fun k => f_equal2 andb (Hp k) (Emf k)) E) as [t2 [Et Hs2]].
        rewrite Et.
        apply (IH (fun k => p k && negb (mask_fun s n m k)) (fun k => p' k && negb (mask_fun t n m k)) s2 t2 s1
                  Hr Fr Hs2); [|exact H].
        intro k. cbn beta. rewrite Hp, Emf. reflexivity.
      - cbn [safe_clauses forallb] in Hsafe. apply andb_true_iff in Hsafe as [Hc Hr].
        unfold safe_clause in Hc. cbn [fst snd] in Hc.
        cbn [flat_map] in Hf. unfold clause_wnames at 1 in Hf. cbn [fst snd app] in Hf.
        assert (Fb : fresh (flat_map item_wnames body)) by (intros y Hy; apply Hf, in_or_app; left; exact Hy).
        assert (Fr : fresh (flat_map clause_wnames rest)) by (intros y Hy; apply Hf, in_or_app; right; exact Hy).
        cbn [wclauses_rows] in *.
        destruct (witems_rows s n p body) as [s2|] eqn:E; [|discriminate].
        destruct (items_nsim p p' body s t s2 Hc Fb Hs Hp E) as [t2 [Et Hs2]].
        rewrite Et. apply (IH (fun _ => false) (fun _ => false) s2 t2 s1 Hr Fr Hs2); [|exact H]. intro k. reflexivity.
    Qed.
  End Rows.

  (* the source meaning of a WHERE construct does not depend on names it does not mention *)
  Lemma where_sem_nsim w s t s1 :
    safe_where w = true -> fresh (wnames_all w) -> nsim s t ->
    where_sem w s = Some s1 -> exists t1, where_sem w t = Some t1 /\ nsim s1 t1.
  Proof.
    intros Hsafe Hf Hs H. unfold safe_where in Hsafe. apply andb_true_iff in Hsafe as [_ Hsc].
    unfold where_sem in *. destruct (wfirst (wmask w)) as [a0|]; [|discriminate].
    unfold extent_of in *. destruct Hs as [Hb Hv]. rewrite Hb.
    destruct (bnd s a0) as [|[l u] [|? ?]]; try discriminate.
    exact (clauses_nsim (wassigned w) (wx w) _ (wclauses w) (fun _ => true) (fun _ => true) s t s1 Hsc Hf
             (conj Hb Hv) (fun _ => eq_refl) H).
  Qed.
End NSim.
