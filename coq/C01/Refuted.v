(* C01 -- the full WHERE statement is false of the reader as it is: three concrete witnesses,
   each replayed on the real implementation by props/C01/check.py (known findings). *)
From Coq Require Import List ZArith Bool Lia.
Import ListNotations.
From PV Require Import Fort.Syntax Fort.Sem Fort.Facts C01.Model C01.WhereLocal C01.WhereExec.
Open Scope Z_scope.

(* the source meaning and a terminating run of the lowered code differ at cell [c] *)
Definition differs (md : mode) (dc : decls) (w : wconstruct) (s : store) (c : loc) (fuel : nat) : bool :=
  match where_sem w s, lower_where md dc w with
  | Some s', Lowered ss =>
      match exec fuel ss s with Ok s'' _ _ => negb (val s'' c =? val s' c) | _ => false end
  | _, _ => false
  end.

(* ... then NO run of the lowered code (whatever the fuel) ends with the source value in [c] *)
Lemma differs_spec md dc w s c fuel :
  differs md dc w s c fuel = true ->
  exists s' ss, where_sem w s = Some s' /\ lower_where md dc w = Lowered ss /\
    ~ (exists f s'' tr ctl, exec f ss s = Ok s'' tr ctl /\ val s'' c = val s' c).
Proof.
  unfold differs. destruct (where_sem w s) as [s'|]; [|discriminate].
  destruct (lower_where md dc w) as [| |ss]; try discriminate.
  destruct (exec fuel ss s) as [s0 tr0 c0| |] eqn:E; try discriminate.
  intro H. apply negb_true_iff, Z.eqb_neq in H.
  exists s', ss. split; [reflexivity|]. split; [reflexivity|].
  intros [f [s'' [tr [ctl [E2 Hv]]]]].
  assert (E3 : Ok s0 tr0 c0 = Ok s'' tr ctl) by (eapply exec_det; [exact E|exact E2|discriminate|discriminate]).
  inversion E3; subst. contradiction.
Qed.

Definition nA : name := 0%nat.  Definition nB : name := 1%nat.  Definition nC : name := 2%nat.
Definition nN : name := 3%nat.  Definition nX : name := 9%nat.  Definition nX' : name := 8%nat.

(* ---- A: declared lower bound /= 1.   integer, dimension(0:4) :: c, b ;  WHERE (c(:) > 0) b(:) = 0
   The reader uses the declared upper bound 4 as trip count: b(4) is never assigned. *)
Definition wA : wconstruct := mkW nX (WBin Gt (WArr nC) (WScal (ELit 0))) [WAssign nB (WScal (ELit 0))] [].
Definition dcA : decls := fun a => match a with 1%nat | 2%nat => Some (0, 4) | _ => None end.
Definition sA : store :=
  store_of [((nC, [0]), 1); ((nC, [1]), 1); ((nC, [2]), 1); ((nC, [3]), 1); ((nC, [4]), 1);
            ((nB, [0]), 7); ((nB, [1]), 7); ((nB, [2]), 7); ((nB, [3]), 7); ((nB, [4]), 7)]
           [(nC, [(0, 4)]); (nB, [(0, 4)])].

Theorem refuted_upper_bound :
  safe_where wA = true /\
  (forall a lb ub, dcA a = Some (lb, ub) -> bnd sA a = [(lb, ub)]) /\
  fst (nB, [4]) <> wx wA /\
  (exists s' ss, where_sem wA sA = Some s' /\ lower_where Today dcA wA = Lowered ss /\
     ~ (exists f s'' tr ctl, exec f ss sA = Ok s'' tr ctl /\ val s'' (nB, [4]) = val s' (nB, [4]))) /\
  (* the repaired trip count ub - lb + 1 does not differ on this input *)
  differs Fixed dcA wA sA (nB, [4]) 100 = false.
Proof.
  split; [vm_compute; reflexivity|]. split.
  { intros a lb ub H. destruct a as [|[|[|a]]]; cbn in H; inversion H; subst; reflexivity. }
  split; [cbn; discriminate|]. split.
  - apply (differs_spec Today dcA wA sA (nB, [4]) 100). vm_compute. reflexivity.
  - vm_compute. reflexivity.
Qed.

(* ---- B: nested WHERE.  a = 1 0 0 0 0, b = 0 1 1 0 0, c = 0
     WHERE (a(:) > 0) ; WHERE (b(:) > 0) c(:) = 1 ; END WHERE        (Fortran: c unchanged)
   The inner WHERE becomes its own loop over all elements, run for every element with a > 0. *)
Definition wB : wconstruct :=
  mkW nX (WBin Gt (WArr nA) (WScal (ELit 0)))
      [WNest nX' (WBin Gt (WArr nB) (WScal (ELit 0))) [(nC, WScal (ELit 1))]] [].
Definition sB : store :=
  store_of [((nA, [1]), 1); ((nB, [2]), 1); ((nB, [3]), 1)]
           [(nA, [(1, 5)]); (nB, [(1, 5)]); (nC, [(1, 5)])].

Theorem refuted_nested :
  fst (nC, [2]) <> wx wB /\
  exists s' ss, where_sem wB sB = Some s' /\ lower_where Today (fun _ => None) wB = Lowered ss /\
    val s' (nC, [2]) = 0 /\
    ~ (exists f s'' tr ctl, exec f ss sB = Ok s'' tr ctl /\ val s'' (nC, [2]) = val s' (nC, [2])).
Proof.
  split; [cbn; discriminate|].
  assert (D : differs Today (fun _ => None) wB sB (nC, [2]) 200 = true) by (vm_compute; reflexivity).
  destruct (differs_spec _ _ _ _ _ _ D) as [s' [ss [H1 [H2 H3]]]].
  exists s', ss. split; [exact H1|]. split; [exact H2|]. split; [|exact H3].
  change (val s' (nC, [2])) with (match Some s' with Some t => val t (nC, [2]) | None => 1 end).
  rewrite <- H1. vm_compute. reflexivity.
Qed.

(* ---- C: reduction without dim= whose argument is written with (:).
     WHERE (b(:) > SUM(b(:)) / n) b(:) = 0
   is accepted (only reductions with dim= are refused), and the section INSIDE the reduction is
   indexed too: SUM(b(LBOUND(b,1) + widx1 - 1)) -- a reduction of a scalar: not Fortran. *)
Definition maskC : wexpr := WBin Gt (WArr nB) (WBin Div (WRed RSum (WArr nB)) (WScal (EVar nN))).
Definition wC : wconstruct := mkW nX maskC [WAssign nB (WScal (ELit 0))] [].
Definition sC : store :=
  store_of [((nB, [1]), 1); ((nB, [2]), 5); ((nB, [3]), 3); ((nN, []), 3)] [(nB, [(1, 3)])].

Theorem refuted_reduction :
  wrank maskC = Some 1%nat /\                         (* the source mask is a well-formed rank-1 expression *)
  (exists s', where_sem wC sC = Some s' /\ val s' (nB, [2]) = 0 /\ val s' (nB, [1]) = 1) /\
  lower_where Today (fun _ => None) wC <> Refused /\  (* the reader does not refuse it *)
  wrank (index_w nX maskC) = None /\                  (* what it builds is ill-formed *)
  lower_where Today (fun _ => None) wC = NotExpressible /\
  lower_where Fixed (fun _ => None) wC = NotExpressible.
Proof.
  split; [reflexivity|]. split.
  { destruct (where_sem wC sC) as [s'|] eqn:E; [|vm_compute in E; discriminate].
    exists s'. split; [reflexivity|]. split.
    - change (val s' (nB, [2])) with (match Some s' with Some t => val t (nB, [2]) | None => 1 end).
      rewrite <- E. vm_compute. reflexivity.
    - change (val s' (nB, [1])) with (match Some s' with Some t => val t (nB, [1]) | None => 0 end).
      rewrite <- E. vm_compute. reflexivity. }
  split; [vm_compute; discriminate|]. repeat split; vm_compute; reflexivity.
Qed.
