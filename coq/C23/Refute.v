(* C23 -- what is FALSE of the faithful model (concrete witnesses), the full theorem of part A for
   a has_inc_arg that covers INC and READINC with no shortcut, and the verdict for the parameters
   generated from the current source (C23/Gen.v). *)
From Coq Require Import List Bool Arith Lia Btauto.
Import ListNotations.
From PV Require Import C23.Model C23.Lemmas C23.ProofsA C23.ProofsB C23.Gen.

(* ------------------------------------------------------------------ generated schedules *)
Lemma nodir_list_inv : forall l, forallb nodir l = true ->
  forallb (invA false) l = true /\ forallb (invB false) l = true.
Proof.
  intros l. induction l as [|x l IHl]; cbn; intros Hn; [split; reflexivity|].
  apply andb_true_iff in Hn. destruct Hn as [Hn1 Hn2]. destruct (IHl Hn2) as [Ha Hb].
  rewrite Ha, Hb, !andb_true_r. clear IHl Ha Hb Hn2 l. revert Hn1.
  apply (node_ind2 (fun x => nodir x = true -> invA false x = true /\ invB false x = true)).
  - intros lt disc body IH Hn. cbn in *.
    assert (forallb (invA false) body = true /\ forallb (invB false) body = true) as [Ha Hb].
    { induction IH as [|y l Hy _ IHl]; cbn; [split; reflexivity|].
      cbn in Hn. apply andb_true_iff in Hn. destruct Hn as [Hn1 Hn2].
      destruct (Hy Hn1) as [Ha Hb]. destruct (IHl Hn2) as [Ha' Hb'].
      rewrite Ha, Hb, Ha', Hb'. split; reflexivity. }
    rewrite Ha, Hb. split; reflexivity.
  - split; reflexivity.
  - intros d body _ Hn. discriminate.
  - split; reflexivity.
  - split; reflexivity.
Qed.

(* ------------------------------------------------------------------ full theorem, part A *)
Lemma cov_weaken incs : covers_all incs = true ->
  forall n, cov [AInc; AReadInc] n = true -> cov incs n = true.
Proof.
  intros Hc. unfold covers_all in Hc. apply andb_true_iff in Hc. destruct Hc as [Hi Hr].
  apply (node_ind2 (fun n => cov [AInc; AReadInc] n = true -> cov incs n = true)).
  - intros lt disc body IH. cbn. intros H.
    induction IH as [|x l Hx _ IHl]; cbn in *; [reflexivity|].
    apply andb_true_iff in H. destruct H as [H1 H2]. rewrite (Hx H1), (IHl H2). reflexivity.
  - intros c r a. cbn. induction a as [|[ac co] a IHa]; cbn; [reflexivity|]. intros H.
    apply andb_true_iff in H. destruct H as [H1 H2]. rewrite (IHa H2), andb_true_r.
    unfold incrementing in *. cbn [fst snd] in *.
    destruct ac; cbn in *; try reflexivity; destruct c; cbn in *;
      try rewrite Hi; try rewrite Hr; try reflexivity; exact H1.
  - intros d body IH. cbn. intros H.
    induction IH as [|x l Hx _ IHl]; cbn in *; [reflexivity|].
    apply andb_true_iff in H. destruct H as [H1 H2]. rewrite (Hx H1), (IHl H2). reflexivity.
  - reflexivity.
  - reflexivity.
Qed.

Theorem invA_full : forall incs t0 h,
  covers_all incs = true -> no_builtin_incr t0 = true -> invA_t t0 = true ->
  hist_ok da_ok incs false h t0 = true -> invA_t (run incs false h t0) = true.
Proof.
  intros incs t0 h Hc Hb Ha Hh.
  apply (invA_all_histories incs false t0 h); try assumption.
  unfold premises. cbn. rewrite andb_true_r.
  unfold no_builtin_incr in Hb. clear Ha Hh.
  induction t0 as [|x t IH]; cbn in *; [reflexivity|].
  apply andb_true_iff in Hb. destruct Hb as [H1 H2].
  rewrite (cov_weaken incs Hc x H1), (IH H2). reflexivity.
Qed.

(* ------------------------------------------------------------------ refutations, part A *)
Definition one_kernel (disc : bool) (args : list karg) : tree :=
  [NLoop LCells disc [NKern true false args]].

(* has_inc_arg misses INC or READINC: Dynamo0p3OMPLoopTrans accepts the uncoloured loop *)
Theorem refuted_uncovered : forall incs sc, covers_all incs = false ->
  exists t0 h, forallb nodir t0 = true /\ no_builtin_incr t0 = true /\ forallb wf t0 = true /\
               hist_ok da_ok incs sc h t0 = true /\ invA_t (run incs sc h t0) = false.
Proof.
  intros incs sc Hc. unfold covers_all in Hc.
  destruct (mem_acc AInc incs) eqn:Ei.
  - cbn in Hc. exists (one_kernel false [(AReadInc, Cont)]), [OOmpDo [] 0].
    repeat split; try reflexivity.
    unfold run, step_total, step. cbn. rewrite Hc. reflexivity.
  - exists (one_kernel false [(AInc, Cont)]), [OOmpDo [] 0].
    repeat split; try reflexivity.
    unfold run, step_total, step. cbn. rewrite Ei. reflexivity.
Qed.

(* the shortcut on the loop's field space: an operator on (w3,w3) or the coarse field of an
   inter-grid kernel makes the loop "discontinuous" although the kernel increments a continuous
   field; DynamoOMPParallelLoopTrans accepts *)
Theorem refuted_shortcut : forall incs,
  exists t0 h, forallb nodir t0 = true /\ no_builtin_incr t0 = true /\
               hist_ok da_ok incs true h t0 = true /\ invA_t (run incs true h t0) = false.
Proof.
  intros incs. exists (one_kernel true [(AWrite, Disc); (AInc, Cont)]), [OOmpParDo [] 0].
  repeat split; reflexivity.
Qed.

(* ------------------------------------------------------------------ refutations, part B *)
Definition plain : tree := one_kernel false [].

Theorem refuted_colours_omp_region : forall incs sc,
  invB_t plain = true /\ forallb nodir plain = true /\
  invB_t (run incs sc [OColour [] 0; OOmpParallel [] 0 1] plain) = false.
Proof. intros; repeat split; reflexivity. Qed.

Theorem refuted_colours_acc_region : forall incs sc,
  invB_t plain = true /\ forallb nodir plain = true /\
  invB_t (run incs sc [OColour [] 0; OAccParallel [] 0 1] plain) = false.
Proof. intros; repeat split; reflexivity. Qed.

Theorem refuted_colour_below_acc_loop : forall incs sc,
  invB_t plain = true /\ forallb nodir plain = true /\
  invB_t (run incs sc [OAccLoop [] 0 DaFalse false false false false; OColour [0] 0] plain) = false.
Proof. intros; repeat split; reflexivity. Qed.

(* ------------------------------------------------------------------ verdict for the current source *)
Definition current_ok : bool := covers_all inc_accesses && negb disc_shortcut.

Theorem current_source_verdict :
  (current_ok = true /\
   forall t0 h, no_builtin_incr t0 = true -> invA_t t0 = true ->
                hist_ok da_ok inc_accesses disc_shortcut h t0 = true ->
                invA_t (run inc_accesses disc_shortcut h t0) = true)
  \/
  (current_ok = false /\
   exists t0 h, forallb nodir t0 = true /\ no_builtin_incr t0 = true /\
                hist_ok da_ok inc_accesses disc_shortcut h t0 = true /\
                invA_t (run inc_accesses disc_shortcut h t0) = false).
Proof.
  unfold current_ok.
  destruct (covers_all inc_accesses) eqn:Ec; destruct disc_shortcut eqn:Es; cbn.
  - right. split; [reflexivity|]. destruct (refuted_shortcut inc_accesses) as (t0 & h & H). eauto.
  - left. split; [reflexivity|]. intros t0 h. apply invA_full. exact Ec.
  - right. split; [reflexivity|].
    destruct (refuted_uncovered inc_accesses true Ec) as (t0 & h & H1 & H2 & _ & H4 & H5). eauto 8.
  - right. split; [reflexivity|].
    destruct (refuted_uncovered inc_accesses false Ec) as (t0 & h & H1 & H2 & _ & H4 & H5). eauto 8.
Qed.

(* ------------------------------------------------------------------ non-vacuity *)
Definition ex_tree : tree :=
  [NHalo; NLoop LCells false [NKern true false [(AInc, Cont); (ARead, Cont)]];
   NLoop LDof false [NKern false false [(AWrite, Unknown)]]].
Definition ex_hist : list op :=
  [OColour [] 1; OOmpDo [1] 0; OOmpParDo [] 2; OAccLoop [] 1 DaCaught false false false false].

Example nonvacuous_A :
  premises [AInc; AReadInc] false ex_tree = true /\ no_builtin_incr ex_tree = true /\
  invA_t ex_tree = true /\ hist_ok da_ok [AInc; AReadInc] false ex_hist ex_tree = true /\
  run [AInc; AReadInc] false ex_hist ex_tree =
    [NHalo;
     NLoop LColours false
       [NDir DOmpDo [NLoop LColour false [NKern true false [(AInc, Cont); (ARead, Cont)]]]];
     NDir DOmpParallelDo [NLoop LDof false [NKern false false [(AWrite, Unknown)]]]].
Proof. repeat split; reflexivity. Qed.

Example nonvacuous_B :
  invB_t ex_tree = true /\ hist_ok (safeB [AInc] true) [AInc] true ex_hist ex_tree = true /\
  run [AInc] true ex_hist ex_tree <> ex_tree.
Proof. repeat split; try reflexivity. discriminate. Qed.

(* options of ACCLoopTrans: `sequential` skips the colouring test, the directive produced is
   `acc loop seq` (DAccLoopSeq) whatever gang/vector say, and such a loop is not a parallel loop *)
Example seq_exempt :
  run [AInc; AReadInc] false [OAccLoop [] 1 DaFalse true true false false] ex_tree =
    [NHalo; NDir DAccLoopSeq [NLoop LCells false [NKern true false [(AInc, Cont); (ARead, Cont)]]];
     NLoop LDof false [NKern false false [(AWrite, Unknown)]]] /\
  invA_t (run [AInc; AReadInc] false [OAccLoop [] 1 DaFalse true true false false] ex_tree) = true /\
  invB_t (run [AInc; AReadInc] false
            [OColour [] 1; OAccLoop [] 1 DaFalse true false true true] ex_tree) = true /\
  step [AInc; AReadInc] false (OAccLoop [] 1 DaFalse false true false false) ex_tree = None.
Proof. repeat split; reflexivity. Qed.

Example covers_examples : covers_all [AInc; AReadInc] = true /\ covers_all [AInc] = false.
Proof. split; reflexivity. Qed.
