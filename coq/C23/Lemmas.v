(* C23 -- infrastructure: list facts, nested induction on nodes, and the two generic facts about
   the addressed update `upd`: it preserves "contains an incrementing kernel" and any
   context-passing invariant that the local edit preserves. *)
From Coq Require Import List Bool Arith Lia.
Import ListNotations.
From PV Require Import C23.Model.

(* ------------------------------------------------------------------ lists *)
Lemma nth_split_skip {A} : forall i (l : list A) x,
  nth_error l i = Some x -> l = firstn i l ++ x :: skipn 1 (skipn i l).
Proof.
  induction i as [|i IH]; intros l x H; destruct l as [|y l]; cbn in H; try discriminate.
  - inversion H; subst. reflexivity.
  - cbn [firstn skipn app]. f_equal. apply IH. exact H.
Qed.

Lemma range_split {A} : forall i n (l : list A),
  l = firstn i l ++ firstn n (skipn i l) ++ skipn n (skipn i l).
Proof.
  intros i n l. rewrite (firstn_skipn n (skipn i l)). symmetry. apply firstn_skipn.
Qed.

Lemma forallb_splice (f : node -> bool) : forall i n new (l : list node),
  forallb f l = true -> forallb f new = true -> forallb f (splice i n new l) = true.
Proof.
  intros i n new l Hl Hn. unfold splice.
  rewrite (range_split i n l) in Hl. rewrite !forallb_app in Hl.
  apply andb_true_iff in Hl. destruct Hl as [H1 H2]. apply andb_true_iff in H2. destruct H2 as [_ H3].
  rewrite !forallb_app, H1, Hn, H3. reflexivity.
Qed.

Lemma forallb_range {A} (f : A -> bool) : forall i n (l : list A),
  forallb f l = true -> forallb f (firstn n (skipn i l)) = true.
Proof.
  intros i n l Hl. rewrite (range_split i n l) in Hl. rewrite !forallb_app in Hl.
  apply andb_true_iff in Hl. destruct Hl as [_ H2]. apply andb_true_iff in H2. tauto.
Qed.

Lemma existsb_splice (f : node -> bool) : forall i n new (l : list node),
  existsb f new = existsb f (firstn n (skipn i l)) -> existsb f (splice i n new l) = existsb f l.
Proof.
  intros i n new l H. unfold splice. rewrite !existsb_app, H, <- !existsb_app.
  rewrite <- range_split. reflexivity.
Qed.

Lemma nth_range1 {A} : forall i (l : list A) x, nth_error l i = Some x -> firstn 1 (skipn i l) = [x].
Proof.
  induction i as [|i IH]; intros l x H; destruct l as [|y l]; cbn in H; try discriminate.
  - inversion H; subst. reflexivity.
  - cbn [skipn]. apply IH. exact H.
Qed.

Lemma forallb_nth f : forall i (l : list node) x,
  forallb f l = true -> nth_error l i = Some x -> f x = true.
Proof.
  intros i l x Hl Hn. apply (forallb_range f i 1) in Hl. rewrite (nth_range1 _ _ _ Hn) in Hl.
  cbn in Hl. rewrite andb_true_r in Hl. exact Hl.
Qed.

(* ------------------------------------------------------------------ nested induction on nodes *)
Section NodeInd.
  Variable P : node -> Prop.
  Hypothesis Hloop : forall lt disc body, Forall P body -> P (NLoop lt disc body).
  Hypothesis Hkern : forall c r a, P (NKern c r a).
  Hypothesis Hdir : forall d body, Forall P body -> P (NDir d body).
  Hypothesis Hhalo : P NHalo.
  Hypothesis Hother : P NOther.
  Fixpoint node_ind2 (n : node) : P n :=
    match n with
    | NLoop lt disc body =>
        Hloop lt disc body
          ((fix go (l : list node) : Forall P l :=
              match l with [] => Forall_nil P | x :: r => Forall_cons x (node_ind2 x) (go r) end) body)
    | NKern c r a => Hkern c r a
    | NDir d body =>
        Hdir d body
          ((fix go (l : list node) : Forall P l :=
              match l with [] => Forall_nil P | x :: r => Forall_cons x (node_ind2 x) (go r) end) body)
    | NHalo => Hhalo
    | NOther => Hother
    end.
End NodeInd.

Lemma forallb_ext_Forall (f g : node -> bool) : forall l,
  Forall (fun n => f n = g n) l -> forallb f l = forallb g l.
Proof. induction 1 as [|x l Hx _ IH]; cbn; [reflexivity| rewrite Hx, IH; reflexivity]. Qed.

Lemma existsb_ext_Forall (f g : node -> bool) : forall l,
  Forall (fun n => f n = g n) l -> existsb f l = existsb g l.
Proof. induction 1 as [|x l Hx _ IH]; cbn; [reflexivity| rewrite Hx, IH; reflexivity]. Qed.

(* ------------------------------------------------------------------ upd: pairing with a guard *)
Definition both (f g : list anc -> list node -> option (list node)) :=
  fun ancs m => match g ancs m with Some _ => f ancs m | None => None end.

Lemma upd_both f g : forall p ancs l l' l'',
  upd p f ancs l = Some l' -> upd p g ancs l = Some l'' -> upd p (both f g) ancs l = Some l'.
Proof.
  induction p as [|i p IH]; intros ancs l l' l'' Hf Hg; cbn in *.
  - unfold both. rewrite Hg. exact Hf.
  - destruct (nth_error l i) as [[lt disc body|? ? ?|d body| |]|]; try discriminate.
    + destruct (upd p f (ALoop lt :: ancs) body) eqn:E1; try discriminate.
      destruct (upd p g (ALoop lt :: ancs) body) eqn:E2; try discriminate.
      rewrite (IH _ _ _ _ E1 E2). exact Hf.
    + destruct (upd p f (ADir d :: ancs) body) eqn:E1; try discriminate.
      destruct (upd p g (ADir d :: ancs) body) eqn:E2; try discriminate.
      rewrite (IH _ _ _ _ E1 E2). exact Hf.
Qed.

(* ------------------------------------------------------------------ upd preserves has_incr *)
Lemma upd_has_incr f :
  (forall ancs m m', f ancs m = Some m' -> existsb has_incr m' = existsb has_incr m) ->
  forall p ancs l l', upd p f ancs l = Some l' -> existsb has_incr l' = existsb has_incr l.
Proof.
  intros Hf. induction p as [|i p IH]; intros ancs l l' H; cbn in H.
  - eapply Hf; eauto.
  - destruct (nth_error l i) as [[lt disc body|? ? ?|d body| |]|] eqn:En; try discriminate.
    + destruct (upd p f (ALoop lt :: ancs) body) as [b'|] eqn:E1; try discriminate.
      inversion H; subst. apply existsb_splice. rewrite (nth_range1 _ _ _ En). cbn.
      rewrite (IH _ _ _ E1). reflexivity.
    + destruct (upd p f (ADir d :: ancs) body) as [b'|] eqn:E1; try discriminate.
      inversion H; subst. apply existsb_splice. rewrite (nth_range1 _ _ _ En). cbn.
      rewrite (IH _ _ _ E1). reflexivity.
Qed.

(* ------------------------------------------------------------------ context-passing invariants *)
Section Scheme.
  (* local check at a loop: context, loop type, disc flag, "body contains an incrementing kernel" *)
  Variable chk : bool -> ltype -> bool -> bool -> bool.
  Variable kchk : node -> bool.
  Variable cl : bool -> ltype -> bool.
  Variable cd : bool -> dir -> bool.

  Fixpoint ginv (c : bool) (n : node) : bool :=
    match n with
    | NLoop lt disc body => chk c lt disc (existsb has_incr body) && forallb (ginv (cl c lt)) body
    | NDir d body => forallb (ginv (cd c d)) body
    | NKern _ _ _ => kchk n
    | _ => true
    end.

  Definition cstep (a : anc) (c : bool) : bool :=
    match a with ALoop lt => cl c lt | ADir d => cd c d end.
  Definition ctx (ancs : list anc) : bool := fold_right cstep false ancs.

  Lemma upd_ginv f :
    (forall ancs m m', f ancs m = Some m' -> existsb has_incr m' = existsb has_incr m) ->
    (forall ancs m m', f ancs m = Some m' -> forallb (ginv (ctx ancs)) m = true ->
                       forallb (ginv (ctx ancs)) m' = true) ->
    forall p ancs l l', upd p f ancs l = Some l' -> forallb (ginv (ctx ancs)) l = true ->
                        forallb (ginv (ctx ancs)) l' = true.
  Proof.
    intros Hi Hf. induction p as [|i p IH]; intros ancs l l' H Hl; cbn in H.
    - eapply Hf; eauto.
    - destruct (nth_error l i) as [[lt disc body|? ? ?|d body| |]|] eqn:En; try discriminate.
      + destruct (upd p f (ALoop lt :: ancs) body) as [b'|] eqn:E1; try discriminate.
        inversion H; subst. apply forallb_splice; [exact Hl|].
        pose proof (forallb_nth _ _ _ _ Hl En) as Hn. cbn in Hn. cbn.
        apply andb_true_iff in Hn. destruct Hn as [Hc Hb].
        rewrite (upd_has_incr f Hi _ _ _ _ E1), Hc. cbn.
        pose proof (IH (ALoop lt :: ancs) body b' E1) as IH1.
        change (ctx (ALoop lt :: ancs)) with (cl (ctx ancs) lt) in IH1.
        rewrite (IH1 Hb). reflexivity.
      + destruct (upd p f (ADir d :: ancs) body) as [b'|] eqn:E1; try discriminate.
        inversion H; subst. apply forallb_splice; [exact Hl|].
        pose proof (forallb_nth _ _ _ _ Hl En) as Hn. cbn in Hn. cbn.
        pose proof (IH (ADir d :: ancs) body b' E1) as IH1.
        change (ctx (ADir d :: ancs)) with (cd (ctx ancs) d) in IH1.
        rewrite (IH1 Hn). reflexivity.
  Qed.
End Scheme.
