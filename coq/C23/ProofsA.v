(* C23 part A: over all histories, a loop over cells that is the child of an OpenMP/OpenACC loop
   directive never contains an incrementing kernel -- under the premises `premises` on the
   initial schedule and `da_ok` on the dependency-analysis oracle. *)
From Coq Require Import List Bool Arith Lia Btauto.
Import ListNotations.
From PV Require Import C23.Model C23.Lemmas.

Section A.
  Variable incs : list acc.
  Variable sc : bool.

  Definition chkA (par : bool) (lt : ltype) (disc hi : bool) : bool :=
    negb (par && ltype_eqb lt LCells && hi) && (negb sc || negb (disc && hi)).
  Definition clA (_ : bool) (_ : ltype) : bool := false.
  Definition cdA (_ : bool) (d : dir) : bool := is_loop_dir d.
  Definition inv3 : bool -> node -> bool := ginv chkA (cov incs) clA cdA.

  Lemma forallb3 (f g h k : node -> bool) : forall l,
    Forall (fun n => f n = g n && h n && (negb sc || k n)) l ->
    forallb f l = forallb g l && forallb h l && (negb sc || forallb k l).
  Proof.
    induction 1 as [|x l Hx _ IH]; cbn.
    - destruct sc; reflexivity.
    - rewrite Hx, IH. btauto.
  Qed.

  Lemma inv3_split : forall n par,
    inv3 par n = invA par n && cov incs n && (negb sc || wf n).
  Proof.
    apply (node_ind2 (fun n => forall par, inv3 par n = invA par n && cov incs n && (negb sc || wf n))).
    - intros lt disc body IH par. cbn.
      rewrite (forallb3 (inv3 false) (invA false) (cov incs) wf).
      + unfold chkA. btauto.
      + eapply Forall_impl; [|exact IH]. intros a Ha. apply Ha.
    - intros c r a par. cbn. btauto.
    - intros d body IH par. cbn.
      rewrite (forallb3 (inv3 (is_loop_dir d)) (invA (is_loop_dir d)) (cov incs) wf).
      + reflexivity.
      + eapply Forall_impl; [|exact IH]. intros a Ha. apply Ha.
    - intros par. cbn. btauto.
    - intros par. cbn. btauto.
  Qed.

  Lemma inv3_tree : forall t,
    forallb (inv3 false) t = invA_t t && premises incs sc t.
  Proof.
    intros t. unfold invA_t, premises.
    rewrite (forallb3 (inv3 false) (invA false) (cov incs) wf).
    - btauto.
    - apply Forall_forall. intros n _. apply inv3_split.
  Qed.

  (* has_inc_arg finds every incrementing argument of a covered tree *)
  Lemma cov_args : forall coded (args : list karg),
    forallb (fun a => negb (incrementing a) || (coded && mem_acc (fst a) incs)) args = true ->
    coded && existsb (fun a => mem_acc (fst a) incs) args = false ->
    existsb incrementing args = false.
  Proof.
    intros coded args. induction args as [|a args IH]; cbn; intros Hc Hh; [reflexivity|].
    apply andb_true_iff in Hc. destruct Hc as [Ha Hc].
    destruct coded; cbn in *.
    - apply orb_false_iff in Hh. destruct Hh as [Hm Hh]. rewrite Hm in Ha.
      rewrite orb_false_r in Ha. apply negb_true_iff in Ha. rewrite Ha. cbn. apply IH; assumption.
    - rewrite orb_false_r in Ha. apply negb_true_iff in Ha. rewrite Ha. cbn. apply IH; [assumption|reflexivity].
  Qed.

  Lemma cov_list (l : list node) :
    Forall (fun n => cov incs n = true -> has_inc_arg incs n = false -> has_incr n = false) l ->
    forallb (cov incs) l = true -> existsb (has_inc_arg incs) l = false -> existsb has_incr l = false.
  Proof.
    induction 1 as [|x l Hx _ IH]; cbn; intros Hc Hh; [reflexivity|].
    apply andb_true_iff in Hc. destruct Hc as [Hc1 Hc2].
    apply orb_false_iff in Hh. destruct Hh as [Hh1 Hh2].
    rewrite (Hx Hc1 Hh1), (IH Hc2 Hh2). reflexivity.
  Qed.

  Lemma cov_has_inc : forall n,
    cov incs n = true -> has_inc_arg incs n = false -> has_incr n = false.
  Proof.
    apply (node_ind2 (fun n => cov incs n = true -> has_inc_arg incs n = false -> has_incr n = false)).
    - intros lt disc body IH. cbn. apply cov_list. exact IH.
    - intros c r a. cbn. apply cov_args.
    - intros d body IH. cbn. apply cov_list. exact IH.
    - reflexivity.
    - reflexivity.
  Qed.

  (* -------------------------------------------------------------- local edits keep has_incr *)
  Lemma colour_incr : forall i ancs m m',
    colour_f i ancs m = Some m' -> existsb has_incr m' = existsb has_incr m.
  Proof.
    intros i ancs m m' H. unfold colour_f in H.
    destruct (nth_error m i) as [[lt disc body|? ? ?|? ?| |]|] eqn:En; try discriminate.
    destruct (ltype_eqb lt LNull); try discriminate. destruct disc; try discriminate.
    destruct (negb (ltype_eqb lt LCells)); try discriminate.
    destruct (existsb anc_is_omp ancs); try discriminate.
    inversion H; subst. apply existsb_splice. rewrite (nth_range1 _ _ _ En). cbn.
    rewrite !orb_false_r. reflexivity.
  Qed.

  Lemma wrap_incr : forall d ok i ancs m m',
    wrap_loop_f d ok i ancs m = Some m' -> existsb has_incr m' = existsb has_incr m.
  Proof.
    intros d ok i ancs m m' H. unfold wrap_loop_f in H.
    destruct (nth_error m i) as [[lt disc body|? ? ?|? ?| |]|] eqn:En; try discriminate.
    destruct (ok lt disc (NLoop lt disc body)); try discriminate.
    inversion H; subst. apply existsb_splice. rewrite (nth_range1 _ _ _ En). cbn.
    rewrite !orb_false_r. reflexivity.
  Qed.

  Lemma region_shape : forall d i n ancs m m',
    region_f d i n ancs m = Some m' -> m' = splice i n [NDir d (firstn n (skipn i m))] m.
  Proof.
    intros d i n ancs m m' H. unfold region_f in H.
    destruct ((1 <=? n) && (i + n <=? length m)); try discriminate.
    destruct (existsb (contains is_halo) (firstn n (skipn i m))); try discriminate.
    destruct (is_omp d && existsb (contains is_acc_dir) (firstn n (skipn i m))); try discriminate.
    destruct (is_omp d && existsb anc_is_omp ancs); try discriminate.
    inversion H. reflexivity.
  Qed.

  Lemma region_incr : forall d i n ancs m m',
    region_f d i n ancs m = Some m' -> existsb has_incr m' = existsb has_incr m.
  Proof.
    intros d i n ancs m m' H. rewrite (region_shape _ _ _ _ _ _ H).
    apply existsb_splice. cbn. rewrite orb_false_r. reflexivity.
  Qed.

  Lemma both_incr f g :
    (forall ancs m m', f ancs m = Some m' -> existsb has_incr m' = existsb has_incr m) ->
    forall ancs m m', both f g ancs m = Some m' -> existsb has_incr m' = existsb has_incr m.
  Proof.
    intros Hf ancs m m' H. unfold both in H. destruct (g ancs m); try discriminate. eapply Hf; eauto.
  Qed.

  Lemma op_incr : forall o ancs m m',
    snd (op_fun incs sc o) ancs m = Some m' -> existsb has_incr m' = existsb has_incr m.
  Proof.
    intros o ancs m m' H. destruct o; cbn in H;
      eauto using colour_incr, wrap_incr, region_incr.
  Qed.

  (* -------------------------------------------------------------- local edits keep inv3 *)
  Lemma inv3_mono : forall c n, inv3 c n = true -> inv3 false n = true.
  Proof.
    intros c n H. destruct n as [lt disc body|? ? ?|d body| |]; cbn in *; try exact H.
    apply andb_true_iff in H. destruct H as [H1 H2]. unfold clA in *. rewrite H2.
    unfold chkA in *. apply andb_true_iff in H1. destruct H1 as [_ H1]. rewrite H1. reflexivity.
  Qed.

  Lemma inv3_mono_list : forall c l, forallb (inv3 c) l = true -> forallb (inv3 false) l = true.
  Proof.
    intros c l. induction l as [|x l IH]; cbn; intros H; [reflexivity|].
    apply andb_true_iff in H. destruct H as [H1 H2]. rewrite (inv3_mono _ _ H1), (IH H2). reflexivity.
  Qed.

  Lemma colour_inv3 : forall c i ancs m m',
    colour_f i ancs m = Some m' -> forallb (inv3 c) m = true -> forallb (inv3 c) m' = true.
  Proof.
    intros c i ancs m m' H Hm. unfold colour_f in H.
    destruct (nth_error m i) as [[lt disc body|? ? ?|? ?| |]|] eqn:En; try discriminate.
    destruct (ltype_eqb lt LNull); try discriminate. destruct disc; try discriminate.
    destruct (negb (ltype_eqb lt LCells)); try discriminate.
    destruct (existsb anc_is_omp ancs); try discriminate.
    inversion H; subst. apply forallb_splice; [exact Hm|].
    pose proof (forallb_nth _ _ _ _ Hm En) as Hn. cbn in Hn. cbn.
    apply andb_true_iff in Hn. destruct Hn as [_ Hb]. unfold clA in *. rewrite Hb.
    unfold chkA. cbn. rewrite !andb_false_r. cbn. destruct sc; reflexivity.
  Qed.

  Lemma wrap_inv3 : forall c d ok i ancs m m',
    wrap_loop_f d ok i ancs m = Some m' -> forallb (inv3 c) m = true ->
    (forall lt disc body, is_loop_dir d = true -> nth_error m i = Some (NLoop lt disc body) ->
        ok lt disc (NLoop lt disc body) = true -> cov incs (NLoop lt disc body) = true ->
        (negb sc || negb (disc && existsb has_incr body)) = true ->
        ltype_eqb lt LCells = true -> existsb has_incr body = false) ->
    forallb (inv3 c) m' = true.
  Proof.
    intros c d ok i ancs m m' H Hm Hok. unfold wrap_loop_f in H.
    destruct (nth_error m i) as [[lt disc body|? ? ?|? ?| |]|] eqn:En; try discriminate.
    destruct (ok lt disc (NLoop lt disc body)) eqn:Eok; try discriminate.
    inversion H; subst. apply forallb_splice; [exact Hm|].
    pose proof (forallb_nth _ _ _ _ Hm En) as Hn.
    pose proof Hn as Hs. rewrite inv3_split in Hs.
    apply andb_true_iff in Hs. destruct Hs as [Hs _]. apply andb_true_iff in Hs. destruct Hs as [_ Hcov].
    cbn in Hn. apply andb_true_iff in Hn. destruct Hn as [Hc Hb].
    unfold chkA in Hc. apply andb_true_iff in Hc. destruct Hc as [_ Hwf].
    cbn. unfold clA in *. rewrite Hb. unfold chkA, cdA. rewrite Hwf.
    destruct (is_loop_dir d) eqn:Ed; [|reflexivity].
    specialize (Hok lt disc body eq_refl eq_refl Eok Hcov Hwf).
    destruct (ltype_eqb lt LCells).
    - rewrite (Hok eq_refl). rewrite !andb_false_r. reflexivity.
    - rewrite !andb_false_r. reflexivity.
  Qed.

  Lemma region_inv3 : forall c d i n ancs m m',
    is_loop_dir d = false ->
    region_f d i n ancs m = Some m' -> forallb (inv3 c) m = true -> forallb (inv3 c) m' = true.
  Proof.
    intros c d i n ancs m m' Hd H Hm. rewrite (region_shape _ _ _ _ _ _ H).
    apply forallb_splice; [exact Hm|]. cbn. unfold cdA. rewrite Hd.
    rewrite (inv3_mono_list c); [reflexivity|]. apply forallb_range. exact Hm.
  Qed.

  (* the INC tests of the three loop transformations *)
  Lemma ompparloop_sound : forall lt disc body,
    ompparloop_ok incs sc lt disc (NLoop lt disc body) = true -> cov incs (NLoop lt disc body) = true ->
    (negb sc || negb (disc && existsb has_incr body)) = true ->
    ltype_eqb lt LCells = true -> existsb has_incr body = false.
  Proof.
    intros lt disc body Hok Hcov Hwf Hlt. unfold ompparloop_ok in Hok.
    destruct lt; try discriminate. cbn in Hok.
    rewrite !andb_true_r in Hok.
    apply andb_true_iff in Hok. destruct Hok as [Hok _].
    apply negb_true_iff in Hok.
    destruct (sc && disc) eqn:Esd.
    - apply andb_true_iff in Esd. destruct Esd as [E1 E2]. subst. cbn in Hwf.
      apply negb_true_iff in Hwf. exact Hwf.
    - cbn in Hok. apply (cov_has_inc (NLoop LCells disc body) Hcov). exact Hok.
  Qed.

  Lemma omploop_sound : forall lt disc body,
    omploop_ok incs lt (NLoop lt disc body) = true -> cov incs (NLoop lt disc body) = true ->
    ltype_eqb lt LCells = true -> existsb has_incr body = false.
  Proof.
    intros lt disc body Hok Hcov Hlt. unfold omploop_ok in Hok.
    destruct lt; try discriminate. cbn in Hok.
    apply andb_true_iff in Hok. destruct Hok as [_ Hok]. apply negb_true_iff in Hok.
    apply (cov_has_inc (NLoop LCells disc body) Hcov). exact Hok.
  Qed.

  Lemma accloop_sound : forall da col2 lt disc body,
    accloop_ok incs lt (NLoop lt disc body) da false col2 = true -> cov incs (NLoop lt disc body) = true ->
    (match da with DaTrue | DaCaught => existsb has_incr body = false | _ => True end) ->
    ltype_eqb lt LCells = true -> existsb has_incr body = false.
  Proof.
    intros da col2 lt disc body Hok Hcov Hda Hlt. unfold accloop_ok in Hok.
    destruct lt; try discriminate. cbn in Hok.
    apply andb_true_iff in Hok. destruct Hok as [_ Hok].
    destruct da; try exact Hda; try discriminate.
    cbn in Hok. apply negb_true_iff in Hok.
    apply (cov_has_inc (NLoop LCells disc body) Hcov). exact Hok.
  Qed.

  Lemma da_guard : forall da i ancs m x lt disc body,
    da_ok_f da i ancs m = Some x -> nth_error m i = Some (NLoop lt disc body) ->
    ltype_eqb lt LCells = true ->
    match da with DaTrue | DaCaught => existsb has_incr body = false | _ => True end.
  Proof.
    intros da i ancs m x lt disc body H En Hlt. unfold da_ok_f in H. rewrite En in H.
    destruct lt; try discriminate.
    destruct da; try exact I; destruct (existsb has_incr body); try discriminate; reflexivity.
  Qed.

  (* -------------------------------------------------------------- one step *)
  Lemma ctxA_nil : ctx clA cdA [] = false.
  Proof. reflexivity. Qed.

  Lemma stepA : forall o t t',
    step incs sc o t = Some t' -> da_ok o t = true ->
    forallb (inv3 false) t = true -> forallb (inv3 false) t' = true.
  Proof.
    intros o t t' Hs Hda Ht. unfold step in Hs.
    change false with (ctx clA cdA []) in *.
    destruct o as [p i|p i|p i|p i da sq gg vv c2|p i n|p i n]; cbn [op_fun fst snd] in Hs.
    - eapply (upd_ginv chkA (cov incs) clA cdA (colour_f i)); [| |exact Hs|exact Ht].
      + intros ancs m m' H. eapply colour_incr; eauto.
      + intros ancs m m' H Hm. eapply colour_inv3; eauto.
    - eapply (upd_ginv chkA (cov incs) clA cdA); [| |exact Hs|exact Ht].
      + intros ancs m m' H. eapply wrap_incr; eauto.
      + intros ancs m m' H Hm. eapply wrap_inv3; eauto.
        intros lt disc body _ _ Hok Hcov Hwf Hlt. eapply ompparloop_sound; eauto.
    - eapply (upd_ginv chkA (cov incs) clA cdA); [| |exact Hs|exact Ht].
      + intros ancs m m' H. eapply wrap_incr; eauto.
      + intros ancs m m' H Hm. eapply wrap_inv3; eauto.
        intros lt disc body _ _ Hok Hcov Hwf Hlt. cbn beta in Hok. eapply omploop_sound; eauto.
    - unfold da_ok in Hda.
      destruct (upd p (da_ok_f da i) [] t) as [x|] eqn:Eg; try discriminate.
      pose proof (upd_both _ _ _ _ _ _ _ Hs Eg) as Hb.
      eapply (upd_ginv chkA (cov incs) clA cdA); [| |exact Hb|exact Ht].
      + apply both_incr. intros ancs m m' H. eapply wrap_incr; eauto.
      + intros ancs m m' H Hm. unfold both in H.
        destruct (da_ok_f da i ancs m) as [y|] eqn:Ey; try discriminate.
        eapply wrap_inv3; eauto.
        intros lt disc body Ed En Hok Hcov Hwf Hlt. cbn beta in Hok.
        destruct sq; [discriminate Ed|].
        eapply accloop_sound; eauto. eapply da_guard; eauto.
    - eapply (upd_ginv chkA (cov incs) clA cdA); [| |exact Hs|exact Ht].
      + intros ancs m m' H. eapply region_incr; eauto.
      + intros ancs m m' H Hm. eapply region_inv3; [|exact H|exact Hm]; reflexivity.
    - eapply (upd_ginv chkA (cov incs) clA cdA); [| |exact Hs|exact Ht].
      + intros ancs m m' H. eapply region_incr; eauto.
      + intros ancs m m' H Hm. eapply region_inv3; [|exact H|exact Hm]; reflexivity.
  Qed.

  Lemma runA : forall h t,
    forallb (inv3 false) t = true -> hist_ok da_ok incs sc h t = true ->
    forallb (inv3 false) (run incs sc h t) = true.
  Proof.
    induction h as [|o h IH]; intros t Ht Hh; cbn in *; [exact Ht|].
    apply andb_true_iff in Hh. destruct Hh as [Hda Hh].
    apply IH; [|exact Hh]. unfold step_total.
    destruct (step incs sc o t) as [t'|] eqn:Es; [|exact Ht].
    eapply stepA; eauto.
  Qed.

  (* the theorem of part A, in terms of the definitions of Model.v only *)
  Theorem invA_all_histories : forall t0 h,
    premises incs sc t0 = true -> invA_t t0 = true -> hist_ok da_ok incs sc h t0 = true ->
    invA_t (run incs sc h t0) = true /\ premises incs sc (run incs sc h t0) = true.
  Proof.
    intros t0 h Hp Ha Hh.
    assert (forallb (inv3 false) (run incs sc h t0) = true) as H.
    { apply runA; [|exact Hh]. rewrite inv3_tree, Ha, Hp. reflexivity. }
    rewrite inv3_tree in H. apply andb_true_iff in H. exact H.
  Qed.
End A.
