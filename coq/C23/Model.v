(* C23 -- LFRic shared-DoF increments are only parallelised over colours.

   Faithful model (no proofs in this file) of the accept/refuse logic and of the tree edit of
     Dynamo0p3ColourTrans.apply            (src/psyclone/transformations.py)
     DynamoOMPParallelLoopTrans.validate   + OMPParallelLoopTrans.apply
     Dynamo0p3OMPLoopTrans.validate        + ParallelLoopTrans.apply
     ACCLoopTrans (= ParallelLoopTrans.validate without "force")
     OMPParallelTrans.validate / ACCParallelTrans.validate + ParallelRegionTrans.{validate,apply}
     LoopTrans.validate, RegionTrans.validate (the parts reachable on LFRic schedules)
     PSyLoop.has_inc_arg                   (domain/common/psylayer/psyloop.py)
     LFRicLoop.independent_iterations      (domain/lfric/lfric_loop.py)
   as the code is today.  Two facts of the source are PARAMETERS, produced by the translator
   props/C23/translate.py into C23/Gen.v from the current working tree:
     incs : list acc   -- the access types `has_inc_arg` tests for
     sc   : bool       -- whether DynamoOMPParallelLoopTrans.validate skips the INC test when the
                          loop's field_space is a discontinuous name ("shortcut").
   The outcome of the generic dependency analysis (DependencyTools.can_loop_be_parallelised) is
   an input carried by the ACCLoopTrans operation (recorded from the implementation). *)
From Coq Require Import List Bool Arith.
Import ListNotations.

Inductive ltype := LCells | LColours | LColour | LDof | LNull.
Inductive acc := ARead | AWrite | AReadWrite | AInc | AReadInc | ASum | AUnknown.
(* continuity of the function space of an argument: Unknown = any_space_n *)
Inductive cont := Cont | Disc | Unknown.
(* DAccLoopSeq = ACCLoopDirective carrying the `seq` clause: the loop below it is NOT parallel *)
Inductive dir := DOmpParallel | DOmpDo | DOmpParallelDo | DAccParallel | DAccLoop | DAccLoopSeq.
(* outcome of DependencyTools.can_loop_be_parallelised: returns True / returns False / raises
   InternalError or KeyError (caught by independent_iterations) / raises anything else *)
Inductive daout := DaTrue | DaFalse | DaCaught | DaOther.

Definition karg := (acc * cont)%type.

Inductive node :=
| NLoop (lt : ltype) (disc : bool) (body : list node)
    (* disc = loop.field_space.orig_name in VALID_DISCONTINUOUS_NAMES *)
| NKern (coded : bool) (reduction : bool) (args : list karg)
| NDir (d : dir) (body : list node)
| NHalo       (* HaloExchange *)
| NOther.     (* GlobalSum *)

Definition tree := list node.

(* ---------------------------------------------------------------- decidable equalities *)
Definition ltype_eqb (a b : ltype) : bool :=
  match a, b with
  | LCells, LCells | LColours, LColours | LColour, LColour | LDof, LDof | LNull, LNull => true
  | _, _ => false
  end.
Definition acc_eqb (a b : acc) : bool :=
  match a, b with
  | ARead, ARead | AWrite, AWrite | AReadWrite, AReadWrite | AInc, AInc
  | AReadInc, AReadInc | ASum, ASum | AUnknown, AUnknown => true
  | _, _ => false
  end.
Definition cont_eqb (a b : cont) : bool :=
  match a, b with
  | Cont, Cont | Disc, Disc | Unknown, Unknown => true
  | _, _ => false
  end.
Definition dir_eqb (a b : dir) : bool :=
  match a, b with
  | DOmpParallel, DOmpParallel | DOmpDo, DOmpDo | DOmpParallelDo, DOmpParallelDo
  | DAccParallel, DAccParallel | DAccLoop, DAccLoop | DAccLoopSeq, DAccLoopSeq => true
  | _, _ => false
  end.
Definition mem_acc (a : acc) (l : list acc) : bool := existsb (acc_eqb a) l.

Definition is_omp (d : dir) : bool :=
  match d with DOmpParallel | DOmpDo | DOmpParallelDo => true | _ => false end.
Definition is_acc (d : dir) : bool := negb (is_omp d).
(* directives that parallelise the loop that is their child *)
Definition is_loop_dir (d : dir) : bool :=
  match d with DOmpDo | DOmpParallelDo | DAccLoop => true | _ => false end.
(* every directive except `acc loop seq` makes what is below it parallel *)
Definition dir_parallel (d : dir) : bool := match d with DAccLoopSeq => false | _ => true end.

(* ---------------------------------------------------------------- what the PROPERTY talks about *)
(* "increments a field on a continuous or unknown function space (increment or
   read-then-increment access)" *)
Definition incrementing (a : karg) : bool :=
  (acc_eqb (fst a) AInc || acc_eqb (fst a) AReadInc) &&
  (cont_eqb (snd a) Cont || cont_eqb (snd a) Unknown).

Fixpoint has_incr (n : node) : bool :=
  match n with
  | NLoop _ _ body => existsb has_incr body
  | NKern _ _ args => existsb incrementing args
  | NDir _ body => existsb has_incr body
  | _ => false
  end.

(* ---------------------------------------------------------------- PSyLoop.has_inc_arg
   for kern_call in self.coded_kernels(): for arg in kern_call.arguments.args:
       if arg.access == <one of incs>: return True *)
Fixpoint has_inc_arg (incs : list acc) (n : node) : bool :=
  match n with
  | NLoop _ _ body => existsb (has_inc_arg incs) body
  | NKern coded _ args => coded && existsb (fun a => mem_acc (fst a) incs) args
  | NDir _ body => existsb (has_inc_arg incs) body
  | _ => false
  end.

(* self.kernel.is_reduction of a dof loop (one built-in per dof loop; no loop fusion modelled) *)
Fixpoint has_reduction (n : node) : bool :=
  match n with
  | NLoop _ _ body => existsb has_reduction body
  | NKern _ red _ => red
  | NDir _ body => existsb has_reduction body
  | _ => false
  end.

(* node.walk(...) contains a node satisfying p (the node itself included; kernels are leaves) *)
Fixpoint contains (p : node -> bool) (n : node) : bool :=
  p n || match n with
         | NLoop _ _ body => existsb (contains p) body
         | NDir _ body => existsb (contains p) body
         | _ => false
         end.
Definition is_halo (n : node) : bool := match n with NHalo => true | _ => false end.
Definition is_acc_dir (n : node) : bool := match n with NDir d _ => is_acc d | _ => false end.
Definition is_colours_loop (n : node) : bool :=
  match n with NLoop LColours _ _ => true | _ => false end.

(* ---------------------------------------------------------------- tree addressing
   A path leads from the schedule's child list to a CONTAINER (the child list of a loop body or
   of a directive body); `ancs` is the list of the ancestors met on the way, innermost first. *)
Inductive anc := ALoop (lt : ltype) | ADir (d : dir).
Definition anc_is_omp (a : anc) : bool := match a with ADir d => is_omp d | _ => false end.
Definition anc_is_dir (a : anc) : bool := match a with ADir d => dir_parallel d | _ => false end.

Definition splice (i n : nat) (new : list node) (l : list node) : list node :=
  firstn i l ++ new ++ skipn n (skipn i l).

Fixpoint upd (p : list nat) (f : list anc -> list node -> option (list node))
             (ancs : list anc) (l : list node) : option (list node) :=
  match p with
  | [] => f ancs l
  | i :: p' =>
      match nth_error l i with
      | Some (NLoop lt disc body) =>
          match upd p' f (ALoop lt :: ancs) body with
          | Some b' => Some (splice i 1 [NLoop lt disc b'] l)
          | None => None
          end
      | Some (NDir d body) =>
          match upd p' f (ADir d :: ancs) body with
          | Some b' => Some (splice i 1 [NDir d b'] l)
          | None => None
          end
      | _ => None
      end
  end.

(* ---------------------------------------------------------------- the transformations *)
(* LoopTrans.validate: a Loop, not of 'null' type; ParallelLoopTrans.excluded_node_types =
   (Return, HaloExchange, CodeBlock) for the OpenMP ones, (PSyDataNode,) for ACCLoopTrans and ()
   for the colouring. *)

(* Dynamo0p3ColourTrans.apply *)
Definition colour_f (i : nat) (ancs : list anc) (l : list node) : option (list node) :=
  match nth_error l i with
  | Some (NLoop lt disc body) =>
      if ltype_eqb lt LNull then None                 (* LoopTrans.validate *)
      else if disc then None                          (* discontinuous: not supported *)
      else if negb (ltype_eqb lt LCells) then None    (* only loops over cells *)
      else if existsb anc_is_omp ancs then None       (* node.ancestor(OMPDirective) *)
      else Some (splice i 1 [NLoop LColours disc [NLoop LColour disc body]] l)
  | _ => None
  end.

(* DynamoOMPParallelLoopTrans: validate then OMPParallelLoopTrans.apply *)
Definition ompparloop_ok (incs : list acc) (sc : bool) (lt : ltype) (disc : bool) (n : node) : bool :=
  negb ((negb (sc && disc)) && negb (ltype_eqb lt LColour) && has_inc_arg incs n) &&
  negb (contains is_halo n) && negb (ltype_eqb lt LNull) && negb (ltype_eqb lt LColours).

(* Dynamo0p3OMPLoopTrans *)
Definition omploop_ok (incs : list acc) (lt : ltype) (n : node) : bool :=
  negb (contains is_halo n) && negb (ltype_eqb lt LNull) && negb (ltype_eqb lt LColours) &&
  negb (negb (ltype_eqb lt LColour) && has_inc_arg incs n).

(* LFRicLoop.independent_iterations; None = an exception other than InternalError/KeyError
   escapes from the generic analysis *)
Definition independent_iterations (incs : list acc) (lt : ltype) (n : node) (da : daout) : option bool :=
  match lt with
  | LNull | LColours => Some false
  | _ =>
      match da with
      | DaTrue | DaCaught => Some true
      | DaOther => None
      | DaFalse =>
          match lt with
          | LColour => Some true
          | LDof => Some (negb (has_reduction n))
          | _ => Some (negb (has_inc_arg incs n))
          end
      end
  end.

(* number of tightly nested loops starting at n (ParallelLoopTrans.validate, `collapse`) *)
Definition nest2 (n : node) : bool :=
  match n with
  | NLoop _ _ (NLoop _ _ _ :: _) => true
  | _ => false
  end.

(* ACCLoopTrans = ParallelLoopTrans.validate with the options sequential / collapse=2 (gang, vector and
   independent only change clauses).  `sequential` skips the colours test and the dependence analysis.
   Every False answer of independent_iterations on a non-null, non-colours loop comes with a message
   that is not WARN_SCALAR_WRITTEN_ONCE, so validate raises. *)
Definition accloop_ok (incs : list acc) (lt : ltype) (n : node) (da : daout) (seq col2 : bool) : bool :=
  negb (ltype_eqb lt LNull) && (seq || negb (ltype_eqb lt LColours)) && (negb col2 || nest2 n) &&
  (seq || match independent_iterations incs lt n da with Some b => b | None => false end).
(* ACCLoopTrans.apply: the directive carries `seq` iff options["sequential"] *)
Definition accloop_dir (seq gang vec : bool) : dir := if seq then DAccLoopSeq else DAccLoop.

Definition wrap_loop_f (d : dir) (ok : ltype -> bool -> node -> bool) (i : nat)
           (ancs : list anc) (l : list node) : option (list node) :=
  match nth_error l i with
  | Some (NLoop lt disc body) =>
      if ok lt disc (NLoop lt disc body) then Some (splice i 1 [NDir d [NLoop lt disc body]] l)
      else None
  | _ => None
  end.

(* ParallelRegionTrans on the children i .. i+n-1 of one container *)
Definition region_f (d : dir) (i n : nat) (ancs : list anc) (l : list node) : option (list node) :=
  let sel := firstn n (skipn i l) in
  if (1 <=? n) && (i + n <=? length l) then
    if existsb (contains is_halo) sel then None                       (* both exclude HaloExchange *)
    else if is_omp d && existsb (contains is_acc_dir) sel then None  (* OMPParallelTrans excludes ACCDirective *)
    else if is_omp d && existsb anc_is_omp ancs then None            (* node_list[0].ancestor(OMPDirective) *)
    else Some (splice i n [NDir d sel] l)
  else None.

Inductive op :=
| OColour (p : list nat) (i : nat)
| OOmpParDo (p : list nat) (i : nat)
| OOmpDo (p : list nat) (i : nat)
| OAccLoop (p : list nat) (i : nat) (da : daout) (seq gang vec col2 : bool)
| OOmpParallel (p : list nat) (i n : nat)
| OAccParallel (p : list nat) (i n : nat).

Definition op_fun (incs : list acc) (sc : bool) (o : op) : list nat * (list anc -> list node -> option (list node)) :=
  match o with
  | OColour p i => (p, colour_f i)
  | OOmpParDo p i => (p, wrap_loop_f DOmpParallelDo (ompparloop_ok incs sc) i)
  | OOmpDo p i => (p, wrap_loop_f DOmpDo (fun lt _ n => omploop_ok incs lt n) i)
  | OAccLoop p i da seq gang vec col2 =>
      (p, wrap_loop_f (accloop_dir seq gang vec) (fun lt _ n => accloop_ok incs lt n da seq col2) i)
  | OOmpParallel p i n => (p, region_f DOmpParallel i n)
  | OAccParallel p i n => (p, region_f DAccParallel i n)
  end.

(* None = the transformation refuses (raises) *)
Definition step (incs : list acc) (sc : bool) (o : op) (t : tree) : option tree :=
  let pf := op_fun incs sc o in upd (fst pf) (snd pf) [] t.

(* a refused transformation leaves the tree as it was *)
Definition step_total (incs : list acc) (sc : bool) (t : tree) (o : op) : tree :=
  match step incs sc o t with Some t' => t' | None => t end.

Definition run (incs : list acc) (sc : bool) (h : list op) (t : tree) : tree :=
  fold_left (step_total incs sc) h t.

(* ---------------------------------------------------------------- the invariants (the property) *)
(* part A: no loop over cells that is the child of an OpenMP/OpenACC loop directive contains a
   kernel incrementing a field on a continuous/unknown space (loops of type 'colour' are exempt
   by being of another loop type) *)
Fixpoint invA (par : bool) (n : node) : bool :=
  match n with
  | NLoop lt _ body =>
      negb (par && ltype_eqb lt LCells && existsb has_incr body) && forallb (invA false) body
  | NDir d body => forallb (invA (is_loop_dir d)) body
  | _ => true
  end.
(* part B: no loop over colours below any OpenMP/OpenACC directive other than `acc loop seq` *)
Fixpoint invB (under : bool) (n : node) : bool :=
  match n with
  | NLoop lt _ body => negb (under && ltype_eqb lt LColours) && forallb (invB under) body
  | NDir d body => forallb (invB (under || dir_parallel d)) body
  | _ => true
  end.
Definition invA_t (t : tree) : bool := forallb (invA false) t.
Definition invB_t (t : tree) : bool := forallb (invB false) t.

(* ---------------------------------------------------------------- premises on the initial schedule *)
(* every incrementing argument belongs to a coded kernel and has an access has_inc_arg looks for *)
Fixpoint cov (incs : list acc) (n : node) : bool :=
  match n with
  | NLoop _ _ body => forallb (cov incs) body
  | NKern coded _ args => forallb (fun a => negb (incrementing a) || (coded && mem_acc (fst a) incs)) args
  | NDir _ body => forallb (cov incs) body
  | _ => true
  end.
(* a loop whose field space is discontinuous contains no incrementing kernel (relevant only when
   the shortcut is in the code) *)
Fixpoint wf (n : node) : bool :=
  match n with
  | NLoop _ disc body => negb (disc && existsb has_incr body) && forallb wf body
  | NDir _ body => forallb wf body
  | _ => true
  end.
Definition premises (incs : list acc) (sc : bool) (t : tree) : bool :=
  forallb (cov incs) t && (negb sc || forallb wf t).

(* the generic dependency analysis never claims independence (nor fails with a caught exception)
   for an uncoloured loop over cells that contains an incrementing kernel *)
Definition da_ok_f (da : daout) (i : nat) (ancs : list anc) (l : list node) : option (list node) :=
  match nth_error l i with
  | Some (NLoop LCells _ body) =>
      match da with
      | DaTrue | DaCaught => if existsb has_incr body then None else Some l
      | _ => Some l
      end
  | _ => Some l
  end.
Definition da_ok (o : op) (t : tree) : bool :=
  match o with
  | OAccLoop p i da _ _ _ _ => match upd p (da_ok_f da i) [] t with Some _ => true | None => false end
  | _ => true
  end.
Fixpoint hist_ok (ok : op -> tree -> bool) (incs : list acc) (sc : bool) (h : list op) (t : tree) : bool :=
  match h with
  | [] => true
  | o :: h' => ok o t && hist_ok ok incs sc h' (step_total incs sc t o)
  end.

(* ---------------------------------------------------------------- "safe" guards for part B
   (what the code does NOT check today): a directive must not be put around nodes that contain
   a loop over colours at any depth, and a loop must not be coloured below ANY directive. *)
Definition op_sel (o : op) (l : list node) : list node :=
  match o with
  | OColour _ _ => []
  | OOmpParDo _ i | OOmpDo _ i | OAccLoop _ i _ _ _ _ _ => firstn 1 (skipn i l)
  | OOmpParallel _ i n | OAccParallel _ i n => firstn n (skipn i l)
  end.
Definition safeB_f (o : op) (ancs : list anc) (l : list node) : option (list node) :=
  if existsb (contains is_colours_loop) (op_sel o l) then None
  else match o with
       | OColour _ _ => if existsb anc_is_dir ancs then None else Some l
       | _ => Some l
       end.
Definition op_path (o : op) : list nat :=
  match o with
  | OColour p _ | OOmpParDo p _ | OOmpDo p _ | OAccLoop p _ _ _ _ _ _ | OOmpParallel p _ _
  | OAccParallel p _ _ => p
  end.
(* accepted by the code => also passes the guard *)
Definition safeB (incs : list acc) (sc : bool) (o : op) (t : tree) : bool :=
  match step incs sc o t with
  | None => true
  | Some _ => match upd (op_path o) (safeB_f o) [] t with Some _ => true | None => false end
  end.

(* schedules as PSyclone generates them: no directive yet *)
Fixpoint nodir (n : node) : bool :=
  match n with
  | NDir _ _ => false
  | NLoop _ _ body => forallb nodir body
  | _ => true
  end.
(* built-ins (non-coded kernels) have no incrementing argument *)
Definition no_builtin_incr (t : tree) : bool := forallb (cov [AInc; AReadInc]) t.

Definition covers_all (incs : list acc) : bool := mem_acc AInc incs && mem_acc AReadInc incs.

(* ---------------------------------------------------------------- equality on trees (harness) *)
Fixpoint list_eqb {A} (e : A -> A -> bool) (a b : list A) : bool :=
  match a, b with
  | [], [] => true
  | x :: a', y :: b' => e x y && list_eqb e a' b'
  | _, _ => false
  end.
Definition karg_eqb (a b : karg) : bool := acc_eqb (fst a) (fst b) && cont_eqb (snd a) (snd b).
Fixpoint node_eqb (a b : node) : bool :=
  match a, b with
  | NLoop l1 d1 b1, NLoop l2 d2 b2 =>
      ltype_eqb l1 l2 && Bool.eqb d1 d2 &&
      (fix go (x y : list node) : bool :=
         match x, y with
         | [], [] => true
         | n :: x', m :: y' => node_eqb n m && go x' y'
         | _, _ => false
         end) b1 b2
  | NKern c1 r1 a1, NKern c2 r2 a2 => Bool.eqb c1 c2 && Bool.eqb r1 r2 && list_eqb karg_eqb a1 a2
  | NDir d1 b1, NDir d2 b2 =>
      dir_eqb d1 d2 &&
      (fix go (x y : list node) : bool :=
         match x, y with
         | [], [] => true
         | n :: x', m :: y' => node_eqb n m && go x' y'
         | _, _ => false
         end) b1 b2
  | NHalo, NHalo => true
  | NOther, NOther => true
  | _, _ => false
  end.
Definition tree_eqb (a b : tree) : bool := list_eqb node_eqb a b.

(* One correspondence case: tree before, operation, did the implementation accept, tree after,
   and the property evaluated directly on the implementation's tree after (A, B). *)
Record case := { c_before : tree; c_op : op; c_accepted : bool; c_after : tree;
                 c_pyA : bool; c_pyB : bool }.
(* lenient: implementation accepts => model accepts with the same tree; invariants agree *)
Definition case_ok (incs : list acc) (sc : bool) (c : case) : bool :=
  (if c_accepted c then
     match step incs sc (c_op c) (c_before c) with
     | Some t' => tree_eqb t' (c_after c)
     | None => false
     end
   else tree_eqb (c_before c) (c_after c)) &&
  Bool.eqb (invA_t (c_after c)) (c_pyA c) && Bool.eqb (invB_t (c_after c)) (c_pyB c).
(* strict: the model also refuses whenever the implementation does *)
Definition case_strict (incs : list acc) (sc : bool) (c : case) : bool :=
  case_ok incs sc c &&
  (c_accepted c || match step incs sc (c_op c) (c_before c) with None => true | Some _ => false end).
