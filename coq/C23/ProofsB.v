(* C23 part B: loops over colours never end up below a directive -- proved for the histories
   whose accepted steps also pass the guard `safeB` (the code does not check it: see the
   refutations in Refute.v). *)
From Coq Require Import List Bool Arith Lia Btauto.
Import ListNotations.
From PV Require Import C23.Model C23.Lemmas C23.ProofsA.

Definition chkB (under : bool) (lt : ltype) (_ _ : bool) : bool := negb (under && ltype_eqb lt LColours).
Definition clB (c : bool) (_ : ltype) : bool := c.
Definition cdB (c : bool) (d : dir) : bool := c || dir_parallel d.
Definition ginvB : bool -> node -> bool := ginv chkB (fun _ => true) clB cdB.

Lemma ginvB_eq : forall n under, ginvB under n = invB under n.
Proof.
  apply (node_ind2 (fun n => forall under, ginvB under n = invB under n)).
  - intros lt disc body IH under. cbn. unfold chkB, clB.
    rewrite (forallb_ext_Forall (ginvB under) (invB under) body); [reflexivity|].
    eapply Forall_impl; [|exact IH]. intros a Ha. apply Ha.
  - reflexivity.
  - intros d body IH under. cbn. unfold cdB.
    apply forallb_ext_Forall. eapply Forall_impl; [|exact IH]. intros a Ha. apply Ha.
  - reflexivity.
  - reflexivity.
Qed.

Lemma ginvB_list : forall l under, forallb (ginvB under) l = forallb (invB under) l.
Proof.
  intros l under. apply forallb_ext_Forall. apply Forall_forall. intros n _. apply ginvB_eq.
Qed.

Lemma ctxB_eq : forall ancs, ctx clB cdB ancs = existsb anc_is_dir ancs.
Proof.
  induction ancs as [|a ancs IH]; [reflexivity|].
  change (ctx clB cdB (a :: ancs)) with (cstep clB cdB a (ctx clB cdB ancs)).
  rewrite IH. destruct a; cbn.
  - reflexivity.
  - unfold cdB. apply orb_comm.
Qed.

(* a subtree without any loop over colours may be put below a directive *)
Lemma lift_list (l : list node) : forall u,
  Forall (fun n => forall u, contains is_colours_loop n = false -> invB u n = true -> invB true n = true) l ->
  existsb (contains is_colours_loop) l = false -> forallb (invB u) l = true -> forallb (invB true) l = true.
Proof.
  intros u. induction 1 as [|x l Hx _ IH]; cbn; intros Hc Hi; [reflexivity|].
  apply orb_false_iff in Hc. destruct Hc as [Hc1 Hc2].
  apply andb_true_iff in Hi. destruct Hi as [Hi1 Hi2].
  rewrite (Hx u Hc1 Hi1), (IH Hc2 Hi2). reflexivity.
Qed.

Lemma lift_under : forall n u,
  contains is_colours_loop n = false -> invB u n = true -> invB true n = true.
Proof.
  apply (node_ind2 (fun n => forall u, contains is_colours_loop n = false -> invB u n = true -> invB true n = true)).
  - intros lt disc body IH u Hc Hi. cbn in *.
    apply orb_false_iff in Hc. destruct Hc as [Hc1 Hc2].
    apply andb_true_iff in Hi. destruct Hi as [_ Hi2].
    rewrite (lift_list body u IH Hc2 Hi2).
    destruct lt; cbn in *; try reflexivity; discriminate.
  - reflexivity.
  - intros d body IH u Hc Hi. cbn in *. exact (lift_list body _ IH Hc Hi).
  - reflexivity.
  - reflexivity.
Qed.

Lemma lift_all : forall l u,
  existsb (contains is_colours_loop) l = false -> forallb (invB u) l = true -> forallb (invB true) l = true.
Proof.
  intros l u. apply lift_list. apply Forall_forall. intros n _. apply lift_under.
Qed.

Lemma invB_dir_par : forall u d l, dir_parallel d = true ->
  forallb (invB u) [NDir d l] = forallb (invB true) l.
Proof. intros u d l H. cbn. rewrite H, orb_true_r, andb_true_r. reflexivity. Qed.

Section B.
  Variable incs : list acc.
  Variable sc : bool.

  (* the local edit together with the guard keeps part B *)
  Lemma siteB : forall o ancs m m',
    both (snd (op_fun incs sc o)) (safeB_f o) ancs m = Some m' ->
    forallb (ginvB (ctx clB cdB ancs)) m = true -> forallb (ginvB (ctx clB cdB ancs)) m' = true.
  Proof.
    intros o ancs m m' H Hm. unfold both, safeB_f in H.
    rewrite ctxB_eq in *. rewrite ginvB_list in *.
    destruct (existsb (contains is_colours_loop) (op_sel o m)) eqn:Esel; try discriminate.
    destruct o as [p i|p i|p i|p i da sq gg vv c2|p i n|p i n]; cbn [op_fun snd op_sel] in *.
    - (* colour *)
      destruct (existsb anc_is_dir ancs) eqn:Eu; try discriminate.
      unfold colour_f in H.
      destruct (nth_error m i) as [[lt disc body|? ? ?|? ?| |]|] eqn:En; try discriminate.
      destruct (ltype_eqb lt LNull); try discriminate. destruct disc; try discriminate.
      destruct (negb (ltype_eqb lt LCells)); try discriminate.
      destruct (existsb anc_is_omp ancs); try discriminate.
      inversion H; subst. apply forallb_splice; [exact Hm|].
      pose proof (forallb_nth _ _ _ _ Hm En) as Hn. cbn in Hn. cbn.
      rewrite Hn. reflexivity.
    - (* omp parallel do *)
      unfold wrap_loop_f in H.
      destruct (nth_error m i) as [[lt disc body|? ? ?|? ?| |]|] eqn:En; try discriminate.
      destruct (ompparloop_ok incs sc lt disc (NLoop lt disc body)); try discriminate.
      inversion H; subst. apply forallb_splice; [exact Hm|].
      rewrite (nth_range1 _ _ _ En) in Esel.
      rewrite invB_dir_par by reflexivity.
      apply (lift_all [NLoop lt disc body] (existsb anc_is_dir ancs) Esel).
      cbn [forallb]. rewrite (forallb_nth _ _ _ _ Hm En). reflexivity.
    - (* omp do *)
      unfold wrap_loop_f in H.
      destruct (nth_error m i) as [[lt disc body|? ? ?|? ?| |]|] eqn:En; try discriminate.
      destruct (omploop_ok incs lt (NLoop lt disc body)); try discriminate.
      inversion H; subst. apply forallb_splice; [exact Hm|].
      rewrite (nth_range1 _ _ _ En) in Esel.
      rewrite invB_dir_par by reflexivity.
      apply (lift_all [NLoop lt disc body] (existsb anc_is_dir ancs) Esel).
      cbn [forallb]. rewrite (forallb_nth _ _ _ _ Hm En). reflexivity.
    - (* acc loop *)
      unfold wrap_loop_f in H.
      destruct (nth_error m i) as [[lt disc body|? ? ?|? ?| |]|] eqn:En; try discriminate.
      destruct (accloop_ok incs lt (NLoop lt disc body) da sq c2); try discriminate.
      inversion H; subst. apply forallb_splice; [exact Hm|].
      rewrite (nth_range1 _ _ _ En) in Esel.
      destruct sq; cbn [accloop_dir].
      + cbn. rewrite orb_false_r, !andb_true_r.
        pose proof (forallb_nth _ _ _ _ Hm En) as Hn. cbn in Hn. exact Hn.
      + rewrite invB_dir_par by reflexivity.
        apply (lift_all [NLoop lt disc body] (existsb anc_is_dir ancs) Esel).
        cbn [forallb]. rewrite (forallb_nth _ _ _ _ Hm En). reflexivity.
    - (* omp parallel *)
      rewrite (region_shape _ _ _ _ _ _ H). apply forallb_splice; [exact Hm|].
      rewrite invB_dir_par by reflexivity.
      apply (lift_all _ (existsb anc_is_dir ancs) Esel). apply forallb_range. exact Hm.
    - (* acc parallel *)
      rewrite (region_shape _ _ _ _ _ _ H). apply forallb_splice; [exact Hm|].
      rewrite invB_dir_par by reflexivity.
      apply (lift_all _ (existsb anc_is_dir ancs) Esel). apply forallb_range. exact Hm.
  Qed.

  Lemma op_path_fst : forall o, op_path o = fst (op_fun incs sc o).
  Proof. destruct o; reflexivity. Qed.

  Lemma stepB : forall o t t',
    step incs sc o t = Some t' -> safeB incs sc o t = true -> invB_t t = true -> invB_t t' = true.
  Proof.
    intros o t t' Hs Hsafe Ht. unfold safeB in Hsafe. rewrite Hs in Hsafe.
    destruct (upd (op_path o) (safeB_f o) [] t) as [x|] eqn:Eg; try discriminate.
    unfold step in Hs. rewrite op_path_fst in Eg.
    pose proof (upd_both _ _ _ _ _ _ _ Hs Eg) as Hb.
    unfold invB_t in *. rewrite <- ginvB_list in *.
    change false with (ctx clB cdB []).
    eapply (upd_ginv chkB (fun _ => true) clB cdB); [| |exact Hb|exact Ht].
    - apply both_incr. intros ancs m m' H. eapply op_incr; eauto.
    - intros ancs m m' H Hm. eapply siteB; eauto.
  Qed.

  Theorem invB_safe_histories : forall h t0,
    invB_t t0 = true -> hist_ok (safeB incs sc) incs sc h t0 = true ->
    invB_t (run incs sc h t0) = true.
  Proof.
    induction h as [|o h IH]; intros t Ht Hh; cbn in *; [exact Ht|].
    apply andb_true_iff in Hh. destruct Hh as [Hsafe Hh].
    apply IH; [|exact Hh]. unfold step_total.
    destruct (step incs sc o t) as [t'|] eqn:Es; [|exact Ht].
    eapply stepB; eauto.
  Qed.
End B.
