(* small executable helpers shared by the correspondence cases *)
From Coq Require Import List NArith ZArith Bool String Ascii.
Import ListNotations.

Fixpoint list_beq {A} (eqb : A -> A -> bool) (a b : list A) : bool :=
  match a, b with
  | [], [] => true
  | x :: a', y :: b' => eqb x y && list_beq eqb a' b'
  | _, _ => false
  end.

Definition option_beq {A} (eqb : A -> A -> bool) (a b : option A) : bool :=
  match a, b with
  | None, None => true
  | Some x, Some y => eqb x y
  | _, _ => false
  end.

Lemma list_beq_eq {A} (eqb : A -> A -> bool) :
  (forall x y, eqb x y = true <-> x = y) -> forall a b, list_beq eqb a b = true <-> a = b.
Proof.
  intros H a; induction a as [|x a IH]; intros [|y b]; simpl; split; intro E; try congruence; try reflexivity.
  - apply andb_true_iff in E as [E1 E2]. apply H in E1. apply IH in E2. congruence.
  - inversion E; subst. apply andb_true_iff; split; [apply H; reflexivity | apply IH; reflexivity].
Qed.
